(* C11/Emit.v — layer 1.5: the instruction emitters of pol_prog_builder.go and the label/jump resolution of
   asm.Block, re-implemented in Gallina for the part of the IR that needs neither an IP-set lookup nor a CIDR
   compare.  Definitions only.

   Go                                                   here
   -------------------------------------------------    -------------------------------------------
   writeProgramHeader                                   emit_header
   writeProtoMatch / writeICMPTypeMatch /               lower_cond (CProto / CIcmpType / CIcmpTypeCode)
     writeICMPTypeCodeMatch
   writeJumpIfToOrFromHost                              lower_cond CHost
   writePortsMatch (numeric ranges: one Load16, then    lower_ir on runs of CPort tests of one leg and target
     JEQ for a single port, [JLT skip] JLE for a range)
   writeEndOfRule (jump / log flag)                     lower of IJmp / ISetLog
   writeProgramFooter, writeExitTarget                  emit_footer_deny / emit_footer_allow
   asm.Block: add (drops unreachable instructions),     asm_add, asm_label, assemble
     LabelNextInsn (eager fix-ups), TargetIsUsed
   asm.MakeInsn                                         encode_word (inverse of Bpf.decode_word)

   `lower_program` turns the IR of Model.instructions into the instruction words of the single unsplit program
   (no flow logs, no policy debug, default trampoline stride).  check_case compares them word for word with what the
   real builder produced whenever the configuration is inside this fragment; EmitProofs.v proves that each emitted
   template, run by Bpf.step, does what its IR instruction does. *)
From Coq Require Import List NArith ZArith Bool.
From Verif.Common Require Import Packet PolicyRef.
From Verif.C11 Require Import Bpf Model.
Import ListNotations.
Open Scope Z_scope.

(* ------------------------------------------------------------------ opcodes (felix/bpf/asm/asm.go) *)
Definition OP_MOV64 : N := 191.      (* 0xbf  ALU64 | SrcReg | Mov *)
Definition OP_MOVIMM64 : N := 183.   (* 0xb7 *)
Definition OP_MOVIMM32 : N := 180.   (* 0xb4 *)
Definition OP_ADDIMM64 : N := 7.     (* 0x07 *)
Definition OP_ANDIMM64 : N := 87.    (* 0x57 *)
Definition OP_ORIMM64 : N := 71.     (* 0x47 *)
Definition OP_LDX8 : N := 113.       (* 0x71 *)
Definition OP_LDX16 : N := 105.      (* 0x69 *)
Definition OP_LDX32 : N := 97.       (* 0x61 *)
Definition OP_LDX64 : N := 121.      (* 0x79 *)
Definition OP_STX32 : N := 99.       (* 0x63 *)
Definition OP_STX64 : N := 123.      (* 0x7b *)
Definition OP_LDIMM64 : N := 24.     (* 0x18 *)
Definition OP_JA : N := 5.           (* 0x05 *)
Definition OP_JEQIMM : N := 21.      (* 0x15 *)
Definition OP_JNEIMM : N := 85.      (* 0x55 *)
Definition OP_JLTIMM : N := 165.     (* 0xa5 *)
Definition OP_JLEIMM : N := 181.     (* 0xb5 *)
Definition OP_CALL : N := 133.       (* 0x85 *)
Definition OP_EXIT : N := 149.       (* 0x95 *)

(* offsets within struct cali_tc_state / the context / the stack, as the builder hard-codes them *)
Definition OFFS_POL_RC : Z := 92.   Definition OFFS_SPORT : Z := 96.      Definition OFFS_ICMP : Z := 98.
Definition OFFS_PRE_DPORT : Z := 100.  Definition OFFS_POST_DPORT : Z := 102.  Definition OFFS_PROTO : Z := 104.
Definition OFFS_FLAGS : Z := 368.
Definition OFF_CB0 : Z := 48.       Definition OFF_CB1 : Z := 52.
Definition OFF_STATE_KEY : Z := -4.

Definition port_off (lg : leg) : Z :=
  match lg with LegSrc => OFFS_SPORT | LegDst => OFFS_POST_DPORT | LegDstPre => OFFS_PRE_DPORT end.

(* ------------------------------------------------------------------ pseudo instructions *)
Inductive plabel := PL (l : label) | PLExit.
Definition plabel_eqb (a b : plabel) : bool :=
  match a, b with PL x, PL y => label_eqb x y | PLExit, PLExit => true | _, _ => false end.

Inductive pinsn :=
| PRaw (r : raw)                    (* offset as given *)
| PJmp (r : raw) (t : plabel)       (* offset fixed up to the next definition of t *)
| PLabel (t : plabel).

Definition ld_mapfd (dst fd : N) : list pinsn := [PRaw (R OP_LDIMM64 dst 1 0 (Z.of_N fd)); PRaw (R 0 0 0 0 0)].

Record emit_cfg := { ec_state_fd : N; ec_static_fd : N; ec_usejmps : bool; ec_allow : N; ec_deny : N; ec_xdp : bool }.

Definition emit_header (c : emit_cfg) : list pinsn :=
  [PRaw (R OP_MOV64 6 1 0 0); PRaw (R OP_MOVIMM64 1 0 0 0); PRaw (R OP_STX32 10 1 OFF_STATE_KEY 0);
   PRaw (R OP_MOV64 2 10 0 0); PRaw (R OP_ADDIMM64 2 0 0 OFF_STATE_KEY)]
  ++ ld_mapfd 1 (ec_state_fd c)
  ++ [PRaw (R OP_CALL 0 0 0 1); PJmp (R OP_JEQIMM 0 0 0 0) PLExit; PRaw (R OP_MOV64 9 0 0 0)].

Definition exit_code (c : emit_cfg) : Z := if ec_xdp c then 1 else 2.

Definition emit_footer_deny (c : emit_cfg) : list pinsn :=
  [PLabel (PL LDeny); PRaw (R OP_MOVIMM32 1 0 0 2); PRaw (R OP_STX32 9 1 OFFS_POL_RC 0); PRaw (R OP_MOV64 1 6 0 0)]
  ++ ld_mapfd 2 (ec_static_fd c)
  ++ [if ec_usejmps c then PRaw (R OP_MOVIMM32 3 0 0 (Z.of_N (ec_deny c))) else PRaw (R OP_LDX32 3 6 OFF_CB1 0);
      PRaw (R OP_CALL 0 0 0 12);
      PLabel PLExit; PRaw (R OP_MOVIMM64 0 0 0 (exit_code c)); PRaw (R OP_EXIT 0 0 0 0)]
  ++ (if ec_xdp c then [PLabel (PL LXdpPass); PRaw (R OP_MOVIMM64 0 0 0 2); PRaw (R OP_EXIT 0 0 0 0)] else []).

Definition emit_footer_allow (c : emit_cfg) : list pinsn :=
  [PLabel (PL LAllow); PRaw (R OP_MOVIMM32 1 0 0 1); PRaw (R OP_STX32 9 1 OFFS_POL_RC 0); PRaw (R OP_MOV64 1 6 0 0)]
  ++ ld_mapfd 2 (ec_static_fd c)
  ++ [if ec_usejmps c then PRaw (R OP_MOVIMM32 3 0 0 (Z.of_N (ec_allow c))) else PRaw (R OP_LDX32 3 6 OFF_CB0 0);
      PRaw (R OP_CALL 0 0 0 12);
      PRaw (R OP_MOVIMM32 1 0 0 10); PRaw (R OP_STX32 9 1 OFFS_POL_RC 0);
      PRaw (R OP_MOVIMM64 0 0 0 (exit_code c)); PRaw (R OP_EXIT 0 0 0 0)].

(* ------------------------------------------------------------------ lowering the IR *)
Definition jcc (sense : bool) : N := if sense then OP_JEQIMM else OP_JNEIMM.

(* the tests that need no lookup and no address compare *)
Definition lower_cond (sense : bool) (c : cond) (t : plabel) : option (list pinsn) :=
  match c with
  | CProto n => Some [PRaw (R OP_LDX8 1 9 OFFS_PROTO 0); PJmp (R (jcc sense) 1 0 0 (Z.of_N n)) t]
  | CIcmpType ty => Some [PRaw (R OP_LDX8 1 9 OFFS_ICMP 0); PJmp (R (jcc sense) 1 0 0 (Z.of_N ty)) t]
  | CIcmpTypeCode ty co =>
      Some [PRaw (R OP_LDX16 1 9 OFFS_ICMP 0); PJmp (R (jcc sense) 1 0 0 (Z.of_N (N.lor (N.shiftl co 8) ty))) t]
  | CHost =>
      if sense then
        Some [PRaw (R OP_LDX64 1 9 OFFS_FLAGS 0); PRaw (R OP_ANDIMM64 1 0 0 12); PJmp (R OP_JNEIMM 1 0 0 0) t]
      else None
  | _ => None
  end.

(* one numeric port range, R1 already holding the port *)
Definition lower_range (r : port_range) (t : plabel) : list pinsn :=
  let '(f, l) := r in
  if N.eqb f l then [PJmp (R OP_JEQIMM 1 0 0 (Z.of_N f)) t]
  else (if N.ltb 0 f then [PRaw (R OP_JLTIMM 1 0 1 (Z.of_N f))] else [])   (* too low: skip the next instruction *)
       ++ [PJmp (R OP_JLEIMM 1 0 0 (Z.of_N l)) t].

Definition same_port_run (prev : option ir) (lg : leg) (t : label) : bool :=
  match prev with
  | Some (IJmpIf true (CPort lg' _) t') =>
      label_eqb t t' && match lg, lg' with LegSrc, LegSrc | LegDst, LegDst | LegDstPre, LegDstPre => true | _, _ => false end
  | _ => false
  end.

Fixpoint lower_ir (prev : option ir) (p : list ir) : option (list pinsn) :=
  match p with
  | [] => Some []
  | i :: rest =>
      let here :=
        match i with
        | ILabel l => Some [PLabel (PL l)]
        | IJmp l => Some [PJmp (R OP_JA 0 0 0 0) (PL l)]
        | ISetLog => Some [PRaw (R OP_LDX64 1 9 OFFS_FLAGS 0); PRaw (R OP_ORIMM64 1 0 0 1024); PRaw (R OP_STX64 9 1 OFFS_FLAGS 0)]
        | IJmpIf true (CPort lg r) t =>
            Some ((if same_port_run prev lg t then [] else [PRaw (R OP_LDX16 1 9 (port_off lg) 0)])
                  ++ lower_range r (PL t))
        | IJmpIf sense c t => lower_cond sense c (PL t)
        end in
      match here, lower_ir (Some i) rest with
      | Some a, Some b => Some (a ++ b)
      | _, _ => None
      end
  end.

(* ------------------------------------------------------------------ asm.Block *)
Record astate := {
  a_rev : list raw;                       (* emitted instructions, last first *)
  a_n : Z;                                (* = length emitted *)
  a_pending : list plabel;                (* labels attached to the next instruction *)
  a_used : list plabel;                   (* inUseJumpTargets *)
  a_unres : list (Z * plabel);            (* jumps waiting for their label *)
  a_fix : list (Z * Z)                    (* resolved: instruction index -> offset *)
}.
Definition a_init : astate := {| a_rev := []; a_n := 0; a_pending := []; a_used := []; a_unres := []; a_fix := [] |}.

Definition pmem (l : plabel) (ls : list plabel) : bool := existsb (plabel_eqb l) ls.

(* nextInsnReachable *)
Definition reachable (a : astate) : bool :=
  match a_rev a with
  | [] => true
  | last :: _ =>
      if N.eqb (r_op last) OP_JA || N.eqb (r_op last) OP_EXIT
      then existsb (fun l => pmem l (a_used a)) (a_pending a)
      else true
  end.

Definition asm_emit (a : astate) (r : raw) (t : option plabel) : astate :=
  if reachable a then
    {| a_rev := r :: a_rev a; a_n := a_n a + 1; a_pending := [];
       a_used := match t with Some l => l :: a_used a | None => a_used a end;
       a_unres := match t with Some l => (a_n a, l) :: a_unres a | None => a_unres a end;
       a_fix := a_fix a |}
  else
    {| a_rev := a_rev a; a_n := a_n a; a_pending := []; a_used := a_used a; a_unres := a_unres a; a_fix := a_fix a |}.

(* LabelNextInsn: eager fix-ups of every waiting jump to this label *)
Definition asm_label (a : astate) (l : plabel) : astate :=
  let hit := filter (fun e => plabel_eqb l (snd e)) (a_unres a) in
  let rest := filter (fun e => negb (plabel_eqb l (snd e))) (a_unres a) in
  {| a_rev := a_rev a; a_n := a_n a; a_pending := l :: a_pending a; a_used := a_used a;
     a_unres := rest; a_fix := map (fun e => (fst e, a_n a - fst e - 1)) hit ++ a_fix a |}.

Definition asm_add (a : astate) (i : pinsn) : astate :=
  match i with
  | PRaw r => asm_emit a r None
  | PJmp r t => asm_emit a r (Some t)
  | PLabel l => asm_label a l
  end.

Fixpoint zassoc (k : Z) (l : list (Z * Z)) : option Z :=
  match l with [] => None | (k', v) :: t => if k =? k' then Some v else zassoc k t end.

Fixpoint apply_fix (fix_ : list (Z * Z)) (idx : Z) (l : list raw) : list raw :=
  match l with
  | [] => []
  | r :: t =>
      (match zassoc idx fix_ with
       | Some off => R (r_op r) (r_dst r) (r_src r) off (r_imm r)
       | None => r
       end) :: apply_fix fix_ (idx + 1) t
  end.

(* Assemble: every jump must have found its label *)
Definition asm_finish (a : astate) : option (list raw) :=
  match a_unres a with
  | [] => Some (apply_fix (a_fix a) 0 (rev (a_rev a)))
  | _ => None
  end.

(* asm.MakeInsn *)
Definition encode_word (r : raw) : N :=
  (r_op r + 256 * (r_dst r + 16 * r_src r)
   + 65536 * Z.to_N (r_off r mod 65536)
   + 4294967296 * Z.to_N (r_imm r mod 4294967296))%N.

(* the whole unsplit program of a configuration inside the fragment (None: outside, or the builder panics) *)
Definition lower_program (vr : variant) (v : ipver) (c : emit_cfg) (r : brules) : option (list N) :=
  match instructions vr v r with
  | WPanic => None
  | WOk body =>
      match lower_ir None body with
      | None => None
      | Some pb =>
          let a := fold_left asm_add (emit_header c ++ pb ++ emit_footer_deny c) a_init in
          let a' := if pmem (PL LAllow) (a_used a) then fold_left asm_add (emit_footer_allow c) a else a in
          match asm_finish a' with
          | Some insns => Some (map encode_word insns)
          | None => None
          end
      end
  end.
