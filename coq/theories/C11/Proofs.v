(* C11/Proofs.v — the IR semantics is compositional; every writer of Model.v produces a fragment whose behaviour
   is the PolicyRef meaning of what it was given.  Part 1: generic lemmas and one rule. *)
From Coq Require Import List NArith Bool Lia Btauto.
From Verif.Common Require Import Packet PolicyRef.
From Verif.C11 Require Import Bpf Model Spec.
Import ListNotations.

Lemma exec_app : forall ev p1 p2 m lg,
  exec ev (p1 ++ p2) m lg = let '(m1, lg1) := exec ev p1 m lg in exec ev p2 m1 lg1.
Proof.
  induction p1 as [|i p1 IH]; intros p2 m lg; simpl.
  - reflexivity.
  - destruct m as [l|].
    + destruct i; try apply IH. destruct (label_eqb l l0); apply IH.
    + destruct i; try apply IH. destruct (Bool.eqb (ev c) sense); apply IH.
Qed.

Lemma label_eqb_eq : forall a b, label_eqb a b = true <-> a = b.
Proof.
  intros a b; split.
  - destruct a, b; simpl; intro H; try discriminate; try reflexivity;
      try (apply N.eqb_eq in H; subst; reflexivity).
    apply andb_true_iff in H. destruct H as [H1 H2]. apply N.eqb_eq in H1, H2. subst. reflexivity.
  - intros <-. destruct a; simpl; try reflexivity; rewrite ?N.eqb_refl; reflexivity.
Qed.
Lemma label_eqb_refl : forall a, label_eqb a a = true.
Proof. intro a. apply label_eqb_eq. reflexivity. Qed.
Lemma label_eqb_neq : forall a b, a <> b -> label_eqb a b = false.
Proof. intros a b H. destruct (label_eqb a b) eqn:E; auto. apply label_eqb_eq in E. contradiction. Qed.

Section Exec.
Variable ev : cond -> bool.

(* `steps c m m'`: from mode m the fragment c ends in mode m', whatever the log flag *)
Definition steps (c : list ir) (m m' : option label) : Prop := forall lg, fst (exec ev c m lg) = m'.

Lemma steps_nil : forall m, steps [] m m.
Proof. intros m lg. reflexivity. Qed.

Lemma steps_app : forall c1 c2 m m1 m2, steps c1 m m1 -> steps c2 m1 m2 -> steps (c1 ++ c2) m m2.
Proof.
  intros c1 c2 m m1 m2 H1 H2 lg. rewrite exec_app. specialize (H1 lg).
  destruct (exec ev c1 m lg) as [m1' lg1]. simpl in H1. subst m1'. apply H2.
Qed.

Lemma steps_det : forall c m m1 m2, steps c m m1 -> steps c m m2 -> m1 = m2.
Proof. intros c m m1 m2 H1 H2. rewrite <- (H1 false). apply H2. Qed.

(* labels a fragment defines all satisfy P *)
Definition defs_in (P : label -> bool) (c : list ir) : Prop := forall l, In (ILabel l) c -> P l = true.

Lemma defs_in_nil : forall P, defs_in P [].
Proof. intros P l []. Qed.
Lemma defs_in_app : forall P c1 c2, defs_in P c1 -> defs_in P c2 -> defs_in P (c1 ++ c2).
Proof. intros P c1 c2 H1 H2 l H. apply in_app_or in H. destruct H; auto. Qed.
Lemma defs_in_weaken : forall (P Q : label -> bool) c, (forall l, P l = true -> Q l = true) -> defs_in P c -> defs_in Q c.
Proof. intros P Q c H H1 l Hl. auto. Qed.
Lemma defs_in_map_nolabel : forall P {A} (f : A -> ir) (xs : list A),
  (forall a l, f a <> ILabel l) -> defs_in P (map f xs).
Proof. intros P A f xs H l Hl. apply in_map_iff in Hl. destruct Hl as [a [Ha _]]. exfalso. eapply H; eauto. Qed.

(* a pending jump passes over a fragment that does not define its label *)
Lemma steps_skip : forall P c l, defs_in P c -> P l = false -> steps c (Some l) (Some l).
Proof.
  intros P c l Hd Hl. induction c as [|i c IH]; intro lg; simpl; [reflexivity|].
  assert (Hc : defs_in P c) by (intros l' H'; apply Hd; right; exact H').
  destruct i; try (apply IH; exact Hc).
  destruct (label_eqb l l0) eqn:E.
  - apply label_eqb_eq in E. subst l0. rewrite (Hd l) in Hl by (left; reflexivity). discriminate.
  - apply IH; exact Hc.
Qed.

Lemma exec_skip : forall P c l lg, defs_in P c -> P l = false -> exec ev c (Some l) lg = (Some l, lg).
Proof.
  intros P c l lg Hd Hl. revert lg. induction c as [|i c IH]; intro lg; simpl; [reflexivity|].
  assert (Hc : defs_in P c) by (intros l' H'; apply Hd; right; exact H').
  destruct i; try (apply IH; exact Hc).
  destruct (label_eqb l l0) eqn:E.
  - apply label_eqb_eq in E. subst l0. rewrite (Hd l) in Hl by (left; reflexivity). discriminate.
  - apply IH; exact Hc.
Qed.

(* a run of conditional jumps to one label: the first test that fires decides *)
Definition fires (t : bool * cond) : bool := Bool.eqb (ev (snd t)) (fst t).
Definition tests_to (L : label) (ts : list (bool * cond)) : list ir := map (fun t => IJmpIf (fst t) (snd t) L) ts.

Lemma exec_tests : forall L ts rest lg,
  exec ev (tests_to L ts ++ rest) None lg = exec ev rest (if existsb fires ts then Some L else None) lg.
Proof.
  intros L ts rest lg. induction ts as [|t ts IH]; simpl; [reflexivity|].
  unfold fires at 1. destruct (Bool.eqb (ev (snd t)) (fst t)); simpl.
  - change (exec ev (tests_to L ts ++ rest) (Some L) lg = exec ev rest (Some L) lg).
    rewrite exec_app. rewrite (exec_skip (fun _ => false)); [reflexivity| |reflexivity].
    apply defs_in_map_nolabel. intros a l H; discriminate.
  - exact IH.
Qed.

Lemma steps_tests : forall L ts, steps (tests_to L ts) None (if existsb fires ts then Some L else None).
Proof.
  intros L ts lg. rewrite <- (app_nil_r (tests_to L ts)). rewrite exec_tests. reflexivity.
Qed.

Lemma defs_in_tests : forall P L ts, defs_in P (tests_to L ts).
Proof. intros. apply defs_in_map_nolabel. intros a l H; discriminate. Qed.

(* ------------------------------------------------------------------ criteria of one rule *)
Definition is_part (l : label) : bool := match l with LPart _ _ => true | _ => false end.
Definition is_rule_label (l : label) : bool := match l with LPart _ _ | LNoMatch _ => true | _ => false end.

(* a criterion fragment of rule `rid`: falls through when b holds, otherwise leaves a jump to rule_<rid>_no_match
   pending; defines part labels only *)
Definition crit (rid : N) (c : list ir) (b : bool) : Prop :=
  steps c None (if b then None else Some (LNoMatch rid)) /\ defs_in is_part c.

Lemma crit_nil : forall rid, crit rid [] true.
Proof. intro rid. split; [apply steps_nil | apply defs_in_nil]. Qed.

Lemma crit_app : forall rid c1 c2 b1 b2, crit rid c1 b1 -> crit rid c2 b2 -> crit rid (c1 ++ c2) (b1 && b2).
Proof.
  intros rid c1 c2 b1 b2 [S1 D1] [S2 D2]. split; [|apply defs_in_app; assumption].
  destruct b1; simpl.
  - eapply steps_app; [exact S1 | exact S2].
  - eapply steps_app; [exact S1 |]. eapply steps_skip; [exact D2 | reflexivity].
Qed.

Lemma crit_eq : forall rid c b b', crit rid c b -> b = b' -> crit rid c b'.
Proof. intros; subst; assumption. Qed.

(* AND group: every test jumps to no_match when it fires *)
Lemma crit_and_tests : forall rid ts, crit rid (tests_to (LNoMatch rid) ts) (negb (existsb fires ts)).
Proof.
  intros rid ts. split; [|apply defs_in_tests].
  intro lg. rewrite (steps_tests (LNoMatch rid) ts lg). destruct (existsb fires ts); reflexivity.
Qed.

(* OR group: any test that fires jumps to the part label placed after the "else no_match" jump *)
Lemma crit_or_tests : forall rid k ts,
  crit rid (tests_to (LPart rid k) ts ++ [IJmp (LNoMatch rid); ILabel (LPart rid k)]) (existsb fires ts).
Proof.
  intros rid k ts. split.
  - intro lg. rewrite exec_tests. destruct (existsb fires ts); simpl.
    + rewrite !N.eqb_refl. reflexivity.
    + reflexivity.
  - apply defs_in_app; [apply defs_in_tests|].
    intros l [H|[H|[]]]; inversion H; reflexivity.
Qed.

End Exec.

(* existsb over a mapped list *)
Lemma existsb_map : forall {A B} (f : A -> B) (g : B -> bool) (l : list A), existsb g (map f l) = existsb (fun a => g (f a)) l.
Proof. induction l; simpl; congruence. Qed.
Lemma existsb_ext' : forall {A} (f g : A -> bool) l, (forall a, f a = g a) -> existsb f l = existsb g l.
Proof. intros A f g l H. induction l; simpl; congruence. Qed.
Lemma existsb_app' : forall {A} (f : A -> bool) l1 l2, existsb f (l1 ++ l2) = existsb f l1 || existsb f l2.
Proof. intros. apply existsb_app. Qed.
Lemma forallb_negb_existsb : forall {A} (f : A -> bool) l, forallb (fun a => negb (f a)) l = negb (existsb f l).
Proof. induction l; simpl; [reflexivity|]. rewrite IHl. destruct (f a); reflexivity. Qed.
Lemma forallb_as_negb_existsb : forall {A} (f : A -> bool) l, forallb f l = negb (existsb (fun a => negb (f a)) l).
Proof. induction l; simpl; [reflexivity|]. rewrite IHl. destruct (f a); reflexivity. Qed.
Lemma tests_to_map : forall {A} L (f : A -> bool * cond) (xs : list A),
  tests_to L (map f xs) = map (fun a => IJmpIf (fst (f a)) (snd (f a)) L) xs.
Proof. intros. unfold tests_to. rewrite map_map. reflexivity. Qed.
