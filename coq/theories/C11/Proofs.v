(* C11/Proofs.v — lemmas about the IR semantics and the writers. *)
From Coq Require Import List NArith Bool Lia.
From Verif.Common Require Import Packet PolicyRef.
From Verif.C11 Require Import Bpf Model Spec.
Import ListNotations.

Lemma exec_app : forall ev p1 p2 m lg,
  exec ev (p1 ++ p2) m lg = let '(m1, lg1) := exec ev p1 m lg in exec ev p2 m1 lg1.
Proof.
  induction p1 as [|i p1 IH]; intros p2 m lg; simpl.
  - reflexivity.
  - destruct m as [l|].
    + destruct i; try apply IH. destruct (label_eqb l l0); apply IH.
    + destruct i; try apply IH. destruct (Bool.eqb (ev c) sense); apply IH.
Qed.
