(* C11/ProofsRule.v — one rule: the code write_rule produces jumps to the action label exactly when
   PolicyRef.rule_matches holds, otherwise falls through to the next rule. *)
From Coq Require Import List NArith Bool Lia Btauto.
From Verif.Common Require Import Packet PolicyRef.
From Verif.C11 Require Import Bpf Model Spec Proofs.
Import ListNotations.

Lemma eqb_true_r' : forall b, Bool.eqb b true = b.
Proof. destruct b; reflexivity. Qed.
Lemma eqb_false_r' : forall b, Bool.eqb b false = negb b.
Proof. destruct b; reflexivity. Qed.

(* ------------------------------------------------------------------ FilterRuleToIPVersion vs rule_version_ok *)
Lemma list_eq_dec_nil : forall {A} (l : list A), {l = []} + {l <> []}.
Proof. intros A l. destruct l; [left; reflexivity | right; discriminate]. Qed.

Lemma existsb_filter_same : forall {A} (f g : A -> bool) l,
  (forall a, f a = true -> g a = true) -> existsb f (filter g l) = existsb f l.
Proof.
  intros A f g l H. induction l as [|a l IH]; simpl; [reflexivity|].
  destruct (g a) eqn:G; simpl; rewrite IH; [reflexivity|].
  destruct (f a) eqn:F; [|reflexivity]. rewrite (H a F) in G. discriminate.
Qed.

Lemma filter_nonempty_existsb : forall {A} (g : A -> bool) l, filter g l <> [] -> existsb g l = true.
Proof.
  intros A g l. induction l as [|a l IH]; simpl; [congruence|].
  destruct (g a); simpl; auto.
Qed.
Lemma filter_empty_existsb : forall {A} (g : A -> bool) l, filter g l = [] -> existsb g l = false.
Proof.
  intros A g l. induction l as [|a l IH]; simpl; [reflexivity|].
  destruct (g a); simpl; [discriminate | auto].
Qed.

Lemma in_cidr_version : forall c v x, in_cidr c v x = true -> ipver_eqb (cidr_ver c) v = true.
Proof. intros c v x H. unfold in_cidr in H. apply andb_true_iff in H. tauto. Qed.

Lemma filter_nets_some : forall nets v neg l x,
  filter_nets nets v neg = Some l ->
  field_has_version nets v = true
  /\ existsb (fun c => in_cidr c v x) l = existsb (fun c => in_cidr c v x) nets
  /\ is_nil l = is_nil nets.
Proof.
  intros nets v neg l x H. unfold filter_nets in H. destruct nets as [|c0 nets'].
  - inversion H. repeat split.
  - set (nets := c0 :: nets') in *.
    destruct (neg && existsb cidr_is_catch_all (filter (fun c => ipver_eqb (cidr_ver c) v) nets)); [discriminate|].
    destruct (filter (fun c => ipver_eqb (cidr_ver c) v) nets) as [|d ds] eqn:F; [discriminate|].
    inversion H; subst l. split; [|split].
    + unfold field_has_version. change (is_nil nets) with false. rewrite orb_false_l.
      apply filter_nonempty_existsb. rewrite F. discriminate.
    + rewrite <- F. apply existsb_filter_same. intros a Ha. eapply in_cidr_version; exact Ha.
    + reflexivity.
Qed.

Lemma shiftr_small : forall x w, (x < 2 ^ w)%N -> N.shiftr x w = 0%N.
Proof.
  intros x w H. destruct (N.eq_dec x 0) as [->|Hx]; [apply N.shiftr_0_l|].
  apply N.shiftr_eq_0. apply N.log2_lt_pow2; lia.
Qed.

Lemma in_cidr_catch_all : forall c v x,
  cidr_is_catch_all c = true -> ipver_eqb (cidr_ver c) v = true -> (x < 2 ^ addr_width v)%N -> in_cidr c v x = true.
Proof.
  intros c v x Hc Hv Hx. unfold cidr_is_catch_all in Hc. apply andb_true_iff in Hc. destruct Hc as [Ha Hl].
  apply N.eqb_eq in Ha, Hl. unfold in_cidr. rewrite Hv, Ha, Hl. simpl. rewrite N.sub_0_r.
  rewrite shiftr_small by exact Hx. rewrite N.shiftr_0_l. reflexivity.
Qed.

(* outcome of filter_nets = None *)
Lemma filter_nets_none : forall nets v neg x, (x < 2 ^ addr_width v)%N ->
  filter_nets nets v neg = None ->
  field_has_version nets v = false \/ (neg = true /\ existsb (fun c => in_cidr c v x) nets = true).
Proof.
  intros nets v neg x Hx H. unfold filter_nets in H. destruct nets as [|c0 nets']; [discriminate|].
  set (nets := c0 :: nets') in *.
  destruct (neg && existsb cidr_is_catch_all (filter (fun c => ipver_eqb (cidr_ver c) v) nets)) eqn:E.
  - right. apply andb_true_iff in E. destruct E as [-> E]. split; [reflexivity|].
    apply existsb_exists in E. destruct E as [c [Hin Hc]]. apply filter_In in Hin. destruct Hin as [Hin Hv].
    apply existsb_exists. exists c. split; [exact Hin|]. apply in_cidr_catch_all; assumption.
  - destruct (filter (fun c => ipver_eqb (cidr_ver c) v) nets) eqn:F; [|discriminate].
    left. unfold field_has_version. change (is_nil nets) with false. rewrite orb_false_l.
    apply filter_empty_existsb. exact F.
Qed.

Section Rule.
Variables (v : ipver) (s : ipsets) (bs : bpfsets) (kind : N -> bool) (ps : pstate).
Hypothesis Hsets : forall id a pr po, bs id a pr po = if kind id then s id (MemIPPort a pr po) else s id (MemIP a).
Hypothesis Haddr : forall lg, (leg_addr ps lg < 2 ^ addr_width v)%N.

Definition typed_rule (r : rule) : bool :=
  forallb (fun id => negb (kind id)) (r_src_ipsets r ++ r_dst_ipsets r ++ r_not_src_ipsets r ++ r_not_dst_ipsets r)
  && forallb kind (r_src_named_ports r ++ r_dst_named_ports r ++ r_not_src_named_ports r ++ r_not_dst_named_ports r
                   ++ r_dst_ipport_sets r).

Let ev := eval_cond v bs ps.

Lemma crit_single : forall rid sense c, crit ev rid [IJmpIf sense c (LNoMatch rid)] (negb (Bool.eqb (ev c) sense)).
Proof.
  intros rid sense c. split.
  - intro lg. simpl. destruct (Bool.eqb (ev c) sense); reflexivity.
  - intros l [H|[]]. discriminate.
Qed.

Lemma write_cidrs_nonempty : forall rid part neg lg cs, cs <> [] ->
  write_cidrs rid part neg lg cs =
  if neg then (map (fun c => IJmpIf true (CCidr lg c) (LNoMatch rid)) cs, part)
  else (map (fun c => IJmpIf true (CCidr lg c) (LPart rid part)) cs ++ [IJmp (LNoMatch rid); ILabel (LPart rid part)], (part + 1)%N).
Proof. intros. destruct cs; [congruence | reflexivity]. Qed.

Lemma is_nil_false : forall {A} (l : list A), l <> [] -> is_nil l = false.
Proof. intros A l H. destruct l; [congruence | reflexivity]. Qed.

Lemma crit_cidrs : forall rid part neg lg cs c part',
  write_cidrs rid part neg lg cs = (c, part') ->
  crit ev rid c (if neg then negb (existsb (fun c => in_cidr c v (leg_addr ps lg)) cs)
                 else is_nil cs || existsb (fun c => in_cidr c v (leg_addr ps lg)) cs).
Proof.
  intros rid part neg lg cs c part' H. destruct (list_eq_dec_nil cs) as [->|Hne].
  - inversion H. destruct neg; apply crit_nil.
  - rewrite write_cidrs_nonempty in H by exact Hne. destruct neg; inversion H; subst c part'; clear H.
    + replace (map (fun c => IJmpIf true (CCidr lg c) (LNoMatch rid)) cs)
      with (tests_to (LNoMatch rid) (map (fun c => (true, CCidr lg c)) cs)) by (unfold tests_to; rewrite map_map; reflexivity).
      eapply crit_eq; [apply crit_and_tests|]. f_equal. rewrite existsb_map. apply existsb_ext'.
      intro a. unfold fires. simpl. apply eqb_true_r'.
    + replace (map (fun c => IJmpIf true (CCidr lg c) (LPart rid part)) cs)
      with (tests_to (LPart rid part) (map (fun c => (true, CCidr lg c)) cs)) by (unfold tests_to; rewrite map_map; reflexivity).
      eapply crit_eq; [apply crit_or_tests|]. rewrite (is_nil_false _ Hne), orb_false_l.
      rewrite existsb_map. apply existsb_ext'. intro a. unfold fires. simpl. apply eqb_true_r'.
Qed.

Lemma crit_sets_and : forall rid neg lg ids,
  crit ev rid (write_sets_and rid neg lg ids)
       (if neg then negb (existsb (fun id => bs id (leg_addr ps lg) (ps_proto ps) (leg_port ps lg)) ids)
        else forallb (fun id => bs id (leg_addr ps lg) (ps_proto ps) (leg_port ps lg)) ids).
Proof.
  intros rid neg lg ids. unfold write_sets_and.
  replace (map (fun id => IJmpIf neg (CSet lg id) (LNoMatch rid)) ids)
      with (tests_to (LNoMatch rid) (map (fun id => (neg, CSet lg id)) ids)) by (unfold tests_to; rewrite map_map; reflexivity).
  eapply crit_eq; [apply crit_and_tests|]. rewrite existsb_map. destruct neg.
  - f_equal. apply existsb_ext'. intro a. unfold fires. simpl. apply eqb_true_r'.
  - rewrite forallb_as_negb_existsb. f_equal; try reflexivity; apply existsb_ext'; intro a; unfold fires; simpl; apply eqb_false_r'.
Qed.

Lemma crit_sets_or : forall rid part lg ids c part',
  write_sets_or rid part lg ids = (c, part') ->
  crit ev rid c (is_nil ids || existsb (fun id => bs id (leg_addr ps lg) (ps_proto ps) (leg_port ps lg)) ids).
Proof.
  intros rid part lg ids c part' H. destruct (list_eq_dec_nil ids) as [->|Hne].
  - inversion H. apply crit_nil.
  - assert (E : write_sets_or rid part lg ids =
               (map (fun id => IJmpIf true (CSet lg id) (LPart rid part)) ids ++ [IJmp (LNoMatch rid); ILabel (LPart rid part)], (part + 1)%N))
      by (destruct ids; [congruence | reflexivity]).
    rewrite E in H. inversion H; subst c part'; clear H E.
    replace (map (fun id => IJmpIf true (CSet lg id) (LPart rid part)) ids)
      with (tests_to (LPart rid part) (map (fun id => (true, CSet lg id)) ids)) by (unfold tests_to; rewrite map_map; reflexivity).
    eapply crit_eq; [apply crit_or_tests|]. rewrite (is_nil_false _ Hne), orb_false_l.
    rewrite existsb_map. apply existsb_ext'. intro a. unfold fires. simpl. apply eqb_true_r'.
Qed.

Definition ports_hit_ir (lg : leg) (ranges : list port_range) (named : list N) : bool :=
  existsb (fun r => in_range r (leg_port ps lg)) ranges
  || existsb (fun id => bs id (leg_addr ps lg) (ps_proto ps) (leg_port ps lg)) named.

Lemma crit_ports : forall rid part neg lg ranges named c part',
  write_ports rid part neg lg ranges named = (c, part') ->
  crit ev rid c (if neg then negb (ports_hit_ir lg ranges named)
                 else (is_nil ranges && is_nil named) || ports_hit_ir lg ranges named).
Proof.
  intros rid part neg lg ranges named c part' H.
  assert (Hfire : existsb (fires ev)
            (map (fun r => (true, CPort lg r)) ranges ++ map (fun id => (true, CSet lg id)) named)
          = ports_hit_ir lg ranges named).
  { rewrite existsb_app, !existsb_map. unfold ports_hit_ir. f_equal; apply existsb_ext'; intro a;
      unfold fires; simpl; apply eqb_true_r'. }
  assert (Hcode : forall L, map (fun r => IJmpIf true (CPort lg r) L) ranges ++ map (fun id => IJmpIf true (CSet lg id) L) named
            = tests_to L (map (fun r => (true, CPort lg r)) ranges ++ map (fun id => (true, CSet lg id)) named)).
  { intro L. unfold tests_to. rewrite map_app, !map_map. reflexivity. }
  destruct (is_nil ranges && is_nil named) eqn:Enil.
  - assert (ranges = [] /\ named = []) as [-> ->].
    { destruct ranges, named; simpl in Enil; try discriminate; auto. }
    inversion H. destruct neg; apply crit_nil.
  - assert (E : write_ports rid part neg lg ranges named =
               let on_match := if neg then LNoMatch rid else LPart rid part in
               let tests := map (fun r => IJmpIf true (CPort lg r) on_match) ranges
                            ++ map (fun id => IJmpIf true (CSet lg id) on_match) named in
               if neg then (tests, part) else (tests ++ [IJmp (LNoMatch rid); ILabel on_match], (part + 1)%N)).
    { destruct ranges, named; simpl in Enil; try discriminate; reflexivity. }
    rewrite E in H. clear E. cbv zeta in H.
    destruct neg; inversion H; subst c part'; clear H; rewrite Hcode.
    + eapply crit_eq; [apply crit_and_tests|]. rewrite Hfire. reflexivity.
    + eapply crit_eq; [apply crit_or_tests|]. rewrite Hfire. reflexivity.
Qed.

Lemma crit_icmp : forall rid neg m,
  crit ev rid (write_icmp rid neg m)
       (opt_ok m (fun x => if neg then negb (icmp_ok x (packet_of v ps LegDst)) else icmp_ok x (packet_of v ps LegDst))).
Proof.
  intros rid neg m. destruct m as [[t|t c]|]; simpl.
  - eapply crit_eq; [apply crit_single|]. simpl. destruct neg, (N.eqb (ps_icmp_type ps) t); reflexivity.
  - eapply crit_eq; [apply crit_single|]. simpl.
    destruct neg, (N.eqb (ps_icmp_type ps) t && N.eqb (ps_icmp_code ps) c); reflexivity.
  - apply crit_nil.
Qed.

(* ------------------------------------------------------------------ the tail of a rule and the chain of criteria *)
Definition end_mode (tg : target) : option label := match tg with TJump l => Some l | TLog => None end.
Definition target_ok (tg : target) : bool := match tg with TJump l => negb (is_rule_label l) | TLog => true end.

(* `rule_rest rid tg rest b`: `rest` is the remainder of rule rid's code; b = all remaining criteria hold *)
Definition rule_rest (rid : N) (tg : target) (rest : list ir) (b : bool) : Prop :=
  steps ev rest None (if b then end_mode tg else None)
  /\ steps ev rest (Some (LNoMatch rid)) None
  /\ defs_in is_rule_label rest.

Lemma rule_rest_base : forall rid tg, target_ok tg = true ->
  rule_rest rid tg ((match tg with TLog => [ISetLog] | TJump l => [IJmp l] end) ++ [ILabel (LNoMatch rid)]) true.
Proof.
  intros rid tg Hok. split; [|split].
  - intro lg. destruct tg as [l|]; simpl; [|reflexivity].
    rewrite label_eqb_neq; [reflexivity|]. intros ->. discriminate.
  - intro lg. destruct tg; simpl; rewrite N.eqb_refl; reflexivity.
  - intros l H. apply in_app_or in H. destruct H as [H|[H|[]]].
    + destruct tg; destruct H as [H|[]]; discriminate.
    + inversion H. reflexivity.
Qed.

Lemma is_part_rule_label : forall l, is_part l = true -> is_rule_label l = true.
Proof. destruct l; simpl; auto. Qed.

Lemma rule_rest_step : forall rid tg f rest bf br,
  crit ev rid f bf -> rule_rest rid tg rest br -> rule_rest rid tg (f ++ rest) (bf && br).
Proof.
  intros rid tg f rest bf br [Sf Df] [S1 [S2 D]]. split; [|split].
  - destruct bf; simpl.
    + eapply steps_app; [exact Sf | exact S1].
    + eapply steps_app; [exact Sf | exact S2].
  - eapply steps_app; [|exact S2]. eapply steps_skip; [exact Df | reflexivity].
  - apply defs_in_app; [|exact D]. eapply defs_in_weaken; [apply is_part_rule_label | exact Df].
Qed.

Lemma rule_rest_eq : forall rid tg rest b b', rule_rest rid tg rest b -> b = b' -> rule_rest rid tg rest b'.
Proof. intros; subst; assumption. Qed.

(* ------------------------------------------------------------------ the whole rule *)
Definition rule_sem (c : list ir) (matches : bool) (tg : target) : Prop :=
  steps ev c None (if matches then end_mode tg else None) /\ defs_in is_rule_label c.

Lemma ports_hit_ir_ref : forall lg ranges named m,
  forallb kind named = true ->
  m = MemIPPort (leg_addr ps lg) (ps_proto ps) (leg_port ps lg) ->
  ports_hit_ir lg ranges named = ports_hit s ranges named (leg_port ps lg) m.
Proof.
  intros lg ranges named m Hk ->. unfold ports_hit_ir, ports_hit, in_ranges. f_equal.
  induction named as [|id named IH]; simpl; [reflexivity|].
  simpl in Hk. apply andb_true_iff in Hk. destruct Hk as [Hk1 Hk2].
  rewrite Hsets, Hk1. rewrite IH by exact Hk2. reflexivity.
Qed.

Lemma forallb_ip : forall ids a pr po, forallb (fun id => negb (kind id)) ids = true ->
  forallb (fun id => bs id a pr po) ids = forallb (fun id => s id (MemIP a)) ids.
Proof.
  induction ids as [|id ids IH]; intros a pr po Hk; simpl; [reflexivity|].
  simpl in Hk. apply andb_true_iff in Hk. destruct Hk as [Hk1 Hk2]. apply negb_true_iff in Hk1.
  rewrite Hsets, Hk1, IH by exact Hk2. reflexivity.
Qed.
Lemma existsb_ip : forall ids a pr po, forallb (fun id => negb (kind id)) ids = true ->
  existsb (fun id => bs id a pr po) ids = existsb (fun id => s id (MemIP a)) ids.
Proof.
  induction ids as [|id ids IH]; intros a pr po Hk; simpl; [reflexivity|].
  simpl in Hk. apply andb_true_iff in Hk. destruct Hk as [Hk1 Hk2]. apply negb_true_iff in Hk1.
  rewrite Hsets, Hk1, IH by exact Hk2. reflexivity.
Qed.
Lemma forallb_port : forall ids a pr po, forallb kind ids = true ->
  forallb (fun id => bs id a pr po) ids = forallb (fun id => s id (MemIPPort a pr po)) ids.
Proof.
  induction ids as [|id ids IH]; intros a pr po Hk; simpl; [reflexivity|].
  simpl in Hk. apply andb_true_iff in Hk. destruct Hk as [Hk1 Hk2].
  rewrite Hsets, Hk1, IH by exact Hk2. reflexivity.
Qed.

Lemma forallb_app' : forall {A} (f : A -> bool) l1 l2, forallb f (l1 ++ l2) = forallb f l1 && forallb f l2.
Proof. intros. apply forallb_app. Qed.

Lemma proto_num_fixed : forall byname o n, name_consistent byname o = true -> o = Some n -> proto_num fixed_variant byname n = n.
Proof.
  intros byname o n H ->. unfold proto_num. destruct byname as [k|]; [|reflexivity].
  simpl in H. apply N.eqb_eq in H. subst n. destruct k; reflexivity.
Qed.

Lemma singleton_or_forall : forall (f : N -> bool) ids, (N.of_nat (length ids) <=? 1)%N = true ->
  is_nil ids || existsb f ids = forallb f ids.
Proof.
  intros f ids H. destruct ids as [|a [|b ids]]; simpl; [reflexivity| |].
  - rewrite orb_false_r, andb_true_r. reflexivity.
  - apply N.leb_le in H. simpl length in H. lia.
Qed.

Theorem write_rule_sem : forall rid b tg dleg c rid',
  write_rule fixed_variant v rid b (Some tg) dleg = WOk (c, rid') ->
  valid_rule b = true -> typed_rule (b_rule b) = true -> target_ok tg = true ->
  rule_sem c (rule_matches s (b_rule b) (packet_of v ps dleg)) tg.
Proof.
  intros rid b tg dleg c rid' H Hvalid Htyped Hok.
  unfold write_rule in H. set (r := b_rule b) in *.
  destruct (filter_rule v r) as [f|] eqn:Hf.
  2:{ (* the rule is not written: it matches nothing of this IP version *)
    inversion H; subst c. assert (Hm : rule_matches s r (packet_of v ps dleg) = false).
    { unfold filter_rule in Hf. unfold rule_matches. cbn [pk_ver packet_of pk_src pk_dst].
      unfold rule_version_ok.
      destruct (opt_ok (r_ipver r) (ipver_eqb v)) eqn:E0; [|reflexivity]. simpl in Hf.
      destruct (filter_nets (r_src_nets r) v false) as [l1|] eqn:E1.
      2:{ destruct (filter_nets_none _ _ _ _ (Haddr LegSrc) E1) as [E|[E _]]; [rewrite E; btauto | discriminate]. }
      destruct (filter_nets (r_not_src_nets r) v true) as [l2|] eqn:E2.
      2:{ destruct (filter_nets_none _ _ _ _ (Haddr LegSrc) E2) as [E|[_ E]].
          - rewrite E; btauto.
          - change (leg_addr ps LegSrc) with (ps_src ps) in E. rewrite E. btauto. }
      destruct (filter_nets (r_dst_nets r) v false) as [l3|] eqn:E3.
      2:{ destruct (filter_nets_none _ _ _ _ (Haddr dleg) E3) as [E|[E _]]; [rewrite E; btauto | discriminate]. }
      destruct (filter_nets (r_not_dst_nets r) v true) as [l4|] eqn:E4; [discriminate|].
      destruct (filter_nets_none _ _ _ _ (Haddr dleg) E4) as [E|[_ E]].
      - rewrite E; btauto.
      - rewrite E. btauto. }
    rewrite Hm. split; [apply steps_nil | apply defs_in_nil]. }
  unfold valid_rule in Hvalid. apply andb_true_iff in Hvalid. destruct Hvalid as [Hvalid Hn2].
  apply andb_true_iff in Hvalid. destruct Hvalid as [Hlen Hn1]. fold r in Hlen, Hn1, Hn2.
  destruct (1 <? N.of_nat (length (r_dst_ipsets r)))%N eqn:Hl.
  { apply N.ltb_lt in Hl. apply N.leb_le in Hlen. lia. }
  destruct (write_cidrs rid 0 false LegSrc (f_src f)) as [c_src p1] eqn:W1.
  destruct (write_cidrs rid p1 true LegSrc (f_not_src f)) as [c_nsrc p2] eqn:W2.
  destruct (write_cidrs rid p2 false dleg (f_dst f)) as [c_dst p3] eqn:W3.
  destruct (write_cidrs rid p3 true dleg (f_not_dst f)) as [c_ndst p4] eqn:W4.
  destruct (write_sets_or rid p4 dleg (r_dst_ipsets r)) as [c_dset p5] eqn:W5.
  destruct (write_ports rid p5 false LegSrc (r_src_ports r) (r_src_named_ports r)) as [c_sp p6] eqn:W6.
  destruct (write_ports rid p6 true LegSrc (r_not_src_ports r) (r_not_src_named_ports r)) as [c_nsp p7] eqn:W7.
  destruct (write_ports rid p7 false dleg (r_dst_ports r) (r_dst_named_ports r)) as [c_dp p8] eqn:W8.
  destruct (write_ports rid p8 true dleg (r_not_dst_ports r) (r_not_dst_named_ports r)) as [c_ndp p9] eqn:W9.
  inversion H; subst c rid'; clear H.
  (* the filtered CIDR lists mean what the unfiltered ones mean *)
  unfold filter_rule in Hf.
  destruct (opt_ok (r_ipver r) (ipver_eqb v)) eqn:E0; [|discriminate]. simpl in Hf.
  destruct (filter_nets (r_src_nets r) v false) as [l1|] eqn:E1; [|discriminate].
  destruct (filter_nets (r_not_src_nets r) v true) as [l2|] eqn:E2; [|discriminate].
  destruct (filter_nets (r_dst_nets r) v false) as [l3|] eqn:E3; [|discriminate].
  destruct (filter_nets (r_not_dst_nets r) v true) as [l4|] eqn:E4; [|discriminate].
  inversion Hf; subst f; clear Hf. cbn [f_src f_not_src f_dst f_not_dst] in *.
  destruct (filter_nets_some _ _ _ _ (ps_src ps) E1) as [V1 [X1 N1]].
  destruct (filter_nets_some _ _ _ _ (ps_src ps) E2) as [V2 [X2 _]].
  destruct (filter_nets_some _ _ _ _ (leg_addr ps dleg) E3) as [V3 [X3 N3]].
  destruct (filter_nets_some _ _ _ _ (leg_addr ps dleg) E4) as [V4 [X4 _]].
  (* typing of the sets *)
  unfold typed_rule in Htyped. fold r in Htyped. apply andb_true_iff in Htyped. destruct Htyped as [Tip Tport].
  repeat rewrite forallb_app' in Tip. repeat rewrite forallb_app' in Tport.
  apply andb_true_iff in Tip; destruct Tip as [T1 Tip].
  apply andb_true_iff in Tip; destruct Tip as [T2 Tip].
  apply andb_true_iff in Tip; destruct Tip as [T3 T4].
  apply andb_true_iff in Tport; destruct Tport as [U1 Tport].
  apply andb_true_iff in Tport; destruct Tport as [U2 Tport].
  apply andb_true_iff in Tport; destruct Tport as [U3 Tport].
  apply andb_true_iff in Tport; destruct Tport as [U4 U5].
  (* chain the criteria *)
  assert (Hrest :
    rule_rest rid tg
      (map (fun n => IJmpIf false (CProto (proto_num fixed_variant (b_pname b) n)) (LNoMatch rid)) (opt_list (r_proto r))
       ++ map (fun n => IJmpIf true (CProto (proto_num fixed_variant (b_npname b) n)) (LNoMatch rid)) (opt_list (r_not_proto r))
       ++ c_src ++ c_nsrc ++ c_dst ++ c_ndst
       ++ write_sets_and rid false LegSrc (r_src_ipsets r) ++ write_sets_and rid true LegSrc (r_not_src_ipsets r)
       ++ c_dset ++ write_sets_and rid true dleg (r_not_dst_ipsets r) ++ write_sets_and rid false dleg (r_dst_ipport_sets r)
       ++ c_sp ++ c_nsp ++ c_dp ++ c_ndp ++ write_icmp rid false (r_icmp r) ++ write_icmp rid true (r_not_icmp r)
       ++ (match tg with TLog => [ISetLog] | TJump l => [IJmp l] end) ++ [ILabel (LNoMatch rid)])
      (rule_matches s r (packet_of v ps dleg))).
  { eapply rule_rest_eq.
    - eapply rule_rest_step.
      { (* protocol *)
        instantiate (1 := opt_ok (r_proto r) (N.eqb (ps_proto ps))).
        destruct (r_proto r) as [n|] eqn:Ep; simpl; [|apply crit_nil].
        rewrite (proto_num_fixed _ _ _ Hn1 eq_refl).
        eapply crit_eq; [apply crit_single|]. simpl. destruct (N.eqb (ps_proto ps) n); reflexivity. }
      eapply rule_rest_step.
      { instantiate (1 := opt_ok (r_not_proto r) (fun n => negb (N.eqb (ps_proto ps) n))).
        destruct (r_not_proto r) as [n|] eqn:Ep; simpl; [|apply crit_nil].
        rewrite (proto_num_fixed _ _ _ Hn2 eq_refl).
        eapply crit_eq; [apply crit_single|]. simpl. destruct (N.eqb (ps_proto ps) n); reflexivity. }
      eapply rule_rest_step; [eapply crit_cidrs; exact W1|].
      eapply rule_rest_step; [eapply crit_cidrs; exact W2|].
      eapply rule_rest_step; [eapply crit_cidrs; exact W3|].
      eapply rule_rest_step; [eapply crit_cidrs; exact W4|].
      eapply rule_rest_step; [apply crit_sets_and|].
      eapply rule_rest_step; [apply crit_sets_and|].
      eapply rule_rest_step; [eapply crit_sets_or; exact W5|].
      eapply rule_rest_step; [apply crit_sets_and|].
      eapply rule_rest_step; [apply crit_sets_and|].
      eapply rule_rest_step; [eapply crit_ports; exact W6|].
      eapply rule_rest_step; [eapply crit_ports; exact W7|].
      eapply rule_rest_step; [eapply crit_ports; exact W8|].
      eapply rule_rest_step; [eapply crit_ports; exact W9|].
      eapply rule_rest_step; [apply crit_icmp|].
      eapply rule_rest_step; [apply crit_icmp|].
      apply rule_rest_base. exact Hok.
    - (* the conjunction, in the builder's order, is rule_matches *)
      unfold rule_matches. cbn [pk_ver packet_of pk_src pk_dst pk_proto pk_sport pk_dport].
      unfold rule_version_ok. rewrite E0, V1, V2, V3, V4. cbn [andb].
      unfold nets_ok. change (leg_addr ps LegSrc) with (ps_src ps).
      rewrite X1, X2, X3, X4, N1, N3.
      unfold ports_ok, src_port_member, dst_port_member, src_member, dst_member.
      cbn [pk_ver packet_of pk_src pk_dst pk_proto pk_sport pk_dport].
      rewrite (ports_hit_ir_ref LegSrc (r_src_ports r) (r_src_named_ports r) _ U1 eq_refl).
      rewrite (ports_hit_ir_ref LegSrc (r_not_src_ports r) (r_not_src_named_ports r) _ U3 eq_refl).
      rewrite (ports_hit_ir_ref dleg (r_dst_ports r) (r_dst_named_ports r) _ U2 eq_refl).
      rewrite (ports_hit_ir_ref dleg (r_not_dst_ports r) (r_not_dst_named_ports r) _ U4 eq_refl).
      rewrite (singleton_or_forall _ _ Hlen).
      rewrite (forallb_ip (r_src_ipsets r) _ _ _ T1), (existsb_ip (r_not_src_ipsets r) _ _ _ T3).
      rewrite (forallb_ip (r_dst_ipsets r) _ _ _ T2), (existsb_ip (r_not_dst_ipsets r) _ _ _ T4).
      rewrite (forallb_port (r_dst_ipport_sets r) _ _ _ U5).
      cbn [leg_addr leg_port].
      assert (Hi1 : opt_ok (r_icmp r) (fun x => icmp_ok x (packet_of v ps LegDst)) = opt_ok (r_icmp r) (fun m => icmp_ok m (packet_of v ps dleg))).
      { destruct (r_icmp r) as [[?|? ?]|]; reflexivity. }
      assert (Hi2 : opt_ok (r_not_icmp r) (fun x => negb (icmp_ok x (packet_of v ps LegDst))) = opt_ok (r_not_icmp r) (fun m => negb (icmp_ok m (packet_of v ps dleg)))).
      { destruct (r_not_icmp r) as [[?|? ?]|]; reflexivity. }
      rewrite Hi1, Hi2.
      match goal with |- ?L = _ =>
        let rec go t := lazymatch t with
          | andb ?a ?rest => (let x := fresh "A" in set (x := a)); go rest
          | _ => idtac end in go L end.
      btauto. }
  destruct Hrest as [S1 [_ D]]. split; assumption.
Qed.

(* a pending non-rule label passes over a rule *)
Lemma write_rule_skip : forall c matches tg l, rule_sem c matches tg -> is_rule_label l = false -> steps ev c (Some l) (Some l).
Proof. intros c matches tg l [_ D] Hl. eapply steps_skip; eauto. Qed.

End Rule.
