(* C11/Spec.v — what the property says, the observation of a real program run, the case record and check_case.

   Property: "for every policy configuration Felix can hand to the BPF dataplane (tiers, pre-DNAT,
   apply-on-forward and normal host policy, profiles, log rules) and every packet state, the compiled BPF
   policy program reaches the reference allow/deny verdict, including when the program is split across several
   chained programs.  Compiling any valid configuration never fails or crashes."

   The reference verdict of ONE policy section is Common/PolicyRef (rule_matches, tier_verdict,
   endpoint_verdict).  How the sections of polprog.Rules combine is what the comments of that struct and of
   Builder.Instructions say; ref_verdict below writes it down once, independently of the IR. *)
From Coq Require Import List NArith ZArith Bool.
From Verif.Common Require Import Packet PolicyRef.
From Verif.C11 Require Import Bpf Model Emit.
Import ListNotations.
Open Scope N_scope.

(* ------------------------------------------------------------------ reference verdict *)
Definition ref_policy (rs : list brule) : policy := {| pol_staged := false; pol_rules := map b_rule rs |}.
Definition ref_tier (t : btier) : tier :=
  {| t_policies := map ref_policy (bt_policies t);
     t_default := match bt_end t with EndDeny => DefaultDeny | EndPass => DefaultPass end |}.

(* tiers only: Allow/Deny final, otherwise "no decision" (reported as VPass) *)
Fixpoint tiers_verdict (s : ipsets) (ts : list tier) (p : packet) : verdict :=
  match ts with
  | [] => VPass
  | t :: rest => match tier_verdict s t p with
                 | VAllow => VAllow | VDeny => VDeny
                 | VPass | VNoMatch => tiers_verdict s rest p
                 end
  end.

(* the packet a section sees: source fields, and the destination of the given leg *)
Definition packet_of (v : ipver) (ps : pstate) (dleg : leg) : packet :=
  {| pk_ver := v; pk_proto := ps_proto ps; pk_src := ps_src ps; pk_dst := leg_addr ps dleg;
     pk_sport := ps_sport ps; pk_dport := leg_port ps dleg;
     pk_icmp_type := ps_icmp_type ps; pk_icmp_code := ps_icmp_code ps;
     pk_in := []; pk_out := []; pk_ct := CtNew; pk_mark := 0 |}.

Definition ref_workload (s : ipsets) (v : ipver) (r : brules) (ps : pstate) : rverdict :=
  if br_for_host r then RAllow
  else match endpoint_verdict s (map ref_tier (br_tiers r)) (map (map b_rule) (br_profiles r)) (packet_of v ps LegDst) with
       | VAllow => RAllow
       | _ => RDeny
       end.

Definition ref_verdict (s : ipsets) (v : ipver) (r : brules) (ps : pstate) : rverdict :=
  if br_xdp r then
    (* untracked policy: HostNormalTiers against the pre-DNAT destination; undecided traffic continues *)
    if br_suppress r then ref_workload s v r ps
    else match tiers_verdict s (map ref_tier (br_host_normal r)) (packet_of v ps LegDstPre) with
         | VAllow => ref_workload s v r ps
         | VDeny => RDeny
         | _ => RXdpPass
         end
  else
    (* pre-DNAT policy first; traffic continues if it does not decide *)
    match tiers_verdict s (map ref_tier (br_pre_dnat r)) (packet_of v ps LegDstPre) with
    | VDeny => RDeny
    | VAllow => ref_workload s v r ps
    | _ =>
        if to_or_from_host ps then
          (* to/from the host itself: normal host policy (tiers then profiles), unless suppressed *)
          if br_suppress r then ref_workload s v r ps
          else match endpoint_verdict s (map ref_tier (br_host_normal r)) (map (map b_rule) (br_host_profiles r))
                                      (packet_of v ps LegDst) with
               | VAllow => ref_workload s v r ps
               | _ => RDeny
               end
        else
          (* forwarded: apply-on-forward policy; traffic continues if it does not decide *)
          match tiers_verdict s (map ref_tier (br_forward r)) (packet_of v ps LegDst) with
          | VDeny => RDeny
          | _ => ref_workload s v r ps
          end
    end.

(* ------------------------------------------------------------------ which configurations are "valid" *)
(* what bpfEndpointManager.extractTiers / the calculation graph guarantee:
   - a tier is only handed over when it has policies; a tier whose policies are all staged gets EndPass;
   - at most one positive destination selector set per rule (the calc graph combines them);
   - a protocol given by name resolves by the IANA table. *)
Definition name_consistent (byname : option pname) (n : option N) : bool :=
  match byname, n with
  | None, _ => true
  | Some k, Some x => N.eqb x (iana k)
  | Some _, None => false
  end.
Definition valid_rule (b : brule) : bool :=
  (N.of_nat (length (r_dst_ipsets (b_rule b))) <=? 1)
  && name_consistent (b_pname b) (r_proto (b_rule b))
  && name_consistent (b_npname b) (r_not_proto (b_rule b)).
Definition valid_tier (t : btier) : bool :=
  (negb (is_nil (bt_policies t)) || match bt_end t with EndPass => true | EndDeny => false end)
  && forallb (forallb valid_rule) (bt_policies t).
Definition valid_rules (r : brules) : bool :=
  forallb valid_tier (br_tiers r) && forallb valid_tier (br_pre_dnat r) && forallb valid_tier (br_forward r)
  && forallb valid_tier (br_host_normal r)
  && forallb (forallb valid_rule) (br_profiles r) && forallb (forallb valid_rule) (br_host_profiles r).

(* ------------------------------------------------------------------ IP sets: one member table, two readings *)
Definition sets_table := list (N * list set_entry).

(* the reference reading (PolicyRef's oracle) *)
Definition ref_sets (w : N) (tbl : sets_table) : ipsets :=
  fun id m =>
    match assoc id tbl with
    | None => false
    | Some ens =>
        existsb (fun en => match m, en with
                           | MemIP a, ECidr c l => (l <=? w) && N.eqb (N.shiftr a (w - l)) (N.shiftr c (w - l))
                           | MemIPPort a pr po, EPort a' pr' po' => N.eqb a a' && N.eqb pr pr' && N.eqb po po'
                           | _, _ => false
                           end) ens
    end.

(* ------------------------------------------------------------------ struct cali_tc_state as bytes *)
Fixpoint le_bytes (n : nat) (x : N) : list N :=
  match n with O => [] | S k => (x mod 256) :: le_bytes k (x / 256) end.
Definition be_bytes (n : nat) (x : N) : list N := rev (le_bytes n x).
Definition zeros (n : nat) : list N := repeat 0 n.
Definition addr_bytes (v6 : bool) (x : N) : list N :=
  if v6 then be_bytes 16 x else be_bytes 4 x ++ zeros 12.

(* offsets: felix/bpf-gpl/types.h struct cali_tc_state (property C13 checks them against the Go constants) *)
Definition state_bytes (v6 : bool) (ps : pstate) : list N :=
  zeros 8                                    (*   0 eventhdr *)
  ++ addr_bytes v6 (ps_src ps)               (*   8 ip_src *)
  ++ addr_bytes v6 (ps_post_dst ps)          (*  24 ip_dst *)
  ++ addr_bytes v6 (ps_pre_dst ps)           (*  40 pre_nat_ip_dst *)
  ++ addr_bytes v6 (ps_post_dst ps)          (*  56 post_nat_ip_dst *)
  ++ zeros 16                                (*  72 tun_ip *)
  ++ zeros 4                                 (*  88 ihl, unused *)
  ++ zeros 4                                 (*  92 pol_rc *)
  ++ le_bytes 2 (ps_sport ps)                (*  96 sport *)
  ++ [ps_icmp_type ps mod 256; ps_icmp_code ps mod 256]   (*  98 dport / icmp_type, icmp_code *)
  ++ le_bytes 2 (ps_pre_dport ps)            (* 100 pre_nat_dport *)
  ++ le_bytes 2 (ps_post_dport ps)           (* 102 post_nat_dport *)
  ++ [ps_proto ps mod 256; 0]                (* 104 ip_proto, pad *)
  ++ zeros 2                                 (* 106 ip_size *)
  ++ zeros 4                                 (* 108 rules_hit *)
  ++ zeros 256                               (* 112 rule_ids[32] *)
  ++ le_bytes 8 (ps_flags ps)                (* 368 flags *)
  ++ zeros 136.                              (* 376 .. 511 *)

Definition OFF_POL_RC : Z := 92.
Definition OFF_FLAGS : Z := 368.

(* context: skb->cb[0] / cb[1] hold the allow / deny program indexes when the builder was not given fixed ones *)
Definition ctx_bytes (cb0 cb1 : N) : list N :=
  zeros 48 ++ le_bytes 4 cb0 ++ le_bytes 4 cb1 ++ zeros 200.

(* ------------------------------------------------------------------ the case record *)
Inductive compile_result :=
| CPanic                                   (* the builder panicked *)
| CError                                   (* Instructions returned an error *)
| COk (words : list (list N)).             (* the assembled sub-programs as 8-byte instruction words, entry point first *)

Record case := {
  c_v6 : bool;
  c_variant : variant;                     (* probed from the tree under test *)
  c_usejmps : bool;                        (* WithAllowDenyJumps(allow, deny) was given *)
  c_allow : N; c_deny : N;                 (* static jump map indexes of the allow / deny epilogues *)
  c_jump_base : N; c_stride : N;           (* WithPolicyMapIndexAndStride: sub-program k sits at base + k*stride *)
  c_rules : brules;
  c_sets : sets_table;
  c_result : compile_result;
  c_probes : list pstate;
  c_plain : bool                           (* built without flow logs, policy debug, trampoline stride and splitting *)
}.

(* typed constants for the case terms printed by the driver (an untyped [] / None is slow to elaborate) *)
Definition nC : list cidr := [].        Definition nP : list port_range := [].   Definition nN : list N := [].
Definition nR : list brule := [].       Definition nPr : list (list brule) := [].  Definition nT : list btier := [].
Definition nE : list set_entry := [].
Definition nST : list (N * list set_entry) := [].
Definition oN : option N := None.       Definition oV : option ipver := None.
Definition oI : option icmp_match := None.  Definition oK : option pname := None.
Definition sN (n : N) : option N := Some n.           Definition sV (v : ipver) : option ipver := Some v.
Definition sI (m : icmp_match) : option icmp_match := Some m.   Definition sK (k : pname) : option pname := Some k.

Definition FD_IPSETS : N := 11.  Definition FD_STATE : N := 12.
Definition FD_STATIC : N := 13.  Definition FD_JUMP : N := 14.

Fixpoint index_progs (base stride : N) (k : N) (ps : list (list raw)) : list (N * tree raw) :=
  match ps with
  | [] => []
  | p :: rest => (base + k * stride, tree_of_list p) :: index_progs base stride (k + 1) rest
  end.

Definition env_of (c : case) (progs : list (list raw)) : env :=
  {| e_v6 := c_v6 c; e_state_fd := FD_STATE; e_ipsets_fd := FD_IPSETS; e_jump_fd := FD_JUMP;
     e_sets := c_sets c; e_progs := index_progs (c_jump_base c) (c_stride c) 0 progs |}.

(* ------------------------------------------------------------------ observation of one real run *)
Definition polrc_of (ms : mstate) : option N := load_le (m_state ms) RgState OFF_POL_RC 4.
Definition logged_of (ms : mstate) : option bool :=
  match load_le (m_state ms) RgState OFF_FLAGS 8 with
  | Some f => Some (negb (N.eqb (N.land f FLAG_LOG_PACKET) 0))
  | None => None
  end.

(* allow = pol_rc 1 and tail call to the allow epilogue; deny = pol_rc 2 and tail call to the deny epilogue;
   XDP pass = exit(XDP_PASS) with pol_rc untouched.  Anything else (error, drop after a failed tail call,
   wrong epilogue index ...) is no verdict. *)
Definition observe (c : case) (o : outcome) : option (rverdict * bool) :=
  match o with
  | OTail fd idx ms =>
      match polrc_of ms, logged_of ms with
      | Some rc, Some lg =>
          if N.eqb fd FD_STATIC && N.eqb idx (c_allow c) && N.eqb rc 1 then Some (RAllow, lg)
          else if N.eqb fd FD_STATIC && N.eqb idx (c_deny c) && N.eqb rc 2 then Some (RDeny, lg)
          else None
      | _, _ => None
      end
  | OExit r0 ms =>
      match polrc_of ms, logged_of ms with
      | Some rc, Some lg =>
          if br_xdp (c_rules c) && N.eqb r0 2 && N.eqb rc 0 then Some (RXdpPass, lg) else None
      | _, _ => None
      end
  | _ => None
  end.

Definition total_len (progs : list (list raw)) : nat := fold_right (fun p n => (length p + n)%nat) 0%nat progs.

Definition run_real (c : case) (progs : list (list raw)) (e : env) (entry : tree raw) (ps : pstate) : outcome :=
  let cb0 := if c_usejmps c then 57005 else c_allow c in
  let cb1 := if c_usejmps c then 48879 else c_deny c in
  run_prog (2 * total_len progs + 64) e entry (mem_of_bytes (state_bytes (c_v6 c) ps)) (mem_of_bytes (ctx_bytes cb0 cb1)).

Definition obs_eqb (a b : option (rverdict * bool)) : bool :=
  match a, b with
  | Some (v, l), Some (v', l') => rverdict_eqb v v' && Bool.eqb l l'
  | None, None => true
  | _, _ => false
  end.
Definition obs_verdict_is (a : option (rverdict * bool)) (v : rverdict) : bool :=
  match a with Some (v', _) => rverdict_eqb v v' | None => false end.

Definition ver_of (c : case) : ipver := if c_v6 c then V6 else V4.
Definition bits_of (c : case) : N := if c_v6 c then 128 else 32.

(* check_case c = (the IR model predicts what the real instruction stream does on every probe,
                   the real instruction stream reaches the reference verdict on every probe / compiled at all) *)
(* Inside the fragment Emit.v models (no IP-set lookup, no CIDR compare, plain build) the real program must be,
   word for word, what the Gallina emitters + assembler produce. *)
Definition emit_cfg_of (c : case) : emit_cfg :=
  {| ec_state_fd := FD_STATE; ec_static_fd := FD_STATIC; ec_usejmps := c_usejmps c; ec_allow := c_allow c;
     ec_deny := c_deny c; ec_xdp := br_xdp (c_rules c) |}.
Fixpoint words_eqb (a b : list N) : bool :=
  match a, b with
  | [], [] => true
  | x :: a', y :: b' => N.eqb x y && words_eqb a' b'
  | _, _ => false
  end.
Definition words_as_emitted (c : case) (words : list (list N)) : bool :=
  if c_plain c then
    match lower_program (c_variant c) (ver_of c) (emit_cfg_of c) (c_rules c), words with
    | Some ws, [w] => words_eqb ws w
    | Some _, _ => false
    | None, _ => true
    end
  else true.
Definition in_emit_fragment (c : case) : bool :=
  c_plain c && match lower_program (c_variant c) (ver_of c) (emit_cfg_of c) (c_rules c) with Some _ => true | None => false end.

Definition check_case (c : case) : bool * bool :=
  let v := ver_of c in
  let valid := valid_rules (c_rules c) in
  match c_result c with
  | CPanic => (match instructions (c_variant c) v (c_rules c) with WPanic => true | WOk _ => false end, negb valid)
  | CError => (false, negb valid)
  | COk words =>
      let progs := map decode_prog words in
      match progs with
      | [] => (false, false)
      | p0 :: _ =>
          let e := env_of c progs in
          let entry := tree_of_list p0 in
          let bs : bpfsets := set_lookup e in
          let s := ref_sets (bits_of c) (c_sets c) in
          let per := map (fun ps =>
                            let o := observe c (run_real c progs e entry ps) in
                            (obs_eqb o (model_verdict (c_variant c) v (c_rules c) bs ps),
                             negb valid || obs_verdict_is o (ref_verdict s v (c_rules c) ps))) (c_probes c) in
          (forallb fst per && words_as_emitted c words, forallb snd per)
      end
  end.

(* Known-finding classifier (evaluated only on cases the oracle rejected).  A rejected case belongs to a modelled
   defect class exactly when (1) the model of the PROBED variant predicts everything the real code did (panic, or
   every probe's verdict), and (2) the model of the FIXED variant compiles and reaches the reference verdict on
   every probe: the whole divergence from the reference is the modelled variant difference.  props/C11.py then
   names the class from the case's feature tag. *)
Definition classify_case (c : case) : bool * bool :=
  let v := ver_of c in
  let e := env_of c [] in
  let bs : bpfsets := set_lookup e in
  let s := ref_sets (bits_of c) (c_sets c) in
  let fixed_ok :=
    valid_rules (c_rules c) &&
    forallb (fun ps => obs_verdict_is (model_verdict fixed_variant v (c_rules c) bs ps) (ref_verdict s v (c_rules c) ps)) (c_probes c) in
  (fst (check_case c) && fixed_ok, true).

(* debugging aid for replays: the raw outcome of probe k *)
Definition outcome_summary (o : outcome) : N * N * N :=
  match o with
  | OExit r0 ms => (1, r0, match polrc_of ms with Some x => x | None => 999 end)
  | OTail fd idx ms => (2, idx, match polrc_of ms with Some x => x | None => 999 end)
  | OErr code pc => (3, code, Z.to_N pc)
  | OFuel => (4, 0, 0)
  end.

(* replay aid: for every probe that fails either comparison: (probe index, raw outcome (kind, value, pol_rc),
   reference verdict, model verdict) *)
Fixpoint explain_from (c : case) (progs : list (list raw)) (e : env) (entry : tree raw) (k : N) (pss : list pstate)
  : list (N * (N * N * N) * rverdict * option (rverdict * bool)) :=
  match pss with
  | [] => []
  | ps :: rest =>
      let o := run_real c progs e entry ps in
      let ob := observe c o in
      let mv := model_verdict (c_variant c) (ver_of c) (c_rules c) (set_lookup e) ps in
      let rv := ref_verdict (ref_sets (bits_of c) (c_sets c)) (ver_of c) (c_rules c) ps in
      let tl := explain_from c progs e entry (k + 1) rest in
      if obs_eqb ob mv && obs_verdict_is ob rv then tl else (k, outcome_summary o, rv, mv) :: tl
  end.
Definition explain_case (c : case) :=
  match c_result c with
  | COk words =>
      let progs := map decode_prog words in
      match progs with
      | [] => []
      | p0 :: _ => let e := env_of c progs in explain_from c progs e (tree_of_list p0) 0 (c_probes c)
      end
  | _ => []
  end.
