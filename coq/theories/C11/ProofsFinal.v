(* C11/ProofsFinal.v — the statements of Props.v with their (short) glue proofs; Props.v only re-exports them. *)
From Coq Require Import List NArith Bool.
From Verif.Common Require Import Packet PolicyRef.
From Verif.C11 Require Import Bpf Model Spec Proofs ProofsRule ProofsTiers ProofsMain ProofsSplit ProofsSets ProofsCut ProofsPinned.
Import ListNotations.
Open Scope N_scope.

(* IP sets enter as an oracle `s` (PolicyRef's reading) and as the LPM lookup `bs` the program performs; the two
   agree when every set id is of one kind: selector sets (kind id = false) hold addresses/CIDRs, named-port and
   service sets (kind id = true) hold (address, protocol, port); typed_rules: each rule field uses the right kind. *)
Definition sets_agree (kind : N -> bool) (s : ipsets) (bs : bpfsets) : Prop :=
  forall id a pr po, bs id a pr po = if kind id then s id (MemIPPort a pr po) else s id (MemIP a).
Definition addrs_in_range (v : ipver) (ps : pstate) : Prop := forall lg, leg_addr ps lg < 2 ^ addr_width v.

(* MAIN: for every valid polprog.Rules (workload / host interface, pre-DNAT, apply-on-forward, normal host policy,
   profiles, SuppressNormalHostPolicy, ForHostInterface, XDP), every IP-set content and every packet state, the
   program body the (fixed) builder writes ends at the footer label of the reference verdict. *)
Lemma c11_ir_verdict_pf : forall v s bs kind ps r p,
  sets_agree kind s bs -> addrs_in_range v ps ->
  valid_rules r = true -> typed_rules kind r = true ->
  instructions fixed_variant v r = WOk p ->
  forall lg, final_verdict (br_xdp r) (fst (exec (eval_cond v bs ps) p None lg)) = ref_verdict s v r ps.
Proof.
  intros v s bs kind ps r p Hs Ha Hv Ht Hi lg.
  exact (ir_verdict v s bs kind ps Hs Ha r p (ok_rules_of kind r Hv Ht) Hi lg).
Qed.

(* "Compiling any valid configuration never fails or crashes" (model level, any variant that has the profile
   log label): *)
Lemma c11_valid_config_compiles_pf : forall vr v r,
  v_profile_log vr = true -> valid_rules r = true -> exists p, instructions vr v r = WOk p.
Proof. exact instructions_total. Qed.

(* the model's verdict (what check_case compares the real instruction stream with) is the reference verdict *)
Lemma c11_model_meets_spec_pf : forall v s bs kind ps r,
  sets_agree kind s bs -> addrs_in_range v ps -> valid_rules r = true -> typed_rules kind r = true ->
  exists lg, model_verdict fixed_variant v r bs ps = Some (ref_verdict s v r ps, lg).
Proof.
  intros v s bs kind ps r Hs Ha Hv Ht. unfold model_verdict.
  destruct (instructions_total fixed_variant v r eq_refl Hv) as [p Hp]. rewrite Hp.
  pose proof (c11_ir_verdict_pf v s bs kind ps r p Hs Ha Hv Ht Hp
                (negb (N.eqb (N.land (ps_flags ps) FLAG_LOG_PACKET) 0))) as H.
  destruct (exec (eval_cond v bs ps) p None (negb (N.eqb (N.land (ps_flags ps) FLAG_LOG_PACKET) 0))) as [m lg].
  simpl in H. rewrite H. eexists. reflexivity.
Qed.

(* The two concrete oracles check_case uses (the LPM lookup of Bpf.v and PolicyRef's reading of the same member
   table) satisfy sets_agree whenever every set holds members of one kind ... *)
Lemma c11_table_sets_agree_pf : forall e,
  table_homogeneous (e_sets e) = true ->
  sets_agree (table_kind (e_sets e)) (ref_sets (addr_bits e) (e_sets e)) (set_lookup e).
Proof. exact table_sets_agree. Qed.

(* ... so for every correspondence case (fixed tree) the verdict check_case expects of the real instruction stream
   IS the reference verdict, by theorem rather than by the run: *)
Lemma c11_case_model_is_reference_pf : forall c progs ps,
  table_homogeneous (c_sets c) = true -> valid_rules (c_rules c) = true ->
  typed_rules (table_kind (c_sets c)) (c_rules c) = true -> addrs_in_range (ver_of c) ps ->
  exists lg, model_verdict fixed_variant (ver_of c) (c_rules c) (set_lookup (env_of c progs)) ps
             = Some (ref_verdict (ref_sets (bits_of c) (c_sets c)) (ver_of c) (c_rules c) ps, lg).
Proof.
  intros c progs ps Hh Hv Ht Ha.
  apply (c11_model_meets_spec_pf (ver_of c) (ref_sets (bits_of c) (c_sets c)) (set_lookup (env_of c progs))
           (table_kind (c_sets c)) ps (c_rules c)); try assumption.
  exact (table_sets_agree (env_of c progs) Hh).
Qed.

(* Splitting (maybeSplitProgram): the body cut into consecutive chunks, each with its own footer, the pending jump
   target encoded by the landing pads as its position in the chunk's dangling-target list and decoded by the next
   program's trampoline, computes the same verdict and log flag as the unsplit body — for ANY cut points. *)
Lemma c11_split_equiv_pf : forall ev xdp chunks lg,
  chain_wf xdp [] chunks ->
  (forall c ts, In (c, ts) chunks -> defs_in (not_footer xdp) c) ->
  run_chain ev xdp chunks None lg =
  let '(m', lg') := exec ev (concat (map fst chunks)) None lg in ChDone (final_verdict xdp m') lg'.
Proof.
  intros ev xdp chunks lg Hwf Hd. apply (split_equiv ev xdp chunks [] None lg Hwf Hd). intros l H; discriminate.
Qed.

(* MAIN, split form: compile any valid configuration, cut the body ANYWHERE into consecutive chunks (each becomes a
   program with its own footer), give every chunk landing pads for the jump targets that may still be pending (what
   UnresolvedJumpTargets returns, or any superset: `annotate`), chain them by tail calls: the chain reaches the
   reference verdict. *)
Lemma c11_split_verdict_pf : forall v s bs kind ps r p chunks,
  sets_agree kind s bs -> addrs_in_range v ps ->
  valid_rules r = true -> typed_rules kind r = true ->
  instructions fixed_variant v r = WOk p -> concat chunks = p ->
  forall lg, exists lg',
    run_chain (eval_cond v bs ps) (br_xdp r) (annotate (br_xdp r) [] chunks) None lg = ChDone (ref_verdict s v r ps) lg'.
Proof.
  intros v s bs kind ps r p chunks Hs Ha Hv Ht Hi Hc lg.
  rewrite cut_equiv by (rewrite Hc; eapply instructions_bdefs; exact Hi).
  rewrite Hc. pose proof (c11_ir_verdict_pf v s bs kind ps r p Hs Ha Hv Ht Hi lg) as H.
  destruct (exec (eval_cond v bs ps) p None lg) as [m' lg']. simpl in H. rewrite H. eexists. reflexivity.
Qed.

(* compositionality of the IR semantics (the fact behind splitting at any instruction boundary) *)
Lemma c11_exec_app_pf : forall ev p1 p2 m lg,
  exec ev (p1 ++ p2) m lg = let '(m1, lg1) := exec ev p1 m lg in exec ev p2 m1 lg1.
Proof. exact exec_app. Qed.

(* one rule, as a lemma of its own: the code of a rule leaves a jump to its action label pending iff the rule matches *)
Lemma c11_rule_exact_pf : forall v s bs kind ps rid b tg dleg c rid',
  sets_agree kind s bs -> addrs_in_range v ps ->
  write_rule fixed_variant v rid b (Some tg) dleg = WOk (c, rid') ->
  valid_rule b = true -> typed_rule kind (b_rule b) = true -> target_ok tg = true ->
  forall lg, fst (exec (eval_cond v bs ps) c None lg)
             = if rule_matches s (b_rule b) (packet_of v ps dleg) then end_mode tg else None.
Proof.
  intros v s bs kind ps rid b tg dleg c rid' Hs Ha Hw Hv Ht Hok lg.
  destruct (write_rule_sem v s bs kind ps Hs Ha rid b tg dleg c rid' Hw Hv Ht Hok) as [S _]. apply S.
Qed.

(* The UNCHANGED (pinned) builder, on every configuration clear of the three known-finding classes: *)
Lemma c11_ir_verdict_pinned_pf : forall v s bs kind ps r p,
  sets_agree kind s bs -> addrs_in_range v ps ->
  valid_rules r = true -> typed_rules kind r = true -> clear_of_findings r = true ->
  instructions pinned_variant v r = WOk p ->
  forall lg, final_verdict (br_xdp r) (fst (exec (eval_cond v bs ps) p None lg)) = ref_verdict s v r ps.
Proof.
  intros v s bs kind ps r p Hs Ha Hv Ht Hc Hi lg. rewrite (instructions_pinned v r Hc) in Hi.
  exact (c11_ir_verdict_pf v s bs kind ps r p Hs Ha Hv Ht Hi lg).
Qed.

Lemma c11_pinned_compiles_pf : forall v r,
  valid_rules r = true -> clear_of_findings r = true -> exists p, instructions pinned_variant v r = WOk p.
Proof. intros v r Hv Hc. rewrite (instructions_pinned v r Hc). exact (instructions_total fixed_variant v r eq_refl Hv). Qed.

(* ------------------------------------------------------------------ the pinned tree: three refutations *)
Definition allow_all : brule := empty_brule Allow.
Definition no_sets : bpfsets := fun _ _ _ _ => false.
Definition no_ref_sets : ipsets := fun _ _ => false.
Definition some_packet : pstate :=
  {| ps_src := 167772161; ps_pre_dst := 167772162; ps_post_dst := 167772162; ps_sport := 1234;
     ps_pre_dport := 80; ps_post_dport := 80; ps_proto := 58; ps_icmp_type := 128; ps_icmp_code := 0; ps_flags := 0 |}.
Definition wl (tiers : list btier) (profiles : list (list brule)) : brules :=
  {| br_for_host := false; br_suppress := false; br_xdp := false; br_tiers := tiers; br_profiles := profiles;
     br_pre_dnat := []; br_forward := []; br_host_normal := []; br_host_profiles := [] |}.

(* (1) writeProfile has no "log" label: a valid configuration makes the builder panic *)
Lemma c11_profile_log_pinned_panics_pf :
  exists r, valid_rules r = true /\ instructions pinned_variant V4 r = WPanic.
Proof. exists (wl [] [[empty_brule Log]]). split; vm_compute; reflexivity. Qed.

(* (2) protocolToNumber maps the names icmpv6 / udplite to 0: "allow ICMPv6" allows nothing *)
Definition allow_icmpv6 : brule :=
  {| b_rule := {| r_action := Allow; r_ipver := None; r_proto := Some 58; r_src_nets := []; r_src_ports := [];
                  r_src_named_ports := []; r_dst_nets := []; r_dst_ports := []; r_dst_named_ports := []; r_icmp := None;
                  r_src_ipsets := []; r_dst_ipsets := []; r_dst_ipport_sets := []; r_not_proto := None; r_not_src_nets := [];
                  r_not_src_ports := []; r_not_dst_nets := []; r_not_dst_ports := []; r_not_icmp := None;
                  r_not_src_ipsets := []; r_not_dst_ipsets := []; r_not_src_named_ports := []; r_not_dst_named_ports := [] |};
     b_pname := Some PnIcmpv6; b_npname := None |}.
Lemma c11_proto_names_pinned_refuted_pf :
  exists r ps, valid_rules r = true
    /\ ref_verdict no_ref_sets V6 r ps = RAllow
    /\ model_verdict pinned_variant V6 r no_sets ps = Some (RDeny, false).
Proof.
  exists (wl [{| bt_policies := [[allow_icmpv6]]; bt_end := EndDeny |}] []), some_packet.
  split; [|split]; vm_compute; reflexivity.
Qed.

(* (3) a matching Pass rule of a profile denies instead of moving on to the next profile *)
Lemma c11_profile_pass_pinned_refuted_pf :
  exists r ps, valid_rules r = true
    /\ ref_verdict no_ref_sets V4 r ps = RAllow
    /\ model_verdict pinned_variant V4 r no_sets ps = Some (RDeny, false).
Proof.
  exists (wl [] [[empty_brule Pass]; [allow_all]]), some_packet.
  split; [|split]; vm_compute; reflexivity.
Qed.

(* ------------------------------------------------------------------ hypotheses are satisfiable, non-trivially *)
Example c11_example_config :
  let r := wl [{| bt_policies := [[allow_icmpv6]; [empty_brule Log; empty_brule Pass]]; bt_end := EndPass |}]
              [[empty_brule Pass]; [allow_all]] in
  valid_rules r = true /\ typed_rules (fun _ => false) r = true
  /\ sets_agree (fun _ => false) no_ref_sets no_sets
  /\ addrs_in_range V4 some_packet
  /\ model_verdict fixed_variant V4 r no_sets some_packet = Some (RAllow, false)
  /\ ref_verdict no_ref_sets V4 r some_packet = RAllow.
Proof.
  cbv zeta.
  split; [vm_compute; reflexivity|]. split; [vm_compute; reflexivity|].
  split; [intros id a pr po; reflexivity|].
  split; [intros []; vm_compute; reflexivity|].
  split; vm_compute; reflexivity.
Qed.

(* a split with a pending end-of-tier label handed over between two chained programs *)
Example c11_example_split :
  let c1 := [IJmp (LEndOfTier 0); ILabel (LNoMatch 0)] in
  let c2 := [IJmp LDeny; ILabel (LNoMatch 1); ILabel (LEndOfTier 0); IJmp LAllow] in
  chain_wf false [] [(c1, [LEndOfTier 0]); (c2, [LEndOfTier 0])]
  /\ run_chain (fun _ => false) false [(c1, [LEndOfTier 0]); (c2, [LEndOfTier 0])] None false = ChDone RAllow false.
Proof.
  cbv zeta. split; [|vm_compute; reflexivity].
  simpl. split; [|split; [|exact I]].
  - intros l [[H|[]]|[]] _. subst l. left. reflexivity.
  - intros l [[H|[H|[]]]|[H|[]]] Hf; subst l; try discriminate; left; reflexivity.
Qed.
