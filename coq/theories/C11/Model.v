(* C11/Model.v — Gallina re-implementation of felix/bpf/polprog/pol_prog_builder.go at the level of
   MATCH TESTS AND JUMP TARGETS (layer 1 of DESIGN.md C11).  Definitions only.

   Go                                     here
   -----------------------------------    ------------------------------------------
   Builder.Instructions                   instructions
   writeTiers / writePolicy(Rules)        write_tiers / write_policies / write_rules
   writeProfiles / writeProfile           write_profiles
   writeRule (match order, negations)     write_rule
   writeProtoMatch / writeICMP*Match      IJmpIf on CProto / CIcmpType / CIcmpTypeCode
   writeCIDRSMatch                        write_cidrs      (one test per CIDR; byte order/masks are below this level)
   writeIPSetMatch / writeIPSetOrMatch    write_sets_and / write_sets_or
   writePortsMatch                        write_ports      (one test per range, then the named-port sets)
   writeEndOfRule                         end of write_rule (jump to the action label, or set the log flag)
   rules.FilterRuleToIPVersion            filter_rule
   asm.Block labels + forward jumps       ILabel / IJmp / IJmpIf, executed by `exec`
   program footer (deny first, allow)     final_verdict

   Labels are those of the Go code: allow, deny, xdp_pass, allowed_by_host_policy, to_or_from_host,
   end_of_tier_<n>, rule_<n>_no_match, rule_<n>_part_<k> (the Go code also draws part labels for port ranges,
   which sit below this level, so part numbers can differ; nothing depends on the numbers being equal).

   Not modelled (said in the report): rule-hit recording (writeRecordRuleID), debug comments, the register-level
   code of each test (that is what Bpf.v executes on the real instruction stream). *)
From Coq Require Import List NArith Bool.
From Verif.Common Require Import Packet PolicyRef.
Import ListNotations.
Open Scope N_scope.

(* ------------------------------------------------------------------ input: polprog.Rules *)
(* Protocol given by NAME in the proto.Rule (Felix passes lower-cased API names through). *)
Inductive pname := PnTcp | PnUdp | PnIcmp | PnIcmpv6 | PnSctp | PnUdplite.
Definition iana (k : pname) : N :=
  match k with PnTcp => 6 | PnUdp => 17 | PnIcmp => 1 | PnIcmpv6 => 58 | PnSctp => 132 | PnUdplite => 136 end.

(* b_rule carries the rule with protocols already resolved by the IANA table (the reference reading);
   b_pname / b_npname say "Protocol / NotProtocol was given by this name" (None: by number). *)
Record brule := { b_rule : rule; b_pname : option pname; b_npname : option pname }.

Inductive end_action := EndDeny | EndPass.        (* TierEndUndef behaves as deny *)
Record btier := { bt_policies : list (list brule); bt_end : end_action }.

Record brules := {
  br_for_host : bool;                 (* ForHostInterface *)
  br_suppress : bool;                 (* SuppressNormalHostPolicy *)
  br_xdp : bool;                      (* ForXDP *)
  br_tiers : list btier;
  br_profiles : list (list brule);
  br_pre_dnat : list btier;           (* HostPreDnatTiers *)
  br_forward : list btier;            (* HostForwardTiers *)
  br_host_normal : list btier;        (* HostNormalTiers *)
  br_host_profiles : list (list brule)
}.

(* Variant of the Go code the model follows (probed from the tree by the driver):
   v_profile_log : writeProfile's action table has a "log" entry
   v_proto_names : protocolToNumber knows "icmpv6" and "udplite"
   v_profile_pass_next : a matching Pass rule of a profile moves on to the next profile (as in PolicyRef and
                         the iptables dataplane) instead of denying *)
Record variant := { v_profile_log : bool; v_proto_names : bool; v_profile_pass_next : bool }.
Definition fixed_variant : variant := {| v_profile_log := true; v_proto_names := true; v_profile_pass_next := true |}.
Definition pinned_variant : variant := {| v_profile_log := false; v_proto_names := false; v_profile_pass_next := false |}.

(* protocolToNumber *)
Definition builder_pnum (vr : variant) (k : pname) : N :=
  match k with
  | PnIcmpv6 | PnUdplite => if v_proto_names vr then iana k else 0
  | _ => iana k
  end.

(* ------------------------------------------------------------------ IR *)
Inductive leg := LegSrc | LegDst | LegDstPre.

Inductive label :=
| LAllow | LDeny | LXdpPass | LAllowedByHost | LToOrFromHost
| LEndOfTier (n : N) | LEndOfProfile (n : N) | LNoMatch (rule : N) | LPart (rule part : N).

Inductive cond :=
| CProto (n : N)
| CIcmpType (t : N)
| CIcmpTypeCode (t c : N)
| CCidr (lg : leg) (c : cidr)
| CSet (lg : leg) (id : N)
| CPort (lg : leg) (r : port_range)
| CHost.                                  (* state->flags & (DEST_IS_HOST | SRC_IS_HOST) != 0 *)

Inductive ir :=
| ILabel (l : label)
| IJmp (l : label)
| IJmpIf (sense : bool) (c : cond) (l : label)     (* jump to l iff the test evaluates to `sense` *)
| ISetLog.

Definition label_eqb (a b : label) : bool :=
  match a, b with
  | LAllow, LAllow | LDeny, LDeny | LXdpPass, LXdpPass | LAllowedByHost, LAllowedByHost
  | LToOrFromHost, LToOrFromHost => true
  | LEndOfTier n, LEndOfTier m => N.eqb n m
  | LEndOfProfile n, LEndOfProfile m => N.eqb n m
  | LNoMatch n, LNoMatch m => N.eqb n m
  | LPart n k, LPart m j => N.eqb n m && N.eqb k j
  | _, _ => false
  end.

(* ------------------------------------------------------------------ IR semantics *)
(* `mode` = None: executing;  Some l: a jump to l is pending, instructions are skipped up to the next
   definition of l (asm.Block resolves a jump to the NEXT LabelNextInsn of that name; all jumps are forward).
   Running a fragment maps (mode, logged) to (mode, logged); a pending label at the very end of the program
   body is resolved by the footer (final_verdict). *)
Fixpoint exec (ev : cond -> bool) (p : list ir) (m : option label) (lg : bool) : option label * bool :=
  match p with
  | [] => (m, lg)
  | i :: rest =>
      match m with
      | Some l =>
          match i with
          | ILabel l' => if label_eqb l l' then exec ev rest None lg else exec ev rest m lg
          | _ => exec ev rest m lg
          end
      | None =>
          match i with
          | ILabel _ => exec ev rest None lg
          | IJmp l => exec ev rest (Some l) lg
          | IJmpIf sense c l => if Bool.eqb (ev c) sense then exec ev rest (Some l) lg else exec ev rest None lg
          | ISetLog => exec ev rest None true
          end
      end
  end.

Inductive rverdict := RAllow | RDeny | RXdpPass | RStuck.
Definition rverdict_eqb (a b : rverdict) : bool :=
  match a, b with RAllow, RAllow | RDeny, RDeny | RXdpPass, RXdpPass | RStuck, RStuck => true | _, _ => false end.

(* writeProgramFooter: falling off the end of the body reaches "deny"; "allow" and (XDP) "xdp_pass" follow *)
Definition final_verdict (xdp : bool) (m : option label) : rverdict :=
  match m with
  | None | Some LDeny => RDeny
  | Some LAllow => RAllow
  | Some LXdpPass => if xdp then RXdpPass else RStuck
  | Some _ => RStuck                      (* a label nobody defined: Assemble() would fail *)
  end.

(* ------------------------------------------------------------------ FilterRuleToIPVersion *)
Definition filter_nets (nets : list cidr) (v : ipver) (negated : bool) : option (list cidr) :=
  match nets with
  | [] => Some []
  | _ =>
      let same := filter (fun c => ipver_eqb (cidr_ver c) v) nets in
      if negated && existsb cidr_is_catch_all same then None
      else match same with [] => None | _ => Some same end
  end.

Record frule := {       (* the filtered copy: the four CIDR lists of the right version *)
  f_src : list cidr; f_not_src : list cidr; f_dst : list cidr; f_not_dst : list cidr }.

Definition filter_rule (v : ipver) (r : rule) : option frule :=
  if negb (opt_ok (r_ipver r) (ipver_eqb v)) then None else
  match filter_nets (r_src_nets r) v false with None => None | Some s =>
  match filter_nets (r_not_src_nets r) v true with None => None | Some ns =>
  match filter_nets (r_dst_nets r) v false with None => None | Some d =>
  match filter_nets (r_not_dst_nets r) v true with None => None | Some nd =>
    Some {| f_src := s; f_not_src := ns; f_dst := d; f_not_dst := nd |}
  end end end end.

(* ------------------------------------------------------------------ the writers *)
(* what writeEndOfRule does when every test passed *)
Inductive target := TJump (l : label) | TLog.

Definition opt_list {A} (o : option A) : list A := match o with None => [] | Some a => [a] end.

(* writeCIDRSMatch; returns the code and the next free part number *)
Definition write_cidrs (rid part : N) (negate : bool) (lg : leg) (cs : list cidr) : list ir * N :=
  match cs with
  | [] => ([], part)
  | _ =>
    if negate then (map (fun c => IJmpIf true (CCidr lg c) (LNoMatch rid)) cs, part)
    else (map (fun c => IJmpIf true (CCidr lg c) (LPart rid part)) cs
            ++ [IJmp (LNoMatch rid); ILabel (LPart rid part)], part + 1)
  end.

(* writeIPSetMatch: every set is an independent criterion *)
Definition write_sets_and (rid : N) (negate : bool) (lg : leg) (ids : list N) : list ir :=
  map (fun id => IJmpIf negate (CSet lg id) (LNoMatch rid)) ids.

(* writeIPSetOrMatch *)
Definition write_sets_or (rid part : N) (lg : leg) (ids : list N) : list ir * N :=
  match ids with
  | [] => ([], part)
  | _ => (map (fun id => IJmpIf true (CSet lg id) (LPart rid part)) ids
            ++ [IJmp (LNoMatch rid); ILabel (LPart rid part)], part + 1)
  end.

(* writePortsMatch: numeric ranges first, then the named-port sets, all OR-ed *)
Definition write_ports (rid part : N) (negate : bool) (lg : leg) (ranges : list port_range) (named : list N)
  : list ir * N :=
  match ranges, named with
  | [], [] => ([], part)
  | _, _ =>
    let on_match := if negate then LNoMatch rid else LPart rid part in
    let tests := map (fun r => IJmpIf true (CPort lg r) on_match) ranges
                 ++ map (fun id => IJmpIf true (CSet lg id) on_match) named in
    if negate then (tests, part) else (tests ++ [IJmp (LNoMatch rid); ILabel on_match], part + 1)
  end.

Definition write_icmp (rid : N) (negate : bool) (m : option icmp_match) : list ir :=
  match m with
  | None => []
  | Some (IcmpType t) => [IJmpIf negate (CIcmpType t) (LNoMatch rid)]
  | Some (IcmpTypeCode t c) => [IJmpIf negate (CIcmpTypeCode t c) (LNoMatch rid)]
  end.

Definition proto_num (vr : variant) (byname : option pname) (n : N) : N :=
  match byname with Some k => builder_pnum vr k | None => n end.

Inductive wres (A : Type) := WOk (a : A) | WPanic.
Arguments WOk {A} a.
Arguments WPanic {A}.

(* writeRule.  `tg = None` is the empty action label (panic, raised before the version filter).
   Returns the code and the next rule id (the id only advances when the rule is written). *)
Definition write_rule (vr : variant) (v : ipver) (rid : N) (b : brule) (tg : option target) (dleg : leg)
  : wres (list ir * N) :=
  match tg with
  | None => WPanic
  | Some tg =>
    let r := b_rule b in
    match filter_rule v r with
    | None => WOk ([], rid)
    | Some f =>
      if (1 <? N.of_nat (length (r_dst_ipsets r))) then WPanic else
      let c_proto := map (fun n => IJmpIf false (CProto (proto_num vr (b_pname b) n)) (LNoMatch rid)) (opt_list (r_proto r)) in
      let c_nproto := map (fun n => IJmpIf true (CProto (proto_num vr (b_npname b) n)) (LNoMatch rid)) (opt_list (r_not_proto r)) in
      let '(c_src, p1) := write_cidrs rid 0 false LegSrc (f_src f) in
      let '(c_nsrc, p2) := write_cidrs rid p1 true LegSrc (f_not_src f) in
      let '(c_dst, p3) := write_cidrs rid p2 false dleg (f_dst f) in
      let '(c_ndst, p4) := write_cidrs rid p3 true dleg (f_not_dst f) in
      let c_sset := write_sets_and rid false LegSrc (r_src_ipsets r) in
      let c_nsset := write_sets_and rid true LegSrc (r_not_src_ipsets r) in
      let '(c_dset, p5) := write_sets_or rid p4 dleg (r_dst_ipsets r) in
      let c_ndset := write_sets_and rid true dleg (r_not_dst_ipsets r) in
      let c_ipport := write_sets_and rid false dleg (r_dst_ipport_sets r) in
      let '(c_sp, p6) := write_ports rid p5 false LegSrc (r_src_ports r) (r_src_named_ports r) in
      let '(c_nsp, p7) := write_ports rid p6 true LegSrc (r_not_src_ports r) (r_not_src_named_ports r) in
      let '(c_dp, p8) := write_ports rid p7 false dleg (r_dst_ports r) (r_dst_named_ports r) in
      let '(c_ndp, p9) := write_ports rid p8 true dleg (r_not_dst_ports r) (r_not_dst_named_ports r) in
      let c_icmp := write_icmp rid false (r_icmp r) in
      let c_nicmp := write_icmp rid true (r_not_icmp r) in
      let c_end := match tg with TLog => [ISetLog] | TJump l => [IJmp l] end in
      WOk (c_proto ++ c_nproto ++ c_src ++ c_nsrc ++ c_dst ++ c_ndst ++ c_sset ++ c_nsset ++ c_dset ++ c_ndset
             ++ c_ipport ++ c_sp ++ c_nsp ++ c_dp ++ c_ndp ++ c_icmp ++ c_nicmp ++ c_end ++ [ILabel (LNoMatch rid)],
           rid + 1)
    end
  end.

(* action label tables *)
Definition tier_target (allowl : label) (tid : N) (a : action) : option target :=
  match a with
  | Allow => Some (TJump allowl) | Deny => Some (TJump LDeny)
  | Pass => Some (TJump (LEndOfTier tid)) | Log => Some TLog
  end.
Definition profile_target (vr : variant) (allowl : label) (pid : N) (a : action) : option target :=
  match a with
  | Allow => Some (TJump allowl) | Deny => Some (TJump LDeny)
  | Pass => Some (TJump (if v_profile_pass_next vr then LEndOfProfile pid else LDeny))
  | Log => if v_profile_log vr then Some TLog else None
  end.

(* writePolicyRules *)
Fixpoint write_rules (vr : variant) (v : ipver) (rid : N) (tgt : action -> option target) (dleg : leg) (rs : list brule)
  : wres (list ir * N) :=
  match rs with
  | [] => WOk ([], rid)
  | b :: rest =>
      match write_rule vr v rid b (tgt (r_action (b_rule b))) dleg with
      | WPanic => WPanic
      | WOk (c1, rid1) =>
          match write_rules vr v rid1 tgt dleg rest with
          | WPanic => WPanic
          | WOk (c2, rid2) => WOk (c1 ++ c2, rid2)
          end
      end
  end.

Fixpoint write_policies (vr : variant) (v : ipver) (rid : N) (tgt : action -> option target) (dleg : leg) (ps : list (list brule))
  : wres (list ir * N) :=
  match ps with
  | [] => WOk ([], rid)
  | p :: rest =>
      match write_rules vr v rid tgt dleg p with
      | WPanic => WPanic
      | WOk (c1, rid1) =>
          match write_policies vr v rid1 tgt dleg rest with
          | WPanic => WPanic
          | WOk (c2, rid2) => WOk (c1 ++ c2, rid2)
          end
      end
  end.

(* the rule `&proto.Rule{}` written at the end of a tier / of the profiles *)
Definition empty_brule (a : action) : brule := {| b_rule := any_rule a; b_pname := None; b_npname := None |}.

(* builder counters: (ruleID, tierID, policyID) *)
Definition counters := (N * N * N)%type.

(* writeTiers *)
Fixpoint write_tiers (vr : variant) (v : ipver) (ctr : counters) (allowl : label) (dleg : leg) (ts : list btier)
  : wres (list ir * counters) :=
  match ts with
  | [] => WOk ([], ctr)
  | t :: rest =>
      let '(rid, tid, pid) := ctr in
      match write_policies vr v rid (tier_target allowl tid) dleg (bt_policies t) with
      | WPanic => WPanic
      | WOk (c1, rid1) =>
          let endl := match bt_end t with EndDeny => LDeny | EndPass => LEndOfTier tid end in
          match write_rule vr v rid1 (empty_brule Deny) (Some (TJump endl)) dleg with
          | WPanic => WPanic
          | WOk (c2, rid2) =>
              match write_tiers vr v (rid2, tid + 1, pid + N.of_nat (length (bt_policies t))) allowl dleg rest with
              | WPanic => WPanic
              | WOk (c3, ctr3) => WOk (c1 ++ c2 ++ [ILabel (LEndOfTier tid)] ++ c3, ctr3)
              end
          end
      end
  end.

(* writeProfiles body: each profile, then (by the caller) the no-profile-matched deny rule *)
Fixpoint write_profile_list (vr : variant) (v : ipver) (rid pid : N) (allowl : label) (ps : list (list brule))
  : wres (list ir * (N * N)) :=
  match ps with
  | [] => WOk ([], (rid, pid))
  | p :: rest =>
      match write_rules vr v rid (profile_target vr allowl pid) LegDst p with
      | WPanic => WPanic
      | WOk (c1, rid1) =>
          match write_profile_list vr v rid1 (pid + 1) allowl rest with
          | WPanic => WPanic
          | WOk (c2, x) => WOk (c1 ++ [ILabel (LEndOfProfile pid)] ++ c2, x)
          end
      end
  end.

Definition write_profiles (vr : variant) (v : ipver) (ctr : counters) (allowl : label) (ps : list (list brule))
  : wres (list ir * counters) :=
  let '(rid, tid, pid) := ctr in
  match write_profile_list vr v rid pid allowl ps with
  | WPanic => WPanic
  | WOk (c1, (rid1, pid1)) =>
      match write_rule vr v rid1 (empty_brule Deny) (Some (TJump LDeny)) LegDst with
      | WPanic => WPanic
      | WOk (c2, rid2) => WOk (c1 ++ c2, (rid2, tid, pid1))
      end
  end.

Definition wbind {A B} (x : wres A) (f : A -> wres B) : wres B := match x with WPanic => WPanic | WOk a => f a end.

(* workload part after "allowed_by_host_policy" *)
Definition write_workload (vr : variant) (v : ipver) (ctr : counters) (r : brules) : wres (list ir * counters) :=
  if br_for_host r then WOk ([IJmp LAllow], ctr)
  else wbind (write_tiers vr v ctr LAllow LegDst (br_tiers r)) (fun '(c1, ctr1) =>
       wbind (write_profiles vr v ctr1 LAllow (br_profiles r)) (fun '(c2, ctr2) =>
       WOk (c1 ++ c2, ctr2))).

(* "normal" host policy section (absent when suppressed) *)
Definition write_normal (vr : variant) (v : ipver) (ctr : counters) (r : brules) : wres (list ir * counters) :=
  if br_suppress r then WOk ([], ctr)
  else if br_xdp r then
    wbind (write_tiers vr v ctr LAllowedByHost LegDstPre (br_host_normal r)) (fun '(c1, ctr1) =>
    WOk ([ILabel LToOrFromHost] ++ c1 ++ [IJmp LXdpPass], ctr1))
  else
    wbind (write_tiers vr v ctr LAllowedByHost LegDst (br_host_normal r)) (fun '(c1, ctr1) =>
    wbind (write_profiles vr v ctr1 LAllowedByHost (br_host_profiles r)) (fun '(c2, ctr2) =>
    WOk ([ILabel LToOrFromHost] ++ c1 ++ c2, ctr2))).

(* Builder.Instructions (program body, between header and footer) *)
Definition instructions (vr : variant) (v : ipver) (r : brules) : wres (list ir) :=
  let ctr0 : counters := (0, 0, 0) in
  wbind (if br_xdp r then WOk ([], ctr0)
         else
           wbind (write_tiers vr v ctr0 LAllowedByHost LegDstPre (br_pre_dnat r)) (fun '(c1, ctr1) =>
           wbind (write_tiers vr v ctr1 LAllowedByHost LegDst (br_forward r)) (fun '(c2, ctr2) =>
           WOk (c1 ++ [IJmpIf true CHost (if br_suppress r then LAllowedByHost else LToOrFromHost)]
                   ++ c2 ++ [IJmp LAllowedByHost], ctr2)))) (fun '(ca, ctra) =>
  wbind (write_normal vr v ctra r) (fun '(cb, ctrb) =>
  wbind (write_workload vr v ctrb r) (fun '(cc, _) =>
  WOk (ca ++ cb ++ [ILabel LAllowedByHost] ++ cc)))).

(* ------------------------------------------------------------------ evaluating tests on a packet state *)
(* What the policy program can see of a packet (struct cali_tc_state fields it reads). *)
Record pstate := {
  ps_src : N;
  ps_pre_dst : N;  ps_post_dst : N;
  ps_sport : N;
  ps_pre_dport : N; ps_post_dport : N;
  ps_proto : N;
  ps_icmp_type : N; ps_icmp_code : N;
  ps_flags : N
}.

Definition FLAG_DEST_IS_HOST : N := 4.
Definition FLAG_SRC_IS_HOST : N := 8.
Definition FLAG_LOG_PACKET : N := 1024.
Definition to_or_from_host (ps : pstate) : bool :=
  negb (N.eqb (N.land (ps_flags ps) (FLAG_DEST_IS_HOST + FLAG_SRC_IS_HOST)) 0).

Definition leg_addr (ps : pstate) (lg : leg) : N :=
  match lg with LegSrc => ps_src ps | LegDst => ps_post_dst ps | LegDstPre => ps_pre_dst ps end.
Definition leg_port (ps : pstate) (lg : leg) : N :=
  match lg with LegSrc => ps_sport ps | LegDst => ps_post_dport ps | LegDstPre => ps_pre_dport ps end.

(* the IP-sets map as the program sees it: one LPM lookup keyed by (set id, address, protocol, port) *)
Definition bpfsets := N -> N -> N -> N -> bool.

Definition eval_cond (v : ipver) (bs : bpfsets) (ps : pstate) (c : cond) : bool :=
  match c with
  | CProto n => N.eqb (ps_proto ps) n
  | CIcmpType t => N.eqb (ps_icmp_type ps) t
  | CIcmpTypeCode t c => N.eqb (ps_icmp_type ps) t && N.eqb (ps_icmp_code ps) c
  | CCidr lg c => in_cidr c v (leg_addr ps lg)
  | CSet lg id => bs id (leg_addr ps lg) (ps_proto ps) (leg_port ps lg)
  | CPort lg r => in_range r (leg_port ps lg)
  | CHost => to_or_from_host ps
  end.

(* verdict (and whether the log flag ends up set) of the program the builder writes; None = the builder panics *)
Definition model_verdict (vr : variant) (v : ipver) (r : brules) (bs : bpfsets) (ps : pstate) : option (rverdict * bool) :=
  match instructions vr v r with
  | WPanic => None
  | WOk p =>
      let '(m, lg) := exec (eval_cond v bs ps) p None (negb (N.eqb (N.land (ps_flags ps) FLAG_LOG_PACKET) 0)) in
      Some (final_verdict (br_xdp r) m, lg)
  end.

(* ------------------------------------------------------------------ program splitting (maybeSplitProgram) *)
(* The body is cut into consecutive chunks; each chunk becomes its own program with its own footer.  At the end
   of a chunk the pending jump target (if it is not allow/deny, which the chunk's own footer resolves) is encoded
   as its 1-based position in the sorted list of the chunk's dangling targets (0 = fell through), stored in
   pol_rc, and decoded by the trampoline at the start of the next program. *)
Definition is_footer_label (xdp : bool) (l : label) : bool :=
  match l with LAllow | LDeny => true | LXdpPass => xdp | _ => false end.

Fixpoint index_of (l : label) (ts : list label) (k : N) : option N :=
  match ts with [] => None | t :: rest => if label_eqb l t then Some k else index_of l rest (k + 1) end.
Fixpoint label_at (ts : list label) (k : N) : option label :=
  match ts with
  | [] => None
  | t :: rest => if N.eqb k 1 then Some t else if N.eqb k 0 then None else label_at rest (k - 1)
  end.

(* jump targets used in a fragment *)
Definition jump_target (i : ir) : list label :=
  match i with IJmp l => [l] | IJmpIf _ _ l => [l] | _ => [] end.
Definition targets (p : list ir) : list label := flat_map jump_target p.

(* landing pads: R0 := position of the pending label among `ts` (what UnresolvedJumpTargets returned) *)
Definition encode_mode (ts : list label) (m : option label) : option N :=
  match m with None => Some 0 | Some l => index_of l ts 1 end.
(* trampoline of the next program *)
Definition decode_mode (ts : list label) (k : N) : option label := if N.eqb k 0 then None else label_at ts k.

Inductive chain_result := ChDone (v : rverdict) (lg : bool) | ChStuck.

(* chunks paired with the dangling-target list the builder computed for them *)
Fixpoint run_chain (ev : cond -> bool) (xdp : bool) (chunks : list (list ir * list label)) (m : option label) (lg : bool)
  : chain_result :=
  match chunks with
  | [] => ChDone (final_verdict xdp m) lg
  | (c, ts) :: rest =>
      let '(m', lg') := exec ev c m lg in
      match rest with
      | [] => ChDone (final_verdict xdp m') lg'
      | _ =>
        match m' with
        | Some l =>
            if is_footer_label xdp l then ChDone (final_verdict xdp m') lg'
            else match encode_mode ts m' with
                 | Some k => run_chain ev xdp rest (decode_mode ts k) lg'
                 | None => ChStuck          (* no landing pad: Assemble() reports a missing label *)
                 end
        | None => run_chain ev xdp rest (decode_mode ts 0) lg'
        end
      end
  end.
