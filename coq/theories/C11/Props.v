(* C11 — theorems.  Only statements + `exact`; proofs live in Proofs*.v. *)
From Coq Require Import List NArith Bool.
From Verif.Common Require Import Packet PolicyRef.
From Verif.C11 Require Import Bpf Model Spec Proofs.
Import ListNotations.

(* Splitting the program body anywhere into chained sub-programs (mode handed over unchanged) preserves what it
   computes: running the concatenation = running the chunks one after another. *)
Theorem c11_exec_app : forall ev p1 p2 m lg,
  exec ev (p1 ++ p2) m lg = let '(m1, lg1) := exec ev p1 m lg in exec ev p2 m1 lg1.
Proof. exact exec_app. Qed.
Print Assumptions c11_exec_app.
