(* C11 — theorems.  Only statements + `exact`; proofs live in Proofs*.v.

   Layer 1 (proved here, for ALL configurations and packet states): the program the builder writes — seen at the
   level of match tests and jump targets (Model.v) — reaches the reference verdict; valid configurations compile;
   splitting into chained sub-programs preserves the verdict.
   Layer 2 (NOT a theorem; see props/C11.py): that the assembled eBPF instructions implement the IR is established
   per generated program by running the real instruction words in Bpf.v on probe packets. *)
From Coq Require Import List NArith ZArith Bool.
From Verif.Common Require Import Packet PolicyRef.
From Verif.C11 Require Import Bpf Model Spec Proofs ProofsRule ProofsTiers ProofsMain ProofsSplit ProofsSets ProofsCut ProofsPinned ProofsFinal Emit EmitProofs.
Import ListNotations.
Open Scope N_scope.

(* MAIN: for every valid polprog.Rules (workload / host interface, pre-DNAT, apply-on-forward, normal host policy,
   profiles, SuppressNormalHostPolicy, ForHostInterface, XDP), every IP-set content and every packet state, the
   program body the (fixed) builder writes ends at the footer label of the reference verdict. *)
Theorem c11_ir_verdict : forall v s bs kind ps r p,
  sets_agree kind s bs -> addrs_in_range v ps ->
  valid_rules r = true -> typed_rules kind r = true ->
  instructions fixed_variant v r = WOk p ->
  forall lg, final_verdict (br_xdp r) (fst (exec (eval_cond v bs ps) p None lg)) = ref_verdict s v r ps.
Proof. exact c11_ir_verdict_pf. Qed.
Print Assumptions c11_ir_verdict.

(* "Compiling any valid configuration never fails or crashes" (model level, any variant that has the profile
   log label): *)
Theorem c11_valid_config_compiles : forall vr v r,
  v_profile_log vr = true -> valid_rules r = true -> exists p, instructions vr v r = WOk p.
Proof. exact c11_valid_config_compiles_pf. Qed.
Print Assumptions c11_valid_config_compiles.

(* the model's verdict (what check_case compares the real instruction stream with) is the reference verdict *)
Theorem c11_model_meets_spec : forall v s bs kind ps r,
  sets_agree kind s bs -> addrs_in_range v ps -> valid_rules r = true -> typed_rules kind r = true ->
  exists lg, model_verdict fixed_variant v r bs ps = Some (ref_verdict s v r ps, lg).
Proof. exact c11_model_meets_spec_pf. Qed.
Print Assumptions c11_model_meets_spec.

(* The two concrete oracles check_case uses (the LPM lookup of Bpf.v and PolicyRef's reading of the same member
   table) satisfy sets_agree whenever every set holds members of one kind ... *)
Theorem c11_table_sets_agree : forall e,
  table_homogeneous (e_sets e) = true ->
  sets_agree (table_kind (e_sets e)) (ref_sets (addr_bits e) (e_sets e)) (set_lookup e).
Proof. exact c11_table_sets_agree_pf. Qed.
Print Assumptions c11_table_sets_agree.

(* ... so for every correspondence case (fixed tree) the verdict check_case expects of the real instruction stream
   IS the reference verdict, by theorem rather than by the run: *)
Theorem c11_case_model_is_reference : forall c progs ps,
  table_homogeneous (c_sets c) = true -> valid_rules (c_rules c) = true ->
  typed_rules (table_kind (c_sets c)) (c_rules c) = true -> addrs_in_range (ver_of c) ps ->
  exists lg, model_verdict fixed_variant (ver_of c) (c_rules c) (set_lookup (env_of c progs)) ps
             = Some (ref_verdict (ref_sets (bits_of c) (c_sets c)) (ver_of c) (c_rules c) ps, lg).
Proof. exact c11_case_model_is_reference_pf. Qed.
Print Assumptions c11_case_model_is_reference.

(* Splitting (maybeSplitProgram): the body cut into consecutive chunks, each with its own footer, the pending jump
   target encoded by the landing pads as its position in the chunk's dangling-target list and decoded by the next
   program's trampoline, computes the same verdict and log flag as the unsplit body — for ANY cut points. *)
Theorem c11_split_equiv : forall ev xdp chunks lg,
  chain_wf xdp [] chunks ->
  (forall c ts, In (c, ts) chunks -> defs_in (not_footer xdp) c) ->
  run_chain ev xdp chunks None lg =
  let '(m', lg') := exec ev (concat (map fst chunks)) None lg in ChDone (final_verdict xdp m') lg'.
Proof. exact c11_split_equiv_pf. Qed.
Print Assumptions c11_split_equiv.

(* MAIN, split form: compile any valid configuration, cut the body ANYWHERE into consecutive chunks (each becomes a
   program with its own footer), give every chunk landing pads for the jump targets that may still be pending (what
   UnresolvedJumpTargets returns, or any superset: `annotate`), chain them by tail calls: the chain reaches the
   reference verdict. *)
Theorem c11_split_verdict : forall v s bs kind ps r p chunks,
  sets_agree kind s bs -> addrs_in_range v ps ->
  valid_rules r = true -> typed_rules kind r = true ->
  instructions fixed_variant v r = WOk p -> concat chunks = p ->
  forall lg, exists lg',
    run_chain (eval_cond v bs ps) (br_xdp r) (annotate (br_xdp r) [] chunks) None lg = ChDone (ref_verdict s v r ps) lg'.
Proof. exact c11_split_verdict_pf. Qed.
Print Assumptions c11_split_verdict.

(* compositionality of the IR semantics (the fact behind splitting at any instruction boundary) *)
Theorem c11_exec_app : forall ev p1 p2 m lg,
  exec ev (p1 ++ p2) m lg = let '(m1, lg1) := exec ev p1 m lg in exec ev p2 m1 lg1.
Proof. exact c11_exec_app_pf. Qed.
Print Assumptions c11_exec_app.

(* one rule, as a lemma of its own: the code of a rule leaves a jump to its action label pending iff the rule matches *)
Theorem c11_rule_exact : forall v s bs kind ps rid b tg dleg c rid',
  sets_agree kind s bs -> addrs_in_range v ps ->
  write_rule fixed_variant v rid b (Some tg) dleg = WOk (c, rid') ->
  valid_rule b = true -> typed_rule kind (b_rule b) = true -> target_ok tg = true ->
  forall lg, fst (exec (eval_cond v bs ps) c None lg)
             = if rule_matches s (b_rule b) (packet_of v ps dleg) then end_mode tg else None.
Proof. exact c11_rule_exact_pf. Qed.
Print Assumptions c11_rule_exact.

(* The UNCHANGED (pinned) builder: on every valid configuration that stays clear of the three known-finding classes
   (no profile rule with action Log or Pass, no protocol given by the name icmpv6 / udplite) it compiles and its
   program reaches the reference verdict. *)
Theorem c11_ir_verdict_pinned : forall v s bs kind ps r p,
  sets_agree kind s bs -> addrs_in_range v ps ->
  valid_rules r = true -> typed_rules kind r = true -> clear_of_findings r = true ->
  instructions pinned_variant v r = WOk p ->
  forall lg, final_verdict (br_xdp r) (fst (exec (eval_cond v bs ps) p None lg)) = ref_verdict s v r ps.
Proof. exact c11_ir_verdict_pinned_pf. Qed.
Print Assumptions c11_ir_verdict_pinned.

Theorem c11_pinned_compiles : forall v r,
  valid_rules r = true -> clear_of_findings r = true -> exists p, instructions pinned_variant v r = WOk p.
Proof. exact c11_pinned_compiles_pf. Qed.
Print Assumptions c11_pinned_compiles.

(* (1) writeProfile has no "log" label: a valid configuration makes the builder panic *)
Theorem c11_profile_log_pinned_panics :
  exists r, valid_rules r = true /\ instructions pinned_variant V4 r = WPanic.
Proof. exact c11_profile_log_pinned_panics_pf. Qed.
Print Assumptions c11_profile_log_pinned_panics.

Theorem c11_proto_names_pinned_refuted :
  exists r ps, valid_rules r = true
    /\ ref_verdict no_ref_sets V6 r ps = RAllow
    /\ model_verdict pinned_variant V6 r no_sets ps = Some (RDeny, false).
Proof. exact c11_proto_names_pinned_refuted_pf. Qed.
Print Assumptions c11_proto_names_pinned_refuted.

(* (3) a matching Pass rule of a profile denies instead of moving on to the next profile *)
Theorem c11_profile_pass_pinned_refuted :
  exists r ps, valid_rules r = true
    /\ ref_verdict no_ref_sets V4 r ps = RAllow
    /\ model_verdict pinned_variant V4 r no_sets ps = Some (RDeny, false).
Proof. exact c11_profile_pass_pinned_refuted_pf. Qed.
Print Assumptions c11_profile_pass_pinned_refuted.

(* ------------------------------------------------------------------ instruction level (Emit.v) *)
(* For the IR tests that need neither an IP-set lookup nor a CIDR compare, the instruction templates of the Gallina
   emitters (compared word for word with the real builder's output by check_case on every case inside that fragment)
   are run by Bpf.step on a machine whose state-map value encodes the packet state: the jump is taken exactly when
   the IR test fires, and only R1 changes.  (The remaining emitters - CIDR compare, IP-set key set-up, ICMP type+code,
   host flags, log flag, footer - are tied to the IR per generated program by execution only: see the report.) *)
Theorem c11_emit_proto_exact : forall e p v v6 bs ps pc ms sense n joff,
  body_inv v6 ps ms -> (ps_proto ps < 256)%N -> (n < 256)%N ->
  tnth p pc = Some (R OP_LDX8 1 9 OFFS_PROTO 0) ->
  tnth p (pc + 1) = Some (R (jcc sense) 1 0 joff (Z.of_N n)) ->
  exists ms', step e p pc ms = SNext (pc + 1) ms'
    /\ step e p (pc + 1) ms' = SNext (if Bool.eqb (eval_cond v bs ps (CProto n)) sense then pc + 2 + joff else pc + 2)%Z ms'
    /\ body_inv v6 ps ms'.
Proof. exact emit_proto_exact. Qed.
Print Assumptions c11_emit_proto_exact.

Theorem c11_emit_icmp_type_exact : forall e p v v6 bs ps pc ms sense t joff,
  body_inv v6 ps ms -> (ps_icmp_type ps < 256)%N -> (t < 256)%N ->
  tnth p pc = Some (R OP_LDX8 1 9 OFFS_ICMP 0) ->
  tnth p (pc + 1) = Some (R (jcc sense) 1 0 joff (Z.of_N t)) ->
  exists ms', step e p pc ms = SNext (pc + 1) ms'
    /\ step e p (pc + 1) ms' = SNext (if Bool.eqb (eval_cond v bs ps (CIcmpType t)) sense then pc + 2 + joff else pc + 2)%Z ms'.
Proof. exact emit_icmp_type_exact. Qed.
Print Assumptions c11_emit_icmp_type_exact.

Theorem c11_emit_single_port_exact : forall e p v v6 bs ps pc ms lg port joff,
  body_inv v6 ps ms -> (leg_port ps lg < 65536)%N -> (port < 65536)%N ->
  tnth p pc = Some (R OP_LDX16 1 9 (port_off lg) 0) ->
  tnth p (pc + 1) = Some (R OP_JEQIMM 1 0 joff (Z.of_N port)) ->
  exists ms', step e p pc ms = SNext (pc + 1) ms'
    /\ step e p (pc + 1) ms' = SNext (if eval_cond v bs ps (CPort lg (port, port)) then pc + 2 + joff else pc + 2)%Z ms'.
Proof. exact emit_single_port_exact. Qed.
Print Assumptions c11_emit_single_port_exact.
