(* C11/ProofsTiers.v — rule lists, policies, tiers, profiles: the written code follows PolicyRef. *)
From Coq Require Import List NArith Bool Lia.
From Verif.Common Require Import Packet PolicyRef.
From Verif.C11 Require Import Bpf Model Spec Proofs ProofsRule.
Import ListNotations.

Definition local_label (l : label) : bool :=
  match l with LEndOfTier _ | LEndOfProfile _ | LNoMatch _ | LPart _ _ => true | _ => false end.

Lemma rule_label_local : forall l, is_rule_label l = true -> local_label l = true.
Proof. destruct l; simpl; auto. Qed.
Lemma local_not_rule : forall l, local_label l = false -> is_rule_label l = false.
Proof. destruct l; simpl; auto. Qed.

(* PolicyRef facts *)
Lemma enforced_ref : forall ps, enforced (map ref_policy ps) = map ref_policy ps.
Proof. induction ps as [|p ps IH]; simpl; [reflexivity|]. unfold enforced in *. simpl. rewrite IH. reflexivity. Qed.

Lemma endpoint_as_tiers : forall s ts profs p,
  endpoint_verdict s ts profs p =
  match tiers_verdict s ts p with VAllow => VAllow | VDeny => VDeny | _ => profiles_verdict s profs p end.
Proof.
  intros s ts profs p. induction ts as [|t ts IH]; simpl; [reflexivity|].
  destruct (tier_verdict s t p); auto.
Qed.

Section Tiers.
Variables (v : ipver) (s : ipsets) (bs : bpfsets) (kind : N -> bool) (ps : pstate).
Hypothesis Hsets : forall id a pr po, bs id a pr po = if kind id then s id (MemIPPort a pr po) else s id (MemIP a).
Hypothesis Haddr : forall lg, (leg_addr ps lg < 2 ^ addr_width v)%N.
Let ev := eval_cond v bs ps.

(* single instructions *)
Lemma steps_jmp : forall l, steps ev [IJmp l] None (Some l).
Proof. intros l lg. reflexivity. Qed.
Lemma steps_label_hit : forall l, steps ev [ILabel l] (Some l) None.
Proof. intros l lg. simpl. rewrite label_eqb_refl. reflexivity. Qed.
Lemma steps_label_none : forall l, steps ev [ILabel l] None None.
Proof. intros l lg. reflexivity. Qed.
Lemma steps_label_miss : forall l g, g <> l -> steps ev [ILabel l] (Some g) (Some g).
Proof. intros l g H lg. simpl. rewrite label_eqb_neq by exact H. reflexivity. Qed.
Lemma steps_nolabel_pending : forall i g, (forall l, i <> ILabel l) -> steps ev [i] (Some g) (Some g).
Proof. intros i g H lg. destruct i; try reflexivity. exfalso. eapply H; reflexivity. Qed.
Lemma steps_jmpif : forall sn c l, steps ev [IJmpIf sn c l] None (if Bool.eqb (ev c) sn then Some l else None).
Proof. intros sn c l lg. simpl. destruct (Bool.eqb (ev c) sn); reflexivity. Qed.
Lemma steps_cons_hit : forall l c m', steps ev c None m' -> steps ev (ILabel l :: c) (Some l) m'.
Proof. intros l c m' H lg. simpl. rewrite label_eqb_refl. apply H. Qed.
Lemma steps_cons_none : forall l c m', steps ev c None m' -> steps ev (ILabel l :: c) None m'.
Proof. intros l c m' H lg. simpl. apply H. Qed.
Lemma steps_cons_miss : forall l g c m', g <> l -> steps ev c (Some g) m' -> steps ev (ILabel l :: c) (Some g) m'.
Proof. intros l g c m' Hn H lg. simpl. rewrite label_eqb_neq by exact Hn. apply H. Qed.
Lemma defs_in_single_label : forall (P : label -> bool) l, P l = true -> defs_in P [ILabel l].
Proof. intros P l H l' [E|[]]. inversion E; subst; exact H. Qed.
Lemma defs_in_single_other : forall (P : label -> bool) i, (forall l, i <> ILabel l) -> defs_in P [i].
Proof. intros P i H l' [E|[]]. exfalso. eapply H; exact E. Qed.

Definition typed_b (b : brule) : bool := typed_rule kind (b_rule b).
Definition ok_b (b : brule) : bool := valid_rule b && typed_b b.

(* action label tables *)
Definition tgt_of (la lp : label) (a : action) : option target :=
  match a with Allow => Some (TJump la) | Deny => Some (TJump LDeny) | Pass => Some (TJump lp) | Log => Some TLog end.
Definition mode_of (la lp : label) (vd : verdict) : option label :=
  match vd with VAllow => Some la | VDeny => Some LDeny | VPass => Some lp | VNoMatch => None end.

Lemma write_rules_sem : forall la lp tgt dleg, (forall a, tgt a = tgt_of la lp a) ->
  is_rule_label la = false -> is_rule_label lp = false ->
  forall rs rid c rid',
  write_rules fixed_variant v rid tgt dleg rs = WOk (c, rid') ->
  forallb ok_b rs = true ->
  steps ev c None (mode_of la lp (policy_verdict s (map b_rule rs) (packet_of v ps dleg)))
  /\ defs_in is_rule_label c.
Proof.
  intros la lp tgt dleg Htgt Hla Hlp. induction rs as [|b rs IH]; intros rid c rid' H Hok.
  - inversion H. split; [apply steps_nil | apply defs_in_nil].
  - simpl in H. simpl in Hok. apply andb_true_iff in Hok. destruct Hok as [Hb Hok].
    unfold ok_b in Hb. apply andb_true_iff in Hb. destruct Hb as [Hv Ht].
    rewrite Htgt in H.
    destruct (write_rule fixed_variant v rid b (tgt_of la lp (r_action (b_rule b))) dleg) as [[c1 rid1]|] eqn:W1; [|discriminate].
    destruct (write_rules fixed_variant v rid1 tgt dleg rs) as [[c2 rid2]|] eqn:W2; [|discriminate].
    inversion H; subst c rid'; clear H.
    destruct (IH _ _ _ W2 Hok) as [S2 D2].
    assert (Hrs : exists tg, tgt_of la lp (r_action (b_rule b)) = Some tg /\ target_ok tg = true).
    { destruct (r_action (b_rule b)); simpl; eexists; split; try reflexivity; simpl; try rewrite Hla; try rewrite Hlp; reflexivity. }
    destruct Hrs as [tg [Etg Hok_tg]]. rewrite Etg in W1.
    destruct (write_rule_sem v s bs kind ps Hsets Haddr _ _ _ _ _ _ W1 Hv Ht Hok_tg) as [S1 D1].
    split; [|apply defs_in_app; assumption].
    simpl map. simpl policy_verdict.
    destruct (rule_matches s (b_rule b) (packet_of v ps dleg)).
    + destruct (r_action (b_rule b)) eqn:Ea; simpl in Etg; inversion Etg; subst tg; simpl in S1; simpl mode_of.
      * eapply steps_app; [exact S1|]. eapply steps_skip; [exact D2 | exact Hla].
      * eapply steps_app; [exact S1|]. eapply steps_skip; [exact D2 | reflexivity].
      * eapply steps_app; [exact S1|]. eapply steps_skip; [exact D2 | exact Hlp].
      * eapply steps_app; [exact S1 | exact S2].
    + eapply steps_app; [exact S1 | exact S2].
Qed.

Lemma write_policies_sem : forall la lp tgt dleg, (forall a, tgt a = tgt_of la lp a) ->
  is_rule_label la = false -> is_rule_label lp = false ->
  forall pols rid c rid',
  write_policies fixed_variant v rid tgt dleg pols = WOk (c, rid') ->
  forallb (forallb ok_b) pols = true ->
  steps ev c None (mode_of la lp (policies_verdict s (map ref_policy pols) (packet_of v ps dleg)))
  /\ defs_in is_rule_label c.
Proof.
  intros la lp tgt dleg Htgt Hla Hlp. induction pols as [|p pols IH]; intros rid c rid' H Hok.
  - inversion H. split; [apply steps_nil | apply defs_in_nil].
  - simpl in H. simpl in Hok. apply andb_true_iff in Hok. destruct Hok as [Hp Hok].
    destruct (write_rules fixed_variant v rid tgt dleg p) as [[c1 rid1]|] eqn:W1; [|discriminate].
    destruct (write_policies fixed_variant v rid1 tgt dleg pols) as [[c2 rid2]|] eqn:W2; [|discriminate].
    inversion H; subst c rid'; clear H.
    destruct (IH _ _ _ W2 Hok) as [S2 D2].
    destruct (write_rules_sem la lp tgt dleg Htgt Hla Hlp _ _ _ _ W1 Hp) as [S1 D1].
    split; [|apply defs_in_app; assumption].
    simpl map. simpl policies_verdict. unfold ref_policy at 1. simpl pol_rules.
    destruct (policy_verdict s (map b_rule p) (packet_of v ps dleg)); simpl in S1 |- *.
    + eapply steps_app; [exact S1|]. eapply steps_skip; [exact D2 | exact Hla].
    + eapply steps_app; [exact S1|]. eapply steps_skip; [exact D2 | reflexivity].
    + eapply steps_app; [exact S1|]. eapply steps_skip; [exact D2 | exact Hlp].
    + eapply steps_app; [exact S1 | exact S2].
Qed.

(* the `&proto.Rule{}` rule at the end of a tier / of the profiles: an unconditional jump *)
Lemma write_empty_rule_sem : forall rid l dleg c rid',
  write_rule fixed_variant v rid (empty_brule Deny) (Some (TJump l)) dleg = WOk (c, rid') ->
  is_rule_label l = false ->
  steps ev c None (Some l) /\ defs_in is_rule_label c.
Proof.
  intros rid l dleg c rid' H Hl.
  assert (Hok : target_ok (TJump l) = true) by (simpl; rewrite Hl; reflexivity).
  destruct (write_rule_sem v s bs kind ps Hsets Haddr _ _ _ _ _ _ H eq_refl eq_refl Hok) as [S1 D1].
  split; [|exact D1]. exact S1.
Qed.

Definition tmode (allowl : label) (vd : verdict) : option label :=
  match vd with VAllow => Some allowl | VDeny => Some LDeny | _ => None end.

Definition ok_tier (t : btier) : bool := valid_tier t && forallb (forallb typed_b) (bt_policies t).

Lemma ok_b_list : forall p, forallb valid_rule p = true -> forallb typed_b p = true -> forallb ok_b p = true.
Proof.
  induction p as [|b p IH]; simpl; intros A B; [reflexivity|].
  apply andb_true_iff in A, B. destruct A as [A1 A2], B as [B1 B2]. unfold ok_b at 1. rewrite A1, B1, IH by assumption. reflexivity.
Qed.
Lemma ok_b_lists : forall pols, forallb (forallb valid_rule) pols = true -> forallb (forallb typed_b) pols = true ->
  forallb (forallb ok_b) pols = true.
Proof.
  induction pols as [|p pols IH]; simpl; intros A B; [reflexivity|].
  apply andb_true_iff in A, B. destruct A as [A1 A2], B as [B1 B2]. rewrite ok_b_list, IH by assumption. reflexivity.
Qed.

Lemma ok_tier_pols : forall t, ok_tier t = true -> forallb (forallb ok_b) (bt_policies t) = true.
Proof.
  intros t H. unfold ok_tier, valid_tier in H. apply andb_true_iff in H. destruct H as [H1 H2].
  apply andb_true_iff in H1. destruct H1 as [_ H1]. apply ok_b_lists; assumption.
Qed.

Lemma write_tiers_sem : forall allowl dleg, local_label allowl = false ->
  forall ts ctr c ctr',
  write_tiers fixed_variant v ctr allowl dleg ts = WOk (c, ctr') ->
  forallb ok_tier ts = true ->
  steps ev c None (tmode allowl (tiers_verdict s (map ref_tier ts) (packet_of v ps dleg)))
  /\ defs_in local_label c.
Proof.
  intros allowl dleg Hal. induction ts as [|t ts IH]; intros ctr c ctr' H Hok.
  - inversion H. split; [apply steps_nil | apply defs_in_nil].
  - destruct ctr as [[rid tid] pid]. cbn [write_tiers] in H. simpl in Hok. apply andb_true_iff in Hok. destruct Hok as [Ht Hok].
    match type of H with context [write_policies ?a ?b ?c ?d ?e ?f] =>
      destruct (write_policies a b c d e f) as [[c1 rid1]|] eqn:W1; [|discriminate] end.
    match type of H with context [write_rule ?a ?b ?c ?d ?e ?f] =>
      destruct (write_rule a b c d e f) as [[c2 rid2]|] eqn:W2; [|discriminate] end.
    match type of H with context [write_tiers ?a ?b ?c ?d ?e ?f] =>
      destruct (write_tiers a b c d e f) as [[c3 ctr3]|] eqn:W3; [|discriminate] end.
    inversion H; subst c ctr'; clear H.
    destruct (IH _ _ _ W3 Hok) as [S3 D3].
    assert (Htg : forall a, tier_target allowl tid a = tgt_of allowl (LEndOfTier tid) a) by (intros []; reflexivity).
    destruct (write_policies_sem allowl (LEndOfTier tid) _ dleg Htg (local_not_rule _ Hal) eq_refl _ _ _ _ W1 (ok_tier_pols _ Ht)) as [S1 D1].
    assert (Hendl : is_rule_label (match bt_end t with EndDeny => LDeny | EndPass => LEndOfTier tid end) = false)
      by (destruct (bt_end t); reflexivity).
    destruct (write_empty_rule_sem _ _ _ _ _ W2 Hendl) as [S2 D2].
    assert (D1' : defs_in local_label c1) by (eapply defs_in_weaken; [apply rule_label_local | exact D1]).
    assert (D2' : defs_in local_label c2) by (eapply defs_in_weaken; [apply rule_label_local | exact D2]).
    split.
    2:{ apply defs_in_app; [exact D1'|]. apply defs_in_app; [exact D2'|]. apply (defs_in_app _ [ILabel (LEndOfTier tid)] c3); [|exact D3].
        apply defs_in_single_label. reflexivity. }
    (* pending allow / deny labels run to the end of the tiers *)
    assert (Pass_through : forall g, local_label g = false ->
              steps ev (c2 ++ [ILabel (LEndOfTier tid)] ++ c3) (Some g) (Some g)).
    { intros g Hg. eapply steps_app; [eapply steps_skip; [exact D2' | exact Hg]|].
      apply steps_cons_miss; [intros ->; discriminate|].
      eapply steps_skip; [exact D3 | exact Hg]. }
    assert (Pass_tier : steps ev (c2 ++ [ILabel (LEndOfTier tid)] ++ c3) (Some (LEndOfTier tid))
                          (tmode allowl (tiers_verdict s (map ref_tier ts) (packet_of v ps dleg)))).
    { eapply steps_app; [eapply steps_skip; [exact D2 | reflexivity]|].
      apply steps_cons_hit; exact S3. }
    simpl map. simpl tiers_verdict. unfold tier_verdict. unfold ref_tier at 1. cbn [t_policies t_default].
    rewrite enforced_ref.
    destruct (bt_policies t) as [|p0 pols] eqn:Epols.
    + (* no policies: valid only with end action pass *)
      unfold ok_tier, valid_tier in Ht. rewrite Epols in Ht. simpl in Ht.
      destruct (bt_end t) eqn:Eend; [discriminate|].
      simpl map. cbn iota. simpl in S1.
      eapply steps_app; [exact S1|]. eapply steps_app; [exact S2|].
      apply steps_cons_hit; exact S3.
    + set (pols' := p0 :: pols) in *.
      assert (Hne : map ref_policy pols' = ref_policy p0 :: map ref_policy pols) by reflexivity.
      rewrite Hne. rewrite <- Hne. clear Hne.
      destruct (policies_verdict s (map ref_policy pols') (packet_of v ps dleg)) eqn:Ev; simpl in S1; simpl tmode.
      * eapply steps_app; [exact S1|]. apply Pass_through. exact Hal.
      * eapply steps_app; [exact S1|]. apply Pass_through. reflexivity.
      * eapply steps_app; [exact S1|]. exact Pass_tier.
      * eapply steps_app; [exact S1|].
        destruct (bt_end t); simpl.
        -- eapply steps_app; [exact S2|]. apply steps_cons_miss; [discriminate|].
           eapply steps_skip; [exact D3 | reflexivity].
        -- eapply steps_app; [exact S2|]. apply steps_cons_hit; exact S3.
Qed.

(* ------------------------------------------------------------------ profiles *)
Definition pfmode (allowl : label) (vd : verdict) : option label :=
  match vd with VAllow => Some allowl | _ => Some LDeny end.

Lemma write_profile_list_sem : forall allowl, local_label allowl = false ->
  forall profs rid pid c x,
  write_profile_list fixed_variant v rid pid allowl profs = WOk (c, x) ->
  forallb (forallb ok_b) profs = true ->
  defs_in local_label c /\
  forall tailc, steps ev tailc None (Some LDeny) -> defs_in local_label tailc ->
    steps ev (c ++ tailc) None (pfmode allowl (profiles_verdict s (map (map b_rule) profs) (packet_of v ps LegDst))).
Proof.
  intros allowl Hal. induction profs as [|p profs IH]; intros rid pid c x H Hok.
  - inversion H. split; [apply defs_in_nil|]. intros tailc St Dt. simpl. exact St.
  - simpl in H. simpl in Hok. apply andb_true_iff in Hok. destruct Hok as [Hp Hok].
    destruct (write_rules fixed_variant v rid (profile_target fixed_variant allowl pid) LegDst p) as [[c1 rid1]|] eqn:W1; [|discriminate].
    destruct (write_profile_list fixed_variant v rid1 (pid + 1)%N allowl profs) as [[c2 x2]|] eqn:W2; [|discriminate].
    inversion H; subst c x; clear H.
    destruct (IH _ _ _ _ W2 Hok) as [D2 S2].
    assert (Htg : forall a, profile_target fixed_variant allowl pid a = tgt_of allowl (LEndOfProfile pid) a) by (intros []; reflexivity).
    destruct (write_rules_sem allowl (LEndOfProfile pid) _ LegDst Htg (local_not_rule _ Hal) eq_refl _ _ _ _ W1 Hp) as [S1 D1].
    assert (D1' : defs_in local_label c1) by (eapply defs_in_weaken; [apply rule_label_local | exact D1]).
    split.
    { apply defs_in_app; [exact D1'|]. apply (defs_in_app _ [ILabel (LEndOfProfile pid)] c2); [apply defs_in_single_label; reflexivity | exact D2]. }
    intros tailc St Dt. specialize (S2 tailc St Dt).
    assert (Pass_through : forall g, local_label g = false ->
              steps ev (ILabel (LEndOfProfile pid) :: c2 ++ tailc) (Some g) (Some g)).
    { intros g Hg. apply steps_cons_miss; [intros ->; discriminate|].
      eapply steps_app; [eapply steps_skip; [exact D2 | exact Hg] | eapply steps_skip; [exact Dt | exact Hg]]. }
    rewrite <- app_assoc. change (([ILabel (LEndOfProfile pid)] ++ c2) ++ tailc) with (ILabel (LEndOfProfile pid) :: c2 ++ tailc).
    simpl map. simpl profiles_verdict.
    destruct (policy_verdict s (map b_rule p) (packet_of v ps LegDst)); simpl in S1; simpl pfmode.
    + eapply steps_app; [exact S1|]. apply Pass_through. exact Hal.
    + eapply steps_app; [exact S1|]. apply Pass_through. reflexivity.
    + eapply steps_app; [exact S1|]. apply steps_cons_hit. exact S2.
    + eapply steps_app; [exact S1|]. apply steps_cons_none. exact S2.
Qed.

Lemma write_profiles_sem : forall allowl, local_label allowl = false ->
  forall profs ctr c ctr',
  write_profiles fixed_variant v ctr allowl profs = WOk (c, ctr') ->
  forallb (forallb ok_b) profs = true ->
  steps ev c None (pfmode allowl (profiles_verdict s (map (map b_rule) profs) (packet_of v ps LegDst)))
  /\ defs_in local_label c.
Proof.
  intros allowl Hal profs ctr c ctr' H Hok. unfold write_profiles in H. destruct ctr as [[rid tid] pid].
  destruct (write_profile_list fixed_variant v rid pid allowl profs) as [[c1 [rid1 pid1]]|] eqn:W1; [|discriminate].
  destruct (write_rule fixed_variant v rid1 (empty_brule Deny) (Some (TJump LDeny)) LegDst) as [[c2 rid2]|] eqn:W2; [|discriminate].
  inversion H; subst c ctr'; clear H.
  destruct (write_profile_list_sem allowl Hal _ _ _ _ _ W1 Hok) as [D1 S1].
  destruct (write_empty_rule_sem _ _ _ _ _ W2 eq_refl) as [S2 D2].
  assert (D2' : defs_in local_label c2) by (eapply defs_in_weaken; [apply rule_label_local | exact D2]).
  split; [apply S1; assumption | apply defs_in_app; assumption].
Qed.

(* tiers then profiles = PolicyRef.endpoint_verdict *)
Lemma endpoint_sem : forall allowl, local_label allowl = false ->
  forall ts profs ctr c1 ctr1 c2 ctr2,
  write_tiers fixed_variant v ctr allowl LegDst ts = WOk (c1, ctr1) ->
  write_profiles fixed_variant v ctr1 allowl profs = WOk (c2, ctr2) ->
  forallb ok_tier ts = true -> forallb (forallb ok_b) profs = true ->
  steps ev (c1 ++ c2) None
        (pfmode allowl (endpoint_verdict s (map ref_tier ts) (map (map b_rule) profs) (packet_of v ps LegDst)))
  /\ defs_in local_label (c1 ++ c2).
Proof.
  intros allowl Hal ts profs ctr c1 ctr1 c2 ctr2 W1 W2 Ht Hp.
  destruct (write_tiers_sem allowl LegDst Hal _ _ _ _ W1 Ht) as [S1 D1].
  destruct (write_profiles_sem allowl Hal _ _ _ _ W2 Hp) as [S2 D2].
  split; [|apply defs_in_app; assumption].
  rewrite endpoint_as_tiers.
  destruct (tiers_verdict s (map ref_tier ts) (packet_of v ps LegDst)); simpl in S1; simpl pfmode.
  - eapply steps_app; [exact S1|]. eapply steps_skip; [exact D2 | exact Hal].
  - eapply steps_app; [exact S1|]. eapply steps_skip; [exact D2 | reflexivity].
  - eapply steps_app; [exact S1 | exact S2].
  - eapply steps_app; [exact S1 | exact S2].
Qed.

End Tiers.
