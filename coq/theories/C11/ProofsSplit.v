(* C11/ProofsSplit.v — (a) every valid configuration compiles (the fixed builder never panics);
   (b) cutting the program body into chained sub-programs, with the pending jump target handed over through
       landing pads / trampoline exactly as maybeSplitProgram does, preserves verdict and log flag. *)
From Coq Require Import List NArith Bool Lia.
From Verif.Common Require Import Packet PolicyRef.
From Verif.C11 Require Import Bpf Model Spec Proofs.
Import ListNotations.

(* ------------------------------------------------------------------ (a) totality *)
Lemma write_rule_total : forall vr v rid b tg dleg,
  (N.of_nat (length (r_dst_ipsets (b_rule b))) <=? 1)%N = true ->
  exists c rid', write_rule vr v rid b (Some tg) dleg = WOk (c, rid').
Proof.
  intros vr v rid b tg dleg Hlen. unfold write_rule.
  destruct (filter_rule v (b_rule b)) as [f|]; [|eauto].
  destruct (1 <? N.of_nat (length (r_dst_ipsets (b_rule b))))%N eqn:E.
  { apply N.ltb_lt in E. apply N.leb_le in Hlen. lia. }
  repeat match goal with |- context [let '(_, _) := ?x in _] => destruct x end.
  eauto.
Qed.

Lemma valid_rule_len : forall b, valid_rule b = true -> (N.of_nat (length (r_dst_ipsets (b_rule b))) <=? 1)%N = true.
Proof. intros b H. unfold valid_rule in H. apply andb_true_iff in H. destruct H as [H _]. apply andb_true_iff in H. tauto. Qed.

Lemma write_rules_total : forall vr v tgt dleg, (forall a, exists tg, tgt a = Some tg) ->
  forall rs rid, forallb valid_rule rs = true -> exists c rid', write_rules vr v rid tgt dleg rs = WOk (c, rid').
Proof.
  intros vr v tgt dleg Ht. induction rs as [|b rs IH]; intros rid Hv; simpl; [eauto|].
  simpl in Hv. apply andb_true_iff in Hv. destruct Hv as [Hb Hv].
  destruct (Ht (r_action (b_rule b))) as [tg ->].
  destruct (write_rule_total vr v rid b tg dleg (valid_rule_len _ Hb)) as [c1 [rid1 ->]].
  destruct (IH rid1 Hv) as [c2 [rid2 ->]]. eauto.
Qed.

Lemma write_policies_total : forall vr v tgt dleg, (forall a, exists tg, tgt a = Some tg) ->
  forall ps rid, forallb (forallb valid_rule) ps = true -> exists c rid', write_policies vr v rid tgt dleg ps = WOk (c, rid').
Proof.
  intros vr v tgt dleg Ht. induction ps as [|p ps IH]; intros rid Hv; simpl; [eauto|].
  simpl in Hv. apply andb_true_iff in Hv. destruct Hv as [Hp Hv].
  destruct (write_rules_total vr v tgt dleg Ht p rid Hp) as [c1 [rid1 ->]].
  destruct (IH rid1 Hv) as [c2 [rid2 ->]]. eauto.
Qed.

Lemma tier_target_total : forall allowl tid a, exists tg, tier_target allowl tid a = Some tg.
Proof. intros allowl tid []; simpl; eauto. Qed.
Lemma profile_target_total : forall vr allowl pid a, v_profile_log vr = true -> exists tg, profile_target vr allowl pid a = Some tg.
Proof. intros vr allowl pid [] H; simpl; try rewrite H; eauto. Qed.

Lemma write_tiers_total : forall vr v allowl dleg ts ctr, forallb valid_tier ts = true ->
  exists c ctr', write_tiers vr v ctr allowl dleg ts = WOk (c, ctr').
Proof.
  intros vr v allowl dleg. induction ts as [|t ts IH]; intros ctr Hv; [simpl; eauto|].
  destruct ctr as [[rid tid] pid]. cbn [write_tiers].
  simpl in Hv. apply andb_true_iff in Hv. destruct Hv as [Ht Hv].
  unfold valid_tier in Ht. apply andb_true_iff in Ht. destruct Ht as [_ Ht].
  destruct (write_policies_total vr v (tier_target allowl tid) dleg (tier_target_total allowl tid) _ rid Ht) as [c1 [rid1 ->]].
  match goal with |- context [write_rule ?a ?b ?c ?d (Some ?tg) ?f] =>
    destruct (write_rule_total a b c d match tg with TJump l => TJump l | TLog => TLog end f eq_refl) as [c2 [rid2 E2]] end.
  match type of E2 with write_rule _ _ _ _ (Some ?x) _ = _ =>
    match goal with |- context [write_rule ?a ?b ?c ?d (Some ?y) ?f] => change y with x end end.
  rewrite E2.
  match goal with |- context [write_tiers ?a ?b ?c ?d ?e ts] => destruct (IH c Hv) as [c3 [ctr3 ->]] end.
  eauto.
Qed.

Lemma write_profile_list_total : forall vr v allowl, v_profile_log vr = true ->
  forall ps rid pid, forallb (forallb valid_rule) ps = true ->
  exists c x, write_profile_list vr v rid pid allowl ps = WOk (c, x).
Proof.
  intros vr v allowl Hl. induction ps as [|p ps IH]; intros rid pid Hv; simpl; [eauto|].
  simpl in Hv. apply andb_true_iff in Hv. destruct Hv as [Hp Hv].
  destruct (write_rules_total vr v (profile_target vr allowl pid) LegDst
              (fun a => profile_target_total vr allowl pid a Hl) p rid Hp) as [c1 [rid1 ->]].
  destruct (IH rid1 (pid + 1)%N Hv) as [c2 [x ->]]. eauto.
Qed.

Lemma write_profiles_total : forall vr v allowl, v_profile_log vr = true ->
  forall ps ctr, forallb (forallb valid_rule) ps = true ->
  exists c ctr', write_profiles vr v ctr allowl ps = WOk (c, ctr').
Proof.
  intros vr v allowl Hl ps ctr Hv. unfold write_profiles. destruct ctr as [[rid tid] pid].
  destruct (write_profile_list_total vr v allowl Hl ps rid pid Hv) as [c1 [[rid1 pid1] ->]].
  destruct (write_rule_total vr v rid1 (empty_brule Deny) (TJump LDeny) LegDst eq_refl) as [c2 [rid2 ->]].
  eauto.
Qed.

Theorem instructions_total : forall vr v r, v_profile_log vr = true -> valid_rules r = true ->
  exists p, instructions vr v r = WOk p.
Proof.
  intros vr v r Hl Hv. unfold valid_rules in Hv.
  repeat (apply andb_true_iff in Hv; destruct Hv as [Hv ?]).
  rename Hv into Vt, H3 into Vpre, H2 into Vfwd, H1 into Vnorm, H0 into Vp, H into Vhp.
  assert (Hw : forall ctr, exists c ctr', write_workload vr v ctr r = WOk (c, ctr')).
  { intro ctr. unfold write_workload. destruct (br_for_host r); [eauto|]. unfold wbind.
    destruct (write_tiers_total vr v LAllow LegDst _ ctr Vt) as [c1 [ctr1 ->]].
    destruct (write_profiles_total vr v LAllow Hl _ ctr1 Vp) as [c2 [ctr2 ->]]. eauto. }
  assert (Hn : forall ctr, exists c ctr', write_normal vr v ctr r = WOk (c, ctr')).
  { intro ctr. unfold write_normal. destruct (br_suppress r); [eauto|]. unfold wbind. destruct (br_xdp r).
    - destruct (write_tiers_total vr v LAllowedByHost LegDstPre _ ctr Vnorm) as [c1 [ctr1 ->]]. eauto.
    - destruct (write_tiers_total vr v LAllowedByHost LegDst _ ctr Vnorm) as [c1 [ctr1 ->]].
      destruct (write_profiles_total vr v LAllowedByHost Hl _ ctr1 Vhp) as [c2 [ctr2 ->]]. eauto. }
  unfold instructions. cbv zeta.
  destruct (br_xdp r) eqn:Ex.
  - cbn [wbind]. destruct (Hn (0%N, 0%N, 0%N)) as [cb [ctrb ->]]. cbn [wbind].
    destruct (Hw ctrb) as [cc [ctrc ->]]. cbn [wbind]. eauto.
  - destruct (write_tiers_total vr v LAllowedByHost LegDstPre _ (0%N, 0%N, 0%N) Vpre) as [c1 [ctr1 E1]].
    rewrite E1. cbn [wbind].
    destruct (write_tiers_total vr v LAllowedByHost LegDst _ ctr1 Vfwd) as [c2 [ctr2 E2]].
    rewrite E2. cbn [wbind].
    destruct (Hn ctr2) as [cb [ctrb ->]]. cbn [wbind].
    destruct (Hw ctrb) as [cc [ctrc ->]]. cbn [wbind]. eauto.
Qed.

(* ------------------------------------------------------------------ (b) splitting *)
Section Split.
Variable ev : cond -> bool.

Lemma exec_mode_origin : forall c m lg l lg', exec ev c m lg = (Some l, lg') -> m = Some l \/ In l (targets c).
Proof.
  induction c as [|i c IH]; intros m lg l lg' H; simpl in H.
  - inversion H. left. reflexivity.
  - destruct m as [g|].
    + destruct i; try (destruct (IH _ _ _ _ H) as [E|E]; [left; exact E | right; unfold targets; simpl; try (right); exact E]).
      destruct (label_eqb g l0).
      * destruct (IH _ _ _ _ H) as [E|E]; [discriminate | right; exact E].
      * destruct (IH _ _ _ _ H) as [E|E]; [left; exact E | right; exact E].
    + destruct i.
      * destruct (IH _ _ _ _ H) as [E|E]; [discriminate | right; exact E].
      * destruct (IH _ _ _ _ H) as [E|E]; [inversion E; right; left; reflexivity | right; right; exact E].
      * destruct (Bool.eqb (ev c0) sense).
        -- destruct (IH _ _ _ _ H) as [E|E]; [inversion E; right; left; reflexivity | right; right; exact E].
        -- destruct (IH _ _ _ _ H) as [E|E]; [discriminate | right; right; exact E].
      * destruct (IH _ _ _ _ H) as [E|E]; [discriminate | right; exact E].
Qed.

Lemma index_of_ge : forall l ts k0 k, index_of l ts k0 = Some k -> (k0 <= k)%N.
Proof.
  induction ts as [|t ts IH]; intros k0 k H; simpl in H; [discriminate|].
  destruct (label_eqb l t); [inversion H; lia|]. apply IH in H. lia.
Qed.

Lemma index_of_in : forall l ts k0, In l ts -> exists k, index_of l ts k0 = Some k.
Proof.
  induction ts as [|t ts IH]; intros k0 H; [destruct H|]. simpl.
  destruct (label_eqb l t) eqn:E; [eauto|].
  destruct H as [->|H]; [rewrite label_eqb_refl in E; discriminate | apply IH; exact H].
Qed.

Lemma label_at_index_of : forall l ts k0 k, index_of l ts k0 = Some k -> label_at ts (k - k0 + 1) = Some l.
Proof.
  induction ts as [|t ts IH]; intros k0 k H; simpl in H; [discriminate|].
  destruct (label_eqb l t) eqn:E.
  - inversion H; subst k. apply label_eqb_eq in E. subst t. simpl.
    replace (k0 - k0 + 1)%N with 1%N by lia. reflexivity.
  - pose proof (index_of_ge _ _ _ _ H) as Hge. simpl.
    destruct (N.eqb (k - k0 + 1) 1) eqn:E1; [apply N.eqb_eq in E1; lia|].
    destruct (N.eqb (k - k0 + 1) 0) eqn:E0; [apply N.eqb_eq in E0; lia|].
    replace (k - k0 + 1 - 1)%N with (k - (k0 + 1) + 1)%N by lia. apply IH. exact H.
Qed.

(* landing pad then trampoline hand the pending label over unchanged *)
Lemma encode_decode : forall ts l, In l ts -> exists k, encode_mode ts (Some l) = Some k /\ decode_mode ts k = Some l.
Proof.
  intros ts l H. destruct (index_of_in l ts 1%N H) as [k Hk]. exists k. split; [exact Hk|].
  pose proof (index_of_ge _ _ _ _ Hk) as Hge. unfold decode_mode.
  destruct (N.eqb k 0) eqn:E; [apply N.eqb_eq in E; lia|].
  replace k with (k - 1 + 1)%N by lia. apply label_at_index_of. exact Hk.
Qed.

(* what the builder guarantees about the dangling-target lists: every non-footer jump target of the chunk, and
   every target handed in by the previous program's trampoline, has a landing pad *)
Fixpoint chain_wf (xdp : bool) (incoming : list label) (chunks : list (list ir * list label)) : Prop :=
  match chunks with
  | [] => True
  | (c, ts) :: rest =>
      (forall l, In l (targets c) \/ In l incoming -> is_footer_label xdp l = false -> In l ts)
      /\ chain_wf xdp ts rest
  end.

Definition not_footer (xdp : bool) (l : label) : bool := negb (is_footer_label xdp l).

Theorem split_equiv : forall xdp chunks incoming m lg,
  chain_wf xdp incoming chunks ->
  (forall c ts, In (c, ts) chunks -> defs_in (not_footer xdp) c) ->
  (forall l, m = Some l -> In l incoming \/ is_footer_label xdp l = true) ->
  run_chain ev xdp chunks m lg =
  let '(m', lg') := exec ev (concat (map fst chunks)) m lg in ChDone (final_verdict xdp m') lg'.
Proof.
  intros xdp. induction chunks as [|[c ts] rest IH]; intros incoming m lg Hwf Hdefs Hm.
  - reflexivity.
  - destruct Hwf as [Hts Hwf]. cbn [run_chain map fst concat]. rewrite exec_app.
    destruct (exec ev c m lg) as [m1 lg1] eqn:E1.
    destruct rest as [|ch2 rest'].
    + simpl. reflexivity.
    + set (rest := ch2 :: rest') in *.
      assert (Hdefs' : forall c ts, In (c, ts) rest -> defs_in (not_footer xdp) c)
        by (intros c' ts' H'; eapply Hdefs; right; exact H').
      destruct m1 as [l|].
      * destruct (is_footer_label xdp l) eqn:Ef.
        -- (* the chunk's own footer resolves it; in the unsplit body nothing defines a footer label *)
           assert (Hskip : exec ev (concat (map fst rest)) (Some l) lg1 = (Some l, lg1)).
           { apply (exec_skip ev (not_footer xdp)); [|unfold not_footer; rewrite Ef; reflexivity].
             intros l' Hin. apply in_concat in Hin. destruct Hin as [c' [Hc' Hl']].
             apply in_map_iff in Hc'. destruct Hc' as [[c'' ts''] [Efst Hin'']]. simpl in Efst. subst c''.
             eapply Hdefs'; eauto. }
           rewrite Hskip. reflexivity.
        -- assert (Hin : In l ts).
           { apply Hts; [|exact Ef]. destruct (exec_mode_origin _ _ _ _ _ E1) as [->|Ht]; [|left; exact Ht].
             destruct (Hm l eq_refl) as [Hi|Hf]; [right; exact Hi | rewrite Hf in Ef; discriminate]. }
           destruct (encode_decode ts l Hin) as [k [Ek Dk]]. rewrite Ek, Dk.
           apply (IH ts); [exact Hwf | exact Hdefs' |].
           intros l' El'. inversion El'; subst l'. left. exact Hin.
      * unfold decode_mode. simpl N.eqb. cbn iota.
        apply (IH ts); [exact Hwf | exact Hdefs' | intros l' El'; discriminate].
Qed.

End Split.
