(* C11/ProofsCut.v — the body written by `instructions` never defines a footer label, and annotating ANY cutting of
   it with dangling-target lists computed the builder's way (every non-footer jump target used so far that may still
   be pending) gives a well-formed chain: so split_equiv applies to every cutting of every compiled program. *)
From Coq Require Import List NArith Bool Lia.
From Verif.Common Require Import Packet PolicyRef.
From Verif.C11 Require Import Bpf Model Spec Proofs ProofsSplit.
Import ListNotations.

(* labels the body may define: everything but allow / deny / xdp_pass *)
Definition body_label (l : label) : bool := match l with LAllow | LDeny | LXdpPass => false | _ => true end.

Lemma body_not_footer : forall xdp l, body_label l = true -> not_footer xdp l = true.
Proof. intros xdp l H. unfold not_footer. destruct l; simpl in *; try reflexivity; try discriminate. Qed.

Lemma bdefs_map : forall {A} (f : A -> ir) xs, (forall a l, f a <> ILabel l) -> defs_in body_label (map f xs).
Proof. intros. apply defs_in_map_nolabel. assumption. Qed.

Lemma bdefs_cons_other : forall i c, (forall l, i <> ILabel l) -> defs_in body_label c -> defs_in body_label (i :: c).
Proof. intros i c H D l [E|E]; [exfalso; eapply H; exact E | apply D; exact E]. Qed.
Lemma bdefs_cons_label : forall l c, body_label l = true -> defs_in body_label c -> defs_in body_label (ILabel l :: c).
Proof. intros l c H D l' [E|E]; [inversion E; subst; exact H | apply D; exact E]. Qed.

Ltac bdefs :=
  repeat first
    [ apply defs_in_nil
    | apply defs_in_app
    | apply bdefs_map; intros; discriminate
    | apply bdefs_cons_label; [reflexivity|]
    | apply bdefs_cons_other; [intros; discriminate|]
    | assumption ].

Lemma write_cidrs_bdefs : forall rid part neg lg cs c part', write_cidrs rid part neg lg cs = (c, part') -> defs_in body_label c.
Proof. intros until part'. unfold write_cidrs. destruct cs; [|destruct neg]; intro H; inversion H; bdefs. Qed.
Lemma write_sets_or_bdefs : forall rid part lg ids c part', write_sets_or rid part lg ids = (c, part') -> defs_in body_label c.
Proof. intros until part'. unfold write_sets_or. destruct ids; intro H; inversion H; bdefs. Qed.
Lemma write_ports_bdefs : forall rid part neg lg rs ns c part', write_ports rid part neg lg rs ns = (c, part') -> defs_in body_label c.
Proof.
  intros until part'. unfold write_ports. destruct rs; [destruct ns|]; destruct neg; intro H; inversion H; bdefs.
Qed.
Lemma write_icmp_bdefs : forall rid neg m, defs_in body_label (write_icmp rid neg m).
Proof. intros rid neg [[t|t c]|]; simpl; bdefs. Qed.
Lemma write_sets_and_bdefs : forall rid neg lg ids, defs_in body_label (write_sets_and rid neg lg ids).
Proof. intros. unfold write_sets_and. bdefs. Qed.

Lemma write_rule_bdefs : forall vr v rid b tg dleg c rid', write_rule vr v rid b tg dleg = WOk (c, rid') -> defs_in body_label c.
Proof.
  intros vr v rid b tg dleg c rid' H. unfold write_rule in H. destruct tg as [tg|]; [|discriminate].
  destruct (filter_rule v (b_rule b)) as [f|]; [|inversion H; bdefs].
  destruct (1 <? N.of_nat (length (r_dst_ipsets (b_rule b))))%N; [discriminate|].
  destruct (write_cidrs rid 0 false LegSrc (f_src f)) as [c1 p1] eqn:W1.
  destruct (write_cidrs rid p1 true LegSrc (f_not_src f)) as [c2 p2] eqn:W2.
  destruct (write_cidrs rid p2 false dleg (f_dst f)) as [c3 p3] eqn:W3.
  destruct (write_cidrs rid p3 true dleg (f_not_dst f)) as [c4 p4] eqn:W4.
  destruct (write_sets_or rid p4 dleg (r_dst_ipsets (b_rule b))) as [c5 p5] eqn:W5.
  destruct (write_ports rid p5 false LegSrc (r_src_ports (b_rule b)) (r_src_named_ports (b_rule b))) as [c6 p6] eqn:W6.
  destruct (write_ports rid p6 true LegSrc (r_not_src_ports (b_rule b)) (r_not_src_named_ports (b_rule b))) as [c7 p7] eqn:W7.
  destruct (write_ports rid p7 false dleg (r_dst_ports (b_rule b)) (r_dst_named_ports (b_rule b))) as [c8 p8] eqn:W8.
  destruct (write_ports rid p8 true dleg (r_not_dst_ports (b_rule b)) (r_not_dst_named_ports (b_rule b))) as [c9 p9] eqn:W9.
  inversion H; subst c rid'; clear H.
  apply write_cidrs_bdefs in W1, W2, W3, W4. apply write_sets_or_bdefs in W5.
  apply write_ports_bdefs in W6, W7, W8, W9.
  pose proof (write_icmp_bdefs rid false (r_icmp (b_rule b))).
  pose proof (write_icmp_bdefs rid true (r_not_icmp (b_rule b))).
  pose proof (write_sets_and_bdefs rid false LegSrc (r_src_ipsets (b_rule b))).
  pose proof (write_sets_and_bdefs rid true LegSrc (r_not_src_ipsets (b_rule b))).
  pose proof (write_sets_and_bdefs rid true dleg (r_not_dst_ipsets (b_rule b))).
  pose proof (write_sets_and_bdefs rid false dleg (r_dst_ipport_sets (b_rule b))).
  destruct tg; bdefs.
Qed.

Lemma write_rules_bdefs : forall vr v tgt dleg rs rid c rid', write_rules vr v rid tgt dleg rs = WOk (c, rid') -> defs_in body_label c.
Proof.
  intros vr v tgt dleg. induction rs as [|b rs IH]; intros rid c rid' H; simpl in H; [inversion H; bdefs|].
  destruct (write_rule vr v rid b (tgt (r_action (b_rule b))) dleg) as [[c1 rid1]|] eqn:W1; [|discriminate].
  destruct (write_rules vr v rid1 tgt dleg rs) as [[c2 rid2]|] eqn:W2; [|discriminate].
  inversion H; subst. apply write_rule_bdefs in W1. apply IH in W2. bdefs.
Qed.

Lemma write_policies_bdefs : forall vr v tgt dleg ps rid c rid', write_policies vr v rid tgt dleg ps = WOk (c, rid') -> defs_in body_label c.
Proof.
  intros vr v tgt dleg. induction ps as [|p ps IH]; intros rid c rid' H; simpl in H; [inversion H; bdefs|].
  destruct (write_rules vr v rid tgt dleg p) as [[c1 rid1]|] eqn:W1; [|discriminate].
  destruct (write_policies vr v rid1 tgt dleg ps) as [[c2 rid2]|] eqn:W2; [|discriminate].
  inversion H; subst. apply write_rules_bdefs in W1. apply IH in W2. bdefs.
Qed.

Lemma write_tiers_bdefs : forall vr v allowl dleg ts ctr c ctr', write_tiers vr v ctr allowl dleg ts = WOk (c, ctr') -> defs_in body_label c.
Proof.
  intros vr v allowl dleg. induction ts as [|t ts IH]; intros ctr c ctr' H; [inversion H; bdefs|].
  destruct ctr as [[rid tid] pid]. cbn [write_tiers] in H.
  match type of H with context [write_policies ?a ?b ?c ?d ?e ?f] =>
    destruct (write_policies a b c d e f) as [[c1 rid1]|] eqn:W1; [|discriminate] end.
  match type of H with context [write_rule ?a ?b ?c ?d ?e ?f] =>
    destruct (write_rule a b c d e f) as [[c2 rid2]|] eqn:W2; [|discriminate] end.
  match type of H with context [write_tiers ?a ?b ?c ?d ?e ?f] =>
    destruct (write_tiers a b c d e f) as [[c3 ctr3]|] eqn:W3; [|discriminate] end.
  inversion H; subst. apply write_policies_bdefs in W1. apply write_rule_bdefs in W2. apply IH in W3.
  apply defs_in_app; [assumption|]. apply defs_in_app; [assumption|]. apply bdefs_cons_label; [reflexivity | assumption].
Qed.

Lemma write_profile_list_bdefs : forall vr v allowl ps rid pid c x,
  write_profile_list vr v rid pid allowl ps = WOk (c, x) -> defs_in body_label c.
Proof.
  intros vr v allowl. induction ps as [|p ps IH]; intros rid pid c x H; simpl in H; [inversion H; bdefs|].
  destruct (write_rules vr v rid (profile_target vr allowl pid) LegDst p) as [[c1 rid1]|] eqn:W1; [|discriminate].
  destruct (write_profile_list vr v rid1 (pid + 1)%N allowl ps) as [[c2 x2]|] eqn:W2; [|discriminate].
  inversion H; subst. apply write_rules_bdefs in W1. apply IH in W2.
  apply defs_in_app; [assumption|]. apply bdefs_cons_label; [reflexivity | assumption].
Qed.

Lemma write_profiles_bdefs : forall vr v ctr allowl ps c ctr', write_profiles vr v ctr allowl ps = WOk (c, ctr') -> defs_in body_label c.
Proof.
  intros vr v ctr allowl ps c ctr' H. unfold write_profiles in H. destruct ctr as [[rid tid] pid].
  destruct (write_profile_list vr v rid pid allowl ps) as [[c1 [rid1 pid1]]|] eqn:W1; [|discriminate].
  destruct (write_rule vr v rid1 (empty_brule Deny) (Some (TJump LDeny)) LegDst) as [[c2 rid2]|] eqn:W2; [|discriminate].
  inversion H; subst. apply write_profile_list_bdefs in W1. apply write_rule_bdefs in W2. bdefs.
Qed.

Theorem instructions_bdefs : forall vr v r p, instructions vr v r = WOk p -> defs_in body_label p.
Proof.
  intros vr v r p H. unfold instructions in H. cbv zeta in H.
  assert (Hw : forall ctr c ctr', write_workload vr v ctr r = WOk (c, ctr') -> defs_in body_label c).
  { intros ctr c ctr' Hc. unfold write_workload in Hc. destruct (br_for_host r); [inversion Hc; bdefs|]. unfold wbind in Hc.
    destruct (write_tiers vr v ctr LAllow LegDst (br_tiers r)) as [[c1 ctr1]|] eqn:W1; [|discriminate].
    destruct (write_profiles vr v ctr1 LAllow (br_profiles r)) as [[c2 ctr2]|] eqn:W2; [|discriminate].
    inversion Hc; subst. apply write_tiers_bdefs in W1. apply write_profiles_bdefs in W2. bdefs. }
  assert (Hn : forall ctr c ctr', write_normal vr v ctr r = WOk (c, ctr') -> defs_in body_label c).
  { intros ctr c ctr' Hc. unfold write_normal in Hc. destruct (br_suppress r); [inversion Hc; bdefs|]. unfold wbind in Hc.
    destruct (br_xdp r).
    - destruct (write_tiers vr v ctr LAllowedByHost LegDstPre (br_host_normal r)) as [[c1 ctr1]|] eqn:W1; [|discriminate].
      inversion Hc; subst. apply write_tiers_bdefs in W1.
      apply (defs_in_app _ [ILabel LToOrFromHost]); [bdefs | bdefs].
    - destruct (write_tiers vr v ctr LAllowedByHost LegDst (br_host_normal r)) as [[c1 ctr1]|] eqn:W1; [|discriminate].
      destruct (write_profiles vr v ctr1 LAllowedByHost (br_host_profiles r)) as [[c2 ctr2]|] eqn:W2; [|discriminate].
      inversion Hc; subst. apply write_tiers_bdefs in W1. apply write_profiles_bdefs in W2.
      apply (defs_in_app _ [ILabel LToOrFromHost]); [bdefs | bdefs]. }
  destruct (br_xdp r).
  - cbn [wbind] in H.
    destruct (write_normal vr v (0%N, 0%N, 0%N) r) as [[cb ctrb]|] eqn:Wb; [|discriminate]. cbn [wbind] in H.
    destruct (write_workload vr v ctrb r) as [[cc ctrc]|] eqn:Wc; [|discriminate]. cbn [wbind] in H.
    inversion H; subst. apply Hn in Wb. apply Hw in Wc. simpl app.
    apply defs_in_app; [assumption|]. apply bdefs_cons_label; [reflexivity | assumption].
  - unfold wbind at 1 2 3 in H.
    destruct (write_tiers vr v (0%N, 0%N, 0%N) LAllowedByHost LegDstPre (br_pre_dnat r)) as [[c1 ctr1]|] eqn:W1; [|discriminate].
    destruct (write_tiers vr v ctr1 LAllowedByHost LegDst (br_forward r)) as [[c2 ctr2]|] eqn:W2; [|discriminate].
    cbn [wbind] in H.
    destruct (write_normal vr v ctr2 r) as [[cb ctrb]|] eqn:Wb; [|discriminate]. cbn [wbind] in H.
    destruct (write_workload vr v ctrb r) as [[cc ctrc]|] eqn:Wc; [|discriminate]. cbn [wbind] in H.
    inversion H; subst. apply write_tiers_bdefs in W1, W2. apply Hn in Wb. apply Hw in Wc.
    apply defs_in_app; [|apply defs_in_app; [assumption|apply bdefs_cons_label; [reflexivity | assumption]]].
    apply defs_in_app; [assumption|]. apply bdefs_cons_other; [intros; discriminate|].
    apply defs_in_app; [assumption|]. bdefs.
Qed.

(* ------------------------------------------------------------------ any cutting, annotated the builder's way *)
Fixpoint annotate (xdp : bool) (incoming : list label) (chunks : list (list ir)) : list (list ir * list label) :=
  match chunks with
  | [] => []
  | c :: rest => let ts := filter (not_footer xdp) (targets c ++ incoming) in (c, ts) :: annotate xdp ts rest
  end.

Lemma annotate_fst : forall xdp chunks incoming, map fst (annotate xdp incoming chunks) = chunks.
Proof. induction chunks as [|c rest IH]; intro incoming; simpl; [reflexivity|]. rewrite IH. reflexivity. Qed.

Lemma annotate_wf : forall xdp chunks incoming, chain_wf xdp incoming (annotate xdp incoming chunks).
Proof.
  induction chunks as [|c rest IH]; intro incoming; simpl; [exact I|]. split; [|apply IH].
  intros l Hin Hf. apply filter_In. split.
  - apply in_or_app. exact Hin.
  - unfold not_footer. rewrite Hf. reflexivity.
Qed.

Lemma annotate_in : forall xdp chunks incoming c ts, In (c, ts) (annotate xdp incoming chunks) -> In c chunks.
Proof.
  induction chunks as [|c0 rest IH]; intros incoming c ts H; simpl in H; [destruct H|].
  destruct H as [E|H]; [inversion E; left; reflexivity | right; eapply IH; exact H].
Qed.

Theorem cut_equiv : forall ev xdp chunks lg,
  defs_in body_label (concat chunks) ->
  run_chain ev xdp (annotate xdp [] chunks) None lg =
  let '(m', lg') := exec ev (concat chunks) None lg in ChDone (final_verdict xdp m') lg'.
Proof.
  intros ev xdp chunks lg Hd.
  rewrite (split_equiv ev xdp (annotate xdp [] chunks) [] None lg (annotate_wf xdp chunks [])).
  - rewrite annotate_fst. reflexivity.
  - intros c ts Hin l Hl. apply body_not_footer. apply Hd. apply in_concat. exists c. split; [|exact Hl].
    eapply annotate_in. exact Hin.
  - intros l H. discriminate.
Qed.
