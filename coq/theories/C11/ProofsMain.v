(* C11/ProofsMain.v — the whole program body: IR verdict = reference verdict; valid configurations compile;
   cutting the body into chained sub-programs preserves the verdict. *)
From Coq Require Import List NArith Bool Lia.
From Verif.Common Require Import Packet PolicyRef.
From Verif.C11 Require Import Bpf Model Spec Proofs ProofsRule ProofsTiers.
Import ListNotations.

Definition vmode (x : rverdict) : option label :=
  match x with RAllow => Some LAllow | RDeny => Some LDeny | RXdpPass => Some LXdpPass | RStuck => Some LToOrFromHost end.

Lemma final_vmode : forall xdp x, x <> RStuck -> (x = RXdpPass -> xdp = true) -> final_verdict xdp (vmode x) = x.
Proof. intros xdp [] H1 H2; simpl; try reflexivity; try congruence. rewrite H2; reflexivity. Qed.

Section Main.
Variables (v : ipver) (s : ipsets) (bs : bpfsets) (kind : N -> bool) (ps : pstate).
Hypothesis Hsets : forall id a pr po, bs id a pr po = if kind id then s id (MemIPPort a pr po) else s id (MemIP a).
Hypothesis Haddr : forall lg, (leg_addr ps lg < 2 ^ addr_width v)%N.
Let ev := eval_cond v bs ps.

Definition typed_tier (t : btier) : bool := forallb (forallb (typed_b kind)) (bt_policies t).
Definition typed_rules (r : brules) : bool :=
  forallb typed_tier (br_tiers r) && forallb typed_tier (br_pre_dnat r) && forallb typed_tier (br_forward r)
  && forallb typed_tier (br_host_normal r)
  && forallb (forallb (typed_b kind)) (br_profiles r) && forallb (forallb (typed_b kind)) (br_host_profiles r).

Lemma ok_tiers_of : forall ts, forallb valid_tier ts = true -> forallb typed_tier ts = true -> forallb (ok_tier kind) ts = true.
Proof.
  induction ts as [|t ts IH]; simpl; intros A B; [reflexivity|].
  apply andb_true_iff in A, B. destruct A as [A1 A2], B as [B1 B2].
  unfold ok_tier at 1. unfold typed_tier in B1. rewrite A1, B1, IH by assumption. reflexivity.
Qed.

Record ok_rules (r : brules) : Prop := {
  ok_tiers : forallb (ok_tier kind) (br_tiers r) = true;
  ok_pre : forallb (ok_tier kind) (br_pre_dnat r) = true;
  ok_fwd : forallb (ok_tier kind) (br_forward r) = true;
  ok_norm : forallb (ok_tier kind) (br_host_normal r) = true;
  ok_profs : forallb (forallb (ok_b kind)) (br_profiles r) = true;
  ok_hprofs : forallb (forallb (ok_b kind)) (br_host_profiles r) = true }.

Lemma ok_rules_of : forall r, valid_rules r = true -> typed_rules r = true -> ok_rules r.
Proof.
  intros r Hv Ht. unfold valid_rules in Hv. unfold typed_rules in Ht.
  repeat (apply andb_true_iff in Hv; destruct Hv as [Hv ?]).
  repeat (apply andb_true_iff in Ht; destruct Ht as [Ht ?]).
  constructor; try (apply ok_tiers_of; assumption); apply ok_b_lists; assumption.
Qed.

(* ------------------------------------------------------------------ workload part *)
Lemma workload_sem : forall r ctr cc ctr', ok_rules r ->
  write_workload fixed_variant v ctr r = WOk (cc, ctr') ->
  steps ev cc None (vmode (ref_workload s v r ps)) /\ defs_in local_label cc.
Proof.
  intros r ctr cc ctr' Hok H. unfold write_workload, ref_workload in *. destruct (br_for_host r).
  - inversion H. split; [apply steps_jmp | apply defs_in_single_other; intros l E; discriminate].
  - unfold wbind in H.
    destruct (write_tiers fixed_variant v ctr LAllow LegDst (br_tiers r)) as [[c1 ctr1]|] eqn:W1; [|discriminate].
    destruct (write_profiles fixed_variant v ctr1 LAllow (br_profiles r)) as [[c2 ctr2]|] eqn:W2; [|discriminate].
    inversion H; subst cc ctr'; clear H.
    destruct (endpoint_sem v s bs kind ps Hsets Haddr LAllow eq_refl _ _ _ _ _ _ _ W1 W2 (ok_tiers r Hok) (ok_profs r Hok)) as [S D].
    split; [|exact D].
    destruct (endpoint_verdict s (map ref_tier (br_tiers r)) (map (map b_rule) (br_profiles r)) (packet_of v ps LegDst));
      exact S.
Qed.

Lemma ref_workload_ok : forall r, ref_workload s v r ps = RAllow \/ ref_workload s v r ps = RDeny.
Proof.
  intro r. unfold ref_workload. destruct (br_for_host r); [left; reflexivity|].
  destruct (endpoint_verdict _ _ _ _); auto.
Qed.

(* after "allowed_by_host_policy" *)
Lemma tail_sem : forall r ctr cc ctr', ok_rules r ->
  write_workload fixed_variant v ctr r = WOk (cc, ctr') ->
  steps ev (ILabel LAllowedByHost :: cc) (Some LAllowedByHost) (vmode (ref_workload s v r ps))
  /\ steps ev (ILabel LAllowedByHost :: cc) None (vmode (ref_workload s v r ps))
  /\ steps ev (ILabel LAllowedByHost :: cc) (Some LDeny) (Some LDeny)
  /\ steps ev (ILabel LAllowedByHost :: cc) (Some LXdpPass) (Some LXdpPass).
Proof.
  intros r ctr cc ctr' Hok H. destruct (workload_sem _ _ _ _ Hok H) as [S D].
  split; [|split; [|split]].
  - apply steps_cons_hit. exact S.
  - apply steps_cons_none. exact S.
  - apply steps_cons_miss; [discriminate|]. eapply steps_skip; [exact D | reflexivity].
  - apply steps_cons_miss; [discriminate|]. eapply steps_skip; [exact D | reflexivity].
Qed.

Definition host_label (l : label) : bool := local_label l || label_eqb l LToOrFromHost.

Lemma defs_local_host : forall c, defs_in local_label c -> defs_in host_label c.
Proof. intros c H. eapply defs_in_weaken; [|exact H]. intros l Hl. unfold host_label. rewrite Hl. reflexivity. Qed.

(* ------------------------------------------------------------------ the main theorem *)
Theorem ir_verdict : forall r p, ok_rules r ->
  instructions fixed_variant v r = WOk p ->
  forall lg, final_verdict (br_xdp r) (fst (exec ev p None lg)) = ref_verdict s v r ps.
Proof.
  intros r p Hok H.
  assert (Goal' : steps ev p None (vmode (ref_verdict s v r ps))
                  /\ ref_verdict s v r ps <> RStuck /\ (ref_verdict s v r ps = RXdpPass -> br_xdp r = true)).
  2:{ destruct Goal' as [S [N X]]. intro lg. rewrite (S lg). apply final_vmode; assumption. }
  unfold instructions in H. unfold ref_verdict.
  destruct (br_xdp r) eqn:Exdp.
  - (* XDP *)
    cbn [wbind] in H. unfold write_normal in H. rewrite Exdp in H.
    destruct (br_suppress r) eqn:Esup.
    + cbn [wbind] in H.
      destruct (write_workload fixed_variant v (0%N, 0%N, 0%N) r) as [[cc ctrc]|] eqn:Wc; [|discriminate].
      inversion H; subst p; clear H.
      destruct (tail_sem _ _ _ _ Hok Wc) as [T1 [T2 [T3 T4]]].
      split; [exact T2|]. destruct (ref_workload_ok r) as [E|E]; rewrite E; split; congruence.
    + cbn [wbind] in H.
      destruct (write_tiers fixed_variant v (0%N, 0%N, 0%N) LAllowedByHost LegDstPre (br_host_normal r)) as [[c1 ctr1]|] eqn:W1; [|discriminate].
      cbn [wbind] in H.
      destruct (write_workload fixed_variant v ctr1 r) as [[cc ctrc]|] eqn:Wc; [|discriminate].
      inversion H; subst p; clear H.
      destruct (tail_sem _ _ _ _ Hok Wc) as [T1 [T2 [T3 T4]]].
      destruct (write_tiers_sem v s bs kind ps Hsets Haddr LAllowedByHost LegDstPre eq_refl _ _ _ _ W1 (ok_norm r Hok)) as [S1 D1].
      split.
      * simpl app. apply steps_cons_none.
        rewrite <- app_assoc.
        destruct (tiers_verdict s (map ref_tier (br_host_normal r)) (packet_of v ps LegDstPre)); simpl in S1.
        -- eapply steps_app; [exact S1|]. simpl app.
           eapply (steps_app ev [IJmp LXdpPass]); [apply steps_nolabel_pending; intros l E; discriminate | exact T1].
        -- eapply steps_app; [exact S1|]. simpl app.
           eapply (steps_app ev [IJmp LXdpPass]); [apply steps_nolabel_pending; intros l E; discriminate | exact T3].
        -- eapply steps_app; [exact S1|]. simpl app.
           eapply (steps_app ev [IJmp LXdpPass]); [apply steps_jmp | exact T4].
        -- eapply steps_app; [exact S1|]. simpl app.
           eapply (steps_app ev [IJmp LXdpPass]); [apply steps_jmp | exact T4].
      * destruct (tiers_verdict s (map ref_tier (br_host_normal r)) (packet_of v ps LegDstPre));
          try (destruct (ref_workload_ok r) as [E|E]; rewrite E); split; congruence.
  - (* TC *)
    cbn [wbind] in H.
    destruct (write_tiers fixed_variant v (0%N, 0%N, 0%N) LAllowedByHost LegDstPre (br_pre_dnat r)) as [[c1 ctr1]|] eqn:W1; [|discriminate].
    cbn [wbind] in H.
    destruct (write_tiers fixed_variant v ctr1 LAllowedByHost LegDst (br_forward r)) as [[c2 ctr2]|] eqn:W2; [|discriminate].
    cbn [wbind] in H.
    destruct (write_tiers_sem v s bs kind ps Hsets Haddr LAllowedByHost LegDstPre eq_refl _ _ _ _ W1 (ok_pre r Hok)) as [S1 D1].
    destruct (write_tiers_sem v s bs kind ps Hsets Haddr LAllowedByHost LegDst eq_refl _ _ _ _ W2 (ok_fwd r Hok)) as [S2 D2].
    unfold write_normal in H. rewrite Exdp in H.
    (* the "normal host policy" section cb, and what it does from each pending label *)
    assert (Hnormal : exists cb ctrb,
      (if br_suppress r then WOk ([], ctr2)
       else wbind (write_tiers fixed_variant v ctr2 LAllowedByHost LegDst (br_host_normal r)) (fun '(c1, ctr1) =>
            wbind (write_profiles fixed_variant v ctr1 LAllowedByHost (br_host_profiles r)) (fun '(c2, ctr2) =>
            WOk ([ILabel LToOrFromHost] ++ c1 ++ c2, ctr2)))) = WOk (cb, ctrb)
      /\ defs_in host_label cb
      /\ (br_suppress r = false ->
          steps ev cb (Some LToOrFromHost)
            (pfmode LAllowedByHost (endpoint_verdict s (map ref_tier (br_host_normal r)) (map (map b_rule) (br_host_profiles r))
                                                     (packet_of v ps LegDst))))).
    { destruct (br_suppress r).
      - exists [], ctr2. split; [reflexivity|]. split; [apply defs_in_nil | discriminate].
      - unfold wbind in H |- *.
        destruct (write_tiers fixed_variant v ctr2 LAllowedByHost LegDst (br_host_normal r)) as [[c3 ctr3]|] eqn:W3; [|discriminate].
        destruct (write_profiles fixed_variant v ctr3 LAllowedByHost (br_host_profiles r)) as [[c4 ctr4]|] eqn:W4; [|discriminate].
        exists ([ILabel LToOrFromHost] ++ c3 ++ c4), ctr4. split; [reflexivity|].
        destruct (endpoint_sem v s bs kind ps Hsets Haddr LAllowedByHost eq_refl _ _ _ _ _ _ _ W3 W4 (ok_norm r Hok) (ok_hprofs r Hok)) as [S D].
        split.
        + apply (defs_in_app _ [ILabel LToOrFromHost]); [apply defs_in_single_label; reflexivity | apply defs_local_host; exact D].
        + intros _. simpl app. apply steps_cons_hit. exact S. }
    destruct Hnormal as [cb [ctrb [Eb [Db Sb]]]]. rewrite Eb in H. cbn [wbind] in H.
    destruct (write_workload fixed_variant v ctrb r) as [[cc ctrc]|] eqn:Wc; [|discriminate].
    inversion H; subst p; clear H.
    destruct (tail_sem _ _ _ _ Hok Wc) as [T1 [T2 [T3 T4]]].
    (* from a pending allowed_by_host_policy / deny anywhere before cb *)
    assert (Skip_cb : forall g, host_label g = false -> steps ev cb (Some g) (Some g))
      by (intros g Hg; eapply steps_skip; [exact Db | exact Hg]).
    assert (To_allowed : steps ev (cb ++ [ILabel LAllowedByHost] ++ cc) (Some LAllowedByHost) (vmode (ref_workload s v r ps)))
      by (eapply steps_app; [apply Skip_cb; reflexivity | exact T1]).
    assert (To_deny : steps ev (cb ++ [ILabel LAllowedByHost] ++ cc) (Some LDeny) (Some LDeny))
      by (eapply steps_app; [apply Skip_cb; reflexivity | exact T3]).
    set (jh := IJmpIf true CHost (if br_suppress r then LAllowedByHost else LToOrFromHost)) in *.
    assert (Pending_mid : forall g m', local_label g = false ->
              steps ev (cb ++ [ILabel LAllowedByHost] ++ cc) (Some g) m' ->
              steps ev (([jh] ++ c2 ++ [IJmp LAllowedByHost]) ++ cb ++ [ILabel LAllowedByHost] ++ cc) (Some g) m').
    { intros g m' Hg Hrest. eapply steps_app; [|exact Hrest].
      eapply (steps_app ev [jh]); [apply steps_nolabel_pending; intros l E; discriminate|].
      eapply steps_app; [eapply steps_skip; [exact D2 | exact Hg]|].
      apply steps_nolabel_pending; intros l E; discriminate. }
    split.
    + replace ((c1 ++ jh :: c2 ++ [IJmp LAllowedByHost]) ++ cb ++ ILabel LAllowedByHost :: cc)
        with (c1 ++ (([jh] ++ c2 ++ [IJmp LAllowedByHost]) ++ cb ++ [ILabel LAllowedByHost] ++ cc))
        by (simpl; rewrite <- !app_assoc; simpl; rewrite <- ?app_assoc; reflexivity).
      destruct (tiers_verdict s (map ref_tier (br_pre_dnat r)) (packet_of v ps LegDstPre)) eqn:Epre; simpl in S1;
        try (eapply steps_app; [exact S1|]; apply Pending_mid; [reflexivity|]; first [exact To_allowed | exact To_deny]).
      (* pre-DNAT policy did not decide *)
      all: eapply steps_app; [exact S1|]; rewrite <- !app_assoc;
           eapply (steps_app ev [jh]); [apply steps_jmpif|]; change (eval_cond v bs ps CHost) with (to_or_from_host ps);
           destruct (to_or_from_host ps) eqn:Ehost; cbn [Bool.eqb].
      all: try (
        (* to/from host *)
        destruct (br_suppress r) eqn:Esup;
        [ eapply steps_app; [eapply steps_skip; [exact D2 | reflexivity]|];
          eapply (steps_app ev [IJmp LAllowedByHost]); [apply steps_nolabel_pending; intros l E; discriminate | exact To_allowed]
        | eapply steps_app; [eapply steps_skip; [exact D2 | reflexivity]|];
          eapply (steps_app ev [IJmp LAllowedByHost]); [apply steps_nolabel_pending; intros l E; discriminate|];
          eapply steps_app; [apply Sb; reflexivity|];
          destruct (endpoint_verdict s (map ref_tier (br_host_normal r)) (map (map b_rule) (br_host_profiles r)) (packet_of v ps LegDst));
          simpl pfmode; first [exact T1 | exact T3] ]).
      (* forwarded *)
      all: destruct (tiers_verdict s (map ref_tier (br_forward r)) (packet_of v ps LegDst)) eqn:Efwd; simpl in S2;
           (eapply steps_app; [exact S2|]);
           first [ eapply (steps_app ev [IJmp LAllowedByHost]); [apply steps_nolabel_pending; intros l E; discriminate|];
                   first [exact To_allowed | exact To_deny]
                 | eapply (steps_app ev [IJmp LAllowedByHost]); [apply steps_jmp | exact To_allowed] ].
    + destruct (ref_workload_ok r) as [E|E];
      destruct (tiers_verdict s (map ref_tier (br_pre_dnat r)) (packet_of v ps LegDstPre));
      destruct (to_or_from_host ps); destruct (br_suppress r);
      destruct (endpoint_verdict s (map ref_tier (br_host_normal r)) (map (map b_rule) (br_host_profiles r)) (packet_of v ps LegDst));
      destruct (tiers_verdict s (map ref_tier (br_forward r)) (packet_of v ps LegDst));
      rewrite ?E; split; congruence.
Qed.

End Main.
