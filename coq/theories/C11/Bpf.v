(* C11/Bpf.v — a small eBPF interpreter (the subset the Calico policy-program builder emits, and a bit more).
   Self-contained (no Verif.Common import).  Definitions only.

   Machine: 11 registers, a 512-byte stack (bytes are UNINITIALISED until written, as the kernel verifier
   insists), one map value of the state map (struct cali_tc_state, 512 bytes), the program context (skb / xdp_md,
   read-only bytes), ALU64/ALU32, LD_IMM64 (incl. the pseudo map-fd form), LDX/ST/STX of 1/2/4/8 bytes,
   JMP/JMP32 conditional jumps, `call 1` (bpf_map_lookup_elem) on the state map and on the IP-sets LPM map
   (answered from an oracle table of set members), `call 12` (bpf_tail_call) into the policy jump map (continues
   in the chained sub-program with fresh registers and a fresh stack) or into any other map (terminates: that is
   the hand-over to the allow/deny epilogue programs), and `exit`.

   Registers hold typed values (scalar / pointer into a region / map reference / uninitialised) so that the
   mistakes the verifier rejects are errors here as well: reading an uninitialised register or stack byte,
   dereferencing a scalar, using R1-R5 after a helper call, out-of-bounds accesses.  Every error is an
   outcome `OErr code`, never a silent default. *)
From Coq Require Import List NArith ZArith Bool.
Import ListNotations.
Open Scope Z_scope.

(* ------------------------------------------------------------------ instructions as the assembler encodes them *)
Record raw := R { r_op : N; r_dst : N; r_src : N; r_off : Z; r_imm : Z }.

(* The assembler's 8-byte encoding (asm.MakeInsn): byte 0 opcode, byte 1 = src<<4 | dst, bytes 2-3 offset (int16,
   little endian), bytes 4-7 immediate (int32, little endian).  A word is those 8 bytes read as a little-endian
   64-bit number. *)
Definition decode_word (w : N) : raw :=
  let op := N.land w 255 in
  let rg := N.land (N.shiftr w 8) 255 in
  let off := N.land (N.shiftr w 16) 65535 in
  let imm := N.land (N.shiftr w 32) 4294967295 in
  R op (N.land rg 15) (N.shiftr rg 4)
    (if (off <? 32768)%N then Z.of_N off else Z.of_N off - 65536)
    (if (imm <? 2147483648)%N then Z.of_N imm else Z.of_N imm - 4294967296).

Definition decode_prog (ws : list N) : list raw := map decode_word ws.

(* ------------------------------------------------------------------ a positive-indexed trie (program text, memories) *)
Inductive tree (A : Type) := Lf | Nd (l : tree A) (v : option A) (r : tree A).
Arguments Lf {A}.
Arguments Nd {A} l v r.

Fixpoint tget {A} (t : tree A) (p : positive) : option A :=
  match t with
  | Lf => None
  | Nd l v r => match p with xH => v | xO q => tget l q | xI q => tget r q end
  end.

Fixpoint tset {A} (t : tree A) (p : positive) (a : A) : tree A :=
  match p with
  | xH => match t with Lf => Nd Lf (Some a) Lf | Nd l _ r => Nd l (Some a) r end
  | xO q => match t with Lf => Nd (tset Lf q a) None Lf | Nd l v r => Nd (tset l q a) v r end
  | xI q => match t with Lf => Nd Lf None (tset Lf q a) | Nd l v r => Nd l v (tset r q a) end
  end.

Fixpoint tree_of_list_from {A} (l : list A) (p : positive) (t : tree A) : tree A :=
  match l with [] => t | a :: l' => tree_of_list_from l' (Pos.succ p) (tset t p a) end.
Definition tree_of_list {A} (l : list A) : tree A := tree_of_list_from l 1%positive Lf.
(* element i (0-based) *)
Definition tnth {A} (t : tree A) (i : Z) : option A := if i <? 0 then None else tget t (Z.to_pos (i + 1)).

(* ------------------------------------------------------------------ values, registers, memory *)
Inductive region := RgStack | RgState | RgCtx | RgEntry.
Inductive val := VUninit | VS (n : N) | VP (r : region) (off : Z) | VM (fd : N).

Definition M64 : N := 18446744073709551616%N.   (* 2^64 *)
Definition M32 : N := 4294967296%N.             (* 2^32 *)
Definition wrap64 (z : Z) : N := Z.to_N (z mod 18446744073709551616).
Definition wrap32 (z : Z) : N := Z.to_N (z mod 4294967296).
Definition signed64 (n : N) : Z := if (n <? 9223372036854775808)%N then Z.of_N n else Z.of_N n - 18446744073709551616.
Definition signed32 (n : N) : Z := if (n <? 2147483648)%N then Z.of_N n else Z.of_N n - 4294967296.

Definition regs := list val.
Definition getr (rs : regs) (i : N) : val := nth (N.to_nat i) rs VUninit.
Fixpoint setr_nat (rs : regs) (i : nat) (v : val) : regs :=
  match rs, i with
  | [], _ => []
  | _ :: t, O => v :: t
  | h :: t, S k => h :: setr_nat t k v
  end.
Definition setr (rs : regs) (i : N) (v : val) : regs := setr_nat rs (N.to_nat i) v.

Definition mem := tree N.     (* byte offset (shifted to a positive key) -> byte *)
Record mstate := MS { m_regs : regs; m_stack : mem; m_state : mem; m_ctx : mem }.

Definition STACK_SIZE : Z := 512.
Definition STATE_SIZE : Z := 512.
Definition CTX_SIZE : Z := 256.

(* key of byte `off` of a region; None = out of bounds *)
Definition mkey (rg : region) (off : Z) : option positive :=
  match rg with
  | RgStack => if (-STACK_SIZE <=? off) && (off <? 0) then Some (Z.to_pos (off + STACK_SIZE + 1)) else None
  | RgState => if (0 <=? off) && (off <? STATE_SIZE) then Some (Z.to_pos (off + 1)) else None
  | RgCtx => if (0 <=? off) && (off <? CTX_SIZE) then Some (Z.to_pos (off + 1)) else None
  | RgEntry => None
  end.
Definition region_mem (ms : mstate) (rg : region) : mem :=
  match rg with RgStack => m_stack ms | RgState => m_state ms | RgCtx => m_ctx ms | RgEntry => Lf end.

(* little-endian load of n bytes; None if out of bounds or a byte was never written *)
Fixpoint load_le (t : mem) (rg : region) (off : Z) (n : nat) : option N :=
  match n with
  | O => Some 0%N
  | S k => match mkey rg off with
           | None => None
           | Some p => match tget t p with
                       | None => None
                       | Some b => match load_le t rg (off + 1) k with
                                   | None => None
                                   | Some hi => Some (b + 256 * hi)%N
                                   end
                       end
           end
  end.
(* big-endian load (network byte order fields) *)
Fixpoint load_be_acc (t : mem) (rg : region) (off : Z) (n : nat) (acc : N) : option N :=
  match n with
  | O => Some acc
  | S k => match mkey rg off with
           | None => None
           | Some p => match tget t p with
                       | None => None
                       | Some b => load_be_acc t rg (off + 1) k (acc * 256 + b)%N
                       end
           end
  end.
Definition load_be t rg off n := load_be_acc t rg off n 0%N.

Fixpoint store_le (t : mem) (rg : region) (off : Z) (n : nat) (v : N) : option mem :=
  match n with
  | O => Some t
  | S k => match mkey rg off with
           | None => None
           | Some p => store_le (tset t p (v mod 256)%N) rg (off + 1) k (v / 256)%N
           end
  end.

Definition set_region (ms : mstate) (rg : region) (t : mem) : option mstate :=
  match rg with
  | RgStack => Some (MS (m_regs ms) t (m_state ms) (m_ctx ms))
  | RgState => Some (MS (m_regs ms) (m_stack ms) t (m_ctx ms))
  | _ => None                      (* the context is read-only for policy programs *)
  end.
Definition set_regs (ms : mstate) (rs : regs) : mstate := MS rs (m_stack ms) (m_state ms) (m_ctx ms).

(* memory images from byte lists *)
Definition mem_of_bytes (l : list N) : mem := tree_of_list l.

(* ------------------------------------------------------------------ environment: maps and chained programs *)
Inductive set_entry :=
| ECidr (addr : N) (len : N)                 (* hash:net member: LPM prefix = 64 + len, port/proto bytes zero *)
| EPort (addr : N) (proto : N) (port : N).   (* hash:ip,port member: full-length key *)

Record env := ENV {
  e_v6 : bool;                    (* IPv6 build of the programs: 16-byte addresses in the IP-set key *)
  e_state_fd : N;
  e_ipsets_fd : N;
  e_jump_fd : N;                  (* policy jump map: tail calls into it chain to sub-programs *)
  e_sets : list (N * list set_entry);     (* 64-bit set id -> members *)
  e_progs : list (N * tree raw)           (* jump-map index -> sub-program *)
}.

Definition addr_bits (e : env) : N := if e_v6 e then 128%N else 32%N.

Definition entry_hit (w : N) (addr proto port : N) (en : set_entry) : bool :=
  match en with
  | ECidr a l => (l <=? w)%N && N.eqb (N.shiftr addr (w - l)) (N.shiftr a (w - l))
  | EPort a pr po => N.eqb addr a && N.eqb proto pr && N.eqb port po
  end.
Fixpoint assoc {A} (k : N) (l : list (N * A)) : option A :=
  match l with [] => None | (k', a) :: t => if N.eqb k k' then Some a else assoc k t end.
Definition set_lookup (e : env) (id addr proto port : N) : bool :=
  match assoc id (e_sets e) with
  | None => false
  | Some ens => existsb (entry_hit (addr_bits e) addr proto port) ens
  end.

(* ------------------------------------------------------------------ outcomes *)
Inductive outcome :=
| OExit (r0 : N) (ms : mstate)                (* exit instruction *)
| OTail (fd idx : N) (ms : mstate)            (* tail call into a map other than the policy jump map *)
| OErr (code : N) (pc : Z)                    (* the program did something the verifier/kernel would not allow *)
| OFuel.

Inductive step_result :=
| SNext (pc : Z) (ms : mstate)
| SProg (p : tree raw) (ms : mstate)          (* tail call into a chained sub-program *)
| SDone (o : outcome).

(* error codes *)
Definition E_FETCH := 1%N.      Definition E_UNINIT := 2%N.    Definition E_BADPTR := 3%N.
Definition E_OOB := 4%N.        Definition E_OPCODE := 5%N.    Definition E_HELPER := 6%N.
Definition E_KEY := 7%N.        Definition E_CMP := 8%N.       Definition E_ALU := 9%N.
Definition E_WRITE_R10 := 10%N. Definition E_MAP := 11%N.

(* ------------------------------------------------------------------ ALU *)
Definition bswap (bytes : nat) (v : N) : N :=
  (fix go (k : nat) (v acc : N) : N :=
     match k with O => acc | S k' => go k' (v / 256)%N (acc * 256 + v mod 256)%N end) bytes v 0%N.

(* 64-bit operation on scalars; b already sign-extended/wrapped to 64 bits *)
Definition alu64 (op : N) (a b : N) : option N :=
  match op with
  | 0%N => Some ((a + b) mod M64)%N
  | 1%N => Some (wrap64 (Z.of_N a - Z.of_N b))
  | 2%N => Some ((a * b) mod M64)%N
  | 3%N => Some (if N.eqb b 0 then 0%N else (a / b)%N)
  | 4%N => Some (N.lor a b)
  | 5%N => Some (N.land a b)
  | 6%N => Some ((N.shiftl a (b mod 64)) mod M64)%N
  | 7%N => Some (N.shiftr a (b mod 64))
  | 8%N => Some (wrap64 (- Z.of_N a))
  | 9%N => Some (if N.eqb b 0 then a else (a mod b)%N)
  | 10%N => Some (N.lxor a b)
  | 11%N => Some b
  | 12%N => Some (wrap64 (Z.shiftr (signed64 a) (Z.of_N (b mod 64))))
  | _ => None
  end.
Definition alu32 (op : N) (a b : N) : option N :=
  let a := (a mod M32)%N in let b := (b mod M32)%N in
  match op with
  | 0%N => Some ((a + b) mod M32)%N
  | 1%N => Some (wrap32 (Z.of_N a - Z.of_N b))
  | 2%N => Some ((a * b) mod M32)%N
  | 3%N => Some (if N.eqb b 0 then 0%N else (a / b)%N)
  | 4%N => Some (N.lor a b)
  | 5%N => Some (N.land a b)
  | 6%N => Some ((N.shiftl a (b mod 32)) mod M32)%N
  | 7%N => Some (N.shiftr a (b mod 32))
  | 8%N => Some (wrap32 (- Z.of_N a))
  | 9%N => Some (if N.eqb b 0 then a else (a mod b)%N)
  | 10%N => Some (N.lxor a b)
  | 11%N => Some b
  | 12%N => Some (wrap32 (Z.shiftr (signed32 a) (Z.of_N (b mod 32))))
  | _ => None
  end.

(* ------------------------------------------------------------------ jump conditions *)
Definition cond64 (op : N) (a b : N) : option bool :=
  match op with
  | 1%N => Some (N.eqb a b)
  | 2%N => Some (b <? a)%N
  | 3%N => Some (b <=? a)%N
  | 4%N => Some (negb (N.eqb (N.land a b) 0))
  | 5%N => Some (negb (N.eqb a b))
  | 6%N => Some (signed64 b <? signed64 a)
  | 7%N => Some (signed64 b <=? signed64 a)
  | 10%N => Some (a <? b)%N
  | 11%N => Some (a <=? b)%N
  | 12%N => Some (signed64 a <? signed64 b)
  | 13%N => Some (signed64 a <=? signed64 b)
  | _ => None
  end.
Definition cond32 (op : N) (a b : N) : option bool :=
  let a := (a mod M32)%N in let b := (b mod M32)%N in
  match op with
  | 1%N => Some (N.eqb a b)
  | 2%N => Some (b <? a)%N
  | 3%N => Some (b <=? a)%N
  | 4%N => Some (negb (N.eqb (N.land a b) 0))
  | 5%N => Some (negb (N.eqb a b))
  | 6%N => Some (signed32 b <? signed32 a)
  | 7%N => Some (signed32 b <=? signed32 a)
  | 10%N => Some (a <? b)%N
  | 11%N => Some (a <=? b)%N
  | 12%N => Some (signed32 a <? signed32 b)
  | 13%N => Some (signed32 a <=? signed32 b)
  | _ => None
  end.

Definition size_of (op : N) : nat :=
  match (N.land op 24) with
  | 0%N => 4%nat | 8%N => 2%nat | 16%N => 1%nat | _ => 8%nat
  end.

Definition clobber_args (rs : regs) : regs :=
  setr (setr (setr (setr (setr rs 1 VUninit) 2 VUninit) 3 VUninit) 4 VUninit) 5 VUninit.

Definition fresh_regs : regs :=
  [VUninit; VP RgCtx 0; VUninit; VUninit; VUninit; VUninit; VUninit; VUninit; VUninit; VUninit; VP RgStack 0].

(* ------------------------------------------------------------------ helpers *)
(* bpf_map_lookup_elem(R1 = map, R2 = key on the stack) *)
Definition do_map_lookup (e : env) (pc : Z) (ms : mstate) : step_result :=
  let rs := m_regs ms in
  match getr rs 1, getr rs 2 with
  | VM fd, VP RgStack koff =>
      if N.eqb fd (e_state_fd e) then
        match load_le (m_stack ms) RgStack koff 4 with
        | Some 0%N => SNext (pc + 1) (set_regs ms (setr (clobber_args rs) 0 (VP RgState 0)))
        | Some _ => SNext (pc + 1) (set_regs ms (setr (clobber_args rs) 0 (VS 0)))
        | None => SDone (OErr E_KEY pc)
        end
      else if N.eqb fd (e_ipsets_fd e) then
        let alen := if e_v6 e then 16%nat else 4%nat in
        let adj := if e_v6 e then 12 else 0 in
        match load_le (m_stack ms) RgStack koff 4,
              load_be (m_stack ms) RgStack (koff + 4) 8,
              load_be (m_stack ms) RgStack (koff + 12) alen,
              load_le (m_stack ms) RgStack (koff + 16 + adj) 2,
              load_le (m_stack ms) RgStack (koff + 18 + adj) 1,
              load_le (m_stack ms) RgStack (koff + 19 + adj) 1 with
        | Some plen, Some id, Some addr, Some port, Some proto, Some pad =>
            (* the lookup key must be full length with a zero pad byte, otherwise the LPM match is not
               the membership test the builder intends *)
            if N.eqb plen (64 + addr_bits e + 32) && N.eqb pad 0 then
              let hit := set_lookup e id addr proto port in
              SNext (pc + 1) (set_regs ms (setr (clobber_args rs) 0 (if hit then VP RgEntry 0 else VS 0)))
            else SDone (OErr E_KEY pc)
        | _, _, _, _, _, _ => SDone (OErr E_KEY pc)
        end
      else SDone (OErr E_MAP pc)
  | VUninit, _ | _, VUninit => SDone (OErr E_UNINIT pc)
  | _, _ => SDone (OErr E_HELPER pc)
  end.

(* bpf_tail_call(R1 = ctx, R2 = prog array, R3 = index) *)
Definition do_tail_call (e : env) (pc : Z) (ms : mstate) : step_result :=
  let rs := m_regs ms in
  match getr rs 1, getr rs 2, getr rs 3 with
  | VP RgCtx 0, VM fd, VS idx =>
      let idx := (idx mod M32)%N in
      if N.eqb fd (e_jump_fd e) then
        match assoc idx (e_progs e) with
        | Some p => SProg p (MS fresh_regs Lf (m_state ms) (m_ctx ms))
        | None => (* empty slot: the call fails and execution falls through *)
            SNext (pc + 1) (set_regs ms (setr (clobber_args rs) 0 (VS (wrap64 (-2)))))
        end
      else SDone (OTail fd idx ms)
  | VUninit, _, _ | _, VUninit, _ | _, _, VUninit => SDone (OErr E_UNINIT pc)
  | _, _, _ => SDone (OErr E_HELPER pc)
  end.

(* ------------------------------------------------------------------ one step *)
Definition step (e : env) (p : tree raw) (pc : Z) (ms : mstate) : step_result :=
  match tnth p pc with
  | None => SDone (OErr E_FETCH pc)
  | Some i =>
    let rs := m_regs ms in
    let op := r_op i in
    let cls := N.land op 7 in
    match cls with
    | 7%N | 4%N =>                                         (* ALU64 / ALU32 *)
        let is64 := N.eqb cls 7 in
        let aop := N.shiftr op 4 in
        let use_reg := negb (N.eqb (N.land op 8) 0) in
        if N.eqb (r_dst i) 10 then SDone (OErr E_WRITE_R10 pc) else
        if N.eqb aop 13 then                                (* endianness conversion; imm = width *)
          match getr rs (r_dst i) with
          | VS a =>
              let w := r_imm i in
              let bytes := if w =? 16 then 2%nat else if w =? 32 then 4%nat else 8%nat in
              let md := if w =? 16 then 65536%N else if w =? 32 then M32 else M64 in
              let a' := N.modulo a md in
              let v := if use_reg (* to big endian on a little-endian machine *) then bswap bytes a' else a' in
              SNext (pc + 1) (set_regs ms (setr rs (r_dst i) (VS v)))
          | VUninit => SDone (OErr E_UNINIT pc)
          | _ => SDone (OErr E_ALU pc)
          end
        else
        let bv := if use_reg then getr rs (r_src i) else VS (wrap64 (r_imm i)) in
        let av := if N.eqb aop 11 then VS 0 else getr rs (r_dst i) in     (* mov does not read dst *)
        match av, bv with
        | VUninit, _ | _, VUninit => SDone (OErr E_UNINIT pc)
        | VS a, VS b =>
            match (if is64 then alu64 aop a b else alu32 aop a b) with
            | Some v => SNext (pc + 1) (set_regs ms (setr rs (r_dst i) (VS v)))
            | None => SDone (OErr E_OPCODE pc)
            end
        | VS a, (VP _ _ | VM _) as b =>
            if is64 && N.eqb aop 11 then SNext (pc + 1) (set_regs ms (setr rs (r_dst i) b))     (* mov ptr *)
            else match b with
                 | VP rg off => if is64 && N.eqb aop 0 then SNext (pc + 1) (set_regs ms (setr rs (r_dst i) (VP rg (off + signed64 a))))
                                else SDone (OErr E_ALU pc)
                 | _ => SDone (OErr E_ALU pc)
                 end
        | VP rg off, VS b =>
            if is64 && N.eqb aop 0 then SNext (pc + 1) (set_regs ms (setr rs (r_dst i) (VP rg (off + signed64 b))))
            else if is64 && N.eqb aop 1 then SNext (pc + 1) (set_regs ms (setr rs (r_dst i) (VP rg (off - signed64 b))))
            else SDone (OErr E_ALU pc)
        | _, _ => SDone (OErr E_ALU pc)
        end
    | 0%N =>                                               (* LD_IMM64 (two slots) *)
        if N.eqb op 24 then
          if N.eqb (r_dst i) 10 then SDone (OErr E_WRITE_R10 pc) else
          match tnth p (pc + 1) with
          | None => SDone (OErr E_FETCH pc)
          | Some j =>
              if negb (N.eqb (r_op j) 0) then SDone (OErr E_OPCODE pc) else
              let v := if N.eqb (r_src i) 1 then VM (wrap32 (r_imm i))
                       else VS (wrap32 (r_imm i) + M32 * wrap32 (r_imm j))%N in
              if (N.eqb (r_src i) 0 || N.eqb (r_src i) 1)
              then SNext (pc + 2) (set_regs ms (setr rs (r_dst i) v))
              else SDone (OErr E_OPCODE pc)
          end
        else SDone (OErr E_OPCODE pc)
    | 1%N =>                                               (* LDX: dst = *(size* )(src + off) *)
        if negb (N.eqb (N.land op 224) 96) then SDone (OErr E_OPCODE pc) else
        if N.eqb (r_dst i) 10 then SDone (OErr E_WRITE_R10 pc) else
        match getr rs (r_src i) with
        | VP rg off =>
            match load_le (region_mem ms rg) rg (off + r_off i) (size_of op) with
            | Some v => SNext (pc + 1) (set_regs ms (setr rs (r_dst i) (VS v)))
            | None => SDone (OErr E_OOB pc)
            end
        | VUninit => SDone (OErr E_UNINIT pc)
        | _ => SDone (OErr E_BADPTR pc)
        end
    | 2%N | 3%N =>                                         (* ST imm / STX reg: *(size* )(dst + off) = v *)
        if negb (N.eqb (N.land op 224) 96) then SDone (OErr E_OPCODE pc) else
        let v := if N.eqb cls 2 then VS (wrap64 (r_imm i)) else getr rs (r_src i) in
        match getr rs (r_dst i), v with
        | VUninit, _ | _, VUninit => SDone (OErr E_UNINIT pc)
        | VP rg off, VS n =>
            match store_le (region_mem ms rg) rg (off + r_off i) (size_of op) n with
            | Some t => match set_region ms rg t with
                        | Some ms' => SNext (pc + 1) ms'
                        | None => SDone (OErr E_BADPTR pc)
                        end
            | None => SDone (OErr E_OOB pc)
            end
        | _, _ => SDone (OErr E_BADPTR pc)
        end
    | _ =>                                                 (* 5: JMP (64-bit compare), 6: JMP32 *)
        let jop := N.shiftr op 4 in
        let use_reg := negb (N.eqb (N.land op 8) 0) in
        if N.eqb cls 5 && N.eqb jop 0 then SNext (pc + 1 + r_off i) ms                 (* ja *)
        else if N.eqb op 149 then                                                          (* exit *)
          match getr rs 0 with
          | VS r0 => SDone (OExit r0 ms)
          | VUninit => SDone (OErr E_UNINIT pc)
          | _ => SDone (OErr E_BADPTR pc)
          end
        else if N.eqb op 133 then                                                          (* call helper *)
          if r_imm i =? 1 then do_map_lookup e pc ms
          else if r_imm i =? 12 then do_tail_call e pc ms
          else SDone (OErr E_HELPER pc)
        else
        let bv := if use_reg then getr rs (r_src i) else VS (if N.eqb cls 5 then wrap64 (r_imm i) else wrap32 (r_imm i)) in
        match getr rs (r_dst i), bv with
        | VUninit, _ | _, VUninit => SDone (OErr E_UNINIT pc)
        | VS a, VS b =>
            match (if N.eqb cls 5 then cond64 jop a b else cond32 jop a b) with
            | Some true => SNext (pc + 1 + r_off i) ms
            | Some false => SNext (pc + 1) ms
            | None => SDone (OErr E_OPCODE pc)
            end
        | (VP _ _), VS 0%N =>                                   (* NULL check of a (non-null) pointer *)
            if N.eqb cls 5 && N.eqb jop 1 then SNext (pc + 1) ms
            else if N.eqb cls 5 && N.eqb jop 5 then SNext (pc + 1 + r_off i) ms
            else SDone (OErr E_CMP pc)
        | _, _ => SDone (OErr E_CMP pc)
        end
    end
  end.

Fixpoint run (fuel : nat) (e : env) (p : tree raw) (pc : Z) (ms : mstate) : outcome :=
  match fuel with
  | O => OFuel
  | S f => match step e p pc ms with
           | SNext pc' ms' => run f e p pc' ms'
           | SProg p' ms' => run f e p' 0 ms'
           | SDone o => o
           end
  end.

(* entry: program p with the given state-map value and context bytes *)
Definition run_prog (fuel : nat) (e : env) (p : tree raw) (state ctx : mem) : outcome :=
  run fuel e p 0 (MS fresh_regs Lf state ctx).
