(* C24 — what one connection delivers, for every join crumb, every message size and every coalescing of crumbs. *)
From Coq Require Import List NArith Arith Bool Lia.
From Verif.C24 Require Import Model Spec Proofs ProofsSorted ProofsInv ProofsRun.
Import ListNotations.

Definition deltas_of (l : list crumb) : list upd := concat (map c_deltas l).
Lemma deltas_of_app a b : deltas_of (a ++ b) = deltas_of a ++ deltas_of b.
Proof. unfold deltas_of. rewrite map_app, concat_app. reflexivity. Qed.

Lemma flat_msgs_app a b : flat_msgs (a ++ b) = flat_msgs a ++ flat_msgs b.
Proof. unfold flat_msgs. rewrite map_app, concat_app. reflexivity. Qed.
Lemma flat_cbs_app a b : flat_cbs (a ++ b) = flat_cbs a ++ flat_cbs b.
Proof. unfold flat_cbs. rewrite map_app, concat_app. reflexivity. Qed.
Lemma flat_cbs_msgs ms : flat_cbs (map cb_of_msg ms) = flat_msgs ms.
Proof. unfold flat_cbs, flat_msgs. rewrite map_map. f_equal. apply map_ext. intros []; reflexivity. Qed.
Lemma flat_maybe_status a b : flat_msgs (maybe_status a b) = [].
Proof. unfold maybe_status. destruct (status_eqb a b); reflexivity. Qed.
Lemma flat_opt_kvs ds : flat_msgs (if is_nil ds then [] else [MKVs ds]) = ds.
Proof. destruct ds; simpl; [reflexivity|]. unfold flat_msgs; simpl. rewrite app_nil_r. reflexivity. Qed.

Lemma last_cons_shift {A} (c : A) l p : last (c :: l) p = last l c.
Proof. destruct l as [|x l]; [reflexivity|]. change (last (c :: x :: l) p) with (last (x :: l) p). apply last_default. Qed.
Lemma last_app_default {A} (a b : list A) d : last (a ++ b) d = last b (last a d).
Proof.
  revert d; induction a as [|x a IH]; intro d; [reflexivity|].
  rewrite <- app_comm_cons. rewrite !last_cons_shift. apply IH.
Qed.
Lemma last_status_default l p : c_status (last l (mkCrumb [] [] (c_status p) 0)) = c_status (last l p).
Proof. destruct l; [reflexivity|]. f_equal. apply last_default. Qed.

(* the delta phase carries exactly the deltas of the crumbs followed, in order, whatever the grouping *)
Lemma send_groups_flat gs : forall rest ls,
  flat_msgs (send_groups gs rest ls) = deltas_of (firstn (list_sum gs) rest).
Proof.
  induction gs as [|g gs IH]; simpl; intros rest ls; [reflexivity|].
  rewrite !flat_msgs_app, flat_opt_kvs, flat_maybe_status, IH. simpl.
  rewrite firstn_plus, deltas_of_app. reflexivity.
Qed.

Lemma client_run_flat maxm ch i gs ci : nth_error ch i = Some ci ->
  flat_cbs (client_run maxm ch i gs) = c_kvs ci ++ deltas_of (firstn (list_sum gs) (skipn (S i) ch)).
Proof.
  intro H. unfold client_run, client_cbs, conn_msgs. rewrite H.
  change (flat_cbs (CS SResync :: ?l)) with (flat_cbs l).
  rewrite flat_cbs_msgs, !flat_msgs_app, snap_msgs_flat, flat_maybe_status, send_groups_flat. reflexivity.
Qed.

(* ---- following the chain ----------------------------------------------------------------------------------- *)
Lemma fchain_follow E : forall l p g, fchain E p l ->
  let cj := last (firstn g l) p in
  c_kvs cj = fold_left cl_apply (deltas_of (firstn g l)) (c_kvs p)
  /\ c_cons p <= c_cons cj
  /\ subseq (deltas_of (firstn g l)) (seg (c_cons p) (c_cons cj) (flat_events E)).
Proof.
  induction l as [|c l IH]; intros p g F.
  - rewrite firstn_nil. simpl. repeat split; [lia|constructor].
  - destruct g as [|g]; [simpl; repeat split; [lia|constructor]|].
    destruct F as [(L1 & L2 & L3) F]. specialize (IH c g F). cbv zeta in IH. destruct IH as (A & B & C).
    cbn [firstn]. rewrite last_cons_shift. cbv zeta.
    change (deltas_of (c :: firstn g l)) with (c_deltas c ++ deltas_of (firstn g l)).
    split; [|split].
    + rewrite fold_left_app, <- L2. exact A.
    + lia.
    + rewrite (seg_seg (c_cons p) (c_cons c)) by lia. apply subseq_app; assumption.
Qed.

Lemma fchain_suffix E : forall i p l ci, fchain E p l -> nth_error (p :: l) i = Some ci ->
  fchain E ci (skipn i l).
Proof.
  induction i as [|i IH]; intros p l ci F H.
  - simpl in H. inversion H; subst. exact F.
  - destruct l as [|c l]; [destruct i; discriminate|]. destruct F as [_ F]. simpl. apply (IH c l ci F H).
Qed.

Lemma last_firstn_In {A} (l : list A) g d : In (last (firstn g l) d) (d :: l).
Proof.
  pose proof (last_In (firstn g l) d) as H. destruct H as [H|H]; [left; exact H|right].
  revert H. generalize (last (firstn g l) d). intros x Hx.
  rewrite <- (firstn_skipn g l). apply in_or_app; left; exact Hx.
Qed.

Lemma last_skipn_nth {A} : forall (l : list A) i x d, nth_error l i = Some x -> last (skipn (S i) l) x = last l d.
Proof.
  induction l as [|y l IH]; intros i x d H; [destruct i; discriminate|].
  destruct i as [|i].
  - simpl in H. inversion H; subst. rewrite last_cons_shift. reflexivity.
  - simpl in H. rewrite last_cons_shift. change (skipn (S (S i)) (y :: l)) with (skipn (S i) l). apply IH, H.
Qed.

Lemma In_subseq_single {A} (x : A) l : In x l -> subseq [x] l.
Proof. induction l; simpl; [contradiction|]. intros [->|H]; [constructor; constructor|constructor; auto]. Qed.

Lemma subseq_firstn {A} n (l : list A) : subseq (firstn n l) l.
Proof. rewrite <- (firstn_skipn n l) at 2. apply subseq_app_r, subseq_refl. Qed.

(* ---- the situation of one connection --------------------------------------------------------------------- *)
Section Conn.
Variables (maxb : nat) (os : list op).
Let c := exec maxb os.
Let E := ops_events os.
Let Ufl := flat_events E.
Variables (i : nat) (ci : crumb).
Hypothesis Hi : nth_error (chain c) i = Some ci.
Let rest := skipn (S i) (chain c).

Lemma conn_facts : fchain E ci rest /\ Forall (crumb_ok E) (ci :: rest).
Proof.
  destruct (Inv_exec maxb os) as [_ _ _ _ (tl & Hch & Hf & _) Hok _]. fold c E in Hch, Hf, Hok.
  split.
  - unfold rest. rewrite Hch in *. apply (fchain_suffix E i crumb0 tl ci Hf Hi).
  - rewrite Forall_forall in *. intros x [<-|H].
    + apply Hok. eapply nth_error_In; eauto.
    + apply Hok. unfold rest in H. rewrite <- (firstn_skipn (S i) (chain c)). apply in_or_app; right; exact H.
Qed.

(* after the snapshot and the deltas of the next g crumbs the client holds exactly the crumb's tree, which is the
   datastore view after the updates consumed by then *)
Lemma conn_view g :
  let cj := last (firstn g rest) ci in
  c_kvs cj = fold_left cl_apply (deltas_of (firstn g rest)) (c_kvs ci)
  /\ veq (view_of (c_kvs ci ++ deltas_of (firstn g rest))) (vview (c_kvs cj))
  /\ veq (vview (c_kvs cj)) (view_of (firstn (c_cons cj) Ufl))
  /\ crumb_ok E cj.
Proof.
  destruct conn_facts as [F OK]. cbv zeta.
  destruct (fchain_follow E rest ci g F) as (A & B & C). cbv zeta in A, B, C.
  assert (OKi : crumb_ok E ci) by (inversion OK; assumption).
  assert (OKj : crumb_ok E (last (firstn g rest) ci)).
  { rewrite Forall_forall in OK. apply OK. apply last_firstn_In. }
  split; [exact A|split; [|split; [|exact OKj]]].
  - rewrite view_of_app. rewrite A. eapply veq_trans; [|apply veq_sym, vview_fold_cl_apply].
    apply fold_vapply_veq. destruct OKi as (_ & (S & V & _) & _). apply view_of_sorted; assumption.
  - destruct OKj as (_ & (_ & _ & W & _) & _). exact W.
Qed.

Lemma conn_order g k :
  subseq (for_key k (c_kvs ci ++ deltas_of (firstn g rest))) (for_key k Ufl).
Proof.
  destruct conn_facts as [F OK].
  destruct (fchain_follow E rest ci g F) as (A & B & C). cbv zeta in A, B, C.
  assert (OKi : crumb_ok E ci) by (inversion OK; assumption).
  destruct OKi as (_ & (S & _ & _ & O) & _).
  set (cj := last (firstn g rest) ci) in *.
  eapply subseq_trans; [|apply subseq_for_key, (subseq_firstn (c_cons cj))].
  rewrite (firstn_seg (c_cons ci) (c_cons cj)) by assumption. fold Ufl.
  rewrite !for_key_app. apply subseq_app.
  - unfold for_key at 1. rewrite (filter_key_sorted k _ S).
    destruct (kv_get k (c_kvs ci)) as [e|] eqn:G; simpl; [|constructor].
    apply In_subseq_single. apply (O k e G).
  - apply subseq_for_key. exact C.
Qed.
End Conn.
