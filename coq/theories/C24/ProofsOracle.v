(* C24 — the boolean oracle of Spec.v accepts whatever satisfies the three propositions, hence every model run. *)
From Coq Require Import List NArith Arith Bool Lia.
From Verif.C24 Require Import Model Spec Proofs ProofsSorted ProofsInv ProofsRun ProofsClient ProofsMain ProofsTop.
Import ListNotations.

Lemma optN_eqb_refl a : optN_eqb a a = true.
Proof. destruct a; simpl; [apply N.eqb_refl|reflexivity]. Qed.
Lemma view_eqb_of_eq ks a b : (forall k, a k = b k) -> view_eqb ks a b = true.
Proof. intro H. unfold view_eqb. apply forallb_forall. intros k _. rewrite H. apply optN_eqb_refl. Qed.

Lemma pay_eqb_eq x y : pay_eqb x y = true <-> x = y.
Proof.
  destruct x as [a b], y as [c d]; unfold pay_eqb; simpl. split.
  - intro H. apply andb_prop in H. destruct H as [H1 H2]. apply optN_eqb_eq in H1. apply N.eqb_eq in H2. subst; reflexivity.
  - intro H. inversion H; subst. rewrite optN_eqb_refl, N.eqb_refl. reflexivity.
Qed.

Lemma subseq_tail {A} (x : A) a b : subseq (x :: a) b -> subseq a b.
Proof.
  intro H. remember (x :: a) as l eqn:EL. revert x a EL. induction H; intros x0 a0 EL.
  - discriminate.
  - inversion EL; subst. constructor; assumption.
  - constructor. eapply IHsubseq; eauto.
Qed.

Lemma subseqb_complete : forall b a, subseq a b -> subseqb a b = true.
Proof.
  induction b as [|y b IH]; intros a H.
  - inversion H; subst. reflexivity.
  - destruct a as [|x a]; [reflexivity|]. simpl.
    destruct (pay_eqb x y) eqn:P.
    + apply IH. inversion H; subst; [assumption|]. eapply subseq_tail; eauto.
    + apply IH. inversion H; subst; [|assumption].
      exfalso. assert (pay_eqb y y = true) by (apply pay_eqb_eq; reflexivity). congruence.
Qed.

Lemma ok_converge_of ks es cs : converged es cs -> ok_converge ks es cs = true.
Proof. intro H. apply view_eqb_of_eq, H. Qed.
Lemma ok_order_of ks es cs : in_order es cs -> ok_order ks es cs = true.
Proof. intro H. unfold ok_order. apply forallb_forall. intros k _. apply subseqb_complete, H. Qed.

Lemma first_insync_spec : forall p s acc,
  exists m, first_insync (p ++ ES SInSync :: s) acc = Some m /\ m <= acc + length (flat_events p).
Proof.
  induction p as [|e p IH]; intros s acc.
  - exists acc. split; [reflexivity|lia].
  - destruct (IH s (acc + length (ev_upds e))) as (m & A & B).
    assert (L : length (flat_events (e :: p)) = length (ev_upds e) + length (flat_events p))
      by (unfold flat_events; simpl; apply app_length).
    destruct e as [us|st].
    + exists m. split; [exact A|rewrite L; lia].
    + destruct st.
      * exists m. split; [exact A|rewrite L; cbn [ev_upds length] in *; lia].
      * exists m. split; [exact A|rewrite L; cbn [ev_upds length] in *; lia].
      * exists acc. split; [reflexivity|lia].
Qed.

Lemma ok_insync_from_of ks us m0 : forall cs seen,
  (forall pre post, cs = pre ++ CS SInSync :: post ->
     exists m n, m0 = Some m /\ m <= n <= length us
                 /\ forall k, view_of (seen ++ flat_cbs pre) k = view_of (firstn n us) k) ->
  ok_insync_from ks us m0 seen cs = true.
Proof.
  induction cs as [|c cs IH]; intros seen H; [reflexivity|].
  assert (STEP : forall extra, flat_cbs [c] = extra ->
            ok_insync_from ks us m0 (seen ++ extra) cs = true).
  { intros extra EX. apply IH. intros pre post EQ.
    destruct (H (c :: pre) post) as (m & n & A & B & C); [rewrite EQ; reflexivity|].
    exists m, n. split; [exact A|split; [exact B|]]. intro k. rewrite <- C.
    change (flat_cbs (c :: pre)) with (cb_upds c ++ flat_cbs pre).
    rewrite <- EX. unfold flat_cbs at 1. simpl. rewrite app_nil_r, app_assoc. reflexivity. }
  destruct c as [l|s|].
  - simpl. apply STEP. unfold flat_cbs; simpl. rewrite app_nil_r. reflexivity.
  - destruct s.
    + simpl. apply (STEP []). reflexivity.
    + simpl. apply (STEP []). reflexivity.
    + cbn [ok_insync_from]. destruct (H [] cs eq_refl) as (m & n & A & B & C). rewrite A.
      apply andb_true_intro. split.
      * apply existsb_exists. exists n. split; [apply in_seq; lia|].
        apply view_eqb_of_eq. intro k. rewrite <- C. simpl. rewrite app_nil_r. reflexivity.
      * pose proof (STEP [] eq_refl) as S0. rewrite app_nil_r in S0. rewrite <- A. exact S0.
  - simpl. apply (STEP []). reflexivity.
Qed.

Lemma ok_insync_of ks es cs : insync_not_early es cs -> ok_insync ks es cs = true.
Proof.
  intro H. unfold ok_insync. apply ok_insync_from_of. intros pre post EQ.
  destruct (H pre post EQ) as (n & (p & s & EP & LP) & V).
  destruct (first_insync_spec p s 0) as (m & A & B). rewrite <- EP in A.
  assert (LU : length (flat_events p) <= length (flat_events es)).
  { rewrite EP, flat_events_app, app_length. lia. }
  exists m, (Nat.min n (length (flat_events es))). split; [exact A|split; [lia|]].
  intro k. simpl. rewrite V.
  destruct (Nat.le_gt_cases n (length (flat_events es))) as [L|L].
  - rewrite Nat.min_l by lia. reflexivity.
  - rewrite Nat.min_r by lia. rewrite !firstn_all2 by lia. reflexivity.
Qed.

Lemma no_dead_client ms : no_dead (client_cbs ms) = true.
Proof.
  unfold client_cbs, no_dead. simpl. apply forallb_forall. intros x I. apply in_map_iff in I.
  destruct I as (m & <- & _). destruct m; reflexivity.
Qed.

(* every run of the model is accepted by the oracle that the correspondence run applies to the implementation *)
Theorem model_meets_spec maxb pushes maxm i gs ci :
  let ch := chain (run maxb pushes) in
  nth_error ch i = Some ci ->
  length (skipn (S i) ch) <= list_sum gs ->
  ok_client (concat pushes) (client_run maxm ch i gs) = true.
Proof.
  intros ch Hi L. unfold ok_client.
  rewrite (ok_converge_of _ _ _ (top_converges maxb pushes maxm i gs ci Hi L)).
  rewrite (ok_order_of _ _ _ (top_no_regress maxb pushes maxm i gs ci Hi)).
  rewrite (ok_insync_of _ _ _ (top_insync maxb pushes maxm i gs ci Hi)).
  unfold client_run. rewrite no_dead_client. reflexivity.
Qed.
