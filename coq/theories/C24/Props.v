(* C24 — property theorems only.

   Reading guide.  `run maxb pushes` is the snapshot cache after its main loop has processed the given input (each
   push = objects queued on the input channel, then fillBatchFromInputQueue/publishBreadcrumbs until the queue is
   empty); `chain` lists its crumbs oldest first (index = SequenceNumber).  `client_run maxm ch i gs` is the callback
   stream of a client whose snapshot was taken at crumb i (sent in messages of at most maxm entries) and whose delta
   loop followed gs = [g1; g2; ...] crumbs per round - EVERY batching is some gs.  `concat pushes` is the datastore's
   event stream.  The c24_any_* theorems say the same for an arbitrary interleaving of "absorb one input event" and
   "publish one crumb", of which the real loop is one instance (so they do not depend on how the queue is batched). *)
From Coq Require Import List NArith Arith Bool.
From Verif.C24 Require Import Model Spec Sender Proofs ProofsSorted ProofsInv ProofsRun ProofsClient ProofsMain ProofsTop ProofsOracle ProofsSender ProofsTop2.
Import ListNotations.

(* The snapshot messages carry exactly the entries of the crumb's tree, in key order, for every message size. *)
Theorem c24_snapshot_complete : forall maxm kvs, flat_msgs (snap_msgs maxm [] kvs) = kvs.
Proof. intros; exact (snap_msgs_flat maxm kvs []). Qed.
Print Assumptions c24_snapshot_complete.

(* The fuel of the model's publish loop never runs out: after the loop nothing is left pending, for every
   MaxBatchSize (0 means the default, as in Config.ApplyDefaults). *)
Theorem c24_publish_drains : forall maxb pushes, pend (run maxb pushes) = [].
Proof. exact run_drains. Qed.
Print Assumptions c24_publish_drains.

(* For all i <= j: applying the deltas of crumbs (i, j] to the snapshot of crumb i gives the snapshot of crumb j. *)
Theorem c24_snapshot_plus_deltas : forall maxb pushes i ci g,
  let ch := chain (run maxb pushes) in
  nth_error ch i = Some ci ->
  let later := firstn g (skipn (S i) ch) in
  c_kvs (last later ci) = fold_left cl_apply (concat (map c_deltas later)) (c_kvs ci).
Proof. intros maxb pushes i ci g ch H. exact (top_snapshot_plus_deltas maxb pushes i ci H g). Qed.
Print Assumptions c24_snapshot_plus_deltas.

(* After consuming through crumb j the client's view is the server's view at j: every join point, every message
   size, every batching. *)
Theorem c24_client_view : forall maxb pushes maxm i gs ci,
  let ch := chain (run maxb pushes) in
  nth_error ch i = Some ci ->
  let cj := last (firstn (list_sum gs) (skipn (S i) ch)) ci in
  forall k, view_of (flat_cbs (client_run maxm ch i gs)) k = vview (c_kvs cj) k.
Proof. intros maxb pushes maxm i gs ci ch H. exact (top_client_view maxb pushes maxm i gs ci H). Qed.
Print Assumptions c24_client_view.

(* A client that keeps reading until it has followed every crumb holds exactly the datastore's current view. *)
Theorem c24_converges : forall maxb pushes maxm i gs ci,
  let ch := chain (run maxb pushes) in
  nth_error ch i = Some ci ->
  length (skipn (S i) ch) <= list_sum gs ->
  converged (concat pushes) (client_run maxm ch i gs).
Proof. intros maxb pushes maxm i gs ci ch H. exact (top_converges maxb pushes maxm i gs ci H). Qed.
Print Assumptions c24_converges.

(* Within a connection the (value, revision) pairs seen for a key are a subsequence of what the datastore sent for
   that key: never an older value after a newer one. *)
Theorem c24_no_regress : forall maxb pushes maxm i gs ci,
  let ch := chain (run maxb pushes) in
  nth_error ch i = Some ci ->
  in_order (concat pushes) (client_run maxm ch i gs).
Proof. intros maxb pushes maxm i gs ci ch H. exact (top_no_regress maxb pushes maxm i gs ci H). Qed.
Print Assumptions c24_no_regress.

(* Whenever the client is told InSync it holds the datastore view after n updates, where the datastore had declared
   InSync after at most n updates. *)
Theorem c24_insync_not_early : forall maxb pushes maxm i gs ci,
  let ch := chain (run maxb pushes) in
  nth_error ch i = Some ci ->
  insync_not_early (concat pushes) (client_run maxm ch i gs).
Proof. intros maxb pushes maxm i gs ci ch H. exact (top_insync maxb pushes maxm i gs ci H). Qed.
Print Assumptions c24_insync_not_early.

(* The same for ANY interleaving of absorbing input events and publishing crumbs (any batching of the input queue,
   any MaxBatchSize including ones the defaults exclude). *)
Theorem c24_any_interleaving : forall maxb os maxm i gs ci,
  let c := exec maxb os in
  nth_error (chain c) i = Some ci ->
  let cbs := client_run maxm (chain c) i gs in
  in_order (ops_events os) cbs /\ insync_not_early (ops_events os) cbs
  /\ (pend c = [] -> length (skipn (S i) (chain c)) <= list_sum gs -> converged (ops_events os) cbs).
Proof.
  intros maxb os maxm i gs ci c H cbs. split; [|split].
  - exact (main_order maxb os maxm i gs ci H).
  - exact (main_insync maxb os maxm i gs ci H).
  - exact (main_converged maxb os maxm i gs ci H).
Qed.
Print Assumptions c24_any_interleaving.

(* The model meets the specification oracle: the boolean oracle that the correspondence run evaluates on the
   IMPLEMENTATION's callback streams accepts every callback stream of the model in which the client has read
   everything (every input, every MaxBatchSize, join point, message size and batching). *)
Theorem c24_model_meets_spec : forall maxb pushes maxm i gs ci,
  let ch := chain (run maxb pushes) in
  nth_error ch i = Some ci ->
  length (skipn (S i) ch) <= list_sum gs ->
  ok_client (concat pushes) (client_run maxm ch i gs) = true.
Proof. exact model_meets_spec. Qed.
Print Assumptions c24_model_meets_spec.

(* ---- the coalescing decision of sendDeltaUpdatesToClient (Sender.round / Sender.groups) --------------------------- *)
(* Catch-up completes: whatever the newest crumb the sender sees each time it looks (lats), if it looked at least once
   per remaining crumb then every crumb is followed exactly once and every round follows at least one. *)
Theorem c24_sender_follows_all : forall thr maxm fuel rest lats,
  length rest <= fuel -> length rest <= length lats ->
  list_sum (groups fuel thr maxm rest lats) = length rest /\ Forall (fun g => 1 <= g) (groups fuel thr maxm rest lats).
Proof. exact groups_spec. Qed.
Print Assumptions c24_sender_follows_all.

(* A client that keeps up (every crumb younger than MinBatchingAgeThreshold when followed) gets one round per crumb. *)
Theorem c24_sender_no_coalescing_when_fresh : forall thr maxm rest lats,
  length lats = length rest ->
  Forall (fun p => N.ltb (snd p - fst (fst p)) thr = true) (combine rest lats) ->
  groups (length rest) thr maxm rest lats = repeat 1 (length rest).
Proof. exact groups_fresh. Qed.
Print Assumptions c24_sender_no_coalescing_when_fresh.

(* Message size: all crumbs of a round but the last together carry fewer than MaxMessageSize deltas. *)
Theorem c24_sender_message_bound : forall thr maxm rest lats g lats',
  (0 < maxm)%N -> round thr maxm 0 rest lats 0 = (g, lats') -> 0 < g ->
  (ndsum (firstn (g - 1) rest) < maxm)%N.
Proof.
  intros thr maxm rest lats g lats' M R G.
  pose proof (round_bound thr maxm rest 0%N lats 0 g lats' M R G) as H.
  rewrite N.add_0_l, Nat.sub_0_r in H. exact H.
Qed.
Print Assumptions c24_sender_message_bound.

(* The client converges and the oracle accepts, with the coalescing COMPUTED by the sender model from any clock
   readings (tss: crumb timestamps, lat_idx: newest crumb seen at each step), any threshold and message size. *)
Theorem c24_converges_computed_batching : forall maxb pushes thr maxmsg tss lat_idx maxm i ci,
  let ch := chain (run maxb pushes) in
  nth_error ch i = Some ci -> length tss = length ch -> length (skipn (S i) ch) <= length lat_idx ->
  let cbs := client_run maxm ch i (sender_groups thr maxmsg ch tss i lat_idx) in
  converged (concat pushes) cbs /\ ok_client (concat pushes) cbs = true.
Proof.
  intros maxb pushes thr maxmsg tss lat_idx maxm i ci ch H1 H2 H3 cbs. split.
  - exact (top2_converges maxb pushes thr maxmsg tss lat_idx maxm i ci H1 H2 H3).
  - exact (top2_oracle maxb pushes thr maxmsg tss lat_idx maxm i ci H1 H2 H3).
Qed.
Print Assumptions c24_converges_computed_batching.

(* ---- the pre-built snapshot cache (Sender.snap_req / snap_run) ----------------------------------------------------- *)
(* Every snapshot served was made from a crumb that is not newer than the newest one: the join point of a client that
   took the pre-built snapshot is a crumb of the chain, so the theorems above apply to it. *)
Theorem c24_snapshot_cache_serves_existing_crumb : forall validity tss reqs,
  mono_reqs 0 0 reqs -> Forall2 (fun j r => j <= snd r) (snap_run validity tss None reqs) reqs.
Proof. intros. eapply snap_run_le; [|eassumption]. intros a E; discriminate. Qed.
Print Assumptions c24_snapshot_cache_serves_existing_crumb.

(* An older crumb is served only while its snapshot is younger than BinarySnapshotTimeout. *)
Theorem c24_snapshot_cache_staleness_bounded : forall validity tss st t cur j st' p,
  snap_req validity tss st t cur = (j, st') ->
  j < cur -> nth_error tss (S j) = Some p -> (p <= t)%N ->
  exists t0, st = Some (j, t0) /\ (t < t0 + validity)%N.
Proof. exact snap_req_fresh. Qed.
Print Assumptions c24_snapshot_cache_staleness_bounded.

(* Non-vacuity: a run with a no-op update, a delete, a split batch (MaxBatchSize 2), InSync declared before the last
   updates; a client joining at crumb 2 whose delta loop coalesces two crumbs. *)
Definition ex_pushes : list (list event) :=
  [ [EU [U 1 (Some 1) 1 0 TNew; U 2 (Some 2) 2 0 TNew]];
    [EU [U 1 (Some 1) 3 0 TUpdated; U 3 (Some 3) 4 0 TNew; U 2 None 5 0 TDeleted]; ES SInSync];
    [EU [U 3 (Some 4) 6 0 TUpdated]] ]%N.
Example c24_example_chain :
  map (fun c => (length (c_kvs c), length (c_deltas c), c_status c)) (chain (run 2 ex_pushes))
  = [(0, 0, SWait); (2, 2, SWait); (3, 1, SWait); (2, 1, SWait); (2, 0, SInSync); (2, 1, SInSync)].
Proof. vm_compute. reflexivity. Qed.
Example c24_example_client :
  client_run 1 (chain (run 2 ex_pushes)) 2 [2; 1]
  = [CS SResync; CU [U 1 (Some 1) 1 0 TNew]; CU [U 2 (Some 2) 2 0 TNew]; CU [U 3 (Some 3) 4 0 TNew];
     CU [U 2 None 5 0 TDeleted]; CS SInSync; CU [U 3 (Some 4) 6 0 TUpdated]]%N.
Proof. vm_compute. reflexivity. Qed.
Example c24_example_oracle :
  ok_client (concat ex_pushes) (client_run 1 (chain (run 2 ex_pushes)) 2 [2; 1]) = true.
Proof. vm_compute. reflexivity. Qed.
(* the hypotheses of the theorems above hold for this client: crumb 2 exists and [2; 1] follows all 3 later crumbs *)
Example c24_example_hyps :
  let ch := chain (run 2 ex_pushes) in
  (exists ci, nth_error ch 2 = Some ci /\ c_status ci = SWait) /\ length (skipn 3 ch) <= list_sum [2; 1].
Proof. vm_compute. split; [eexists; split; reflexivity|repeat constructor]. Qed.

(* the sender model on a concrete clock: crumb 3 is fresh when followed (threshold 100 ms), crumb 4 is old and is coalesced with crumb 5 *)
Example c24_example_sender :
  sender_groups 100000000 100 (chain (run 2 ex_pushes)) [0; 0; 0; 0; 0; 500000000]%N 2 [4; 5; 5]%N = [1; 2]
  /\ snap_run 1000 [0; 10; 5000]%N None [(20%N, 1); (30%N, 1); (900%N, 1); (6000%N, 2); (6001%N, 2)] = [1; 1; 1; 2; 2].
Proof. vm_compute. split; reflexivity. Qed.
