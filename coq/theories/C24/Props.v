(* C24 — property theorems only. *)
From Coq Require Import List NArith Arith Bool.
From Verif.C24 Require Import Model Spec Proofs.
Import ListNotations.

(* The streamed (or pre-built) snapshot carries exactly the entries of the crumb's tree, in key order, for every
   message size. *)
Theorem c24_snapshot_complete : forall maxm kvs, flat_msgs (snap_msgs maxm [] kvs) = kvs.
Proof. intros; exact (snap_msgs_flat maxm kvs []). Qed.
Print Assumptions c24_snapshot_complete.
