(* C24 — the invariant of the cache, for every interleaving of absorbing input events and publishing crumbs. *)
From Coq Require Import List NArith Arith Bool Lia.
From Verif.C24 Require Import Model Spec Proofs ProofsSorted.
Import ListNotations.

(* ---- list helpers --------------------------------------------------------------------------------------- *)
Lemma skipn_skipn' {A} (a b : nat) (l : list A) : skipn a (skipn b l) = skipn (b + a) l.
Proof. revert l; induction b; simpl; intro l; [reflexivity|]. destruct l; [destruct a; reflexivity|apply IHb]. Qed.
Lemma firstn_plus {A} (a k : nat) (l : list A) : firstn (a + k) l = firstn a l ++ firstn k (skipn a l).
Proof. revert l; induction a; simpl; intro l; [reflexivity|]. destruct l; simpl; [destruct k; reflexivity|]. f_equal; apply IHa. Qed.
Lemma firstn_app_le {A} n (l r : list A) : n <= length l -> firstn n (l ++ r) = firstn n l.
Proof. intro H. rewrite firstn_app. replace (n - length l) with 0 by lia. simpl. apply app_nil_r. Qed.
Lemma skipn_app_le {A} n (l r : list A) : n <= length l -> skipn n (l ++ r) = skipn n l ++ r.
Proof. intro H. rewrite skipn_app. replace (n - length l) with 0 by lia. reflexivity. Qed.

Lemma subseq_refl {A} (l : list A) : subseq l l.
Proof. induction l; constructor; assumption. Qed.
Lemma subseq_app_l {A} (x a b : list A) : subseq a b -> subseq a (x ++ b).
Proof. induction x; simpl; auto. intro; constructor; auto. Qed.
Lemma subseq_app {A} (a b c d : list A) : subseq a b -> subseq c d -> subseq (a ++ c) (b ++ d).
Proof. induction 1; simpl; intros; [apply subseq_app_l; assumption| |]; constructor; auto. Qed.
Lemma subseq_app_r {A} (a b x : list A) : subseq a b -> subseq a (b ++ x).
Proof. intro H. rewrite <- (app_nil_r a). apply subseq_app; [assumption|constructor]. Qed.
Lemma subseq_trans {A} (a b c : list A) : subseq a b -> subseq b c -> subseq a c.
Proof.
  intros H1 H2. revert a H1. induction H2; intros a0 H1.
  - inversion H1; subst; constructor.
  - inversion H1; subst; constructor; auto.
  - constructor; auto.
Qed.
Lemma subseq_In {A} (a b : list A) x : subseq a b -> In x a -> In x b.
Proof. induction 1; simpl; intros; [contradiction| |]; intuition. Qed.
Lemma subseq_map {A B} (f : A -> B) a b : subseq a b -> subseq (map f a) (map f b).
Proof. induction 1; simpl; constructor; auto. Qed.
Lemma subseq_filter {A} (f : A -> bool) a b : subseq a b -> subseq (filter f a) (filter f b).
Proof. induction 1; simpl; [constructor| |]; destruct (f x); try constructor; auto. Qed.
Lemma subseq_for_key k a b : subseq a b -> subseq (for_key k a) (for_key k b).
Proof. intro; unfold for_key; apply subseq_map, subseq_filter; assumption. Qed.
Lemma for_key_app k a b : for_key k (a ++ b) = for_key k a ++ for_key k b.
Proof. unfold for_key. rewrite filter_app, map_app. reflexivity. Qed.
Lemma flat_events_app a b : flat_events (a ++ b) = flat_events a ++ flat_events b.
Proof. unfold flat_events. rewrite map_app, concat_app. reflexivity. Qed.

(* segment [a, b) of the update stream *)
Definition seg (a b : nat) (U : list upd) : list upd := skipn a (firstn b U).
Lemma seg_app_stable a b U us : b <= length U -> seg a b (U ++ us) = seg a b U.
Proof. intro; unfold seg; rewrite firstn_app_le; auto. Qed.
Lemma firstn_seg a b U : a <= b -> firstn b U = firstn a U ++ seg a b U.
Proof.
  intro H. unfold seg. rewrite <- (firstn_skipn a (firstn b U)) at 1. f_equal.
  rewrite firstn_firstn. f_equal. lia.
Qed.
Lemma skipn_split {A} : forall a b (l : list A), a <= b -> skipn a l = skipn a (firstn b l) ++ skipn b l.
Proof.
  induction a; intros b l H.
  - simpl. symmetry; apply firstn_skipn.
  - destruct b; [lia|]. destruct l; simpl; [reflexivity|]. apply IHa; lia.
Qed.
Lemma seg_seg a b c U : a <= b -> b <= c -> seg a c U = seg a b U ++ seg b c U.
Proof.
  intros H1 H2. unfold seg. rewrite (skipn_split a b (firstn c U) H1). rewrite firstn_firstn.
  replace (Nat.min b c) with b by lia. reflexivity.
Qed.

(* ---- operations ----------------------------------------------------------------------------------------- *)
Inductive op := OAbsorb (e : event) | OPublish.
Definition step (maxb : nat) (c : cache) (o : op) : cache :=
  match o with OAbsorb e => absorb c e | OPublish => publish_one maxb c end.
Definition op_events (o : op) : list event := match o with OAbsorb e => [e] | OPublish => [] end.
Definition ops_events (os : list op) : list event := concat (map op_events os).
Definition exec (maxb : nat) (os : list op) : cache := fold_left (step maxb) os init_cache.

(* ---- the invariant --------------------------------------------------------------------------------------- *)
Section Inv.
Variable E : list event.
Let Ufl := flat_events E.

Definition orig_ok (m : list upd) (n : nat) : Prop :=
  forall k e, kv_get k m = Some e -> In (payload e) (for_key k (firstn n Ufl)).

Definition tree_ok (m : list upd) (n : nat) : Prop :=
  ksorted m /\ (forall e, In e m -> u_val e <> None) /\ veq (vview m) (view_of (firstn n Ufl)) /\ orig_ok m n.

Definition crumb_ok (c : crumb) : Prop :=
  c_cons c <= length Ufl /\ tree_ok (c_kvs c) (c_cons c) /\ (c_status c = SInSync -> insync_by E (c_cons c)).

(* c follows p *)
Definition link (c p : crumb) : Prop :=
  c_cons p <= c_cons c /\ c_kvs c = fold_left cl_apply (c_deltas c) (c_kvs p)
  /\ subseq (c_deltas c) (seg (c_cons p) (c_cons c) Ufl).

Fixpoint fchain (p : crumb) (l : list crumb) : Prop :=
  match l with [] => True | c :: l' => link c p /\ fchain c l' end.

Record Inv (c : cache) : Prop := {
  inv_cons : consumed c <= length Ufl;
  inv_pend : pend c = skipn (consumed c) Ufl;
  inv_tree : tree_ok (master c) (consumed c);
  inv_pstat : pend_status c = SInSync -> exists p s, E = p ++ ES SInSync :: s;
  inv_chain : exists tl, chain c = crumb0 :: tl /\ fchain crumb0 tl /\ cur c = last tl crumb0;
  inv_ok : Forall crumb_ok (chain c);
  inv_cur : c_kvs (cur c) = master c /\ c_cons (cur c) <= consumed c
}.
End Inv.

Lemma last_default {A} (x : A) l d d' : last (x :: l) d = last (x :: l) d'.
Proof. revert x; induction l as [|y l IH]; intro x; [reflexivity|]. simpl in *. apply IH. Qed.

Lemma fchain_snoc E p l c : fchain E p l -> link E c (last l p) -> fchain E p (l ++ [c]).
Proof.
  revert p; induction l as [|x l IH]; simpl; intros p F L.
  - split; [exact L|exact I].
  - destruct F as [Lx F]. split; [exact Lx|]. apply IH; [exact F|].
    destruct l; [exact L|]. rewrite (last_default c0 l x p). exact L.
Qed.

Lemma hd_last_rev {A} (l : list A) d : hd d l = last (rev l) d.
Proof. destruct l; simpl; [reflexivity|]. rewrite last_last. reflexivity. Qed.

Lemma insync_by_mono E n n' : insync_by E n -> n <= n' -> insync_by E n'.
Proof. intros (p & s & H1 & H2) L. exists p, s. split; [assumption|lia]. Qed.
Lemma insync_by_ext E e n : insync_by E n -> insync_by (E ++ [e]) n.
Proof. intros (p & s & H1 & H2). exists p, (s ++ [e]). split; [|assumption]. rewrite H1, <- app_assoc. reflexivity. Qed.

(* extension of the event list by one event keeps everything that talks about a prefix *)
Lemma tree_ok_ext E e m n : n <= length (flat_events E) -> tree_ok E m n -> tree_ok (E ++ [e]) m n.
Proof.
  intros L (S & V & W & O). unfold tree_ok, orig_ok in *. rewrite flat_events_app, firstn_app_le by assumption.
  repeat split; assumption.
Qed.
Lemma crumb_ok_ext E e c : crumb_ok E c -> crumb_ok (E ++ [e]) c.
Proof.
  intros (L & T & S). split; [|split].
  - rewrite flat_events_app, app_length. lia.
  - apply tree_ok_ext; assumption.
  - intro H. apply insync_by_ext, S, H.
Qed.
Lemma link_ext E e c p : c_cons c <= length (flat_events E) -> link E c p -> link (E ++ [e]) c p.
Proof.
  intros L (A & B & C). split; [|split]; try assumption.
  rewrite flat_events_app, seg_app_stable by assumption. exact C.
Qed.
Lemma fchain_ext E e : forall l p, Forall (crumb_ok E) l -> fchain E p l -> fchain (E ++ [e]) p l.
Proof.
  induction l as [|c l IH]; simpl; intros p F H; [exact I|].
  inversion F; subst. destruct H as [L H]. split; [|apply IH; assumption].
  apply link_ext; [|exact L]. destruct H2 as (? & _); assumption.
Qed.

Lemma tree_ok_nil E : tree_ok E [] 0.
Proof.
  split; [exact I|split; [intros e H; destruct H|split]].
  - intro k; reflexivity.
  - intros k e H; discriminate.
Qed.

Lemma Inv_init : Inv [] init_cache.
Proof.
  constructor.
  - simpl; lia.
  - reflexivity.
  - apply tree_ok_nil.
  - simpl; discriminate.
  - exists []. simpl. split; [reflexivity|split; [exact I|reflexivity]].
  - constructor; [|constructor]. split; [simpl; lia|split; [apply tree_ok_nil|simpl; discriminate]].
  - split; simpl; [reflexivity|lia].
Qed.

Lemma Inv_absorb E c e : Inv E c -> Inv (E ++ [e]) (absorb c e).
Proof.
  intros [Hc Hp Ht Hs (tl & Hch & Hf & Hcur) Hok (Hk & Hcc)].
  assert (CH : chain (absorb c e) = chain c) by (destruct e; reflexivity).
  assert (CU : cur (absorb c e) = cur c) by (destruct e; reflexivity).
  assert (MA : master (absorb c e) = master c) by (destruct e; reflexivity).
  assert (CO : consumed (absorb c e) = consumed c) by (destruct e; reflexivity).
  assert (OK' : Forall (crumb_ok (E ++ [e])) (chain c)).
  { eapply Forall_impl; [|exact Hok]. intros; apply crumb_ok_ext; assumption. }
  constructor; rewrite ?CH, ?CU, ?MA, ?CO.
  - rewrite flat_events_app, app_length. lia.
  - rewrite flat_events_app, skipn_app_le by assumption. rewrite <- Hp.
    destruct e; simpl; unfold flat_events; simpl; rewrite ?app_nil_r; reflexivity.
  - apply tree_ok_ext; assumption.
  - destruct e as [us|s]; simpl; intro H.
    + destruct (Hs H) as (p & s & Hps). exists p, (s ++ [EU us]). rewrite Hps, <- app_assoc. reflexivity.
    + subst s. exists E, []. reflexivity.
  - exists tl. split; [exact Hch|split; [|exact Hcur]]. apply fchain_ext; [|exact Hf].
    rewrite Hch in Hok. inversion Hok; assumption.
  - exact OK'.
  - split; assumption.
Qed.

(* ---- publishing ------------------------------------------------------------------------------------------ *)
Lemma In_kv_put e u m : In e (kv_put u m) -> e = u \/ In e m.
Proof.
  induction m as [|x m IH]; simpl; [intuition|].
  destruct (N.compare (u_key u) (u_key x)); simpl; intuition.
Qed.
Lemma vals_cl_apply m d : (forall e, In e m -> u_val e <> None) -> forall e, In e (cl_apply m d) -> u_val e <> None.
Proof.
  intros H e. unfold cl_apply. destruct (u_val d) eqn:V.
  - intro I. apply In_kv_put in I. destruct I as [->|I]; [simpl; rewrite V; discriminate|auto].
  - unfold kv_del. intro I. apply filter_In in I. apply H, I.
Qed.
Lemma vals_fold ds : forall m, (forall e, In e m -> u_val e <> None) ->
  forall e, In e (fold_left cl_apply ds m) -> u_val e <> None.
Proof. induction ds; simpl; intros m H; [exact H|]. apply IHds. apply vals_cl_apply, H. Qed.

Lemma In_for_key d k l : In d l -> u_key d = k -> In (payload d) (for_key k l).
Proof.
  intros I K. unfold for_key. apply in_map. apply filter_In. split; [exact I|]. apply N.eqb_eq; exact K.
Qed.

Lemma orig_fold A B ds : forall m,
  (forall k e, kv_get k m = Some e -> In (payload e) (for_key k (A ++ B))) ->
  (forall d, In d ds -> In d B) ->
  forall k e, kv_get k (fold_left cl_apply ds m) = Some e -> In (payload e) (for_key k (A ++ B)).
Proof.
  induction ds as [|d ds IH]; simpl; intros m P Q; [exact P|].
  apply IH; [|intros; apply Q; right; assumption].
  intros k e. unfold cl_apply. destruct (u_val d) eqn:V.
  - rewrite kv_get_put. simpl. destruct (N.eqb (u_key d) k) eqn:K.
    + intro H; inversion H; subst. apply N.eqb_eq in K.
      change (payload (stored d)) with (payload d). apply In_for_key; [|exact K].
      apply in_or_app; right. apply Q; left; reflexivity.
    + apply P.
  - rewrite kv_get_del. destruct (N.eqb (u_key d) k); [discriminate|apply P].
Qed.

Lemma last_In {A} (l : list A) d : In (last l d) (d :: l).
Proof.
  induction l as [|x l IH]; simpl; [left; reflexivity|].
  destruct l; [right; left; reflexivity|]. simpl in IH. destruct IH as [H|H]; [left; exact H|right; right; exact H].
Qed.

Lemma seg_ups a k U : a <= length U -> seg a (a + k) U = firstn k (skipn a U).
Proof.
  intro H. unfold seg. rewrite firstn_plus. rewrite skipn_app.
  rewrite firstn_length_le by assumption. rewrite Nat.sub_diag. simpl.
  rewrite skipn_all2; [reflexivity|]. rewrite firstn_length. lia.
Qed.

Lemma is_nil_true {A} (l : list A) : is_nil l = true -> l = [].
Proof. destruct l; [reflexivity|discriminate]. Qed.
Lemma status_eqb_eq a b : status_eqb a b = true <-> a = b.
Proof. destruct a, b; simpl; split; intro H; try reflexivity; try discriminate. Qed.

Lemma Inv_publish_core E c k lastb :
  Inv E c -> k <= length (pend c) -> (lastb = true -> k = length (pend c)) ->
  forall m' ds, apply_updates (master c) (firstn k (pend c)) = (m', ds) ->
  let st := if lastb && negb (status_eqb (pend_status c) (c_status (cur c))) then pend_status c
            else c_status (cur c) in
  Inv E (mkCache (pend_status c) (skipn k (pend c)) m' (consumed c + k)
           (if negb (status_eqb st (c_status (cur c))) || negb (is_nil ds)
            then mkCrumb m' ds st (consumed c + k) :: crumbs c else crumbs c)).
Proof.
  intros [Hc Hp Ht Hs (tl & Hch & Hf & Hcur) Hok (Hk & Hcc)] Hkl Hlast m' ds AU st.
  set (U := flat_events E) in *. set (a := consumed c) in *.
  assert (LP : length (pend c) = length U - a) by (rewrite Hp, skipn_length; reflexivity).
  assert (AK : a + k <= length U) by lia.
  destruct (apply_updates_spec _ _ _ _ AU) as (M' & SUB & VW).
  rewrite Hp in SUB, VW.
  assert (FP : firstn (a + k) U = firstn a U ++ firstn k (skipn a U)) by apply firstn_plus.
  destruct Ht as (TS & TV & TW & TO).
  assert (T' : tree_ok E m' (a + k)).
  { split; [|split; [|split]].
    - rewrite M'. apply ksorted_fold, TS.
    - rewrite M'. apply vals_fold, TV.
    - fold U. rewrite FP. rewrite view_of_app. eapply veq_trans; [exact VW|]. apply fold_vapply_veq, TW.
    - unfold orig_ok. fold U. rewrite FP. rewrite M'. apply orig_fold; [|intros d I; eapply subseq_In; eauto].
      intros k0 e H. rewrite for_key_app. apply in_or_app; left. apply TO, H. }
  assert (OLD : crumb_ok E (cur c)).
  { rewrite Forall_forall in Hok. apply Hok. rewrite Hch, Hcur. apply last_In. }
  destruct (negb (status_eqb st (c_status (cur c))) || negb (is_nil ds)) eqn:CH.
  - (* a new crumb *)
    set (nc := mkCrumb m' ds st (a + k)).
    assert (CHN : chain (mkCache (pend_status c) (skipn k (pend c)) m' (a + k) (nc :: crumbs c)) = chain c ++ [nc])
      by reflexivity.
    constructor; simpl.
    + exact AK.
    + rewrite Hp. apply skipn_skipn'.
    + exact T'.
    + exact Hs.
    + exists (tl ++ [nc]). rewrite CHN, Hch. split; [reflexivity|split].
      * apply fchain_snoc; [exact Hf|]. rewrite <- Hcur. split; [|split]; simpl.
        -- lia.
        -- rewrite Hk. exact M'.
        -- fold U. rewrite (seg_seg (c_cons (cur c)) a (a + k)) by lia. apply subseq_app_l.
           rewrite seg_ups by assumption. exact SUB.
      * unfold cur; simpl. rewrite last_last. reflexivity.
    + rewrite CHN. apply Forall_app. split; [exact Hok|]. constructor; [|constructor].
      split; [exact AK|split; [exact T'|]]. simpl. intro ST.
      unfold st in ST. destruct (lastb && negb (status_eqb (pend_status c) (c_status (cur c)))) eqn:CND.
      * apply andb_prop in CND. destruct CND as [LB _]. specialize (Hlast LB).
        destruct (Hs ST) as (p & s & EQ). exists p, s. split; [exact EQ|].
        fold U in AK. assert (length (flat_events p) <= length U).
        { unfold U. rewrite EQ, flat_events_app, app_length. lia. }
        lia.
      * destruct OLD as (_ & _ & OS). eapply insync_by_mono; [apply OS, ST|]. fold a. lia.
    + split; [reflexivity|]. unfold cur; simpl. lia.
  - (* nothing changed: no crumb *)
    apply orb_false_elim in CH. destruct CH as [_ NIL]. apply negb_false_iff, is_nil_true in NIL. subst ds.
    simpl in M'. subst m'.
    constructor; simpl.
    + exact AK.
    + rewrite Hp. apply skipn_skipn'.
    + exact T'.
    + exact Hs.
    + exists tl. split; [exact Hch|split; [exact Hf|exact Hcur]].
    + exact Hok.
    + split; [exact Hk|]. change (c_cons (cur c) <= a + k). lia.
Qed.

Lemma Inv_publish E maxb c : Inv E c -> Inv E (publish_one maxb c).
Proof.
  intro I. unfold publish_one.
  destruct (maxb <? length (pend c)) eqn:LT; simpl.
  - apply Nat.ltb_lt in LT.
    destruct (apply_updates (master c) (firstn maxb (pend c))) as [m' ds] eqn:AU.
    pose proof (Inv_publish_core E c maxb false I ltac:(lia) ltac:(discriminate) m' ds AU) as H.
    simpl in H. rewrite firstn_length_le by lia. exact H.
  - apply Nat.ltb_ge in LT.
    destruct (apply_updates (master c) (pend c)) as [m' ds] eqn:AU.
    assert (AU' : apply_updates (master c) (firstn (length (pend c)) (pend c)) = (m', ds))
      by (rewrite firstn_all; exact AU).
    pose proof (Inv_publish_core E c (length (pend c)) true I ltac:(lia) ltac:(reflexivity) m' ds AU') as H.
    simpl in H. rewrite skipn_all in H. exact H.
Qed.

Lemma ops_events_snoc os o : ops_events (os ++ [o]) = ops_events os ++ op_events o.
Proof. unfold ops_events. rewrite map_app, concat_app. simpl. rewrite app_nil_r. reflexivity. Qed.

Theorem Inv_exec maxb os : Inv (ops_events os) (exec maxb os).
Proof.
  induction os as [|o os IH] using rev_ind.
  - apply Inv_init.
  - unfold exec in *. rewrite fold_left_app. simpl. rewrite ops_events_snoc.
    destruct o as [e|]; simpl.
    + apply Inv_absorb; exact IH.
    + rewrite app_nil_r. apply Inv_publish; exact IH.
Qed.
