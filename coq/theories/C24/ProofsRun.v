(* C24 — the main loop of the cache (fill a batch, publish crumbs) is one particular interleaving of the two primitive
   operations, it consumes every queued event, and it leaves nothing pending. *)
From Coq Require Import List NArith Arith Bool Lia.
From Verif.C24 Require Import Model Spec Proofs ProofsSorted ProofsInv.
Import ListNotations.

Lemma ops_events_app a b : ops_events (a ++ b) = ops_events a ++ ops_events b.
Proof. unfold ops_events. rewrite map_app, concat_app. reflexivity. Qed.

Lemma publish_more_ops maxb fuel : forall c,
  exists os, publish_more fuel maxb c = fold_left (step maxb) os c /\ ops_events os = [].
Proof.
  induction fuel as [|f IH]; simpl; intro c.
  - exists []. split; reflexivity.
  - destruct (is_nil (pend c)).
    + exists []. split; reflexivity.
    + destruct (IH (publish_one maxb c)) as (os & H1 & H2).
      exists (OPublish :: os). split; [exact H1|]. exact H2.
Qed.

Lemma publish_all_ops maxb c :
  exists os, publish_all maxb c = fold_left (step maxb) os c /\ ops_events os = [].
Proof.
  unfold publish_all.
  destruct (publish_more_ops maxb (length (pend (publish_one maxb c))) (publish_one maxb c)) as (os & H1 & H2).
  exists (OPublish :: os). split; [exact H1|exact H2].
Qed.

Lemma fill_more_ops maxb : forall q bs c c' q',
  fill_more maxb bs q c = (c', q') ->
  exists os, c' = fold_left (step maxb) os c /\ q = ops_events os ++ q' /\ length q' <= length q.
Proof.
  induction q as [|e q IH]; simpl; intros bs c c' q' H.
  - inversion H; subst. exists []. repeat split; auto.
  - destruct (bs <? maxb).
    + destruct (IH _ _ _ _ H) as (os & H1 & H2 & H3).
      exists (OAbsorb e :: os). split; [exact H1|split]; [simpl; rewrite H2 at 1; reflexivity|simpl; lia].
    + inversion H; subst. exists []. repeat split; auto.
Qed.

Lemma fill_ops maxb e q c c' q' :
  fill maxb (e :: q) c = (c', q') ->
  exists os, c' = fold_left (step maxb) os c /\ e :: q = ops_events os ++ q' /\ length q' <= length q.
Proof.
  simpl. intro H. destruct (fill_more_ops _ _ _ _ _ _ H) as (os & H1 & H2 & H3).
  exists (OAbsorb e :: os). split; [exact H1|split; [simpl; rewrite H2 at 1; reflexivity|exact H3]].
Qed.

Lemma pump_ops maxb : forall fuel q c, length q <= fuel ->
  exists os, pump fuel maxb q c = fold_left (step maxb) os c /\ ops_events os = q.
Proof.
  induction fuel as [|f IH]; intros q c L.
  - destruct q; [|simpl in L; lia]. exists []. split; reflexivity.
  - destruct q as [|e q].
    + exists []. split; reflexivity.
    + cbn [pump]. destruct (fill maxb (e :: q) c) as [c1 q1] eqn:F.
      destruct (fill_ops _ _ _ _ _ _ F) as (os1 & A1 & A2 & A3).
      destruct (publish_all_ops maxb c1) as (os2 & B1 & B2).
      destruct (IH q1 (publish_all maxb c1)) as (os3 & C1 & C2); [simpl in L; lia|].
      exists (os1 ++ os2 ++ os3). split.
      * rewrite C1, B1, A1. rewrite !fold_left_app. reflexivity.
      * rewrite !ops_events_app, B2, C2. simpl. symmetry; exact A2.
Qed.

Lemma run_ops_gen maxb pushes : forall c0 os0, c0 = exec maxb os0 ->
  exists os, fold_left (push maxb) pushes c0 = exec maxb os /\ ops_events os = ops_events os0 ++ concat pushes.
Proof.
  induction pushes as [|p ps IH]; simpl; intros c0 os0 H.
  - exists os0. split; [exact H|rewrite app_nil_r; reflexivity].
  - unfold push at 2. destruct (pump_ops maxb (length p) p c0 (le_n _)) as (os1 & A & B).
    destruct (IH (pump (length p) maxb p c0) (os0 ++ os1)) as (os & C & D).
    + rewrite A, H. unfold exec. rewrite fold_left_app. reflexivity.
    + exists os. split; [exact C|]. rewrite D, ops_events_app, B, app_assoc. reflexivity.
Qed.

Theorem run_is_exec maxb pushes :
  exists os, run maxb pushes = exec (eff_max maxb) os /\ ops_events os = concat pushes.
Proof.
  unfold run. destruct (run_ops_gen (eff_max maxb) pushes init_cache [] eq_refl) as (os & A & B).
  exists os. split; [exact A|exact B].
Qed.

(* ---- nothing is left pending -------------------------------------------------------------------------------- *)
Lemma pend_publish_one maxb c : 1 <= maxb ->
  length (pend (publish_one maxb c)) = length (pend c) - maxb.
Proof.
  intro H. unfold publish_one. destruct (maxb <? length (pend c)) eqn:LT; simpl.
  - destruct (apply_updates (master c) (firstn maxb (pend c))); simpl. apply skipn_length.
  - apply Nat.ltb_ge in LT. destruct (apply_updates (master c) (pend c)); simpl. lia.
Qed.

Lemma publish_more_drains maxb : 1 <= maxb -> forall fuel c, length (pend c) <= fuel ->
  pend (publish_more fuel maxb c) = [].
Proof.
  intro H. induction fuel as [|f IH]; simpl; intros c L.
  - destruct (pend c); [reflexivity|simpl in L; lia].
  - destruct (pend c) eqn:P; simpl; [exact P|]. apply IH. rewrite pend_publish_one by assumption.
    rewrite P. cbn [length] in *. lia.
Qed.

(* the fuel of publishBreadcrumbs never runs out *)
Theorem publish_all_drains maxb c : 1 <= maxb -> pend (publish_all maxb c) = [].
Proof. intro H. unfold publish_all. apply publish_more_drains; [exact H|apply le_n]. Qed.

Lemma pump_drains maxb : 1 <= maxb -> forall fuel q c, pend c = [] -> pend (pump fuel maxb q c) = [].
Proof.
  intro H. induction fuel as [|f IH]; simpl; intros q c P; [exact P|].
  destruct q as [|e q]; [exact P|]. destruct (fill maxb (e :: q) c) as [c1 q1].
  apply IH. apply publish_all_drains; exact H.
Qed.

Lemma eff_max_pos m : 1 <= eff_max m.
Proof. destruct m; simpl; lia. Qed.

Theorem run_drains maxb pushes : pend (run maxb pushes) = [].
Proof.
  unfold run. assert (G : forall ps c, pend c = [] -> pend (fold_left (push (eff_max maxb)) ps c) = []).
  { induction ps as [|p ps IH]; simpl; intros c P; [exact P|]. apply IH. unfold push.
    apply pump_drains; [apply eff_max_pos|exact P]. }
  apply G. reflexivity.
Qed.
