(* C24 — the statements for the cache's own main loop (`run`): it is one of the interleavings covered by ProofsMain. *)
From Coq Require Import List NArith Arith Bool Lia.
From Verif.C24 Require Import Model Spec Proofs ProofsSorted ProofsInv ProofsRun ProofsClient ProofsMain.
Import ListNotations.

Section Top.
Variables (maxb : nat) (pushes : list (list event)).
Let ch := chain (run maxb pushes).
Variables (maxm i : nat) (gs : list nat) (ci : crumb).
Hypothesis Hi : nth_error ch i = Some ci.

Lemma top_snapshot_plus_deltas g :
  let later := firstn g (skipn (S i) ch) in
  c_kvs (last later ci) = fold_left cl_apply (concat (map c_deltas later)) (c_kvs ci).
Proof.
  destruct (run_is_exec maxb pushes) as (os & A & B). unfold ch in *. rewrite A in *.
  destruct (conn_view (eff_max maxb) os i ci Hi g) as (H & _). exact H.
Qed.

Lemma top_client_view :
  let cj := last (firstn (list_sum gs) (skipn (S i) ch)) ci in
  forall k, view_of (flat_cbs (client_run maxm ch i gs)) k = vview (c_kvs cj) k.
Proof.
  destruct (run_is_exec maxb pushes) as (os & A & B). unfold ch in *. rewrite A in *.
  destruct (main_view (eff_max maxb) os maxm i gs ci Hi) as (H & _). exact H.
Qed.

Lemma top_converges :
  length (skipn (S i) ch) <= list_sum gs -> converged (concat pushes) (client_run maxm ch i gs).
Proof.
  pose proof (run_drains maxb pushes) as D.
  destruct (run_is_exec maxb pushes) as (os & A & B). unfold ch in *. rewrite A in *. rewrite <- B.
  intro L. apply (main_converged (eff_max maxb) os maxm i gs ci Hi D L).
Qed.

Lemma top_no_regress : in_order (concat pushes) (client_run maxm ch i gs).
Proof.
  destruct (run_is_exec maxb pushes) as (os & A & B). unfold ch in *. rewrite A in *. rewrite <- B.
  apply (main_order (eff_max maxb) os maxm i gs ci Hi).
Qed.

Lemma top_insync : insync_not_early (concat pushes) (client_run maxm ch i gs).
Proof.
  destruct (run_is_exec maxb pushes) as (os & A & B). unfold ch in *. rewrite A in *. rewrite <- B.
  apply (main_insync (eff_max maxb) os maxm i gs ci Hi).
Qed.
End Top.
