(* C24 — proofs. *)
From Coq Require Import List NArith Arith Bool Lia.
From Verif.C24 Require Import Model Spec.
Import ListNotations.

Definition msg_upds (m : msg) : list upd := match m with MKVs l => l | MStatus _ => [] end.
Definition flat_msgs (ms : list msg) : list upd := concat (map msg_upds ms).

(* the chunked snapshot carries exactly the entries of the tree, in order, whatever the chunk size *)
Lemma snap_msgs_flat : forall maxm l buf, flat_msgs (snap_msgs maxm buf l) = buf ++ l.
Proof.
  intros maxm l; induction l as [|e l IH]; intros buf; simpl.
  - destruct buf; simpl; [reflexivity|]. unfold flat_msgs; simpl. rewrite !app_nil_r. reflexivity.
  - destruct (maxm <=? length (buf ++ [e])).
    + unfold flat_msgs in *; simpl. rewrite IH. simpl. rewrite <- app_assoc. reflexivity.
    + rewrite IH. rewrite <- app_assoc. reflexivity.
Qed.
