(* C24 — proofs. *)
From Coq Require Import List NArith Arith Bool Lia.
From Verif.C24 Require Import Model Spec.
Import ListNotations.

Definition msg_upds (m : msg) : list upd := match m with MKVs l => l | MStatus _ => [] end.
Definition flat_msgs (ms : list msg) : list upd := concat (map msg_upds ms).

(* the chunked snapshot carries exactly the entries of the tree, in order, whatever the chunk size *)
Lemma snap_msgs_flat : forall maxm l buf, flat_msgs (snap_msgs maxm buf l) = buf ++ l.
Proof.
  intros maxm l; induction l as [|e l IH]; intros buf; simpl.
  - destruct buf; simpl; [reflexivity|]. unfold flat_msgs; simpl. rewrite !app_nil_r. reflexivity.
  - destruct (maxm <=? length (buf ++ [e])).
    + unfold flat_msgs in *; simpl. rewrite IH. simpl. rewrite <- app_assoc. reflexivity.
    + rewrite IH. rewrite <- app_assoc. reflexivity.
Qed.

(* ------------------------------------------------------------------------------------------------------ *)
(* views *)
Definition veq (a b : vmap) : Prop := forall k, a k = b k.
Lemma veq_refl a : veq a a. Proof. intro; reflexivity. Qed.
Lemma veq_sym a b : veq a b -> veq b a. Proof. intros H k; symmetry; apply H. Qed.
Lemma veq_trans a b c : veq a b -> veq b c -> veq a c. Proof. intros H1 H2 k; rewrite H1; apply H2. Qed.

Lemma vapply_veq a b u : veq a b -> veq (vapply a u) (vapply b u).
Proof. intros H k; unfold vapply; destruct (N.eqb k (u_key u)); auto. Qed.
Lemma fold_vapply_veq us : forall a b, veq a b -> veq (fold_left vapply us a) (fold_left vapply us b).
Proof. induction us; simpl; intros; auto using vapply_veq. Qed.
Lemma view_of_app us vs : view_of (us ++ vs) = fold_left vapply vs (view_of us).
Proof. unfold view_of; apply fold_left_app. Qed.

(* value view of a tree *)
Definition vview (m : list upd) : vmap :=
  fun k => match kv_get k m with Some e => u_val e | None => None end.

(* what a follower does with one delta *)
Definition cl_apply (m : list upd) (u : upd) : list upd :=
  match u_val u with None => kv_del (u_key u) m | Some _ => kv_put (stored u) m end.

Lemma kv_get_key k m e : kv_get k m = Some e -> u_key e = k.
Proof.
  induction m as [|x m IH]; simpl; [discriminate|].
  destruct (N.eqb (u_key x) k) eqn:E; [|exact IH].
  intro H; inversion H; subst. apply N.eqb_eq; exact E.
Qed.

Lemma kv_get_put k u m :
  kv_get k (kv_put u m) = if N.eqb (u_key u) k then Some u else kv_get k m.
Proof.
  induction m as [|x m IH]; simpl.
  - reflexivity.
  - destruct (N.compare (u_key u) (u_key x)) eqn:C; simpl.
    + apply N.compare_eq in C. destruct (N.eqb (u_key u) k) eqn:E; [reflexivity|].
      rewrite <- C, E. reflexivity.
    + reflexivity.
    + rewrite IH. destruct (N.eqb (u_key u) k) eqn:E; [|reflexivity].
      destruct (N.eqb (u_key x) k) eqn:E2; [|reflexivity].
      apply N.eqb_eq in E, E2. rewrite E, E2 in C. rewrite N.compare_refl in C. discriminate.
Qed.

Lemma kv_get_del k k' m :
  kv_get k (kv_del k' m) = if N.eqb k' k then None else kv_get k m.
Proof.
  unfold kv_del. induction m as [|x m IH]; simpl.
  - destruct (N.eqb k' k); reflexivity.
  - destruct (N.eqb (u_key x) k') eqn:E; simpl.
    + rewrite IH. destruct (N.eqb k' k) eqn:E2; [reflexivity|].
      apply N.eqb_eq in E. rewrite E, E2. reflexivity.
    + rewrite IH. destruct (N.eqb (u_key x) k) eqn:E3; [|reflexivity].
      destruct (N.eqb k' k) eqn:E2; [|reflexivity].
      apply N.eqb_eq in E3, E2. subst. rewrite N.eqb_refl in E. discriminate.
Qed.

Lemma vview_cl_apply m u : veq (vview (cl_apply m u)) (vapply (vview m) u).
Proof.
  intro k. unfold vview, cl_apply, vapply.
  destruct (u_val u) eqn:V.
  - rewrite kv_get_put. simpl. rewrite (N.eqb_sym k). destruct (N.eqb (u_key u) k); simpl; auto.
  - rewrite kv_get_del. rewrite (N.eqb_sym k). destruct (N.eqb (u_key u) k); auto.
Qed.

Lemma vview_fold_cl_apply ds : forall m, veq (vview (fold_left cl_apply ds m)) (fold_left vapply ds (vview m)).
Proof.
  induction ds as [|d ds IH]; simpl; intro m; [apply veq_refl|].
  eapply veq_trans; [apply IH|]. apply fold_vapply_veq, vview_cl_apply.
Qed.

Lemma optN_eqb_eq a b : optN_eqb a b = true -> a = b.
Proof. destruct a, b; simpl; try discriminate; auto. intro H; apply N.eqb_eq in H; subst; auto. Qed.

(* a skipped update would not have changed the value view *)
Lemma noop_vapply m u old :
  kv_get (u_key u) m = Some old -> would_be_noop u old = true -> veq (vapply (vview m) u) (vview m).
Proof.
  intros G W k. unfold vapply. destruct (N.eqb k (u_key u)) eqn:E; [|reflexivity].
  apply N.eqb_eq in E; subst k. unfold vview. rewrite G.
  unfold would_be_noop in W. repeat (apply andb_prop in W; destruct W as [W ?]).
  apply optN_eqb_eq; assumption.
Qed.

Lemma apply_updates_spec us : forall m m' ds,
  apply_updates m us = (m', ds) ->
  m' = fold_left cl_apply ds m /\ subseq ds us /\ veq (vview m') (fold_left vapply us (vview m)).
Proof.
  induction us as [|u us IH]; simpl; intros m m' ds H.
  - inversion H; subst. split; [reflexivity|split; [constructor|apply veq_refl]].
  - destruct (u_val u) eqn:V.
    + destruct (kv_get (u_key u) m) as [old|] eqn:G.
      * destruct (would_be_noop u old) eqn:W.
        -- destruct (IH _ _ _ H) as (A & B & C). split; [exact A|split].
           ++ constructor; exact B.
           ++ eapply veq_trans; [exact C|]. apply fold_vapply_veq, veq_sym. eapply noop_vapply; eauto.
        -- destruct (apply_updates (kv_put (stored u) m) us) as [m1 ds1] eqn:R. inversion H; subst.
           destruct (IH _ _ _ R) as (A & B & C). split; [|split].
           ++ simpl. unfold cl_apply at 2. rewrite V. exact A.
           ++ constructor; exact B.
           ++ eapply veq_trans; [exact C|]. apply fold_vapply_veq.
              pose proof (vview_cl_apply m u) as P. unfold cl_apply in P. rewrite V in P. exact P.
      * destruct (apply_updates (kv_put (stored u) m) us) as [m1 ds1] eqn:R. inversion H; subst.
        destruct (IH _ _ _ R) as (A & B & C). split; [|split].
        -- simpl. unfold cl_apply at 2. rewrite V. exact A.
        -- constructor; exact B.
        -- eapply veq_trans; [exact C|]. apply fold_vapply_veq.
           pose proof (vview_cl_apply m u) as P. unfold cl_apply in P. rewrite V in P. exact P.
    + destruct (apply_updates (kv_del (u_key u) m) us) as [m1 ds1] eqn:R. inversion H; subst.
      destruct (IH _ _ _ R) as (A & B & C). split; [|split].
      * simpl. unfold cl_apply at 2. rewrite V. exact A.
      * constructor; exact B.
      * eapply veq_trans; [exact C|]. apply fold_vapply_veq.
        pose proof (vview_cl_apply m u) as P. unfold cl_apply in P. rewrite V in P. exact P.
Qed.
