(* C24 — the statements of the property over the model. *)
From Coq Require Import List NArith Arith Bool Lia.
From Verif.C24 Require Import Model Spec Proofs ProofsSorted ProofsInv ProofsRun ProofsClient.
Import ListNotations.

(* ---- where a status callback can sit ------------------------------------------------------------------------ *)
Lemma in_split_app {A} (x : A) : forall l1 l2 pre post, l1 ++ l2 = pre ++ x :: post ->
  (exists post1, l1 = pre ++ x :: post1 /\ post = post1 ++ l2)
  \/ (exists pre2, pre = l1 ++ pre2 /\ l2 = pre2 ++ x :: post).
Proof.
  induction l1 as [|a l1 IH]; simpl; intros l2 pre post H.
  - right. exists pre. split; [reflexivity|exact H].
  - destruct pre as [|b pre]; simpl in H.
    + inversion H; subst. left. exists l1. split; reflexivity.
    + inversion H; subst. destruct (IH _ _ _ H2) as [(post1 & A1 & A2)|(pre2 & A1 & A2)].
      * left. exists post1. subst. split; reflexivity.
      * right. exists pre2. subst. split; reflexivity.
Qed.
Lemma nil_split {A} (x : A) pre post : [] = pre ++ x :: post -> False.
Proof. destruct pre; discriminate. Qed.
Lemma single_split {A} (a x : A) pre post : [a] = pre ++ x :: post -> pre = [] /\ a = x.
Proof.
  destruct pre as [|b pre]; simpl; intro H; inversion H; subst; [split; reflexivity|].
  exfalso. eapply nil_split; eauto.
Qed.

Lemma sg_insync : forall gs rest p pre post,
  map cb_of_msg (send_groups gs rest (c_status p)) = pre ++ CS SInSync :: post ->
  exists g, flat_cbs pre = deltas_of (firstn g rest) /\ c_status (last (firstn g rest) p) = SInSync.
Proof.
  induction gs as [|g gs IH]; intros rest p pre post H.
  - simpl in H. exfalso. eapply nil_split; eauto.
  - cbn [send_groups] in H. rewrite last_status_default in H.
    set (grp := firstn g rest) in *. set (p' := last grp p) in *.
    change (concat (map c_deltas grp)) with (deltas_of grp) in H.
    rewrite !map_app in H.
    apply in_split_app in H. destruct H as [(post1 & A1 & _)|(pre2 & A1 & A2)].
    + exfalso. destruct (is_nil (deltas_of grp)); simpl in A1.
      * eapply nil_split; eauto.
      * apply single_split in A1. destruct A1 as [_ A1]. discriminate.
    + assert (FA : flat_cbs (map cb_of_msg (if is_nil (deltas_of grp) then [] else [MKVs (deltas_of grp)])) = deltas_of grp)
        by (rewrite flat_cbs_msgs; apply flat_opt_kvs).
      apply in_split_app in A2. destruct A2 as [(post1 & B1 & _)|(pre3 & B1 & B2)].
      * unfold maybe_status in B1. destruct (status_eqb (c_status p) (c_status p')) eqn:SE; simpl in B1.
        -- exfalso. eapply nil_split; eauto.
        -- apply single_split in B1. destruct B1 as [-> B1]. injection B1 as B1.
           exists g. fold grp. fold p'. split; [|exact B1].
           subst pre. rewrite app_nil_r. exact FA.
      * destruct (IH _ _ _ _ B2) as (g2 & C1 & C2).
        exists (g + g2). rewrite firstn_plus. fold grp. split.
        -- subst pre pre2. rewrite !flat_cbs_app, FA, C1, deltas_of_app.
           rewrite flat_cbs_msgs, flat_maybe_status. reflexivity.
        -- rewrite last_app_default. fold p'. exact C2.
Qed.

Lemma snap_msgs_no_status maxm : forall l buf pre s post,
  map cb_of_msg (snap_msgs maxm buf l) = pre ++ CS s :: post -> False.
Proof.
  induction l as [|e l IH]; simpl; intros buf pre s post H.
  - destruct (is_nil buf); simpl in H; [eapply nil_split; eauto|].
    apply single_split in H. destruct H as [_ H]; discriminate.
  - destruct (maxm <=? length (buf ++ [e])).
    + simpl in H. destruct pre as [|b pre]; simpl in H; [discriminate|]. inversion H; subst. eapply IH; eauto.
    + eapply IH; eauto.
Qed.

(* ---- the three parts of the property, for every interleaving of input and publication ----------------------- *)
Section Main.
Variables (maxb : nat) (os : list op).
Let c := exec maxb os.
Let E := ops_events os.
Variables (maxm i : nat) (gs : list nat) (ci : crumb).
Hypothesis Hi : nth_error (chain c) i = Some ci.
Let rest := skipn (S i) (chain c).
Let cbs := client_run maxm (chain c) i gs.

Lemma main_view :
  let cj := last (firstn (list_sum gs) rest) ci in
  (forall k, view_of (flat_cbs cbs) k = vview (c_kvs cj) k)
  /\ (forall k, view_of (flat_cbs cbs) k = view_of (firstn (c_cons cj) (flat_events E)) k).
Proof.
  cbv zeta. unfold cbs. rewrite (client_run_flat maxm (chain c) i gs ci Hi).
  destruct (conn_view maxb os i ci Hi (list_sum gs)) as (_ & A & B & _).
  split; intro k; [apply A|]. rewrite A. apply B.
Qed.

Lemma main_converged :
  pend c = [] -> length rest <= list_sum gs -> converged E cbs.
Proof.
  intros P L k. destruct main_view as [V _]. rewrite V.
  rewrite firstn_all2 by exact L.
  destruct (Inv_exec maxb os) as [Hc Hp (_ & _ & W & _) _ (tl & Hch & _ & Hcur) _ (Hk & _)].
  fold c E in Hc, Hp, W, Hch, Hcur, Hk.
  assert (LC : last rest ci = cur c).
  { unfold rest. rewrite (last_skipn_nth (chain c) i ci crumb0 Hi). rewrite Hch, last_cons_shift. symmetry; exact Hcur. }
  rewrite LC, Hk. rewrite W. rewrite firstn_all2; [reflexivity|].
  rewrite P in Hp. assert (length (skipn (consumed c) (flat_events E)) = 0) by (rewrite <- Hp; reflexivity).
  rewrite skipn_length in H. lia.
Qed.

Lemma main_order : in_order E cbs.
Proof.
  intro k. unfold cbs. rewrite (client_run_flat maxm (chain c) i gs ci Hi).
  apply (conn_order maxb os i ci Hi).
Qed.

Lemma main_insync : insync_not_early E cbs.
Proof.
  intros pre post H. unfold cbs, client_run, client_cbs, conn_msgs in H. rewrite Hi in H.
  destruct pre as [|b pre]; simpl in H; [discriminate|]. inversion H as [[Hb H1]]. clear H. subst b.
  rewrite !map_app in H1.
  assert (FS : flat_cbs (map cb_of_msg (snap_msgs maxm [] (c_kvs ci))) = c_kvs ci)
    by (rewrite flat_cbs_msgs; apply snap_msgs_flat).
  assert (G : exists g, flat_cbs pre = c_kvs ci ++ deltas_of (firstn g rest)
                        /\ c_status (last (firstn g rest) ci) = SInSync).
  { apply in_split_app in H1. destruct H1 as [(post1 & A1 & _)|(pre2 & A1 & A2)].
    - exfalso. eapply snap_msgs_no_status; eauto.
    - apply in_split_app in A2. destruct A2 as [(post1 & B1 & _)|(pre3 & B1 & B2)].
      + unfold maybe_status in B1. destruct (status_eqb SWait (c_status ci)); simpl in B1.
        * exfalso. eapply nil_split; eauto.
        * apply single_split in B1. destruct B1 as [-> B1]. injection B1 as B1.
          exists 0. simpl. subst pre. rewrite app_nil_r, FS, app_nil_r. split; [reflexivity|exact B1].
      + destruct (sg_insync _ _ _ _ _ B2) as (g & C1 & C2). exists g. split; [|exact C2].
        subst pre pre2. rewrite !flat_cbs_app, FS, C1, flat_cbs_msgs, flat_maybe_status. reflexivity. }
  destruct G as (g & G1 & G2).
  destruct (conn_view maxb os i ci Hi g) as (_ & A & B & (_ & _ & ST)).
  exists (c_cons (last (firstn g rest) ci)). split; [apply ST, G2|].
  intro k. change (flat_cbs (CS SResync :: pre)) with (flat_cbs pre). rewrite G1, A. apply B.
Qed.
End Main.
