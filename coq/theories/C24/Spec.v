(* C24 — what the property says, independent of crumbs, batches and messages.

   The datastore side is the sequence of events the upstream syncer delivered to Typha (update lists and status
   changes).  The client side is the sequence of callbacks one connection delivered (update lists and statuses).
   A view is a finite map key -> value obtained by applying updates in order (a nil value removes the key).

   (1) convergence: once the client has read everything, its view is the view of ALL datastore updates so far;
   (2) order: for every key, the (value, revision) pairs the client saw are a subsequence of the pairs the datastore
       sent for that key, in the same order - so never an older value after a newer one;
   (3) in-sync: whenever the client is told InSync, the view it holds is the datastore view after the first n updates
       for some n that is at least the number of updates that preceded some InSync event of the datastore. *)
From Coq Require Import List NArith Arith Bool.
From Verif.C24 Require Import Model.
Import ListNotations.

Definition vmap := N -> option N.
Definition vempty : vmap := fun _ => None.
Definition vapply (v : vmap) (u : upd) : vmap := fun k => if N.eqb k (u_key u) then u_val u else v k.
Definition view_of (us : list upd) : vmap := fold_left vapply us vempty.

(* flat update streams *)
Definition ev_upds (e : event) : list upd := match e with EU us => us | ES _ => [] end.
Definition flat_events (es : list event) : list upd := concat (map ev_upds es).
Definition cb_upds (c : cb) : list upd := match c with CU us => us | _ => [] end.
Definition flat_cbs (cs : list cb) : list upd := concat (map cb_upds cs).

(* --- (1) convergence ------------------------------------------------------------------------------------ *)
Definition converged (es : list event) (cs : list cb) : Prop :=
  forall k, view_of (flat_cbs cs) k = view_of (flat_events es) k.

(* --- (2) order ------------------------------------------------------------------------------------------- *)
Inductive subseq {A} : list A -> list A -> Prop :=
| sub_nil : forall l, subseq [] l
| sub_take : forall x a b, subseq a b -> subseq (x :: a) (x :: b)
| sub_skip : forall x a b, subseq a b -> subseq a (x :: b).

Definition payload (u : upd) : option N * N := (u_val u, u_rev u).
Definition for_key (k : N) (us : list upd) : list (option N * N) :=
  map payload (filter (fun u => N.eqb (u_key u) k) us).
Definition in_order (es : list event) (cs : list cb) : Prop :=
  forall k, subseq (for_key k (flat_cbs cs)) (for_key k (flat_events es)).

(* --- (3) in-sync not early ------------------------------------------------------------------------------- *)
(* the datastore declared InSync at a point preceded by at most n updates *)
Definition insync_by (es : list event) (n : nat) : Prop :=
  exists p s, es = p ++ ES SInSync :: s /\ length (flat_events p) <= n.
Definition insync_not_early (es : list event) (cs : list cb) : Prop :=
  forall pre post, cs = pre ++ CS SInSync :: post ->
    exists n, insync_by es n /\ forall k, view_of (flat_cbs pre) k = view_of (firstn n (flat_events es)) k.

(* ======================================== boolean oracle ================================================ *)
Definition view_eqb (ks : list N) (a b : vmap) : bool := forallb (fun k => optN_eqb (a k) (b k)) ks.

Definition pay_eqb (a b : option N * N) : bool := optN_eqb (fst a) (fst b) && N.eqb (snd a) (snd b).
Fixpoint subseqb (a b : list (option N * N)) : bool :=
  match a, b with
  | [], _ => true
  | _, [] => false
  | x :: a', y :: b' => if pay_eqb x y then subseqb a' b' else subseqb a b'
  end.

(* least number of updates preceding an InSync event *)
Fixpoint first_insync (es : list event) (n : nat) : option nat :=
  match es with
  | [] => None
  | ES SInSync :: _ => Some n
  | e :: es' => first_insync es' (n + length (ev_upds e))
  end.

Definition ok_converge (ks : list N) (es : list event) (cs : list cb) : bool :=
  view_eqb ks (view_of (flat_cbs cs)) (view_of (flat_events es)).
Definition ok_order (ks : list N) (es : list event) (cs : list cb) : bool :=
  forallb (fun k => subseqb (for_key k (flat_cbs cs)) (for_key k (flat_events es))) ks.

(* walk the callbacks; at each InSync look for an admissible n *)
Fixpoint ok_insync_from (ks : list N) (us : list upd) (m0 : option nat) (seen : list upd) (cs : list cb) : bool :=
  match cs with
  | [] => true
  | CS SInSync :: cs' =>
      match m0 with
      | None => false
      | Some m => existsb (fun n => view_eqb ks (view_of seen) (view_of (firstn n us)))
                          (seq m (S (length us) - m))
      end && ok_insync_from ks us m0 seen cs'
  | c :: cs' => ok_insync_from ks us m0 (seen ++ cb_upds c) cs'
  end.
Definition ok_insync (ks : list N) (es : list event) (cs : list cb) : bool :=
  ok_insync_from ks (flat_events es) (first_insync es 0) [] cs.

Definition no_dead (cs : list cb) : bool := forallb (fun c => match c with CDead => false | _ => true end) cs.

Definition keys_of (us : list upd) : list N := nodup N.eq_dec (map u_key us).

(* the oracle for one connection: es = every datastore event up to the moment the client had read everything *)
Definition ok_client (es : list event) (cs : list cb) : bool :=
  let ks := keys_of (flat_events es ++ flat_cbs cs) in
  no_dead cs && ok_converge ks es cs && ok_order ks es cs && ok_insync ks es cs.

(* ======================================== correspondence case =========================================== *)
(* observed crumb: SyncStatus of every crumb (so also the number of crumbs); to keep the case files small the driver
   dumps (KVs.Ascend, Deltas) only for every fourth crumb and the newest one - the trees of the crumbs that clients
   joined at and the deltas of the crumbs they followed are observed through the clients' callbacks anyway *)
Record ocrumb := mkOC { oc_dump : option (list upd * list upd); oc_status : status }.
(* one connection: crumb it joined at (SequenceNumber of the snapshot's crumb), snapshot chunk size (MaxMessageSize,
   or 1000 for the pre-built binary snapshot), number of pushes that had been published when it had read everything,
   how many crumbs each round of the delta loop followed, and the callbacks it delivered *)
Record oclient := mkCl { cl_join : N; cl_chunk : N; cl_npush : N; cl_groups : list N; cl_obs : list cb }.
Record case := mkCase { c_maxbatch : N; c_pushes : list (list event); c_crumbs : list ocrumb;
                        c_clients : list oclient }.

Definition ocrumb_eqb (a : crumb) (b : ocrumb) : bool :=
  match oc_dump b with
  | None => true
  | Some (kvs, ds) => list_eqb upd_eqb (c_kvs a) kvs && list_eqb upd_eqb (c_deltas a) ds
  end && status_eqb (c_status a) (oc_status b).
Fixpoint list_eqb2 {A B} (eqb : A -> B -> bool) (a : list A) (b : list B) : bool :=
  match a, b with
  | [], [] => true
  | x :: a', y :: b' => eqb x y && list_eqb2 eqb a' b'
  | _, _ => false
  end.

Definition check_client (c : case) (cl : oclient) : bool * bool :=
  let maxb := N.to_nat (c_maxbatch c) in
  let upto := firstn (N.to_nat (cl_npush cl)) (c_pushes c) in
  let ch := chain (run maxb upto) in
  (list_eqb cb_eqb (client_run (N.to_nat (cl_chunk cl)) ch (N.to_nat (cl_join cl)) (map N.to_nat (cl_groups cl)))
                   (cl_obs cl),
   ok_client (concat upto) (cl_obs cl)).

Definition check_case (c : case) : bool * bool :=
  let maxb := N.to_nat (c_maxbatch c) in
  let rs := map (check_client c) (c_clients c) in
  (list_eqb2 ocrumb_eqb (chain (run maxb (c_pushes c))) (c_crumbs c) && forallb fst rs,
   forallb snd rs).
