(* C24 — facts about the coalescing decision of the delta loop and about the pre-built snapshot cache. *)
From Coq Require Import List NArith Arith Bool Lia.
From Verif.C24 Require Import Model Spec Sender.
Import ListNotations.

(* ---- one round ----------------------------------------------------------------------------------------------- *)
Lemma round_spec thr maxm : forall rest acc lats taken g lats',
  round thr maxm acc rest lats taken = (g, lats') ->
  taken <= g /\ g - taken <= length rest /\ length lats = length lats' + (g - taken)
  /\ (rest <> [] -> lats <> [] -> taken < g).
Proof.
  induction rest as [|[ts nd] rest IH]; intros acc lats taken g lats' H.
  - simpl in H. inversion H; subst. repeat split; try lia. intros A; congruence.
  - destruct lats as [|lat lats]; [simpl in H; inversion H; subst; repeat split; try lia; intros _ A; congruence|].
    cbn [round] in H.
    destruct (N.ltb (lat - ts) thr && N.eqb acc 0).
    + inversion H; subst. cbn [length]. repeat split; lia.
    + destruct (N.ltb (lat - ts) thr).
      * inversion H; subst. cbn [length]. repeat split; lia.
      * destruct (N.ltb (acc + nd) maxm).
        -- apply IH in H. destruct H as (A & B & C & _). cbn [length]. repeat split; lia.
        -- inversion H; subst. cbn [length]. repeat split; lia.
Qed.

(* every crumb that has been published and looked at is followed, each round follows at least one *)
Lemma groups_spec thr maxm : forall fuel rest lats,
  length rest <= fuel -> length rest <= length lats ->
  list_sum (groups fuel thr maxm rest lats) = length rest
  /\ Forall (fun g => 1 <= g) (groups fuel thr maxm rest lats).
Proof.
  induction fuel as [|f IH]; intros rest lats F L.
  - destruct rest; [split; [reflexivity|constructor]|simpl in F; lia].
  - cbn [groups]. destruct (round thr maxm 0 rest lats 0) as [g lats'] eqn:R.
    destruct (round_spec _ _ _ _ _ _ _ _ R) as (A & B & C & D).
    destruct g as [|g]; cbn beta iota.
    + destruct rest as [|x rest]; [split; [reflexivity|constructor]|].
      destruct lats as [|y lats]; [simpl in L; lia|].
      exfalso. assert (0 < 0) by (apply D; discriminate). lia.
    + destruct (IH (skipn (S g) rest) lats') as (E & G).
      * rewrite skipn_length. lia.
      * rewrite skipn_length. lia.
      * split.
        -- unfold list_sum in *. cbn [fold_right]. rewrite E, skipn_length. lia.
        -- constructor; [lia|exact G].
Qed.

(* a client that keeps up (every crumb is younger than the threshold when it is followed) gets one message per crumb *)
Lemma groups_fresh thr maxm : forall rest lats,
  length lats = length rest ->
  Forall (fun p => N.ltb (snd p - fst (fst p)) thr = true) (combine rest lats) ->
  groups (length rest) thr maxm rest lats = repeat 1 (length rest).
Proof.
  induction rest as [|[ts nd] rest IH]; intros lats L F; [reflexivity|].
  destruct lats as [|lat lats]; [discriminate|]. simpl in L. injection L as L.
  simpl in F. inversion F as [|? ? F1 F2]; subst. simpl in F1.
  cbn [length groups round]. rewrite F1. cbn [andb N.eqb]. cbn [skipn repeat]. f_equal. apply IH; assumption.
Qed.

(* size of a message: when a round goes on to another crumb, what it holds so far is below MaxMessageSize *)
Fixpoint ndsum (l : list (N * N)) : N := match l with [] => 0%N | (_, nd) :: l' => (nd + ndsum l')%N end.

Lemma round_bound thr maxm : forall rest acc lats taken g lats',
  (acc < maxm)%N ->
  round thr maxm acc rest lats taken = (g, lats') ->
  taken < g -> (acc + ndsum (firstn (g - taken - 1) rest) < maxm)%N.
Proof.
  induction rest as [|[ts nd] rest IH]; intros acc lats taken g lats' A H T.
  - simpl in H. inversion H; subst. lia.
  - destruct lats as [|lat lats]; [simpl in H; inversion H; subst; lia|].
    cbn [round] in H.
    assert (ONE : g = S taken -> (acc + ndsum (firstn (g - taken - 1) ((ts, nd) :: rest)) < maxm)%N).
    { intros ->. replace (S taken - taken - 1) with 0 by lia. simpl. lia. }
    destruct (N.ltb (lat - ts) thr && N.eqb acc 0); [inversion H; subst; apply ONE; reflexivity|].
    destruct (N.ltb (lat - ts) thr); [inversion H; subst; apply ONE; reflexivity|].
    destruct (N.ltb (acc + nd) maxm) eqn:LT; [|inversion H; subst; apply ONE; reflexivity].
    apply N.ltb_lt in LT.
    destruct (round_spec _ _ _ _ _ _ _ _ H) as (B & _).
    destruct (Nat.eq_dec g (S taken)) as [->|NE]; [apply ONE; reflexivity|].
    specialize (IH _ _ _ _ _ LT H ltac:(lia)).
    replace (g - taken - 1) with (S (g - S taken - 1)) by lia. cbn [firstn ndsum]. lia.
Qed.

(* ---- the pre-built snapshot cache ------------------------------------------------------------------------------ *)
(* the crumb served is never newer than the newest crumb, and the cache only ever remembers crumbs that exist *)
Lemma snap_req_le validity tss st t cur j st' :
  (forall a, st = Some a -> fst a <= cur /\ (snd a <= t)%N) ->
  snap_req validity tss st t cur = (j, st') ->
  j <= cur /\ (forall a, st' = Some a -> fst a <= cur /\ (snd a <= t)%N).
Proof.
  intros I H. unfold snap_req in H. destruct st as [a|].
  - destruct (snap_expired validity tss t a).
    + inversion H; subst. split; [lia|]. intros a' E; inversion E; subst; simpl. split; [lia|apply N.le_refl].
    + inversion H; subst. destruct (I a eq_refl). split; [assumption|]. intros a' E; inversion E; subst; split; assumption.
  - inversion H; subst. split; [lia|]. intros a' E; inversion E; subst; simpl. split; [lia|apply N.le_refl].
Qed.

(* a snapshot of an older crumb is served only while it is younger than BinarySnapshotTimeout; `tss` lists the
   publication times, so "j is not the newest crumb at time t" means crumb j+1 was published by t *)
Lemma snap_req_fresh validity tss st t cur j st' p :
  snap_req validity tss st t cur = (j, st') ->
  j < cur -> nth_error tss (S j) = Some p -> (p <= t)%N ->
  exists t0, st = Some (j, t0) /\ (t < t0 + validity)%N.
Proof.
  intros H L P PT. unfold snap_req in H. destruct st as [[i t0]|]; [|inversion H; subst; lia].
  destruct (snap_expired validity tss t (i, t0)) eqn:X; [inversion H; subst; lia|].
  inversion H; subst. simpl in *. exists t0. split; [reflexivity|].
  unfold snap_expired in X. simpl in X. rewrite P in X.
  apply andb_false_iff in X. destruct X as [X|X].
  - apply N.leb_gt in X. exact X.
  - apply N.leb_gt in X. lia.
Qed.

(* requests come in time order and the newest crumb only moves forward *)
Fixpoint mono_reqs (t0 : N) (cur0 : nat) (reqs : list (N * nat)) : Prop :=
  match reqs with
  | [] => True
  | (t, cur) :: reqs' => (t0 <= t)%N /\ cur0 <= cur /\ mono_reqs t cur reqs'
  end.

Lemma snap_run_le validity tss : forall reqs st t0 cur0,
  (forall a, st = Some a -> fst a <= cur0 /\ (snd a <= t0)%N) ->
  mono_reqs t0 cur0 reqs ->
  Forall2 (fun j r => j <= snd r) (snap_run validity tss st reqs) reqs.
Proof.
  induction reqs as [|[t cur] reqs IH]; intros st t0 cur0 I M; [constructor|].
  destruct M as (M1 & M2 & M3). cbn [snap_run].
  destruct (snap_req validity tss st t cur) as [j st'] eqn:R.
  assert (I' : forall a, st = Some a -> fst a <= cur /\ (snd a <= t)%N).
  { intros a E. destruct (I a E). split; [lia|]. eapply N.le_trans; eauto. }
  destruct (snap_req_le _ _ _ _ _ _ _ I' R) as (A & B).
  constructor; [exact A|]. eapply IH; eauto.
Qed.
