(* C24 — the tree stays strictly ordered by key; consequences for views and per-key streams. *)
From Coq Require Import List NArith Arith Bool Lia.
From Verif.C24 Require Import Model Spec Proofs.
Import ListNotations.

Fixpoint ksorted (m : list upd) : Prop :=
  match m with
  | [] => True
  | e :: m' => Forall (fun x => (u_key e < u_key x)%N) m' /\ ksorted m'
  end.

Lemma ksorted_put u m : ksorted m -> ksorted (kv_put u m).
Proof.
  induction m as [|e m IH]; simpl; intro S.
  - split; [constructor|exact I].
  - destruct S as [F S]. destruct (N.compare (u_key u) (u_key e)) eqn:C; simpl.
    + apply N.compare_eq in C. split; [|exact S]. rewrite C. exact F.
    + change (u_key u < u_key e)%N in C. split; [|split; assumption].
      constructor; [exact C|]. eapply Forall_impl; [|exact F]. intros ? ?; cbv beta in *; lia.
    + apply N.compare_gt_iff in C. split; [|apply IH; exact S].
      clear IH S. induction m as [|y m IHm]; simpl.
      * constructor; [exact C|constructor].
      * inversion F; subst. destruct (N.compare (u_key u) (u_key y)); simpl.
        -- constructor; [exact C|assumption].
        -- constructor; [exact C|constructor; assumption].
        -- constructor; [assumption|apply IHm; assumption].
Qed.

Lemma Forall_filter {A} (P : A -> Prop) f (l : list A) : Forall P l -> Forall P (filter f l).
Proof. induction 1; simpl; [constructor|]. destruct (f x); [constructor|]; assumption. Qed.

Lemma ksorted_del k m : ksorted m -> ksorted (kv_del k m).
Proof.
  unfold kv_del. induction m as [|e m IH]; simpl; intro S; [exact I|].
  destruct S as [F S]. destruct (negb (N.eqb (u_key e) k)); simpl; [|apply IH; exact S].
  split; [apply Forall_filter; exact F|apply IH; exact S].
Qed.

Lemma ksorted_cl_apply m u : ksorted m -> ksorted (cl_apply m u).
Proof. unfold cl_apply; destruct (u_val u); [apply ksorted_put|apply ksorted_del]. Qed.
Lemma ksorted_fold ds : forall m, ksorted m -> ksorted (fold_left cl_apply ds m).
Proof. induction ds; simpl; intros; auto using ksorted_cl_apply. Qed.

(* in an ordered tree a key occurs at most once *)
Lemma kv_get_none_of_lt k m : Forall (fun x => (k < u_key x)%N) m -> kv_get k m = None.
Proof.
  induction 1 as [|x m H F IH]; simpl; [reflexivity|].
  destruct (N.eqb (u_key x) k) eqn:E; [apply N.eqb_eq in E; lia|exact IH].
Qed.

Lemma filter_key_none k m : Forall (fun x => (k < u_key x)%N) m -> filter (fun u => N.eqb (u_key u) k) m = [].
Proof.
  induction 1 as [|x m H F IH]; simpl; [reflexivity|].
  destruct (N.eqb (u_key x) k) eqn:E; [apply N.eqb_eq in E; lia|exact IH].
Qed.

Lemma filter_key_sorted k m : ksorted m ->
  filter (fun u => N.eqb (u_key u) k) m = match kv_get k m with Some e => [e] | None => [] end.
Proof.
  induction m as [|x m IH]; simpl; intro S; [reflexivity|]. destruct S as [F S].
  destruct (N.eqb (u_key x) k) eqn:E.
  - apply N.eqb_eq in E; subst k. rewrite filter_key_none; [reflexivity|exact F].
  - apply IH; exact S.
Qed.

(* applying the entries of an ordered tree to the empty view gives the tree's view *)
Lemma fold_vapply_other us : forall v k, Forall (fun x => u_key x <> k) us -> fold_left vapply us v k = v k.
Proof.
  induction us as [|u us IH]; simpl; intros v k F; [reflexivity|].
  inversion F; subst. rewrite IH by assumption. unfold vapply.
  destruct (N.eqb k (u_key u)) eqn:E; [apply N.eqb_eq in E; congruence|reflexivity].
Qed.

Lemma view_of_sorted m : ksorted m -> (forall e, In e m -> u_val e <> None) -> veq (view_of m) (vview m).
Proof.
  unfold view_of. intros S NN k. revert S NN.
  assert (G : forall v, ksorted m -> (forall e, In e m -> u_val e <> None) ->
              fold_left vapply m v k = match kv_get k m with Some e => u_val e | None => v k end).
  { induction m as [|x m IH]; simpl; intros v S NN; [reflexivity|]. destruct S as [F S].
    destruct (N.eqb (u_key x) k) eqn:E.
    - apply N.eqb_eq in E; subst k. rewrite fold_vapply_other.
      + unfold vapply. rewrite N.eqb_refl. reflexivity.
      + eapply Forall_impl; [|exact F]. intros ? ?; cbv beta in *; lia.
    - rewrite IH; auto. destruct (kv_get k m); [reflexivity|].
      unfold vapply. rewrite N.eqb_sym, E. reflexivity. }
  intros S NN. unfold vview. rewrite G by assumption. destruct (kv_get k m); reflexivity.
Qed.
