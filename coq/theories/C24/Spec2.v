(* C24 — correspondence case, second layer: besides everything `check_case` compares, the number of crumbs each round
   of the delta loop follows is now COMPUTED by the model (Sender.sender_groups) from the observed clock readings, and
   the crumb each pre-built snapshot was made from is computed by Sender.snap_run.  The oracle is unchanged. *)
From Coq Require Import List NArith Arith Bool.
From Verif.C24 Require Import Model Spec Sender.
Import ListNotations.

Record case2 := mkCase2 {
  c2_base : case;
  c2_thr : N;                    (* MinBatchingAgeThreshold, ns *)
  c2_maxmsg : N;                 (* MaxMessageSize after defaults *)
  c2_validity : N;               (* BinarySnapshotTimeout, ns *)
  c2_ts : list N;                (* Breadcrumb.Timestamp of every crumb *)
  c2_lats : list (list N);       (* per connection: SequenceNumber of the newest crumb at each step of the delta loop *)
  c2_snapreqs : list (N * N * N) (* per SendSnapshot: time, newest crumb, crumb served *)
}.

Definition check_client2 (c2 : case2) (cl : oclient) (lat_idx : list N) : bool :=
  let c := c2_base c2 in
  let maxb := N.to_nat (c_maxbatch c) in
  let upto := firstn (N.to_nat (cl_npush cl)) (c_pushes c) in
  let ch := chain (run maxb upto) in
  let tss := firstn (length ch) (c2_ts c2) in
  let gs := sender_groups (c2_thr c2) (c2_maxmsg c2) ch tss (N.to_nat (cl_join cl)) lat_idx in
  list_eqb cb_eqb (client_run (N.to_nat (cl_chunk cl)) ch (N.to_nat (cl_join cl)) gs) (cl_obs cl).

Fixpoint all2 {A B} (f : A -> B -> bool) (a : list A) (b : list B) : bool :=
  match a, b with
  | [], [] => true
  | x :: a', y :: b' => f x y && all2 f a' b'
  | _, _ => false
  end.

Definition check_snap (c2 : case2) : bool :=
  let reqs := map (fun r => (fst (fst r), N.to_nat (snd (fst r)))) (c2_snapreqs c2) in
  list_eqb Nat.eqb (snap_run (c2_validity c2) (c2_ts c2) None reqs) (map (fun r => N.to_nat (snd r)) (c2_snapreqs c2)).

Definition check_case2 (c2 : case2) : bool * bool :=
  let r := check_case (c2_base c2) in
  (fst r && all2 (check_client2 c2) (c_clients (c2_base c2)) (c2_lats c2) && check_snap c2, snd r).
