(* C24 — the theorems of ProofsTop for the coalescing that the sender actually computes. *)
From Coq Require Import List NArith Arith Bool Lia.
From Verif.C24 Require Import Model Spec Sender Proofs ProofsSorted ProofsInv ProofsRun ProofsClient ProofsMain ProofsTop ProofsOracle ProofsSender.
Import ListNotations.

Lemma sender_rest_length ch tss i : length tss = length ch ->
  length (sender_rest ch tss i) = length (skipn (S i) ch).
Proof.
  intro H. unfold sender_rest. rewrite combine_length, map_length, !skipn_length. lia.
Qed.

Section Top2.
Variables (maxb : nat) (pushes : list (list event)).
Let ch := chain (run maxb pushes).
Variables (thr maxmsg : N) (tss lat_idx : list N) (maxm i : nat) (ci : crumb).
Hypothesis Hi : nth_error ch i = Some ci.
Hypothesis Hts : length tss = length ch.
(* the sender has looked at least once per crumb published after the join point, i.e. it was not left blocked *)
Hypothesis Hlat : length (skipn (S i) ch) <= length lat_idx.
Let gs := sender_groups thr maxmsg ch tss i lat_idx.

Lemma sender_groups_cover : list_sum gs = length (skipn (S i) ch) /\ Forall (fun g => 1 <= g) gs.
Proof.
  unfold gs, sender_groups. cbv zeta.
  pose proof (sender_rest_length ch tss i Hts) as L.
  destruct (groups_spec thr maxmsg (length (sender_rest ch tss i)) (sender_rest ch tss i)
              (map (fun j => nth (N.to_nat j) tss 0%N) lat_idx)) as (A & B).
  - apply le_n.
  - rewrite map_length, L. exact Hlat.
  - split; [rewrite A; exact L|exact B].
Qed.

Lemma top2_converges : converged (concat pushes) (client_run maxm ch i gs).
Proof.
  apply (top_converges maxb pushes maxm i gs ci Hi). destruct sender_groups_cover as (A & _). fold ch. rewrite A. apply le_n.
Qed.

Lemma top2_oracle : ok_client (concat pushes) (client_run maxm ch i gs) = true.
Proof.
  apply (model_meets_spec maxb pushes maxm i gs ci Hi). destruct sender_groups_cover as (A & _). fold ch. rewrite A. apply le_n.
Qed.
End Top2.
