(* C24 — model of two pieces of typha/pkg/syncserver that decide WHERE a client joins and HOW crumbs are coalesced:

   * sendDeltaUpdatesToClient's inner loop (sync_server.go): how many crumbs one round follows, as a function of the
     crumbs' timestamps, of the newest crumb the sender sees each time it looks (the only input from the environment),
     of MinBatchingAgeThreshold and of MaxMessageSize;
   * SnappySnapshotCache (snap_precalc.go): activeBinarySnapshot / populateSnapshot / clearSnapshot - which crumb the
     pre-built snapshot handed to a new connection was made from, as a function of the time of the request, the newest
     crumb at that time, BinarySnapshotTimeout and the crumbs' publication times.

   Times are nanoseconds on the (virtual) clock.  Definitions only. *)
From Coq Require Import List NArith Arith Bool.
From Verif.C24 Require Import Model.
Import ListNotations.

(* ---- the delta loop ---------------------------------------------------------------------------------------- *)
(* One round.  rest: (timestamp, number of deltas) of the crumbs not yet followed; lats: timestamp of the newest crumb
   seen at each step (h.cache.CurrentBreadcrumb().Timestamp); acc = len(deltas) so far (deltas == nil iff acc = 0);
   taken: crumbs followed so far in this round.  Returns the number of crumbs followed and the unused observations.
   Running out of crumbs or observations = blocked in Breadcrumb.Next. *)
Fixpoint round (thr maxm acc : N) (rest : list (N * N)) (lats : list N) (taken : nat) : nat * list N :=
  match rest, lats with
  | (ts, nd) :: rest', lat :: lats' =>
      let fresh := N.ltb (lat - ts) thr in                       (* crumbAge < MinBatchingAgeThreshold *)
      if fresh && N.eqb acc 0 then (S taken, lats')              (* deltas = breadcrumb.Deltas; break *)
      else
        let acc' := (acc + nd)%N in                              (* deltas = append(deltas, ...) *)
        if fresh then (S taken, lats')                           (* caught up: break *)
        else if N.ltb acc' maxm then round thr maxm acc' rest' lats' (S taken)   (* for len(deltas) < MaxMessageSize *)
        else (S taken, lats')
  | _, _ => (taken, lats)
  end.

(* the outer loop, until nothing is left to follow *)
Fixpoint groups (fuel : nat) (thr maxm : N) (rest : list (N * N)) (lats : list N) : list nat :=
  match fuel with
  | 0 => []
  | S f =>
      match round thr maxm 0 rest lats 0 with
      | (0, _) => []
      | (g, lats') => g :: groups f thr maxm (skipn g rest) lats'
      end
  end.

(* the sender's view of the chain after crumb i: timestamps come from the clock (input), delta counts from the model *)
Definition sender_rest (ch : list crumb) (tss : list N) (i : nat) : list (N * N) :=
  combine (skipn (S i) tss) (map (fun c => N.of_nat (length (c_deltas c))) (skipn (S i) ch)).

Definition sender_groups (thr maxm : N) (ch : list crumb) (tss : list N) (i : nat) (lat_idx : list N) : list nat :=
  let lats := map (fun j => nth (N.to_nat j) tss 0%N) lat_idx in
  let rest := sender_rest ch tss i in
  groups (length rest) thr maxm rest lats.

(* ---- the pre-built snapshot cache --------------------------------------------------------------------------- *)
(* activeSnapshot: the crumb it was made from and when *)
Definition snapst := option (nat * N).

(* populateSnapshot: the snapshot is dropped once BOTH its validity time has passed and a newer crumb exists *)
Definition snap_expired (validity : N) (tss : list N) (t : N) (a : nat * N) : bool :=
  N.leb (snd a + validity) t
  && match nth_error tss (S (fst a)) with Some p => N.leb p t | None => false end.

(* SendSnapshot at time t when `cur` is the newest crumb: reuse the active snapshot or make one from `cur` *)
Definition snap_req (validity : N) (tss : list N) (st : snapst) (t : N) (cur : nat) : nat * snapst :=
  match st with
  | Some a => if snap_expired validity tss t a then (cur, Some (cur, t)) else (fst a, st)
  | None => (cur, Some (cur, t))
  end.

Fixpoint snap_run (validity : N) (tss : list N) (st : snapst) (reqs : list (N * nat)) : list nat :=
  match reqs with
  | [] => []
  | (t, cur) :: reqs' => let '(j, st') := snap_req validity tss st t cur in j :: snap_run validity tss st' reqs'
  end.
