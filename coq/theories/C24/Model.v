(* C24 — executable model of the Typha snapshot cache (typha/pkg/snapcache/cache.go), of the per-connection
   sender (typha/pkg/syncserver/sync_server.go: writeSnapshotMessages, sendDeltaUpdatesToClient, maybeSendStatus)
   and of the client decode loop (typha/pkg/syncclient/sync_client.go).  Definitions only.

   Keys are the serialized key paths, numbered by their rank in string order (the B-tree order of the cache);
   values are the serialized value bytes, numbered by the driver.  A nil value is [None]. *)
From Coq Require Import List NArith Arith Bool.
Import ListNotations.

Inductive utype := TUnknown | TNew | TUpdated | TDeleted.       (* api.UpdateType *)
Inductive status := SWait | SResync | SInSync.                  (* api.SyncStatus; zero value = SWait *)

(* syncproto.SerializedUpdate: Key, Value, Revision (V3ResourceVersion travels with it), TTL, UpdateType *)
Record upd := U { u_key : N; u_val : option N; u_rev : N; u_ttl : N; u_ty : utype }.

Definition utype_eqb (a b : utype) : bool :=
  match a, b with
  | TUnknown, TUnknown | TNew, TNew | TUpdated, TUpdated | TDeleted, TDeleted => true
  | _, _ => false
  end.
Definition status_eqb (a b : status) : bool :=
  match a, b with
  | SWait, SWait | SResync, SResync | SInSync, SInSync => true
  | _, _ => false
  end.
Definition optN_eqb (a b : option N) : bool :=
  match a, b with
  | None, None => true
  | Some x, Some y => N.eqb x y
  | _, _ => false
  end.
Definition upd_eqb (a b : upd) : bool :=
  N.eqb (u_key a) (u_key b) && optN_eqb (u_val a) (u_val b) && N.eqb (u_rev a) (u_rev b)
  && N.eqb (u_ttl a) (u_ttl b) && utype_eqb (u_ty a) (u_ty b).
Definition is_nil {A} (l : list A) : bool := match l with [] => true | _ => false end.

(* ---- the B-tree `kvs`: entries ordered by key ------------------------------------------------------------ *)
Fixpoint kv_get (k : N) (m : list upd) : option upd :=
  match m with
  | [] => None
  | e :: m' => if N.eqb (u_key e) k then Some e else kv_get k m'
  end.
Fixpoint kv_put (u : upd) (m : list upd) : list upd :=          (* ReplaceOrInsert *)
  match m with
  | [] => [u]
  | e :: m' => match N.compare (u_key u) (u_key e) with
               | Lt => u :: m
               | Eq => u :: m'
               | Gt => e :: kv_put u m'
               end
  end.
Definition kv_del (k : N) (m : list upd) : list upd :=          (* Delete *)
  filter (fun e => negb (N.eqb (u_key e) k)) m.

(* SerializedUpdate.WouldBeNoOp: revisions are ignored; a previous "new" counts as "updated" *)
Definition would_be_noop (s prev : upd) : bool :=
  let pty := match u_ty prev with TNew => TUpdated | t => t end in
  N.eqb (u_key s) (u_key prev) && optN_eqb (u_val s) (u_val prev) && N.eqb (u_ttl s) (u_ttl prev)
  && utype_eqb (u_ty s) pty.

(* what is stored in the snapshot: the update with its type forced to "new" *)
Definition stored (u : upd) : upd := U (u_key u) (u_val u) (u_rev u) (u_ttl u) TNew.

(* the loop over `updates` in publishBreadcrumb: new master tree and the deltas recorded in the crumb *)
Fixpoint apply_updates (m : list upd) (us : list upd) : list upd * list upd :=
  match us with
  | [] => (m, [])
  | u :: us' =>
      match u_val u with
      | None => let '(m', ds) := apply_updates (kv_del (u_key u) m) us' in (m', u :: ds)
      | Some _ =>
          match kv_get (u_key u) m with
          | Some old =>
              if would_be_noop u old then apply_updates m us'
              else let '(m', ds) := apply_updates (kv_put (stored u) m) us' in (m', u :: ds)
          | None => let '(m', ds) := apply_updates (kv_put (stored u) m) us' in (m', u :: ds)
          end
      end
  end.

(* Breadcrumb.  c_cons is a ghost field (not in the Go struct, never compared with the implementation): how many
   input updates had been taken off pendingUpdates when the crumb was made. *)
Record crumb := mkCrumb { c_kvs : list upd; c_deltas : list upd; c_status : status; c_cons : nat }.
Definition crumb0 : crumb := mkCrumb [] [] SWait 0.

(* Cache: pendingStatus, pendingUpdates, kvs, the chain of crumbs (newest first, never empty); consumed is ghost. *)
Record cache := mkCache { pend_status : status; pend : list upd; master : list upd; consumed : nat;
                          crumbs : list crumb }.
Definition init_cache : cache := mkCache SWait [] [] 0 [crumb0].
Definition cur (c : cache) : crumb := hd crumb0 (crumbs c).
Definition chain (c : cache) : list crumb := rev (crumbs c).     (* oldest first: index = SequenceNumber *)

(* Config.ApplyDefaults: MaxBatchSize <= 0 becomes 100 *)
Definition eff_max (m : nat) : nat := match m with 0 => 100 | _ => m end.

(* publishBreadcrumb *)
Definition publish_one (maxb : nat) (c : cache) : cache :=
  let lastb := negb (maxb <? length (pend c)) in
  let ups := if lastb then pend c else firstn maxb (pend c) in
  let rest := if lastb then [] else skipn maxb (pend c) in
  let old := cur c in
  let st := if lastb && negb (status_eqb (pend_status c) (c_status old)) then pend_status c else c_status old in
  let '(m', ds) := apply_updates (master c) ups in
  let changed := negb (status_eqb st (c_status old)) || negb (is_nil ds) in
  let cons' := consumed c + length ups in
  mkCache (pend_status c) rest m' cons'
          (if changed then mkCrumb m' ds st cons' :: crumbs c else crumbs c).

(* publishBreadcrumbs: one forced call, then while anything is pending *)
Fixpoint publish_more (fuel maxb : nat) (c : cache) : cache :=
  match fuel with
  | 0 => c
  | S f => if is_nil (pend c) then c else publish_more f maxb (publish_one maxb c)
  end.
Definition publish_all (maxb : nat) (c : cache) : cache :=
  let c1 := publish_one maxb c in publish_more (length (pend c1)) maxb c1.

(* what arrives on inputC *)
Inductive event := EU (us : list upd) | ES (s : status).
Definition ev_size (e : event) : nat := match e with EU us => length us | ES _ => 1 end.
(* storePendingUpdate *)
Definition absorb (c : cache) (e : event) : cache :=
  match e with
  | EU us => mkCache (pend_status c) (pend c ++ us) (master c) (consumed c) (crumbs c)
  | ES s => mkCache s (pend c) (master c) (consumed c) (crumbs c)
  end.
(* fillBatchFromInputQueue on a queue that already holds q: the first object, then more while batchSize < max *)
Fixpoint fill_more (maxb bs : nat) (q : list event) (c : cache) : cache * list event :=
  match q with
  | [] => (c, [])
  | e :: q' => if bs <? maxb then fill_more maxb (bs + ev_size e) q' (absorb c e) else (c, q)
  end.
Definition fill (maxb : nat) (q : list event) (c : cache) : cache * list event :=
  match q with
  | [] => (c, [])
  | e :: q' => fill_more maxb (ev_size e) q' (absorb c e)
  end.
(* the main loop run until the queue is empty *)
Fixpoint pump (fuel maxb : nat) (q : list event) (c : cache) : cache :=
  match fuel with
  | 0 => c
  | S f => match q with
           | [] => c
           | _ => let '(c1, q1) := fill maxb q c in pump f maxb q1 (publish_all maxb c1)
           end
  end.
Definition push (maxb : nat) (c : cache) (evs : list event) : cache := pump (length evs) maxb evs c.
Definition run (maxb : nat) (pushes : list (list event)) : cache :=
  fold_left (push (eff_max maxb)) pushes init_cache.

(* ---- the connection: snapshot, then deltas ------------------------------------------------------------- *)
Inductive msg := MKVs (l : list upd) | MStatus (s : status).

(* writeSnapshotMessages: append to the buffer, send when it reaches maxm, send the rest at the end *)
Fixpoint snap_msgs (maxm : nat) (buf : list upd) (l : list upd) : list msg :=
  match l with
  | [] => if is_nil buf then [] else [MKVs buf]
  | e :: l' => let buf' := buf ++ [e] in
               if maxm <=? length buf' then MKVs buf' :: snap_msgs maxm [] l' else snap_msgs maxm buf' l'
  end.

Definition maybe_status (lastsent s : status) : list msg :=
  if status_eqb lastsent s then [] else [MStatus s].

(* sendDeltaUpdatesToClient: each round of the outer loop follows g >= 1 crumbs (how many is decided by crumb ages,
   MaxMessageSize and what has been published so far: here an arbitrary list gs), sends their deltas as ONE message if
   there are any, then the status of the newest of them if it differs from the last status sent. *)
Fixpoint send_groups (gs : list nat) (rest : list crumb) (lastsent : status) : list msg :=
  match gs with
  | [] => []
  | g :: gs' =>
      let grp := firstn g rest in
      let ds := concat (map c_deltas grp) in
      let st := c_status (last grp (mkCrumb [] [] lastsent 0)) in
      (if is_nil ds then [] else [MKVs ds]) ++ maybe_status lastsent st ++ send_groups gs' (skipn g rest) st
  end.

Definition conn_msgs (maxm : nat) (ch : list crumb) (i : nat) (gs : list nat) : list msg :=
  match nth_error ch i with
  | None => []
  | Some ci => snap_msgs maxm [] (c_kvs ci) ++ maybe_status SWait (c_status ci)
               ++ send_groups gs (skipn (S i) ch) (c_status ci)
  end.

(* ---- the client: its callback stream ------------------------------------------------------------------- *)
Inductive cb := CU (l : list upd) | CS (s : status) | CDead.
Definition cb_of_msg (m : msg) : cb := match m with MKVs l => CU l | MStatus s => CS s end.
(* loop(): OnStatusUpdated(ResyncInProgress) before the handshake, then one callback per message *)
Definition client_cbs (ms : list msg) : list cb := CS SResync :: map cb_of_msg ms.

Definition client_run (maxm : nat) (ch : list crumb) (i : nat) (gs : list nat) : list cb :=
  client_cbs (conn_msgs maxm ch i gs).

(* ---- comparison helpers for the correspondence run ------------------------------------------------------- *)
Fixpoint list_eqb {A} (eqb : A -> A -> bool) (a b : list A) : bool :=
  match a, b with
  | [], [] => true
  | x :: a', y :: b' => eqb x y && list_eqb eqb a' b'
  | _, _ => false
  end.
Definition cb_eqb (a b : cb) : bool :=
  match a, b with
  | CU x, CU y => list_eqb upd_eqb x y
  | CS s, CS t => status_eqb s t
  | _, _ => false
  end.
