(* C04 — the index's records are the datastore view: after any history the model state holds, for
   every endpoint / network set, profile and IP set, the last value written (up to the order of label
   bindings and up to selectors with the same canonical text). *)
From Coq Require Import List NArith Arith Bool Lia Permutation.
From Verif.Common Require Import Labels Prefix.
From Verif.C04 Require Import Model Spec Sets Refs Counts Proofs State Inv Frame.
Import ListNotations.
Local Open Scope nat_scope.

Definition lab_eq (a b : labels) : Prop := forall k, lookup k a = lookup k b.

Lemma lookup_Some_In : forall k L v, lookup k L = Some v -> In (k, v) L.
Proof.
  induction L as [|[k' v'] L IH]; simpl; intros v H; [discriminate|].
  destruct (bytes_eqb k k') eqn:E.
  - apply bytes_eqb_eq in E. inversion H; subst. auto.
  - auto.
Qed.

Lemma labels_sub_lookup : forall a b k x, labels_sub a b = true -> lookup k a = Some x -> lookup k b = Some x.
Proof.
  intros a b k x H Hk. unfold labels_sub in H. rewrite forallb_forall in H.
  specialize (H (k, x) (lookup_Some_In _ _ _ Hk)). simpl in H. rewrite Hk in H.
  destruct (lookup k b) as [y|]; [|discriminate]. apply bytes_eqb_eq in H. subst. auto.
Qed.

Lemma labels_equiv_eq : forall a b, labels_equiv a b = true -> lab_eq a b.
Proof.
  intros a b H k. unfold labels_equiv in H. apply andb_true_iff in H. destruct H as [H1 H2].
  destruct (lookup k a) as [x|] eqn:Ea.
  - symmetry. eapply labels_sub_lookup; eauto.
  - destruct (lookup k b) as [y|] eqn:Eb; auto.
    pose proof (labels_sub_lookup _ _ _ _ H2 Eb). congruence.
Qed.

Lemma list_eqb_eq : forall {A} (eqb : A -> A -> bool), (forall x y, eqb x y = true -> x = y) ->
  forall a b, list_eqb eqb a b = true -> a = b.
Proof.
  intros A eqb E. induction a as [|x a IH]; destruct b as [|y b]; simpl; intros H; try discriminate; auto.
  apply andb_true_iff in H. destruct H as [H1 H2]. f_equal; auto.
Qed.

Lemma eport_eqb_eq : forall a b, eport_eqb a b = true -> a = b.
Proof.
  intros [n1 p1 q1] [n2 p2 q2] H. unfold eport_eqb in H. simpl in H.
  apply andb_true_iff in H. destruct H as [H H3]. apply andb_true_iff in H. destruct H as [H1 H2].
  apply bytes_eqb_eq in H1. apply N.eqb_eq in H3. subst. f_equal.
  destruct p1, p2; simpl in H2; try discriminate.
  - apply N.eqb_eq in H2. subst. auto.
  - apply bytes_eqb_eq in H2. subst. auto.
Qed.

Lemma ep_equal_spec : forall a b, ep_equal a b = true ->
  lab_eq (e_labels a) (e_labels b) /\ e_ports a = e_ports b /\ e_nets a = e_nets b /\ e_parents a = e_parents b.
Proof.
  intros a b H. unfold ep_equal in H. repeat (apply andb_true_iff in H; destruct H as [H ?]).
  split. { apply labels_equiv_eq. unfold labels_equiv. rewrite H, H3. reflexivity. }
  split; [|split].
  - eapply list_eqb_eq; eauto. apply eport_eqb_eq.
  - eapply list_eqb_eq; eauto. intros x y E. apply cidr_eqb_eq. auto.
  - eapply list_eqb_eq; eauto. intros x y E. apply N.eqb_eq. auto.
Qed.

Definition opt_rel {A B} (R : A -> B -> Prop) (x : option A) (y : option B) : Prop :=
  match x, y with Some a, Some b => R a b | None, None => True | _, _ => False end.

Section View.
  (* the meaning of a canonical selector text (Selector.Equal compares that text only) *)
  Variable sel_of : N -> ast.

  Definition ep_rel (d : epdata) (ve : vep) : Prop :=
    lab_eq (e_labels d) (ve_labels ve) /\ e_nets d = extract (ve_kind ve) (ve_nets ve) /\
    e_ports d = extract_ports (ve_kind ve) (ve_ports ve) /\ e_parents d = ve_parents ve.

  Definition set_rel (s : ipset) (vs : vset) : Prop :=
    (forall L, eval (s_sel s) L = eval (sel_of (s_selid s)) L) /\
    (forall L, eval (vs_sel vs) L = eval (sel_of (s_selid s)) L) /\
    s_proto s = vs_proto vs /\ s_port s = vs_port vs.

  Definition Reps (eps : list (N * epdata)) (veps : list (N * vep)) : Prop :=
    forall e, opt_rel ep_rel (alookup e eps) (alookup e veps).
  Definition Rpars (st : state) (v : view) : Prop := forall p, lab_eq (par_labels st p) (v_par_labels v p).
  Definition Rsets (sets : list (N * ipset)) (vsets : list (N * vset)) : Prop :=
    forall sid, opt_rel set_rel (alookup sid sets) (alookup sid vsets).

  Definition R (st : state) (v : view) : Prop :=
    Reps (st_eps st) (v_eps v) /\ Rpars st v /\ Rsets (st_sets st) (v_sets v).

  Definition op_interned (o : op) : Prop :=
    match o with OpIPSet _ selid sel _ _ => forall L, eval sel L = eval (sel_of selid) L | _ => True end.

  Lemma Reps_sim : forall a b va, eps_sim a b -> Reps a va -> Reps b va.
  Proof.
    intros a b va S H e. specialize (S e). specialize (H e). unfold opt_rel in *.
    destruct (alookup e a) as [d|], (alookup e b) as [d'|], (alookup e va) as [ve|]; try tauto.
    destruct S as (S1&S2&S3&S4). destruct H as (H1&H2&H3&H4). unfold ep_rel. rewrite S1, S2, S3, S4. auto.
  Qed.

  Lemma Rsets_sim : forall a b va, sets_sim a b -> Rsets a va -> Rsets b va.
  Proof.
    intros a b va [_ S] H e. specialize (S e). specialize (H e). unfold opt_rel in *.
    destruct (alookup e a) as [d|], (alookup e b) as [d'|], (alookup e va) as [ve|]; try tauto.
    destruct S as (S1&S2&S3&S4). destruct H as (H1&H2&H3&H4). unfold set_rel. rewrite S1, S2, S3, S4. auto.
  Qed.

  Lemma Rpars_eq : forall st st' v, st_pars st' = st_pars st -> Rpars st v -> Rpars st' v.
  Proof. intros st st' v E H p. unfold par_labels. rewrite E. apply H. Qed.

  Lemma R_frame : forall st st' v, frame st st' -> R st v -> R st' v.
  Proof.
    intros st st' v (F1&F2&F3) (A&B&C). split. eapply Reps_sim; eauto. split. eapply Rpars_eq; eauto.
    eapply Rsets_sim; eauto.
  Qed.

  Variable sup : bool.
  Variable shuffle : state -> forall A : Type, list A -> list A.
  Variable prune_ep : state -> N -> N -> bool.
  Variable prune_set : state -> epdata -> N -> bool.
  Notation step := (step sup shuffle prune_ep prune_set).

  Lemma step_R : forall st v o st' evs,
    R st v -> op_interned o -> step st o = (st', evs) -> R st' (view_step v o).
  Proof.
    intros st v o st' evs (RE & RP & RS) OI H. destruct o; simpl in H.
    - (* UpdateIPSet *)
      unfold update_ipset in H. cbv zeta in H. simpl in OI.
      set (new := mkSet selid sel proto port [] []) in *.
      assert (Create : forall st0 st1 evs1,
                Reps (st_eps st0) (v_eps v) -> Rpars st0 v ->
                (forall x, x <> sid -> opt_rel set_rel (alookup x (st_sets st0)) (alookup x (v_sets v))) ->
                scan_new_set sup shuffle prune_ep (set_set st0 sid new) sid = (st1, evs1) ->
                R st1 (view_step v (OpIPSet sid selid sel proto port))).
      { intros st0 st1 evs1 E0 P0 S0 Hs. unfold scan_new_set in Hs. apply scan_new_frame in Hs.
        apply (R_frame (tick (set_set st0 sid new))); auto.
        split; [|split]; simpl; auto.
        intros x. rewrite !alookup_aset. destruct (N.eqb x sid) eqn:Ex.
        - simpl. unfold set_rel. simpl. auto.
        - apply S0. apply N.eqb_neq. auto. }
      destruct (alookup sid (st_sets st)) as [old|] eqn:Ls.
      + destruct ((s_selid old =? selid)%N && (s_proto old =? proto)%N && bytes_eqb (s_port old) port) eqn:Same.
        * inversion H; subst. split; [|split]; simpl; auto.
          intros x. rewrite alookup_aset. destruct (N.eqb x sid) eqn:Ex; [|apply RS].
          apply N.eqb_eq in Ex. subst x. rewrite Ls. simpl.
          apply andb_true_iff in Same. destruct Same as [Same S3]. apply andb_true_iff in Same. destruct Same as [S1 S2].
          apply N.eqb_eq in S1, S2. apply bytes_eqb_eq in S3.
          specialize (RS sid). rewrite Ls in RS. destruct (alookup sid (v_sets v)) as [vs|]; [|contradiction].
          destruct RS as (A1 & A2 & A3 & A4). unfold set_rel. simpl. rewrite S1 in *. auto.
        * destruct (removed_list sup (shuffle st) sid old (shuffle st _ (map fst (s_rc old)))) as [old' evs1] eqn:Er.
          destruct (scan_new_set sup shuffle prune_ep
                      (set_set (delete_ipset shuffle prune_ep (tick (set_set st sid old')) sid) sid new) sid)
            as [st2 evs2] eqn:Ec.
          injection H as H1 H2. subst st' evs.
          destruct (delete_ipset_frame shuffle prune_ep (tick (set_set st sid old')) sid) as (D1 & D2 & D3).
          eapply Create; [| | |exact Ec].
          -- eapply Reps_sim; [exact D1|]. simpl. exact RE.
          -- eapply Rpars_eq; [exact D2|]. exact RP.
          -- intros x Nx. rewrite D3. pose proof Nx as Nx'. apply N.eqb_neq in Nx. rewrite Nx. simpl.
             rewrite alookup_aset, Nx. apply RS.
      + eapply Create; [exact RE | exact RP | | exact H]. intros x _. apply RS.
    - (* DeleteIPSet *)
      inversion H; subst. destruct (delete_ipset_frame shuffle prune_ep st sid) as (D1 & D2 & D3).
      split; [|split]; simpl.
      + eapply Reps_sim; eauto.
      + eapply Rpars_eq; eauto.
      + intros x. rewrite D3, alookup_adel. destruct (N.eqb x sid); simpl; auto; try apply RS.
    - (* UpdateEndpointOrSet *)
      unfold update_ep in H.
      set (new := mkEp lbls (extract k nets) (extract_ports k ports) parents []) in *.
      assert (Ins : forall st1 st2 new' evs2,
                (forall x, x <> eid -> opt_rel ep_rel (alookup x (st_eps st1)) (alookup x (v_eps v))) ->
                st_pars st1 = st_pars st -> st_sets st1 = st_sets st ->
                scan_ep sup shuffle prune_set st1 new (recalc st match alookup eid (st_eps st) with Some o => o | None => new end)
                  = (st2, new', evs2) \/ scan_ep sup shuffle prune_set st1 new [] = (st2, new', evs2) ->
                R (set_ep st2 eid new') (view_step v (OpEp eid k lbls nets ports parents))).
      { intros st1 st2 new' evs2 E1 P1 S1 Hs.
        assert (Fr : frame st1 st2 /\ same_data new new').
        { destruct Hs as [Hs|Hs]; eapply scan_ep_frame; eauto. }
        destruct Fr as [(F1 & F2 & F3) (Sd1 & Sd2 & Sd3 & Sd4)].
        split; [|split]; simpl.
        - intros x. rewrite !alookup_aset. destruct (N.eqb x eid) eqn:Ex.
          + simpl. unfold ep_rel. simpl. rewrite Sd1, Sd2, Sd3, Sd4. simpl. repeat split; auto.
          + apply N.eqb_neq in Ex. specialize (E1 x Ex). specialize (F1 x). unfold opt_rel in *.
            destruct (alookup x (st_eps st1)) as [d|], (alookup x (st_eps st2)) as [d'|], (alookup x (v_eps v)) as [ve|]; try tauto.
            destruct F1 as (G1&G2&G3&G4). destruct E1 as (K1&K2&K3&K4). unfold ep_rel. rewrite G1, G2, G3, G4. auto.
        - intros p. unfold par_labels. simpl. rewrite F2, P1. apply RP.
        - eapply Rsets_sim; [exact F3|]. rewrite S1. exact RS. }
      destruct (alookup eid (st_eps st)) as [old|] eqn:Le.
      + destruct (ep_equal old new) eqn:Eq.
        * inversion H; subst. split; [|split]; simpl; auto.
          intros x. rewrite alookup_aset. destruct (N.eqb x eid) eqn:Ex; [|apply RE].
          apply N.eqb_eq in Ex. subst x. rewrite Le. simpl.
          destruct (ep_equal_spec _ _ Eq) as (Q1 & Q2 & Q3 & Q4). unfold ep_rel. simpl.
          rewrite Q2, Q3, Q4. simpl. auto.
        * destruct (scan_ep sup shuffle prune_set (set_eps st (adel eid (st_eps st))) new (recalc st old))
            as [[st2 new'] evs2] eqn:Es.
          inversion H; subst. eapply (Ins (set_eps st (adel eid (st_eps st)))); simpl; auto.
          -- intros x Nx. rewrite alookup_adel. apply N.eqb_neq in Nx. rewrite Nx. apply RE.
          -- left. exact Es.
      + destruct (scan_ep sup shuffle prune_set st new []) as [[st2 new'] evs2] eqn:Es.
        inversion H; subst. eapply (Ins st); auto; try (intros x _; apply RE).
        right. exact Es.
    - (* DeleteEndpoint *)
      unfold delete_ep in H. destruct (alookup eid (st_eps st)) as [old|] eqn:Le.
      + destruct (fold_left (scan_del_step sup shuffle) (shuffle st _ (recalc st old)) (tick st, [])) as [st1 evs1] eqn:Ef.
        inversion H; subst. apply scan_del_frame in Ef. destruct Ef as (F1 & F2 & F3). simpl in F1, F2, F3.
        split; [|split]; simpl.
        * intros x. rewrite !alookup_adel. destruct (N.eqb x eid); simpl; auto.
          apply (Reps_sim (st_eps st)); auto.
        * eapply Rpars_eq; eauto.
        * eapply Rsets_sim; eauto.
      + inversion H; subst. split; [|split]; simpl; auto.
        intros x. rewrite alookup_adel. destruct (N.eqb x eid) eqn:Ex; [|apply RE].
        apply N.eqb_eq in Ex. subst. rewrite Le. simpl. auto.
    - (* UpdateParentLabels *)
      unfold update_parent in H. destruct (labels_equiv (par_labels st pid) lbls) eqn:Eq.
      + inversion H; subst. split; [|split]; simpl; auto.
        intros p. unfold v_par_labels. simpl. rewrite alookup_aset. destruct (N.eqb p pid) eqn:Ep; [|apply RP].
        apply N.eqb_eq in Ep. subst. apply labels_equiv_eq. auto.
      + destruct (fold_left (update_parent_step sup shuffle prune_set pid (par_labels st pid) lbls)
                    (shuffle st _ (map fst (filter (fun kv => memN pid (e_parents (snd kv))) (st_eps st)))) (tick st, []))
          as [st1 evs1] eqn:Ef.
        inversion H; subst. apply update_parent_frame in Ef. destruct Ef as (F1 & F2 & F3). simpl in F1, F2.
        split; [|split]; simpl.
        * eapply Reps_sim; eauto.
        * intros p. unfold v_par_labels. simpl. rewrite alookup_aset.
          change (match alookup p (aset pid lbls (st_pars st1)) with Some l => l | None => [] end)
            with (par_labels (set_par st1 pid lbls) p).
          unfold par_labels at 1. simpl. rewrite alookup_aset. destruct (N.eqb p pid) eqn:Ep.
          -- intros kk. reflexivity.
          -- apply N.eqb_neq in Ep. specialize (F3 p Ep). unfold par_labels in F3. rewrite F3. apply RP.
        * eapply Rsets_sim; eauto.
    - (* DeleteParentLabels *)
      unfold update_parent in H. destruct (labels_equiv (par_labels st pid) []) eqn:Eq.
      + inversion H; subst. split; [|split]; simpl; auto.
        intros p. unfold v_par_labels. simpl. rewrite alookup_adel. destruct (N.eqb p pid) eqn:Ep; [|apply RP].
        apply N.eqb_eq in Ep. subst. apply labels_equiv_eq. auto.
      + destruct (fold_left (update_parent_step sup shuffle prune_set pid (par_labels st pid) [])
                    (shuffle st _ (map fst (filter (fun kv => memN pid (e_parents (snd kv))) (st_eps st)))) (tick st, []))
          as [st1 evs1] eqn:Ef.
        inversion H; subst. apply update_parent_frame in Ef. destruct Ef as (F1 & F2 & F3). simpl in F1, F2.
        split; [|split]; simpl.
        * eapply Reps_sim; eauto.
        * intros p. unfold v_par_labels. simpl. rewrite alookup_adel.
          unfold par_labels at 1. simpl. rewrite alookup_aset. destruct (N.eqb p pid) eqn:Ep.
          -- intros kk. reflexivity.
          -- apply N.eqb_neq in Ep. specialize (F3 p Ep). unfold par_labels in F3. rewrite F3. apply RP.
        * eapply Rsets_sim; eauto.
  Qed.
End View.
