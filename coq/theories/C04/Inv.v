(* C04 — the global invariant of the index and its preservation by every operation. *)
From Coq Require Import List NArith Arith Bool Lia Permutation.
From Verif.Common Require Import Labels Prefix.
From Verif.C04 Require Import Model Spec Sets Refs Counts Proofs State.
Import ListNotations.
Local Open Scope nat_scope.

(* ------------------------------------------------------------------ number of contributions *)

(* what endpoint data d contributes to the count of member x in IP set sid *)
Definition term (sets : list (N * ipset)) (d : epdata) (sid : N) (x : member) : nat :=
  if memN sid (e_cache d) then
    match alookup sid sets with Some s => cnt x (contribution d s) | None => 0 end
  else 0.

(* number of contributions of x to sid over all endpoints / network sets *)
Definition total (eps : list (N * epdata)) (sets : list (N * ipset)) (sid : N) (x : member) : nat :=
  list_sum (map (fun kv => term sets (snd kv) sid x) eps).

Lemma total_cons : forall kv eps sets sid x,
  total (kv :: eps) sets sid x = term sets (snd kv) sid x + total eps sets sid x.
Proof. reflexivity. Qed.

Lemma total_app : forall a b sets sid x, total (a ++ b) sets sid x = total a sets sid x + total b sets sid x.
Proof. intros. unfold total. rewrite map_app, list_sum_app. reflexivity. Qed.

Lemma total_ge_term : forall eps sets eid d sid x, In (eid, d) eps -> term sets d sid x <= total eps sets sid x.
Proof.
  induction eps as [|kv eps IH]; simpl; intros sets eid d sid x H; [contradiction|].
  rewrite total_cons. destruct H as [->|H]; simpl; [lia|]. specialize (IH sets _ _ sid x H). lia.
Qed.

Lemma filter_all_id : forall {A} (f : A -> bool) l, (forall x, In x l -> f x = true) -> filter f l = l.
Proof.
  induction l as [|a l IH]; simpl; intros H; auto.
  rewrite (H a) by auto. f_equal. apply IH. auto.
Qed.

Lemma total_adel : forall eps sets eid d sid x, NoDup (map fst eps) -> alookup eid eps = Some d ->
  total (adel eid eps) sets sid x + term sets d sid x = total eps sets sid x.
Proof.
  induction eps as [|[k v] eps IH]; simpl; intros sets eid d sid x ND H; [discriminate|].
  inversion ND; subst. unfold adel. simpl. destruct (N.eqb eid k) eqn:E.
  - apply N.eqb_eq in E. subst k. inversion H; subst. simpl.
    assert (filter (fun kv => negb (eid =? fst kv)%N) eps = eps).
    { apply filter_all_id. intros [k' v'] Hi. simpl.
      apply negb_true_iff, N.eqb_neq. intros ->. apply H2. apply in_map_iff. exists (k', v'). auto. }
    rewrite H0. rewrite total_cons. simpl. lia.
  - simpl. rewrite !total_cons. simpl. specialize (IH sets eid d sid x H3 H). unfold adel in IH. lia.
Qed.

Lemma adel_notin : forall {A} k (l : list (N * A)), ~ In k (map fst l) -> adel k l = l.
Proof.
  intros A k l H. unfold adel. apply filter_all_id. intros [k' v'] Hi. simpl.
  apply negb_true_iff, N.eqb_neq. intros ->. apply H. apply in_map_iff. exists (k', v'). auto.
Qed.

Lemma aset_notin : forall {A} k (v : A) l, ~ In k (map fst l) -> aset k v l = l ++ [(k, v)].
Proof.
  induction l as [|[k' v'] l IH]; simpl; intros H; auto.
  destruct (N.eqb k k') eqn:E.
  - apply N.eqb_eq in E. subst. exfalso. auto.
  - f_equal. apply IH. auto.
Qed.

Lemma total_aset_new : forall eps sets eid d sid x, ~ In eid (map fst eps) ->
  total (aset eid d eps) sets sid x = total eps sets sid x + term sets d sid x.
Proof. intros. rewrite aset_notin; auto. rewrite total_app. unfold total at 2. simpl. lia. Qed.

Lemma total_aset_in : forall eps sets eid d d' sid x, NoDup (map fst eps) -> alookup eid eps = Some d ->
  total (aset eid d' eps) sets sid x + term sets d sid x = total eps sets sid x + term sets d' sid x.
Proof.
  induction eps as [|[k v] eps IH]; simpl; intros sets eid d d' sid x ND H; [discriminate|].
  inversion ND; subst. destruct (N.eqb eid k) eqn:E.
  - apply N.eqb_eq in E. subst k. inversion H; subst. rewrite !total_cons. simpl. lia.
  - rewrite !total_cons. simpl. specialize (IH sets eid d d' sid x H3 H). lia.
Qed.

Lemma term_sim : forall a b d sid x, sets_sim a b -> term b d sid x = term a d sid x.
Proof.
  intros a b d sid x [_ S]. unfold term. destruct (memN sid (e_cache d)); auto.
  specialize (S sid). destruct (alookup sid a), (alookup sid b); try tauto.
  rewrite (contribution_static d i i0); auto.
Qed.

Lemma total_sim : forall eps a b sid x, sets_sim a b -> total eps b sid x = total eps a sid x.
Proof.
  intros eps a b sid x S. unfold total. f_equal. apply map_ext. intros kv. apply term_sim. auto.
Qed.

Lemma map_fst_recalc : forall st d, map fst (recalc st d) = e_cache d.
Proof.
  intros. unfold recalc. rewrite map_map. rewrite <- (map_id (e_cache d)) at 2. apply map_ext.
  intros sid. destruct (alookup sid (st_sets st)); reflexivity.
Qed.

Lemma alookup_map_key : forall {A} (f : N -> A) l k,
  alookup k (map (fun x => (x, f x)) l) = if memN k l then Some (f k) else None.
Proof.
  induction l as [|y l IH]; simpl; intros k; auto.
  destruct (N.eqb k y) eqn:E; simpl.
  - apply N.eqb_eq in E. subst. reflexivity.
  - apply IH.
Qed.

Lemma old_term_recalc : forall st d sid x, old_term (recalc st d) sid x = term (st_sets st) d sid x.
Proof.
  intros. unfold old_term, term, recalc.
  assert (E : map (fun sid0 => match alookup sid0 (st_sets st) with
                               | Some s => (sid0, contribution d s) | None => (sid0, []) end) (e_cache d)
            = map (fun sid0 => (sid0, match alookup sid0 (st_sets st) with
                                      | Some s => contribution d s | None => [] end)) (e_cache d)).
  { apply map_ext. intros y. destruct (alookup y (st_sets st)); reflexivity. }
  rewrite E, alookup_map_key. destruct (memN sid (e_cache d)); auto.
  destruct (alookup sid (st_sets st)); auto.
Qed.

(* ------------------------------------------------------------------ the invariant *)

Definition lab_matches (lab : N -> labels) (s : ipset) (d : epdata) : bool :=
  eval (s_sel s) (effective (e_labels d) (map lab (e_parents d))).

Lemma ep_matches_lab : forall st s d, ep_matches st s d = lab_matches (par_labels st) s d.
Proof. reflexivity. Qed.

(* the endpoint's cache of matching IP sets is right for the parent labels [lab] *)
Definition exact_at (lab : N -> labels) (sets : list (N * ipset)) (d : epdata) : Prop :=
  forall sid s, alookup sid sets = Some s ->
    (In sid (e_cache d) -> lab_matches lab s d = true) /\
    (lab_matches lab s d = true -> contribution d s <> [] -> In sid (e_cache d)).

Definition ep_ok (sets : list (N * ipset)) (d : epdata) : Prop :=
  NoDup (e_cache d) /\ (forall sid, In sid (e_cache d) -> In sid (map fst sets)) /\
  (forall c, In c (e_nets d) -> wfc c).

(* lab eid = the parent labels endpoint eid was last scanned under *)
Definition GInvL (sup : bool) (lab : N -> N -> labels) (st : state) (F : fam_copy) : Prop :=
  NoDup (map fst (st_eps st)) /\ NoDup (map fst (st_sets st)) /\
  SetsOK sup (st_sets st) F (total (st_eps st) (st_sets st)) /\
  forall eid d, In (eid, d) (st_eps st) -> ep_ok (st_sets st) d /\ exact_at (lab eid) (st_sets st) d.

Definition GInv (sup : bool) (st : state) (F : fam_copy) : Prop := GInvL sup (fun _ => par_labels st) st F.

Lemma lab_matches_static : forall lab s s' d, same_static s s' -> lab_matches lab s' d = lab_matches lab s d.
Proof. intros lab s s' d (A&B&C&D). unfold lab_matches. rewrite B. reflexivity. Qed.

Lemma ep_ok_sim : forall a b d, sets_sim a b -> ep_ok a d -> ep_ok b d.
Proof. intros a b d [K _] (A&B&C). split; auto. split; auto. rewrite <- K. auto. Qed.

Lemma exact_at_sim : forall lab a b d, sets_sim a b -> exact_at lab a d -> exact_at lab b d.
Proof.
  intros lab a b d [K S] E sid s' H. specialize (S sid). rewrite H in S.
  destruct (alookup sid a) as [s|] eqn:Ha; [|contradiction].
  destruct (E sid s Ha) as [E1 E2].
  rewrite (lab_matches_static lab s s'), (contribution_static d s s'); auto.
Qed.

(* exactness only looks at the labels of the endpoint's own parents *)
Lemma exact_at_ext : forall lab lab' sets d,
  (forall p, In p (e_parents d) -> lab p = lab' p) -> exact_at lab sets d -> exact_at lab' sets d.
Proof.
  intros lab lab' sets d E X sid s H.
  assert (M : lab_matches lab' s d = lab_matches lab s d).
  { unfold lab_matches. f_equal. f_equal. apply map_ext_in. intros p Hp. symmetry. auto. }
  rewrite M. apply X. auto.
Qed.

Section Ops.
  Variable sup : bool.
  Variable shuffle : state -> forall A : Type, list A -> list A.
  Variable prune_ep : state -> N -> N -> bool.
  Variable prune_set : state -> epdata -> N -> bool.
  Hypothesis shuffle_ok : forall st, perm_ok (shuffle st).
  (* candidate pruning keeps every true match (C07) *)
  Hypothesis prune_ep_sound : forall st sid s eid d,
    alookup sid (st_sets st) = Some s -> alookup eid (st_eps st) = Some d ->
    ep_matches st s d = true -> prune_ep st sid eid = true.
  Hypothesis prune_set_sound : forall st d sid s,
    alookup sid (st_sets st) = Some s -> ep_matches st s d = true -> prune_set st d sid = true.

  (* after scanEndpointAgainstIPSets the scanned endpoint's record is right *)
  Lemma scan_finish : forall st d c' sets2,
    NoDup (map fst (st_sets st)) -> (forall c, In c (e_nets d) -> wfc c) ->
    sets_sim (st_sets st) sets2 -> NoDup c' ->
    (forall sid, In sid c' <-> In sid (set_candidates shuffle prune_set st (with_cache d [])) /\
                             exists s, alookup sid (st_sets st) = Some s /\ ep_matches st s d = true) ->
    ep_ok sets2 (with_cache d c') /\ exact_at (par_labels st) sets2 (with_cache d c') /\
    forall sid x, add_term st d (set_candidates shuffle prune_set st (with_cache d [])) sid x
                  = term sets2 (with_cache d c') sid x.
  Proof.
    intros st d c' sets2 NDs W Sim Nc Hc.
    set (cands := set_candidates shuffle prune_set st (with_cache d [])) in *.
    assert (Hcand : forall sid, In sid cands <-> prune_set st (with_cache d []) sid = true /\ In sid (map fst (st_sets st))).
    { intros sid. unfold cands, set_candidates. rewrite perm_In; auto. rewrite filter_In. tauto. }
    split; [|split].
    - split; auto. split; auto. simpl. intros sid Hi. apply Hc in Hi. destruct Hi as [Hi _].
      apply Hcand in Hi. destruct Sim as [K _]. rewrite <- K. tauto.
    - apply (exact_at_sim _ (st_sets st)); auto. intros sid s Ls. simpl. split.
      + intros Hi. apply Hc in Hi. destruct Hi as [_ [s' [Ls' M]]]. rewrite Ls in Ls'. inversion Ls'; subst. auto.
      + intros M _. apply Hc. split.
        * apply Hcand. split. eapply prune_set_sound; eauto. apply alookup_keys. eauto.
        * eauto.
    - intros sid x. rewrite (term_sim (st_sets st)); auto. unfold add_term, term. simpl.
      destruct (memN sid cands) eqn:Mc.
      + apply memN_In in Mc. destruct (alookup sid (st_sets st)) as [s|] eqn:Ls.
        * destruct (ep_matches st s d) eqn:M.
          -- assert (In sid c') by (apply Hc; split; eauto). apply memN_In in H. rewrite H. reflexivity.
          -- assert (~ In sid c').
             { intros Hi. apply Hc in Hi. destruct Hi as [_ [s' [Ls' M']]]. congruence. }
             apply memN_false in H. rewrite H. reflexivity.
        * destruct (memN sid c'); reflexivity.
      + assert (~ In sid c').
        { intros Hi. apply Hc in Hi. destruct Hi as [Hi _]. apply memN_In in Hi. congruence. }
        apply memN_false in H. rewrite H. reflexivity.
  Qed.

  Lemma In_aset : forall {A} k (v : A) l k' v', NoDup (map fst l) -> In (k', v') (aset k v l) ->
    (k' = k /\ v' = v) \/ (k' <> k /\ In (k', v') l).
  Proof.
    induction l as [|[a b] l IH]; simpl; intros k' v' ND H.
    - destruct H as [H|[]]. inversion H; auto.
    - inversion ND; subst. destruct (N.eqb k a) eqn:E; simpl in H.
      + apply N.eqb_eq in E. subst a. destruct H as [H|H].
        * inversion H; auto.
        * right. split; auto. intros ->. apply H2. apply in_map_iff. exists (k, v'). auto.
      + apply N.eqb_neq in E. destruct H as [H|H].
        * inversion H; subst. right. split; auto.
        * destruct (IH _ _ H3 H) as [?|[? ?]]; auto.
  Qed.

  Lemma In_adel : forall {A} k (l : list (N * A)) k' v', In (k', v') (adel k l) <-> In (k', v') l /\ k' <> k.
  Proof.
    intros. unfold adel. rewrite filter_In. simpl. rewrite negb_true_iff, N.eqb_neq. intuition.
  Qed.

  (* scan a (new or re-created) endpoint against all IP sets and store it *)
  Lemma insert_scanned : forall lab st1 new oldc F cn eid st2 new' evs,
    NoDup (map fst (st_eps st1)) -> ~ In eid (map fst (st_eps st1)) -> NoDup (map fst (st_sets st1)) ->
    SetsOK sup (st_sets st1) F cn ->
    (forall sid x, cn sid x = total (st_eps st1) (st_sets st1) sid x + old_term oldc sid x) ->
    (forall e d, In (e, d) (st_eps st1) -> ep_ok (st_sets st1) d /\ exact_at (lab e) (st_sets st1) d) ->
    (forall c, In c (e_nets new) -> wfc c) ->
    NoDup (map fst oldc) ->
    (forall sid ms, In (sid, ms) oldc -> exists s, alookup sid (st_sets st1) = Some s) ->
    scan_ep sup shuffle prune_set st1 new oldc = (st2, new', evs) ->
    exists F', apply_f F evs = Some F' /\ st_pars st2 = st_pars st1 /\
      GInvL sup (fun e => if N.eqb e eid then par_labels st1 else lab e) (set_ep st2 eid new') F'.
  Proof.
    intros lab st1 new oldc F cn eid st2 new' evs NDe Nin NDs OK Hcn Heps W NDo Ho H.
    assert (Pre : forall sid ms, In (sid, ms) oldc ->
              (exists s, alookup sid (st_sets st1) = Some s) /\ forall x, cnt x ms <= cn sid x).
    { intros sid ms Hi. split. eauto. intros x. rewrite Hcn. unfold old_term.
      rewrite (In_alookup _ _ _ NDo Hi). lia. }
    destruct (scan_ep_ok sup shuffle prune_ep prune_set shuffle_ok st1 new oldc F cn st2 new' evs NDs OK W NDo Pre H)
      as (Ee & Ep & Ss & (c' & Ed & Nc & Hc) & F' & Af & OK').
    destruct (scan_finish st1 new c' (st_sets st2) NDs W Ss Nc Hc) as (Ok' & Ex' & Ht).
    exists F'. split; auto. split; auto. subst new'.
    unfold GInvL. simpl. rewrite Ee.
    split. { apply NoDup_keys_aset; auto. }
    split. { destruct Ss as [K _]. rewrite <- K. auto. }
    split.
    - eapply SetsOK_ext; [|exact OK']. intros sid sx m Lx. simpl.
      rewrite total_aset_new; auto. rewrite Ht, Hcn, (total_sim (st_eps st1) (st_sets st1) (st_sets st2)); auto. lia.
    - intros e d Hi. apply In_aset in Hi; auto. destruct Hi as [[-> ->] | [Ne Hi]].
      + rewrite N.eqb_refl. auto.
      + apply N.eqb_neq in Ne. rewrite Ne. destruct (Heps e d Hi) as [A B]. split.
        * eapply ep_ok_sim; eauto.
        * eapply exact_at_sim; eauto.
  Qed.

  (* rescan an endpoint in place (updateParent) *)
  Lemma rescan_inplace : forall lab st st_a eid d F st2 d' evs,
    GInvL sup lab st F -> alookup eid (st_eps st) = Some d ->
    st_eps st_a = st_eps st -> st_sets st_a = st_sets st ->
    scan_ep sup shuffle prune_set st_a d (recalc st d) = (st2, d', evs) ->
    exists F', apply_f F evs = Some F' /\ st_pars st2 = st_pars st_a /\
      GInvL sup (fun e => if N.eqb e eid then par_labels st_a else lab e) (set_ep st2 eid d') F'.
  Proof.
    intros lab st st_a eid d F st2 d' evs (NDe & NDs & OK & Heps) Le Eeps Esets H.
    pose proof (alookup_In _ _ _ Le) as Ie.
    destruct (Heps eid d Ie) as [(Cnd & Csub & W) Xd].
    assert (NDo : NoDup (map fst (recalc st d))) by (rewrite map_fst_recalc; auto).
    assert (Pre : forall sid ms, In (sid, ms) (recalc st d) ->
              (exists s, alookup sid (st_sets st_a) = Some s) /\
              forall x, cnt x ms <= total (st_eps st) (st_sets st_a) sid x).
    { rewrite Esets. intros sid ms Hi. pose proof (In_alookup _ _ _ NDo Hi) as La.
      assert (Hc : In sid (e_cache d)).
      { rewrite <- map_fst_recalc with (st := st). apply in_map_iff. exists (sid, ms). auto. }
      split. { apply alookup_keys. auto. }
      intros x. pose proof (old_term_recalc st d sid x) as Ot. unfold old_term in Ot. rewrite La in Ot.
      rewrite Ot. eapply total_ge_term; eauto. }
    rewrite <- Esets in NDs, OK.
    destruct (scan_ep_ok sup shuffle prune_ep prune_set shuffle_ok st_a d (recalc st d) F _ st2 d' evs NDs OK W NDo Pre H)
      as (Ee & Ep & Ss & (c' & Ed & Nc & Hc) & F' & Af & OK').
    destruct (scan_finish st_a d c' (st_sets st2) NDs W Ss Nc Hc) as (Ok' & Ex' & Ht).
    exists F'. split; auto. split; auto. subst d'.
    unfold GInvL. simpl. rewrite Ee, Eeps.
    split. { apply NoDup_keys_aset; auto. }
    split. { destruct Ss as [K _]. rewrite <- K. auto. }
    split.
    - eapply SetsOK_ext; [|exact OK']. intros sid sx m Lx. simpl.
      pose proof (total_aset_in (st_eps st) (st_sets st2) eid d (with_cache d c') sid m NDe Le) as T.
      rewrite Ht, old_term_recalc.
      rewrite (total_sim (st_eps st) (st_sets st_a) (st_sets st2)) in T; auto.
      rewrite (term_sim (st_sets st_a) (st_sets st2) d) in T; auto.
      rewrite Esets in *.
      pose proof (total_ge_term (st_eps st) (st_sets st) eid d sid m Ie). lia.
    - intros e d0 Hi. apply In_aset in Hi; auto. destruct Hi as [[-> ->] | [Ne Hi]].
      + rewrite N.eqb_refl. auto.
      + apply N.eqb_neq in Ne. rewrite Ne. destruct (Heps e d0 Hi) as [A B]. rewrite Esets in Ss. split.
        * eapply ep_ok_sim; eauto.
        * eapply exact_at_sim; eauto.
  Qed.

  Lemma GInvL_ext : forall lab lab' st F,
    (forall e d p, In (e, d) (st_eps st) -> In p (e_parents d) -> lab e p = lab' e p) ->
    GInvL sup lab st F -> GInvL sup lab' st F.
  Proof.
    intros lab lab' st F E (A & B & C & D). split; auto. split; auto. split; auto.
    intros e d Hi. destruct (D e d Hi) as [D1 D2]. split; auto.
    eapply exact_at_ext; [|exact D2]. intros p Hp. eapply E; eauto.
  Qed.

  (* GInvL does not look at the parent labels stored in the state *)
  Lemma GInvL_pars : forall lab st F p, GInvL sup lab st F -> GInvL sup lab (set_pars st p) F.
  Proof. intros lab st F p H. exact H. Qed.

  (* ---------------------------------------------------------------- UpdateEndpointOrSet *)
  Lemma update_ep_ok : forall st F eid l nets ports parents st' evs,
    GInv sup st F -> (forall c, In c nets -> wfc c) ->
    update_ep sup shuffle prune_set st eid l nets ports parents = (st', evs) ->
    exists F', apply_f F evs = Some F' /\ GInv sup st' F'.
  Proof.
    intros st F eid l nets ports parents st' evs G W H. unfold update_ep in H.
    destruct G as (NDe & NDs & OK & Heps).
    destruct (alookup eid (st_eps st)) as [old|] eqn:Le.
    - destruct (ep_equal old (mkEp l nets ports parents [])).
      { inversion H; subst. exists F. split; auto. exact (conj NDe (conj NDs (conj OK Heps))). }
      destruct (scan_ep sup shuffle prune_set (set_eps st (adel eid (st_eps st))) (mkEp l nets ports parents [])
                        (recalc st old)) as [[st2 new'] evs2] eqn:Es.
      inversion H; subst; clear H.
      pose proof (alookup_In _ _ _ Le) as Ie. destruct (Heps eid old Ie) as [(Cnd & Csub & _) _].
      assert (A1 : NoDup (map fst (adel eid (st_eps st)))) by (apply NoDup_keys_adel; auto).
      assert (A2 : ~ In eid (map fst (adel eid (st_eps st)))).
      { intros Hi. apply keys_adel in Hi. destruct Hi. congruence. }
      assert (A3 : forall sid x, total (st_eps st) (st_sets st) sid x =
                     total (adel eid (st_eps st)) (st_sets st) sid x + old_term (recalc st old) sid x).
      { intros sid x. rewrite old_term_recalc. symmetry. apply total_adel; auto. }
      assert (A4 : forall e d, In (e, d) (adel eid (st_eps st)) ->
                     ep_ok (st_sets st) d /\ exact_at (par_labels st) (st_sets st) d).
      { intros e d Hi. apply In_adel in Hi. destruct Hi as [Hi _]. exact (Heps e d Hi). }
      assert (A5 : NoDup (map fst (recalc st old))) by (rewrite map_fst_recalc; auto).
      assert (A6 : forall sid ms, In (sid, ms) (recalc st old) -> exists s, alookup sid (st_sets st) = Some s).
      { intros sid ms Hi. apply alookup_keys. apply Csub. rewrite <- (map_fst_recalc st).
        apply in_map_iff. exists (sid, ms). auto. }
      destruct (insert_scanned (fun _ => par_labels st) (set_eps st (adel eid (st_eps st)))
                  (mkEp l nets ports parents []) (recalc st old) F (total (st_eps st) (st_sets st)) eid st2 new' evs
                  A1 A2 NDs OK A3 A4 W A5 A6 Es) as [F' [Af [Ep G']]].
      exists F'. split; auto. unfold GInv. eapply GInvL_ext; [|exact G'].
      intros e d p _ _. cbv beta. unfold par_labels.
      change (st_pars (set_ep st2 eid new')) with (st_pars st2). simpl in Ep. rewrite Ep.
      destruct (N.eqb e eid); reflexivity.
    - destruct (scan_ep sup shuffle prune_set st (mkEp l nets ports parents []) []) as [[st2 new'] evs2] eqn:Es.
      inversion H; subst; clear H.
      assert (A2 : ~ In eid (map fst (st_eps st))).
      { intros Hi. apply alookup_keys in Hi. destruct Hi. congruence. }
      assert (A3 : forall sid x, total (st_eps st) (st_sets st) sid x =
                     total (st_eps st) (st_sets st) sid x + old_term [] sid x).
      { intros sid x. unfold old_term. simpl. lia. }
      assert (A5 : NoDup (map fst (@nil (N * list member)))) by constructor.
      assert (A6 : forall sid ms, In (sid, ms) (@nil (N * list member)) -> exists s, alookup sid (st_sets st) = Some s).
      { intros sid ms []. }
      destruct (insert_scanned (fun _ => par_labels st) st (mkEp l nets ports parents []) [] F
                  (total (st_eps st) (st_sets st)) eid st2 new' evs NDe A2 NDs OK A3 Heps W A5 A6 Es)
        as [F' [Af [Ep G']]].
      exists F'. split; auto. unfold GInv. eapply GInvL_ext; [|exact G'].
      intros e d p _ _. cbv beta. unfold par_labels.
      change (st_pars (set_ep st2 eid new')) with (st_pars st2). rewrite Ep.
      destruct (N.eqb e eid); reflexivity.
  Qed.

  (* ---------------------------------------------------------------- DeleteEndpoint *)
  Lemma delete_ep_ok : forall st F eid st' evs,
    GInv sup st F -> delete_ep sup shuffle st eid = (st', evs) ->
    exists F', apply_f F evs = Some F' /\ GInv sup st' F'.
  Proof.
    intros st F eid st' evs G H. unfold delete_ep in H.
    destruct G as (NDe & NDs & OK & Heps).
    destruct (alookup eid (st_eps st)) as [old|] eqn:Le.
    2:{ inversion H; subst. exists F. split; auto. exact (conj NDe (conj NDs (conj OK Heps))). }
    destruct (fold_left (scan_del_step sup shuffle) (shuffle st _ (recalc st old)) (tick st, [])) as [st1 evs1] eqn:Ef.
    inversion H; subst; clear H.
    pose proof (alookup_In _ _ _ Le) as Ie. destruct (Heps eid old Ie) as [(Cnd & Csub & _) _].
    assert (NDo : NoDup (map fst (recalc st old))) by (rewrite map_fst_recalc; auto).
    assert (Po : Permutation (recalc st old) (shuffle st _ (recalc st old))) by (apply shuffle_ok).
    assert (NDo' : NoDup (map fst (shuffle st _ (recalc st old)))).
    { eapply Permutation_NoDup; [apply Permutation_map; exact Po | auto]. }
    assert (Pre : forall sid ms, In (sid, ms) (shuffle st _ (recalc st old)) ->
              (exists s, alookup sid (st_sets (tick st)) = Some s) /\
              forall x, cnt x ms <= total (st_eps st) (st_sets st) sid x).
    { intros sid ms Hi. apply Permutation_sym in Po. eapply Permutation_in in Hi; eauto.
      pose proof (In_alookup _ _ _ NDo Hi) as La.
      assert (Hc : In sid (e_cache old)).
      { rewrite <- map_fst_recalc with (st := st). apply in_map_iff. exists (sid, ms). auto. }
      split. { apply alookup_keys. auto. }
      intros x. pose proof (old_term_recalc st old sid x) as Ot. unfold old_term in Ot. rewrite La in Ot.
      rewrite Ot. eapply total_ge_term; eauto. }
    destruct (scan_del_fold sup shuffle shuffle_ok _ (tick st) [] F _ st1 evs NDo' OK Pre Ef)
      as (Ee & Ep & Ss & ev1 & F' & Ev & Af & OK').
    simpl in Ev. subst ev1. simpl in Ee, Ep, Ss.
    exists F'. split; auto. unfold GInv, GInvL. simpl. rewrite Ee.
    split. { apply NoDup_keys_adel; auto. }
    split. { destruct Ss as [K _]. rewrite <- K. auto. }
    split.
    - eapply SetsOK_ext; [|exact OK']. intros sid sx m Lx. simpl.
      assert (old_term (shuffle st _ (recalc st old)) sid m = old_term (recalc st old) sid m).
      { unfold old_term. rewrite (alookup_perm (recalc st old)); auto. }
      rewrite H, old_term_recalc.
      pose proof (total_adel (st_eps st) (st_sets st) eid old sid m NDe Le).
      rewrite (total_sim _ (st_sets st) (st_sets st1)); auto. lia.
    - intros e d Hi. apply In_adel in Hi. destruct Hi as [Hi _]. destruct (Heps e d Hi) as [A B]. split.
      + eapply ep_ok_sim; eauto.
      + eapply exact_at_sim; eauto.
        eapply exact_at_ext; [|exact B]. intros p _. unfold par_labels. simpl. rewrite Ep. reflexivity.
  Qed.
End Ops.
