(* C04 — proofs (see also Sets.v, Refs.v, Inv.v) *)
From Coq Require Import List NArith Arith Bool Lia.
From Verif.Common Require Import Labels Prefix.
From Verif.C04 Require Import Model Spec.
Import ListNotations.

Lemma protocol_from_cases : forall e, protocol_from e = P_UDP \/ protocol_from e = P_SCTP \/ protocol_from e = P_TCP.
Proof. intros e. unfold protocol_from. destruct (matches_proto P_UDP e); auto. destruct (matches_proto P_SCTP e); auto. Qed.

Lemma protocol_from_not_none : forall e, protocol_from e <> P_NONE.
Proof. intros e. destruct (protocol_from_cases e) as [H|[H|H]]; rewrite H; discriminate. Qed.
