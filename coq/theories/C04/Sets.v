(* C04 — the overlap suppressor at the level of sets of CIDRs: which stored prefixes are "visible"
   (not strictly inside another stored prefix) and how Add / Remove change that set. *)
From Coq Require Import List NArith Arith Bool Lia Permutation.
From Verif.Common Require Import Labels Prefix.
From Verif.C04 Require Import Model.
Import ListNotations.

(* ------------------------------------------------------------------ decidable equalities *)

Lemma fam_eqb_eq : forall a b, fam_eqb a b = true <-> a = b.
Proof. destruct a, b; simpl; split; intros; congruence. Qed.
Lemma fam_eqb_refl : forall a, fam_eqb a a = true.
Proof. destruct a; reflexivity. Qed.

Lemma cidr_eqb_eq : forall a b, cidr_eqb a b = true <-> a = b.
Proof.
  intros [f p] [g q]. unfold cidr_eqb. simpl. rewrite andb_true_iff, fam_eqb_eq, prefix_eqb_eq.
  split. intros [-> ->]; auto. intros H; inversion H; auto.
Qed.
Lemma cidr_eqb_refl : forall a, cidr_eqb a a = true.
Proof. intros. apply cidr_eqb_eq. reflexivity. Qed.
Lemma cidr_eqb_neq : forall a b, cidr_eqb a b = false <-> a <> b.
Proof.
  intros a b. destruct (cidr_eqb a b) eqn:E.
  - apply cidr_eqb_eq in E. split; [discriminate|contradiction].
  - split; auto. intros _ H. apply cidr_eqb_eq in H. congruence.
Qed.
Lemma cidr_eq_dec : forall a b : cidr, {a = b} + {a <> b}.
Proof. intros. destruct (cidr_eqb a b) eqn:E; [left; apply cidr_eqb_eq | right; apply cidr_eqb_neq]; auto. Qed.

Lemma member_eqb_eq : forall a b, member_eqb a b = true <-> a = b.
Proof.
  intros [c|f a p q] [c'|f' a' p' q']; simpl; try (split; [discriminate | intros H; discriminate]).
  - rewrite cidr_eqb_eq. split; intros H; [subst|inversion H]; auto.
  - rewrite !andb_true_iff, fam_eqb_eq, !N.eqb_eq. split.
    + intros [[[-> ->] ->] ->]. reflexivity.
    + intros H. inversion H. auto.
Qed.
Lemma member_eqb_refl : forall a, member_eqb a a = true.
Proof. intros. apply member_eqb_eq. reflexivity. Qed.
Lemma member_eqb_neq : forall a b, member_eqb a b = false <-> a <> b.
Proof.
  intros a b. destruct (member_eqb a b) eqn:E.
  - apply member_eqb_eq in E. split; [discriminate|contradiction].
  - split; auto. intros _ H. apply member_eqb_eq in H. congruence.
Qed.
Lemma member_eq_dec : forall a b : member, {a = b} + {a <> b}.
Proof. intros. destruct (member_eqb a b) eqn:E; [left; apply member_eqb_eq | right; apply member_eqb_neq]; auto. Qed.

(* ------------------------------------------------------------------ covers on well-formed CIDRs *)

Definition wfc (c : cidr) : Prop := wfp (width (cfam c)) (cpre c).

Lemma ccovers_refl : forall c, wfc c -> ccovers c c = true.
Proof. intros c H. unfold ccovers. rewrite fam_eqb_refl. simpl. apply covers_refl. exact H. Qed.

Lemma ccovers_fam : forall a b, ccovers a b = true -> cfam a = cfam b.
Proof. intros a b H. unfold ccovers in H. apply andb_true_iff in H. apply fam_eqb_eq. tauto. Qed.

Lemma ccovers_trans : forall a b c, wfc a -> wfc b -> wfc c ->
  ccovers a b = true -> ccovers b c = true -> ccovers a c = true.
Proof.
  intros [f p] [g q] [h r] Ha Hb Hc H1 H2.
  pose proof (ccovers_fam _ _ H1) as F1. pose proof (ccovers_fam _ _ H2) as F2. simpl in *. subst f g.
  unfold ccovers, wfc in *. simpl in *. rewrite fam_eqb_refl in *. simpl in *.
  apply (covers_trans _ p q r); auto.
Qed.

Lemma ccovers_antisym : forall a b, wfc a -> wfc b -> ccovers a b = true -> ccovers b a = true -> a = b.
Proof.
  intros [f p] [g q] Ha Hb H1 H2.
  pose proof (ccovers_fam _ _ H1) as F1. simpl in F1. subst g.
  unfold ccovers, wfc in *. simpl in *. rewrite fam_eqb_refl in *. simpl in *.
  f_equal. eapply covers_antisym; eauto.
Qed.

(* two CIDRs covering a common one are comparable *)
Lemma ccovers_chain : forall a b c, wfc a -> wfc b -> wfc c ->
  ccovers a c = true -> ccovers b c = true -> ccovers a b = true \/ ccovers b a = true.
Proof.
  intros [f p] [g q] [h r] Ha Hb Hc H1 H2.
  pose proof (ccovers_fam _ _ H1) as F1. pose proof (ccovers_fam _ _ H2) as F2. simpl in *. subst f g.
  unfold ccovers, wfc in *. simpl in *. rewrite fam_eqb_refl in *. simpl in *.
  destruct (le_lt_dec (plen p) (plen q)).
  - left. eapply covers_chain; eauto.
  - right. eapply covers_chain; eauto. lia.
Qed.

Lemma cstrict_spec : forall a b, cstrict a b = true <-> ccovers a b = true /\ a <> b.
Proof.
  intros. unfold cstrict. rewrite andb_true_iff, negb_true_iff, cidr_eqb_neq. tauto.
Qed.

(* ------------------------------------------------------------------ visible elements of a set *)

Definition wfset (T : list cidr) : Prop := forall c, In c T -> wfc c.

(* c is stored and no other stored prefix covers it *)
Definition vis (T : list cidr) (c : cidr) : Prop :=
  In c T /\ forall r, In r T -> ccovers r c = true -> r = c.

Lemma t_covers_spec : forall T c, t_covers T c = true <-> exists p, In p T /\ ccovers p c = true.
Proof. intros. unfold t_covers. rewrite existsb_exists. tauto. Qed.

Lemma t_covers_false : forall T c p, t_covers T c = false -> In p T -> ccovers p c = false.
Proof.
  intros T c p H Hp. destruct (ccovers p c) eqn:E; auto.
  assert (t_covers T c = true) by (apply t_covers_spec; eauto). congruence.
Qed.

Lemma In_t_update : forall T c x, In x (t_update T c) <-> In x T \/ x = c.
Proof.
  intros. unfold t_update. destruct (existsb (cidr_eqb c) T) eqn:E.
  - apply existsb_exists in E. destruct E as [y [Hy E]]. apply cidr_eqb_eq in E. subst y.
    split; auto. intros [H|H]; subst; auto.
  - rewrite in_app_iff. simpl. intuition.
Qed.

Lemma NoDup_snoc : forall {A} (l : list A) x, NoDup l -> ~ In x l -> NoDup (l ++ [x]).
Proof.
  induction l as [|a l IH]; simpl; intros x H N.
  - constructor. intros []. constructor.
  - inversion H; subst. constructor.
    + rewrite in_app_iff. simpl. intros [Hi|[Hi|[]]]; [auto | subst; apply N; auto].
    + apply IH; auto.
Qed.

Lemma NoDup_t_update : forall T c, NoDup T -> NoDup (t_update T c).
Proof.
  intros. unfold t_update. destruct (existsb (cidr_eqb c) T) eqn:E; auto.
  apply NoDup_snoc; auto.
  intros Hin. assert (existsb (cidr_eqb c) T = true).
  { apply existsb_exists. exists c. split; auto. apply cidr_eqb_refl. }
  congruence.
Qed.

Lemma In_t_delete : forall T c x, In x (t_delete T c) <-> In x T /\ x <> c.
Proof.
  intros. unfold t_delete. rewrite filter_In, negb_true_iff, cidr_eqb_neq. tauto.
Qed.

Lemma NoDup_t_delete : forall T c, NoDup T -> NoDup (t_delete T c).
Proof. intros. unfold t_delete. apply NoDup_filter. auto. Qed.

Lemma In_t_closest : forall T c q,
  In q (t_closest T c) <->
  In q T /\ cstrict c q = true /\ forall r, In r T -> cstrict c r = true -> cstrict r q = true -> False.
Proof.
  intros. unfold t_closest. rewrite filter_In, andb_true_iff, negb_true_iff. split.
  - intros (H1 & H2 & H3). split; auto. split; auto. intros r Hr A B.
    assert (existsb (fun r => cstrict c r && cstrict r q) T = true).
    { apply existsb_exists. exists r. rewrite A, B. auto. }
    congruence.
  - intros (H1 & H2 & H3). split; auto. split; auto.
    destruct (existsb (fun r => cstrict c r && cstrict r q) T) eqn:E; auto.
    apply existsb_exists in E. destruct E as [r [Hr E]]. apply andb_true_iff in E. destruct E.
    exfalso. eauto.
Qed.

(* --- Add --- *)

(* adding a prefix that is already covered changes nothing visible *)
Lemma vis_add_covered : forall T c, wfset T -> wfc c -> ~ In c T -> t_covers T c = true ->
  forall x, vis (t_update T c) x <-> vis T x.
Proof.
  intros T c WT Wc Nin Cov x. apply t_covers_spec in Cov. destruct Cov as [p [Hp Cp]].
  assert (p <> c) by (intros ->; contradiction).
  unfold vis. split.
  - intros [Hx Hm]. apply In_t_update in Hx. destruct Hx as [Hx | ->].
    + split; auto. intros r Hr Cr. apply Hm; auto. apply In_t_update. auto.
    + exfalso. apply H. apply Hm; auto. apply In_t_update. auto.
  - intros [Hx Hm]. split. apply In_t_update; auto.
    intros r Hr Cr. apply In_t_update in Hr. destruct Hr as [Hr | ->]; auto.
    (* c covers x, p covers c, so p covers x, so p = x; then x covers c and c covers x *)
    assert (Px : ccovers p x = true) by (eapply ccovers_trans; eauto).
    assert (p = x) by (apply Hm; auto). subst p.
    exfalso. apply Nin. assert (x = c) by (apply ccovers_antisym; auto). subst. auto.
Qed.

(* adding an uncovered prefix: it becomes visible and hides what it covers *)
Lemma vis_add_uncovered : forall T c, wfset T -> wfc c -> ~ In c T -> t_covers T c = false ->
  forall x, vis (t_update T c) x <-> x = c \/ (vis T x /\ ccovers c x = false).
Proof.
  intros T c WT Wc Nin Cov x. unfold vis. split.
  - intros [Hx Hm]. apply In_t_update in Hx. destruct Hx as [Hx | ->]; auto.
    right. split.
    + split; auto. intros r Hr Cr. apply Hm; auto. apply In_t_update; auto.
    + destruct (ccovers c x) eqn:E; auto.
      assert (c = x) by (apply Hm; auto; apply In_t_update; auto). subst. contradiction.
  - intros [-> | [[Hx Hm] Nc]].
    + split. apply In_t_update; auto.
      intros r Hr Cr. apply In_t_update in Hr. destruct Hr as [Hr | ->]; auto.
      pose proof (t_covers_false _ _ _ Cov Hr). congruence.
    + split. apply In_t_update; auto.
      intros r Hr Cr. apply In_t_update in Hr. destruct Hr as [Hr | ->]; auto. congruence.
Qed.

(* ... and what it hides is exactly ClosestDescendants *)
Lemma closest_after_add : forall T c, wfset T -> wfc c -> ~ In c T -> t_covers T c = false ->
  forall q, In q (t_closest (t_update T c) c) <-> vis T q /\ ccovers c q = true.
Proof.
  intros T c WT Wc Nin Cov q. rewrite In_t_closest. split.
  - intros (Hq & Sq & Hm). apply cstrict_spec in Sq. destruct Sq as [Cq Nq].
    apply In_t_update in Hq. destruct Hq as [Hq | ->]; [|congruence].
    split; auto. split; auto.
    intros r Hr Cr.
    destruct (ccovers_chain r c q) as [A|A]; auto.
    + pose proof (t_covers_false _ _ _ Cov Hr). congruence.
    + destruct (cidr_eq_dec r q) as [|Ne]; auto. exfalso.
      apply (Hm r). apply In_t_update; auto.
      apply cstrict_spec. split; auto. intros ->. contradiction.
      apply cstrict_spec. auto.
  - intros [[Hq Hm] Cq]. split. apply In_t_update; auto.
    split. apply cstrict_spec. split; auto. intros ->. contradiction.
    intros r Hr A B. apply cstrict_spec in A. apply cstrict_spec in B. destruct A as [A1 A2], B as [B1 B2].
    apply In_t_update in Hr. destruct Hr as [Hr | ->]; [|congruence].
    apply B2. apply Hm; auto.
Qed.

(* --- Remove --- *)

Lemma vis_remove_covered : forall T c, wfset T -> In c T -> t_covers (t_delete T c) c = true ->
  forall x, vis (t_delete T c) x <-> vis T x.
Proof.
  intros T c WT Hc Cov x. apply t_covers_spec in Cov. destruct Cov as [p [Hp Cp]].
  apply In_t_delete in Hp. destruct Hp as [Hp Np].
  unfold vis. split.
  - intros [Hx Hm]. apply In_t_delete in Hx. destruct Hx as [Hx Nx]. split; auto.
    intros r Hr Cr. destruct (cidr_eq_dec r c) as [->|Ne].
    + (* c covers x, p covers c: p covers x, p = x, so x covers c: x = c *)
      assert (ccovers p x = true) by (eapply ccovers_trans; eauto).
      assert (p = x) by (apply Hm; auto; apply In_t_delete; auto). subst p.
      exfalso. apply Nx. apply ccovers_antisym; auto.
    + apply Hm; auto. apply In_t_delete; auto.
  - intros [Hx Hm]. assert (x <> c).
    { intros ->. apply Np. apply Hm; auto. }
    split. apply In_t_delete; auto.
    intros r Hr Cr. apply In_t_delete in Hr. destruct Hr. auto.
Qed.

Lemma vis_removed_was_visible : forall T c, wfset T -> In c T -> t_covers (t_delete T c) c = false -> vis T c.
Proof.
  intros T c WT Hc Cov. split; auto. intros r Hr Cr.
  destruct (cidr_eq_dec r c); auto.
  assert (In r (t_delete T c)) by (apply In_t_delete; auto).
  pose proof (t_covers_false _ _ _ Cov H). congruence.
Qed.

Lemma vis_remove_uncovered : forall T c, wfset T -> In c T -> t_covers (t_delete T c) c = false ->
  forall x, vis (t_delete T c) x <-> (vis T x /\ x <> c) \/ In x (t_closest T c).
Proof.
  intros T c WT Hc Cov x. rewrite In_t_closest. unfold vis. split.
  - intros [Hx Hm]. apply In_t_delete in Hx. destruct Hx as [Hx Nx].
    destruct (ccovers c x) eqn:Ccx.
    + right. split; auto. split. apply cstrict_spec; auto.
      intros r Hr A B. apply cstrict_spec in A. apply cstrict_spec in B. destruct A as [A1 A2], B as [B1 B2].
      apply B2. apply Hm; auto. apply In_t_delete; auto.
    + left. split; auto. split; auto. intros r Hr Cr.
      destruct (cidr_eq_dec r c) as [->|Ne]; [congruence|].
      apply Hm; auto. apply In_t_delete; auto.
  - intros [[[Hx Hm] Nx] | (Hx & Sx & Hm)].
    + split. apply In_t_delete; auto. intros r Hr Cr. apply In_t_delete in Hr. destruct Hr; auto.
    + apply cstrict_spec in Sx. destruct Sx as [Cx Nx].
      split. apply In_t_delete; auto.
      intros r Hr Cr. apply In_t_delete in Hr. destruct Hr as [Hr Nr].
      destruct (ccovers_chain r c x) as [A|A]; auto.
      * assert (In r (t_delete T c)) by (apply In_t_delete; auto).
        pose proof (t_covers_false _ _ _ Cov H). congruence.
      * destruct (cidr_eq_dec r x); auto. exfalso. apply (Hm r); auto; apply cstrict_spec; auto.
Qed.

(* what Remove re-advertises was hidden before *)
Lemma closest_not_visible : forall T c q, In c T -> In q (t_closest T c) -> ~ vis T q.
Proof.
  intros T c q Hc Hq [_ Hm]. apply In_t_closest in Hq. destruct Hq as (_ & Sq & _).
  apply cstrict_spec in Sq. destruct Sq as [Cq Nq]. apply Nq. apply Hm; auto.
Qed.

Lemma NoDup_t_closest : forall T c, NoDup T -> NoDup (t_closest T c).
Proof. intros. unfold t_closest. apply NoDup_filter. auto. Qed.

(* visible elements form an antichain and cover everything stored *)
Lemma vis_antichain : forall T a b, vis T a -> vis T b -> ccovers a b = true -> a = b.
Proof. intros T a b [Ha _] [_ Hb] C. apply Hb; auto. Qed.

Lemma vis_covers_all : forall T, wfset T -> forall c, In c T -> exists v, vis T v /\ ccovers v c = true.
Proof.
  (* induction on the prefix length of c: a strictly covering stored prefix is shorter *)
  intros T WT.
  assert (forall n c, (plen (cpre c) <= n)%nat -> In c T -> exists v, vis T v /\ ccovers v c = true).
  { induction n; intros c Hn Hc.
    - exists c. split; [|apply ccovers_refl; auto]. split; auto. intros r Hr Cr.
      apply ccovers_antisym; auto.
      pose proof (ccovers_fam _ _ Cr) as F.
      unfold ccovers in *. rewrite F in *. rewrite fam_eqb_refl in *. simpl in *.
      pose proof (covers_len _ _ _ Cr).
      assert (plen (cpre r) = plen (cpre c)) by lia.
      apply covers_same_len in Cr; auto; try (rewrite <- F; apply WT; auto); try (apply WT; auto).
      rewrite Cr. apply covers_refl. apply WT; auto.
    - destruct (existsb (fun r => cstrict r c) T) eqn:E.
      + apply existsb_exists in E. destruct E as [r [Hr Sr]]. apply cstrict_spec in Sr. destruct Sr as [Cr Nr].
        assert ((plen (cpre r) <= n)%nat).
        { pose proof (ccovers_fam _ _ Cr) as F.
          assert (L : (plen (cpre r) <= plen (cpre c))%nat).
          { unfold ccovers in Cr. apply andb_true_iff in Cr. destruct Cr as [_ Cr]. eapply covers_len; eauto. }
          destruct (Nat.eq_dec (plen (cpre r)) (plen (cpre c))) as [El|]; [|lia].
          exfalso. apply Nr.
          destruct r as [f p], c as [g q]. simpl in *. subst g. f_equal.
          unfold ccovers in Cr. simpl in Cr. rewrite fam_eqb_refl in Cr. simpl in Cr.
          eapply covers_same_len; eauto. apply (WT _ Hr). apply (WT _ Hc). }
        destruct (IHn r H Hr) as [v [Hv Cv]]. exists v. split; auto.
        eapply ccovers_trans; eauto. destruct Hv as [Hv _]. auto.
      + exists c. split; [|apply ccovers_refl; auto]. split; auto. intros r Hr Cr.
        destruct (cidr_eq_dec r c); auto.
        assert (existsb (fun r => cstrict r c) T = true).
        { apply existsb_exists. exists r. split; auto. apply cstrict_spec. auto. }
        congruence. }
  intros c Hc. eapply H; eauto.
Qed.
