(* C04 — reference counts of one IP set: incref / decref (lists) against the consumer's copy. *)
From Coq Require Import List NArith Arith Bool Lia Permutation.
From Verif.Common Require Import Labels Prefix.
From Verif.C04 Require Import Model Spec Sets Refs.
Import ListNotations.
Local Open Scope nat_scope.

Definition rc_ok (rc : list (member * nat)) : Prop :=
  NoDup (map fst rc) /\ forall m n, In (m, n) rc -> n > 0.

(* multiplicity of x in a contribution *)
Definition cnt (x : member) (ms : list member) : nat := length (filter (member_eqb x) ms).

Lemma cnt_cons : forall x m ms, cnt x (m :: ms) = (if member_eqb x m then 1 else 0) + cnt x ms.
Proof. intros. unfold cnt. simpl. destruct (member_eqb x m); reflexivity. Qed.
Lemma cnt_nil : forall x, cnt x [] = 0.
Proof. reflexivity. Qed.
Lemma cnt_pos_In : forall x ms, cnt x ms > 0 <-> In x ms.
Proof.
  intros. unfold cnt. split.
  - intros H. destruct (filter (member_eqb x) ms) as [|y l] eqn:E; simpl in H; [lia|].
    assert (In y (filter (member_eqb x) ms)) by (rewrite E; left; auto).
    apply filter_In in H0. destruct H0 as [Hy Ey]. apply member_eqb_eq in Ey. subst. auto.
  - intros H. assert (In x (filter (member_eqb x) ms)).
    { apply filter_In. split; auto. apply member_eqb_refl. }
    destruct (filter (member_eqb x) ms); simpl in *; [contradiction | lia].
Qed.

Lemma rc_get_set : forall rc m k x, rc_get (rc_set rc m k) x = if member_eqb x m then k else rc_get rc x.
Proof.
  induction rc as [|[m' n'] rc IH]; simpl; intros m k x.
  - destruct (member_eqb x m); reflexivity.
  - destruct (member_eqb m m') eqn:E; simpl.
    + apply member_eqb_eq in E. subst m'. destruct (member_eqb x m); reflexivity.
    + destruct (member_eqb x m') eqn:E2.
      * apply member_eqb_eq in E2. subst m'. destruct (member_eqb x m) eqn:E3; auto.
        apply member_eqb_eq in E3. subst. rewrite member_eqb_refl in E. discriminate.
      * apply IH.
Qed.

Lemma rc_get_del : forall rc m x, rc_get (rc_del rc m) x = if member_eqb x m then 0 else rc_get rc x.
Proof.
  induction rc as [|[m' n'] rc IH]; simpl; intros m x.
  - destruct (member_eqb x m); reflexivity.
  - destruct (member_eqb m m') eqn:E; simpl.
    + apply member_eqb_eq in E. subst m'. rewrite IH. destruct (member_eqb x m); reflexivity.
    + rewrite IH. destruct (member_eqb x m') eqn:E2; auto.
      apply member_eqb_eq in E2. subst m'. destruct (member_eqb x m) eqn:E3; auto.
      apply member_eqb_eq in E3. subst. rewrite member_eqb_refl in E. discriminate.
Qed.

Lemma keys_rc_set : forall rc m k, exists pre,
  (map fst (rc_set rc m k) = map fst rc /\ In m (map fst rc)) \/
  (map fst (rc_set rc m k) = map fst rc ++ [m] /\ ~ In m (map fst rc) /\ pre = tt).
Proof.
  intros. exists tt. induction rc as [|[m' n'] rc IH]; simpl.
  - right. auto.
  - destruct (member_eqb m m') eqn:E; simpl.
    + apply member_eqb_eq in E. subst. left. auto.
    + apply member_eqb_neq in E. destruct IH as [[A B]|[A [B _]]].
      * left. rewrite A. auto.
      * right. rewrite A. split; auto. split; auto. intros [?|?]; auto.
Qed.

Lemma In_keys_rc_set : forall rc m k x, In x (map fst (rc_set rc m k)) <-> x = m \/ In x (map fst rc).
Proof.
  intros. destruct (keys_rc_set rc m k) as [_ [[A B]|[A [B _]]]]; rewrite A.
  - split; auto. intros [->|?]; auto.
  - rewrite in_app_iff. simpl. intuition.
Qed.

Lemma In_rc_set : forall rc m k x n, In (x, n) (rc_set rc m k) -> (x = m /\ n = k) \/ In (x, n) rc.
Proof.
  induction rc as [|[m' n'] rc IH]; simpl; intros m k x n H.
  - destruct H as [H|[]]. inversion H; auto.
  - destruct (member_eqb m m'); simpl in H.
    + destruct H as [H|H]; auto. inversion H; auto.
    + destruct H as [H|H]; auto. apply IH in H. tauto.
Qed.

Lemma rc_ok_set : forall rc m k, rc_ok rc -> k > 0 -> rc_ok (rc_set rc m k).
Proof.
  intros rc m k [A B] Hk. split.
  - destruct (keys_rc_set rc m k) as [_ [[E _]|[E [N _]]]]; rewrite E; auto. apply NoDup_snoc; auto.
  - intros x n H. apply In_rc_set in H. destruct H as [[_ ->]|H]; eauto.
Qed.

Lemma rc_ok_del : forall rc m, rc_ok rc -> rc_ok (rc_del rc m).
Proof.
  intros rc m [A B]. split.
  - unfold rc_del. clear B. induction rc as [|[m' n'] rc IH]; simpl; auto.
    inversion A; subst. destruct (member_eqb m m'); simpl; auto. constructor; auto.
    intros Hi. apply H1. apply in_map_iff in Hi. destruct Hi as [[y ny] [Ey Hy]]. simpl in Ey. subst.
    apply filter_In in Hy. destruct Hy. apply in_map_iff. exists (m', ny). auto.
  - intros x n H. unfold rc_del in H. apply filter_In in H. destruct H. eauto.
Qed.

Lemma In_keys_rc_del : forall rc m x, In x (map fst (rc_del rc m)) <-> In x (map fst rc) /\ x <> m.
Proof.
  intros. unfold rc_del. rewrite !in_map_iff. split.
  - intros [[y n] [E H]]. simpl in E. subst. apply filter_In in H. destruct H as [H N]. simpl in N.
    apply negb_true_iff, member_eqb_neq in N. split; [exists (x, n); auto | congruence].
  - intros [[[y n] [E H]] N]. simpl in E. subst. exists (x, n). split; auto. apply filter_In. split; auto.
    simpl. apply negb_true_iff, member_eqb_neq. congruence.
Qed.

Lemma rc_get_pos : forall rc m, rc_ok rc -> (In m (map fst rc) <-> rc_get rc m > 0).
Proof.
  intros rc m [A B]. induction rc as [|[m' n'] rc IH]; simpl.
  - split; [tauto | lia].
  - inversion A; subst. destruct (member_eqb m m') eqn:E.
    + apply member_eqb_eq in E. subst. split; auto. intros _. apply (B m' n'). left; auto.
    + apply member_eqb_neq in E. rewrite <- IH; auto.
      * split; auto. intros [?|?]; auto. congruence.
      * intros x n H. apply (B x n). right; auto.
Qed.

(* one IP set: counts n, suppressor state and consumer's copy em all agree *)
Definition rcinv (sup : bool) (s : ipset) (em : list member) (n : member -> nat) : Prop :=
  rc_ok (s_rc s) /\ sinv sup (s_trie s) (map fst (s_rc s)) em /\ forall m, rc_get (s_rc s) m = n m.

Lemma rcinv_ext : forall sup s em n n', (forall m, n m = n' m) -> rcinv sup s em n -> rcinv sup s em n'.
Proof. intros sup s em n n' E (A & B & C). split; auto. split; auto. intros. rewrite C. auto. Qed.

Section Counts.
  Variable sup : bool.
  Variable sh : forall A : Type, list A -> list A.
  Hypothesis sh_ok : perm_ok sh.

  Lemma incref_ok : forall sid s m em n s' evs,
    rcinv sup s em n -> wfm m -> incref sup sh sid s m = (s', evs) ->
    same_static s s' /\ evs_on sid evs /\
    exists em', apply_local em evs = Some em' /\
                rcinv sup s' em' (fun x => n x + (if member_eqb x m then 1 else 0)).
  Proof.
    intros sid s m em n s' evs (Ok & Inv & Cn) Wm H. unfold incref in H.
    destruct (Nat.eqb (rc_get (s_rc s) m) 0) eqn:E0.
    - apply Nat.eqb_eq in E0.
      destruct (on_added sup sh sid s m) as [s1 e1] eqn:Ea. inversion H; subst; clear H.
      assert (Nin : ~ In m (map fst (s_rc s))) by (rewrite rc_get_pos; auto; lia).
      destruct (on_added_ok sup sh sh_ok _ _ _ _ _ _ _ Inv Nin Wm Ea) as (R & St & Ev & em' & Ap & Inv').
      split. { destruct St as (A&B&C&D). repeat split; simpl; auto. }
      split; auto. exists em'. split; auto.
      split; [|split]; simpl.
      + rewrite R. apply rc_ok_set; auto. lia.
      + rewrite R. eapply sinv_equiv; [|exact Inv']. intros x. rewrite In_keys_rc_set. simpl. intuition.
      + intros x. rewrite R, rc_get_set, E0, <- Cn. destruct (member_eqb x m) eqn:E; [|lia].
        apply member_eqb_eq in E. subst. lia.
    - apply Nat.eqb_neq in E0. inversion H; subst; clear H.
      split. { repeat split. }
      split. { intros e []. }
      exists em. split; auto.
      assert (Hin : In m (map fst (s_rc s))) by (rewrite rc_get_pos; auto; lia).
      split; [|split]; simpl.
      + apply rc_ok_set; auto. lia.
      + eapply sinv_equiv; [|exact Inv]. intros x. rewrite In_keys_rc_set. split; auto. intros [->|?]; auto.
      + intros x. rewrite rc_get_set, <- Cn. destruct (member_eqb x m) eqn:E; [|lia].
        apply member_eqb_eq in E. subst. lia.
  Qed.

  Lemma decref_ok : forall sid s m em n s' evs,
    rcinv sup s em n -> n m > 0 -> decref sup sh sid s m = (s', evs) ->
    same_static s s' /\ evs_on sid evs /\
    exists em', apply_local em evs = Some em' /\
                rcinv sup s' em' (fun x => n x - (if member_eqb x m then 1 else 0)).
  Proof.
    intros sid s m em n s' evs (Ok & Inv & Cn) Pos H. unfold decref in H.
    assert (Hin : In m (map fst (s_rc s))) by (rewrite rc_get_pos; auto; rewrite Cn; auto).
    destruct (Nat.eqb (rc_get (s_rc s) m) 1) eqn:E1.
    - apply Nat.eqb_eq in E1.
      destruct (on_removed sup sh sid s m) as [s1 e1] eqn:Ea. inversion H; subst; clear H.
      destruct (on_removed_ok sup sh sh_ok _ _ _ _ _ _ _ Inv Hin Ea) as (R & St & Ev & em' & Ap & Inv').
      split. { destruct St as (A&B&C&D). repeat split; simpl; auto. }
      split; auto. exists em'. split; auto.
      split; [|split]; simpl.
      + rewrite R. apply rc_ok_del; auto.
      + rewrite R. eapply sinv_equiv; [|exact Inv']. intros x. rewrite In_keys_rc_del, In_remove_member. tauto.
      + intros x. rewrite R, rc_get_del, <- Cn. destruct (member_eqb x m) eqn:E; [|lia].
        apply member_eqb_eq in E. subst. lia.
    - apply Nat.eqb_neq in E1.
      destruct (Nat.eqb (rc_get (s_rc s) m) 0) eqn:E0.
      { apply Nat.eqb_eq in E0. rewrite Cn in E0. lia. }
      apply Nat.eqb_neq in E0. inversion H; subst; clear H.
      split. { repeat split. }
      split. { intros e []. }
      exists em. split; auto.
      split; [|split]; simpl.
      + apply rc_ok_set; auto. lia.
      + eapply sinv_equiv; [|exact Inv]. intros x. rewrite In_keys_rc_set. split; auto. intros [->|?]; auto.
      + intros x. rewrite rc_get_set, <- Cn. destruct (member_eqb x m) eqn:E; [|lia].
        apply member_eqb_eq in E. subst. lia.
  Qed.

  Lemma incref_list_ok : forall sid ms s em n s' evs,
    rcinv sup s em n -> (forall m, In m ms -> wfm m) -> incref_list sup sh sid s ms = (s', evs) ->
    same_static s s' /\ evs_on sid evs /\
    exists em', apply_local em evs = Some em' /\ rcinv sup s' em' (fun x => n x + cnt x ms).
  Proof.
    induction ms as [|m ms IH]; simpl; intros s em n s' evs Inv W H.
    - inversion H; subst. split. apply same_static_refl. split. intros e [].
      exists em. split; auto. eapply rcinv_ext; [|exact Inv]. intros; simpl. rewrite cnt_nil. lia.
    - destruct (incref sup sh sid s m) as [s1 e1] eqn:E1.
      destruct (incref_list sup sh sid s1 ms) as [s2 e2] eqn:E2. inversion H; subst; clear H.
      destruct (incref_ok _ _ _ _ _ _ _ Inv (W m (or_introl eq_refl)) E1) as (St1 & Ev1 & em1 & Ap1 & Inv1).
      destruct (IH _ _ _ _ _ Inv1 (fun x Hx => W x (or_intror Hx)) E2) as (St2 & Ev2 & em2 & Ap2 & Inv2).
      split. eapply same_static_trans; eauto. split. apply evs_on_app; auto.
      exists em2. split. rewrite (apply_local_app _ _ _ _ Ap1). auto.
      eapply rcinv_ext; [|exact Inv2]. intros x. simpl. rewrite cnt_cons. lia.
  Qed.

  Lemma decref_list_ok : forall sid ms s em n s' evs,
    rcinv sup s em n -> (forall x, cnt x ms <= n x) -> decref_list sup sh sid s ms = (s', evs) ->
    same_static s s' /\ evs_on sid evs /\
    exists em', apply_local em evs = Some em' /\ rcinv sup s' em' (fun x => n x - cnt x ms).
  Proof.
    induction ms as [|m ms IH]; simpl; intros s em n s' evs Inv W H.
    - inversion H; subst. split. apply same_static_refl. split. intros e [].
      exists em. split; auto. eapply rcinv_ext; [|exact Inv]. intros; simpl. rewrite cnt_nil. lia.
    - destruct (decref sup sh sid s m) as [s1 e1] eqn:E1.
      destruct (decref_list sup sh sid s1 ms) as [s2 e2] eqn:E2. inversion H; subst; clear H.
      assert (Pm : n m > 0).
      { pose proof (W m) as Wm. rewrite cnt_cons, member_eqb_refl in Wm. lia. }
      destruct (decref_ok _ _ _ _ _ _ _ Inv Pm E1) as (St1 & Ev1 & em1 & Ap1 & Inv1).
      assert (W2 : forall x, cnt x ms <= n x - (if member_eqb x m then 1 else 0)).
      { intros x. pose proof (W x) as Wx. rewrite cnt_cons in Wx. lia. }
      destruct (IH _ _ _ _ _ Inv1 W2 E2) as (St2 & Ev2 & em2 & Ap2 & Inv2).
      split. eapply same_static_trans; eauto. split. apply evs_on_app; auto.
      exists em2. split. rewrite (apply_local_app _ _ _ _ Ap1). auto.
      eapply rcinv_ext; [|exact Inv2]. intros x. simpl. rewrite cnt_cons. lia.
  Qed.

  (* the "simulated deletion" of UpdateIPSet: every live member withdrawn once, counts untouched *)
  Lemma removed_list_ok : forall sid ms s L em s' evs,
    sinv sup (s_trie s) L em -> NoDup ms -> (forall m, In m ms -> In m L) ->
    removed_list sup sh sid s ms = (s', evs) ->
    s_rc s' = s_rc s /\ same_static s s' /\ evs_on sid evs /\
    exists em' L', apply_local em evs = Some em' /\ sinv sup (s_trie s') L' em' /\
                   forall x, In x L' <-> In x L /\ ~ In x ms.
  Proof.
    induction ms as [|m ms IH]; simpl; intros s L em s' evs Inv ND Sub H.
    - inversion H; subst. split; auto. split. apply same_static_refl. split. intros e [].
      exists em, L. split; auto. split; auto. intros; tauto.
    - destruct (on_removed sup sh sid s m) as [s1 e1] eqn:E1.
      destruct (removed_list sup sh sid s1 ms) as [s2 e2] eqn:E2. inversion H; subst; clear H.
      inversion ND; subst.
      destruct (on_removed_ok sup sh sh_ok _ _ _ _ _ _ _ Inv (Sub m (or_introl eq_refl)) E1)
        as (R1 & St1 & Ev1 & em1 & Ap1 & Inv1).
      assert (Sub1 : forall x, In x ms -> In x (remove_member m L)).
      { intros x Hx. apply In_remove_member. split; auto. intros ->. contradiction. }
      destruct (IH _ _ _ _ _ Inv1 H2 Sub1 E2) as (R2 & St2 & Ev2 & em2 & L2 & Ap2 & Inv2 & HL2).
      split. congruence. split. eapply same_static_trans; eauto. split. apply evs_on_app; auto.
      exists em2, L2. split. rewrite (apply_local_app _ _ _ _ Ap1). auto. split; auto.
      intros x. rewrite HL2, In_remove_member. split.
      + intros [[A B] C]. split; [auto|]. intros [E|E]; [subst; auto | auto].
      + intros [A B]. split; [split|]; auto; intros E; subst; apply B; auto.
  Qed.
End Counts.
