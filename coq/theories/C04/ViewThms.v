(* C04 — the theorems restated against the datastore view of Spec.v. *)
From Coq Require Import List NArith Arith Bool Lia Permutation.
From Verif.Common Require Import Labels Prefix.
From Verif.C04 Require Import Model Spec Sets Refs Counts Proofs State Inv Frame View Main.
Import ListNotations.
Local Open Scope nat_scope.

Lemma lookup_concat_ext : forall (f g : N -> labels) ps k,
  (forall p, lab_eq (f p) (g p)) -> lookup k (concat (map f ps)) = lookup k (concat (map g ps)).
Proof.
  intros f g ps k E. induction ps as [|p ps IH]; simpl; auto.
  rewrite !lookup_app, IH, (E p k). reflexivity.
Qed.

Lemma view_step_nodup : forall v o, NoDup (map fst (v_eps v)) -> NoDup (map fst (v_eps (view_step v o))).
Proof.
  intros v o H. destruct o; simpl; auto.
  - apply NoDup_keys_aset. auto.
  - apply NoDup_keys_adel. auto.
Qed.

Lemma view_fold_nodup : forall ops v, NoDup (map fst (v_eps v)) -> NoDup (map fst (v_eps (fold_left view_step ops v))).
Proof. induction ops; simpl; intros; auto. apply IHops. apply view_step_nodup. auto. Qed.

Section ViewThms.
  Variable sel_of : N -> ast.
  Variable sup : bool.
  Variable shuffle : state -> forall A : Type, list A -> list A.
  Variable prune_ep : state -> N -> N -> bool.
  Variable prune_set : state -> epdata -> N -> bool.

  Lemma run_R : forall ops st v st' evss,
    R sel_of st v -> Forall (op_interned sel_of) ops ->
    run sup shuffle prune_ep prune_set st ops = (st', evss) -> R sel_of st' (fold_left view_step ops v).
  Proof.
    induction ops as [|o ops IH]; intros st v st' evss Hr W H; simpl in H.
    - inversion H; subst. auto.
    - destruct (step sup shuffle prune_ep prune_set (tick st) o) as [st1 evs] eqn:Es.
      destruct (run sup shuffle prune_ep prune_set st1 ops) as [st2 rest] eqn:Er.
      injection H as H1 H2. subst st' evss. inversion W; subst. simpl.
      apply (IH st1 (view_step v o) st2 rest); auto.
      apply (step_R sel_of sup shuffle prune_ep prune_set (tick st) v o st1 evs); auto.
  Qed.

  Lemma matches_rel : forall st v s vs d ve,
    R sel_of st v -> set_rel sel_of s vs -> ep_rel d ve -> ep_matches st s d = v_matches v vs ve.
  Proof.
    intros st v s vs d ve (_ & RP & _) (S1 & S2 & _) (E1 & _ & _ & E4).
    unfold ep_matches, v_matches, matches, eff_labels. rewrite S1, S2, E4.
    apply eval_ext. intros k. unfold effective. rewrite !lookup_app, (E1 k).
    rewrite (lookup_concat_ext (par_labels st) (v_par_labels v)); auto.
  Qed.

  Lemma contrib_rel : forall s vs d ve, set_rel sel_of s vs -> ep_rel d ve ->
    forall m, In m (contribution d s) <-> In m (spec_contrib vs ve).
  Proof.
    intros s vs d ve (_ & _ & S3 & S4) (_ & E2 & E3 & _) m.
    unfold contribution, spec_contrib, spec_port_members, spec_cidrs, lookup_named_ports.
    rewrite <- S3, <- S4, <- E2, <- E3.
    destruct (s_proto s =? P_NONE)%N eqn:Ep; simpl; [tauto|].
    rewrite !in_flat_map. split.
    - intros [[pr po] [Hp Hm]]. apply in_flat_map in Hp. destruct Hp as [p [Hp Hq]].
      apply in_map_iff in Hm. destruct Hm as [c [<- Hc]]. exists c. split; auto.
      apply in_flat_map. exists p. split; auto.
      destruct (bytes_eqb (pt_name p) (s_port s) && matches_proto (s_proto s) (pt_proto p)); [|contradiction].
      destruct Hq as [Hq|[]]. inversion Hq; subst. simpl. unfold make_ip_port_proto.
      assert (Nn : (protocol_from (pt_proto p) =? P_NONE)%N = false) by (apply N.eqb_neq, protocol_from_not_none).
      rewrite Nn, andb_false_r. left. reflexivity.
    - intros [c [Hc Hm]]. apply in_flat_map in Hm. destruct Hm as [p [Hp Hq]].
      destruct (bytes_eqb (pt_name p) (s_port s) && matches_proto (s_proto s) (pt_proto p)) eqn:Eb; [|contradiction].
      destruct Hq as [<-|[]]. exists (protocol_from (pt_proto p), pt_port p). split.
      + apply in_flat_map. exists p. split; auto. rewrite Eb. left. reflexivity.
      + apply in_map_iff. exists c. split; auto. simpl. unfold make_ip_port_proto.
        assert (Nn : (protocol_from (pt_proto p) =? P_NONE)%N = false) by (apply N.eqb_neq, protocol_from_not_none).
        rewrite Nn, andb_false_r. reflexivity.
  Qed.

  (* the members selected according to the index's records = those selected according to the datastore *)
  Lemma truth_spec : forall st v sid s vs m,
    R sel_of st v -> NoDup (map fst (st_eps st)) -> NoDup (map fst (v_eps v)) ->
    alookup sid (st_sets st) = Some s -> alookup sid (v_sets v) = Some vs ->
    (truth st s m <-> In m (spec_members v vs)).
  Proof.
    intros st v sid s vs m HR NDe NDv Ls Lv.
    pose proof HR as (RE & RP & RS). pose proof (RS sid) as Rs. rewrite Ls, Lv in Rs. simpl in Rs.
    unfold truth, spec_members. rewrite in_flat_map. split.
    - intros (e & d & Hi & M & Hm). pose proof (RE e) as Re. rewrite (In_alookup _ _ _ NDe Hi) in Re.
      destruct (alookup e (v_eps v)) as [ve|] eqn:Lve; [|contradiction]. simpl in Re.
      exists (e, ve). split. apply alookup_In; auto. simpl.
      rewrite <- (matches_rel st v s vs d ve HR Rs Re), M. apply (contrib_rel s vs d ve Rs Re). auto.
    - intros [[e ve] [Hi Hm]]. simpl in Hm. pose proof (RE e) as Re. rewrite (In_alookup _ _ _ NDv Hi) in Re.
      destruct (alookup e (st_eps st)) as [d|] eqn:Ld; [|contradiction]. simpl in Re.
      destruct (v_matches v vs ve) eqn:M; [|contradiction].
      exists e, d. split. apply alookup_In; auto. split.
      + rewrite (matches_rel st v s vs d ve HR Rs Re). auto.
      + apply (contrib_rel s vs d ve Rs Re). auto.
  Qed.
End ViewThms.

Lemma R_empty : forall sel_of, R sel_of empty_state empty_view.
Proof.
  intros. split; [|split].
  - intros e. simpl. auto.
  - intros p k. reflexivity.
  - intros s. simpl. auto.
Qed.

(* everything, against the view: the events replay without duplicate add / remove; the copies F
   satisfy the invariant; the final state is related to the view of the history *)
Theorem history_view : forall sel_of sup shuffle prune_ep prune_set ops st evss,
  oracles_ok shuffle prune_ep prune_set -> Forall op_wf ops -> Forall (op_interned sel_of) ops ->
  run sup shuffle prune_ep prune_set empty_state ops = (st, evss) ->
  exists F, replay_f (fun _ => []) ops evss = Some F /\ GInv sup st F /\ R sel_of st (view_of ops) /\
            NoDup (map fst (v_eps (view_of ops))).
Proof.
  intros sel_of sup shuffle prune_ep prune_set ops st evss O W I H.
  destruct (history_inv _ _ _ _ _ _ _ O W H) as [F [Rp G]]. exists F. split; auto. split; auto. split.
  - unfold view_of. eapply run_R; eauto. apply R_empty.
  - unfold view_of. apply view_fold_nodup. constructor.
Qed.

(* the IP sets of the view are the IP sets of the index *)
Lemma view_set_lookup : forall sel_of st v sid vs, R sel_of st v -> alookup sid (v_sets v) = Some vs ->
  exists s, alookup sid (st_sets st) = Some s.
Proof.
  intros sel_of st v sid vs (_ & _ & RS) H. specialize (RS sid). rewrite H in RS.
  destruct (alookup sid (st_sets st)); [eauto|contradiction].
Qed.

Lemma c04_members_exact_view_proof : forall sel_of shuffle prune_ep prune_set ops st evss,
  oracles_ok shuffle prune_ep prune_set -> Forall op_wf ops -> Forall (op_interned sel_of) ops ->
  run false shuffle prune_ep prune_set empty_state ops = (st, evss) ->
  exists F, replay_f (fun _ => []) ops evss = Some F /\
    forall sid vs, alookup sid (v_sets (view_of ops)) = Some vs ->
      NoDup (F sid) /\ forall m, In m (F sid) <-> In m (spec_members (view_of ops) vs).
Proof.
  intros sel_of shuffle prune_ep prune_set ops st evss O W I H.
  destruct (history_view sel_of _ _ _ _ _ _ _ O W I H) as (F & Rp & G & HR & NDv). exists F. split; auto.
  intros sid vs Lv. destruct (view_set_lookup _ _ _ _ _ HR Lv) as [s Ls]. split.
  - eapply SetThms.rcinv_nodup. eapply GInv_set; eauto.
  - intros m. rewrite (members_exact_nosup st F sid s G Ls m).
    eapply truth_spec; eauto. destruct G as (A & _). exact A.
Qed.

Lemma c04_named_port_exact_view_proof : forall sel_of sup shuffle prune_ep prune_set ops st evss,
  oracles_ok shuffle prune_ep prune_set -> Forall op_wf ops -> Forall (op_interned sel_of) ops ->
  run sup shuffle prune_ep prune_set empty_state ops = (st, evss) ->
  exists F, replay_f (fun _ => []) ops evss = Some F /\
    forall sid vs, alookup sid (v_sets (view_of ops)) = Some vs ->
      forall f a p q, In (MPort f a p q) (F sid) <-> In (MPort f a p q) (spec_members (view_of ops) vs).
Proof.
  intros sel_of sup shuffle prune_ep prune_set ops st evss O W I H.
  destruct (history_view sel_of _ _ _ _ _ _ _ O W I H) as (F & Rp & G & HR & NDv). exists F. split; auto.
  intros sid vs Lv f a p q. destruct (view_set_lookup _ _ _ _ _ HR Lv) as [s Ls].
  rewrite (members_exact_ports sup st F sid s G Ls f a p q).
  eapply truth_spec; eauto. destruct G as (A & _). exact A.
Qed.

Lemma c04_suppressed_view_proof : forall sel_of shuffle prune_ep prune_set ops st evss,
  oracles_ok shuffle prune_ep prune_set -> Forall op_wf ops -> Forall (op_interned sel_of) ops ->
  run true shuffle prune_ep prune_set empty_state ops = (st, evss) ->
  exists F, replay_f (fun _ => []) ops evss = Some F /\
    forall sid vs, alookup sid (v_sets (view_of ops)) = Some vs ->
      (forall a b, In (MCidr a) (F sid) -> In (MCidr b) (F sid) -> ccovers a b = true -> a = b) /\
      (forall c, In (MCidr c) (F sid) -> In (MCidr c) (spec_members (view_of ops) vs)) /\
      (forall c, In (MCidr c) (spec_members (view_of ops) vs) ->
                 exists e, In (MCidr e) (F sid) /\ ccovers e c = true).
Proof.
  intros sel_of shuffle prune_ep prune_set ops st evss O W I H.
  destruct (history_view sel_of _ _ _ _ _ _ _ O W I H) as (F & Rp & G & HR & NDv). exists F. split; auto.
  intros sid vs Lv. destruct (view_set_lookup _ _ _ _ _ HR Lv) as [s Ls].
  assert (NDe : NoDup (map fst (st_eps st))) by (destruct G as (A & _); exact A).
  destruct (suppressed_same_cover st F sid s G Ls) as [C1 C2].
  split. { eapply suppressed_antichain; eauto. }
  split.
  - intros c Hc. apply (truth_spec sel_of st (view_of ops) sid s vs (MCidr c) HR NDe NDv Ls Lv). auto.
  - intros c Hc. apply C2. apply (truth_spec sel_of st (view_of ops) sid s vs (MCidr c) HR NDe NDv Ls Lv). auto.
Qed.
