(* C04 — what the per-IP-set invariant [rcinv] says about the consumer's copy. *)
From Coq Require Import List NArith Arith Bool Lia Permutation.
From Verif.Common Require Import Labels Prefix.
From Verif.C04 Require Import Model Spec Sets Refs Counts.
Import ListNotations.
Local Open Scope nat_scope.

(* live = referenced at least once *)
Lemma rcinv_live : forall sup s em n m, rcinv sup s em n -> (In m (map fst (s_rc s)) <-> n m > 0).
Proof. intros sup s em n m (Ok & _ & Cn). rewrite rc_get_pos; auto. rewrite Cn. tauto. Qed.

(* each member once *)
Lemma rcinv_nodup : forall sup s em n, rcinv sup s em n -> NoDup em.
Proof. intros sup s em n (_ & (A & _) & _). exact A. Qed.

(* without suppression the copy is exactly the referenced members *)
Lemma rcinv_exact_nosup : forall s em n, rcinv false s em n -> forall m, In m em <-> n m > 0.
Proof.
  intros s em n Inv m. pose proof (rcinv_live _ _ _ _ m Inv) as L.
  destruct Inv as (_ & (_ & _ & _ & D) & _). rewrite D. unfold visL. rewrite L. split.
  - tauto.
  - intros H. split; auto. discriminate.
Qed.

(* named-port members are never suppressed *)
Lemma rcinv_exact_ports : forall sup s em n, rcinv sup s em n ->
  forall f a p q, In (MPort f a p q) em <-> n (MPort f a p q) > 0.
Proof.
  intros sup s em n Inv f a p q. pose proof (rcinv_live _ _ _ _ (MPort f a p q) Inv) as L.
  destruct Inv as (_ & (_ & _ & _ & D) & _). rewrite D. unfold visL. rewrite L. split.
  - tauto.
  - intros H. split; auto. intros _ c E. discriminate.
Qed.

(* with suppression: no emitted CIDR lies inside another *)
Lemma rcinv_antichain : forall s em n, rcinv true s em n ->
  forall a b, In (MCidr a) em -> In (MCidr b) em -> ccovers a b = true -> a = b.
Proof.
  intros s em n (_ & (_ & _ & _ & D) & _) a b Ha Hb C.
  apply D in Ha. apply D in Hb. destruct Ha as [_ Va], Hb as [_ Vb].
  eapply vis_antichain; eauto.
Qed.

(* with suppression: emitted CIDRs are referenced ones, and every referenced CIDR lies inside an emitted one *)
Lemma rcinv_same_cover : forall s em n, rcinv true s em n ->
  (forall c, In (MCidr c) em -> n (MCidr c) > 0) /\
  (forall c, n (MCidr c) > 0 -> exists v, In (MCidr v) em /\ ccovers v c = true).
Proof.
  intros s em n Inv. pose proof (fun m => rcinv_live _ _ _ _ m Inv) as L.
  destruct Inv as (Ok & Sv & Cn). pose proof (sinv_wfset _ _ _ Sv) as WT.
  destruct Sv as (A & B & C & D). destruct (C eq_refl) as [NT CT]. split.
  - intros c H. apply D in H. destruct H as [H _]. apply L. auto.
  - intros c H. apply L in H. apply CT in H.
    destruct (vis_covers_all _ WT c H) as [v [Vv Cv]]. exists v. split; auto.
    apply D. split. apply CT. destruct Vv; auto. intros _ y E. inversion E; subst; auto.
Qed.
