(* C04 — one IP set: the emitted events against the consumer's copy, first for the raw
   onMemberAdded / onMemberRemoved (with and without the suppressor), then for the reference counts. *)
From Coq Require Import List NArith Arith Bool Lia Permutation.
From Verif.Common Require Import Labels Prefix.
From Verif.C04 Require Import Model Spec Sets.
Import ListNotations.

(* ------------------------------------------------------------------ events on one set's copy *)

Definition ev_sid (e : event) : N := match e with EAdd s _ => s | ERem s _ => s end.

Definition apply_local1 (l : list member) (e : event) : option (list member) :=
  match e with
  | EAdd _ m => if mem_member m l then None else Some (l ++ [m])
  | ERem _ m => if mem_member m l then Some (remove_member m l) else None
  end.
Fixpoint apply_local (l : list member) (evs : list event) : option (list member) :=
  match evs with
  | [] => Some l
  | e :: evs' => match apply_local1 l e with Some l' => apply_local l' evs' | None => None end
  end.

Lemma apply_local_app : forall e1 e2 l l1,
  apply_local l e1 = Some l1 -> apply_local l (e1 ++ e2) = apply_local l1 e2.
Proof.
  induction e1; simpl; intros e2 l l1 H. inversion H; auto.
  destruct (apply_local1 l a); [|discriminate]. eauto.
Qed.

Lemma mem_member_In : forall m l, mem_member m l = true <-> In m l.
Proof.
  intros. unfold mem_member. rewrite existsb_exists. split.
  - intros [x [Hx E]]. apply member_eqb_eq in E. subst. auto.
  - intros H. exists m. split; auto. apply member_eqb_refl.
Qed.
Lemma mem_member_false : forall m l, mem_member m l = false <-> ~ In m l.
Proof.
  intros. destruct (mem_member m l) eqn:E.
  - apply mem_member_In in E. split; [discriminate|contradiction].
  - split; auto. intros _ H. apply mem_member_In in H. congruence.
Qed.
Lemma In_remove_member : forall m l x, In x (remove_member m l) <-> In x l /\ x <> m.
Proof.
  intros. unfold remove_member. rewrite filter_In, negb_true_iff, member_eqb_neq. intuition.
Qed.
Lemma NoDup_remove_member : forall m l, NoDup l -> NoDup (remove_member m l).
Proof. intros. apply NoDup_filter. auto. Qed.

(* a batch of removals of distinct present CIDRs *)
Lemma apply_local_rems : forall sid rs l,
  NoDup rs -> (forall r, In r rs -> In (MCidr r) l) ->
  exists l', apply_local l (map (fun r => ERem sid (MCidr r)) rs) = Some l' /\
             (forall x, In x l' <-> In x l /\ ~ In x (map MCidr rs)) /\ (NoDup l -> NoDup l').
Proof.
  induction rs as [|r rs IH]; simpl; intros l ND Hin.
  - exists l. split; auto. split; auto. intuition.
  - inversion ND; subst.
    assert (Hr : mem_member (MCidr r) l = true) by (apply mem_member_In; auto).
    rewrite Hr.
    destruct (IH (remove_member (MCidr r) l)) as [l' [A [B C]]]; auto.
    { intros r' Hr'. apply In_remove_member. split; auto. intros E. inversion E; subst. contradiction. }
    exists l'. split; auto. split.
    + intros x. rewrite B, In_remove_member. intuition.
    + intros. apply C. apply NoDup_remove_member. auto.
Qed.

(* a batch of additions of distinct absent CIDRs *)
Lemma apply_local_adds : forall sid rs l,
  NoDup rs -> (forall r, In r rs -> ~ In (MCidr r) l) ->
  apply_local l (map (fun r => EAdd sid (MCidr r)) rs) = Some (l ++ map MCidr rs).
Proof.
  induction rs as [|r rs IH]; simpl; intros l ND Hin.
  - rewrite app_nil_r. auto.
  - inversion ND; subst.
    assert (Hr : mem_member (MCidr r) l = false) by (apply mem_member_false; auto).
    rewrite Hr. rewrite IH; auto.
    + rewrite <- app_assoc. reflexivity.
    + intros r' Hr' Hi. apply in_app_iff in Hi. destruct Hi as [Hi|[Hi|[]]].
      * eapply Hin; eauto.
      * inversion Hi; subst. contradiction.
Qed.

Lemma NoDup_app_disj : forall {A} (a b : list A),
  NoDup a -> NoDup b -> (forall x, In x a -> ~ In x b) -> NoDup (a ++ b).
Proof.
  induction a as [|x a IH]; simpl; intros b Ha Hb Hd; auto.
  inversion Ha; subst. constructor.
  - rewrite in_app_iff. intros [?|?]; auto. eapply Hd; eauto.
  - apply IH; auto.
Qed.
Lemma NoDup_map_MCidr : forall rs, NoDup rs -> NoDup (map MCidr rs).
Proof.
  induction 1; simpl; constructor; auto.
  rewrite in_map_iff. intros [y [E Hy]]. inversion E; subst. auto.
Qed.

(* ------------------------------------------------------------------ shuffles *)

Definition perm_ok (sh : forall A : Type, list A -> list A) : Prop :=
  forall A (l : list A), Permutation l (sh A l).

Lemma perm_In : forall sh, perm_ok sh -> forall A (l : list A) x, In x (sh A l) <-> In x l.
Proof. intros sh H A l x. split; apply Permutation_in; [apply Permutation_sym|]; apply H. Qed.
Lemma perm_NoDup : forall sh, perm_ok sh -> forall A (l : list A), NoDup l -> NoDup (sh A l).
Proof. intros sh H A l. apply Permutation_NoDup. apply H. Qed.

(* ------------------------------------------------------------------ the live set and what is visible of it *)

Definition wfm (m : member) : Prop := match m with MCidr c => wfc c | _ => True end.

Definition visL (sup : bool) (T : list cidr) (L : list member) (m : member) : Prop :=
  In m L /\ (sup = true -> forall c, m = MCidr c -> vis T c).

(* T: the suppressor's stored prefixes, L: the live members (those with a reference), em: the consumer's copy *)
Definition sinv (sup : bool) (T : list cidr) (L em : list member) : Prop :=
  NoDup em /\ (forall m, In m L -> wfm m) /\
  (sup = true -> NoDup T /\ forall c, In c T <-> In (MCidr c) L) /\
  (forall m, In m em <-> visL sup T L m).

Lemma sinv_equiv : forall sup T L L' em,
  (forall x, In x L <-> In x L') -> sinv sup T L em -> sinv sup T L' em.
Proof.
  intros sup T L L' em E (A & B & C & D). split; auto. split; [|split].
  - intros m Hm. apply B. apply E. auto.
  - intros Hs. destruct (C Hs) as [C1 C2]. split; auto. intros c. rewrite C2. apply E.
  - intros m. rewrite D. unfold visL. rewrite E. tauto.
Qed.

Lemma sinv_wfset : forall T L em, sinv true T L em -> wfset T.
Proof.
  intros T L em (A & B & C & D) c Hc. destruct (C eq_refl) as [_ C2]. apply C2 in Hc. apply (B _ Hc).
Qed.

Lemma sinv_nil : forall sup T em, sinv sup T [] em -> em = [].
Proof.
  intros sup T em (A & B & C & D). destruct em as [|m em]; auto.
  exfalso. assert (In m (m :: em)) by (left; auto). apply D in H. destruct H as [[] _].
Qed.

Lemma sinv_empty : forall sup, sinv sup [] [] [].
Proof.
  intros. split. constructor. split. intros m []. split.
  - intros _. split. constructor. intros c. simpl. tauto.
  - intros m. unfold visL. simpl. tauto.
Qed.

Section Prim.
  Variable sup : bool.
  Variable sh : forall A : Type, list A -> list A.
  Hypothesis sh_ok : perm_ok sh.

  Definition same_static (s s' : ipset) : Prop :=
    s_selid s' = s_selid s /\ s_sel s' = s_sel s /\ s_proto s' = s_proto s /\ s_port s' = s_port s.

  Lemma same_static_refl : forall s, same_static s s.
  Proof. intros. repeat split. Qed.
  Lemma same_static_trans : forall a b c, same_static a b -> same_static b c -> same_static a c.
  Proof. intros a b c (A1&A2&A3&A4) (B1&B2&B3&B4). repeat split; congruence. Qed.

  Definition evs_on (sid : N) (evs : list event) : Prop := forall e, In e evs -> ev_sid e = sid.

  Lemma evs_on_app : forall sid a b, evs_on sid a -> evs_on sid b -> evs_on sid (a ++ b).
  Proof. intros sid a b A B e He. apply in_app_iff in He. destruct He; auto. Qed.

  (* onMemberAdded of a member that is not live *)
  Lemma on_added_ok : forall sid s m L em s' evs,
    sinv sup (s_trie s) L em -> ~ In m L -> wfm m ->
    on_added sup sh sid s m = (s', evs) ->
    s_rc s' = s_rc s /\ same_static s s' /\ evs_on sid evs /\
    exists em', apply_local em evs = Some em' /\ sinv sup (s_trie s') (m :: L) em'.
  Proof.
    intros sid s m L em s' evs Inv Nin Wm H.
    assert (Plain : forall T', (sup = true -> NoDup T' /\ forall c, In c T' <-> In (MCidr c) (m :: L)) ->
              (sup = true -> forall c, m = MCidr c -> False) \/ sup = false ->
              (sup = true -> forall x, vis T' x <-> vis (s_trie s) x) ->
              apply_local em [EAdd sid m] = Some (em ++ [m]) /\ sinv sup T' (m :: L) (em ++ [m])).
    { intros T' HT Hc Hv. destruct Inv as (A & B & C & D).
      assert (Nem : ~ In m em) by (intros Hi; apply D in Hi; destruct Hi; contradiction).
      split.
      - simpl. apply mem_member_false in Nem. rewrite Nem. reflexivity.
      - split. apply NoDup_snoc; auto. split.
        { intros x [<-|Hx]; auto. }
        split; auto.
        intros x. rewrite in_app_iff. simpl. rewrite D. unfold visL. simpl. split.
        + intros [[Hx Vx] | [<- | []]].
          * split; auto. intros Hs c ->. apply Hv; auto.
          * split; auto. intros Hs c ->. destruct Hc as [Hc|Hc]; [exfalso; eapply Hc; eauto | congruence].
        + intros [[<- | Hx] Vx]; auto. left. split; auto. intros Hs c ->. apply Hv; auto. }
    destruct m as [c | f a p q].
    - (* CIDR member *)
      simpl in H. unfold sup_add in H. destruct sup eqn:Esup.
      + pose proof (sinv_wfset _ _ _ Inv) as WT.
        destruct Inv as (A & B & C & D). destruct (C eq_refl) as [NT CT].
        assert (NinT : ~ In c (s_trie s)) by (rewrite CT; auto).
        assert (NT' : NoDup (t_update (s_trie s) c)) by (apply NoDup_t_update; auto).
        assert (CT' : forall x, In x (t_update (s_trie s) c) <-> In (MCidr x) (MCidr c :: L)).
        { intros x. rewrite In_t_update. simpl. rewrite CT. split.
          - intros [?| ->]; auto.
          - intros [E|?]; auto. inversion E; auto. }
        destruct (t_covers (s_trie s) c) eqn:Cov.
        * (* covered: nothing is emitted *)
          inversion H; subst; clear H. simpl. split; auto. split. { repeat split. }
          split. intros e [].
          exists em. split; auto. split; auto. split.
          { intros x [<-|Hx]; auto. }
          split. { intros _. split; auto. }
          intros x. rewrite D. unfold visL. simpl. split.
          -- intros [Hx Vx]. split; auto. intros _ y ->. apply vis_add_covered; auto.
          -- intros [[<- | Hx] Vx].
             ++ exfalso. pose proof (Vx eq_refl c eq_refl) as V. apply vis_add_covered in V; auto.
                destruct V. contradiction.
             ++ split; auto. intros _ y ->. apply (vis_add_covered (s_trie s) c); auto.
        * (* uncovered: add c, withdraw what it masks *)
          inversion H; subst; clear H. simpl. split; auto. split. { repeat split. }
          set (T' := t_update (s_trie s) c) in *.
          set (rs := sh cidr (t_closest T' c)).
          assert (Hrs : forall q, In q rs <-> vis (s_trie s) q /\ ccovers c q = true).
          { intros q. unfold rs. rewrite perm_In; auto. apply closest_after_add; auto. }
          assert (NDrs : NoDup rs).
          { unfold rs. apply perm_NoDup; auto. apply NoDup_t_closest; auto. }
          split.
          { intros e [<-|He]; auto. apply in_map_iff in He. destruct He as [r [<- _]]. auto. }
          assert (Nem : ~ In (MCidr c) em) by (intros Hi; apply D in Hi; destruct Hi; contradiction).
          destruct (apply_local_rems sid rs (em ++ [MCidr c])) as [l' [E1 [E2 E3]]]; auto.
          { intros r Hr. apply Hrs in Hr. destruct Hr as [Vr _]. apply in_app_iff. left. apply D.
            split. apply CT. destruct Vr; auto. intros _ y Ey. inversion Ey; subst; auto. }
          exists l'. split.
          { simpl. apply mem_member_false in Nem. rewrite Nem. exact E1. }
          split. { apply E3. apply NoDup_snoc; auto. }
          split. { intros x [<-|Hx]; auto. }
          split. { intros _. split; auto. }
          intros x. rewrite E2, in_app_iff. simpl. unfold visL. simpl. split.
          -- intros [[Hx | [<- | []]] Nr].
             ++ apply D in Hx. destruct Hx as [Hx Vx]. split; auto.
                intros _ y ->. apply vis_add_uncovered; auto. right.
                pose proof (Vx eq_refl y eq_refl) as Vy. split; auto.
                destruct (ccovers c y) eqn:Ccy; auto. exfalso. apply Nr. apply in_map.
                apply Hrs. auto.
             ++ split; auto. intros _ y Ey. inversion Ey; subst. apply vis_add_uncovered; auto.
          -- intros [Hx Vx]. destruct x as [y | f a p q].
             ++ pose proof (Vx eq_refl y eq_refl) as Vy. apply vis_add_uncovered in Vy; auto.
                destruct Vy as [-> | [Vy Ncy]].
                ** split; auto. intros Hi. apply in_map_iff in Hi. destruct Hi as [r [Er Hr]].
                   inversion Er; subst. apply Hrs in Hr. destruct Hr as [[Hc' _] _]. contradiction.
                ** split.
                   { left. apply D. split. apply CT. destruct Vy; auto. intros _ z Ez. inversion Ez; subst; auto. }
                   intros Hi. apply in_map_iff in Hi. destruct Hi as [r [Er Hr]].
                   inversion Er; subst. apply Hrs in Hr. destruct Hr. congruence.
             ++ destruct Hx as [Hx|Hx]; [discriminate|]. split.
                ** left. apply D. split; auto. intros _ y Ey. discriminate.
                ** intros Hi. apply in_map_iff in Hi. destruct Hi as [r [Er _]]. discriminate.
      + (* no suppressor *)
        inversion H; subst; clear H. simpl. split; auto. split. { repeat split. }
        split. { intros e [<-|[]]; auto. }
        destruct (Plain (s_trie s)) as [P1 P2]; auto; try discriminate.
        exists (em ++ [MCidr c]). split; [simpl; exact P1 | exact P2].
    - (* port member: never touched by the suppressor *)
      simpl in H. inversion H; subst; clear H. split; auto. split. { repeat split. }
      split. { intros e [<-|[]]; auto. }
      destruct (Plain (s_trie s')) as [P1 P2]; auto.
      + intros Hs. destruct Inv as (A & B & C & D). destruct (C Hs) as [C1 C2]. split; auto.
        intros c. rewrite C2. simpl. split; auto. intros [E|?]; auto. discriminate.
      + left. intros _ c E. discriminate.
      + intros; tauto.
      + eauto.
  Qed.

  (* onMemberRemoved of a live member *)
  Lemma on_removed_ok : forall sid s m L em s' evs,
    sinv sup (s_trie s) L em -> In m L ->
    on_removed sup sh sid s m = (s', evs) ->
    s_rc s' = s_rc s /\ same_static s s' /\ evs_on sid evs /\
    exists em', apply_local em evs = Some em' /\ sinv sup (s_trie s') (remove_member m L) em'.
  Proof.
    intros sid s m L em s' evs Inv Hin H.
    assert (Plain : forall T', (sup = true -> NoDup T' /\ forall c, In c T' <-> In (MCidr c) (remove_member m L)) ->
              (sup = true -> forall c, m = MCidr c -> False) \/ sup = false ->
              (sup = true -> forall x, vis T' x <-> vis (s_trie s) x) ->
              apply_local em [ERem sid m] = Some (remove_member m em) /\
              sinv sup T' (remove_member m L) (remove_member m em)).
    { intros T' HT Hc Hv. destruct Inv as (A & B & C & D).
      assert (Iem : In m em).
      { apply D. split; auto. intros Hs c ->. destruct Hc as [Hc|Hc]; [exfalso; eapply Hc; eauto | congruence]. }
      split.
      - simpl. apply mem_member_In in Iem. rewrite Iem. reflexivity.
      - split. apply NoDup_remove_member; auto. split.
        { intros x Hx. apply In_remove_member in Hx. destruct Hx. auto. }
        split; auto.
        intros x. rewrite In_remove_member, D. unfold visL. rewrite In_remove_member. split.
        + intros [[Hx Vx] Ne]. split; auto. intros Hs c ->. apply Hv; auto.
        + intros [[Hx Ne] Vx]. split; auto. split; auto. intros Hs c ->. apply Hv; auto. }
    destruct m as [c | f a p q].
    - simpl in H. unfold sup_remove in H. destruct sup eqn:Esup.
      + pose proof (sinv_wfset _ _ _ Inv) as WT.
        destruct Inv as (A & B & C & D). destruct (C eq_refl) as [NT CT].
        assert (InT : In c (s_trie s)) by (rewrite CT; auto).
        set (T' := t_delete (s_trie s) c) in *.
        assert (NT' : NoDup T') by (apply NoDup_t_delete; auto).
        assert (CT' : forall x, In x T' <-> In (MCidr x) (remove_member (MCidr c) L)).
        { intros x. unfold T'. rewrite In_t_delete, In_remove_member, CT. split.
          - intros [? Ne]. split; auto. intros E. inversion E; auto.
          - intros [? Ne]. split; auto. intros ->. auto. }
        destruct (t_covers T' c) eqn:Cov.
        * inversion H; subst; clear H. simpl. split; auto. split. { repeat split. }
          split. intros e [].
          exists em. split; auto. split; auto. split.
          { intros x Hx. apply In_remove_member in Hx. destruct Hx. auto. }
          split. { intros _. split; auto. }
          assert (NVc : ~ vis (s_trie s) c).
          { intros [_ Vc]. apply t_covers_spec in Cov. destruct Cov as [p [Hp Cp]].
            apply In_t_delete in Hp. destruct Hp as [Hp Np]. apply Np. apply Vc; auto. }
          intros x. rewrite D. unfold visL. rewrite In_remove_member. split.
          -- intros [Hx Vx]. split.
             ++ split; auto; try (intros ->; apply NVc; apply Vx; auto).
             ++ intros _ y ->. apply vis_remove_covered; auto.
          -- intros [[Hx Ne] Vx]. split; auto. intros _ y ->.
             apply (vis_remove_covered (s_trie s) c); auto.
        * inversion H; subst; clear H. simpl. split; auto. split. { repeat split. }
          set (rs := sh cidr (t_closest (s_trie s) c)).
          assert (Hrs : forall q, In q rs <-> In q (t_closest (s_trie s) c)).
          { intros q. unfold rs. apply perm_In; auto. }
          assert (NDrs : NoDup rs).
          { unfold rs. apply perm_NoDup; auto. apply NoDup_t_closest; auto. }
          split.
          { intros e [<-|He]; auto. apply in_map_iff in He. destruct He as [r [<- _]]. auto. }
          assert (Vc : vis (s_trie s) c) by (apply vis_removed_was_visible; auto).
          assert (Iem : In (MCidr c) em).
          { apply D. split; auto. intros _ y Ey. inversion Ey; subst; auto. }
          exists (remove_member (MCidr c) em ++ map MCidr rs). split.
          { simpl. apply mem_member_In in Iem. rewrite Iem. apply apply_local_adds; auto.
            intros r Hr Hi. apply In_remove_member in Hi. destruct Hi as [Hi _]. apply D in Hi.
            destruct Hi as [_ Vr]. apply Hrs in Hr.
            apply (closest_not_visible (s_trie s) c r); auto. }
          split.
          { apply NoDup_app_disj. apply NoDup_remove_member; auto. apply NoDup_map_MCidr; auto.
            intros x Hx Hi. apply In_remove_member in Hx. destruct Hx as [Hx _]. apply D in Hx.
            destruct Hx as [_ Vx]. apply in_map_iff in Hi. destruct Hi as [r [<- Hr]]. apply Hrs in Hr.
            apply (closest_not_visible (s_trie s) c r); auto. }
          split. { intros x Hx. apply In_remove_member in Hx. destruct Hx. auto. }
          split. { intros _. split; auto. }
          intros x. rewrite in_app_iff, In_remove_member, D. unfold visL. rewrite In_remove_member. split.
          -- intros [[[Hx Vx] Ne] | Hi].
             ++ split; auto. intros _ y ->. apply vis_remove_uncovered; auto. left. split; auto.
                intros ->. auto.
             ++ apply in_map_iff in Hi. destruct Hi as [r [<- Hr]]. apply Hrs in Hr.
                assert (Vr : vis T' r) by (apply vis_remove_uncovered; auto).
                split. { apply In_remove_member. apply CT'. destruct Vr; auto. }
                intros _ y Ey. inversion Ey; subst; auto.
          -- intros [[Hx Ne] Vx]. destruct x as [y | f a p q].
             ++ pose proof (Vx eq_refl y eq_refl) as Vy. apply vis_remove_uncovered in Vy; auto.
                destruct Vy as [[Vy Ny] | Hy].
                ** left. split; auto. split; auto. intros _ z Ez. inversion Ez; subst; auto.
                ** right. apply in_map. apply Hrs. auto.
             ++ left. split; auto. split; auto. intros _ y Ey. discriminate.
      + inversion H; subst; clear H. simpl. split; auto. split. { repeat split. }
        split. { intros e [<-|[]]; auto. }
        destruct (Plain (s_trie s)) as [P1 P2]; auto; try discriminate.
        exists (remove_member (MCidr c) em). split; [simpl; exact P1 | exact P2].
    - simpl in H. inversion H; subst; clear H. split; auto. split. { repeat split. }
      split. { intros e [<-|[]]; auto. }
      destruct (Plain (s_trie s')) as [P1 P2]; auto.
      + intros Hs. destruct Inv as (A & B & C & D). destruct (C Hs) as [C1 C2]. split; auto.
        intros c. rewrite C2, In_remove_member. split; auto. intros H; split; auto. discriminate. tauto.
      + left. intros _ c E. discriminate.
      + intros; tauto.
      + eauto.
  Qed.
End Prim.
