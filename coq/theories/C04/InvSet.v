(* C04 — DeleteIPSet / UpdateIPSet keep the invariant. *)
From Coq Require Import List NArith Arith Bool Lia Permutation.
From Verif.Common Require Import Labels Prefix.
From Verif.C04 Require Import Model Spec Sets Refs Counts Proofs State Inv.
Import ListNotations.
Local Open Scope nat_scope.

Lemma SetsOK_F_ext : forall sup sets F F' cn, (forall x, F x = F' x) -> SetsOK sup sets F cn -> SetsOK sup sets F' cn.
Proof.
  intros sup sets F F' cn E [A B]. split.
  - intros sid s H. rewrite <- E. auto.
  - intros sid H. rewrite <- E. auto.
Qed.

Lemma In_rm_cache : forall d sid x, In x (e_cache (rm_cache d sid)) <-> In x (e_cache d) /\ x <> sid.
Proof.
  intros. unfold rm_cache. simpl. rewrite filter_In, negb_true_iff, N.eqb_neq. intuition.
Qed.

Lemma memN_ext : forall k a b, (In k a <-> In k b) -> memN k a = memN k b.
Proof.
  intros k a b H. destruct (memN k a) eqn:Ea, (memN k b) eqn:Eb; auto.
  - apply memN_In in Ea. apply memN_false in Eb. tauto.
  - apply memN_In in Eb. apply memN_false in Ea. tauto.
Qed.

Section SetOps.
  Variable sup : bool.
  Variable shuffle : state -> forall A : Type, list A -> list A.
  Variable prune_ep : state -> N -> N -> bool.
  Variable prune_set : state -> epdata -> N -> bool.
  Hypothesis shuffle_ok : forall st, perm_ok (shuffle st).
  Hypothesis prune_ep_sound : forall st sid s eid d,
    alookup sid (st_sets st) = Some s -> alookup eid (st_eps st) = Some d ->
    ep_matches st s d = true -> prune_ep st sid eid = true.

  (* the invariant, except that nothing is claimed about the counts / copy of IP set sid itself *)
  Definition WInv (sid : N) (st : state) (F : fam_copy) : Prop :=
    NoDup (map fst (st_eps st)) /\ NoDup (map fst (st_sets st)) /\
    (forall x s, x <> sid -> alookup x (st_sets st) = Some s -> rcinv sup s (F x) (total (st_eps st) (st_sets st) x)) /\
    (forall x, x <> sid -> alookup x (st_sets st) = None -> F x = []) /\
    forall eid d, In (eid, d) (st_eps st) -> ep_ok (st_sets st) d /\ exact_at (par_labels st) (st_sets st) d.

  Lemma GInv_WInv : forall sid st F, GInv sup st F -> WInv sid st F.
  Proof.
    intros sid st F (A & B & [C1 C2] & D).
    refine (conj A (conj B (conj _ (conj _ D)))).
    - intros x s _ H. apply C1. exact H.
    - intros x _ H. apply C2. exact H.
  Qed.

  (* ---------------------------------------------------------------- DeleteIPSet *)
  Lemma delete_ipset_ok : forall st F sid,
    WInv sid st F -> GInv sup (delete_ipset shuffle prune_ep st sid) (fupd F sid []).
  Proof.
    intros st F sid (NDe & NDs & OKa & OKb & Heps). unfold delete_ipset.
    destruct (alookup sid (st_sets st)) as [s0|] eqn:Ls.
    2:{ split; auto. split; auto. split.
        - split.
          + intros x s Hx. unfold fupd. destruct (N.eqb x sid) eqn:E.
            * apply N.eqb_eq in E. subst. congruence.
            * apply OKa; auto. apply N.eqb_neq. auto.
          + intros x Hx. unfold fupd. destruct (N.eqb x sid) eqn:E; auto. apply OKb; auto. apply N.eqb_neq. auto.
        - exact Heps. }
    set (cands := ep_candidates shuffle prune_ep st sid).
    set (g := fun kv : N * epdata => if memN (fst kv) cands then (fst kv, rm_cache (snd kv) sid) else kv).
    assert (Kg : map fst (map g (st_eps st)) = map fst (st_eps st)).
    { rewrite map_map. apply map_ext. intros [e d]. unfold g. simpl. destruct (memN e cands); reflexivity. }
    (* the cache after g: sid is gone, everything else is kept *)
    assert (Cg : forall e d, In (e, d) (st_eps st) ->
              forall x, In x (e_cache (snd (g (e, d)))) <-> In x (e_cache d) /\ x <> sid).
    { intros e d Hi x. unfold g. simpl. destruct (memN e cands) eqn:Mc; simpl.
      - apply In_rm_cache.
      - split; [|tauto]. intros Hx. split; auto. intros ->.
        destruct (Heps e d Hi) as [_ X]. destruct (X sid s0 Ls) as [X1 _].
        specialize (X1 Hx). apply memN_false in Mc. apply Mc.
        unfold cands, ep_candidates. rewrite perm_In; auto. apply filter_In. split.
        + apply in_map_iff. exists (e, d). auto.
        + eapply prune_ep_sound; eauto. apply In_alookup; auto. }
    assert (Dg : forall e d, fst (g (e, d)) = e /\ e_nets (snd (g (e, d))) = e_nets d /\
                             e_parents (snd (g (e, d))) = e_parents d /\ e_labels (snd (g (e, d))) = e_labels d /\
                             e_ports (snd (g (e, d))) = e_ports d /\ (NoDup (e_cache d) -> NoDup (e_cache (snd (g (e, d)))))).
    { intros e d. unfold g. simpl. destruct (memN e cands); simpl; repeat split; auto.
      intros. apply NoDup_filter. auto. }
    assert (Tg : forall x m, x <> sid ->
              total (map g (st_eps st)) (adel sid (st_sets st)) x m = total (st_eps st) (st_sets st) x m).
    { intros x m Nx. unfold total. rewrite map_map. f_equal. apply map_ext_in. intros [e d] Hi.
      unfold term. simpl snd.
      rewrite (memN_ext x (e_cache (snd (g (e, d)))) (e_cache d)).
      - destruct (memN x (e_cache d)); auto. rewrite alookup_adel. apply N.eqb_neq in Nx. rewrite Nx.
        destruct (alookup x (st_sets st)); auto.
        destruct (Dg e d) as (_ & D1 & _ & _ & D4 & _). unfold contribution, lookup_named_ports. rewrite D1, D4. reflexivity.
      - rewrite (Cg e d Hi). tauto. }
    unfold GInv, GInvL. simpl. fold cands. fold g.
    split. { rewrite Kg. auto. }
    split. { apply NoDup_keys_adel; auto. }
    split.
    - split.
      + intros x s Hx. rewrite alookup_adel in Hx. destruct (N.eqb x sid) eqn:E; [discriminate|].
        unfold fupd. rewrite E. apply N.eqb_neq in E.
        eapply rcinv_ext; [|apply OKa; eauto]. intros m. symmetry. apply Tg. auto.
      + intros x Hx. rewrite alookup_adel in Hx. unfold fupd. destruct (N.eqb x sid) eqn:E; auto.
        apply OKb; auto. apply N.eqb_neq. auto.
    - intros e d' Hi. apply in_map_iff in Hi. destruct Hi as [[e0 d] [Eg Hi]].
      destruct (Dg e0 d) as (D0 & D1 & D2 & D3 & D4 & D5).
      assert (e = e0 /\ d' = snd (g (e0, d))) by (rewrite Eg; simpl; split; auto; rewrite <- D0, Eg; auto).
      destruct H as [-> ->].
      destruct (Heps e0 d Hi) as [(Cn & Cs & W) X]. split.
      + split. auto. split.
        * intros x Hx. apply (Cg e0 d Hi) in Hx. destruct Hx as [Hx Nx]. apply keys_adel. split; auto.
        * rewrite D1. auto.
      + intros x s Hx. rewrite alookup_adel in Hx. destruct (N.eqb x sid) eqn:E; [discriminate|].
        apply N.eqb_neq in E. destruct (X x s Hx) as [X1 X2].
        assert (M : lab_matches (par_labels (tick (set_sets (set_eps st (map g (st_eps st))) (adel sid (st_sets st))))) s (snd (g (e0, d)))
                    = lab_matches (par_labels st) s d).
        { unfold lab_matches. rewrite D2, D3. reflexivity. }
        assert (Cq : contribution (snd (g (e0, d))) s = contribution d s).
        { unfold contribution, lookup_named_ports. rewrite D1, D4. reflexivity. }
        rewrite M, Cq. rewrite (Cg e0 d Hi). split.
        * intros [Hx' _]. auto.
        * intros A B. split; auto.
  Qed.

  (* ---------------------------------------------------------------- UpdateIPSet: the endpoint scan *)

  Definition exact_on (P : N -> Prop) (lab : N -> labels) (sets : list (N * ipset)) (d : epdata) : Prop :=
    forall x s, P x -> alookup x sets = Some s ->
      (In x (e_cache d) -> lab_matches lab s d = true) /\
      (lab_matches lab s d = true -> contribution d s <> [] -> In x (e_cache d)).

  Lemma exact_on_sim : forall P lab a b d, sets_sim a b -> exact_on P lab a d -> exact_on P lab b d.
  Proof.
    intros P lab a b d [K S] E x s' Px H. specialize (S x). rewrite H in S.
    destruct (alookup x a) as [s|] eqn:Ha; [|contradiction].
    destruct (E x s Px Ha) as [E1 E2].
    rewrite (lab_matches_static lab s s'), (contribution_static d s s'); auto.
  Qed.

  (* state of one endpoint while IP set sid is being populated; todo = endpoints not yet visited *)
  Definition ep_mid (sid : N) (todo : list N) (st : state) (e : N) (d : epdata) : Prop :=
    ep_ok (st_sets st) d /\ exact_on (fun x => x <> sid) (par_labels st) (st_sets st) d /\
    (forall s, alookup sid (st_sets st) = Some s -> In sid (e_cache d) -> lab_matches (par_labels st) s d = true) /\
    (In e todo -> ~ In sid (e_cache d)) /\
    (~ In e todo -> forall s, alookup sid (st_sets st) = Some s ->
       lab_matches (par_labels st) s d = true -> contribution d s <> [] -> In sid (e_cache d)).

  Lemma add_cache_fresh : forall d sid, ~ In sid (e_cache d) -> add_cache d sid = with_cache d (sid :: e_cache d).
  Proof. intros d sid H. unfold add_cache. apply memN_false in H. rewrite H. reflexivity. Qed.

  Lemma scan_new_fold : forall sid todo st evs F st' evs',
    NoDup todo ->
    NoDup (map fst (st_eps st)) -> NoDup (map fst (st_sets st)) ->
    SetsOK sup (st_sets st) F (total (st_eps st) (st_sets st)) ->
    (exists s, alookup sid (st_sets st) = Some s) ->
    (forall e d, In (e, d) (st_eps st) -> ep_mid sid todo st e d) ->
    fold_left (scan_new_set_step sup shuffle sid) todo (st, evs) = (st', evs') ->
    exists evs1 F', evs' = evs ++ evs1 /\ apply_f F evs1 = Some F' /\ GInv sup st' F'.
  Proof.
    intros sid. induction todo as [|eid todo IH]; intros st evs F st' evs' NDt NDe NDs OK Hs Heps H.
    - simpl in H. inversion H; subst. exists [], F. rewrite app_nil_r. split; auto. split; auto.
      split; auto. split; auto. split; auto.
      intros e d Hi. destruct (Heps e d Hi) as (A & B & C & _ & D). split; auto.
      intros x s Lx. destruct (N.eq_dec x sid) as [->|Nx].
      + split. apply C; auto. apply D; auto.
      + apply B; auto.
    - simpl in H. inversion NDt; subst.
      (* the cases in which nothing changes *)
      assert (Skip : (forall d, alookup eid (st_eps st) = Some d ->
                        forall s, alookup sid (st_sets st) = Some s ->
                          lab_matches (par_labels st) s d = true -> contribution d s <> [] -> False) ->
                fold_left (scan_new_set_step sup shuffle sid) todo (tick st, evs) = (st', evs') ->
                exists evs1 F', evs' = evs ++ evs1 /\ apply_f F evs1 = Some F' /\ GInv sup st' F').
      { intros No H'. apply (IH (tick st) evs F st' evs'); auto.
        intros e d Hi. destruct (Heps e d Hi) as (A & B & C & D1 & D2).
        split; auto. split; auto. split; auto. split.
        - intros Ht. apply D1. right; auto.
        - intros Nt s Ls M Cn. destruct (N.eq_dec e eid) as [->|Ne].
          + exfalso. eapply No; eauto. apply In_alookup; auto.
          + apply (D2 (fun Hx => match Hx with or_introl E => Ne (eq_sym E) | or_intror Hx' => Nt Hx' end) s Ls M Cn). }
      destruct (alookup eid (st_eps st)) as [d|] eqn:Le; [|apply Skip; auto; intros; discriminate].
      destruct Hs as [s Ls]. rewrite Ls in H.
      destruct (ep_matches st s d) eqn:Em.
      2:{ apply Skip; auto. intros d0 E0 s1 E1 M _. inversion E0; subst. rewrite Ls in E1. inversion E1; subst.
          rewrite <- ep_matches_lab in M. congruence. }
      destruct (contribution d s) as [|m0 ms0] eqn:Ec.
      { apply Skip; auto. intros d0 E0 s1 E1 _ Cn. inversion E0; subst. rewrite Ls in E1. inversion E1; subst. auto. }
      change (let (s1, e1) := incref sup (shuffle st) sid s m0 in
              let (s2, e2) := incref_list sup (shuffle st) sid s1 ms0 in (s2, e1 ++ e2))
        with (incref_list sup (shuffle st) sid s (m0 :: ms0)) in H.
      rewrite <- Ec in H.
      destruct (incref_list sup (shuffle st) sid s (contribution d s)) as [s1 e1] eqn:Ei.
      pose proof (alookup_In _ _ _ Le) as Ie.
      destruct (Heps eid d Ie) as ((Cnd & Csub & W) & B & C & D1 & D2).
      assert (Nc : ~ In sid (e_cache d)) by (apply D1; left; auto).
      destruct OK as [OA OB].
      destruct (incref_list_ok sup (shuffle st) (shuffle_ok st) sid _ _ _ _ _ _ (OA _ _ Ls)
                  (contribution_wf d s W) Ei) as (St & On & em1 & Ap & Inv1).
      destruct (set_step sup _ _ _ _ _ _ _ _ _ (conj OA OB) Ls On Ap Inv1) as [F1 [Af OK1]].
      rewrite add_cache_fresh in H; auto.
      set (d1 := with_cache d (sid :: e_cache d)) in *.
      set (st1 := tick (set_ep (set_set st sid s1) eid d1)) in *.
      assert (Sim : sets_sim (st_sets st) (st_sets st1)) by (simpl; eapply sets_sim_aset; eauto).
      destruct (IH st1 (evs ++ e1) F1 st' evs') as (evs1 & F' & Ev & Af' & G'); auto.
      + simpl. apply NoDup_keys_aset; auto.
      + simpl. apply NoDup_keys_aset; auto.
      + eapply SetsOK_ext; [|exact OK1]. intros x sx m Lx. simpl.
        pose proof (total_aset_in (st_eps st) (st_sets st) eid d d1 x m NDe Le) as T.
        rewrite (total_sim _ (st_sets st) (aset sid s1 (st_sets st))); auto.
        destruct (N.eqb x sid) eqn:Ex.
        * apply N.eqb_eq in Ex. subst x.
          assert (T0 : term (st_sets st) d sid m = 0).
          { unfold term. apply memN_false in Nc. rewrite Nc. reflexivity. }
          assert (T1 : term (st_sets st) d1 sid m = cnt m (contribution d s)).
          { unfold term, d1. simpl. rewrite N.eqb_refl. simpl. rewrite Ls. reflexivity. }
          lia.
        * assert (T1 : term (st_sets st) d1 x m = term (st_sets st) d x m).
          { unfold term, d1. simpl. rewrite Ex. simpl. reflexivity. }
          lia.
      + simpl. rewrite alookup_aset, N.eqb_refl. eauto.
      + intros e d0 Hi. simpl in Hi. apply In_aset in Hi; auto. destruct Hi as [[-> ->] | [Ne Hi]].
        * (* the endpoint just visited *)
          split.
          { split. simpl. constructor; auto. split; auto.
            simpl. intros x [<-|Hx].
            - destruct Sim as [K _]. simpl in K. rewrite <- K. apply alookup_keys. eauto.
            - destruct Sim as [K _]. simpl in K. rewrite <- K. auto. }
          split.
          { apply (exact_on_sim _ _ (st_sets st)); auto. intros x sx Nx Lx. destruct (B x sx Nx Lx) as [B1 B2].
            simpl. split.
            - intros [E|Hx]; [congruence|]. apply B1; auto.
            - intros M Cn. right. apply B2; auto. }
          split.
          { intros s2 L2 _. simpl in L2. rewrite alookup_aset, N.eqb_refl in L2. inversion L2; subst.
            rewrite (lab_matches_static _ s s2); auto. }
          split.
          { intros Ht. contradiction. }
          { intros _ s2 _ _ _. simpl. auto. }
        * destruct (Heps e d0 Hi) as (A' & B' & C' & D1' & D2').
          split. { eapply ep_ok_sim; eauto. }
          split. { apply (exact_on_sim _ _ (st_sets st)); auto. }
          split.
          { intros s2 L2 Hx. simpl in L2. rewrite alookup_aset, N.eqb_refl in L2. inversion L2; subst.
            rewrite (lab_matches_static _ s s2); auto. }
          split.
          { intros Ht. apply D1'. right; auto. }
          { intros Nt s2 L2 M Cn. simpl in L2. rewrite alookup_aset, N.eqb_refl in L2. inversion L2; subst.
            rewrite (lab_matches_static _ s s2) in M; auto. rewrite (contribution_static d0 s s2) in Cn; auto.
            apply (D2' (fun Hx => match Hx with or_introl E => Ne (eq_sym E) | or_intror Hx' => Nt Hx' end) s Ls M Cn). }
      + exists (e1 ++ evs1), F'. split. rewrite Ev, app_assoc. auto.
        split; auto. rewrite (apply_f_app _ _ _ _ Af). auto.
  Qed.

  Lemma apply_f_ext : forall evs F G F', (forall x, F x = G x) -> apply_f F evs = Some F' ->
    exists G', apply_f G evs = Some G' /\ forall x, F' x = G' x.
  Proof.
    induction evs as [|a evs IH]; simpl; intros F G F' E H.
    - inversion H; subst. eauto.
    - unfold apply_f1 in *. rewrite <- E. destruct (apply_local1 (F (ev_sid a)) a) eqn:E1; [|discriminate].
      eapply IH; [|exact H]. intros x. unfold fupd. destruct (N.eqb x (ev_sid a)); auto.
  Qed.

  Lemma GInv_F_ext : forall st F F', (forall x, F x = F' x) -> GInv sup st F -> GInv sup st F'.
  Proof.
    intros st F F' E (A & B & C & D). split; auto. split; auto. split; auto. eapply SetsOK_F_ext; eauto.
  Qed.

  Lemma total_zero : forall eps sets sid m, (forall e d, In (e, d) eps -> term sets d sid m = 0) -> total eps sets sid m = 0.
  Proof.
    induction eps as [|[e d] eps IH]; intros sets sid m H; auto.
    rewrite total_cons. simpl. rewrite (H e d) by (left; auto). rewrite IH; auto. intros. eapply H. right; eauto.
  Qed.

  (* creating IP set sid and scanning the endpoints against it *)
  Lemma create_ok : forall st F sid selid sel proto port st' evs,
    GInv sup st F -> alookup sid (st_sets st) = None ->
    scan_new_set sup shuffle prune_ep (set_set st sid (mkSet selid sel proto port [] [])) sid = (st', evs) ->
    exists F', apply_f F evs = Some F' /\ GInv sup st' F'.
  Proof.
    intros st F sid selid sel proto port st' evs (NDe & NDs & [OA OB] & Heps) Ls H.
    unfold scan_new_set in H.
    set (new := mkSet selid sel proto port [] []) in *.
    set (stc := set_set st sid new) in *.
    assert (Nk : ~ In sid (map fst (st_sets st))).
    { intros Hi. apply alookup_keys in Hi. destruct Hi. congruence. }
    assert (Lx : forall x, x <> sid -> alookup x (st_sets stc) = alookup x (st_sets st)).
    { intros x Nx. simpl. rewrite alookup_aset. apply N.eqb_neq in Nx. rewrite Nx. auto. }
    assert (Nc : forall e d, In (e, d) (st_eps st) -> ~ In sid (e_cache d)).
    { intros e d Hi Hc. destruct (Heps e d Hi) as [(_ & Cs & _) _]. apply Nk. auto. }
    assert (Tx : forall x m, x <> sid -> total (st_eps st) (st_sets stc) x m = total (st_eps st) (st_sets st) x m).
    { intros x m Nx. unfold total. f_equal. apply map_ext. intros kv. unfold term. rewrite Lx; auto. }
    destruct (scan_new_fold sid (ep_candidates shuffle prune_ep stc sid) (tick stc) [] F st' evs)
      as (evs1 & F' & Ev & Af & G'); auto.
    - unfold ep_candidates. apply perm_NoDup; auto. apply NoDup_filter. exact NDe.
    - simpl. apply NoDup_keys_aset; auto.
    - split.
      + intros x s Hx. simpl in Hx. rewrite alookup_aset in Hx. destruct (N.eqb x sid) eqn:Ex.
        * apply N.eqb_eq in Ex. subst x. inversion Hx; subst. rewrite (OB sid Ls).
          split. { split. constructor. intros m n []. }
          split. { apply sinv_empty. }
          intros m. simpl. symmetry. apply total_zero. intros e d Hi. unfold term.
          pose proof (Nc e d Hi) as Hn. apply memN_false in Hn. rewrite Hn. reflexivity.
        * apply N.eqb_neq in Ex. eapply rcinv_ext; [|apply OA; eauto]. intros m. symmetry. apply Tx. auto.
      + intros x Hx. simpl in Hx. rewrite alookup_aset in Hx. destruct (N.eqb x sid); [discriminate|]. auto.
    - exists new. simpl. rewrite alookup_aset, N.eqb_refl. auto.
    - intros e d Hi. simpl in Hi. destruct (Heps e d Hi) as [(Cn & Cs & W) X].
      split.
      { split; auto. split; auto. intros x Hx. simpl. apply alookup_keys. rewrite alookup_aset.
        destruct (N.eqb x sid); eauto. apply alookup_keys. auto. }
      split.
      { intros x s Nx Hx. simpl in Hx. rewrite alookup_aset in Hx. apply N.eqb_neq in Nx. rewrite Nx in Hx.
        apply (X x s Hx). }
      split. { intros s _ Hc. exfalso. eapply Nc; eauto. }
      split. { intros _. eapply Nc; eauto. }
      intros Nt s Hs M _. exfalso. apply Nt. unfold ep_candidates. rewrite perm_In; auto. apply filter_In. split.
      + apply in_map_iff. exists (e, d). auto.
      + simpl in Hs. eapply (prune_ep_sound stc sid s e d); auto. apply In_alookup; auto.
    - simpl in Ev. subst evs1. eauto.
  Qed.

  (* ---------------------------------------------------------------- UpdateIPSet *)
  Lemma update_ipset_ok : forall st F sid selid sel proto port st' evs,
    GInv sup st F -> update_ipset sup shuffle prune_ep st sid selid sel proto port = (st', evs) ->
    exists F', apply_f F evs = Some F' /\ GInv sup st' F'.
  Proof.
    intros st F sid selid sel proto port st' evs G H. unfold update_ipset in H. cbv zeta in H.
    destruct (alookup sid (st_sets st)) as [old|] eqn:Ls.
    2:{ eapply create_ok; eauto. }
    destruct ((s_selid old =? selid)%N && (s_proto old =? proto)%N && bytes_eqb (s_port old) port).
    { inversion H; subst. exists F. auto. }
    destruct (removed_list sup (shuffle st) sid old (shuffle st _ (map fst (s_rc old)))) as [old' evs1] eqn:Er.
    set (st1 := delete_ipset shuffle prune_ep (tick (set_set st sid old')) sid) in *.
    destruct (scan_new_set sup shuffle prune_ep (set_set st1 sid (mkSet selid sel proto port [] [])) sid)
      as [st2 evs2] eqn:Ec.
    injection H as H1 H2. subst st' evs.
    pose proof G as (NDe & NDs & [OA OB] & Heps).
    destruct (OA sid old Ls) as (Ok & Sv & Cn). destruct Ok as [NDk Pos].
    destruct (removed_list_ok sup (shuffle st) (shuffle_ok st) sid (shuffle st _ (map fst (s_rc old))) old
                (map fst (s_rc old)) (F sid) old' evs1 Sv) as (R & St & On & em' & L' & Ap & Sv' & HL'); auto.
    { apply perm_NoDup; auto. }
    { intros m Hm. apply perm_In in Hm; auto. }
    assert (L' = []).
    { destruct L' as [|y L']; auto. exfalso. destruct (HL' y) as [A _]. destruct A as [A1 A2]. left; auto.
      apply A2. apply perm_In; auto. }
    subst L'. apply sinv_nil in Sv'. subst em'.
    destruct (apply_f_on sid evs1 F [] On Ap) as [F1 [Af1 [F1s F1o]]].
    assert (W : WInv sid (tick (set_set st sid old')) F1).
    { assert (Sim : sets_sim (st_sets st) (aset sid old' (st_sets st))) by (eapply sets_sim_aset; eauto).
      split. exact NDe. split. { simpl. apply NoDup_keys_aset; auto. }
      split.
      { intros x s Nx Hx. simpl in Hx. rewrite alookup_aset in Hx. pose proof Nx as Nx'. apply N.eqb_neq in Nx. rewrite Nx in Hx.
        rewrite F1o; auto. eapply rcinv_ext; [|apply OA; eauto]. intros m. simpl. symmetry. apply total_sim. auto. }
      split.
      { intros x Nx Hx. simpl in Hx. rewrite alookup_aset in Hx. pose proof Nx as Nx'. apply N.eqb_neq in Nx. rewrite Nx in Hx.
        rewrite F1o; auto. }
      intros e d Hi. simpl in Hi. destruct (Heps e d Hi) as [A B]. split.
      - eapply ep_ok_sim; eauto.
      - eapply exact_at_sim; eauto. }
    pose proof (delete_ipset_ok (tick (set_set st sid old')) F1 sid W) as G1. fold st1 in G1.
    assert (Ls1 : alookup sid (st_sets st1) = None).
    { unfold st1, delete_ipset. simpl. rewrite alookup_aset, N.eqb_refl. simpl. rewrite alookup_adel, N.eqb_refl. auto. }
    destruct (create_ok st1 (fupd F1 sid []) sid selid sel proto port st2 evs2 G1 Ls1 Ec) as [F2 [Af2 G2]].
    destruct (apply_f_ext evs2 (fupd F1 sid []) F1 F2) as [G2' [Af2' E2]]; auto.
    { intros x. unfold fupd. destruct (N.eqb x sid) eqn:Ex; auto. apply N.eqb_eq in Ex. subst. auto. }
    exists G2'. split. rewrite (apply_f_app _ _ _ _ Af1). auto. eapply GInv_F_ext; eauto.
  Qed.
End SetOps.
