(* C04 — "cover exactly the same addresses", literally: an address lies in some emitted CIDR iff it lies
   in some selected CIDR. *)
From Coq Require Import List NArith Arith Bool Lia Permutation.
From Verif.Common Require Import Labels Prefix.
From Verif.C04 Require Import Model Spec Sets Refs Counts Proofs State Inv Frame View Main SetThms ViewThms.
Import ListNotations.
Local Open Scope nat_scope.

(* address a of family f lies in CIDR c *)
Definition caddr_in (c : cidr) (f : fam) (a : N) : bool :=
  fam_eqb (cfam c) f && contains (width f) (cpre c) a.

Lemma ccovers_contains : forall v c f a, wfc v -> wfc c -> (a < 2 ^ N.of_nat (width f))%N ->
  ccovers v c = true -> caddr_in c f a = true -> caddr_in v f a = true.
Proof.
  intros [fv pv] [fc pc] f a Wv Wc Ha C H. unfold caddr_in in *. simpl in *.
  apply andb_true_iff in H. destruct H as [Ef H]. apply fam_eqb_eq in Ef. subst fc.
  pose proof (ccovers_fam _ _ C) as Fv. simpl in Fv. subst fv.
  rewrite fam_eqb_refl. simpl. unfold ccovers in C. simpl in C. rewrite fam_eqb_refl in C. simpl in C.
  unfold wfc in *. simpl in *.
  apply covers_spec in C; auto. destruct C as [Le Ag].
  apply contains_agree in H; auto. apply contains_agree; auto.
  apply (agree_mono (width f) (plen pv) (plen pc)) in H; auto.
  unfold agree in *. congruence.
Qed.

Lemma c04_suppressed_same_addresses_proof : forall sel_of shuffle prune_ep prune_set ops st evss,
  oracles_ok shuffle prune_ep prune_set -> Forall op_wf ops -> Forall (op_interned sel_of) ops ->
  run true shuffle prune_ep prune_set empty_state ops = (st, evss) ->
  exists F, replay_f (fun _ => []) ops evss = Some F /\
    forall sid vs, alookup sid (v_sets (view_of ops)) = Some vs ->
      forall f a, (a < 2 ^ N.of_nat (width f))%N ->
        ((exists c, In (MCidr c) (F sid) /\ caddr_in c f a = true) <->
         (exists c, In (MCidr c) (spec_members (view_of ops) vs) /\ caddr_in c f a = true)).
Proof.
  intros sel_of shuffle prune_ep prune_set ops st evss O W I H.
  destruct (history_view sel_of _ _ _ _ _ _ _ O W I H) as (F & Rp & G & HR & NDv). exists F. split; auto.
  intros sid vs Lv f a Ha. destruct (view_set_lookup _ _ _ _ _ HR Lv) as [s Ls].
  assert (NDe : NoDup (map fst (st_eps st))) by (destruct G as (A & _); exact A).
  destruct (suppressed_same_cover st F sid s G Ls) as [C1 C2].
  pose proof (GInv_set _ _ _ _ _ G Ls) as Inv.
  assert (WfE : forall c, In (MCidr c) (F sid) -> wfc c).
  { intros c Hc. destruct Inv as (_ & (_ & Wm & _ & D) & _). apply D in Hc. destruct Hc as [Hc _]. apply (Wm _ Hc). }
  assert (WfT : forall c, truth st s (MCidr c) -> wfc c).
  { intros c (e & d & Hi & _ & Hm). destruct G as (_ & _ & _ & Heps). destruct (Heps e d Hi) as [(_ & _ & Wn) _].
    apply (contribution_wf d s Wn _ Hm). }
  split.
  - intros [c [Hc Hin]]. exists c. split; auto.
    apply (truth_spec sel_of st (view_of ops) sid s vs (MCidr c) HR NDe NDv Ls Lv). auto.
  - intros [c [Hc Hin]].
    apply (truth_spec sel_of st (view_of ops) sid s vs (MCidr c) HR NDe NDv Ls Lv) in Hc.
    destruct (C2 c Hc) as [e [He Ce]]. exists e. split; auto.
    apply (ccovers_contains e c f a); auto.
Qed.
