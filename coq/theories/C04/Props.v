(* C04 — property theorems only.

   Reading guide.  [run sup shuffle prune_ep prune_set empty_state ops = (st, evss)] is the model of
   SelectorAndNamedPortIndex (suppressor on iff [sup]) run on the history [ops]; [evss] is the stream
   of OnMemberAdded / OnMemberRemoved events, one list per operation.  The three oracles stand for
   Go map iteration order (any permutation, different at every use) and for the label indexes'
   candidate pruning (anything that keeps every true match); [oracles_ok] says just that.
   [replay_f (fun _ => []) ops evss = Some F] means: feeding the events to a consumer never adds a
   member that is present nor removes one that is absent, and F sid is the consumer's resulting copy
   of IP set sid.  [truth st s m]: some endpoint / network set in the index matches the set's selector
   and m is one of its (address | address,port,protocol) contributions.  [total ... sid m] is the
   number of such contributions, counted with multiplicity. *)
From Coq Require Import List NArith Arith Bool.
From Verif.Common Require Import Labels Prefix.
From Verif.C04 Require Import Model Spec Sets Refs Counts Proofs State Inv Main View ViewThms MeetsSpec Addr Trie Extract.
Import ListNotations.

(* Each member once however many endpoints contribute it: over any history, any iteration order and
   any sound pruning, an add is only emitted for an absent member and a removal for a present one. *)
Theorem c04_no_dup_events : forall sup shuffle prune_ep prune_set ops st evss,
  oracles_ok shuffle prune_ep prune_set -> Forall op_wf ops ->
  run sup shuffle prune_ep prune_set empty_state ops = (st, evss) ->
  exists F, replay_f (fun _ => []) ops evss = Some F /\
            forall sid, NoDup (F sid) /\ (alookup sid (st_sets st) = None -> F sid = []).
Proof. exact c04_no_dup_events_proof. Qed.
Print Assumptions c04_no_dup_events.

(* Reference count invariant: memberToRefCount[m] = number of contributions of m, after any history. *)
Theorem c04_refcount_exact : forall sup shuffle prune_ep prune_set ops st evss,
  oracles_ok shuffle prune_ep prune_set -> Forall op_wf ops ->
  run sup shuffle prune_ep prune_set empty_state ops = (st, evss) ->
  forall sid s m, alookup sid (st_sets st) = Some s ->
    rc_get (s_rc s) m = total (st_eps st) (st_sets st) sid m /\
    (rc_get (s_rc s) m > 0 <-> truth st s m)%nat.
Proof. exact c04_refcount_exact_proof. Qed.
Print Assumptions c04_refcount_exact.

(* Without suppression the accumulated emitted set of every IP set is exactly the set of selected members. *)
Theorem c04_members_exact : forall shuffle prune_ep prune_set ops st evss,
  oracles_ok shuffle prune_ep prune_set -> Forall op_wf ops ->
  run false shuffle prune_ep prune_set empty_state ops = (st, evss) ->
  exists F, replay_f (fun _ => []) ops evss = Some F /\
    forall sid s, alookup sid (st_sets st) = Some s -> forall m, In m (F sid) <-> truth st s m.
Proof. exact c04_members_exact_proof. Qed.
Print Assumptions c04_members_exact.

(* Named-port members (address, port, protocol) are exact with either suppressor setting. *)
Theorem c04_named_port_exact : forall sup shuffle prune_ep prune_set ops st evss,
  oracles_ok shuffle prune_ep prune_set -> Forall op_wf ops ->
  run sup shuffle prune_ep prune_set empty_state ops = (st, evss) ->
  exists F, replay_f (fun _ => []) ops evss = Some F /\
    forall sid s, alookup sid (st_sets st) = Some s ->
      forall f a p q, In (MPort f a p q) (F sid) <-> truth st s (MPort f a p q).
Proof. exact c04_named_port_exact_proof. Qed.
Print Assumptions c04_named_port_exact.

(* With suppression: no emitted CIDR lies inside another emitted CIDR. *)
Theorem c04_suppressed_antichain : forall shuffle prune_ep prune_set ops st evss,
  oracles_ok shuffle prune_ep prune_set -> Forall op_wf ops ->
  run true shuffle prune_ep prune_set empty_state ops = (st, evss) ->
  exists F, replay_f (fun _ => []) ops evss = Some F /\
    forall sid s, alookup sid (st_sets st) = Some s ->
      forall a b, In (MCidr a) (F sid) -> In (MCidr b) (F sid) -> ccovers a b = true -> a = b.
Proof. exact c04_suppressed_antichain_proof. Qed.
Print Assumptions c04_suppressed_antichain.

(* With suppression: the emitted CIDRs cover the same addresses as the selected ones — every emitted
   CIDR is a selected one and every selected CIDR lies inside an emitted one. *)
Theorem c04_suppressed_same_cover : forall shuffle prune_ep prune_set ops st evss,
  oracles_ok shuffle prune_ep prune_set -> Forall op_wf ops ->
  run true shuffle prune_ep prune_set empty_state ops = (st, evss) ->
  exists F, replay_f (fun _ => []) ops evss = Some F /\
    forall sid s, alookup sid (st_sets st) = Some s ->
      (forall c, In (MCidr c) (F sid) -> truth st s (MCidr c)) /\
      (forall c, truth st s (MCidr c) -> exists v, In (MCidr v) (F sid) /\ ccovers v c = true).
Proof. exact c04_suppressed_same_cover_proof. Qed.
Print Assumptions c04_suppressed_same_cover.


(* ---- the same statements against the DATASTORE VIEW of Spec.v (view_of ops = the last value written
   for every endpoint / network set, profile and IP set; spec_members = the members the rule selects
   there).  [op_interned sel_of]: selectors with the same canonical text (what Selector.Equal compares)
   mean the same — the subject of C06. ---- *)

(* Without suppression: every IP set's accumulated emitted members are exactly (as a set, each once) the
   contributions of the endpoints and network sets whose effective labels match its selector. *)
Theorem c04_members_exact_view : forall sel_of shuffle prune_ep prune_set ops st evss,
  oracles_ok shuffle prune_ep prune_set -> Forall op_wf ops -> Forall (op_interned sel_of) ops ->
  run false shuffle prune_ep prune_set empty_state ops = (st, evss) ->
  exists F, replay_f (fun _ => []) ops evss = Some F /\
    forall sid vs, alookup sid (v_sets (view_of ops)) = Some vs ->
      NoDup (F sid) /\ forall m, In m (F sid) <-> In m (spec_members (view_of ops) vs).
Proof. exact c04_members_exact_view_proof. Qed.
Print Assumptions c04_members_exact_view.

(* Named-port sets: exactly the (address, port, protocol) combinations of matching endpoints' named ports,
   with either suppressor setting. *)
Theorem c04_named_port_exact_view : forall sel_of sup shuffle prune_ep prune_set ops st evss,
  oracles_ok shuffle prune_ep prune_set -> Forall op_wf ops -> Forall (op_interned sel_of) ops ->
  run sup shuffle prune_ep prune_set empty_state ops = (st, evss) ->
  exists F, replay_f (fun _ => []) ops evss = Some F /\
    forall sid vs, alookup sid (v_sets (view_of ops)) = Some vs ->
      forall f a p q, In (MPort f a p q) (F sid) <-> In (MPort f a p q) (spec_members (view_of ops) vs).
Proof. exact c04_named_port_exact_view_proof. Qed.
Print Assumptions c04_named_port_exact_view.

(* With suppression: the emitted CIDRs are an antichain, each is a selected CIDR, and every selected CIDR
   lies inside an emitted one — so both cover exactly the same addresses. *)
Theorem c04_suppressed_view : forall sel_of shuffle prune_ep prune_set ops st evss,
  oracles_ok shuffle prune_ep prune_set -> Forall op_wf ops -> Forall (op_interned sel_of) ops ->
  run true shuffle prune_ep prune_set empty_state ops = (st, evss) ->
  exists F, replay_f (fun _ => []) ops evss = Some F /\
    forall sid vs, alookup sid (v_sets (view_of ops)) = Some vs ->
      (forall a b, In (MCidr a) (F sid) -> In (MCidr b) (F sid) -> ccovers a b = true -> a = b) /\
      (forall c, In (MCidr c) (F sid) -> In (MCidr c) (spec_members (view_of ops) vs)) /\
      (forall c, In (MCidr c) (spec_members (view_of ops) vs) ->
                 exists e, In (MCidr e) (F sid) /\ ccovers e c = true).
Proof. exact c04_suppressed_view_proof. Qed.
Print Assumptions c04_suppressed_view.

(* ... literally: with suppression an address lies in some emitted CIDR iff it lies in some selected CIDR. *)
Theorem c04_suppressed_same_cover_addresses : forall sel_of shuffle prune_ep prune_set ops st evss,
  oracles_ok shuffle prune_ep prune_set -> Forall op_wf ops -> Forall (op_interned sel_of) ops ->
  run true shuffle prune_ep prune_set empty_state ops = (st, evss) ->
  exists F, replay_f (fun _ => []) ops evss = Some F /\
    forall sid vs, alookup sid (v_sets (view_of ops)) = Some vs ->
      forall f a, (a < 2 ^ N.of_nat (width f))%N ->
        ((exists c, In (MCidr c) (F sid) /\ caddr_in c f a = true) <->
         (exists c, In (MCidr c) (spec_members (view_of ops) vs) /\ caddr_in c f a = true)).
Proof. exact c04_suppressed_same_addresses_proof. Qed.
Print Assumptions c04_suppressed_same_cover_addresses.

(* The specification oracle of Spec.v — the one the correspondence run applies to the implementation's
   own event stream — accepts every run of the model: every history, either suppressor setting, every
   iteration order, every sound pruning. *)
Theorem c04_model_meets_spec : forall sel_of sup shuffle prune_ep prune_set ops,
  oracles_ok shuffle prune_ep prune_set -> Forall op_wf ops -> Forall (op_interned sel_of) ops ->
  ok_trace sup ops (snd (run sup shuffle prune_ep prune_set empty_state ops)) = true.
Proof. exact c04_model_meets_spec_proof. Qed.
Print Assumptions c04_model_meets_spec.

(* ---- the overlap suppressor on the REAL trie (C36's model of felix/ip/trie.go; Trie.v): memberDeduplicator.Add
   / Remove written with Covers / Update / ClosestDescendants / Delete on one trie per address family return, for
   well-formed tries, exactly what the set-of-stored-prefixes suppressor of Model.v returns under SOME order [sh] of
   the masked CIDRs (every theorem above holds for every such order), ClosestDescendants never runs out of fuel,
   and the refinement relation Rts (same stored prefixes, tries well formed) is kept. ---- *)
Theorem c04_trie_add_refines : forall T S c T' b l,
  Rts T S -> wfc c -> trie_add T c = (T', b, l) ->
  exists sh, perm_ok sh /\ Rts T' (fst (fst (sup_add true sh S c))) /\ sup_add true sh S c = (t_update S c, b, l).
Proof. exact trie_add_sim. Qed.
Print Assumptions c04_trie_add_refines.

Theorem c04_trie_remove_refines : forall T S c T' b l,
  Rts T S -> wfc c -> In c S -> trie_remove T c = (T', b, l) ->
  exists sh, perm_ok sh /\ Rts T' (fst (fst (sup_remove true sh S c))) /\ sup_remove true sh S c = (t_delete S c, b, l).
Proof. exact trie_remove_sim. Qed.
Print Assumptions c04_trie_remove_refines.

(* ... and so the events of onMemberAdded / onMemberRemoved over the trie are those of the model. *)
Theorem c04_trie_on_added_refines : forall sid T s m T' evs,
  Rts T (s_trie s) -> wfm m -> on_added_t sid T m = (T', evs) ->
  exists sh, perm_ok sh /\ snd (on_added true sh sid s m) = evs /\
             Rts T' (s_trie (fst (on_added true sh sid s m))).
Proof. exact on_added_trie_sim. Qed.
Print Assumptions c04_trie_on_added_refines.

Theorem c04_trie_on_removed_refines : forall sid T s m T' evs,
  Rts T (s_trie s) -> wfm m -> (forall c, m = MCidr c -> In c (s_trie s)) -> on_removed_t sid T m = (T', evs) ->
  exists sh, perm_ok sh /\ snd (on_removed true sh sid s m) = evs /\
             Rts T' (s_trie (fst (on_removed true sh sid s m))).
Proof. exact on_removed_trie_sim. Qed.
Print Assumptions c04_trie_on_removed_refines.

(* extractCIDRsFromNetworkSet keeps the addresses of a network set: masking the nets and writing a /0 as its
   two /1 halves (v4 and v6) leaves the set of contained addresses unchanged.  [raw_in c f a]: a lies in net c as
   written in the resource. *)
Theorem c04_netset_extract_same_addresses : forall nets f a,
  (forall c, In c nets -> raw_ok KNetSet c) -> (a < 2 ^ N.of_nat (width f))%N ->
  ((exists e, In e (extract KNetSet nets) /\ caddr_in e f a = true) <-> (exists c, In c nets /\ raw_in c f a)).
Proof. exact c04_netset_extract_same_addresses_proof. Qed.
Print Assumptions c04_netset_extract_same_addresses.

(* Named-port members always carry a real protocol (TCP, UDP or SCTP), never "none". *)
Theorem c04_named_port_protocol : forall e, protocol_from e <> P_NONE.
Proof. exact protocol_from_not_none. Qed.
Print Assumptions c04_named_port_protocol.

(* The hypotheses are satisfiable: the canonical oracles used by the correspondence run qualify. *)
Theorem c04_oracles_satisfiable : oracles_ok id_shuffle no_prune_ep no_prune_set.
Proof. exact canon_oracles_ok. Qed.
Print Assumptions c04_oracles_satisfiable.

(* Non-vacuity: two endpoints share 10.0.0.1, a network set holds 10.0.0.0/24 and 0.0.0.0/0; with the
   suppressor on the shared address is never emitted on its own and the /0 halves swallow the /24. *)
Example c04_example_suppressed :
  let ops := [OpIPSet 0 0 (SEq (B [97]%N) (B [120]%N)) 0 (B []);
              OpEp 1 KWep [(B [97]%N, B [120]%N)] [c4 167772161 32] [] [];
              OpEp 2 KWep [(B [97]%N, B [120]%N)] [c4 167772161 32] [] [];
              OpEp 5 KNetSet [(B [97]%N, B [120]%N)] [c4 167772160 24; c4 0 0] [] [];
              OpDelEp 1] in
  snd (run_canon true ops) =
    [[]; [EAdd 0 (MCidr (c4 167772161 32))]; [];
     [EAdd 0 (MCidr (c4 167772160 24)); ERem 0 (MCidr (c4 167772161 32));
      EAdd 0 (MCidr (c4 0 1)); ERem 0 (MCidr (c4 167772160 24)); EAdd 0 (MCidr (c4 2147483648 1))];
     []].
Proof. vm_compute. reflexivity. Qed.
