(* C04 — property theorems only. *)
From Coq Require Import List NArith Arith Bool.
From Verif.Common Require Import Labels Prefix.
From Verif.C04 Require Import Model Spec Proofs.
Import ListNotations.

(* Named-port members always carry a real protocol (TCP, UDP or SCTP), never "none". *)
Theorem c04_named_port_protocol : forall e, protocol_from e <> P_NONE.
Proof. exact protocol_from_not_none. Qed.
Print Assumptions c04_named_port_protocol.
