(* C04 — specification: what the property text says, stated over the DATASTORE VIEW (the last
   value written for every endpoint / network set / profile / IP set), not over the index's
   reference counts, caches or tries.

     "Every IP set Felix emits for a rule selector contains exactly the addresses of the endpoints
      and network sets whose effective labels match that selector (for named-port sets, exactly the
      address, protocol and port combinations of matching endpoints' named ports), each member once
      however many endpoints contribute it.  Where overlapping CIDRs are suppressed, the emitted
      members cover exactly the same addresses and no emitted member lies inside another."

   The observable is the stream of OnMemberAdded / OnMemberRemoved events per operation; the
   consumer's copy of an IP set is what the events accumulate to ([apply_events]); "each member
   once" = an add is only ever emitted for an absent member and a removal for a present one.
   [ok_trace] is the boolean oracle applied to the implementation's own event stream. *)
From Coq Require Import List NArith Arith Bool.
From Verif.Common Require Import Labels Prefix.
From Verif.C04 Require Import Model.
Import ListNotations.

(* ------------------------------------------------------------------ the consumer's copy *)

Definition emap := list (N * list member).
Definition em_get (em : emap) (sid : N) : list member :=
  match alookup sid em with Some l => l | None => [] end.
Definition mem_member (m : member) (l : list member) : bool := existsb (member_eqb m) l.
Definition remove_member (m : member) (l : list member) : list member :=
  filter (fun x => negb (member_eqb m x)) l.

(* None = a member added while present or removed while absent *)
Definition apply_event (em : emap) (e : event) : option emap :=
  match e with
  | EAdd sid m =>
      let l := em_get em sid in
      if mem_member m l then None else Some (aset sid (l ++ [m]) em)
  | ERem sid m =>
      let l := em_get em sid in
      if mem_member m l then Some (aset sid (remove_member m l) em) else None
  end.
Fixpoint apply_events (em : emap) (evs : list event) : option emap :=
  match evs with
  | [] => Some em
  | e :: evs' => match apply_event em e with Some em' => apply_events em' evs' | None => None end
  end.

(* removing the IP set itself drops its members wholesale (no per-member events) *)
Definition after_op (o : op) (em : emap) : emap :=
  match o with OpDelIPSet sid => adel sid em | _ => em end.

(* ------------------------------------------------------------------ the datastore view *)

Record vep := mkVep { ve_kind : kind; ve_labels : labels; ve_nets : list cidr; ve_ports : list eport; ve_parents : list N }.
Record vset := mkVset { vs_sel : ast; vs_proto : N; vs_port : bytes }.
Record view := mkView { v_eps : list (N * vep); v_pars : list (N * labels); v_sets : list (N * vset) }.
Definition empty_view : view := mkView [] [] [].

Definition view_step (v : view) (o : op) : view :=
  match o with
  | OpIPSet sid _ sel proto port => mkView (v_eps v) (v_pars v) (aset sid (mkVset sel proto port) (v_sets v))
  | OpDelIPSet sid => mkView (v_eps v) (v_pars v) (adel sid (v_sets v))
  | OpEp eid k l nets ports parents => mkView (aset eid (mkVep k l nets ports parents) (v_eps v)) (v_pars v) (v_sets v)
  | OpDelEp eid => mkView (adel eid (v_eps v)) (v_pars v) (v_sets v)
  | OpParent pid l => mkView (v_eps v) (aset pid l (v_pars v)) (v_sets v)
  | OpDelParent pid => mkView (v_eps v) (adel pid (v_pars v)) (v_sets v)
  end.

Definition view_of (ops : list op) : view := fold_left view_step ops empty_view.

(* effective labels: own labels, then the labels of the profiles in order (Common/Labels.matches) *)
Definition v_par_labels (v : view) (pid : N) : labels :=
  match alookup pid (v_pars v) with Some l => l | None => [] end.
Definition v_matches (v : view) (s : vset) (e : vep) : bool :=
  matches (vs_sel s) (ve_labels e) (map (v_par_labels v) (ve_parents e)).

(* the addresses of an endpoint / the CIDRs of a network set (0.0.0.0/0 and ::/0 are written as
   their two halves because the dataplane cannot hold a /0) *)
Definition spec_cidrs (e : vep) : list cidr := extract (ve_kind e) (ve_nets e).

(* every (address, port, protocol) of the endpoint's ports called [name] whose protocol fits *)
Definition spec_port_members (e : vep) (name : bytes) (proto : N) : list member :=
  flat_map (fun c =>
    flat_map (fun p =>
      if bytes_eqb (pt_name p) name && matches_proto proto (pt_proto p)
      then [MPort (cfam c) (paddr (cpre c)) (pt_port p) (protocol_from (pt_proto p))] else [])
      (extract_ports (ve_kind e) (ve_ports e)))
    (spec_cidrs e).

Definition spec_contrib (s : vset) (e : vep) : list member :=
  if (vs_proto s =? P_NONE)%N then map MCidr (spec_cidrs e)
  else spec_port_members e (vs_port s) (vs_proto s).

(* the true members of IP set s: contributions of all matching endpoints / network sets *)
Definition spec_members (v : view) (s : vset) : list member :=
  flat_map (fun kv => if v_matches v s (snd kv) then spec_contrib s (snd kv) else []) (v_eps v).

(* ------------------------------------------------------------------ set-level predicates *)

Definition incl_b (a b : list member) : bool := forallb (fun x => mem_member x b) a.
Definition set_eq_b (a b : list member) : bool := incl_b a b && incl_b b a.

Fixpoint nodup_b (l : list member) : bool :=
  match l with [] => true | x :: l' => negb (mem_member x l') && nodup_b l' end.

Definition cidrs_of (l : list member) : list cidr :=
  flat_map (fun m => match m with MCidr c => [c] | _ => [] end) l.
Definition only_cidrs (l : list member) : bool :=
  forallb (fun m => match m with MCidr _ => true | _ => false end) l.

(* no member lies inside another *)
Definition antichain_b (l : list cidr) : bool :=
  forallb (fun a => forallb (fun b => cidr_eqb a b || negb (ccovers a b)) l) l.

(* the two halves of a CIDR *)
Definition half (c : cidr) (hi : bool) : cidr :=
  let w := width (cfam c) in
  let l := plen (cpre c) in
  mkC (cfam c) (mkP (if hi then paddr (cpre c) + 2 ^ N.of_nat (w - l - 1) else paddr (cpre c))%N (S l)).

(* every address of c is an address of some element of S.  Either one element covers c, or (only
   worth trying when some element lies inside c) both halves are subsumed. *)
Fixpoint subsumed (fuel : nat) (c : cidr) (S : list cidr) : bool :=
  if existsb (fun s => ccovers s c) S then true
  else match fuel with
       | O => false
       | Datatypes.S f =>
           if (plen (cpre c) <? width (cfam c))%nat && existsb (fun s => ccovers c s) S then
             if subsumed f (half c false) S then subsumed f (half c true) S else false
           else false
       end.

(* the unions of addresses are equal *)
Definition same_cover_b (A B : list cidr) : bool :=
  forallb (fun a => subsumed 129 a B) A && forallb (fun b => subsumed 129 b A) B.

(* what one IP set must look like *)
Definition ok_set (sup : bool) (s : vset) (truth emitted : list member) : bool :=
  nodup_b emitted &&
  if (vs_proto s =? P_NONE)%N && sup then
    only_cidrs emitted && antichain_b (cidrs_of emitted) && same_cover_b (cidrs_of emitted) (cidrs_of truth)
  else set_eq_b emitted truth.

Definition ok_view (sup : bool) (v : view) (em : emap) : bool :=
  forallb (fun kv => ok_set sup (snd kv) (spec_members v (snd kv)) (em_get em (fst kv))) (v_sets v)
  && forallb (fun kv => match alookup (fst kv) (v_sets v), snd kv with
                        | None, _ :: _ => false          (* members for an IP set that does not exist *)
                        | _, _ => true
                        end) em.

(* ------------------------------------------------------------------ oracle over one observed history *)

Fixpoint ok_trace_from (sup : bool) (v : view) (em : emap) (ops : list op) (evss : list (list event)) : bool :=
  match ops, evss with
  | [], [] => true
  | o :: ops', evs :: evss' =>
      match apply_events em evs with
      | None => false
      | Some em1 =>
          let em2 := after_op o em1 in
          let v' := view_step v o in
          ok_view sup v' em2 && ok_trace_from sup v' em2 ops' evss'
      end
  | _, _ => false
  end.

Definition ok_trace (sup : bool) (ops : list op) (evss : list (list event)) : bool :=
  ok_trace_from sup empty_view [] ops evss.

(* ------------------------------------------------------------------ correspondence case *)

Definition emap_eq_b (a b : emap) : bool :=
  forallb (fun kv => set_eq_b (snd kv) (em_get b (fst kv))) a
  && forallb (fun kv => set_eq_b (snd kv) (em_get a (fst kv))) b.

(* model and implementation accumulate to the same member sets after every operation *)
Fixpoint agree_from (em_m em_i : emap) (ops : list op) (ev_m ev_i : list (list event)) : bool :=
  match ops, ev_m, ev_i with
  | [], [], [] => true
  | o :: ops', a :: ev_m', b :: ev_i' =>
      match apply_events em_m a, apply_events em_i b with
      | Some m1, Some i1 =>
          let m2 := after_op o m1 in
          let i2 := after_op o i1 in
          emap_eq_b m2 i2 && agree_from m2 i2 ops' ev_m' ev_i'
      | _, _ => false
      end
  | _, _, _ => false
  end.

Record case := mkCase { c_sup : bool; c_ops : list op; c_events : list (list event) }.

Definition check_case (c : case) : bool * bool :=
  (agree_from [] [] (c_ops c) (snd (run_canon (c_sup c) (c_ops c))) (c_events c),
   ok_trace (c_sup c) (c_ops c) (c_events c)).

(* short constructors for the driver's output *)
Definition c4 (a : N) (l : nat) : cidr := mkC V4 (mkP a l).
Definition c6 (a : N) (l : nat) : cidr := mkC V6 (mkP a l).
Definition B (l : list N) : bytes := l.
