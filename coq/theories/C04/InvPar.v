(* C04 — UpdateParentLabels / DeleteParentLabels keep the invariant. *)
From Coq Require Import List NArith Arith Bool Lia Permutation.
From Verif.Common Require Import Labels Prefix.
From Verif.C04 Require Import Model Spec Sets Refs Counts Proofs State Inv.
Import ListNotations.
Local Open Scope nat_scope.

Lemma par_labels_set_par : forall st pid l p,
  par_labels (set_par st pid l) p = if N.eqb p pid then l else par_labels st p.
Proof.
  intros. unfold par_labels, set_par. simpl. rewrite alookup_aset. destruct (N.eqb p pid); reflexivity.
Qed.

Section Par.
  Variable sup : bool.
  Variable shuffle : state -> forall A : Type, list A -> list A.
  Variable prune_ep : state -> N -> N -> bool.
  Variable prune_set : state -> epdata -> N -> bool.
  Hypothesis shuffle_ok : forall st, perm_ok (shuffle st).
  Hypothesis prune_set_sound : forall st d sid s,
    alookup sid (st_sets st) = Some s -> ep_matches st s d = true -> prune_set st d sid = true.

  Lemma update_parent_fold : forall pid oldl newl (plab_new : N -> labels) ids st evs F lab st' evs',
    GInvL sup lab st F ->
    (forall p, p <> pid -> par_labels st p = plab_new p) -> plab_new pid = newl ->
    (forall e d, In (e, d) (st_eps st) -> In e ids \/ forall p, In p (e_parents d) -> lab e p = plab_new p) ->
    fold_left (update_parent_step sup shuffle prune_set pid oldl newl) ids (st, evs) = (st', evs') ->
    exists evs1 F' lab', evs' = evs ++ evs1 /\ apply_f F evs1 = Some F' /\ GInvL sup lab' st' F' /\
      (forall p, p <> pid -> par_labels st' p = plab_new p) /\
      (forall e d, In (e, d) (st_eps st') -> forall p, In p (e_parents d) -> lab' e p = plab_new p).
  Proof.
    intros pid oldl newl plab_new. induction ids as [|eid ids IH]; intros st evs F lab st' evs' G Hp Hn Hc H.
    - simpl in H. inversion H; subst. exists [], F, lab. rewrite app_nil_r. split; auto. split; auto.
      split; auto. split; auto. intros e d Hi. destruct (Hc e d Hi) as [[]|]; auto.
    - simpl in H. destruct (alookup eid (st_eps st)) as [d|] eqn:Le.
      + change (recalc (set_par st pid oldl) d) with (recalc st d) in H.
        destruct (scan_ep sup shuffle prune_set (set_par st pid newl) d (recalc st d)) as [[st2 d'] evs2] eqn:Es.
        destruct (rescan_inplace sup shuffle prune_ep prune_set shuffle_ok prune_set_sound
                    lab st (set_par st pid newl) eid d F st2 d' evs2 G Le eq_refl eq_refl Es)
          as [F1 [Af [Ep G1]]].
        assert (Hp1 : forall p, p <> pid -> par_labels (set_ep st2 eid d') p = plab_new p).
        { intros p Np. unfold par_labels. change (st_pars (set_ep st2 eid d')) with (st_pars st2). rewrite Ep.
          change (match alookup p (st_pars (set_par st pid newl)) with Some l => l | None => [] end)
            with (par_labels (set_par st pid newl) p).
          rewrite par_labels_set_par. apply N.eqb_neq in Np. rewrite Np. apply Hp. apply N.eqb_neq. auto. }
        assert (Hc1 : forall e d0, In (e, d0) (st_eps (set_ep st2 eid d')) ->
                  In e ids \/ forall p, In p (e_parents d0) ->
                    (fun e => if N.eqb e eid then par_labels (set_par st pid newl) else lab e) e p = plab_new p).
        { intros e d0 Hi. destruct G1 as (NDe1 & _).
          assert (Ee : st_eps st2 = st_eps st).
          { destruct (scan_ep_ok sup shuffle prune_ep prune_set shuffle_ok (set_par st pid newl) d (recalc st d) F
                        (total (st_eps st) (st_sets st)) st2 d' evs2) as (Ee & _); auto; try apply G.
            - destruct G as (_ & _ & _ & He). pose proof (alookup_In _ _ _ Le) as Ie.
              destruct (He eid d Ie) as [(_ & _ & W) _]. exact W.
            - rewrite map_fst_recalc. destruct G as (_ & _ & _ & He). pose proof (alookup_In _ _ _ Le) as Ie.
              destruct (He eid d Ie) as [(Cn & _ & _) _]. exact Cn.
            - intros sid ms Hi'. destruct G as (NDe & NDs & OK & He). pose proof (alookup_In _ _ _ Le) as Ie.
              destruct (He eid d Ie) as [(Cn & Cs & _) _].
              assert (NDo : NoDup (map fst (recalc st d))) by (rewrite map_fst_recalc; auto).
              pose proof (In_alookup _ _ _ NDo Hi') as La.
              assert (Hcache : In sid (e_cache d)).
              { rewrite <- map_fst_recalc with (st := st). apply in_map_iff. exists (sid, ms). auto. }
              split. { apply alookup_keys. auto. }
              intros x. pose proof (old_term_recalc st d sid x) as Ot. unfold old_term in Ot. rewrite La in Ot.
              rewrite Ot. eapply total_ge_term; eauto. }
          simpl in Hi. rewrite Ee in Hi. destruct G as (NDe & _).
          apply In_aset in Hi; auto. destruct Hi as [[-> ->] | [Ne Hi]].
          - right. intros p _. rewrite N.eqb_refl. rewrite par_labels_set_par.
            destruct (N.eqb p pid) eqn:Epp.
            + apply N.eqb_eq in Epp. subst. auto.
            + apply Hp. apply N.eqb_neq. auto.
          - apply N.eqb_neq in Ne. rewrite Ne. destruct (Hc e d0 Hi) as [[->|Hin]|Hr]; auto.
            apply N.eqb_neq in Ne. congruence. }
        destruct (IH _ _ _ _ _ _ G1 Hp1 Hn Hc1 H) as (evs1 & F' & lab' & Ev & Af' & G' & Hp' & Hc').
        exists (evs2 ++ evs1), F', lab'. split. rewrite Ev, app_assoc. auto.
        split. rewrite (apply_f_app _ _ _ _ Af). auto. auto.
      + assert (Hc1 : forall e d0, In (e, d0) (st_eps st) ->
                  In e ids \/ forall p, In p (e_parents d0) -> lab e p = plab_new p).
        { intros e d0 Hi. destruct (Hc e d0 Hi) as [[->|Hin]|Hr]; auto.
          destruct G as (NDe & _). apply In_alookup in Hi; auto. congruence. }
        apply (IH _ _ _ _ _ _ G Hp Hn Hc1 H).
  Qed.

  (* ---------------------------------------------------------------- UpdateParentLabels *)
  Lemma update_parent_ok : forall st F pid newl st' evs,
    GInv sup st F -> update_parent sup shuffle prune_set st pid newl = (st', evs) ->
    exists F', apply_f F evs = Some F' /\ GInv sup st' F'.
  Proof.
    intros st F pid newl st' evs G H. unfold update_parent in H.
    destruct (labels_equiv (par_labels st pid) newl).
    { inversion H; subst. exists F. split; auto. }
    set (ids := shuffle st _ (map fst (filter (fun kv => memN pid (e_parents (snd kv))) (st_eps st)))) in *.
    destruct (fold_left (update_parent_step sup shuffle prune_set pid (par_labels st pid) newl) ids (tick st, []))
      as [st1 evs1] eqn:Ef.
    inversion H; subst; clear H.
    set (plab_new := fun p => if N.eqb p pid then newl else par_labels st p).
    assert (Hc : forall e d, In (e, d) (st_eps (tick st)) ->
              In e ids \/ forall p, In p (e_parents d) -> (fun _ : N => par_labels st) e p = plab_new p).
    { intros e d Hi. simpl in Hi. destruct (memN pid (e_parents d)) eqn:Em.
      - left. unfold ids. rewrite perm_In; auto. apply in_map_iff. exists (e, d). split; auto.
        apply filter_In. split; auto.
      - right. intros p Hp. unfold plab_new. destruct (N.eqb p pid) eqn:Epp; auto.
        apply N.eqb_eq in Epp. subst. apply memN_false in Em. contradiction. }
    destruct (update_parent_fold pid (par_labels st pid) newl plab_new ids (tick st) [] F
                (fun _ => par_labels st) st1 evs) as (ev1 & F' & lab' & Ev & Af & G' & Hp' & Hc'); auto.
    { intros p Np. unfold plab_new. apply N.eqb_neq in Np. rewrite Np. reflexivity. }
    { unfold plab_new. rewrite N.eqb_refl. reflexivity. }
    simpl in Ev. subst ev1. exists F'. split; auto.
    unfold GInv. apply (GInvL_ext sup lab'); [|exact G'].
    intros e d p Hi Hp. rewrite (Hc' e d Hi p Hp). rewrite par_labels_set_par. unfold plab_new.
    destruct (N.eqb p pid) eqn:Epp; auto. rewrite Hp' by (apply N.eqb_neq; auto).
    unfold plab_new. rewrite Epp. reflexivity.
  Qed.
End Par.
