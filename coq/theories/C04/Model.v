(* C04 — executable model of felix/labelindex/named_port_index.go (SelectorAndNamedPortIndex).
   Definitions only.

   What is modelled, function by function (Go name -> Gallina name):
     extractCIDRsFrom{Workload,Host}Endpoint / NetworkSet   extract        (/0 -> two /1, masking, host-ification)
     Protocol.MatchesModelProtocol / ProtocolFrom           matches_proto / protocol_from
     endpointData.LookupNamedPorts                          lookup_named_ports
     CalculateEndpointContribution                          contribution
     RecalcCachedContributions                              recalc
     memberDeduplicator.Add / Remove (+ noop variant)       sup_add / sup_remove
     onMemberAdded / onMemberRemoved                        on_added / on_removed
     the incref / decref loops over memberToRefCount        incref(_list) / decref(_list)
     UpdateIPSet / DeleteIPSet                              update_ipset / delete_ipset
     scanEndpointAgainstIPSets                              scan_ep        (add-then-decref order)
     UpdateEndpointOrSet / DeleteEndpoint                   update_ep / delete_ep
     UpdateParentLabels(+updateParent) / DeleteParentLabels update_parent (revert / apply per endpoint)

   What is abstract:
   * The overlap suppressor's per-IP-set, per-family CIDR trie is the SET of stored prefixes (a list
     without duplicates): Covers = some stored prefix covers the query, ClosestDescendants = the
     stored prefixes strictly inside the query with no stored prefix strictly in between.  (The trie
     itself is C36's subject: c36_update / c36_delete / c36_covers say that Update, Delete and Covers
     of the real trie are exactly these set operations.)  One list with a family tag on every CIDR
     stands for the v4tries / v6tries pair; prefixes of different families never cover each other.
   * Candidate pruning (labelnamevalueindex strategies in iterEndpointCandidates,
     labelrestrictionindex.AllPotentialMatches) is the oracle pair [prune_ep] / [prune_set]: ANY
     predicate that keeps every true match (that it does is property C07).
   * Every Go map / set iteration order is [shuffle st]: ANY permutation, possibly a different
     one at every state (the state carries a tick that is bumped at every use).
   * Parents are referred to by ID (the Go code shares *npParentData pointers; a parent with no
     labels and no endpoints is dropped, which is the same as "absent = no labels").
   * Selector.Equal compares the hash of the canonical text; the driver interns that text to the
     number [s_selid].
   * uint64 reference counts are nat.  decref at count 0 would wrap around in Go; here it leaves the
     count alone — the invariant theorem shows it never happens. *)
From Coq Require Import List NArith Arith Bool.
From Verif.Common Require Import Labels Prefix.
Import ListNotations.

(* ------------------------------------------------------------------ addresses, CIDRs, members *)

Inductive fam := V4 | V6.
Definition fam_eqb (a b : fam) : bool :=
  match a, b with V4, V4 => true | V6, V6 => true | _, _ => false end.
Definition width (f : fam) : nat := match f with V4 => 32 | V6 => 128 end.

Record cidr := mkC { cfam : fam; cpre : prefix }.
Definition cidr_eqb (a b : cidr) : bool := fam_eqb (cfam a) (cfam b) && prefix_eqb (cpre a) (cpre b).
(* a covers b: same family and every address of b is an address of a *)
Definition ccovers (a b : cidr) : bool :=
  fam_eqb (cfam a) (cfam b) && covers (width (cfam a)) (cpre a) (cpre b).
Definition cstrict (a b : cidr) : bool := ccovers a b && negb (cidr_eqb a b).
Definition chost (f : fam) (a : N) : cidr := mkC f (mkP a (width f)).

(* ipsetmember.IPSetMember: a CIDR (single addresses are /32, /128) or (address, port, protocol) *)
Inductive member :=
| MCidr (c : cidr)
| MPort (f : fam) (a : N) (port : N) (proto : N).

Definition member_eqb (x y : member) : bool :=
  match x, y with
  | MCidr a, MCidr b => cidr_eqb a b
  | MPort f a p q, MPort f' a' p' q' => fam_eqb f f' && N.eqb a a' && N.eqb p p' && N.eqb q q'
  | _, _ => false
  end.

(* ------------------------------------------------------------------ protocols *)

(* ipsetmember.Protocol values *)
Definition P_NONE : N := 0.
Definition P_TCP : N := 6.
Definition P_UDP : N := 17.
Definition P_SCTP : N := 132.
Definition P_ANY : N := 255.

(* numorstring.Protocol *)
Inductive eproto := PNum (n : N) | PStr (s : bytes).

Definition lower_byte (b : N) : N := if (65 <=? b)%N && (b <=? 90)%N then (b + 32)%N else b.
Definition s_tcp : bytes := [116; 99; 112]%N.
Definition s_udp : bytes := [117; 100; 112]%N.
Definition s_sctp : bytes := [115; 99; 116; 112]%N.

(* Protocol.MatchesModelProtocol *)
Definition matches_proto (p : N) (e : eproto) : bool :=
  match e with
  | PNum n => if (n =? 0)%N then (p =? P_ANY)%N else (n =? p)%N
  | PStr s =>
      let s' := map lower_byte s in
      if (p =? P_TCP)%N then bytes_eqb s' s_tcp
      else if (p =? P_UDP)%N then bytes_eqb s' s_udp
      else if (p =? P_SCTP)%N then bytes_eqb s' s_sctp
      else (p =? P_ANY)%N
  end.

(* ProtocolFrom *)
Definition protocol_from (e : eproto) : N :=
  if matches_proto P_UDP e then P_UDP else if matches_proto P_SCTP e then P_SCTP else P_TCP.

(* ------------------------------------------------------------------ index state *)

Record eport := mkPort { pt_name : bytes; pt_proto : eproto; pt_port : N }.

Record epdata := mkEp {
  e_labels : labels;
  e_nets : list cidr;
  e_ports : list eport;
  e_parents : list N;         (* parent (profile) IDs, in order *)
  e_cache : list N            (* cachedMatchingIPSetIDs *)
}.

Record ipset := mkSet {
  s_selid : N;                        (* interned canonical text of the selector (Selector.Equal) *)
  s_sel : ast;
  s_proto : N;                        (* namedPortProtocol; P_NONE = selector-only set *)
  s_port : bytes;                     (* namedPort *)
  s_rc : list (member * nat);         (* memberToRefCount *)
  s_trie : list cidr                  (* overlap suppressor: stored prefixes of this IP set *)
}.

Record state := mkSt {
  st_eps : list (N * epdata);
  st_pars : list (N * labels);
  st_sets : list (N * ipset);
  st_tick : nat
}.

Definition empty_state : state := mkSt [] [] [] 0.

(* association lists keyed by N *)
Fixpoint alookup {A} (k : N) (l : list (N * A)) : option A :=
  match l with
  | [] => None
  | (k', v) :: l' => if N.eqb k k' then Some v else alookup k l'
  end.
Fixpoint aset {A} (k : N) (v : A) (l : list (N * A)) : list (N * A) :=
  match l with
  | [] => [(k, v)]
  | (k', v') :: l' => if N.eqb k k' then (k, v) :: l' else (k', v') :: aset k v l'
  end.
Definition adel {A} (k : N) (l : list (N * A)) : list (N * A) :=
  filter (fun kv => negb (N.eqb k (fst kv))) l.
Definition memN (k : N) (l : list N) : bool := existsb (N.eqb k) l.

Definition set_eps (st : state) (e : list (N * epdata)) : state := mkSt e (st_pars st) (st_sets st) (st_tick st).
Definition set_pars (st : state) (p : list (N * labels)) : state := mkSt (st_eps st) p (st_sets st) (st_tick st).
Definition set_sets (st : state) (s : list (N * ipset)) : state := mkSt (st_eps st) (st_pars st) s (st_tick st).
Definition tick (st : state) : state := mkSt (st_eps st) (st_pars st) (st_sets st) (S (st_tick st)).

Definition with_cache (d : epdata) (c : list N) : epdata := mkEp (e_labels d) (e_nets d) (e_ports d) (e_parents d) c.
Definition add_cache (d : epdata) (sid : N) : epdata :=
  if memN sid (e_cache d) then d else with_cache d (sid :: e_cache d).
Definition rm_cache (d : epdata) (sid : N) : epdata :=
  with_cache d (filter (fun x => negb (N.eqb sid x)) (e_cache d)).

Definition with_rc (s : ipset) (rc : list (member * nat)) : ipset :=
  mkSet (s_selid s) (s_sel s) (s_proto s) (s_port s) rc (s_trie s).
Definition with_trie (s : ipset) (t : list cidr) : ipset :=
  mkSet (s_selid s) (s_sel s) (s_proto s) (s_port s) (s_rc s) t.

(* ------------------------------------------------------------------ labels and matching *)

Definition par_labels (st : state) (pid : N) : labels :=
  match alookup pid (st_pars st) with Some l => l | None => [] end.

(* endpointData.GetHandle: own labels, then the parents in order *)
Definition eff_labels (st : state) (d : epdata) : labels :=
  effective (e_labels d) (map (par_labels st) (e_parents d)).

Definition ep_matches (st : state) (s : ipset) (d : epdata) : bool := eval (s_sel s) (eff_labels st d).

(* uniquelabels.Map.Equals: same key/value pairs *)
Definition labels_sub (a b : labels) : bool :=
  forallb (fun kv => match lookup (fst kv) a, lookup (fst kv) b with
                     | Some x, Some y => bytes_eqb x y
                     | _, _ => false
                     end) a.
Definition labels_equiv (a b : labels) : bool := labels_sub a b && labels_sub b a.

Fixpoint list_eqb {A} (eqb : A -> A -> bool) (x y : list A) : bool :=
  match x, y with
  | [], [] => true
  | a :: x', b :: y' => eqb a b && list_eqb eqb x' y'
  | _, _ => false
  end.

Definition eproto_eqb (a b : eproto) : bool :=
  match a, b with
  | PNum x, PNum y => N.eqb x y
  | PStr x, PStr y => bytes_eqb x y
  | _, _ => false
  end.
Definition eport_eqb (a b : eport) : bool :=
  bytes_eqb (pt_name a) (pt_name b) && eproto_eqb (pt_proto a) (pt_proto b) && N.eqb (pt_port a) (pt_port b).

(* endpointData.Equals (the cache is not compared) *)
Definition ep_equal (a b : epdata) : bool :=
  labels_equiv (e_labels a) (e_labels b)
  && list_eqb eport_eqb (e_ports a) (e_ports b)
  && list_eqb cidr_eqb (e_nets a) (e_nets b)
  && list_eqb N.eqb (e_parents a) (e_parents b).

(* ------------------------------------------------------------------ contributions *)

(* LookupNamedPorts: (protocol, port) of the endpoint's ports with that name and a matching protocol *)
Definition lookup_named_ports (d : epdata) (name : bytes) (proto : N) : list (N * N) :=
  flat_map (fun p => if bytes_eqb (pt_name p) name && matches_proto proto (pt_proto p)
                     then [(protocol_from (pt_proto p), pt_port p)] else []) (e_ports d).

(* MakeIPPortProto *)
Definition make_ip_port_proto (f : fam) (a : N) (port proto : N) : member :=
  if (port =? 0)%N && (proto =? P_NONE)%N then MCidr (chost f a) else MPort f a port proto.

(* CalculateEndpointContribution *)
Definition contribution (d : epdata) (s : ipset) : list member :=
  if negb (s_proto s =? P_NONE)%N then
    flat_map (fun pp => map (fun c => make_ip_port_proto (cfam c) (paddr (cpre c)) (snd pp) (fst pp)) (e_nets d))
             (lookup_named_ports d (s_port s) (s_proto s))
  else map MCidr (e_nets d).

(* RecalcCachedContributions (Go panics on a cached ID without IP set; here: no members) *)
Definition recalc (st : state) (d : epdata) : list (N * list member) :=
  map (fun sid => match alookup sid (st_sets st) with
                  | Some s => (sid, contribution d s)
                  | None => (sid, [])
                  end) (e_cache d).

(* ------------------------------------------------------------------ input extraction *)

Inductive kind := KWep | KHep | KNetSet | KRaw.

Definition cnorm (c : cidr) : cidr :=
  mkC (cfam c) (mkP (mask (width (cfam c)) (plen (cpre c)) (paddr (cpre c))) (plen (cpre c))).

(* extractCIDRsFromNetworkSet on one net *)
Definition extract_net (c : cidr) : list cidr :=
  let c' := cnorm c in
  if Nat.eqb (plen (cpre c')) 0 then
    [mkC (cfam c) (mkP 0%N 1); mkC (cfam c) (mkP (2 ^ N.of_nat (width (cfam c) - 1))%N 1)]
  else [c'].

Definition extract (k : kind) (nets : list cidr) : list cidr :=
  match k with
  | KWep | KHep => map (fun c => chost (cfam c) (paddr (cpre c))) nets
  | KNetSet => flat_map extract_net nets
  | KRaw => nets
  end.
Definition extract_ports (k : kind) (ports : list eport) : list eport :=
  match k with KNetSet => [] | _ => ports end.

(* ------------------------------------------------------------------ overlap suppressor *)

Definition t_covers (T : list cidr) (c : cidr) : bool := existsb (fun p => ccovers p c) T.
Definition t_update (T : list cidr) (c : cidr) : list cidr := if existsb (cidr_eqb c) T then T else T ++ [c].
Definition t_delete (T : list cidr) (c : cidr) : list cidr := filter (fun p => negb (cidr_eqb p c)) T.
(* ClosestDescendants of a stored c *)
Definition t_closest (T : list cidr) (c : cidr) : list cidr :=
  filter (fun q => cstrict c q && negb (existsb (fun r => cstrict c r && cstrict r q) T)) T.

Inductive event := EAdd (sid : N) (m : member) | ERem (sid : N) (m : member).

Section Primitives.
  Variable sup : bool.                               (* NewSelectorAndNamedPortIndex(supressOverlaps) *)
  Variable sh : forall A : Type, list A -> list A.   (* iteration order in force *)

  (* memberDeduplicator.Add / noopMemberDeduplicator.Add: (trie', emit the add?, CIDRs to withdraw) *)
  Definition sup_add (T : list cidr) (c : cidr) : list cidr * bool * list cidr :=
    if sup then
      let covered := t_covers T c in
      let T' := t_update T c in
      if covered then (T', false, []) else (T', true, sh _ (t_closest T' c))
    else (T, true, []).

  (* memberDeduplicator.Remove: (trie', emit the removal?, CIDRs to re-advertise) *)
  Definition sup_remove (T : list cidr) (c : cidr) : list cidr * bool * list cidr :=
    if sup then
      let masked := sh _ (t_closest T c) in
      let T' := t_delete T c in
      if t_covers T' c then (T', false, []) else (T', true, masked)
    else (T, true, []).

  (* onMemberAdded *)
  Definition on_added (sid : N) (s : ipset) (m : member) : ipset * list event :=
    match m with
    | MCidr c =>
        let '(T', add, rems) := sup_add (s_trie s) c in
        (with_trie s T', (if add then [EAdd sid m] else []) ++ map (fun r => ERem sid (MCidr r)) rems)
    | _ => (s, [EAdd sid m])
    end.

  (* onMemberRemoved *)
  Definition on_removed (sid : N) (s : ipset) (m : member) : ipset * list event :=
    match m with
    | MCidr c =>
        let '(T', rem, adds) := sup_remove (s_trie s) c in
        (with_trie s T', (if rem then [ERem sid m] else []) ++ map (fun r => EAdd sid (MCidr r)) adds)
    | _ => (s, [ERem sid m])
    end.

  Fixpoint rc_get (rc : list (member * nat)) (m : member) : nat :=
    match rc with
    | [] => 0
    | (m', n) :: rc' => if member_eqb m m' then n else rc_get rc' m
    end.
  Fixpoint rc_set (rc : list (member * nat)) (m : member) (n : nat) : list (member * nat) :=
    match rc with
    | [] => [(m, n)]
    | (m', n') :: rc' => if member_eqb m m' then (m, n) :: rc' else (m', n') :: rc_set rc' m n
    end.
  Definition rc_del (rc : list (member * nat)) (m : member) : list (member * nat) :=
    filter (fun kv => negb (member_eqb m (fst kv))) rc.

  (* refCount := rc[m]; if refCount == 0 { onMemberAdded }; rc[m] = refCount + 1 *)
  Definition incref (sid : N) (s : ipset) (m : member) : ipset * list event :=
    let n := rc_get (s_rc s) m in
    let (s1, evs) := if Nat.eqb n 0 then on_added sid s m else (s, []) in
    (with_rc s1 (rc_set (s_rc s1) m (S n)), evs).

  (* newRefCount := rc[m] - 1; if newRefCount == 0 { onMemberRemoved; delete } else { rc[m] = newRefCount } *)
  Definition decref (sid : N) (s : ipset) (m : member) : ipset * list event :=
    let n := rc_get (s_rc s) m in
    if Nat.eqb n 1 then
      let (s1, evs) := on_removed sid s m in
      (with_rc s1 (rc_del (s_rc s1) m), evs)
    else if Nat.eqb n 0 then (s, [])     (* Go: uint64 wrap-around; excluded by the invariant *)
    else (with_rc s (rc_set (s_rc s) m (n - 1)), []).

  Fixpoint incref_list (sid : N) (s : ipset) (ms : list member) : ipset * list event :=
    match ms with
    | [] => (s, [])
    | m :: ms' => let (s1, e1) := incref sid s m in
                  let (s2, e2) := incref_list sid s1 ms' in (s2, e1 ++ e2)
    end.
  Fixpoint decref_list (sid : N) (s : ipset) (ms : list member) : ipset * list event :=
    match ms with
    | [] => (s, [])
    | m :: ms' => let (s1, e1) := decref sid s m in
                  let (s2, e2) := decref_list sid s1 ms' in (s2, e1 ++ e2)
    end.
  (* the "simulated deletion" loop of UpdateIPSet: onMemberRemoved for every member, counts untouched *)
  Fixpoint removed_list (sid : N) (s : ipset) (ms : list member) : ipset * list event :=
    match ms with
    | [] => (s, [])
    | m :: ms' => let (s1, e1) := on_removed sid s m in
                  let (s2, e2) := removed_list sid s1 ms' in (s2, e1 ++ e2)
    end.
End Primitives.

(* ------------------------------------------------------------------ the index operations *)

Inductive op :=
| OpIPSet (sid selid : N) (sel : ast) (proto : N) (port : bytes)
| OpDelIPSet (sid : N)
| OpEp (eid : N) (k : kind) (lbls : labels) (nets : list cidr) (ports : list eport) (parents : list N)
| OpDelEp (eid : N)
| OpParent (pid : N) (lbls : labels)
| OpDelParent (pid : N).          (* DeleteParentLabels = UpdateParentLabels(nil) + discardParentIfEmpty *)

Section Index.
  Variable sup : bool.
  (* Go map iteration order: any permutation, may depend on everything incl. the tick *)
  Variable shuffle : state -> forall A : Type, list A -> list A.
  (* iterEndpointCandidates: which endpoints are scanned for IP set sid (must keep all true matches) *)
  Variable prune_ep : state -> N -> N -> bool.
  (* AllPotentialMatches: which IP sets are tried for an endpoint (must keep all true matches) *)
  Variable prune_set : state -> epdata -> N -> bool.

  Definition set_set (st : state) (sid : N) (s : ipset) : state := set_sets st (aset sid s (st_sets st)).
  Definition set_ep (st : state) (eid : N) (d : epdata) : state := set_eps st (aset eid d (st_eps st)).
  Definition set_par (st : state) (pid : N) (l : labels) : state := set_pars st (aset pid l (st_pars st)).

  (* the endpoint scan of UpdateIPSet, for the freshly created (empty) IP set sid *)
  Definition scan_new_set_step (sid : N) (acc : state * list event) (eid : N) : state * list event :=
    let (st, evs) := acc in
    match alookup eid (st_eps st), alookup sid (st_sets st) with
    | Some d, Some s =>
        if ep_matches st s d then
          match contribution d s with
          | [] => (tick st, evs)
          | contrib =>
              let (s', evs') := incref_list sup (shuffle st) sid s contrib in
              (tick (set_ep (set_set st sid s') eid (add_cache d sid)), evs ++ evs')
          end
        else (tick st, evs)
    | _, _ => (tick st, evs)
    end.

  Definition ep_candidates (st : state) (sid : N) : list N :=
    shuffle st _ (filter (prune_ep st sid) (map fst (st_eps st))).

  Definition scan_new_set (st : state) (sid : N) : state * list event :=
    fold_left (scan_new_set_step sid) (ep_candidates st sid) (tick st, []).

  (* DeleteIPSet *)
  Definition delete_ipset (st : state) (sid : N) : state :=
    match alookup sid (st_sets st) with
    | None => st
    | Some _ =>
        let cands := ep_candidates st sid in
        let eps' := map (fun kv => if memN (fst kv) cands then (fst kv, rm_cache (snd kv) sid) else kv) (st_eps st) in
        tick (set_sets (set_eps st eps') (adel sid (st_sets st)))
    end.

  (* UpdateIPSet *)
  Definition update_ipset (st : state) (sid selid : N) (sel : ast) (proto : N) (port : bytes) : state * list event :=
    let create (st : state) : state * list event :=
      scan_new_set (set_set st sid (mkSet selid sel proto port [] [])) sid in
    match alookup sid (st_sets st) with
    | Some old =>
        if N.eqb (s_selid old) selid && N.eqb (s_proto old) proto && bytes_eqb (s_port old) port then (st, [])
        else
          let ms := shuffle st _ (map fst (s_rc old)) in
          let (old', evs1) := removed_list sup (shuffle st) sid old ms in
          let st1 := delete_ipset (tick (set_set st sid old')) sid in
          let (st2, evs2) := create st1 in
          (st2, evs1 ++ evs2)
    | None => create st
    end.

  (* scanEndpointAgainstIPSets, first loop: incref the new contributions *)
  Definition scan_add_step (acc : state * epdata * list event) (sid : N) : state * epdata * list event :=
    let '(st, d, evs) := acc in
    match alookup sid (st_sets st) with
    | Some s =>
        if ep_matches st s d then
          let (s', evs') := incref_list sup (shuffle st) sid s (contribution d s) in
          (tick (set_set st sid s'), add_cache d sid, evs ++ evs')
        else (tick st, d, evs)
    | None => (tick st, d, evs)
    end.

  (* second loop: decref the old contributions *)
  Definition scan_del_step (acc : state * list event) (old : N * list member) : state * list event :=
    let (st, evs) := acc in
    match alookup (fst old) (st_sets st) with
    | Some s =>
        let (s', evs') := decref_list sup (shuffle st) (fst old) s (snd old) in
        (tick (set_set st (fst old) s'), evs ++ evs')
    | None => (tick st, evs)       (* Go: nil dereference; excluded by the invariant *)
    end.

  Definition set_candidates (st : state) (d : epdata) : list N :=
    shuffle st _ (filter (prune_set st d) (map fst (st_sets st))).

  Definition scan_ep (st : state) (d : epdata) (oldc : list (N * list member)) : state * epdata * list event :=
    let d0 := with_cache d [] in
    let '(st1, d1, evs1) := fold_left scan_add_step (set_candidates st d0) (tick st, d0, []) in
    let (st2, evs2) := fold_left scan_del_step (shuffle st1 _ oldc) (tick st1, []) in
    (st2, d1, evs1 ++ evs2).

  (* UpdateEndpointOrSet *)
  Definition update_ep (st : state) (eid : N) (lbls : labels) (nets : list cidr) (ports : list eport)
             (parents : list N) : state * list event :=
    let new := mkEp lbls nets ports parents [] in
    match alookup eid (st_eps st) with
    | Some old =>
        if ep_equal old new then (st, [])
        else
          let oldc := recalc st old in
          let st1 := set_eps st (adel eid (st_eps st)) in
          let '(st2, new', evs) := scan_ep st1 new oldc in
          (set_ep st2 eid new', evs)
    | None =>
        let '(st2, new', evs) := scan_ep st new [] in
        (set_ep st2 eid new', evs)
    end.

  (* DeleteEndpoint *)
  Definition delete_ep (st : state) (eid : N) : state * list event :=
    match alookup eid (st_eps st) with
    | None => (st, [])
    | Some old =>
        let oldc := recalc st old in
        let (st1, evs) := fold_left scan_del_step (shuffle st _ oldc) (tick st, []) in
        (set_eps st1 (adel eid (st_eps st1)), evs)
    end.

  (* updateParent, one endpoint: revert, old contribution, apply, rescan *)
  Definition update_parent_step (pid : N) (oldl newl : labels) (acc : state * list event) (eid : N)
    : state * list event :=
    let (st, evs) := acc in
    match alookup eid (st_eps st) with
    | Some d =>
        let oldc := recalc (set_par st pid oldl) d in
        let '(st2, d', evs') := scan_ep (set_par st pid newl) d oldc in
        (set_ep st2 eid d', evs ++ evs')
    | None => (st, evs)
    end.

  (* UpdateParentLabels *)
  Definition update_parent (st : state) (pid : N) (newl : labels) : state * list event :=
    let oldl := par_labels st pid in
    if labels_equiv oldl newl then (st, [])
    else
      let ids := shuffle st _ (map fst (filter (fun kv => memN pid (e_parents (snd kv))) (st_eps st))) in
      let (st', evs) := fold_left (update_parent_step pid oldl newl) ids (tick st, []) in
      (set_par st' pid newl, evs).

  Definition step (st : state) (o : op) : state * list event :=
    match o with
    | OpIPSet sid selid sel proto port => update_ipset st sid selid sel proto port
    | OpDelIPSet sid => (delete_ipset st sid, [])
    | OpEp eid k lbls nets ports parents => update_ep st eid lbls (extract k nets) (extract_ports k ports) parents
    | OpDelEp eid => delete_ep st eid
    | OpParent pid lbls => update_parent st pid lbls
    | OpDelParent pid => update_parent st pid []
    end.

  (* the whole history: events emitted by each operation *)
  Fixpoint run (st : state) (ops : list op) : state * list (list event) :=
    match ops with
    | [] => (st, [])
    | o :: ops' =>
        let (st1, evs) := step (tick st) o in
        let (st2, rest) := run st1 ops' in
        (st2, evs :: rest)
    end.
End Index.

(* the canonical resolution of the oracles used by the correspondence run: scan everything, in list order *)
Definition id_shuffle : state -> forall A : Type, list A -> list A := fun _ _ l => l.
Definition no_prune_ep : state -> N -> N -> bool := fun _ _ _ => true.
Definition no_prune_set : state -> epdata -> N -> bool := fun _ _ _ => true.
Definition run_canon (sup : bool) (ops : list op) : state * list (list event) :=
  run sup id_shuffle no_prune_ep no_prune_set empty_state ops.
