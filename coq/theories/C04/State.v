(* C04 — the whole index: events against the family of consumer copies F : IP set id -> members,
   and the scans of named_port_index.go as steps on the per-set reference-count invariant. *)
From Coq Require Import List NArith Arith Bool Lia Permutation.
From Verif.Common Require Import Labels Prefix.
From Verif.C04 Require Import Model Spec Sets Refs Counts Proofs.
Import ListNotations.
Local Open Scope nat_scope.

(* ------------------------------------------------------------------ association lists *)

Lemma alookup_aset : forall {A} k (v : A) l x,
  alookup x (aset k v l) = if N.eqb x k then Some v else alookup x l.
Proof.
  induction l as [|[k' v'] l IH]; simpl; intros x.
  - destruct (N.eqb x k); reflexivity.
  - destruct (N.eqb k k') eqn:E; simpl.
    + apply N.eqb_eq in E. subst k'. destruct (N.eqb x k); reflexivity.
    + destruct (N.eqb x k') eqn:E2.
      * apply N.eqb_eq in E2. subst k'. destruct (N.eqb x k) eqn:E3; auto.
        apply N.eqb_eq in E3. subst. rewrite N.eqb_refl in E. discriminate.
      * apply IH.
Qed.

Lemma alookup_adel : forall {A} k (l : list (N * A)) x,
  alookup x (adel k l) = if N.eqb x k then None else alookup x l.
Proof.
  induction l as [|[k' v'] l IH]; simpl; intros x.
  - destruct (N.eqb x k); reflexivity.
  - destruct (N.eqb k k') eqn:E; simpl.
    + apply N.eqb_eq in E. subst k'. rewrite IH. destruct (N.eqb x k); reflexivity.
    + rewrite IH. destruct (N.eqb x k') eqn:E2; auto.
      apply N.eqb_eq in E2. subst k'. destruct (N.eqb x k) eqn:E3; auto.
      apply N.eqb_eq in E3. subst. rewrite N.eqb_refl in E. discriminate.
Qed.

Lemma alookup_In : forall {A} k (v : A) l, alookup k l = Some v -> In (k, v) l.
Proof.
  induction l as [|[k' v'] l IH]; simpl; intros H; [discriminate|].
  destruct (N.eqb k k') eqn:E.
  - apply N.eqb_eq in E. inversion H; subst. auto.
  - auto.
Qed.

Lemma alookup_keys : forall {A} k (l : list (N * A)), In k (map fst l) <-> exists v, alookup k l = Some v.
Proof.
  induction l as [|[k' v'] l IH]; simpl.
  - split; [tauto | intros [v H]; discriminate].
  - destruct (N.eqb k k') eqn:E.
    + apply N.eqb_eq in E. subst. split; eauto.
    + apply N.eqb_neq in E. rewrite <- IH. split; auto. intros [?|?]; auto. congruence.
Qed.

Lemma In_alookup : forall {A} k (v : A) l, NoDup (map fst l) -> In (k, v) l -> alookup k l = Some v.
Proof.
  induction l as [|[k' v'] l IH]; simpl; intros ND H; [contradiction|].
  inversion ND; subst. destruct H as [H|H].
  - inversion H; subst. rewrite N.eqb_refl. auto.
  - destruct (N.eqb k k') eqn:E; auto. apply N.eqb_eq in E. subst.
    exfalso. apply H2. apply in_map_iff. exists (k', v). auto.
Qed.

Lemma keys_aset_in : forall {A} k (v : A) l, In k (map fst l) -> map fst (aset k v l) = map fst l.
Proof.
  induction l as [|[k' v'] l IH]; simpl; intros H; [contradiction|].
  destruct (N.eqb k k') eqn:E; simpl.
  - apply N.eqb_eq in E. subst. auto.
  - apply N.eqb_neq in E. f_equal. apply IH. destruct H; auto. congruence.
Qed.

Lemma keys_aset_notin : forall {A} k (v : A) l, ~ In k (map fst l) -> map fst (aset k v l) = map fst l ++ [k].
Proof.
  induction l as [|[k' v'] l IH]; simpl; intros H; auto.
  destruct (N.eqb k k') eqn:E; simpl.
  - apply N.eqb_eq in E. subst. exfalso. auto.
  - f_equal. apply IH. auto.
Qed.

Lemma NoDup_keys_aset : forall {A} k (v : A) l, NoDup (map fst l) -> NoDup (map fst (aset k v l)).
Proof.
  intros. destruct (in_dec N.eq_dec k (map fst l)).
  - rewrite keys_aset_in; auto.
  - rewrite keys_aset_notin; auto. apply NoDup_snoc; auto.
Qed.

Lemma keys_adel : forall {A} k (l : list (N * A)) x, In x (map fst (adel k l)) <-> In x (map fst l) /\ x <> k.
Proof.
  intros. rewrite !alookup_keys. split.
  - intros [v H]. rewrite alookup_adel in H. destruct (N.eqb x k) eqn:E; [discriminate|].
    apply N.eqb_neq in E. eauto.
  - intros [[v H] Ne]. exists v. rewrite alookup_adel. apply N.eqb_neq in Ne. rewrite Ne. auto.
Qed.

Lemma NoDup_keys_adel : forall {A} k (l : list (N * A)), NoDup (map fst l) -> NoDup (map fst (adel k l)).
Proof.
  intros A k l. unfold adel. induction l as [|[k' v'] l IH]; simpl; intros H; auto.
  inversion H; subst. destruct (N.eqb k k'); simpl; auto. constructor; auto.
  intros Hi. apply H2. apply in_map_iff in Hi. destruct Hi as [[y vy] [E Hy]]. simpl in E. subst.
  apply filter_In in Hy. destruct Hy. apply in_map_iff. exists (k', vy). auto.
Qed.

Lemma memN_In : forall k l, memN k l = true <-> In k l.
Proof.
  intros. unfold memN. rewrite existsb_exists. split.
  - intros [x [Hx E]]. apply N.eqb_eq in E. subst. auto.
  - intros H. exists k. split; auto. apply N.eqb_refl.
Qed.
Lemma memN_false : forall k l, memN k l = false <-> ~ In k l.
Proof.
  intros. destruct (memN k l) eqn:E.
  - apply memN_In in E. split; [discriminate|contradiction].
  - split; auto. intros _ H. apply memN_In in H. congruence.
Qed.

(* ------------------------------------------------------------------ the family of consumer copies *)

Definition fam_copy := N -> list member.

Definition fupd (F : fam_copy) (sid : N) (l : list member) : fam_copy :=
  fun x => if N.eqb x sid then l else F x.

Definition apply_f1 (F : fam_copy) (e : event) : option fam_copy :=
  match apply_local1 (F (ev_sid e)) e with
  | Some l => Some (fupd F (ev_sid e) l)
  | None => None
  end.
Fixpoint apply_f (F : fam_copy) (evs : list event) : option fam_copy :=
  match evs with
  | [] => Some F
  | e :: evs' => match apply_f1 F e with Some F' => apply_f F' evs' | None => None end
  end.

Lemma apply_f_app : forall a b F F1, apply_f F a = Some F1 -> apply_f F (a ++ b) = apply_f F1 b.
Proof.
  induction a; simpl; intros b F F1 H. inversion H; auto.
  destruct (apply_f1 F a); [|discriminate]. eauto.
Qed.

(* events that all concern one IP set act on that set's copy only *)
Lemma apply_f_on : forall sid evs F l,
  evs_on sid evs -> apply_local (F sid) evs = Some l ->
  exists F', apply_f F evs = Some F' /\ F' sid = l /\ forall x, x <> sid -> F' x = F x.
Proof.
  induction evs as [|e evs IH]; simpl; intros F l On H.
  - inversion H; subst. exists F. auto.
  - assert (Es : ev_sid e = sid) by (apply On; left; auto).
    unfold apply_f1. rewrite Es.
    destruct (apply_local1 (F sid) e) as [l1|] eqn:E1; [|discriminate].
    destruct (IH (fupd F sid l1) l) as [F' [A [B C]]].
    + intros e' He'. apply On. right; auto.
    + unfold fupd. rewrite N.eqb_refl. auto.
    + exists F'. split; auto. split; auto. intros x Hx. rewrite C; auto.
      unfold fupd. apply N.eqb_neq in Hx. rewrite Hx. auto.
Qed.

(* ------------------------------------------------------------------ all IP sets *)

Definition SetsOK (sup : bool) (sets : list (N * ipset)) (F : fam_copy) (cn : N -> member -> nat) : Prop :=
  (forall sid s, alookup sid sets = Some s -> rcinv sup s (F sid) (cn sid)) /\
  (forall sid, alookup sid sets = None -> F sid = []).

Lemma SetsOK_ext : forall sup sets F cn cn',
  (forall sid s m, alookup sid sets = Some s -> cn sid m = cn' sid m) ->
  SetsOK sup sets F cn -> SetsOK sup sets F cn'.
Proof.
  intros sup sets F cn cn' E [A B]. split; auto.
  intros sid s H. eapply rcinv_ext; [|apply A; eauto]. intros m. eapply E; eauto.
Qed.

(* same keys, same selectors / named ports *)
Definition sets_sim (a b : list (N * ipset)) : Prop :=
  map fst a = map fst b /\
  forall sid, match alookup sid a, alookup sid b with
              | Some s, Some s' => same_static s s'
              | None, None => True
              | _, _ => False
              end.

Lemma sets_sim_refl : forall a, sets_sim a a.
Proof. intros a. split; auto. intros sid. destruct (alookup sid a); auto. apply same_static_refl. Qed.

Lemma sets_sim_trans : forall a b c, sets_sim a b -> sets_sim b c -> sets_sim a c.
Proof.
  intros a b c [K1 S1] [K2 S2]. split. congruence.
  intros sid. specialize (S1 sid). specialize (S2 sid).
  destruct (alookup sid a), (alookup sid b), (alookup sid c); try tauto.
  eapply same_static_trans; eauto.
Qed.

Lemma sets_sim_aset : forall a sid s s', alookup sid a = Some s -> same_static s s' -> sets_sim a (aset sid s' a).
Proof.
  intros a sid s s' H St. split.
  - symmetry. apply keys_aset_in. apply alookup_keys. eauto.
  - intros x. rewrite alookup_aset. destruct (N.eqb x sid) eqn:E.
    + apply N.eqb_eq in E. subst. rewrite H. auto.
    + destruct (alookup x a); auto. apply same_static_refl.
Qed.

Lemma sets_sim_lookup : forall a b sid s, sets_sim a b -> alookup sid a = Some s ->
  exists s', alookup sid b = Some s' /\ same_static s s'.
Proof.
  intros a b sid s [_ S] H. specialize (S sid). rewrite H in S. destruct (alookup sid b); [eauto|contradiction].
Qed.

Lemma contribution_static : forall d s s', same_static s s' -> contribution d s' = contribution d s.
Proof. intros d s s' (A&B&C&D). unfold contribution. rewrite C, D. reflexivity. Qed.

Lemma contribution_cache : forall d c s, contribution (with_cache d c) s = contribution d s.
Proof. reflexivity. Qed.

Lemma e_nets_add_cache : forall d x, e_nets (add_cache d x) = e_nets d.
Proof. intros. unfold add_cache. destruct (memN x (e_cache d)); reflexivity. Qed.
Lemma contribution_add_cache : forall d x s, contribution (add_cache d x) s = contribution d s.
Proof. intros. unfold add_cache. destruct (memN x (e_cache d)); reflexivity. Qed.
Lemma ep_matches_add_cache : forall st s d x, ep_matches st s (add_cache d x) = ep_matches st s d.
Proof. intros. unfold add_cache. destruct (memN x (e_cache d)); reflexivity. Qed.
Lemma with_cache_add_cache : forall d x c, with_cache (add_cache d x) c = with_cache d c.
Proof. intros. unfold add_cache. destruct (memN x (e_cache d)); reflexivity. Qed.

Lemma ep_matches_static : forall st st' s s' d, st_pars st' = st_pars st -> same_static s s' ->
  ep_matches st' s' d = ep_matches st s d.
Proof.
  intros st st' s s' d P (A&B&C&D). unfold ep_matches, eff_labels, par_labels. rewrite B, P. reflexivity.
Qed.

(* members of a contribution are well formed when the endpoint's nets are *)
Lemma contribution_wf : forall d s, (forall c, In c (e_nets d) -> wfc c) -> forall m, In m (contribution d s) -> wfm m.
Proof.
  intros d s W m H. unfold contribution in H. destruct (negb (s_proto s =? P_NONE)%N).
  - apply in_flat_map in H. destruct H as [[pr po] [Hp H]]. apply in_map_iff in H. destruct H as [c [E Hc]].
    subst m. unfold lookup_named_ports in Hp. apply in_flat_map in Hp. destruct Hp as [p [_ Hp]].
    destruct (bytes_eqb (pt_name p) (s_port s) && matches_proto (s_proto s) (pt_proto p)); [|contradiction].
    destruct Hp as [Hp|[]]. inversion Hp; subst. simpl. unfold make_ip_port_proto.
    assert (N : (protocol_from (pt_proto p) =? P_NONE)%N = false).
    { apply N.eqb_neq. apply protocol_from_not_none. }
    rewrite N, andb_false_r. exact I.
  - apply in_map_iff in H. destruct H as [c [<- Hc]]. simpl. auto.
Qed.

Section Scans.
  Variable sup : bool.
  Variable shuffle : state -> forall A : Type, list A -> list A.
  Variable prune_ep : state -> N -> N -> bool.
  Variable prune_set : state -> epdata -> N -> bool.
  Hypothesis shuffle_ok : forall st, perm_ok (shuffle st).

  Notation scan_add_step := (scan_add_step sup shuffle).
  Notation scan_del_step := (scan_del_step sup shuffle).

  (* one primitive applied to IP set sid *)
  Lemma set_step : forall sets F cn sid s s' evs em' n',
    SetsOK sup sets F cn -> alookup sid sets = Some s ->
    evs_on sid evs -> apply_local (F sid) evs = Some em' -> rcinv sup s' em' n' ->
    exists F', apply_f F evs = Some F' /\
               SetsOK sup (aset sid s' sets) F' (fun x => if N.eqb x sid then n' else cn x).
  Proof.
    intros sets F cn sid s s' evs em' n' [A B] H On Ap Inv.
    destruct (apply_f_on sid evs F em' On Ap) as [F' [E1 [E2 E3]]].
    exists F'. split; auto. split.
    - intros x sx Hx. rewrite alookup_aset in Hx. destruct (N.eqb x sid) eqn:E.
      + apply N.eqb_eq in E. subst. inversion Hx; subst. auto.
      + apply N.eqb_neq in E. rewrite E3; auto.
    - intros x Hx. rewrite alookup_aset in Hx. destruct (N.eqb x sid) eqn:E; [discriminate|].
      apply N.eqb_neq in E. rewrite E3; auto.
  Qed.

  (* what the first loop of scanEndpointAgainstIPSets adds to the count of IP set sid *)
  Definition add_term (st : state) (d : epdata) (cands : list N) (sid : N) (x : member) : nat :=
    if memN sid cands then
      match alookup sid (st_sets st) with
      | Some s => if ep_matches st s d then cnt x (contribution d s) else 0
      | None => 0
      end
    else 0.

  Lemma add_term_skip : forall st d sid cands x m,
    match alookup sid (st_sets st) with Some s => ep_matches st s d = false | None => True end ->
    add_term st d (sid :: cands) x m = add_term st d cands x m.
  Proof.
    intros st d sid cands x m H. unfold add_term. simpl memN. destruct (N.eqb x sid) eqn:Ex; auto.
    apply N.eqb_eq in Ex. subst x. simpl orb. cbv iota.
    destruct (alookup sid (st_sets st)) as [s|].
    - rewrite H. destruct (memN sid cands); auto.
    - destruct (memN sid cands); auto.
  Qed.

  Lemma scan_add_fold : forall cands st d evs0 F cn st' d' evs',
    NoDup cands -> SetsOK sup (st_sets st) F cn -> (forall c, In c (e_nets d) -> wfc c) ->
    fold_left scan_add_step cands (st, d, evs0) = (st', d', evs') ->
    st_eps st' = st_eps st /\ st_pars st' = st_pars st /\ sets_sim (st_sets st) (st_sets st') /\
    (exists c', d' = with_cache d c' /\ (NoDup (e_cache d) -> NoDup c') /\
       forall sid, In sid c' <-> In sid (e_cache d) \/
                   (In sid cands /\ exists s, alookup sid (st_sets st) = Some s /\ ep_matches st s d = true)) /\
    exists evs1 F', evs' = evs0 ++ evs1 /\ apply_f F evs1 = Some F' /\
       SetsOK sup (st_sets st') F' (fun sid x => cn sid x + add_term st d cands sid x).
  Proof.
    induction cands as [|sid cands IH]; intros st d evs0 F cn st' d' evs' ND OK W H.
    - simpl in H. inversion H; subst. split; auto. split; auto. split. apply sets_sim_refl.
      split. { exists (e_cache d'). split. destruct d'; reflexivity. split; auto. intros. simpl. tauto. }
      exists [], F. split. rewrite app_nil_r; auto. split; auto.
      eapply SetsOK_ext; [|exact OK]. intros. unfold add_term. simpl. lia.
    - simpl in H. inversion ND; subst.
      destruct (alookup sid (st_sets st)) as [s|] eqn:Ls.
      + destruct (ep_matches st s d) eqn:Em.
        * destruct (incref_list sup (shuffle st) sid s (contribution d s)) as [s1 e1] eqn:Ei.
          destruct OK as [OA OB].
          destruct (incref_list_ok sup (shuffle st) (shuffle_ok st) sid _ _ _ _ _ _ (OA _ _ Ls)
                      (contribution_wf d s W) Ei) as (St & On & em1 & Ap & Inv1).
          destruct (set_step _ _ _ _ _ _ _ _ _ (conj OA OB) Ls On Ap Inv1) as [F1 [Af OK1]].
          assert (W' : forall c, In c (e_nets (add_cache d sid)) -> wfc c) by (rewrite e_nets_add_cache; exact W).
          specialize (IH (tick (set_set st sid s1)) (add_cache d sid) (evs0 ++ e1) F1 _ st' d' evs' H3 OK1 W' H).
          destruct IH as (Ee & Ep & Ss & (c' & Ed & Nc & Hc) & evs1 & F' & Ev & Af' & OK').
          simpl in Ee, Ep, Ss. rewrite with_cache_add_cache in Ed.
          assert (Hc' : forall x, In x c' <-> In x (e_cache (add_cache d sid)) \/
                   (In x cands /\ exists sx, alookup x (aset sid s1 (st_sets st)) = Some sx /\
                                             ep_matches (tick (set_set st sid s1)) sx d = true)).
          { intros x. rewrite Hc. simpl. split; (intros [?|[? [sx [? ?]]]]; [auto | right; split; auto; exists sx; split; auto]);
              rewrite ep_matches_add_cache in *; auto. }
          clear Hc. rename Hc' into Hc.
          assert (Sim1 : sets_sim (st_sets st) (aset sid s1 (st_sets st))) by (eapply sets_sim_aset; eauto).
          split; auto. split; auto. split. { eapply sets_sim_trans; eauto. }
          split.
          { exists c'. split.
            - rewrite Ed. unfold add_cache. destruct (memN sid (e_cache d)); reflexivity.
            - split.
              + intros NDd. apply Nc. unfold add_cache. destruct (memN sid (e_cache d)) eqn:Em'; auto.
                simpl. constructor; auto. apply memN_false; auto.
              + intros x. rewrite Hc. simpl.
                assert (Hx : In x (e_cache (add_cache d sid)) <-> x = sid \/ In x (e_cache d)).
                { unfold add_cache. destruct (memN sid (e_cache d)) eqn:Em'; simpl.
                  - apply memN_In in Em'. split; auto. intros [->|?]; auto.
                  - split; intros [?|?]; auto. }
                rewrite Hx. split.
                * intros [[->|Hi] | [Hi [sx [Lx Mx]]]]; auto.
                  -- right. split; auto. eauto.
                  -- right. split; auto. rewrite alookup_aset in Lx.
                     destruct (N.eqb x sid) eqn:Ex.
                     ++ apply N.eqb_eq in Ex. subst. contradiction.
                     ++ exists sx. split; auto.
                * intros [Hi | [[<-|Hi] [sx [Lx Mx]]]]; auto.
                  right. split; auto. exists sx. rewrite alookup_aset.
                  destruct (N.eqb x sid) eqn:Ex.
                  -- apply N.eqb_eq in Ex. subst. contradiction.
                  -- split; auto. }
          exists (e1 ++ evs1), F'. split. rewrite Ev, app_assoc; auto.
          split. rewrite (apply_f_app _ _ _ _ Af). auto.
          eapply SetsOK_ext; [|exact OK']. intros x sx m Lx. unfold add_term. simpl memN.
          destruct (N.eqb x sid) eqn:Ex.
          -- apply N.eqb_eq in Ex. subst x.
             assert (Nm : memN sid cands = false) by (apply memN_false; auto). rewrite Nm.
             simpl orb. cbv iota. rewrite Ls, Em. lia.
          -- simpl orb. simpl st_sets. rewrite alookup_aset, Ex.
             destruct (memN x cands); auto. destruct (alookup x (st_sets st)) as [sx'|]; auto.
             rewrite ep_matches_add_cache, contribution_add_cache. reflexivity.
        * specialize (IH (tick st) d evs0 F cn st' d' evs' H3 OK W H).
          destruct IH as (Ee & Ep & Ss & (c' & Ed & Nc & Hc) & evs1 & F' & Ev & Af' & OK').
          split; auto. split; auto. split; auto. split.
          { exists c'. split; auto. split; auto. intros x. rewrite Hc. simpl. split.
            - intros [?|[? ?]]; auto.
            - intros [?|[[<-|?] [sx [Lx Mx]]]]; auto.
              + rewrite Ls in Lx. inversion Lx; subst. congruence.
              + right. split; eauto. }
          exists evs1, F'. split; auto. split; auto.
          eapply SetsOK_ext; [|exact OK']. intros x sx m Lx.
          change (add_term (tick st) d cands x m) with (add_term st d cands x m).
          rewrite add_term_skip; auto. rewrite Ls. auto.
      + specialize (IH (tick st) d evs0 F cn st' d' evs' H3 OK W H).
        destruct IH as (Ee & Ep & Ss & (c' & Ed & Nc & Hc) & evs1 & F' & Ev & Af' & OK').
        split; auto. split; auto. split; auto. split.
        { exists c'. split; auto. split; auto. intros x. rewrite Hc. simpl. split.
          - intros [?|[? ?]]; auto.
          - intros [?|[[<-|?] [sx [Lx Mx]]]]; auto.
            + rewrite Ls in Lx. discriminate.
            + right. split; eauto. }
        exists evs1, F'. split; auto. split; auto.
        eapply SetsOK_ext; [|exact OK']. intros x sx m Lx.
        change (add_term (tick st) d cands x m) with (add_term st d cands x m).
        rewrite add_term_skip; auto. rewrite Ls. auto.
  Qed.

  (* what the second loop removes from the count of IP set sid *)
  Definition old_term (oldc : list (N * list member)) (sid : N) (x : member) : nat :=
    match alookup sid oldc with Some ms => cnt x ms | None => 0 end.

  Lemma scan_del_fold : forall oldc st evs0 F cn st' evs',
    NoDup (map fst oldc) -> SetsOK sup (st_sets st) F cn ->
    (forall sid ms, In (sid, ms) oldc ->
       (exists s, alookup sid (st_sets st) = Some s) /\ forall x, cnt x ms <= cn sid x) ->
    fold_left scan_del_step oldc (st, evs0) = (st', evs') ->
    st_eps st' = st_eps st /\ st_pars st' = st_pars st /\ sets_sim (st_sets st) (st_sets st') /\
    exists evs1 F', evs' = evs0 ++ evs1 /\ apply_f F evs1 = Some F' /\
       SetsOK sup (st_sets st') F' (fun sid x => cn sid x - old_term oldc sid x).
  Proof.
    induction oldc as [|[sid ms] oldc IH]; intros st evs0 F cn st' evs' ND OK Pre H.
    - simpl in H. inversion H; subst. split; auto. split; auto. split. apply sets_sim_refl.
      exists [], F. split. rewrite app_nil_r; auto. split; auto.
      eapply SetsOK_ext; [|exact OK]. intros. unfold old_term. simpl. lia.
    - simpl in H. simpl in ND. inversion ND; subst.
      destruct (Pre sid ms (or_introl eq_refl)) as [[s Ls] Le].
      rewrite Ls in H.
      destruct (decref_list sup (shuffle st) sid s ms) as [s1 e1] eqn:Ei.
      destruct OK as [OA OB].
      destruct (decref_list_ok sup (shuffle st) (shuffle_ok st) sid _ _ _ _ _ _ (OA _ _ Ls) Le Ei)
        as (St & On & em1 & Ap & Inv1).
      destruct (set_step _ _ _ _ _ _ _ _ _ (conj OA OB) Ls On Ap Inv1) as [F1 [Af OK1]].
      assert (Pre1 : forall sid' ms', In (sid', ms') oldc ->
                (exists s', alookup sid' (st_sets (tick (set_set st sid s1))) = Some s') /\
                forall x, cnt x ms' <= (if N.eqb sid' sid then fun x => cn sid x - cnt x ms else cn sid') x).
      { intros sid' ms' Hi. destruct (Pre sid' ms' (or_intror Hi)) as [[s' Ls'] Le'].
        assert (Ne : sid' <> sid).
        { intros ->. apply H2. apply in_map_iff. exists (sid, ms'). auto. }
        apply N.eqb_neq in Ne. rewrite Ne. split; auto. simpl. rewrite alookup_aset, Ne. eauto. }
      specialize (IH (tick (set_set st sid s1)) (evs0 ++ e1) F1 _ st' evs' H3 OK1 Pre1 H).
      destruct IH as (Ee & Ep & Ss & evs1 & F' & Ev & Af' & OK').
      simpl in Ee, Ep, Ss.
      split; auto. split; auto. split.
      { eapply sets_sim_trans; [|exact Ss]. eapply sets_sim_aset; eauto. }
      exists (e1 ++ evs1), F'. split. rewrite Ev, app_assoc; auto.
      split. rewrite (apply_f_app _ _ _ _ Af). auto.
      eapply SetsOK_ext; [|exact OK']. intros x sx m Lx. unfold old_term. simpl.
      destruct (N.eqb x sid) eqn:Ex.
      + apply N.eqb_eq in Ex. subst x.
        assert (alookup sid oldc = None).
        { destruct (alookup sid oldc) eqn:E; auto. apply alookup_In in E. exfalso. apply H2.
          apply in_map_iff. exists (sid, l). auto. }
        rewrite H0. lia.
      + reflexivity.
  Qed.

  Lemma alookup_perm : forall {A} (l l' : list (N * A)) k,
    NoDup (map fst l) -> Permutation l l' -> alookup k l' = alookup k l.
  Proof.
    intros A l l' k ND P.
    assert (ND' : NoDup (map fst l')) by (eapply Permutation_NoDup; [apply Permutation_map; exact P | auto]).
    destruct (alookup k l) eqn:E.
    - apply In_alookup; auto. eapply Permutation_in; eauto. apply alookup_In. auto.
    - destruct (alookup k l') eqn:E'; auto. apply alookup_In in E'.
      apply Permutation_sym in P. eapply Permutation_in in E'; eauto. apply In_alookup in E'; auto. congruence.
  Qed.

  (* scanEndpointAgainstIPSets as a whole *)
  Lemma scan_ep_ok : forall st d oldc F cn st' d' evs,
    NoDup (map fst (st_sets st)) -> SetsOK sup (st_sets st) F cn ->
    (forall c, In c (e_nets d) -> wfc c) ->
    NoDup (map fst oldc) ->
    (forall sid ms, In (sid, ms) oldc ->
       (exists s, alookup sid (st_sets st) = Some s) /\ forall x, cnt x ms <= cn sid x) ->
    scan_ep sup shuffle prune_set st d oldc = (st', d', evs) ->
    let cands := set_candidates shuffle prune_set st (with_cache d []) in
    st_eps st' = st_eps st /\ st_pars st' = st_pars st /\ sets_sim (st_sets st) (st_sets st') /\
    (exists c', d' = with_cache d c' /\ NoDup c' /\
       forall sid, In sid c' <-> In sid cands /\ exists s, alookup sid (st_sets st) = Some s /\ ep_matches st s d = true) /\
    exists F', apply_f F evs = Some F' /\
       SetsOK sup (st_sets st') F'
         (fun sid x => cn sid x + add_term st d cands sid x - old_term oldc sid x).
  Proof.
    intros st d oldc F cn st' d' evs NDs OK W NDo Pre H cands. unfold scan_ep in H.
    fold cands in H.
    destruct (fold_left scan_add_step cands (tick st, with_cache d [], [])) as [[st1 d1] evs1] eqn:E1.
    destruct (fold_left scan_del_step (shuffle st1 _ oldc) (tick st1, [])) as [st2 evs2] eqn:E2.
    injection H as H1 H2 H3. subst st' d' evs.
    assert (NDc : NoDup cands).
    { unfold cands, set_candidates. apply perm_NoDup; auto. apply NoDup_filter. auto. }
    destruct (scan_add_fold cands (tick st) (with_cache d []) [] F cn st1 d1 evs1 NDc OK W E1)
      as (Ee & Ep & Ss & (c' & Ed & Nc & Hc) & ev1 & F1 & Ev & Af & OK1).
    simpl in Ev. subst ev1. simpl in Ee, Ep, Ss.
    assert (Po : Permutation oldc (shuffle st1 _ oldc)) by (apply shuffle_ok).
    assert (NDo' : NoDup (map fst (shuffle st1 _ oldc))).
    { eapply Permutation_NoDup; [apply Permutation_map; exact Po | auto]. }
    assert (Pre1 : forall sid ms, In (sid, ms) (shuffle st1 _ oldc) ->
              (exists s, alookup sid (st_sets (tick st1)) = Some s) /\
              forall x, cnt x ms <= cn sid x + add_term (tick st) (with_cache d []) cands sid x).
    { intros sid ms Hi. apply Permutation_sym in Po. eapply Permutation_in in Hi; eauto.
      destruct (Pre sid ms Hi) as [[s Ls] Le]. split.
      - destruct (sets_sim_lookup _ _ _ _ Ss Ls) as [s' [Ls' _]]. simpl. eauto.
      - intros x. specialize (Le x). lia. }
    destruct (scan_del_fold (shuffle st1 _ oldc) (tick st1) [] F1 _ st2 evs2 NDo' OK1 Pre1 E2)
      as (Ee2 & Ep2 & Ss2 & ev2 & F2 & Ev2 & Af2 & OK2).
    simpl in Ev2. subst ev2. simpl in Ee2, Ep2, Ss2.
    split. congruence. split. congruence. split. { eapply sets_sim_trans; eauto. }
    split.
    { exists c'. split; auto. split. apply Nc. simpl. constructor.
      intros sid. rewrite Hc. simpl. split.
      - intros [[]|[Hi [s [Ls Ms]]]]. split; auto. exists s. split; auto.
      - intros [Hi [s [Ls Ms]]]. right. split; auto. exists s. split; auto. }
    exists F2. split. rewrite (apply_f_app _ _ _ _ Af). auto.
    eapply SetsOK_ext; [|exact OK2]. intros sid sx m Lx. simpl.
    assert (old_term (shuffle st1 _ oldc) sid m = old_term oldc sid m).
    { unfold old_term. rewrite (alookup_perm oldc); auto. }
    rewrite H. reflexivity.
  Qed.
End Scans.
