(* C04 — extractCIDRsFromNetworkSet keeps the addresses: masking a net and writing a /0 as its two /1
   halves does not change which addresses the network set contains. *)
From Coq Require Import List NArith Arith Bool Lia.
From Verif.Common Require Import Labels Prefix.
From Verif.C04 Require Import Model Sets Main Addr.
Import ListNotations.
Local Open Scope nat_scope.

(* address a of family f lies in the net as written in the resource (address possibly unmasked) *)
Definition raw_in (c : cidr) (f : fam) (a : N) : Prop :=
  cfam c = f /\ agree (width f) (plen (cpre c)) (paddr (cpre c)) a.

Lemma top_small : forall w x, (x < 2 ^ N.of_nat w)%N -> top w 0 x = 0%N.
Proof. intros w x H. unfold top. rewrite Nat.sub_0_r. apply shiftr_eq_0_lt. exact H. Qed.

Lemma extract_net_same_addresses : forall c f a,
  raw_ok KNetSet c -> (a < 2 ^ N.of_nat (width f))%N ->
  ((exists e, In e (extract_net c) /\ caddr_in e f a = true) <-> raw_in c f a).
Proof.
  intros [g [x l]] f a (Hl & Hx & _) Ha. simpl in Hl, Hx. unfold raw_in. simpl.
  assert (Dec : g = f \/ g <> f) by (destruct g, f; auto; right; discriminate).
  destruct Dec as [->|Ng].
  2:{ split.
      - intros [e [He Hc]]. exfalso. unfold caddr_in in Hc. apply andb_true_iff in Hc. destruct Hc as [Hf _].
        apply fam_eqb_eq in Hf. unfold extract_net in He. simpl in He.
        destruct (Nat.eqb l 0); simpl in He; destruct He as [<-|He]; simpl in Hf; try congruence;
          destruct He as [<-|[]]; simpl in Hf; congruence.
      - intros [E _]. congruence. }
  unfold extract_net, cnorm. simpl. destruct (Nat.eqb l 0) eqn:El.
  - apply Nat.eqb_eq in El. subst l. split.
    + intros _. split; auto. unfold agree. rewrite !top_small; auto.
    + intros _. destruct (half_wf f) as [W1 W2].
      destruct (N.lt_ge_cases a (2 ^ N.of_nat (width f - 1))) as [Lo|Hi].
      * exists (mkC f (mkP 0%N 1)). split; [left; auto|]. unfold caddr_in. simpl. rewrite fam_eqb_refl. simpl.
        apply contains_agree; auto. unfold agree, top. simpl plen.
        rewrite N.shiftr_0_l. symmetry. apply shiftr_eq_0_lt. exact Lo.
      * exists (mkC f (mkP (2 ^ N.of_nat (width f - 1))%N 1)). split; [right; left; auto|].
        unfold caddr_in. simpl. rewrite fam_eqb_refl. simpl.
        apply contains_agree; auto. unfold agree, top. simpl plen.
        rewrite !N.shiftr_div_pow2. rewrite N.div_same by (apply N.pow_nonzero; discriminate).
        apply (N.div_unique a _ 1%N (a - 2 ^ N.of_nat (width f - 1))%N).
        -- assert (2 ^ N.of_nat (width f) = 2 * 2 ^ N.of_nat (width f - 1))%N.
           { destruct f; vm_compute; reflexivity. }
           lia.
        -- lia.
  - assert (Wn : wfp (width f) (mkP (mask (width f) l x) l)).
    { split; [|split]; simpl; auto. apply mask_lt; auto. apply mask_mask. }
    split.
    + intros [e [[<-|[]] Hc]]. unfold caddr_in in Hc. simpl in Hc. rewrite fam_eqb_refl in Hc. simpl in Hc.
      apply contains_agree in Hc; auto. simpl in Hc. unfold agree in *. rewrite top_mask in Hc. auto.
    + intros [_ Ag]. eexists. split; [left; reflexivity|]. unfold caddr_in. simpl. rewrite fam_eqb_refl. simpl.
      apply contains_agree; auto. simpl. unfold agree in *. rewrite top_mask. auto.
Qed.

(* the whole network set *)
Lemma c04_netset_extract_same_addresses_proof : forall nets f a,
  (forall c, In c nets -> raw_ok KNetSet c) -> (a < 2 ^ N.of_nat (width f))%N ->
  ((exists e, In e (extract KNetSet nets) /\ caddr_in e f a = true) <-> (exists c, In c nets /\ raw_in c f a)).
Proof.
  intros nets f a W Ha. simpl. split.
  - intros [e [He Hc]]. apply in_flat_map in He. destruct He as [c [Hn He]]. exists c. split; auto.
    apply (extract_net_same_addresses c f a (W c Hn) Ha). eauto.
  - intros [c [Hn Hr]]. apply (extract_net_same_addresses c f a (W c Hn) Ha) in Hr.
    destruct Hr as [e [He Hc]]. exists e. split; auto. apply in_flat_map. eauto.
Qed.
