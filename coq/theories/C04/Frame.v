(* C04 — frame properties: the index's records of endpoints, profiles and IP sets always hold the
   last value written (only caches, reference counts and tries change underneath). *)
From Coq Require Import List NArith Arith Bool Lia Permutation.
From Verif.Common Require Import Labels Prefix.
From Verif.C04 Require Import Model Spec Sets Refs Counts Proofs State Inv.
Import ListNotations.
Local Open Scope nat_scope.

Definition same_data (d d' : epdata) : Prop :=
  e_labels d' = e_labels d /\ e_nets d' = e_nets d /\ e_ports d' = e_ports d /\ e_parents d' = e_parents d.

Definition eps_sim (a b : list (N * epdata)) : Prop :=
  forall e, match alookup e a, alookup e b with
            | Some d, Some d' => same_data d d'
            | None, None => True
            | _, _ => False
            end.

Lemma same_data_refl : forall d, same_data d d.
Proof. intros. repeat split. Qed.
Lemma same_data_trans : forall a b c, same_data a b -> same_data b c -> same_data a c.
Proof. intros a b c (A1&A2&A3&A4) (B1&B2&B3&B4). repeat split; congruence. Qed.
Lemma eps_sim_refl : forall a, eps_sim a a.
Proof. intros a e. destruct (alookup e a); auto. apply same_data_refl. Qed.
Lemma eps_sim_trans : forall a b c, eps_sim a b -> eps_sim b c -> eps_sim a c.
Proof.
  intros a b c S1 S2 e. specialize (S1 e). specialize (S2 e).
  destruct (alookup e a), (alookup e b), (alookup e c); try tauto. eapply same_data_trans; eauto.
Qed.
Lemma eps_sim_aset : forall a e d d', alookup e a = Some d -> same_data d d' -> eps_sim a (aset e d' a).
Proof.
  intros a e d d' H S x. rewrite alookup_aset. destruct (N.eqb x e) eqn:E.
  - apply N.eqb_eq in E. subst. rewrite H. auto.
  - destruct (alookup x a); auto. apply same_data_refl.
Qed.

(* the three components a scan may not disturb *)
Definition frame (st st' : state) : Prop :=
  eps_sim (st_eps st) (st_eps st') /\ st_pars st' = st_pars st /\ sets_sim (st_sets st) (st_sets st').

Lemma frame_refl : forall st, frame st st.
Proof. intros. split. apply eps_sim_refl. split; auto. apply sets_sim_refl. Qed.
Lemma frame_trans : forall a b c, frame a b -> frame b c -> frame a c.
Proof.
  intros a b c (A1&A2&A3) (B1&B2&B3). split. eapply eps_sim_trans; eauto. split. congruence.
  eapply sets_sim_trans; eauto.
Qed.

Section Frames.
  Variable sup : bool.
  Variable shuffle : state -> forall A : Type, list A -> list A.
  Variable prune_ep : state -> N -> N -> bool.
  Variable prune_set : state -> epdata -> N -> bool.

  Lemma on_added_static : forall sh sid s m, same_static s (fst (on_added sup sh sid s m)).
  Proof.
    intros. unfold on_added. destruct m; [|apply same_static_refl].
    destruct (sup_add sup sh (s_trie s) c) as [[T a] r]. simpl. repeat split.
  Qed.
  Lemma on_removed_static : forall sh sid s m, same_static s (fst (on_removed sup sh sid s m)).
  Proof.
    intros. unfold on_removed. destruct m; [|apply same_static_refl].
    destruct (sup_remove sup sh (s_trie s) c) as [[T a] r]. simpl. repeat split.
  Qed.
  Lemma incref_static : forall sh sid s m, same_static s (fst (incref sup sh sid s m)).
  Proof.
    intros. unfold incref. destruct (Nat.eqb (rc_get (s_rc s) m) 0).
    - pose proof (on_added_static sh sid s m) as H. destruct (on_added sup sh sid s m) as [s1 e1]. simpl in *.
      destruct H as (A&B&C&D). repeat split; auto.
    - simpl. repeat split.
  Qed.
  Lemma decref_static : forall sh sid s m, same_static s (fst (decref sup sh sid s m)).
  Proof.
    intros. unfold decref. destruct (Nat.eqb (rc_get (s_rc s) m) 1).
    - pose proof (on_removed_static sh sid s m) as H. destruct (on_removed sup sh sid s m) as [s1 e1]. simpl in *.
      destruct H as (A&B&C&D). repeat split; auto.
    - destruct (Nat.eqb (rc_get (s_rc s) m) 0); simpl; repeat split.
  Qed.
  Lemma incref_list_static : forall sh sid ms s, same_static s (fst (incref_list sup sh sid s ms)).
  Proof.
    induction ms as [|m ms IH]; intros s; simpl. apply same_static_refl.
    pose proof (incref_static sh sid s m) as H. destruct (incref sup sh sid s m) as [s1 e1]. simpl in H.
    specialize (IH s1). destruct (incref_list sup sh sid s1 ms) as [s2 e2]. simpl in *.
    eapply same_static_trans; eauto.
  Qed.
  Lemma decref_list_static : forall sh sid ms s, same_static s (fst (decref_list sup sh sid s ms)).
  Proof.
    induction ms as [|m ms IH]; intros s; simpl. apply same_static_refl.
    pose proof (decref_static sh sid s m) as H. destruct (decref sup sh sid s m) as [s1 e1]. simpl in H.
    specialize (IH s1). destruct (decref_list sup sh sid s1 ms) as [s2 e2]. simpl in *.
    eapply same_static_trans; eauto.
  Qed.
  Lemma removed_list_static : forall sh sid ms s, same_static s (fst (removed_list sup sh sid s ms)).
  Proof.
    induction ms as [|m ms IH]; intros s; simpl. apply same_static_refl.
    pose proof (on_removed_static sh sid s m) as H. destruct (on_removed sup sh sid s m) as [s1 e1]. simpl in H.
    specialize (IH s1). destruct (removed_list sup sh sid s1 ms) as [s2 e2]. simpl in *.
    eapply same_static_trans; eauto.
  Qed.

  Lemma frame_set_set : forall st sid s s', alookup sid (st_sets st) = Some s -> same_static s s' ->
    frame st (tick (set_set st sid s')).
  Proof.
    intros. split. apply eps_sim_refl. split; auto. simpl. eapply sets_sim_aset; eauto.
  Qed.

  Lemma scan_add_frame : forall cands st d evs st' d' evs',
    fold_left (scan_add_step sup shuffle) cands (st, d, evs) = (st', d', evs') ->
    frame st st' /\ same_data d d'.
  Proof.
    induction cands as [|sid cands IH]; intros st d evs st' d' evs' H; simpl in H.
    - inversion H; subst. split. apply frame_refl. apply same_data_refl.
    - destruct (alookup sid (st_sets st)) as [s|] eqn:Ls.
      + destruct (ep_matches st s d).
        * pose proof (incref_list_static (shuffle st) sid (contribution d s) s) as St.
          destruct (incref_list sup (shuffle st) sid s (contribution d s)) as [s1 e1]. simpl in St.
          apply IH in H. destruct H as [Fr Sd]. split.
          -- eapply frame_trans; [|exact Fr]. eapply frame_set_set; eauto.
          -- eapply same_data_trans; [|exact Sd]. unfold add_cache. destruct (memN sid (e_cache d)); repeat split.
        * apply IH in H. destruct H as [Fr Sd]. split; auto.
      + apply IH in H. destruct H as [Fr Sd]. split; auto.
  Qed.

  Lemma scan_del_frame : forall oldc st evs st' evs',
    fold_left (scan_del_step sup shuffle) oldc (st, evs) = (st', evs') -> frame st st'.
  Proof.
    induction oldc as [|[sid ms] oldc IH]; intros st evs st' evs' H; simpl in H.
    - inversion H; subst. apply frame_refl.
    - destruct (alookup sid (st_sets st)) as [s|] eqn:Ls.
      + pose proof (decref_list_static (shuffle st) sid ms s) as St.
        destruct (decref_list sup (shuffle st) sid s ms) as [s1 e1]. simpl in St.
        apply IH in H. eapply frame_trans; [|exact H]. eapply frame_set_set; eauto.
      + apply IH in H. exact H.
  Qed.

  Lemma scan_ep_frame : forall st d oldc st' d' evs,
    scan_ep sup shuffle prune_set st d oldc = (st', d', evs) -> frame st st' /\ same_data d d'.
  Proof.
    intros st d oldc st' d' evs H. unfold scan_ep in H.
    destruct (fold_left (scan_add_step sup shuffle) (set_candidates shuffle prune_set st (with_cache d []))
                        (tick st, with_cache d [], [])) as [[st1 d1] evs1] eqn:E1.
    destruct (fold_left (scan_del_step sup shuffle) (shuffle st1 _ oldc) (tick st1, [])) as [st2 evs2] eqn:E2.
    injection H as H1 H2 H3. subst.
    apply scan_add_frame in E1. destruct E1 as [F1 S1]. apply scan_del_frame in E2.
    split. { eapply frame_trans; [exact F1 | exact E2]. }
    eapply same_data_trans; [|exact S1]. repeat split.
  Qed.

  Lemma frame_tick : forall st, frame st (tick st).
  Proof. intros. split. apply eps_sim_refl. split; auto. apply sets_sim_refl. Qed.

  (* UpdateIPSet's endpoint scan *)
  Lemma scan_new_frame : forall sid todo st evs st' evs',
    fold_left (scan_new_set_step sup shuffle sid) todo (st, evs) = (st', evs') -> frame st st'.
  Proof.
    intros sid. induction todo as [|eid todo IH]; intros st evs st' evs' H; simpl in H.
    - inversion H; subst. apply frame_refl.
    - destruct (alookup eid (st_eps st)) as [d|] eqn:Le; [|apply IH in H; exact H].
      destruct (alookup sid (st_sets st)) as [s|] eqn:Ls; [|apply IH in H; exact H].
      destruct (ep_matches st s d); [|apply IH in H; exact H].
      destruct (contribution d s) as [|m0 ms0] eqn:Ec; [apply IH in H; exact H|].
      change (let (s1, e1) := incref sup (shuffle st) sid s m0 in
              let (s2, e2) := incref_list sup (shuffle st) sid s1 ms0 in (s2, e1 ++ e2))
        with (incref_list sup (shuffle st) sid s (m0 :: ms0)) in H.
      pose proof (incref_list_static (shuffle st) sid (m0 :: ms0) s) as St.
      destruct (incref_list sup (shuffle st) sid s (m0 :: ms0)) as [s1 e1]. simpl in St.
      apply IH in H. eapply frame_trans; [|exact H].
      split; [|split]; simpl; auto.
      + eapply eps_sim_aset; eauto. unfold add_cache. destruct (memN sid (e_cache d)); repeat split.
      + eapply sets_sim_aset; eauto.
  Qed.

  Lemma delete_ipset_frame : forall st sid,
    eps_sim (st_eps st) (st_eps (delete_ipset shuffle prune_ep st sid)) /\
    st_pars (delete_ipset shuffle prune_ep st sid) = st_pars st /\
    forall x, alookup x (st_sets (delete_ipset shuffle prune_ep st sid)) =
              if N.eqb x sid then None else alookup x (st_sets st).
  Proof.
    intros st sid. unfold delete_ipset. destruct (alookup sid (st_sets st)) eqn:Ls.
    - simpl. split; [|split]; auto.
      + intros e. induction (st_eps st) as [|[k v] l IH]; simpl; auto.
        destruct (memN k (ep_candidates shuffle prune_ep st sid)); simpl; destruct (N.eqb e k); auto;
          repeat split.
      + intros x. apply alookup_adel.
    - split. apply eps_sim_refl. split; auto. intros x. destruct (N.eqb x sid) eqn:E; auto.
      apply N.eqb_eq in E. subst. auto.
  Qed.

  (* updateParent: everything but the labels of pid is framed *)
  Lemma update_parent_frame : forall pid oldl newl ids st evs st' evs',
    fold_left (update_parent_step sup shuffle prune_set pid oldl newl) ids (st, evs) = (st', evs') ->
    eps_sim (st_eps st) (st_eps st') /\ sets_sim (st_sets st) (st_sets st') /\
    forall p, p <> pid -> par_labels st' p = par_labels st p.
  Proof.
    intros pid oldl newl. induction ids as [|eid ids IH]; intros st evs st' evs' H; simpl in H.
    - inversion H; subst. split. apply eps_sim_refl. split. apply sets_sim_refl. auto.
    - destruct (alookup eid (st_eps st)) as [d|] eqn:Le; [|apply IH in H; exact H].
      destruct (scan_ep sup shuffle prune_set (set_par st pid newl) d (recalc (set_par st pid oldl) d))
        as [[st2 d'] evs2] eqn:Es.
      apply scan_ep_frame in Es. destruct Es as [(F1 & F2 & F3) Sd]. simpl in F1, F2, F3.
      apply IH in H. destruct H as (H1 & H2 & H3). simpl in H1, H2.
      split; [|split].
      + eapply eps_sim_trans; [|exact H1]. eapply eps_sim_trans; [exact F1|].
        specialize (F1 eid). rewrite Le in F1. destruct (alookup eid (st_eps st2)) as [d2|] eqn:L2; [|contradiction].
        eapply eps_sim_aset; eauto. eapply same_data_trans; [|exact Sd].
        destruct F1 as (A&B&C&D). repeat split; congruence.
      + eapply sets_sim_trans; eauto.
      + intros p Np. rewrite H3; auto. unfold par_labels. simpl. rewrite F2. simpl.
        rewrite alookup_aset. apply N.eqb_neq in Np. rewrite Np. reflexivity.
  Qed.
End Frames.
