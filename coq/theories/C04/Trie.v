(* C04 — the overlap suppressor on the REAL trie (the model of felix/ip/trie.go proved in C36):
   memberDeduplicator.Add / Remove written with CIDRTrie.Covers / Update / ClosestDescendants / Delete,
   one trie per address family (getTrie), and the proof that every call returns exactly what the
   set-of-stored-prefixes suppressor of Model.v returns for a suitable order of the masked CIDRs.
   (Model.v's theorems hold for EVERY order of the masked CIDRs.)  Additive file: nothing in Model.v
   changes. *)
From Coq Require Import List NArith Arith Bool Lia Permutation.
From Verif.Common Require Import Labels Prefix.
From Verif.C36 Require Model Spec Proofs Queries General.
From Verif.C04 Require Import Model Sets Refs.
Import ListNotations.
Local Open Scope nat_scope.

Module M36 := Verif.C36.Model.
Module S36 := Verif.C36.Spec.
Module P36 := Verif.C36.Proofs.
Module Q36 := Verif.C36.Queries.
Module G36 := Verif.C36.General.

(* v4tries[set], v6tries[set] of memberDeduplicator *)
Record tsup := mkTS { ts4 : M36.trie; ts6 : M36.trie }.
Definition empty_ts : tsup := mkTS M36.Leaf M36.Leaf.
Definition ts_get (T : tsup) (f : fam) : M36.trie := match f with V4 => ts4 T | V6 => ts6 T end.
Definition ts_set (T : tsup) (f : fam) (t : M36.trie) : tsup :=
  match f with V4 => mkTS t (ts6 T) | V6 => mkTS (ts4 T) t end.

(* memberDeduplicator.Add: Covers, then Update, then (if not covered) ClosestDescendants of the new node.
   None of ClosestDescendants = out of fuel, excluded by c36_closest_descendants. *)
Definition trie_add (T : tsup) (c : cidr) : tsup * bool * list cidr :=
  let f := cfam c in
  let w := width f in
  let t := ts_get T f in
  let covered := M36.tcovers w t (cpre c) in
  let t' := M36.update w t (cpre c) 1%N in
  let T' := ts_set T f t' in
  if covered then (T', false, [])
  else match M36.closest_descendants w (M36.cd_fuel w) t' [] (cpre c) with
       | Some l => (T', true, map (mkC f) l)
       | None => (T', true, [])
       end.

(* memberDeduplicator.Remove: ClosestDescendants first, then Delete, then Covers *)
Definition trie_remove (T : tsup) (c : cidr) : tsup * bool * list cidr :=
  let f := cfam c in
  let w := width f in
  let t := ts_get T f in
  let masked := match M36.closest_descendants w (M36.cd_fuel w) t [] (cpre c) with
                | Some l => map (mkC f) l
                | None => []
                end in
  let t' := M36.delete w t (cpre c) in
  let T' := ts_set T f t' in
  if M36.tcovers w t' (cpre c) then (T', false, []) else (T', true, masked).

(* the stored prefixes *)
Definition keys (f : fam) (t : M36.trie) : list cidr := map (fun e => mkC f (fst e)) (M36.to_slice t).
Definition abs (T : tsup) : list cidr := keys V4 (ts4 T) ++ keys V6 (ts6 T).
Definition wf_ts (T : tsup) : Prop := P36.wf 32 (ts4 T) /\ P36.wf 128 (ts6 T).

Lemma wf_ts_get : forall T f, wf_ts T -> P36.wf (width f) (ts_get T f).
Proof. intros T [|] [A B]; simpl; auto. Qed.
Lemma wf_ts_set : forall T f t, wf_ts T -> P36.wf (width f) t -> wf_ts (ts_set T f t).
Proof. intros T [|] t [A B] H; split; simpl; auto. Qed.

Lemma In_abs : forall T x, In x (abs T) <-> In (cpre x) (map fst (M36.to_slice (ts_get T (cfam x)))).
Proof.
  intros T [f p]. unfold abs, keys. rewrite in_app_iff, !in_map_iff. simpl. split.
  - intros [[e [E H]]|[e [E H]]]; inversion E; subst; simpl; exists e; auto.
  - intros [e [E H]]. destruct f; simpl in H; [left|right]; exists e; subst; auto.
Qed.

Lemma In_abs_set : forall T f t x,
  In x (abs (ts_set T f t)) <-> (cfam x = f /\ In (cpre x) (map fst (M36.to_slice t))) \/ (cfam x <> f /\ In x (abs T)).
Proof.
  intros T f t x. rewrite !In_abs. destruct x as [g p]. simpl.
  destruct f, g; simpl; split; intros H; try tauto;
    try (destruct H as [[E _]|[E H]]; [discriminate|auto]);
    try (right; split; [discriminate|auto]); try (left; split; auto);
    try (destruct H as [[_ H]|[E _]]; [auto|congruence]).
Qed.

(* stored prefixes of a well-formed trie are well formed and pairwise distinct *)
Lemma keys_wf : forall w t e, P36.wf w t -> In e (M36.to_slice t) -> wfp w (fst e).
Proof. intros w t e W H. apply (P36.slice_in w t e W H). Qed.

Lemma NoDup_app3 : forall {A} (a b : list A), NoDup a -> NoDup b -> (forall x, In x a -> ~ In x b) -> NoDup (a ++ b).
Proof. intros. apply NoDup_app_disj; auto. Qed.

Lemma slice_keys_nodup : forall w t, P36.wf w t -> NoDup (map fst (M36.to_slice t)).
Proof.
  intros w. induction t as [|c d l IHl r IHr]; intros W; simpl. constructor.
  pose proof W as (Hc & Hd & Hl & Hr & Wl & Wr).
  rewrite !map_app.
  assert (Dl : forall k, In k (map fst (M36.to_slice l)) -> under w c false k = true).
  { intros k Hk. apply in_map_iff in Hk. destruct Hk as [e [<- He]]. apply (P36.slice_under_l w c d l r e W He). }
  assert (Dr : forall k, In k (map fst (M36.to_slice r)) -> under w c true k = true).
  { intros k Hk. apply in_map_iff in Hk. destruct Hk as [e [<- He]]. apply (P36.slice_under_r w c d l r e W He). }
  apply NoDup_app3.
  - destruct d; simpl; repeat constructor; auto.
  - apply NoDup_app3; auto. intros k Hl' Hr'. pose proof (Dl k Hl') as U1. pose proof (Dr k Hr') as U2.
    apply P36.under_other in U1. simpl in U1. congruence.
  - intros k Hk Hin. destruct d; simpl in Hk; [|contradiction]. destruct Hk as [<-|[]].
    apply in_app_iff in Hin. destruct Hin as [Hin|Hin].
    + apply Dl in Hin. apply P36.under_neq in Hin. congruence.
    + apply Dr in Hin. apply P36.under_neq in Hin. congruence.
Qed.

Lemma abs_nodup : forall T, wf_ts T -> NoDup (abs T).
Proof.
  intros T [W4 W6]. unfold abs, keys. apply NoDup_app_disj.
  - rewrite <- (map_map fst (mkC V4)). apply FinFun.Injective_map_NoDup.
    intros a b E; inversion E; auto. eapply slice_keys_nodup; eauto.
  - rewrite <- (map_map fst (mkC V6)). apply FinFun.Injective_map_NoDup.
    intros a b E; inversion E; auto. eapply slice_keys_nodup; eauto.
  - intros x H4 H6. apply in_map_iff in H4. apply in_map_iff in H6.
    destruct H4 as [e [E _]], H6 as [e' [E' _]]. subst. discriminate.
Qed.

Lemma abs_wf : forall T, wf_ts T -> wfset (abs T).
Proof.
  intros T [W4 W6] x H. unfold abs, keys in H. apply in_app_iff in H.
  destruct H as [H|H]; apply in_map_iff in H; destruct H as [e [<- He]]; unfold wfc; simpl; eapply keys_wf; eauto.
Qed.

(* keys of the finite map after insert / remove *)
Lemma keys_m_insert : forall c v m k, In k (map fst (S36.m_insert c v m)) <-> k = c \/ In k (map fst m).
Proof.
  induction m as [|[k0 x] m IH]; simpl; intros k. intuition.
  destruct (prefix_eqb k0 c) eqn:E.
  - apply prefix_eqb_eq in E. subst. simpl. intuition.
  - destruct (prefix_ltb c k0); simpl; [intuition|]. rewrite IH. intuition.
Qed.
Lemma keys_m_remove : forall c m k, In k (map fst (S36.m_remove c m)) <-> In k (map fst m) /\ k <> c.
Proof.
  intros. unfold S36.m_remove. rewrite !in_map_iff. split.
  - intros [e [<- H]]. apply filter_In in H. destruct H as [H N]. apply negb_true_iff, prefix_eqb_neq in N. split; eauto.
  - intros [[e [<- H]] N]. exists e. split; auto. apply filter_In. split; auto. apply negb_true_iff, prefix_eqb_neq. auto.
Qed.
Lemma m_mem_In : forall c m, S36.m_mem c m = true <-> In c (map fst m).
Proof.
  intros. unfold S36.m_mem. rewrite existsb_exists, in_map_iff. split.
  - intros [e [H E]]. apply prefix_eqb_eq in E. eauto.
  - intros [e [<- H]]. exists e. split; auto. apply prefix_eqb_refl.
Qed.

(* Covers of the family's trie = t_covers of the stored set *)
Lemma t_covers_abs : forall T c, t_covers (abs T) c = S36.spec_covers (width (cfam c)) (M36.to_slice (ts_get T (cfam c))) (cpre c).
Proof.
  intros T [f p]. unfold t_covers, abs, keys, S36.spec_covers. rewrite existsb_app. simpl.
  assert (Same : forall g (m : list (prefix * N)), existsb (fun q => ccovers q (mkC g p)) (map (fun e => mkC g (fst e)) m)
                           = existsb (fun e => covers (width g) (fst e) p) m).
  { intros g m. induction m as [|e m IH]; simpl; auto. rewrite IH. unfold ccovers. simpl. rewrite fam_eqb_refl. reflexivity. }
  assert (Other : forall g h (m : list (prefix * N)), g <> h -> existsb (fun q => ccovers q (mkC h p)) (map (fun e => mkC g (fst e)) m) = false).
  { intros g h m N. induction m as [|e m IH]; simpl; auto. rewrite IH. unfold ccovers. simpl.
    destruct g, h; simpl; auto; congruence. }
  destruct f; simpl.
  - rewrite Same, (Other V6 V4) by discriminate. apply orb_false_r.
  - rewrite (Other V4 V6), Same by discriminate. reflexivity.
Qed.

Lemma t_covers_ext : forall A B c, (forall x, In x A <-> In x B) -> t_covers A c = t_covers B c.
Proof.
  intros A B c E. destruct (t_covers A c) eqn:Ea, (t_covers B c) eqn:Eb; auto.
  - apply t_covers_spec in Ea. destruct Ea as [p [Hp Cp]]. apply E in Hp.
    assert (t_covers B c = true) by (apply t_covers_spec; eauto). congruence.
  - apply t_covers_spec in Eb. destruct Eb as [p [Hp Cp]]. apply E in Hp.
    assert (t_covers A c = true) by (apply t_covers_spec; eauto). congruence.
Qed.

Lemma In_t_closest_ext : forall A B c q, (forall x, In x A <-> In x B) -> In q (t_closest A c) <-> In q (t_closest B c).
Proof.
  intros A B c q E. rewrite !In_t_closest. split; intros (H1 & H2 & H3); (split; [apply E; auto|split; auto]);
    intros r Hr; apply H3; apply E; auto.
Qed.

(* ClosestDescendants of the family's trie = t_closest of the stored set *)
Lemma closest_abs : forall T c q, 
  In q (map (mkC (cfam c)) (S36.closest (width (cfam c)) (M36.to_slice (ts_get T (cfam c))) (cpre c))) <->
  In q (t_closest (abs T) c).
Proof.
  intros T c q. rewrite In_t_closest, in_map_iff. unfold S36.closest.
  set (f := cfam c). set (w := width f). set (m := M36.to_slice (ts_get T f)).
  assert (Str : forall a b, cstrict (mkC f a) (mkC f b) = strictly_covers w a b).
  { intros a b. unfold cstrict, strictly_covers, ccovers, cidr_eqb. simpl. rewrite fam_eqb_refl. reflexivity. }
  assert (Fam : forall a b, cstrict a b = true -> cfam a = cfam b).
  { intros a b H. apply cstrict_spec in H. destruct H. apply ccovers_fam. auto. }
  assert (Cc : c = mkC f (cpre c)) by (destruct c; reflexivity).
  split.
  - intros [p [<- Hp]]. apply in_map_iff in Hp. destruct Hp as [e [<- He]]. apply filter_In in He.
    destruct He as [He Hf]. apply andb_true_iff in Hf. destruct Hf as [S1 S2]. apply negb_true_iff in S2.
    split. { apply In_abs. simpl. apply in_map. auto. }
    split. { rewrite Cc, Str. auto. }
    intros r Hr A B. pose proof (Fam _ _ A) as Fr. simpl in Fr.
    apply In_abs in Hr. rewrite <- Fr in Hr. apply in_map_iff in Hr. destruct Hr as [er [Er Her]].
    assert (existsb (fun r0 => strictly_covers w (cpre c) (fst r0) && strictly_covers w (fst r0) (fst e)) m = true).
    { apply existsb_exists. exists er. split; auto. rewrite Er.
      assert (Rr : r = mkC f (cpre r)) by (destruct r; simpl in *; unfold f in *; congruence).
      rewrite Rr, Cc in A. rewrite Str in A. rewrite Rr in B. rewrite Str in B. simpl in A. rewrite A, B. auto. }
    congruence.
  - intros (Hq & Sq & Hm). pose proof (Fam _ _ Sq) as Fq. fold f in Fq.
    assert (Qq : q = mkC f (cpre q)) by (destruct q; simpl in *; unfold f in *; congruence).
    apply In_abs in Hq. rewrite <- Fq in Hq. apply in_map_iff in Hq. destruct Hq as [e [Ee He]].
    exists (cpre q). split; auto. apply in_map_iff. exists e. split; auto. apply filter_In. split; auto.
    rewrite Ee. apply andb_true_iff. split.
    + rewrite <- Str. rewrite <- Cc, <- Qq. auto.
    + apply negb_true_iff. destruct (existsb _ m) eqn:Ex; auto. exfalso.
      apply existsb_exists in Ex. destruct Ex as [er [Her Hb]]. apply andb_true_iff in Hb. destruct Hb as [B1 B2].
      apply (Hm (mkC f (fst er))).
      * apply In_abs. simpl. apply in_map. auto.
      * rewrite Cc, Str. auto.
      * rewrite Qq, Str. auto.
Qed.

Lemma closest_nodup : forall w m q, NoDup (map fst m) -> NoDup (S36.closest w m q).
Proof.
  intros w m q. unfold S36.closest. generalize (fun e : prefix * N =>
      strictly_covers w q (fst e) && negb (existsb (fun r => strictly_covers w q (fst r) && strictly_covers w (fst r) (fst e)) m)).
  intros g. induction m as [|e m IH]; simpl; intros H. constructor.
  inversion H; subst. destruct (g e); simpl; auto. constructor; auto.
  intros Hi. apply H2. apply in_map_iff in Hi. destruct Hi as [e' [E He']]. apply filter_In in He'. destruct He'.
  apply in_map_iff. eauto.
Qed.

(* any permutation of a list is realised by a polymorphic, content-blind reordering *)
Lemma perm_realize : forall {A} (l l' : list A), Permutation l l' ->
  exists sh : forall B : Type, list B -> list B, perm_ok sh /\ sh A l = l'.
Proof.
  intros A l l' P. induction P.
  - exists (fun _ x => x). split; auto. intros B x. apply Permutation_refl.
  - destruct IHP as [sh [Ok E]].
    exists (fun B x => match x with [] => [] | a :: r => a :: sh B r end). split.
    + intros B [|a r]; auto.
    + simpl. rewrite E. auto.
  - exists (fun B x => match x with a :: b :: r => b :: a :: r | _ => x end). split; auto.
    intros B [|a [|b r]]; auto. apply perm_swap.
  - destruct IHP1 as [s1 [O1 E1]], IHP2 as [s2 [O2 E2]].
    exists (fun B x => s2 B (s1 B x)). split.
    + intros B x. eapply Permutation_trans; [apply O1 | apply O2].
    + rewrite E1. auto.
Qed.

(* the trie-backed state refines the stored set S of Model.v *)
Definition Rts (T : tsup) (S : list cidr) : Prop := wf_ts T /\ NoDup S /\ forall x, In x S <-> In x (abs T).

Lemma Rts_empty : Rts empty_ts [].
Proof. split. split; simpl; auto. split. constructor. intros x. simpl. tauto. Qed.

Theorem trie_add_sim : forall T S c T' b l,
  Rts T S -> wfc c -> trie_add T c = (T', b, l) ->
  exists sh, perm_ok sh /\ Rts T' (fst (fst (sup_add true sh S c))) /\ sup_add true sh S c = (t_update S c, b, l).
Proof.
  intros T S c T' b l (W & ND & E) Wc H. unfold trie_add in H.
  set (f := cfam c) in *. set (w := width f) in *. set (t := ts_get T f) in *.
  pose proof (wf_ts_get T f W) as Wt. fold w t in Wt.
  destruct (P36.update_spec w 1%N (cpre c) Wc t Wt) as (Wt' & Sl & _).
  set (t' := M36.update w t (cpre c) 1%N) in *.
  assert (W' : wf_ts (ts_set T f t')) by (apply wf_ts_set; auto).
  assert (E' : forall x, In x (t_update S c) <-> In x (abs (ts_set T f t'))).
  { intros x. rewrite In_t_update, In_abs_set, Sl, keys_m_insert, E, In_abs. destruct x as [g p], c as [h q].
    simpl in *. subst f.
    assert (Dec : g = h \/ g <> h) by (destruct g, h; auto; right; discriminate).
    split.
    - intros [H0|H0].
      + destruct Dec as [->|N]; [left; split; auto; right; exact H0 | right; split; auto].
      + inversion H0; subst. left. split; auto.
    - intros [[-> [->|H0]]|[N H0]]; auto. }
  assert (Cov : M36.tcovers w t (cpre c) = t_covers S c).
  { rewrite (Q36.covers_spec_trie w (cpre c) Wc t Wt). rewrite (t_covers_ext S (abs T)); auto.
    rewrite t_covers_abs. reflexivity. }
  rewrite Cov in H. unfold sup_add.
  destruct (t_covers S c) eqn:Ec.
  - inversion H; subst. exists (fun _ x => x). split. intros B x; apply Permutation_refl.
    simpl. split; auto. split; auto. split. apply NoDup_t_update; auto. exact E'.
  - rewrite (G36.closest_descendants_spec w t' (cpre c) [] Wt' Wc) in H.
    assert (Node : S36.is_node w (M36.to_slice t') (cpre c) = true).
    { unfold S36.is_node. apply orb_true_iff. left. apply m_mem_In. rewrite Sl. apply keys_m_insert. auto. }
    rewrite Node in H. simpl in H. inversion H; subst; clear H.
    assert (P : Permutation (t_closest (t_update S c) c) (map (mkC f) (S36.closest w (M36.to_slice t') (cpre c)))).
    { apply NoDup_Permutation.
      - apply NoDup_t_closest. apply NoDup_t_update. auto.
      - apply FinFun.Injective_map_NoDup. intros a b' Eab; inversion Eab; auto.
        apply closest_nodup. eapply slice_keys_nodup; eauto.
      - intros q. rewrite (In_t_closest_ext _ (abs (ts_set T f t')) c q E').
        pose proof (closest_abs (ts_set T f t') c q) as CA. fold f w in CA.
        assert (Eg : ts_get (ts_set T f t') f = t') by (destruct f; reflexivity).
        rewrite Eg in CA. symmetry. exact CA. }
    destruct (perm_realize _ _ P) as [sh [Ok Es]].
    exists sh. split; auto. simpl. rewrite Es. split; auto. split; auto. split. apply NoDup_t_update; auto. exact E'.
Qed.

Theorem trie_remove_sim : forall T S c T' b l,
  Rts T S -> wfc c -> In c S -> trie_remove T c = (T', b, l) ->
  exists sh, perm_ok sh /\ Rts T' (fst (fst (sup_remove true sh S c))) /\ sup_remove true sh S c = (t_delete S c, b, l).
Proof.
  intros T S c T' b l (W & ND & E) Wc Hin H. unfold trie_remove in H.
  set (f := cfam c) in *. set (w := width f) in *. set (t := ts_get T f) in *.
  pose proof (wf_ts_get T f W) as Wt. fold w t in Wt.
  destruct (P36.delete_spec w (cpre c) t Wc Wt) as (Wt' & Sl).
  set (t' := M36.delete w t (cpre c)) in *.
  assert (W' : wf_ts (ts_set T f t')) by (apply wf_ts_set; auto).
  assert (E' : forall x, In x (t_delete S c) <-> In x (abs (ts_set T f t'))).
  { intros x. rewrite In_t_delete, In_abs_set, Sl, keys_m_remove, E, In_abs. destruct x as [g p], c as [h q].
    simpl in *. subst f.
    assert (Dec : g = h \/ g <> h) by (destruct g, h; auto; right; discriminate).
    split.
    - intros [H0 N]. destruct Dec as [->|Ng].
      + left. split; auto. split. exact H0. intros ->. apply N. reflexivity.
      + right. split; auto.
    - intros [[-> [H0 N]]|[N H0]].
      + split. exact H0. intros Ex. inversion Ex. auto.
      + split. exact H0. intros Ex. inversion Ex. auto. }
  assert (Cov : M36.tcovers w t' (cpre c) = t_covers (t_delete S c) c).
  { rewrite (Q36.covers_spec_trie w (cpre c) Wc t' Wt'). rewrite (t_covers_ext _ (abs (ts_set T f t'))); auto.
    rewrite t_covers_abs. fold f w. destruct f; reflexivity. }
  rewrite Cov in H. unfold sup_remove.
  rewrite (G36.closest_descendants_spec w t (cpre c) [] Wt Wc) in H.
  assert (Node : S36.is_node w (M36.to_slice t) (cpre c) = true).
  { unfold S36.is_node. apply orb_true_iff. left. apply m_mem_In. apply E in Hin. apply In_abs in Hin. exact Hin. }
  rewrite Node in H. simpl in H.
  assert (P : Permutation (t_closest S c) (map (mkC f) (S36.closest w (M36.to_slice t) (cpre c)))).
  { apply NoDup_Permutation.
    - apply NoDup_t_closest. auto.
    - apply FinFun.Injective_map_NoDup. intros a b' Eab; inversion Eab; auto.
      apply closest_nodup. eapply slice_keys_nodup; eauto.
    - intros q. rewrite (In_t_closest_ext _ (abs T) c q E). symmetry. apply (closest_abs T c q). }
  destruct (perm_realize _ _ P) as [sh [Ok Es]].
  exists sh. split; auto. rewrite Es.
  destruct (t_covers (t_delete S c) c); inversion H; subst; simpl; (split; [|reflexivity]);
    (split; auto; split; [apply NoDup_t_delete; auto | exact E']).
Qed.

(* onMemberAdded / onMemberRemoved with the trie-backed suppressor *)
Definition on_added_t (sid : N) (T : tsup) (m : member) : tsup * list event :=
  match m with
  | MCidr c => let '(T', add, rems) := trie_add T c in
               (T', (if add then [EAdd sid m] else []) ++ map (fun r => ERem sid (MCidr r)) rems)
  | _ => (T, [EAdd sid m])
  end.
Definition on_removed_t (sid : N) (T : tsup) (m : member) : tsup * list event :=
  match m with
  | MCidr c => let '(T', rem, adds) := trie_remove T c in
               (T', (if rem then [ERem sid m] else []) ++ map (fun r => EAdd sid (MCidr r)) adds)
  | _ => (T, [ERem sid m])
  end.

(* the events of the trie-backed suppressor are the events of Model.v's on_added / on_removed under
   some order of the masked CIDRs, and the refinement relation is kept *)
Theorem on_added_trie_sim : forall sid T s m T' evs,
  Rts T (s_trie s) -> wfm m -> on_added_t sid T m = (T', evs) ->
  exists sh, perm_ok sh /\ snd (on_added true sh sid s m) = evs /\
             Rts T' (s_trie (fst (on_added true sh sid s m))).
Proof.
  intros sid T s m T' evs HR Wm H. destruct m as [c|f a p q]; simpl in H.
  - destruct (trie_add T c) as [[T1 b] l] eqn:Ea. inversion H; subst; clear H.
    destruct (trie_add_sim _ _ _ _ _ _ HR Wm Ea) as [sh [Ok [R1 E1]]].
    exists sh. split; auto. unfold on_added. rewrite E1 in *. simpl in *. split; auto.
  - inversion H; subst. exists (fun _ x => x). split. intros B x; apply Permutation_refl. simpl. auto.
Qed.

Theorem on_removed_trie_sim : forall sid T s m T' evs,
  Rts T (s_trie s) -> wfm m -> (forall c, m = MCidr c -> In c (s_trie s)) -> on_removed_t sid T m = (T', evs) ->
  exists sh, perm_ok sh /\ snd (on_removed true sh sid s m) = evs /\
             Rts T' (s_trie (fst (on_removed true sh sid s m))).
Proof.
  intros sid T s m T' evs HR Wm Hin H. destruct m as [c|f a p q]; simpl in H.
  - destruct (trie_remove T c) as [[T1 b] l] eqn:Ea. inversion H; subst; clear H.
    destruct (trie_remove_sim _ _ _ _ _ _ HR Wm (Hin c eq_refl) Ea) as [sh [Ok [R1 E1]]].
    exists sh. split; auto. unfold on_removed. rewrite E1 in *. simpl in *. split; auto.
  - inversion H; subst. exists (fun _ x => x). split. intros B x; apply Permutation_refl. simpl. auto.
Qed.

(* the case of the seeded change covers-base-address, on the real trie: a narrow CIDR first, then a broad
   one with the same base address — the broad one is emitted and the narrow one withdrawn; removing the
   broad one re-advertises the narrow one *)
Example trie_same_base_nested :
  let c24 := mkC V4 (mkP 167772160 24) in
  let c16 := mkC V4 (mkP 167772160 16) in
  let '(T1, _) := on_added_t 7 empty_ts (MCidr c24) in
  let '(T2, e2) := on_added_t 7 T1 (MCidr c16) in
  let '(_, e3) := on_removed_t 7 T2 (MCidr c16) in
  e2 = [EAdd 7 (MCidr c16); ERem 7 (MCidr c24)] /\ e3 = [ERem 7 (MCidr c16); EAdd 7 (MCidr c24)].
Proof. vm_compute. split; reflexivity. Qed.
