(* C04 — the specification oracle of Spec.v accepts every run of the model. *)
From Coq Require Import List NArith Arith Bool Lia Permutation.
From Verif.Common Require Import Labels Prefix.
From Verif.C04 Require Import Model Spec Sets Refs Counts Proofs State Inv Frame View Main SetThms ViewThms.
Import ListNotations.
Local Open Scope nat_scope.

(* list-based copies of Spec.v against the function-based ones of the proofs *)
Definition Em (em : emap) (F : fam_copy) : Prop := NoDup (map fst em) /\ forall x, em_get em x = F x.

Lemma em_get_aset : forall em sid l x, em_get (aset sid l em) x = if N.eqb x sid then l else em_get em x.
Proof. intros. unfold em_get. rewrite alookup_aset. destruct (N.eqb x sid); reflexivity. Qed.
Lemma em_get_adel : forall em sid x, em_get (adel sid em) x = if N.eqb x sid then [] else em_get em x.
Proof. intros. unfold em_get. rewrite alookup_adel. destruct (N.eqb x sid); reflexivity. Qed.

Lemma apply_event_sim : forall em F e F', Em em F -> apply_f1 F e = Some F' ->
  exists em', apply_event em e = Some em' /\ Em em' F'.
Proof.
  intros em F e F' [ND E] H. unfold apply_f1 in H. destruct e as [sid m|sid m]; simpl in *; rewrite <- E in H.
  - destruct (mem_member m (em_get em sid)); [discriminate|]. inversion H; subst.
    eexists. split; eauto. split. apply NoDup_keys_aset; auto.
    intros x. rewrite em_get_aset. unfold fupd. destruct (N.eqb x sid); auto.
  - destruct (mem_member m (em_get em sid)); [|discriminate]. inversion H; subst.
    eexists. split; eauto. split. apply NoDup_keys_aset; auto.
    intros x. rewrite em_get_aset. unfold fupd. destruct (N.eqb x sid); auto.
Qed.

Lemma apply_events_sim : forall evs em F F', Em em F -> apply_f F evs = Some F' ->
  exists em', apply_events em evs = Some em' /\ Em em' F'.
Proof.
  induction evs as [|e evs IH]; simpl; intros em F F' E H.
  - inversion H; subst. eauto.
  - destruct (apply_f1 F e) as [F1|] eqn:E1; [|discriminate].
    destruct (apply_event_sim _ _ _ _ E E1) as [em1 [A1 B1]]. rewrite A1. eauto.
Qed.

Lemma after_op_sim : forall o em F, Em em F -> Em (after_op o em) (after_op_f o F).
Proof.
  intros o em F [ND E]. destruct o; simpl; try (split; auto).
  - apply NoDup_keys_adel; auto.
  - intros x. rewrite em_get_adel. unfold fupd. destruct (N.eqb x sid); auto.
Qed.

Lemma nodup_b_spec : forall l, NoDup l -> nodup_b l = true.
Proof.
  induction 1; simpl; auto. rewrite IHNoDup, andb_true_r. apply negb_true_iff. apply mem_member_false. auto.
Qed.

Lemma incl_b_spec : forall a b, (forall x, In x a -> In x b) -> incl_b a b = true.
Proof. intros a b H. unfold incl_b. apply forallb_forall. intros x Hx. apply mem_member_In. auto. Qed.

Lemma In_cidrs_of : forall l c, In c (cidrs_of l) <-> In (MCidr c) l.
Proof.
  intros. unfold cidrs_of. rewrite in_flat_map. split.
  - intros [m [Hm Hc]]. destruct m; simpl in Hc; [|contradiction]. destruct Hc as [<-|[]]. auto.
  - intros H. exists (MCidr c). split; auto. left. auto.
Qed.

Lemma subsumed_covered : forall fuel c S,
  existsb (fun s => ccovers s c) S = true -> subsumed fuel c S = true.
Proof. intros fuel c S H. destruct fuel; simpl; rewrite H; reflexivity. Qed.

Lemma view_step_nodup_sets : forall v o, NoDup (map fst (v_sets v)) -> NoDup (map fst (v_sets (view_step v o))).
Proof.
  intros v o H. destruct o; simpl; auto.
  - apply NoDup_keys_aset. auto.
  - apply NoDup_keys_adel. auto.
Qed.

Section Meets.
  Variable sel_of : N -> ast.
  Variable sup : bool.

  (* the per-state check of the oracle follows from the invariant and the state/view relation *)
  Lemma ok_view_holds : forall st F v em,
    GInv sup st F -> R sel_of st v -> NoDup (map fst (v_eps v)) -> NoDup (map fst (v_sets v)) -> Em em F ->
    ok_view sup v em = true.
  Proof.
    intros st F v em G HR NDv NDvs [NDem E]. unfold ok_view. apply andb_true_iff. split.
    - apply forallb_forall. intros [sid vs] Hi. simpl. rewrite E.
      pose proof (In_alookup _ _ _ NDvs Hi) as Lv.
      destruct (view_set_lookup _ _ _ _ _ HR Lv) as [s Ls].
      pose proof (GInv_set _ _ _ _ _ G Ls) as Inv.
      assert (NDe : NoDup (map fst (st_eps st))) by (destruct G as (A & _); exact A).
      assert (TS : forall m, truth st s m <-> In m (spec_members v vs)).
      { intros m. eapply truth_spec; eauto. }
      assert (Rs : set_rel sel_of s vs).
      { destruct HR as (_ & _ & RS). specialize (RS sid). rewrite Ls, Lv in RS. exact RS. }
      unfold ok_set. apply andb_true_iff. split. { apply nodup_b_spec. eapply rcinv_nodup; eauto. }
      (* members of a named-port set are ports, members of a selector-only set are CIDRs *)
      assert (Shape : forall m, In m (spec_members v vs) ->
                match m with MCidr _ => vs_proto vs = P_NONE | MPort _ _ _ _ => vs_proto vs <> P_NONE end).
      { intros m Hm. unfold spec_members in Hm. apply in_flat_map in Hm. destruct Hm as [[e ve] [_ Hm]].
        simpl in Hm. destruct (v_matches v vs ve); [|contradiction]. unfold spec_contrib in Hm.
        destruct (vs_proto vs =? P_NONE)%N eqn:Ep.
        - apply N.eqb_eq in Ep. apply in_map_iff in Hm. destruct Hm as [c [<- _]]. auto.
        - apply N.eqb_neq in Ep. unfold spec_port_members in Hm. apply in_flat_map in Hm. destruct Hm as [c [_ Hm]].
          apply in_flat_map in Hm. destruct Hm as [p [_ Hm]].
          destruct (bytes_eqb (pt_name p) (vs_port vs) && matches_proto (vs_proto vs) (pt_proto p)); [|contradiction].
          destruct Hm as [<-|[]]. auto. }
      destruct sup eqn:Esup.
      + (* suppressor on *)
        destruct (suppressed_same_cover st F sid s G Ls) as [C1 C2].
        pose proof (suppressed_antichain st F sid s G Ls) as AC.
        destruct (vs_proto vs =? P_NONE)%N eqn:Ep; simpl.
        * apply N.eqb_eq in Ep.
          assert (Wf : forall c, In (MCidr c) (F sid) -> wfc c).
          { intros c Hc. destruct Inv as (_ & (_ & W & _ & D) & _). apply D in Hc. destruct Hc as [Hc _]. apply (W _ Hc). }
          apply andb_true_iff. split. apply andb_true_iff. split.
          -- unfold only_cidrs. apply forallb_forall. intros m Hm. destruct m as [c|f a p q]; auto.
             exfalso. apply (members_exact_ports true st F sid s G Ls) in Hm. apply TS in Hm.
             apply Shape in Hm. contradiction.
          -- unfold antichain_b. apply forallb_forall. intros a Ha. apply forallb_forall. intros b Hb.
             apply In_cidrs_of in Ha. apply In_cidrs_of in Hb.
             destruct (ccovers a b) eqn:Cab; simpl; [|apply orb_true_r].
             rewrite (AC a b Ha Hb Cab). rewrite cidr_eqb_refl. reflexivity.
          -- unfold same_cover_b. apply andb_true_iff. split.
             ++ apply forallb_forall. intros e He. apply In_cidrs_of in He. apply subsumed_covered.
                apply existsb_exists. exists e. split. apply In_cidrs_of. apply TS. apply C1. auto.
                apply ccovers_refl. auto.
             ++ apply forallb_forall. intros t Ht. apply In_cidrs_of in Ht. apply subsumed_covered.
                destruct (C2 t) as [e [He Ce]]. apply TS. auto.
                apply existsb_exists. exists e. split; auto. apply In_cidrs_of. auto.
        * apply N.eqb_neq in Ep. unfold set_eq_b. apply andb_true_iff. split; apply incl_b_spec; intros m Hm.
          -- destruct m as [c|f a p q].
             ++ apply TS. apply C1. auto.
             ++ apply TS. apply (members_exact_ports true st F sid s G Ls). auto.
          -- destruct m as [c|f a p q].
             ++ apply Shape in Hm. contradiction.
             ++ apply (members_exact_ports true st F sid s G Ls). apply TS. auto.
      + rewrite andb_false_r. unfold set_eq_b. apply andb_true_iff. split; apply incl_b_spec; intros m Hm.
        * apply TS. apply (members_exact_nosup st F sid s G Ls). auto.
        * apply (members_exact_nosup st F sid s G Ls). apply TS. auto.
    - apply forallb_forall. intros [x l] Hi. simpl.
      destruct (alookup x (v_sets v)) eqn:Lv; auto. destruct l as [|m l]; auto.
      assert (Lx : alookup x (st_sets st) = None).
      { destruct HR as (_ & _ & RS). specialize (RS x). rewrite Lv in RS.
        destruct (alookup x (st_sets st)); [contradiction|auto]. }
      destruct G as (_ & _ & [_ OB] & _). specialize (OB x Lx). rewrite <- E in OB.
      unfold em_get in OB. rewrite (In_alookup _ _ _ NDem Hi) in OB. discriminate.
  Qed.

  Variable shuffle : state -> forall A : Type, list A -> list A.
  Variable prune_ep : state -> N -> N -> bool.
  Variable prune_set : state -> epdata -> N -> bool.
  Hypothesis O : oracles_ok shuffle prune_ep prune_set.

  Lemma meets_from : forall ops st F v em st' evss,
    GInv sup st F -> R sel_of st v -> NoDup (map fst (v_eps v)) -> NoDup (map fst (v_sets v)) -> Em em F ->
    Forall op_wf ops -> Forall (op_interned sel_of) ops ->
    run sup shuffle prune_ep prune_set st ops = (st', evss) ->
    ok_trace_from sup v em ops evss = true.
  Proof.
    induction ops as [|o ops IH]; intros st F v em st' evss G HR NDv NDvs HE W I H; simpl in H.
    - inversion H; subst. reflexivity.
    - destruct (step sup shuffle prune_ep prune_set (tick st) o) as [st1 evs] eqn:Es.
      destruct (run sup shuffle prune_ep prune_set st1 ops) as [st2 rest] eqn:Er.
      injection H as H1 H2. subst st' evss. inversion W; subst. inversion I; subst.
      destruct O as (O1 & O2 & O3).
      destruct (step_ok sup shuffle prune_ep prune_set O1 O2 O3 (tick st) F o st1 evs G H1 Es) as [F1 [Af G1]].
      destruct (apply_events_sim _ _ _ _ HE Af) as [em1 [A1 E1]].
      pose proof (after_op_sim o _ _ E1) as E2.
      assert (R1 : R sel_of st1 (view_step v o)).
      { apply (step_R sel_of sup shuffle prune_ep prune_set (tick st) v o st1 evs); auto. }
      simpl. rewrite A1. apply andb_true_iff. split.
      + eapply ok_view_holds; eauto. apply view_step_nodup; auto. apply view_step_nodup_sets; auto.
      + eapply IH; eauto. apply view_step_nodup; auto. apply view_step_nodup_sets; auto.
  Qed.
End Meets.

(* the oracle of Spec.v accepts every run of the model, with either suppressor setting, for every
   iteration order and every sound pruning *)
Lemma c04_model_meets_spec_proof : forall sel_of sup shuffle prune_ep prune_set ops,
  oracles_ok shuffle prune_ep prune_set -> Forall op_wf ops -> Forall (op_interned sel_of) ops ->
  ok_trace sup ops (snd (run sup shuffle prune_ep prune_set empty_state ops)) = true.
Proof.
  intros sel_of sup shuffle prune_ep prune_set ops O W I. unfold ok_trace.
  destruct (run sup shuffle prune_ep prune_set empty_state ops) as [st evss] eqn:Er. simpl.
  eapply (meets_from sel_of sup shuffle prune_ep prune_set O ops empty_state (fun _ => []) empty_view []); eauto.
  - apply GInv_empty.
  - apply R_empty.
  - constructor.
  - constructor.
  - split. constructor. intros x. reflexivity.
Qed.
