(* C04 — the invariant along every history, and what it says about the emitted members. *)
From Coq Require Import List NArith Arith Bool Lia Permutation.
From Verif.Common Require Import Labels Prefix.
From Verif.C04 Require Import Model Spec Sets Refs Counts Proofs State Inv InvPar InvSet SetThms.
Import ListNotations.
Local Open Scope nat_scope.

(* ------------------------------------------------------------------ well-formed inputs *)

(* what the API can be handed: addresses that fit the family, prefix lengths within the width; CIDRs
   given to UpdateEndpointOrSet directly (KRaw) are ip.CIDR values, which are always masked *)
Definition raw_ok (k : kind) (c : cidr) : Prop :=
  plen (cpre c) <= width (cfam c) /\ (paddr (cpre c) < 2 ^ N.of_nat (width (cfam c)))%N /\
  (k = KRaw -> wfc c).

Definition op_wf (o : op) : Prop :=
  match o with
  | OpEp _ k _ nets _ _ => forall c, In c nets -> raw_ok k c
  | _ => True
  end.

Lemma half_wf : forall f, wfc (mkC f (mkP 0%N 1)) /\ wfc (mkC f (mkP (2 ^ N.of_nat (width f - 1))%N 1)).
Proof. intros f. destruct f; split; unfold wfc; simpl; apply wfpb_spec; vm_compute; reflexivity. Qed.

Lemma extract_wf : forall k nets, (forall c, In c nets -> raw_ok k c) -> forall c, In c (extract k nets) -> wfc c.
Proof.
  intros k nets H c Hc.
  assert (Host : forall c0, In c0 nets -> wfc (chost (cfam c0) (paddr (cpre c0)))).
  { intros c0 H0. destruct (H c0 H0) as (A & B & _). unfold wfc, chost. simpl. apply host_wf. exact B. }
  destruct k; simpl in Hc.
  - apply in_map_iff in Hc. destruct Hc as [c0 [<- H0]]. auto.
  - apply in_map_iff in Hc. destruct Hc as [c0 [<- H0]]. auto.
  - apply in_flat_map in Hc. destruct Hc as [c0 [H0 Hc]]. destruct (H c0 H0) as (A & B & _).
    unfold extract_net in Hc. destruct (Nat.eqb (plen (cpre (cnorm c0))) 0).
    + destruct (half_wf (cfam c0)) as [W1 W2]. destruct Hc as [<-|[<-|[]]]; auto.
    + destruct Hc as [<-|[]]. unfold wfc, cnorm. simpl. split; [|split]; simpl; auto.
      * apply mask_lt. auto.
      * apply mask_mask.
  - destruct (H c Hc) as (_ & _ & W). auto.
Qed.

(* ------------------------------------------------------------------ replay of a whole history *)

Definition after_op_f (o : op) (F : fam_copy) : fam_copy :=
  match o with OpDelIPSet sid => fupd F sid [] | _ => F end.

(* None = some member was added while present or removed while absent *)
Fixpoint replay_f (F : fam_copy) (ops : list op) (evss : list (list event)) : option fam_copy :=
  match ops, evss with
  | [], [] => Some F
  | o :: ops', evs :: evss' =>
      match apply_f F evs with
      | Some F1 => replay_f (after_op_f o F1) ops' evss'
      | None => None
      end
  | _, _ => None
  end.

Section History.
  Variable sup : bool.
  Variable shuffle : state -> forall A : Type, list A -> list A.
  Variable prune_ep : state -> N -> N -> bool.
  Variable prune_set : state -> epdata -> N -> bool.
  Hypothesis shuffle_ok : forall st, perm_ok (shuffle st).
  Hypothesis prune_ep_sound : forall st sid s eid d,
    alookup sid (st_sets st) = Some s -> alookup eid (st_eps st) = Some d ->
    ep_matches st s d = true -> prune_ep st sid eid = true.
  Hypothesis prune_set_sound : forall st d sid s,
    alookup sid (st_sets st) = Some s -> ep_matches st s d = true -> prune_set st d sid = true.

  Notation step := (step sup shuffle prune_ep prune_set).
  Notation run := (run sup shuffle prune_ep prune_set).

  Lemma GInv_empty : GInv sup empty_state (fun _ => []).
  Proof.
    split. constructor. split. constructor. split.
    - split. intros sid s H. discriminate. auto.
    - intros e d [].
  Qed.

  Lemma step_ok : forall st F o st' evs,
    GInv sup st F -> op_wf o -> step st o = (st', evs) ->
    exists F', apply_f F evs = Some F' /\ GInv sup st' (after_op_f o F').
  Proof.
    intros st F o st' evs G W H. destruct o; simpl in H; simpl after_op_f.
    - eapply update_ipset_ok; eauto.
    - inversion H; subst. exists F. split; auto. apply delete_ipset_ok; auto. apply GInv_WInv. auto.
    - eapply update_ep_ok; eauto. apply extract_wf. exact W.
    - eapply delete_ep_ok; eauto.
    - eapply update_parent_ok; eauto.
    - eapply update_parent_ok; eauto.
  Qed.

  Lemma run_inv : forall ops st F st' evss,
    GInv sup st F -> Forall op_wf ops -> run st ops = (st', evss) ->
    exists F', replay_f F ops evss = Some F' /\ GInv sup st' F'.
  Proof.
    induction ops as [|o ops IH]; intros st F st' evss G W H; simpl in H.
    - inversion H; subst. exists F. auto.
    - destruct (step (tick st) o) as [st1 evs] eqn:Es. destruct (run st1 ops) as [st2 rest] eqn:Er.
      inversion H; subst; clear H. inversion W; subst.
      destruct (step_ok (tick st) F o st1 evs G H1 Es) as [F1 [Af G1]].
      destruct (IH _ _ _ _ G1 H2 Er) as [F' [Rp G']].
      exists F'. split; auto. simpl. rewrite Af. auto.
  Qed.

  (* -------------------------------------------------------------- what the invariant says *)

  (* the members the rule selects, read off the index's own copy of the datastore *)
  Definition truth (st : state) (s : ipset) (m : member) : Prop :=
    exists e d, In (e, d) (st_eps st) /\ ep_matches st s d = true /\ In m (contribution d s).

  Lemma list_sum_pos : forall l, list_sum l > 0 <-> exists x, In x l /\ x > 0.
  Proof.
    induction l as [|a l IH]; simpl.
    - split; [lia | intros [x [[] _]]].
    - split.
      + intros H. destruct (Nat.eq_dec a 0).
        * subst. simpl in H. apply IH in H. destruct H as [x [Hx Px]]. eauto.
        * exists a. split; auto. lia.
      + intros [x [[->|Hx] Px]]. lia. assert (list_sum l > 0) by (apply IH; eauto). lia.
  Qed.

  Lemma total_pos_truth : forall st F sid s m,
    GInv sup st F -> alookup sid (st_sets st) = Some s ->
    (total (st_eps st) (st_sets st) sid m > 0 <-> truth st s m).
  Proof.
    intros st F sid s m (NDe & NDs & OK & Heps) Ls. unfold total. rewrite list_sum_pos. split.
    - intros [x [Hx Px]]. apply in_map_iff in Hx. destruct Hx as [[e d] [<- Hi]]. simpl in Px.
      unfold term in Px. destruct (memN sid (e_cache d)) eqn:Mc; [|lia]. rewrite Ls in Px.
      apply memN_In in Mc. destruct (Heps e d Hi) as [_ X]. destruct (X sid s Ls) as [X1 _].
      exists e, d. split; auto. split. { rewrite ep_matches_lab. auto. }
      apply cnt_pos_In. auto.
    - intros (e & d & Hi & M & Hm). exists (term (st_sets st) d sid m). split.
      + apply in_map_iff. exists (e, d). auto.
      + destruct (Heps e d Hi) as [_ X]. destruct (X sid s Ls) as [_ X2].
        assert (Hc : In sid (e_cache d)).
        { apply X2. rewrite <- ep_matches_lab. auto. intros E. rewrite E in Hm. contradiction. }
        unfold term. apply memN_In in Hc. rewrite Hc, Ls. apply cnt_pos_In. auto.
  Qed.

  (* reference count = number of contributions *)
  Lemma refcount_exact : forall st F sid s m,
    GInv sup st F -> alookup sid (st_sets st) = Some s ->
    rc_get (s_rc s) m = total (st_eps st) (st_sets st) sid m.
  Proof. intros st F sid s m (_ & _ & [OA _] & _) Ls. destruct (OA sid s Ls) as (_ & _ & Cn). auto. Qed.
End History.

(* the assumptions about the outside world, as one predicate *)
Definition oracles_ok (shuffle : state -> forall A : Type, list A -> list A)
           (prune_ep : state -> N -> N -> bool) (prune_set : state -> epdata -> N -> bool) : Prop :=
  (forall st, perm_ok (shuffle st)) /\
  (forall st sid s eid d, alookup sid (st_sets st) = Some s -> alookup eid (st_eps st) = Some d ->
      ep_matches st s d = true -> prune_ep st sid eid = true) /\
  (forall st d sid s, alookup sid (st_sets st) = Some s -> ep_matches st s d = true -> prune_set st d sid = true).

Lemma canon_oracles_ok : oracles_ok id_shuffle no_prune_ep no_prune_set.
Proof. split; [|split]; intros; try reflexivity. intros A l. apply Permutation_refl. Qed.

(* everything at once: after ANY history the events replay without a duplicate add / remove, and the
   resulting copies F satisfy the global invariant of the final state *)
Theorem history_inv : forall sup shuffle prune_ep prune_set ops st evss,
  oracles_ok shuffle prune_ep prune_set -> Forall op_wf ops ->
  run sup shuffle prune_ep prune_set empty_state ops = (st, evss) ->
  exists F, replay_f (fun _ => []) ops evss = Some F /\ GInv sup st F.
Proof.
  intros sup shuffle prune_ep prune_set ops st evss (O1 & O2 & O3) W H.
  eapply run_inv; eauto. apply GInv_empty.
Qed.

Lemma GInv_set : forall sup st F sid s, GInv sup st F -> alookup sid (st_sets st) = Some s ->
  rcinv sup s (F sid) (total (st_eps st) (st_sets st) sid).
Proof. intros sup st F sid s (_ & _ & [OA _] & _) Ls. auto. Qed.

Lemma members_exact_nosup : forall st F sid s, GInv false st F -> alookup sid (st_sets st) = Some s ->
  forall m, In m (F sid) <-> truth st s m.
Proof.
  intros st F sid s G Ls m. rewrite (rcinv_exact_nosup _ _ _ (GInv_set _ _ _ _ _ G Ls)).
  eapply total_pos_truth; eauto.
Qed.

Lemma members_exact_ports : forall sup st F sid s, GInv sup st F -> alookup sid (st_sets st) = Some s ->
  forall f a p q, In (MPort f a p q) (F sid) <-> truth st s (MPort f a p q).
Proof.
  intros sup st F sid s G Ls f a p q. rewrite (rcinv_exact_ports _ _ _ _ (GInv_set _ _ _ _ _ G Ls)).
  eapply total_pos_truth; eauto.
Qed.

Lemma suppressed_antichain : forall st F sid s, GInv true st F -> alookup sid (st_sets st) = Some s ->
  forall a b, In (MCidr a) (F sid) -> In (MCidr b) (F sid) -> ccovers a b = true -> a = b.
Proof. intros st F sid s G Ls. eapply rcinv_antichain. eapply GInv_set; eauto. Qed.

Lemma suppressed_same_cover : forall st F sid s, GInv true st F -> alookup sid (st_sets st) = Some s ->
  (forall c, In (MCidr c) (F sid) -> truth st s (MCidr c)) /\
  (forall c, truth st s (MCidr c) -> exists v, In (MCidr v) (F sid) /\ ccovers v c = true).
Proof.
  intros st F sid s G Ls. destruct (rcinv_same_cover _ _ _ (GInv_set _ _ _ _ _ G Ls)) as [A B]. split.
  - intros c H. eapply total_pos_truth; eauto.
  - intros c H. apply B. eapply total_pos_truth; eauto.
Qed.

Lemma c04_no_dup_events_proof : forall sup shuffle prune_ep prune_set ops st evss,
  oracles_ok shuffle prune_ep prune_set -> Forall op_wf ops ->
  run sup shuffle prune_ep prune_set empty_state ops = (st, evss) ->
  exists F, replay_f (fun _ => []) ops evss = Some F /\
            forall sid, NoDup (F sid) /\ (alookup sid (st_sets st) = None -> F sid = []).
Proof.
  intros sup shuffle prune_ep prune_set ops st evss O W H.
  destruct (history_inv _ _ _ _ _ _ _ O W H) as [F [R G]]. exists F. split; auto.
  intros sid. destruct (alookup sid (st_sets st)) as [s|] eqn:Ls.
  - split; [|discriminate]. eapply rcinv_nodup. eapply GInv_set; eauto.
  - destruct G as (_ & _ & [_ OB] & _). rewrite (OB sid Ls). split; [constructor | auto].
Qed.

Lemma c04_refcount_exact_proof : forall sup shuffle prune_ep prune_set ops st evss,
  oracles_ok shuffle prune_ep prune_set -> Forall op_wf ops ->
  run sup shuffle prune_ep prune_set empty_state ops = (st, evss) ->
  forall sid s m, alookup sid (st_sets st) = Some s ->
    rc_get (s_rc s) m = total (st_eps st) (st_sets st) sid m /\
    (rc_get (s_rc s) m > 0 <-> truth st s m)%nat.
Proof.
  intros sup shuffle prune_ep prune_set ops st evss O W H sid s m Ls.
  destruct (history_inv _ _ _ _ _ _ _ O W H) as [F [R G]].
  rewrite (refcount_exact sup st F sid s m G Ls). split; auto. eapply total_pos_truth; eauto.
Qed.

Lemma c04_members_exact_proof : forall shuffle prune_ep prune_set ops st evss,
  oracles_ok shuffle prune_ep prune_set -> Forall op_wf ops ->
  run false shuffle prune_ep prune_set empty_state ops = (st, evss) ->
  exists F, replay_f (fun _ => []) ops evss = Some F /\
    forall sid s, alookup sid (st_sets st) = Some s -> forall m, In m (F sid) <-> truth st s m.
Proof.
  intros shuffle prune_ep prune_set ops st evss O W H.
  destruct (history_inv _ _ _ _ _ _ _ O W H) as [F [R G]]. exists F. split; auto.
  intros sid s Ls m. eapply members_exact_nosup; eauto.
Qed.

Lemma c04_named_port_exact_proof : forall sup shuffle prune_ep prune_set ops st evss,
  oracles_ok shuffle prune_ep prune_set -> Forall op_wf ops ->
  run sup shuffle prune_ep prune_set empty_state ops = (st, evss) ->
  exists F, replay_f (fun _ => []) ops evss = Some F /\
    forall sid s, alookup sid (st_sets st) = Some s ->
      forall f a p q, In (MPort f a p q) (F sid) <-> truth st s (MPort f a p q).
Proof.
  intros sup shuffle prune_ep prune_set ops st evss O W H.
  destruct (history_inv _ _ _ _ _ _ _ O W H) as [F [R G]]. exists F. split; auto.
  intros sid s Ls f a p q. eapply members_exact_ports; eauto.
Qed.

Lemma c04_suppressed_antichain_proof : forall shuffle prune_ep prune_set ops st evss,
  oracles_ok shuffle prune_ep prune_set -> Forall op_wf ops ->
  run true shuffle prune_ep prune_set empty_state ops = (st, evss) ->
  exists F, replay_f (fun _ => []) ops evss = Some F /\
    forall sid s, alookup sid (st_sets st) = Some s ->
      forall a b, In (MCidr a) (F sid) -> In (MCidr b) (F sid) -> ccovers a b = true -> a = b.
Proof.
  intros shuffle prune_ep prune_set ops st evss O W H.
  destruct (history_inv _ _ _ _ _ _ _ O W H) as [F [R G]]. exists F. split; auto.
  intros sid s Ls. eapply suppressed_antichain; eauto.
Qed.

Lemma c04_suppressed_same_cover_proof : forall shuffle prune_ep prune_set ops st evss,
  oracles_ok shuffle prune_ep prune_set -> Forall op_wf ops ->
  run true shuffle prune_ep prune_set empty_state ops = (st, evss) ->
  exists F, replay_f (fun _ => []) ops evss = Some F /\
    forall sid s, alookup sid (st_sets st) = Some s ->
      (forall c, In (MCidr c) (F sid) -> truth st s (MCidr c)) /\
      (forall c, truth st s (MCidr c) -> exists v, In (MCidr v) (F sid) /\ ccovers v c = true).
Proof.
  intros shuffle prune_ep prune_set ops st evss O W H.
  destruct (history_inv _ _ _ _ _ _ _ O W H) as [F [R G]]. exists F. split; auto.
  intros sid s Ls. eapply suppressed_same_cover; eauto.
Qed.
