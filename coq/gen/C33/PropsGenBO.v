(* C33 — byte-order independence for the byte order the source really names (Gen.hash_byte_order).
   Does not compile when the source names binary.NativeEndian; PropsGenBORefuted.v applies then. *)
From Coq Require Import List NArith.
From Verif.C33 Require Import Model Spec ByteOrder.
From VerifGen Require Import Gen.
Import ListNotations.
Open Scope N_scope.

Lemma source_byte_order_fixed : hash_byte_order <> BONative.
Proof. unfold hash_byte_order. discriminate. Qed.

Theorem c33_byte_order_independent : forall cpu1 cpu2 h1 h2 m names,
  maglev hash_byte_order cpu1 h1 h2 m names = maglev hash_byte_order cpu2 h1 h2 m names.
Proof. exact (byte_order_independent_fixed hash_byte_order source_byte_order_fixed). Qed.
Print Assumptions c33_byte_order_independent.
