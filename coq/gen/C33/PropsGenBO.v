(* C33 — byte-order independence for the byte order the source really names (Gen.hash_byte_order).
   Does not compile when the source names binary.NativeEndian; PropsGenBORefuted.v applies then. *)
From Coq Require Import List NArith.
From Verif.C33 Require Import Model Spec ByteOrder.
From VerifGen Require Import Gen.
Import ListNotations.
Open Scope N_scope.

Lemma source_byte_order_fixed : hash_byte_order <> BONative.
Proof. unfold hash_byte_order. discriminate. Qed.

Theorem c33_byte_order_independent : forall cpu1 cpu2 h1 h2 m names,
  maglev hash_byte_order cpu1 h1 h2 m names = maglev hash_byte_order cpu2 h1 h2 m names.
Proof. exact (byte_order_independent_fixed hash_byte_order source_byte_order_fixed). Qed.
Print Assumptions c33_byte_order_independent.

(* With the byte order the source really names, the specification oracle accepts every run of the model
   (any table size, names, insertion orders covering the same names). *)
From Verif.C33 Require Import MeetsSpec.
Lemma model_meets_spec_source : forall c,
  c_bo c = hash_byte_order ->
  (forall ord, In ord (c_orders c) -> forall x, In x (apply_order (c_names c) ord) <-> In x (c_names c)) ->
  c_obs c = model_tables c ->
  (forall o, In o (c_obs_be c) -> o = model_other_cpu c) ->
  check_case env (CLut c) = (true, true).
Proof.
  intros c Hbo. apply model_meets_spec_case. rewrite Hbo. exact source_byte_order_fixed.
Qed.

Theorem c33_model_meets_spec_source : forall c,
  c_bo c = hash_byte_order ->
  (forall ord, In ord (c_orders c) -> forall x, In x (apply_order (c_names c) ord) <-> In x (c_names c)) ->
  c_obs c = model_tables c ->
  (forall o, In o (c_obs_be c) -> o = model_other_cpu c) ->
  check_case env (CLut c) = (true, true).
Proof. exact model_meets_spec_source. Qed.
Print Assumptions c33_model_meets_spec_source.
