(* C33 — composition over the TRANSLATED size range: for every value Felix accepts for
   BPFMaglevMaxEndpointsPerService, the table built with the size BPFLUTSizeMaglev() yields is complete and balanced,
   for all backends, hash functions and byte orders. *)
From Coq Require Import List NArith ZArith Znumtheory.
From Verif.C33 Require Import Model Spec Arith Sizes Fill Order.
From VerifGen Require Import Gen.
Import ListNotations.
Open Scope N_scope.

Lemma sizes_checked' : sizes_check env = true.
Proof. vm_cast_no_check (eq_refl true). Qed.

Lemma configured_tables_ok : forall n bo cpu h1 h2 names, cfg_min <= n <= cfg_max ->
  exists p, lut_size prime_table prime_limit lut_factor n = Sz p /\
    let bks := add_all bo cpu h1 h2 p names in
    match bks with
    | [] => generate p bks = GNil
    | _ => exists lst, generate p bks = GLut lst /\ length lst = N.to_nat p /\
             (forall e, In e lst -> exists v, e = Some v /\ v < len bks) /\
             (forall a b, a < len bks -> b < len bks -> (cnt_list a lst <= cnt_list b lst + 1)%nat)
    end.
Proof.
  intros n bo cpu h1 h2 names Hn.
  destruct (sizes_check_sound env sizes_checked' n Hn) as [p [Hp [Hpr _]]].
  exists p. split; [exact Hp|].
  pose proof (generate_ok bo cpu h1 h2 p names Hpr) as H. cbv zeta in *.
  destruct (add_all bo cpu h1 h2 p names) eqn:E; auto.
  destruct H as [lst [H1 [H2 [H3 H4]]]]. exists lst. repeat split; auto.
  now apply (shares_differ_by_one p _ lst H4).
Qed.

Theorem c33_configured_tables_ok : forall n bo cpu h1 h2 names, cfg_min <= n <= cfg_max ->
  exists p, lut_size prime_table prime_limit lut_factor n = Sz p /\
    let bks := add_all bo cpu h1 h2 p names in
    match bks with
    | [] => generate p bks = GNil
    | _ => exists lst, generate p bks = GLut lst /\ length lst = N.to_nat p /\
             (forall e, In e lst -> exists v, e = Some v /\ v < len bks) /\
             (forall a b, a < len bks -> b < len bks -> (cnt_list a lst <= cnt_list b lst + 1)%nat)
    end.
Proof. exact configured_tables_ok. Qed.
Print Assumptions c33_configured_tables_ok.
