(* C33 — theorems over the TRANSLATED prime table / size range (Gen.v is regenerated from the Go source on every run). *)
From Coq Require Import List NArith ZArith Znumtheory Bool.
From Verif.C33 Require Import Model Spec Arith Sizes.
From VerifGen Require Import Gen.
Import ListNotations.
Open Scope N_scope.

Lemma sizes_checked : sizes_check env = true.
Proof. vm_cast_no_check (eq_refl true). Qed.

Lemma table_checked : table_check prime_table = true.
Proof. vm_cast_no_check (eq_refl true). Qed.

(* Every value BPFMaglevMaxEndpointsPerService can take yields, through NextPrimeUint16, a prime table size
   that is at least factor * maxEndpoints and fits a uint16. *)
Theorem c33_sizes_prime : forall n, cfg_min <= n <= cfg_max ->
  exists p, lut_size prime_table prime_limit lut_factor n = Sz p /\
            prime (Z.of_N p) /\ n * lut_factor <= p /\ p < 65536.
Proof. exact (sizes_check_sound env sizes_checked). Qed.
Print Assumptions c33_sizes_prime.

(* Every entry of the table `pr` is prime, so whatever index NextPrimeUint16 computes the size is prime. *)
Theorem c33_table_all_prime : Forall (fun p => prime (Z.of_N p)) prime_table.
Proof. exact (table_check_sound prime_table table_checked). Qed.
Print Assumptions c33_table_all_prime.

(* Integer ranges in the size computation (Go int multiplication, uint16 table entries, sort.Search's index
   arithmetic int(uint(i+j)>>1)): nothing can wrap for the translated range, factor and table. *)
Lemma size_arith_checked :
  (cfg_max * lut_factor <? 2 ^ 31) && (prime_limit <? 2 ^ 16) && forallb (fun p => p <? 2 ^ 16) prime_table
  && (2 * len prime_table <? 2 ^ 31) = true.
Proof. vm_cast_no_check (eq_refl true). Qed.

Lemma size_arith_no_wrap :
  cfg_max * lut_factor < 2 ^ 31 /\ prime_limit < 2 ^ 16 /\
  Forall (fun p => p < 2 ^ 16) prime_table /\ 2 * len prime_table < 2 ^ 31.
Proof.
  pose proof size_arith_checked as H.
  apply Bool.andb_true_iff in H. destruct H as [H H4].
  apply Bool.andb_true_iff in H. destruct H as [H H3].
  apply Bool.andb_true_iff in H. destruct H as [H1 H2].
  repeat split; try (now apply N.ltb_lt).
  apply Forall_forall. intros p Hp. apply N.ltb_lt. revert p Hp. apply forallb_forall. exact H3.
Qed.

Theorem c33_size_arith_no_wrap :
  cfg_max * lut_factor < 2 ^ 31 /\ prime_limit < 2 ^ 16 /\
  Forall (fun p => p < 2 ^ 16) prime_table /\ 2 * len prime_table < 2 ^ 31.
Proof. exact size_arith_no_wrap. Qed.
Print Assumptions c33_size_arith_no_wrap.
