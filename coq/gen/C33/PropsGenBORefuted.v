(* C33 — the source names binary.NativeEndian: the table depends on the CPU's byte order (finding). *)
From Coq Require Import List NArith.
From Verif.C33 Require Import Model Spec ByteOrder.
From VerifGen Require Import Gen.
Import ListNotations.
Open Scope N_scope.

Theorem c33_byte_order_refuted : exists m names, is_prime m = true /\
  maglev hash_byte_order LE fnv32 fnv32 m names <> maglev hash_byte_order BE fnv32 fnv32 m names.
Proof. exact byte_order_native_refuted. Qed.
Print Assumptions c33_byte_order_refuted.
