(* C33 — the integer TYPES the source really uses in hashFromString / offsetAndSKip / permutation
   (Gen.source_arith, translated on every run): for every table size a uint16 can hold (hence every configurable
   size) the typed arithmetic equals the model's, and the preference list is a duplicate-free listing of the slots.
   Does not compile when the types/reductions in the source allow wrap-around (e.g. uint32 without offset % m). *)
From Coq Require Import List NArith ZArith Znumtheory.
From Verif.C33 Require Import Model Wrap ArithModel Spec Arith ArithProofs.
From VerifGen Require Import Gen.
Import ListNotations.

Lemma source_arith_ok : arith_ok_b source_arith 65535 = true.
Proof. vm_compute. reflexivity. Qed.

Theorem c33_source_arith_exact : forall m r1 r2 j : N,
  (2 <= m)%N -> (Z.of_N m <= 65535)%Z -> (r1 < 2 ^ 32)%N -> (r2 < 2 ^ 32)%N -> (j < m)%N ->
  offset_and_skip_a source_arith (Z.of_N m) (Z.of_N r1) (Z.of_N r2) = (Z.of_N (r1 mod m), Z.of_N (r2 mod (m - 1) + 1)) /\
  perm_at_a source_arith (Z.of_N m) (Z.of_N (r1 mod m)) (Z.of_N (r2 mod (m - 1) + 1)) (Z.of_N j)
  = Z.of_N (perm_at m (r1 mod m) (r2 mod (m - 1) + 1) j).
Proof. exact (arith_ok_sound source_arith 65535 source_arith_ok). Qed.
Print Assumptions c33_source_arith_exact.

Theorem c33_source_permutation_bijective : forall m r1 r2 : N,
  prime (Z.of_N m) -> (Z.of_N m <= 65535)%Z -> (r1 < 2 ^ 32)%N -> (r2 < 2 ^ 32)%N ->
  let '(off, skip) := offset_and_skip_a source_arith (Z.of_N m) (Z.of_N r1) (Z.of_N r2) in
  map (fun j => perm_at_a source_arith (Z.of_N m) off skip (Z.of_N j)) (nseq 0 (N.to_nat m))
  = map Z.of_N (permutation m (r1 mod m) (r2 mod (m - 1) + 1)) /\
  NoDup (map Z.of_N (permutation m (r1 mod m) (r2 mod (m - 1) + 1))).
Proof. exact (arith_ok_permutation source_arith 65535 source_arith_ok). Qed.
Print Assumptions c33_source_permutation_bijective.
