(* C13 - property theorems, re-checked on every run against VerifGen.Gen, the tables regenerated
   from the current source tree ($VERIF_REPO): clang's record layouts of the bpf-gpl headers
   (built with and without -DIPVER6) and the Go view printed by the verif driver.
   Each theorem is a complete enumeration of a finite table (forallb ... = true by vm_compute)
   lifted to a universally quantified statement with forallb_forall. *)
From Coq Require Import List NArith String Bool.
From Verif.C13 Require Import Layout Proofs.
From VerifGen Require Import Gen.
Import ListNotations.
Open Scope N_scope.

(* Every field the Go code reads or writes starts at the bit where the C definition puts the
   member(s) it is mapped to (and it is mapped, and those members exist and are adjacent). *)
Theorem c13_offsets_agree_v4 : forall g, In g (T_g tables) -> g_ver g = 4 -> field_offset_agrees tables g.
Proof.
  intros g Hin Hv. apply (all_rows (offset_okb tables) _ (rows_of 4 (T_g tables)) (offset_okb_sound tables)).
  - vm_compute; reflexivity.
  - now apply in_rows_of.
Qed.
Print Assumptions c13_offsets_agree_v4.

Theorem c13_offsets_agree_v6 : forall g, In g (T_g tables) -> g_ver g = 6 -> field_offset_agrees tables g.
Proof.
  intros g Hin Hv. apply (all_rows (offset_okb tables) _ (rows_of 6 (T_g tables)) (offset_okb_sound tables)).
  - vm_compute; reflexivity.
  - now apply in_rows_of.
Qed.
Print Assumptions c13_offsets_agree_v6.

(* ... and has the same size (or, for the mapping lines marked Prefix, is a non-empty initial part
   of the C member). *)
Theorem c13_sizes_agree_v4 : forall g, In g (T_g tables) -> g_ver g = 4 -> field_size_agrees tables g.
Proof.
  intros g Hin Hv. apply (all_rows (size_okb tables) _ (rows_of 4 (T_g tables)) (size_okb_sound tables)).
  - vm_compute; reflexivity.
  - now apply in_rows_of.
Qed.
Print Assumptions c13_sizes_agree_v4.

Theorem c13_sizes_agree_v6 : forall g, In g (T_g tables) -> g_ver g = 6 -> field_size_agrees tables g.
Proof.
  intros g Hin Hv. apply (all_rows (size_okb tables) _ (rows_of 6 (T_g tables)) (size_okb_sound tables)).
  - vm_compute; reflexivity.
  - now apply in_rows_of.
Qed.
Print Assumptions c13_sizes_agree_v6.

(* Key / value / structure sizes the Go code declares equal sizeof of the C type. *)
Theorem c13_total_sizes_agree_v4 : forall t, In t (T_gtot tables) -> t_ver t = 4 -> total_agrees tables t.
Proof.
  intros t Hin Hv. apply (all_rows (total_okb tables) _ (totals_of 4 (T_gtot tables)) (total_okb_sound tables)).
  - vm_compute; reflexivity.
  - now apply in_totals_of.
Qed.
Print Assumptions c13_total_sizes_agree_v4.

Theorem c13_total_sizes_agree_v6 : forall t, In t (T_gtot tables) -> t_ver t = 6 -> total_agrees tables t.
Proof.
  intros t Hin Hv. apply (all_rows (total_okb tables) _ (totals_of 6 (T_gtot tables)) (total_okb_sound tables)).
  - vm_compute; reflexivity.
  - now apply in_totals_of.
Qed.
Print Assumptions c13_total_sizes_agree_v6.

(* The name mapping has no stale line: each one is about a field the Go code has. *)
Theorem c13_mapping_used : forall m, In m (T_m tables) -> mapping_used tables m.
Proof.
  apply (all_rows (mapping_usedb tables) _ (T_m tables) (mapping_usedb_sound tables)).
  vm_compute; reflexivity.
Qed.
Print Assumptions c13_mapping_used.

(* The oracles used above decide the specification in both directions (so a rejected row is a genuine
   counterexample, not an artefact of the oracle), for every table - in particular the regenerated one. *)
Theorem c13_oracles_decide_spec :
  (forall g, offset_okb tables g = true <-> field_offset_agrees tables g) /\
  (forall g, size_okb tables g = true <-> field_size_agrees tables g) /\
  (forall t, total_okb tables t = true <-> total_agrees tables t).
Proof. exact (oracles_decide_spec tables). Qed.
Print Assumptions c13_oracles_decide_spec.

(* The witness lists the check prints (positions of rejected rows) are empty exactly when the enumerations succeed. *)
Theorem c13_no_row_rejected :
  bad (offset_okb tables) (T_g tables) = [] /\ bad (size_okb tables) (T_g tables) = [] /\
  bad (total_okb tables) (T_gtot tables) = [] /\ bad (mapping_usedb tables) (T_m tables) = [].
Proof. repeat split; apply bad_nil_iff; vm_compute; reflexivity. Qed.
Print Assumptions c13_no_row_rejected.
