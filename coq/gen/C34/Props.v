(* C34 - theorems re-checked on every run against VerifGen.Gen, the access sets / decision expression TRANSLATED from
   authorizer.go of $VERIF_REPO.  (The race-freedom theorem is in PropsRace.v, its refutation in PropsRaceRefuted.v:
   exactly one of the two checks on a given tree.) *)
From Coq Require Import List String Bool.
From Verif.C34 Require Import Model Spec Proofs.
From VerifGen Require Import Gen.
Import ListNotations.
Open Scope string_scope.

(* The translated shape is the one the model assumes: wg.Add(n) with n = number of goroutines, numbered 1..n, each
   starting with `defer wg.Done()` (so wg.Wait() returns after all of them), each asking a different one of the three
   questions, every write of a closure to an outer variable being a result of its a.Authorize call (so `program`
   contains all its writes), and every variable the decision reads being assigned by at most one closure. *)
Definition same_set (a b : list string) : bool := andb (forallb (fun x => mem x b) a) (forallb (fun x => mem x a) b).

Definition shape_ok_b : bool :=
  andb (andb (Nat.eqb (g_wg_add G) (List.length (g_closures G)))
             (andb (forallb cl_done (g_closures G))
                   (forallb (fun ic => Nat.eqb (fst ic) (cl_id (snd ic))) (combine (seq 1 (List.length (g_closures G))) (g_closures G)))))
       (andb (andb (existsb (fun c => query_eqb (cl_query c) QGetTier) (g_closures G))
                   (andb (existsb (fun c => query_eqb (cl_query c) QPolicy) (g_closures G))
                         (existsb (fun c => query_eqb (cl_query c) QWildcard) (g_closures G))))
             (andb (Nat.eqb (List.length (g_closures G)) 3)
                   (andb (forallb (fun c => same_set (cl_writes c) (map fst (cl_assigns c))) (g_closures G))
                         (single_writer_b G)))).

Theorem c34_shape : shape_ok_b = true.
Proof. vm_compute; reflexivity. Qed.
Print Assumptions c34_shape.

Lemma single_writer : single_writer_b G = true.
Proof. vm_compute; reflexivity. Qed.

(* However the three goroutines' writes are interleaved, the verdict is the same. *)
Theorem c34_schedule_independent :
  forall ans tr1 tr2,
    Interleave (programs G ans) tr1 -> Interleave (programs G ans) tr2 ->
    verdict G (run tr1 init) = verdict G (run tr2 init).
Proof.
  intros ans tr1 tr2 H1 H2.
  rewrite (verdict_schedule_independent G ans tr1 single_writer H1), (verdict_schedule_independent G ans tr2 single_writer H2).
  reflexivity.
Qed.
Print Assumptions c34_schedule_independent.

Lemma sequential_verdict : forall ans, verdict G (run (sequential G ans) init) = spec_allowed_ans ans.
Proof.
  intros ans. unfold spec_allowed_ans, spec_allowed.
  unfold verdict, sequential, programs, program, run. cbn.
  destruct (ans QGetTier) as [[] ?], (ans QPolicy) as [[] ?], (ans QWildcard) as [[] ?]; reflexivity.
Qed.

(* THE DECISION: for all 3^3 decisions x error flags (any answers at all) and every interleaving of the goroutines,
   the request is allowed (nil) exactly when the tier GET is allowed and the policy-name check or the tier-wildcard
   check is allowed; errors returned by the authorizer never change the outcome. *)
Theorem c34_decision :
  forall ans tr, Interleave (programs G ans) tr ->
    (verdict G (run tr init) = true <->
     a_dec (ans QGetTier) = Allow /\ (a_dec (ans QPolicy) = Allow \/ a_dec (ans QWildcard) = Allow)).
Proof.
  intros ans tr H.
  rewrite (verdict_schedule_independent G ans tr single_writer H), sequential_verdict.
  unfold spec_allowed_ans, spec_allowed.
  destruct (a_dec (ans QGetTier)), (a_dec (ans QPolicy)), (a_dec (ans QWildcard)); simpl;
    split; intros; try discriminate; try tauto; try (repeat split; auto; fail);
    try (destruct H0 as [? [?|?]]; discriminate).
Qed.
Print Assumptions c34_decision.

(* the hypothesis is satisfiable: the sequential order is an interleaving *)
Example c34_interleavings_exist : forall ans, Interleave (programs G ans) (sequential G ans).
Proof. intros; apply interleave_sequential. Qed.
