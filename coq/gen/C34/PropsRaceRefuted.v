(* C34 - checked only when PropsRace.v does not hold: the access sets TRANSLATED from authorizer.go contain a data race
   between two of the goroutines (two closures write the same non-synchronisation variable of the enclosing function). *)
From Coq Require Import List String Bool Arith.
From Verif.C34 Require Import Model Spec Proofs.
From VerifGen Require Import Gen.
Import ListNotations.
Open Scope string_scope.

Lemma mem_In s l : mem s l = true <-> In s l.
Proof.
  unfold mem; rewrite existsb_exists; split.
  - intros [x [Hin Heq]]; apply String.eqb_eq in Heq; subst; assumption.
  - intros H; exists s; split; [assumption | apply String.eqb_refl].
Qed.

Definition write_write_race_b : bool :=
  existsb (fun c1 => existsb (fun c2 =>
     andb (negb (Nat.eqb (cl_id c1) (cl_id c2)))
          (existsb (fun x => andb (negb (mem x (g_sync G))) (mem x (cl_writes c2))) (cl_writes c1)))
     (g_closures G)) (g_closures G).

Theorem c34_race_refuted :
  exists c1 c2 x, In c1 (g_closures G) /\ In c2 (g_closures G) /\ cl_id c1 <> cl_id c2 /\ ~ In x (g_sync G) /\
                  In x (cl_writes c1) /\ In x (cl_writes c2).
Proof.
  assert (H : write_write_race_b = true) by (vm_compute; reflexivity).
  unfold write_write_race_b in H.
  apply existsb_exists in H. destruct H as [c1 [Hc1 H]].
  apply existsb_exists in H. destruct H as [c2 [Hc2 H]].
  apply andb_true_iff in H. destruct H as [Hne H].
  apply existsb_exists in H. destruct H as [x [Hx H]].
  apply andb_true_iff in H. destruct H as [Hs Hw].
  exists c1, c2, x. repeat split; try assumption.
  - apply negb_true_iff in Hne. apply Nat.eqb_neq in Hne. assumption.
  - intros Hin. apply negb_true_iff in Hs. apply mem_In in Hin. congruence.
  - apply mem_In; assumption.
Qed.
Print Assumptions c34_race_refuted.
