(* C34 - race freedom, computed on the access sets TRANSLATED from authorizer.go of $VERIF_REPO. *)
From Coq Require Import List String Bool Arith.
From Verif.C34 Require Import Model Spec Proofs.
From VerifGen Require Import Gen.
Import ListNotations.
Open Scope string_scope.

Lemma mem_In s l : mem s l = true <-> In s l.
Proof.
  unfold mem; rewrite existsb_exists; split.
  - intros [x [Hin Heq]]; apply String.eqb_eq in Heq; subst; assumption.
  - intros H; exists s; split; [assumption | apply String.eqb_refl].
Qed.

Definition race_free_b : bool :=
  andb
    (forallb (fun c1 => forallb (fun c2 =>
       orb (Nat.eqb (cl_id c1) (cl_id c2))
           (forallb (fun x => orb (mem x (g_sync G)) (negb (mem x (cl_writes c2 ++ cl_reads c2)))) (cl_writes c1)))
       (g_closures G)) (g_closures G))
    (forallb (fun sg => forallb (fun c =>
       orb (negb (Nat.leb (cl_id c) (sg_after sg)))
           (andb (forallb (fun x => orb (mem x (g_sync G)) (negb (mem x (sg_writes sg ++ sg_reads sg)))) (cl_writes c))
                 (forallb (fun x => orb (mem x (g_sync G)) (negb (mem x (cl_reads c)))) (sg_writes sg))))
       (g_closures G)) (g_segments G)).

Lemma race_free_true : race_free_b = true.
Proof. vm_compute; reflexivity. Qed.

(* No two goroutines started by AuthorizeTierOperation touch the same variable of the enclosing function with at least
   one of them writing it (synchronisation primitives aside); likewise for the statements the parent executes while
   closures are already running.  Together with wg.Wait() (c34_shape) this makes the method data-race free, which is
   what lets the interleaving semantics of c34_decision / c34_schedule_independent stand for the Go program. *)
Theorem c34_race_free :
  (forall c1 c2 x, In c1 (g_closures G) -> In c2 (g_closures G) -> cl_id c1 <> cl_id c2 -> ~ In x (g_sync G) ->
     In x (cl_writes c1) -> ~ (In x (cl_writes c2) \/ In x (cl_reads c2))) /\
  (forall sg c x, In sg (g_segments G) -> In c (g_closures G) -> cl_id c <= sg_after sg -> ~ In x (g_sync G) ->
     (In x (cl_writes c) -> ~ (In x (sg_writes sg) \/ In x (sg_reads sg))) /\
     (In x (sg_writes sg) -> ~ In x (cl_reads c))).
Proof.
  pose proof race_free_true as H. unfold race_free_b in H. apply andb_true_iff in H. destruct H as [H1 H2].
  split.
  - intros c1 c2 x Hc1 Hc2 Hne Hs Hw Hrw.
    rewrite forallb_forall in H1. specialize (H1 c1 Hc1). rewrite forallb_forall in H1. specialize (H1 c2 Hc2).
    apply orb_true_iff in H1. destruct H1 as [E|H1]; [apply Nat.eqb_eq in E; contradiction|].
    rewrite forallb_forall in H1. specialize (H1 x Hw). apply orb_true_iff in H1. destruct H1 as [E|E].
    + apply mem_In in E; contradiction.
    + apply negb_true_iff in E. assert (M : mem x (cl_writes c2 ++ cl_reads c2) = true) by (apply mem_In, in_or_app; assumption).
      congruence.
  - intros sg c x Hsg Hc Hle Hs.
    rewrite forallb_forall in H2. specialize (H2 sg Hsg). rewrite forallb_forall in H2. specialize (H2 c Hc).
    apply orb_true_iff in H2. destruct H2 as [E|H2].
    { apply negb_true_iff in E. apply Nat.leb_gt in E. exfalso. apply (Nat.lt_irrefl (cl_id c)). eapply Nat.le_lt_trans; eassumption. }
    apply andb_true_iff in H2. destruct H2 as [Ha Hb]. split.
    + intros Hw Hrw. rewrite forallb_forall in Ha. specialize (Ha x Hw). apply orb_true_iff in Ha. destruct Ha as [E|E].
      * apply mem_In in E; contradiction.
      * apply negb_true_iff in E. assert (M : mem x (sg_writes sg ++ sg_reads sg) = true) by (apply mem_In, in_or_app; assumption).
        congruence.
    + intros Hw Hr. rewrite forallb_forall in Hb. specialize (Hb x Hw). apply orb_true_iff in Hb. destruct Hb as [E|E].
      * apply mem_In in E; contradiction.
      * apply negb_true_iff in E. assert (M : mem x (cl_reads c) = true) by (apply mem_In; assumption). congruence.
Qed.
Print Assumptions c34_race_free.
