(* C28 - property theorems, re-checked on every run against VerifGen.Gen: the definitions TRANSLATED from the
   current source tree ($VERIF_REPO) by harness/C28/cmd/translate (see the header of that file for what is read).
   G : gen bundles them; Verif.C28.Model plugs them together; Verif.C28.Spec is the property.
   Finite parts are complete enumerations by vm_compute, lifted to universally quantified statements by
   reflection lemmas (allb_spec, allsetting_spec, allmode_spec, forallb_forall); the parts about ALL strings use
   the generic lemmas of Verif.C28.Lemmas. *)
From Coq Require Import List String Bool.
From Verif.C28 Require Import Model Spec Lemmas Hist HistProofs.
From VerifGen Require Import Gen.
Import ListNotations.
Open Scope string_scope.

(* ------------------------------------------------------------------------------------------------ tables agree *)

Definition same_set (a b : list string) : bool := andb (forallb (fun x => mem x b) a) (forallb (fun x => mem x a) b).

Definition tables_consistent_b : bool :=
  andb (andb (andb (same_set (g_felix_options G) four_names) (same_set (map fst (g_bird_arms G)) four_names))
             (andb (same_set (g_felix_api_enum G) four_names) (same_set (g_bgp_api_enum G) four_names)))
       (andb (andb (same_set (map fst (g_doc_values G)) four_names)
                   (andb (String.eqb (g_felix_default G) (setting_name felix_spec_default))
                         (String.eqb (g_doc_felix_default G) (setting_name felix_spec_default))))
             (andb (String.eqb (g_doc_bgp_default G) (setting_name bird_spec_default))
                   (allsetting (fun s =>
                      andb (andb (pol_eqb (lookup (setting_name s) (g_doc_values G) (true, true)) (covers s))
                                 (pol_eqb (lookup (setting_name s) (g_bird_arms G) (negb (fst (covers s)), true)) (covers s)))
                           (pol_eqb (g_prog_ipip G (setting_name s), g_prog_noencap G (setting_name s)) (covers s)))))).

(* The API enums, Felix's oneof list, confd's switch arms and the design document name the same four values; each
   value means the same pair (IPIP, no-encap) in the document, in confd's switch and in Felix's accessors; the code
   defaults are the documented ones. *)
Theorem c28_tables_consistent : tables_consistent_b = true.
Proof. vm_compute; reflexivity. Qed.
Print Assumptions c28_tables_consistent.

(* the pairings the document lists as supported are exactly the complementary ones *)
Theorem c28_doc_pairings_complementary :
  forall f b, In (setting_name f, setting_name b) (g_doc_pairings G) <-> supported f b = true.
Proof.
  assert (H : allsetting (fun f => allsetting (fun b =>
              Bool.eqb (existsb (fun p => andb (String.eqb (fst p) (setting_name f)) (String.eqb (snd p) (setting_name b))) (g_doc_pairings G))
                       (supported f b))) = true) by (vm_compute; reflexivity).
  intros f b.
  pose proof (allsetting_spec _ (allsetting_spec _ H f) b) as E; cbv beta in E.
  apply eqb_prop in E; rewrite <- E; rewrite existsb_exists; split.
  - intros Hin; exists (setting_name f, setting_name b); split; [assumption|]; simpl; rewrite !String.eqb_refl; reflexivity.
  - intros [[x y] [Hin Heq]]; simpl in Heq; apply andb_true_iff in Heq; destruct Heq as [E1 E2].
    apply String.eqb_eq in E1; apply String.eqb_eq in E2; subst; assumption.
Qed.
Print Assumptions c28_doc_pairings_complementary.

(* confd: the function body and the (nil guard, arms, default) table read from it are the same function of ALL strings *)
Theorem c28_bird_fn_is_table : forall b, bird_policy G b = bird_policy_table G b.
Proof. intros [| |s]; reflexivity. Qed.
Print Assumptions c28_bird_fn_is_table.

(* ------------------------------------------------------------------------------------------------ all strings *)

Lemma felix_options_four : forall x, In x (map lower (g_felix_options G)) -> In x (map lower four_names).
Proof.
  assert (H : forallb (fun x => mem x (map lower four_names)) (map lower (g_felix_options G)) = true) by (vm_compute; reflexivity).
  intros x Hin; rewrite forallb_forall in H; apply mem_true_iff; apply H; assumption.
Qed.

Lemma bird_keys_four : forall x, In x (map fst (g_bird_arms G)) -> In x four_names.
Proof.
  assert (H : forallb (fun x => mem x four_names) (map fst (g_bird_arms G)) = true) by (vm_compute; reflexivity).
  intros x Hin; rewrite forallb_forall in H; apply mem_true_iff; apply H; assumption.
Qed.

(* Felix: absent / documented value / mutually unrecognised string  ->  what the specification resolves it to *)
Lemma felix_resolve_spec : forall raw, in_domain raw ->
  felix_resolve G raw = setting_name (spec_resolve felix_spec_default raw).
Proof.
  intros [v|] H; [|vm_compute; reflexivity].
  destruct H as [H|H].
  - simpl in H; destruct H as [H|[H|[H|[H|[]]]]]; subst; vm_compute; reflexivity.
  - assert (Hd : felix_resolve G (Some v) = g_felix_default G).
    { destruct H as [H1 H2]; apply felix_resolve_unrec; [|assumption].
      intros Hin; apply H1; apply felix_options_four; assumption. }
    rewrite Hd; simpl; rewrite (setting_of_string_unrec v (unrecognised_not_four v H)); vm_compute; reflexivity.
Qed.

(* confd: likewise *)
Lemma bird_policy_spec : forall b, in_domain (braw_value b) ->
  bird_policy G b = covers (spec_resolve bird_spec_default (braw_value b)).
Proof.
  intros [| |v] H; [vm_compute; reflexivity | vm_compute; reflexivity |].
  simpl in H; destruct H as [H|H].
  - simpl in H; destruct H as [H|[H|[H|[H|[]]]]]; subst; vm_compute; reflexivity.
  - rewrite c28_bird_fn_is_table; simpl braw_value; simpl spec_resolve.
    rewrite (setting_of_string_unrec v (unrecognised_not_four v H)).
    unfold bird_policy_table.
    replace (g_bird_nil_guard G false false) with false by (vm_compute; reflexivity).
    rewrite lookup_notin; [vm_compute; reflexivity|].
    intros Hin; apply (unrecognised_not_four v H); apply bird_keys_four; assumption.
Qed.

(* Absent and mutually unrecognised values are the defaults on BOTH sides, and the defaults are the documented ones. *)
Theorem c28_unrecognised_is_default :
  (felix_resolve G None = "EnabledIPIPOnly" /\ bird_policy G BNoConfig = (false, true) /\ bird_policy G BUnset = (false, true)) /\
  forall s, mutually_unrecognised s ->
    felix_resolve G (Some s) = "EnabledIPIPOnly" /\ bird_policy G (BVal s) = (false, true).
Proof.
  split; [vm_compute; repeat split; reflexivity|].
  intros s H; split.
  - rewrite (felix_resolve_spec (Some s)) by (right; assumption).
    simpl; rewrite (setting_of_string_unrec s (unrecognised_not_four s H)); reflexivity.
  - rewrite (bird_policy_spec (BVal s)) by (right; assumption).
    simpl; rewrite (setting_of_string_unrec s (unrecognised_not_four s H)); reflexivity.
Qed.
Print Assumptions c28_unrecognised_is_default.

(* ------------------------------------------------------------------------------------------------ exactly one *)

Definition family_ok (m : mode) (v4 ipv6 : bool) : bool := orb v4 (andb ipv6 (negb (is_class CIpip m))).

Definition exactly_one_b (f b : setting) (m : mode) (v4 o1 o2 o3 o4 bpf wg wg6 ipv6 : bool) : bool :=
  implb (andb (supported f b) (family_ok m v4 ipv6))
    (let w := mkw m v4 o1 o2 o3 o4 bpf wg wg6 ipv6 in
     let felix := felix_programs G (setting_name f) w in
     let bird := bird_programs G (covers b) w in
     andb (andb (xorb felix bird) (implb (is_class CVxlan m) felix)) (Bool.eqb felix (felix_should_program f m))).

Definition exactly_one_all : bool :=
  allsetting (fun f => allsetting (fun b => allmode (fun m =>
    allb (fun v4 => allb (fun o1 => allb (fun o2 => allb (fun o3 => allb (fun o4 =>
    allb (fun bpf => allb (fun wg => allb (fun wg6 => allb (fun ipv6 =>
      exactly_one_b f b m v4 o1 o2 o3 o4 bpf wg wg6 ipv6)))))))))))).

Lemma exactly_one_all_true : exactly_one_all = true.
Proof. vm_compute; reflexivity. Qed.

Lemma exactly_one_fin : forall f b m v4 o1 o2 o3 o4 bpf wg wg6 ipv6,
  exactly_one_b f b m v4 o1 o2 o3 o4 bpf wg wg6 ipv6 = true.
Proof.
  intros f b m v4 o1 o2 o3 o4 bpf wg wg6 ipv6.
  pose proof exactly_one_all_true as H; unfold exactly_one_all in H.
  pose proof (allsetting_spec _ H f) as H1; cbv beta in H1.
  pose proof (allsetting_spec _ H1 b) as H2; cbv beta in H2.
  pose proof (allmode_spec _ H2 m) as H3; cbv beta in H3.
  pose proof (allb_spec _ H3 v4) as H4; cbv beta in H4.
  pose proof (allb_spec _ H4 o1) as H5; cbv beta in H5.
  pose proof (allb_spec _ H5 o2) as H6; cbv beta in H6.
  pose proof (allb_spec _ H6 o3) as H7; cbv beta in H7.
  pose proof (allb_spec _ H7 o4) as H8; cbv beta in H8.
  pose proof (allb_spec _ H8 bpf) as H9; cbv beta in H9.
  pose proof (allb_spec _ H9 wg) as H10; cbv beta in H10.
  pose proof (allb_spec _ H10 wg6) as H11; cbv beta in H11.
  exact (allb_spec _ H11 ipv6).
Qed.

(* Ownership does not depend on the pool's other attributes - disabled (which only stops NEW allocations: existing
   workloads still need their routes), natOutgoing, disableBGPExport - nor on whether Felix learnt the pool on the start-up
   path (handleAPIPool) or from the syncer (handleModelPool): on both sides the outcome is that of the bare pool. *)
Lemma pool_in_sets_strip : forall w, pool_in_sets G w = pool_in_sets G (strip w).
Proof.
  intros [m v4 d n b api o io vo bpf wg wg6 ipv6]; unfold strip; simpl.
  destruct m, v4, d, n, b, api; vm_compute; reflexivity.
Qed.

Theorem c28_pool_attributes_irrelevant :
  forall pcr p w,
    felix_programs G pcr w = felix_programs G pcr (strip w) /\
    bird_programs G p w = bird_programs G p (strip w).
Proof.
  intros pcr p w; split.
  - unfold felix_programs, felix_view_of. rewrite pool_in_sets_strip.
    destruct w as [m v4 d n b api o io vo bpf wg wg6 ipv6]; reflexivity.
  - destruct w as [m v4 d n b api o io vo bpf wg wg6 ipv6], p as [p1 p2]; unfold strip; simpl.
    destruct m, v4, d, n, b, p1, p2; vm_compute; reflexivity.
Qed.
Print Assumptions c28_pool_attributes_irrelevant.

(* THE PROPERTY.  For every raw Felix value and every BGPConfiguration state that is absent, one of the four documented
   values or a string neither side recognises, whenever the two resolve (absent / unrecognised -> default) to a supported
   pairing: for every pool mode and family, whatever other pools exist and whether BPF / WireGuard are on, exactly one of
   Felix and BIRD programs the pool's cluster routes; VXLAN pools are Felix's; IPIP and unencapsulated pools belong to the
   side the pairing names. *)
Theorem c28_exactly_one :
  forall (fraw : option string) (b : braw) (w : world),
    in_domain fraw -> in_domain (braw_value b) -> admissible w ->
    let f := spec_resolve felix_spec_default fraw in
    let bs := spec_resolve bird_spec_default (braw_value b) in
    supported f bs = true ->
    let felix := felix_programs G (felix_resolve G fraw) w in
    let bird := bird_programs G (bird_policy G b) w in
    xorb felix bird = true /\
    (class_of (w_mode w) = CVxlan -> felix = true) /\
    felix = felix_should_program f (w_mode w).
Proof.
  intros fraw b w Hf Hb Hw f bs Hs felix bird.
  subst felix bird.
  rewrite (felix_resolve_spec fraw Hf), (bird_policy_spec b Hb).
  fold f bs.
  destruct (c28_pool_attributes_irrelevant (setting_name f) (covers bs) w) as [Ef Eb]; rewrite Ef, Eb; clear Ef Eb.
  destruct w as [m v4 d n bx api [[[o1 o2] o3] o4] io vo bpf wg wg6 ipv6].
  destruct Hw as [Hio [Hvo Hfam]]; simpl in Hio, Hvo, Hfam; subst io vo.
  pose proof (exactly_one_fin f bs m v4 o1 o2 o3 o4 bpf wg wg6 ipv6) as H.
  unfold exactly_one_b in H; rewrite Hs in H.
  assert (Hfo : family_ok m v4 ipv6 = true).
  { unfold family_ok; destruct v4; [reflexivity|]. destruct (Hfam eq_refl) as [H6 Hc]; rewrite H6; simpl.
    unfold is_class; destruct (class_of m); try reflexivity; exfalso; apply Hc; reflexivity. }
  rewrite Hfo in H; simpl andb in H; simpl implb in H; cbv zeta in H.
  unfold strip; simpl w_mode; simpl w_v4; simpl w_others; simpl w_ipip_ovr; simpl w_vxlan_ovr;
    simpl w_bpf; simpl w_wg; simpl w_wg6; simpl w_ipv6.
  fold (mkw m v4 o1 o2 o3 o4 bpf wg wg6 ipv6).
  apply andb_true_iff in H; destruct H as [H Howner]; apply andb_true_iff in H; destruct H as [Hx Hv].
  split; [assumption|]; split.
  - intros Hc; unfold is_class in Hv; rewrite Hc in Hv; simpl in Hv; assumption.
  - apply eqb_prop; assumption.
Qed.
Print Assumptions c28_exactly_one.

(* The statement is not vacuous and not trivially true: for every UNSUPPORTED pair of documented values there is a pool
   mode whose routes are programmed twice or not at all. *)
Theorem c28_unsupported_pairings_break :
  forall f b, supported f b = false ->
    exists m, In m all_modes /\
      xorb (felix_programs G (setting_name f) (mkw m true false false false false false false false true))
           (bird_programs G (covers b) (mkw m true false false false false false false false true)) = false.
Proof.
  assert (H : allsetting (fun f => allsetting (fun b => orb (supported f b)
               (existsb (fun m => negb (xorb (felix_programs G (setting_name f) (mkw m true false false false false false false false true))
                                             (bird_programs G (covers b) (mkw m true false false false false false false false true)))) all_modes))) = true) by (vm_compute; reflexivity).
  intros f b Hs. pose proof (allsetting_spec _ (allsetting_spec _ H f) b) as E; cbv beta in E.
  rewrite Hs in E; rewrite Bool.orb_false_l in E. apply existsb_exists in E; destruct E as [m [Hin Hm]].
  exists m; split; [assumption|]. apply negb_true_iff in Hm; assumption.
Qed.
Print Assumptions c28_unsupported_pairings_break.

(* ------------------------------------------------------------------------------------------------ Felix internals *)

(* updatePool: after the call the pool is in a set iff it was inserted, never both inserted and deleted, and it sits in
   exactly the set(s) of its mode: IPIP -> ipipPools, VXLAN -> vxlanPools / vxlanPoolsv6 by family, neither -> noEncapPools *)
Theorem c28_calculator_sets :
  forall ie ve v4,
    g_ins_ipip G ie ve v4 = negb (g_del_ipip G ie ve v4) /\ g_ins_noencap G ie ve v4 = negb (g_del_noencap G ie ve v4) /\
    (g_ins_vxlan G ie ve v4 = true -> g_del_vxlan G ie ve v4 = false) /\ (g_ins_vxlan6 G ie ve v4 = true -> g_del_vxlan6 G ie ve v4 = false) /\
    g_ins_ipip G ie ve v4 = ie /\ g_ins_vxlan G ie ve v4 = andb ve v4 /\ g_ins_vxlan6 G ie ve v4 = andb ve (negb v4) /\
    g_ins_noencap G ie ve v4 = andb (negb ie) (negb ve).
Proof. intros [] [] []; vm_compute; repeat split; intros; congruence. Qed.
Print Assumptions c28_calculator_sets.

(* ipipManager: every use of its route manager is enabled exactly when Felix owns the IPIP cluster routes *)
Theorem c28_ipip_gates_uniform : forall b, g_ipip_gates G b <> [] /\ forallb (Bool.eqb b) (g_ipip_gates G b) = true.
Proof. intros []; vm_compute; split; (discriminate || reflexivity). Qed.
Print Assumptions c28_ipip_gates_uniform.

(* ------------------------------------------------------------------------------------------------ finding *)

(* Outside the domain of c28_exactly_one the two components do NOT treat a value alike: Felix's generic parameter
   parsing accepts case variants of the values and the keyword "none" (zero value: neither class), confd treats both
   as unrecognised (default).  With the specification's reading (not one of the four values -> default on both sides)
   the default pairing is then broken. *)
Theorem c28_non_enum_values_refuted :
  (* Felix "none", BGPConfiguration absent: an IPIP pool is programmed by nobody *)
  (supported (spec_resolve felix_spec_default (Some "none")) (spec_resolve bird_spec_default None) = true /\
   felix_programs G (felix_resolve G (Some "none")) (mkw MIpip true false false false false false false false true) = false /\
   bird_programs G (bird_policy G BUnset) (mkw MIpip true false false false false false false false true) = false) /\
  (* Felix "enabled", BGPConfiguration absent: an unencapsulated pool is programmed by both *)
  (supported (spec_resolve felix_spec_default (Some "enabled")) (spec_resolve bird_spec_default None) = true /\
   felix_programs G (felix_resolve G (Some "enabled")) (mkw MNone true false false false false false false false true) = true /\
   bird_programs G (bird_policy G BUnset) (mkw MNone true false false false false false false false true) = true).
Proof. vm_compute; repeat split; reflexivity. Qed.
Print Assumptions c28_non_enum_values_refuted.

(* ------------------------------------------------------------------------------------------------ run-time histories *)

(* The route manager shared by Felix's IPIP / VXLAN / no-encap managers (hand-written model Hist.run of
   routeManager.OnUpdate, tied to the real managers by the history stream of the correspondence run): after ANY history
   of route updates / removals, a destination is held for programming exactly when the LATEST message about it is an
   update for the manager's own pool type (remote workload, or borrowed tunnel address). *)
Theorem c28_route_table_is_latest : forall own ms d, In d (run own ms) <-> holds own d ms = true.
Proof. exact table_is_latest. Qed.
Print Assumptions c28_route_table_is_latest.

(* so a pool whose mode was edited (the resolver re-announces its blocks with the new pool type), or that was deleted
   (type NONE), is dropped by the manager of its former class, and no destination is ever held by two managers *)
Theorem c28_no_stale_destination : forall own ms d m,
  latest d ms = Some m -> wanted own m = false -> ~ In d (run own ms).
Proof. exact no_stale_destination. Qed.
Print Assumptions c28_no_stale_destination.

Theorem c28_one_manager_per_destination : forall ms d o1 o2, In d (run o1 ms) -> In d (run o2 ms) -> o1 = o2.
Proof. exact one_manager_per_destination. Qed.
Print Assumptions c28_one_manager_per_destination.
