(* C27 — theorems re-checked on every run against the Gen.v TRANSLATED from $VERIF_REPO's config package
   (parameter table from config.Params()/Metadata, SourcesInDescendingOrder, Source.Local(), Source.String()). *)
From Coq Require Import List NArith Bool String.
From Verif.C27 Require Import Model Spec.
From VerifGen Require Import Gen.
Import ListNotations.
Open Scope N_scope.

(* The source order of the code is the order the property names: internal override, environment, config file,
   per-host, per-selector, then global datastore; exactly the first three are local sources. *)
Theorem c27_gen_source_order :
  map (fun s => match aget N.eqb s src_names with Some n => n | None => EmptyString end) srcs_desc
  = ["internal override"; "environment variable"; "config file"; "datastore (per-host)";
     "datastore (per-node-selector)"; "datastore (global)"]%string
  /\ map (env_local genv) srcs_desc = [true; true; true; false; false; false].
Proof. split; vm_compute; reflexivity. Qed.
Print Assumptions c27_gen_source_order.
