(* C27 — theorems re-checked on every run against the Gen.v TRANSLATED from $VERIF_REPO's config package
   (parameter table from config.Params()/Metadata, SourcesInDescendingOrder, Source.Local(), Source.String()). *)
From Coq Require Import List NArith Bool String.
From Verif.C27 Require Import Model Spec.
From VerifGen Require Import Gen.
Import ListNotations.
Open Scope N_scope.

(* The source order of the code is the order the property names: internal override, environment, config file,
   per-host, per-selector, then global datastore; exactly the first three are local sources. *)
Theorem c27_gen_source_order :
  map (fun s => match aget N.eqb s src_names with Some n => n | None => EmptyString end) srcs_desc
  = ["internal override"; "environment variable"; "config file"; "datastore (per-host)";
     "datastore (per-node-selector)"; "datastore (global)"]%string
  /\ map (env_local genv) srcs_desc = [true; true; true; false; false; false].
Proof. split; vm_compute; reflexivity. Qed.
Print Assumptions c27_gen_source_order.

From Coq Require Import Lia Permutation.
From Verif.C27 Require Import Proofs ProofsSorted Props.

(* The generated table and source list meet the hypotheses of the general theorems: knownParams is keyed by the
   lower-cased field name; the sources are listed in strictly descending order and are all above "<default>" = 0. *)
Lemma gen_known_name : forall lk m, known_in known_table lk = Some m -> lower_b (pm_name m) = lk.
Proof. apply known_in_name. vm_compute. reflexivity. Qed.
Lemma gen_sdesc : sdesc srcs_desc.
Proof. simpl. repeat split; intros u Hu; simpl in Hu; repeat (destruct Hu as [<-|Hu]; [lia|]); contradiction. Qed.
Lemma gen_pos : forall s, In s srcs_desc -> 0 < s.
Proof. intros s Hs. simpl in Hs. repeat (destruct Hs as [<-|Hs]; [lia|]). contradiction. Qed.

Theorem c27_gen_table_wf :
  (forall lk m, known_in known_table lk = Some m -> lower_b (pm_name m) = lk)
  /\ sdesc srcs_desc /\ (forall s, In s srcs_desc -> 0 < s).
Proof. exact (conj gen_known_name (conj gen_sdesc gen_pos)). Qed.
Print Assumptions c27_gen_table_wf.

(* The general theorems on the REAL parameter table and source order, for every parse function. *)
Theorem c27_gen_highest_source_decides : forall parse fixed (c : cfg bytes bytes),
  match resolve beqb bleb lower_b is_none_b (known_in known_table) parse srcs_desc (env_local genv) fixed false c with
  | None => SpecFatal bytes bytes bytes beqb lower_b is_none_b (known_in known_table) parse (env_local genv) srcs_desc fixed c
  | Some st => ~ SpecFatal bytes bytes bytes beqb lower_b is_none_b (known_in known_table) parse (env_local genv) srcs_desc fixed c
               /\ forall lk m, known_in known_table lk = Some m ->
                    Some (effective beqb st m) = spec_outcome bytes bytes bytes beqb lower_b is_none_b parse (env_local genv) srcs_desc c m
  end.
Proof.
  intros parse. exact (c27_highest_source_decides bytes bytes bytes beqb lower_b is_none_b (known_in known_table) parse
                         (env_local genv) bleb srcs_desc beqb_eq gen_known_name gen_sdesc gen_pos).
Qed.
Print Assumptions c27_gen_highest_source_decides.

Theorem c27_gen_shadowed_irrelevant : forall parse (c c' : cfg bytes bytes) s0 s1 lk0 m0,
  known_in known_table lk0 = Some m0 -> deciding beqb lower_b srcs_desc (env_local genv) c m0 = Some s1 -> s0 < s1 ->
  differ_only bytes bytes bytes beqb lower_b c c' s0 m0 ->
  res_equiv bytes bytes bytes beqb (known_in known_table)
    (resolve beqb bleb lower_b is_none_b (known_in known_table) parse srcs_desc (env_local genv) true false c)
    (resolve beqb bleb lower_b is_none_b (known_in known_table) parse srcs_desc (env_local genv) true false c').
Proof.
  intros parse. exact (c27_shadowed_irrelevant bytes bytes bytes beqb lower_b is_none_b (known_in known_table) parse
                         (env_local genv) bleb srcs_desc beqb_eq gen_known_name gen_sdesc gen_pos).
Qed.
Print Assumptions c27_gen_shadowed_irrelevant.

Theorem c27_gen_local_only_ignored_from_datastore : forall parse fixed (c c' : cfg bytes bytes) s0 lk0 m0,
  known_in known_table lk0 = Some m0 -> pm_local m0 = true -> env_local genv s0 = false ->
  differ_only bytes bytes bytes beqb lower_b c c' s0 m0 ->
  res_equiv bytes bytes bytes beqb (known_in known_table)
    (resolve beqb bleb lower_b is_none_b (known_in known_table) parse srcs_desc (env_local genv) fixed false c)
    (resolve beqb bleb lower_b is_none_b (known_in known_table) parse srcs_desc (env_local genv) fixed false c').
Proof.
  intros parse. exact (c27_local_only_ignored_from_datastore bytes bytes bytes beqb lower_b is_none_b (known_in known_table) parse
                         (env_local genv) bleb srcs_desc beqb_eq gen_known_name gen_sdesc gen_pos).
Qed.
Print Assumptions c27_gen_local_only_ignored_from_datastore.

(* The real table has parameters for which the pinned code's defect is live (fatal flags, settable from the datastore),
   and local-only parameters for which the local-only clause is not vacuous. *)
Theorem c27_gen_flags_present :
  existsb (fun m => (pm_die m || pm_nonzero m) && negb (pm_local m)) param_table = true
  /\ existsb (fun m => pm_local m && pm_die m) param_table = true.
Proof. split; vm_compute; reflexivity. Qed.
Print Assumptions c27_gen_flags_present.

(* The code now in the tree (sorted keys) on the REAL table, Go's byte order on names: every map iteration order of every
   source gives the same result, also with several case-variant spellings of a parameter in one source. *)
Theorem c27_gen_order_independent_sorted : forall parse fixed (c c' : cfg bytes bytes),
  (forall s, NoDup (map fst (src_kvs c s))) -> (forall s, Permutation (src_kvs c s) (src_kvs c' s)) ->
  resolve beqb bleb lower_b is_none_b (known_in known_table) parse srcs_desc (env_local genv) fixed true c
  = resolve beqb bleb lower_b is_none_b (known_in known_table) parse srcs_desc (env_local genv) fixed true c'.
Proof.
  intros parse. exact (c27_order_independent_sorted bytes bytes bytes beqb lower_b is_none_b (known_in known_table) parse
                         (env_local genv) bleb srcs_desc bleb_total bleb_antisym bleb_trans).
Qed.
Print Assumptions c27_gen_order_independent_sorted.
