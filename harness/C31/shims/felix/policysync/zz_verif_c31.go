//go:build verif

package policysync

import "github.com/projectcalico/calico/felix/proto"

// Synchronous access to the handlers that Processor.loop() runs from its goroutine (C31 correspondence driver).

func (p *Processor) VerifHandleJoin(r JoinRequest)   { p.handleJoin(r) }
func (p *Processor) VerifHandleLeave(r LeaveRequest) { p.handleLeave(r) }
func (p *Processor) VerifHandleDataplane(u any)      { p.handleDataplane(u) }

// The message splitters (gRPC size limit), for the chunking correspondence.
func VerifSplitIPSetUpdate(u *proto.IPSetUpdate) []*proto.ToDataplane { return splitIPSetUpdate(u) }
func VerifSplitIPSetDeltaUpdate(u *proto.IPSetDeltaUpdate) []*proto.ToDataplane {
	return splitIPSetDeltaUpdate(u)
}
