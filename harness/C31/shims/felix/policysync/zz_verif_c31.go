//go:build verif

package policysync

// Synchronous access to the handlers that Processor.loop() runs from its goroutine (C31 correspondence driver).

func (p *Processor) VerifHandleJoin(r JoinRequest)   { p.handleJoin(r) }
func (p *Processor) VerifHandleLeave(r LeaveRequest) { p.handleLeave(r) }
func (p *Processor) VerifHandleDataplane(u any)      { p.handleDataplane(u) }
