//go:build verif

// C31 correspondence driver: drives the real felix/policysync.Processor synchronously (handleJoin / handleLeave /
// handleDataplane through the verif shim) on generated histories of dataplane updates interleaved with joins and
// leaves of a few workloads, reads every per-join output channel after every operation and prints one JSON line
// per history carrying the case as a Coq term (Verif.C31.Spec.case).
package main

import (
	"encoding/json"
	"flag"
	"fmt"
	"io"
	"os"
	"sort"
	"strconv"
	"strings"

	"github.com/sirupsen/logrus"

	"github.com/projectcalico/calico/felix/policysync"
	"github.com/projectcalico/calico/felix/proto"
	"github.com/projectcalico/calico/felix/types"
)

type rng struct{ s uint64 }

func (r *rng) next() uint64 {
	r.s += 0x9e3779b97f4a7c15
	z := r.s
	z = (z ^ (z >> 30)) * 0xbf58476d1ce4e5b9
	z = (z ^ (z >> 27)) * 0x94d049bb133111eb
	return z ^ (z >> 31)
}
func (r *rng) intn(n int) int { return int(r.next() % uint64(n)) }

type line struct {
	Coq    string         `json:"coq"`
	NT     bool           `json:"nt"`
	Key    string         `json:"key"`
	Sample map[string]any `json:"sample,omitempty"`
	Tags   []string       `json:"tags"`
}

// ---- abstract payloads (mirror of Model.v) ------------------------------------------------------------------

type rulesT struct {
	ver     int
	in, out [][][]int // rule = 9 lists of ip set ids
}
type tierT struct{ in, out []int }
type epT struct {
	ver   int
	tiers []tierT
	profs []int
}
type opT struct {
	kind   string
	a, b   int
	rules  *rulesT
	ep     *epT
	l1, l2 []int
}

func nats(xs []int) string {
	ss := make([]string, len(xs))
	for i, x := range xs {
		ss[i] = strconv.Itoa(x)
	}
	return "[" + strings.Join(ss, ";") + "]"
}
func ruleCoq(r [][]int) string {
	ss := make([]string, len(r))
	for i, f := range r {
		ss[i] = nats(f)
	}
	return "[" + strings.Join(ss, ";") + "]"
}
func ruleListCoq(rs [][][]int) string {
	ss := make([]string, len(rs))
	for i, r := range rs {
		ss[i] = ruleCoq(r)
	}
	return "[" + strings.Join(ss, ";") + "]"
}
func (r *rulesT) coq() string {
	return fmt.Sprintf("(mkRules %d %s %s)", r.ver, ruleListCoq(r.in), ruleListCoq(r.out))
}
func (e *epT) coq() string {
	ts := make([]string, len(e.tiers))
	for i, t := range e.tiers {
		ts[i] = fmt.Sprintf("mkTier %s %s", nats(t.in), nats(t.out))
	}
	return fmt.Sprintf("(mkEp %d [%s] %s)", e.ver, strings.Join(ts, ";"), nats(e.profs))
}
func (o *opT) coq() string {
	switch o.kind {
	case "OJoin", "OLeave", "OSAUpdate", "ONSUpdate":
		return fmt.Sprintf("%s %d %d", o.kind, o.a, o.b)
	case "OInSync":
		return "OInSync"
	case "OWepUpdate":
		return fmt.Sprintf("OWepUpdate %d %s", o.a, o.ep.coq())
	case "OPolUpdate", "OProfUpdate":
		return fmt.Sprintf("%s %d %s", o.kind, o.a, o.rules.coq())
	case "OIPSetUpdate":
		return fmt.Sprintf("OIPSetUpdate %d %s", o.a, nats(o.l1))
	case "OIPSetDelta":
		return fmt.Sprintf("OIPSetDelta %d %s %s", o.a, nats(o.l1), nats(o.l2))
	default: // OWepRemove OPolRemove OProfRemove OIPSetRemove OSARemove ONSRemove
		return fmt.Sprintf("%s %d", o.kind, o.a)
	}
}

// ---- naming: abstract ids <-> the identifiers the Processor sees ----------------------------------------------

func wepID(w int) *proto.WorkloadEndpointID {
	return &proto.WorkloadEndpointID{OrchestratorId: policysync.OrchestratorId, WorkloadId: fmt.Sprintf("ns/w%d", w), EndpointId: policysync.EndpointId}
}
func wepOf(id *proto.WorkloadEndpointID) int {
	if id.GetOrchestratorId() != policysync.OrchestratorId || id.GetEndpointId() != policysync.EndpointId {
		return 9000
	}
	return num(id.GetWorkloadId(), "ns/w")
}

// policy ids 2k and 2k+1 share the name and differ in kind and namespace
func polID(p int) *proto.PolicyID {
	if p%2 == 0 {
		return &proto.PolicyID{Name: fmt.Sprintf("pol%d", p/2), Kind: "GlobalNetworkPolicy"}
	}
	return &proto.PolicyID{Name: fmt.Sprintf("pol%d", p/2), Kind: "NetworkPolicy", Namespace: "ns"}
}
func polOf(id *proto.PolicyID) int {
	k := num(id.GetName(), "pol")
	switch {
	case id.GetKind() == "GlobalNetworkPolicy" && id.GetNamespace() == "":
		return 2 * k
	case id.GetKind() == "NetworkPolicy" && id.GetNamespace() == "ns":
		return 2*k + 1
	}
	return 9000 + k
}
func num(s, prefix string) int {
	if !strings.HasPrefix(s, prefix) {
		return 9001
	}
	n, err := strconv.Atoi(s[len(prefix):])
	if err != nil {
		return 9002
	}
	return n
}
func setName(s int) string { return fmt.Sprintf("s%d", s) }
func setNames(xs []int) []string {
	if len(xs) == 0 {
		return nil
	}
	out := make([]string, len(xs))
	for i, x := range xs {
		out[i] = setName(x)
	}
	return out
}
func setNums(xs []string) []int {
	out := make([]int, len(xs))
	for i, x := range xs {
		out[i] = num(x, "s")
	}
	return out
}
// IP set s has type s%3 (IP, IP+port, net); its members are written accordingly
func setType(s int) proto.IPSetUpdate_IPSetType {
	switch s % 3 {
	case 1:
		return proto.IPSetUpdate_IP_AND_PORT
	case 2:
		return proto.IPSetUpdate_NET
	}
	return proto.IPSetUpdate_IP
}
func memberName(s, m int) string {
	switch s % 3 {
	case 1:
		return fmt.Sprintf("10.0.0.%d,TCP:80", m) // canonical form is lower case
	case 2:
		return fmt.Sprintf("10.0.%d.0/24", m)
	}
	return fmt.Sprintf("10.0.0.%d", m)
}
func memberNames(s int, xs []int) []string {
	out := make([]string, len(xs))
	for i, x := range xs {
		out[i] = memberName(s, x)
	}
	return out
}
func memberNum(s int, x string) int {
	switch s % 3 {
	case 1:
		x = strings.ToLower(x)
		if !strings.HasSuffix(x, ",tcp:80") {
			return 9006
		}
		return num(strings.TrimSuffix(x, ",tcp:80"), "10.0.0.")
	case 2:
		if !strings.HasSuffix(x, ".0/24") {
			return 9007
		}
		return num(strings.TrimSuffix(x, ".0/24"), "10.0.")
	}
	return num(x, "10.0.0.")
}
func memberNums(s int, xs []string) []int {
	out := make([]int, len(xs))
	for i, x := range xs {
		out[i] = memberNum(s, x)
	}
	return out
}
func sortedSet(xs []int) []int {
	ys := append([]int{}, xs...)
	sort.Ints(ys)
	out := ys[:0]
	for i, y := range ys {
		if i == 0 || y != ys[i-1] {
			out = append(out, y)
		}
	}
	return out
}

func mkRule(r [][]int) *proto.Rule {
	return &proto.Rule{
		SrcIpSetIds: setNames(r[0]), DstIpSetIds: setNames(r[1]), DstIpPortSetIds: setNames(r[2]),
		SrcNamedPortIpSetIds: setNames(r[3]), DstNamedPortIpSetIds: setNames(r[4]),
		NotSrcIpSetIds: setNames(r[5]), NotDstIpSetIds: setNames(r[6]),
		NotSrcNamedPortIpSetIds: setNames(r[7]), NotDstNamedPortIpSetIds: setNames(r[8]),
	}
}
func readRule(r *proto.Rule) [][]int {
	return [][]int{setNums(r.SrcIpSetIds), setNums(r.DstIpSetIds), setNums(r.DstIpPortSetIds),
		setNums(r.SrcNamedPortIpSetIds), setNums(r.DstNamedPortIpSetIds),
		setNums(r.NotSrcIpSetIds), setNums(r.NotDstIpSetIds),
		setNums(r.NotSrcNamedPortIpSetIds), setNums(r.NotDstNamedPortIpSetIds)}
}

// the version tag travels in the RuleId of an extra last outbound rule without IP sets
func mkRuleLists(r *rulesT) (in, out []*proto.Rule) {
	for _, x := range r.in {
		in = append(in, mkRule(x))
	}
	for _, x := range r.out {
		out = append(out, mkRule(x))
	}
	out = append(out, &proto.Rule{RuleId: fmt.Sprintf("v%d", r.ver)})
	return
}
func readRuleLists(in, out []*proto.Rule) *rulesT {
	r := &rulesT{ver: 9003}
	for _, x := range in {
		r.in = append(r.in, readRule(x))
	}
	for i, x := range out {
		if i == len(out)-1 {
			r.ver = num(x.GetRuleId(), "v")
			if len(concat(readRule(x))) != 0 {
				r.ver = 9004
			}
		} else {
			r.out = append(r.out, readRule(x))
		}
	}
	return r
}
func concat(r [][]int) []int {
	var out []int
	for _, f := range r {
		out = append(out, f...)
	}
	return out
}

func mkEndpoint(e *epT) *proto.WorkloadEndpoint {
	we := &proto.WorkloadEndpoint{Name: fmt.Sprintf("v%d", e.ver)}
	for i, t := range e.tiers {
		ti := &proto.TierInfo{Name: fmt.Sprintf("tier%d", i)}
		for _, p := range t.in {
			ti.IngressPolicies = append(ti.IngressPolicies, polID(p))
		}
		for _, p := range t.out {
			ti.EgressPolicies = append(ti.EgressPolicies, polID(p))
		}
		we.Tiers = append(we.Tiers, ti)
	}
	for _, f := range e.profs {
		we.ProfileIds = append(we.ProfileIds, fmt.Sprintf("prof%d", f))
	}
	return we
}
func readEndpoint(we *proto.WorkloadEndpoint) *epT {
	e := &epT{ver: num(we.GetName(), "v")}
	for _, ti := range we.GetTiers() {
		t := tierT{}
		for _, p := range ti.GetIngressPolicies() {
			t.in = append(t.in, polOf(p))
		}
		for _, p := range ti.GetEgressPolicies() {
			t.out = append(t.out, polOf(p))
		}
		e.tiers = append(e.tiers, t)
	}
	for _, f := range we.GetProfileIds() {
		e.profs = append(e.profs, num(f, "prof"))
	}
	return e
}

func saID(a int) *proto.ServiceAccountID {
	return &proto.ServiceAccountID{Namespace: "ns", Name: fmt.Sprintf("sa%d", a)}
}
func saOf(id *proto.ServiceAccountID) int {
	if id.GetNamespace() != "ns" {
		return 9000
	}
	return num(id.GetName(), "sa")
}

// the message handed to handleDataplane for an abstract operation
func (o *opT) update() any {
	switch o.kind {
	case "OInSync":
		return &proto.InSync{}
	case "OWepUpdate":
		return &proto.WorkloadEndpointUpdate{Id: wepID(o.a), Endpoint: mkEndpoint(o.ep)}
	case "OWepRemove":
		return &proto.WorkloadEndpointRemove{Id: wepID(o.a)}
	case "OPolUpdate":
		in, out := mkRuleLists(o.rules)
		return &proto.ActivePolicyUpdate{Id: polID(o.a), Policy: &proto.Policy{InboundRules: in, OutboundRules: out, Namespace: polID(o.a).Namespace}}
	case "OPolRemove":
		return &proto.ActivePolicyRemove{Id: polID(o.a)}
	case "OProfUpdate":
		in, out := mkRuleLists(o.rules)
		return &proto.ActiveProfileUpdate{Id: &proto.ProfileID{Name: fmt.Sprintf("prof%d", o.a)}, Profile: &proto.Profile{InboundRules: in, OutboundRules: out}}
	case "OProfRemove":
		return &proto.ActiveProfileRemove{Id: &proto.ProfileID{Name: fmt.Sprintf("prof%d", o.a)}}
	case "OIPSetUpdate":
		return &proto.IPSetUpdate{Id: setName(o.a), Type: setType(o.a), Members: memberNames(o.a, o.l1)}
	case "OIPSetDelta":
		return &proto.IPSetDeltaUpdate{Id: setName(o.a), AddedMembers: memberNames(o.a, o.l1), RemovedMembers: memberNames(o.a, o.l2)}
	case "OIPSetRemove":
		return &proto.IPSetRemove{Id: setName(o.a)}
	case "OSAUpdate":
		return &proto.ServiceAccountUpdate{Id: saID(o.a), Labels: map[string]string{"ver": fmt.Sprintf("v%d", o.b)}}
	case "OSARemove":
		return &proto.ServiceAccountRemove{Id: saID(o.a)}
	case "ONSUpdate":
		return &proto.NamespaceUpdate{Id: &proto.NamespaceID{Name: fmt.Sprintf("n%d", o.a)}, Labels: map[string]string{"ver": fmt.Sprintf("v%d", o.b)}}
	case "ONSRemove":
		return &proto.NamespaceRemove{Id: &proto.NamespaceID{Name: fmt.Sprintf("n%d", o.a)}}
	}
	panic("driver: unknown op " + o.kind)
}

// a message read from an output channel, as a Coq term of type Model.msg
func msgCoq(m *proto.ToDataplane) string {
	switch pl := m.Payload.(type) {
	case *proto.ToDataplane_InSync:
		return "MInSync"
	case *proto.ToDataplane_WorkloadEndpointUpdate:
		u := pl.WorkloadEndpointUpdate
		return fmt.Sprintf("MWepUpdate %d %s", wepOf(u.GetId()), readEndpoint(u.GetEndpoint()).coq())
	case *proto.ToDataplane_WorkloadEndpointRemove:
		return fmt.Sprintf("MWepRemove %d", wepOf(pl.WorkloadEndpointRemove.GetId()))
	case *proto.ToDataplane_ActivePolicyUpdate:
		u := pl.ActivePolicyUpdate
		return fmt.Sprintf("MPolUpdate %d %s", polOf(u.GetId()), readRuleLists(u.GetPolicy().GetInboundRules(), u.GetPolicy().GetOutboundRules()).coq())
	case *proto.ToDataplane_ActivePolicyRemove:
		return fmt.Sprintf("MPolRemove %d", polOf(pl.ActivePolicyRemove.GetId()))
	case *proto.ToDataplane_ActiveProfileUpdate:
		u := pl.ActiveProfileUpdate
		return fmt.Sprintf("MProfUpdate %d %s", num(u.GetId().GetName(), "prof"), readRuleLists(u.GetProfile().GetInboundRules(), u.GetProfile().GetOutboundRules()).coq())
	case *proto.ToDataplane_ActiveProfileRemove:
		return fmt.Sprintf("MProfRemove %d", num(pl.ActiveProfileRemove.GetId().GetName(), "prof"))
	case *proto.ToDataplane_IpsetUpdate:
		u := pl.IpsetUpdate
		id := num(u.GetId(), "s")
		ms := sortedSet(memberNums(id, u.GetMembers()))
		if u.GetType() != setType(id) {
			id = 9005
		}
		// members are a set: the order in which the Processor lists them is a Go map order
		return fmt.Sprintf("MIPSetUpdate %d %s", id, nats(ms))
	case *proto.ToDataplane_IpsetDeltaUpdate:
		u := pl.IpsetDeltaUpdate
		id := num(u.GetId(), "s")
		return fmt.Sprintf("MIPSetDelta %d %s %s", id, nats(memberNums(id, u.GetAddedMembers())), nats(memberNums(id, u.GetRemovedMembers())))
	case *proto.ToDataplane_IpsetRemove:
		return fmt.Sprintf("MIPSetRemove %d", num(pl.IpsetRemove.GetId(), "s"))
	case *proto.ToDataplane_ServiceAccountUpdate:
		u := pl.ServiceAccountUpdate
		return fmt.Sprintf("MSAUpdate %d %d", saOf(u.GetId()), num(u.GetLabels()["ver"], "v"))
	case *proto.ToDataplane_ServiceAccountRemove:
		return fmt.Sprintf("MSARemove %d", saOf(pl.ServiceAccountRemove.GetId()))
	case *proto.ToDataplane_NamespaceUpdate:
		u := pl.NamespaceUpdate
		return fmt.Sprintf("MNSUpdate %d %d", num(u.GetId().GetName(), "n"), num(u.GetLabels()["ver"], "v"))
	case *proto.ToDataplane_NamespaceRemove:
		return fmt.Sprintf("MNSRemove %d", num(pl.NamespaceRemove.GetId().GetName(), "n"))
	}
	return "MWepRemove 9009" // a message kind the property does not know
}

// ---- generator: keeps the calculation graph's contract unless told to break it -----------------------------------

const (
	nW = 3
	nP = 4
	nF = 3
	nS = 4
	nA = 2
	nN = 2
	nM = 6
)

type gen struct {
	r       *rng
	eps     map[int]*epT
	pols    map[int]*rulesT
	profs   map[int]*rulesT
	ips     map[int]bool
	sas     map[int]bool
	nss     map[int]bool
	conn    map[int]int // workload -> current join uid
	oldUIDs map[int][]int
	nextUID int
	ver     int
	nops    int
	tags    map[string]bool
}

func keysOf[V any](m map[int]V) []int {
	var ks []int
	for k := range m {
		ks = append(ks, k)
	}
	sort.Ints(ks)
	return ks
}

func (g *gen) subset(xs []int, pKeep int) []int {
	var out []int
	for _, x := range xs {
		if g.r.intn(100) < pKeep {
			out = append(out, x)
		}
	}
	return out
}
func (g *gen) shuffle(xs []int) []int {
	ys := append([]int{}, xs...)
	for i := len(ys) - 1; i > 0; i-- {
		j := g.r.intn(i + 1)
		ys[i], ys[j] = ys[j], ys[i]
	}
	return ys
}

func (g *gen) genRules(from []int) *rulesT {
	g.ver++
	rs := &rulesT{ver: g.ver}
	mk := func() [][]int {
		rule := make([][]int, 9)
		for f := range rule {
			rule[f] = []int{}
			if len(from) > 0 && g.r.intn(9) < 3 {
				for k := 0; k <= g.r.intn(2); k++ {
					rule[f] = append(rule[f], from[g.r.intn(len(from))])
				}
			}
		}
		return rule
	}
	for k := g.r.intn(3); k > 0; k-- {
		rs.in = append(rs.in, mk())
	}
	for k := g.r.intn(2); k > 0; k-- {
		rs.out = append(rs.out, mk())
	}
	return rs
}
func rulesRefs(r *rulesT) map[int]bool {
	out := map[int]bool{}
	for _, x := range append(append([][][]int{}, r.in...), r.out...) {
		for _, s := range concat(x) {
			out[s] = true
		}
	}
	return out
}

func (g *gen) genEp(pols, profs []int) *epT {
	g.ver++
	e := &epT{ver: g.ver, tiers: []tierT{}, profs: []int{}}
	ps := g.shuffle(g.subset(pols, 60))
	nt := g.r.intn(3)
	if nt > 0 {
		// every policy belongs to one tier; ingress lists it at most once; egress may repeat
		per := make([][]int, nt)
		for _, p := range ps {
			t := g.r.intn(nt)
			per[t] = append(per[t], p)
		}
		for t := 0; t < nt; t++ {
			ti := tierT{in: []int{}, out: []int{}}
			for _, p := range per[t] {
				switch g.r.intn(3) {
				case 0:
					ti.in = append(ti.in, p)
				case 1:
					ti.out = append(ti.out, p)
				default:
					ti.in = append(ti.in, p)
					ti.out = append(ti.out, p)
					g.tags["ep:policy-both-directions"] = true
				}
			}
			if len(ti.out) > 0 && g.r.intn(6) == 0 {
				ti.out = append(ti.out, ti.out[0])
				g.tags["ep:egress-repeat"] = true
			}
			e.tiers = append(e.tiers, ti)
		}
	}
	e.profs = g.shuffle(g.subset(profs, 50))
	return e
}

func (g *gen) polUsed(p int) bool {
	for _, e := range g.eps {
		for _, t := range e.tiers {
			for _, q := range append(append([]int{}, t.in...), t.out...) {
				if q == p {
					return true
				}
			}
		}
	}
	return false
}
func (g *gen) profUsed(f int) bool {
	for _, e := range g.eps {
		for _, q := range e.profs {
			if q == f {
				return true
			}
		}
	}
	return false
}
func (g *gen) setUsed(s int) bool {
	for _, r := range g.pols {
		if rulesRefs(r)[s] {
			return true
		}
	}
	for _, r := range g.profs {
		if rulesRefs(r)[s] {
			return true
		}
	}
	return false
}
func (g *gen) members() []int {
	var out []int
	for k := g.r.intn(4); k > 0; k-- {
		out = append(out, g.r.intn(nM))
	}
	if out == nil {
		out = []int{}
	}
	return out
}

// one operation that respects the contract
func (g *gen) validOp() *opT {
	for {
		k := g.r.intn(100)
		if g.nops < 6 && g.r.intn(3) > 0 {
			// the calculation graph sends IP sets, then policies/profiles, before the endpoints that use them
			k = []int{70, 72, 75, 45, 50, 60, 62}[g.r.intn(7)]
		}
		g.nops++
		switch {
		case k < 13:
			w := g.r.intn(nW)
			g.nextUID++
			if u, ok := g.conn[w]; ok {
				g.oldUIDs[w] = append(g.oldUIDs[w], u)
				g.tags["join:replaces-connection"] = true
			}
			g.conn[w] = g.nextUID
			return &opT{kind: "OJoin", a: w, b: g.nextUID}
		case k < 19:
			w := g.r.intn(nW)
			u, ok := g.conn[w]
			if ok && g.r.intn(4) > 0 {
				delete(g.conn, w)
				g.oldUIDs[w] = append(g.oldUIDs[w], u)
				return &opT{kind: "OLeave", a: w, b: u}
			}
			if olds := g.oldUIDs[w]; len(olds) > 0 {
				g.tags["leave:stale-uid"] = true
				return &opT{kind: "OLeave", a: w, b: olds[g.r.intn(len(olds))]}
			}
		case k < 22:
			return &opT{kind: "OInSync"}
		case k < 37:
			w := g.r.intn(nW)
			e := g.genEp(keysOf(g.pols), keysOf(g.profs))
			g.eps[w] = e
			return &opT{kind: "OWepUpdate", a: w, ep: e}
		case k < 41:
			if ws := keysOf(g.eps); len(ws) > 0 {
				w := ws[g.r.intn(len(ws))]
				delete(g.eps, w)
				delete(g.conn, w) // the processor closes the stream
				return &opT{kind: "OWepRemove", a: w}
			}
		case k < 53:
			p := g.r.intn(nP)
			r := g.genRules(keysOf(g.ips))
			g.pols[p] = r
			return &opT{kind: "OPolUpdate", a: p, rules: r}
		case k < 56:
			if ps := keysOf(g.pols); len(ps) > 0 {
				p := ps[g.r.intn(len(ps))]
				if !g.polUsed(p) {
					delete(g.pols, p)
					return &opT{kind: "OPolRemove", a: p}
				}
			}
		case k < 65:
			f := g.r.intn(nF)
			r := g.genRules(keysOf(g.ips))
			g.profs[f] = r
			return &opT{kind: "OProfUpdate", a: f, rules: r}
		case k < 68:
			if fs := keysOf(g.profs); len(fs) > 0 {
				f := fs[g.r.intn(len(fs))]
				if !g.profUsed(f) {
					delete(g.profs, f)
					return &opT{kind: "OProfRemove", a: f}
				}
			}
		case k < 78:
			s := g.r.intn(nS)
			g.ips[s] = true
			return &opT{kind: "OIPSetUpdate", a: s, l1: g.members()}
		case k < 84:
			if ss := keysOf(g.ips); len(ss) > 0 {
				return &opT{kind: "OIPSetDelta", a: ss[g.r.intn(len(ss))], l1: g.members(), l2: g.members()}
			}
		case k < 87:
			if ss := keysOf(g.ips); len(ss) > 0 {
				s := ss[g.r.intn(len(ss))]
				if !g.setUsed(s) {
					delete(g.ips, s)
					return &opT{kind: "OIPSetRemove", a: s}
				}
			}
		case k < 91:
			g.ver++
			a := g.r.intn(nA)
			g.sas[a] = true
			return &opT{kind: "OSAUpdate", a: a, b: g.ver}
		case k < 93:
			return &opT{kind: "OSARemove", a: g.r.intn(nA)}
		case k < 97:
			g.ver++
			n := g.r.intn(nN)
			g.nss[n] = true
			return &opT{kind: "ONSUpdate", a: n, b: g.ver}
		default:
			return &opT{kind: "ONSRemove", a: g.r.intn(nN)}
		}
	}
}

// one operation that breaks the contract (malformed stream); nil if none applies right now
func (g *gen) brokenOp() *opT {
	switch g.r.intn(7) {
	case 0: // endpoint lists a policy that was never sent
		for p := 0; p < nP; p++ {
			if _, ok := g.pols[p]; !ok {
				g.ver++
				w := g.r.intn(nW)
				e := &epT{ver: g.ver, tiers: []tierT{{in: []int{p}, out: []int{}}}, profs: []int{}}
				g.eps[w] = e
				g.tags["broken:ep-unknown-policy"] = true
				return &opT{kind: "OWepUpdate", a: w, ep: e}
			}
		}
	case 1: // a policy listed twice in ingress
		if ps := keysOf(g.pols); len(ps) > 0 {
			g.ver++
			w := g.r.intn(nW)
			e := &epT{ver: g.ver, tiers: []tierT{{in: []int{ps[0], ps[0]}, out: []int{}}}, profs: []int{}}
			g.eps[w] = e
			g.tags["broken:ep-duplicate-ingress"] = true
			return &opT{kind: "OWepUpdate", a: w, ep: e}
		}
	case 2: // policy removed while in use
		for _, p := range keysOf(g.pols) {
			if g.polUsed(p) {
				delete(g.pols, p)
				g.tags["broken:policy-removed-in-use"] = true
				return &opT{kind: "OPolRemove", a: p}
			}
		}
	case 3: // policy mentions an IP set that was never sent
		for s := 0; s < nS; s++ {
			if !g.ips[s] {
				p := g.r.intn(nP)
				r := g.genRules(nil)
				r.in = append(r.in, [][]int{{s}, {}, {}, {}, {}, {}, {}, {}, {}})
				g.pols[p] = r
				g.tags["broken:policy-unknown-ipset"] = true
				return &opT{kind: "OPolUpdate", a: p, rules: r}
			}
		}
	case 4: // IP set removed while in use
		for _, s := range keysOf(g.ips) {
			if g.setUsed(s) {
				delete(g.ips, s)
				g.tags["broken:ipset-removed-in-use"] = true
				return &opT{kind: "OIPSetRemove", a: s}
			}
		}
	case 5: // delta for an unknown IP set
		for s := 0; s < nS; s++ {
			if !g.ips[s] {
				g.tags["broken:delta-unknown-ipset"] = true
				return &opT{kind: "OIPSetDelta", a: s, l1: g.members(), l2: g.members()}
			}
		}
	case 6: // remove of an unknown endpoint
		for w := 0; w < nW; w++ {
			if _, ok := g.eps[w]; !ok {
				g.tags["broken:remove-unknown-endpoint"] = true
				return &opT{kind: "OWepRemove", a: w}
			}
		}
	}
	return nil
}


// ---- scripted histories: fixed scenarios run before the random ones ---------------------------------------------------

func rl(ver int, in, out [][][]int) *rulesT { return &rulesT{ver: ver, in: in, out: out} }
func fld(k int, ids ...int) [][]int {
	r := make([][]int, 9)
	for i := range r {
		r[i] = []int{}
	}
	r[k] = ids
	return r
}
func fld2(k1 int, a int, k2 int, b int) [][]int {
	r := fld(k1, a)
	r[k2] = []int{b}
	return r
}
func ep(ver int, profs []int, tiers ...tierT) *epT {
	if tiers == nil {
		tiers = []tierT{}
	}
	return &epT{ver: ver, tiers: tiers, profs: profs}
}

func scripts() [][]*opT {
	o := func(kind string, a, b int) *opT { return &opT{kind: kind, a: a, b: b} }
	set := func(s int, m ...int) *opT { return &opT{kind: "OIPSetUpdate", a: s, l1: append([]int{}, m...)} }
	pol := func(p int, r *rulesT) *opT { return &opT{kind: "OPolUpdate", a: p, rules: r} }
	prof := func(p int, r *rulesT) *opT { return &opT{kind: "OProfUpdate", a: p, rules: r} }
	wep := func(w int, e *epT) *opT { return &opT{kind: "OWepUpdate", a: w, ep: e} }
	none := [][][]int{}
	return [][]*opT{
		// every rule field carries a reference; a policy update drops and adds references while the workload is connected
		{set(0, 1, 2), set(1, 3), set(2), set(3, 4, 4, 0),
			pol(0, rl(1, [][][]int{fld2(0, 0, 8, 1)}, [][][]int{fld2(1, 0, 7, 1)})),
			prof(0, rl(2, [][][]int{fld2(2, 2, 6, 2)}, [][][]int{fld2(3, 2, 5, 2), fld(4, 2)})),
			wep(0, ep(3, []int{0}, tierT{in: []int{0}, out: []int{0}})),
			o("OSAUpdate", 0, 4), o("ONSUpdate", 1, 5), o("OJoin", 0, 1), o("OInSync", 0, 0),
			pol(0, rl(6, [][][]int{fld(4, 3)}, none)), set(3, 5), {kind: "OIPSetDelta", a: 2, l1: []int{1, 3}, l2: []int{3}},
			prof(0, rl(7, none, [][][]int{fld(8, 3)})), set(0, 9), o("OIPSetRemove", 1, 0),
			wep(0, ep(8, []int{}, tierT{in: []int{}, out: []int{0}})), wep(0, ep(9, []int{})),
			o("OLeave", 0, 1), o("OSAUpdate", 0, 10), o("OJoin", 0, 2), o("OWepRemove", 0, 0), o("OJoin", 0, 3), o("OLeave", 0, 2)},
		// two workloads sharing a policy, a join before the endpoint is known, a re-join over a live connection, stale leave
		{o("OJoin", 1, 1), set(0, 1), pol(1, rl(1, [][][]int{fld(8, 0)}, none)), pol(2, rl(2, none, none)),
			wep(0, ep(3, []int{}, tierT{in: []int{1}, out: []int{}}, tierT{in: []int{}, out: []int{2, 2}})),
			wep(1, ep(4, []int{}, tierT{in: []int{2}, out: []int{}})),
			o("OJoin", 0, 2), o("OJoin", 0, 3), pol(2, rl(5, [][][]int{fld(5, 0)}, none)), set(0, 2, 3),
			o("OLeave", 0, 2), o("ONSUpdate", 0, 6), pol(1, rl(7, none, none)), o("ONSRemove", 0, 0),
			wep(1, ep(8, []int{})), {kind: "OIPSetDelta", a: 0, l1: []int{}, l2: []int{2}}, o("OInSync", 0, 0), o("OInSync", 0, 0),
			wep(0, ep(9, []int{}, tierT{in: []int{2}, out: []int{}})), o("OLeave", 1, 1), o("OPolRemove", 1, 0), o("OLeave", 0, 3),
			pol(2, rl(10, none, none)), o("OIPSetRemove", 0, 0)},
	}
}


// ---- the message splitters on lists around MaxMembersPerMessage --------------------------------------------------------

type run struct{ v, c int }

func rleCoq(rs []run) string {
	ss := make([]string, len(rs))
	for i, r := range rs {
		ss[i] = fmt.Sprintf("(%d,%d)", r.v, r.c)
	}
	return "[" + strings.Join(ss, ";") + "]"
}
func rleOf(xs []string) []run {
	var out []run
	for _, x := range xs {
		v := memberNum(0, x)
		if n := len(out); n > 0 && out[n-1].v == v {
			out[n-1].c++
		} else {
			out = append(out, run{v, 1})
		}
	}
	return out
}
func expandRuns(rs []run) []string {
	var out []string
	for _, r := range rs {
		for i := 0; i < r.c; i++ {
			out = append(out, memberName(0, r.v))
		}
	}
	return out
}

// total members in runs of random length, values base..base+4, neighbours different
func genRuns(r *rng, total, base int) []run {
	out := []run{}
	v := r.intn(5)
	for total > 0 {
		c := 1 + r.intn(total)
		if r.intn(3) == 0 && total > 10 && len(out) < 12 {
			c = 1 + r.intn(10)
		}
		out = append(out, run{base + v, c})
		total -= c
		v = (v + 1 + r.intn(4)) % 5
	}
	return out
}

func splitCase(r *rng, upd bool, na, nr int) line {
	adds, dels := genRuns(r, na, 0), []run{}
	if !upd {
		dels = genRuns(r, nr, 5)
	}
	var msgs []*proto.ToDataplane
	if upd {
		msgs = policysync.VerifSplitIPSetUpdate(&proto.IPSetUpdate{Id: setName(0), Type: proto.IPSetUpdate_IP, Members: expandRuns(adds)})
	} else {
		msgs = policysync.VerifSplitIPSetDeltaUpdate(&proto.IPSetDeltaUpdate{Id: setName(0), AddedMembers: expandRuns(adds), RemovedMembers: expandRuns(dels)})
	}
	var obs []string
	for _, m := range msgs {
		switch pl := m.Payload.(type) {
		case *proto.ToDataplane_IpsetUpdate:
			id := 0
			if pl.IpsetUpdate.GetId() != setName(0) || pl.IpsetUpdate.GetType() != proto.IPSetUpdate_IP {
				id = 1
			}
			if id != 0 {
				obs = append(obs, "(true, ([(99,1)], []))")
				continue
			}
			obs = append(obs, fmt.Sprintf("(true, (%s, []))", rleCoq(rleOf(pl.IpsetUpdate.GetMembers()))))
		case *proto.ToDataplane_IpsetDeltaUpdate:
			if pl.IpsetDeltaUpdate.GetId() != setName(0) {
				obs = append(obs, "(true, ([(98,1)], []))")
				continue
			}
			obs = append(obs, fmt.Sprintf("(false, (%s, %s))", rleCoq(rleOf(pl.IpsetDeltaUpdate.GetAddedMembers())), rleCoq(rleOf(pl.IpsetDeltaUpdate.GetRemovedMembers()))))
		default:
			obs = append(obs, "(true, ([(97,1)], []))")
		}
	}
	b := "false"
	kind := "split:delta"
	if upd {
		b = "true"
		kind = "split:update"
	}
	coq := fmt.Sprintf("CSplit (mkSplit %d %s %s %s [%s])", policysync.MaxMembersPerMessage, b, rleCoq(adds), rleCoq(dels), strings.Join(obs, "; "))
	tags := []string{kind, fmt.Sprintf("split:messages:%d", min(len(msgs), 4))}
	return line{Coq: coq, NT: len(msgs) >= 2, Key: coq,
		Sample: map[string]any{"kind": kind, "added": na, "removed": nr, "messages": len(msgs)}, Tags: tags}
}

func splitCases(r *rng, enc *json.Encoder) {
	N := policysync.MaxMembersPerMessage
	for _, k := range []int{0, 5, N, N + 1, 2*N + 3} {
		_ = enc.Encode(splitCase(r, true, k, 0))
	}
	for _, ar := range [][2]int{{0, 0}, {3, 2}, {N + 1, 5}, {N, 1}, {5, N + 1}, {N + 1, N + 1},
		{N - 3, 2}, {N - 3, 4}, {r.intn(2 * N), r.intn(2 * N)}} {
		_ = enc.Encode(splitCase(r, false, ar[0], ar[1]))
	}
}

// ---- running the real Processor --------------------------------------------------------------------------------------

type chanObs struct {
	c      chan *proto.ToDataplane
	step   int
	w      int
	closed int // -1 = open
	deltas []string
	nmsgs  int
}

func runOp(p *policysync.Processor, o *opT, c chan *proto.ToDataplane) (panicked bool) {
	defer func() {
		if r := recover(); r != nil {
			panicked = true
		}
	}()
	switch o.kind {
	case "OJoin":
		p.VerifHandleJoin(policysync.JoinRequest{
			JoinMetadata: policysync.JoinMetadata{EndpointID: types.ProtoToWorkloadEndpointID(wepID(o.a)), JoinUID: uint64(o.b)}, C: c})
	case "OLeave":
		p.VerifHandleLeave(policysync.LeaveRequest{
			JoinMetadata: policysync.JoinMetadata{EndpointID: types.ProtoToWorkloadEndpointID(wepID(o.a)), JoinUID: uint64(o.b)}})
	default:
		p.VerifHandleDataplane(o.update())
	}
	return false
}

func main() {
	n := flag.Int("n", 100, "cases")
	seed := flag.Uint64("seed", 1, "seed")
	flag.Parse()
	logrus.SetOutput(io.Discard)
	logrus.SetLevel(logrus.PanicLevel)
	r := &rng{s: *seed}
	enc := json.NewEncoder(os.Stdout)
	splitCases(r, enc)
	for i := 0; i < *n; i++ {
		g := &gen{r: r, eps: map[int]*epT{}, pols: map[int]*rulesT{}, profs: map[int]*rulesT{}, ips: map[int]bool{},
			sas: map[int]bool{}, nss: map[int]bool{}, conn: map[int]int{}, oldUIDs: map[int][]int{}, tags: map[string]bool{}}
		nops := 12 + r.intn(24)
		breakAt := -1
		if r.intn(8) == 0 {
			breakAt = 4 + r.intn(nops-4)
		}
		var ops []*opT
		if sc := scripts(); i < len(sc) {
			ops = sc[i]
			breakAt = -1
			g.tags["stream:scripted"] = true
		} else {
			for k := 0; k < nops; k++ {
				var o *opT
				if k == breakAt {
					o = g.brokenOp()
				}
				if o == nil {
					o = g.validOp()
				}
				ops = append(ops, o)
			}
		}

		p := policysync.NewProcessor(make(chan any))
		var chans []*chanObs
		panicAt := -1
		sentToLive := 0
		for k, o := range ops {
			var co *chanObs
			var c chan *proto.ToDataplane
			if o.kind == "OJoin" {
				c = make(chan *proto.ToDataplane, 4096)
				co = &chanObs{c: c, step: k, w: o.a, closed: -1}
			}
			if runOp(p, o, c) {
				panicAt = k
				break // whatever the panicking operation sent is not an observation
			}
			if co != nil {
				chans = append(chans, co)
			}
			for _, ch := range chans {
				if ch.closed >= 0 {
					continue
				}
				var ms []string
			drain:
				for {
					select {
					case m, ok := <-ch.c:
						if !ok {
							ch.closed = k
							break drain
						}
						ms = append(ms, msgCoq(m))
					default:
						break drain
					}
				}
				if len(ms) > 0 {
					ch.deltas = append(ch.deltas, fmt.Sprintf("(%d, [%s])", k, strings.Join(ms, "; ")))
					ch.nmsgs += len(ms)
					if ch.step != k {
						sentToLive += len(ms)
					}
				}
			}
		}

		var opStrs, chStrs []string
		for _, o := range ops {
			opStrs = append(opStrs, o.coq())
		}
		total := 0
		for _, ch := range chans {
			cl := "None"
			if ch.closed >= 0 {
				cl = fmt.Sprintf("(Some %d)", ch.closed)
			}
			chStrs = append(chStrs, fmt.Sprintf("mkCh %d %d %s [%s]", ch.step, ch.w, cl, strings.Join(ch.deltas, "; ")))
			total += ch.nmsgs
		}
		pk := "None"
		if panicAt >= 0 {
			pk = fmt.Sprintf("(Some %d)", panicAt)
			g.tags["panic"] = true
		}
		coq := fmt.Sprintf("CHist (mkCase [%s] %s [%s])", strings.Join(opStrs, "; "), pk, strings.Join(chStrs, "; "))
		tags := []string{fmt.Sprintf("joins:%d", min(len(chans), 4))}
		if breakAt >= 0 {
			tags = append(tags, "stream:malformed")
		} else {
			tags = append(tags, "stream:valid")
		}
		for t := range g.tags {
			tags = append(tags, t)
		}
		sort.Strings(tags)
		_ = enc.Encode(line{Coq: coq, NT: len(chans) >= 2 && total >= 6 && sentToLive >= 1,
			Key:    strings.Join(opStrs, ";"),
			Sample: map[string]any{"ops": opStrs, "panic": pk, "channels": chStrs},
			Tags:   tags})
	}
}
