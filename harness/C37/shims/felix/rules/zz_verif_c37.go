//go:build verif

package rules

// VerifMaybeHash exposes the NFLOG prefix shortener to the C37 driver.
func VerifMaybeHash(prefix string) string { return maybeHash(prefix) }
