//go:build verif

// C37 correspondence driver: runs the real name builders (hash.GetLengthLimitedID, hash.MakeUniqueID,
// types.PolicyID.ID, rules.PolicyChainName / ProfileChainName / EndpointChainName,
// rules.PolicyGroup.ChainName, ipsets.IPVersionConfig.NameForMainIPSet / NameForTempIPSet) on generated
// clusters of identities (near the length limit, starting with the shortening marker, designed to
// collide) and prints one JSON line per case carrying the case as a Coq term.
package main

import (
	"crypto/sha1"
	"crypto/sha256"
	"crypto/sha3"
	"encoding/base64"
	"encoding/hex"
	"encoding/json"
	"flag"
	"fmt"
	"io"
	"os"
	"strconv"
	"strings"

	"github.com/sirupsen/logrus"

	"github.com/projectcalico/calico/felix/ipsets"
	"github.com/projectcalico/calico/felix/nftables"
	"github.com/projectcalico/calico/felix/rules"
	"github.com/projectcalico/calico/felix/types"
	"github.com/projectcalico/calico/libcalico-go/lib/backend/k8s/conversion"
	"github.com/projectcalico/calico/libcalico-go/lib/hash"
	"github.com/projectcalico/calico/libcalico-go/lib/ipam/vmipam"
)

type rng struct{ s uint64 }

func (r *rng) next() uint64 {
	r.s += 0x9e3779b97f4a7c15
	z := r.s
	z = (z ^ (z >> 30)) * 0xbf58476d1ce4e5b9
	z = (z ^ (z >> 27)) * 0x94d049bb133111eb
	return z ^ (z >> 31)
}
func (r *rng) intn(n int) int { return int(r.next() % uint64(n)) }
func (r *rng) pick(xs []string) string {
	return xs[r.intn(len(xs))]
}

type line struct {
	Coq    string         `json:"coq"`
	NT     bool           `json:"nt"`
	Key    string         `json:"key"`
	Sample map[string]any `json:"sample,omitempty"`
	Tags   []string       `json:"tags"`
}

// ---------- Coq term printing ----------

func cb(s string) string {
	if len(s) == 0 {
		return "[]"
	}
	plain := true
	for i := 0; i < len(s); i++ {
		if (s[i] < 32 && s[i] != 10) || s[i] > 126 {
			plain = false
		}
	}
	if plain {
		// Coq string literal, turned into bytes by Model.bs (much cheaper to parse than a numeral list)
		return "(bs \"" + strings.ReplaceAll(s, "\"", "\"\"") + "\")"
	}
	var b strings.Builder
	b.WriteString("[")
	for i := 0; i < len(s); i++ {
		if i > 0 {
			b.WriteByte(';')
		}
		b.WriteString(strconv.Itoa(int(s[i])))
	}
	b.WriteString("]%N")
	return b.String()
}

func cbool(b bool) string {
	if b {
		return "true"
	}
	return "false"
}

func copt(s *string) string {
	if s == nil {
		return "None"
	}
	return "(Some " + cb(*s) + ")"
}

func cpid(p types.PolicyID) string {
	return fmt.Sprintf("{| p_name := %s; p_ns := %s; p_kind := %s |}", cb(p.Name), cb(p.Namespace), cb(p.Kind))
}

// ---------- a case under construction ----------

type obs struct {
	id, key     string
	name, again *string
	f           func() string
}

type caseT struct {
	tbl       []string
	tblSeen   map[string]bool
	obs       []obs
	shortened int
	tags      map[string]bool
	sample    []string
}

func newCase() *caseT {
	return &caseT{tblSeen: map[string]bool{}, tags: map[string]bool{}}
}

func (c *caseT) hashEntry(kind int, in string) {
	k := fmt.Sprintf("%d|%s", kind, in)
	if c.tblSeen[k] {
		return
	}
	c.tblSeen[k] = true
	var out string
	switch kind {
	case 0:
		h := sha256.Sum256([]byte(in))
		out = base64.RawURLEncoding.EncodeToString(h[:])
	case 1:
		h := sha256.Sum224([]byte(in))
		out = base64.RawURLEncoding.EncodeToString(h[:])
	case 2:
		h := sha3.Sum224([]byte(in))
		out = base64.RawURLEncoding.EncodeToString(h[:])
	case 3:
		h := sha1.Sum([]byte(in))
		out = hex.EncodeToString(h[:])
	}
	c.tbl = append(c.tbl, fmt.Sprintf("(%d%%N, %s, %s)", kind, cb(in), cb(out)))
}

func runName(f func() string) (res *string) {
	defer func() {
		if r := recover(); r != nil {
			res = nil
		}
	}()
	s := f()
	return &s
}

// add runs the real function now; the second call ("again") is made at the end of the case, after every other
// identity of the case has been named, in reverse order (finish), so that a name depending on what the process named
// earlier shows up as name != again or as two identities sharing a name.
func (c *caseT) add(id, key string, f func() string) {
	a := runName(f)
	c.obs = append(c.obs, obs{id: id, key: key, name: a, f: f})
	if len(c.sample) < 12 {
		if a == nil {
			c.sample = append(c.sample, key+" -> PANIC")
		} else {
			c.sample = append(c.sample, key+" -> "+*a)
		}
	}
}

func (c *caseT) finish() {
	for i := len(c.obs) - 1; i >= 0; i-- {
		c.obs[i].again = runName(c.obs[i].f)
	}
}

// hash-table entry a GetLengthLimitedID call may need
func (c *caseT) gllidHash(prefix, suffix string, max int) {
	if suffix == "" {
		suffix = "_"
	}
	if len(prefix)+len(suffix) >= max || suffix[0] == '_' {
		c.hashEntry(0, suffix)
	}
	if len(prefix)+len(suffix) >= max {
		c.shortened++
	}
	if len(prefix)+len(suffix) > max && max-1-len(prefix) > 43 {
		c.tags["beyond-hash"] = true
	}
}

func maxChain(nft bool) int {
	if nft {
		return 256
	}
	return 28
}

func (c *caseT) raw(p, s string, max int) {
	c.gllidHash(p, s, max)
	c.add(fmt.Sprintf("IdRaw %s %s %d%%nat", cb(p), cb(s), max), fmt.Sprintf("raw(%q,%q,%d)", p, s, max),
		func() string { return hash.GetLengthLimitedID(p, s, max) })
}

func (c *caseT) polText(p types.PolicyID) {
	c.add("IdPolText "+cpid(p), fmt.Sprintf("poltext(%q,%q,%q)", p.Kind, p.Namespace, p.Name),
		func() string { q := p; return q.ID() })
}

func (c *caseT) policy(inb, nft bool, p types.PolicyID) {
	pfx := rules.PolicyOutboundPfx
	if inb {
		pfx = rules.PolicyInboundPfx
	}
	c.gllidHash(string(pfx), p.ID(), maxChain(nft))
	c.add(fmt.Sprintf("IdPolicy %s %s %s", cbool(inb), cbool(nft), cpid(p)),
		fmt.Sprintf("policy(%v,%v,%q,%q,%q)", inb, nft, p.Kind, p.Namespace, p.Name),
		func() string { q := p; return rules.PolicyChainName(pfx, &q, nft) })
}

func (c *caseT) profile(inb, nft bool, name string) {
	pfx := rules.ProfileOutboundPfx
	if inb {
		pfx = rules.ProfileInboundPfx
	}
	c.gllidHash(string(pfx), name, maxChain(nft))
	c.add(fmt.Sprintf("IdProfile %s %s %s", cbool(inb), cbool(nft), cb(name)),
		fmt.Sprintf("profile(%v,%v,%q)", inb, nft, name),
		func() string { return rules.ProfileChainName(pfx, &types.ProfileID{Name: name}, nft) })
}

var endpointPrefixes = []string{rules.WorkloadToEndpointPfx, rules.WorkloadFromEndpointPfx, rules.SetEndPointMarkPfx,
	rules.HostToEndpointPfx, rules.HostFromEndpointPfx, rules.HostToEndpointForwardPfx, rules.HostFromEndpointForwardPfx,
	rules.WorkloadARPPfx}

func (c *caseT) endpoint(pfx, iface string, nft bool) {
	c.gllidHash(pfx, iface, maxChain(nft))
	c.add(fmt.Sprintf("IdEndpoint %s %s %s", cb(pfx), cb(iface), cbool(nft)),
		fmt.Sprintf("endpoint(%q,%q,%v)", pfx, iface, nft),
		func() string { return rules.EndpointChainName(pfx, iface, maxChain(nft)) })
}

func (c *caseT) group(inb bool, sel string, pols []types.PolicyID) {
	dir := "outbound"
	if inb {
		dir = "inbound"
	}
	content := sel + "\n" + dir + "\n" + strconv.Itoa(len(pols)) + "\n"
	var cps, keys []string
	for _, p := range pols {
		content += p.String() + "\n"
		cps = append(cps, cpid(p))
		keys = append(keys, fmt.Sprintf("%q/%q/%q", p.Kind, p.Namespace, p.Name))
	}
	c.hashEntry(2, content)
	c.shortened++
	c.add(fmt.Sprintf("IdGroup %s %s [%s]", cbool(inb), cb(sel), strings.Join(cps, "; ")),
		fmt.Sprintf("group(%v,%q,[%s])", inb, sel, strings.Join(keys, ",")),
		func() string {
			g := &rules.PolicyGroup{Direction: rules.PolicyDirection(dir), Selector: sel}
			for i := range pols {
				q := pols[i]
				g.Policies = append(g.Policies, &q)
			}
			return g.ChainName()
		})
}

var v4cfg = ipsets.NewIPVersionConfig(ipsets.IPFamilyV4, ipsets.IPSetNamePrefix, nil, nil)
var v6cfg = ipsets.NewIPVersionConfig(ipsets.IPFamilyV6, ipsets.IPSetNamePrefix, nil, nil)

func cfg(v6 bool) *ipsets.IPVersionConfig {
	if v6 {
		return v6cfg
	}
	return v4cfg
}

func (c *caseT) mainStatic(v6 bool, id string) {
	if len(id) > 25 {
		c.shortened++
	}
	c.add(fmt.Sprintf("IdMainSet %s (SetStatic %s)", cbool(v6), cb(id)), fmt.Sprintf("mainset(%v,%q)", v6, id),
		func() string { return cfg(v6).NameForMainIPSet(id) })
}

func (c *caseT) mainHashed(v6 bool, tag, content string) {
	c.hashEntry(1, tag+":"+content)
	c.shortened++
	c.add(fmt.Sprintf("IdMainSet %s (SetHashed %s %s)", cbool(v6), cb(tag), cb(content)),
		fmt.Sprintf("mainset(%v,%q:%q)", v6, tag, content),
		func() string { return cfg(v6).NameForMainIPSet(hash.MakeUniqueID(tag, content)) })
}

func (c *caseT) unique(tag, content string) {
	c.hashEntry(1, tag+":"+content)
	c.add(fmt.Sprintf("IdUnique %s %s", cb(tag), cb(content)), fmt.Sprintf("unique(%q,%q)", tag, content),
		func() string { return hash.MakeUniqueID(tag, content) })
}

func (c *caseT) temp(v6 bool, n uint64) {
	c.add(fmt.Sprintf("IdTempSet %s %d%%N", cbool(v6), n), fmt.Sprintf("tempset(%v,%d)", v6, n),
		func() string { return cfg(v6).NameForTempIPSet(uint(n)) })
}

// ---------- further shorteners ----------

func (c *caseT) nftStatic(v6 bool, id string) {
	if len(id) > 25 {
		c.shortened++
	}
	c.add(fmt.Sprintf("IdNftSet %s (SetStatic %s)", cbool(v6), cb(id)), fmt.Sprintf("nftset(%v,%q)", v6, id),
		func() string { return nftables.LegalizeSetName(cfg(v6).NameForMainIPSet(id)) })
}

func (c *caseT) nftHashed(v6 bool, tag, content string) {
	c.hashEntry(1, tag+":"+content)
	c.shortened++
	c.add(fmt.Sprintf("IdNftSet %s (SetHashed %s %s)", cbool(v6), cb(tag), cb(content)),
		fmt.Sprintf("nftset(%v,%q:%q)", v6, tag, content),
		func() string { return nftables.LegalizeSetName(cfg(v6).NameForMainIPSet(hash.MakeUniqueID(tag, content))) })
}

func (c *caseT) nflog(text string) {
	if len(text) >= 63 {
		c.hashEntry(0, text)
		c.shortened++
	}
	c.add("IdNflog "+cb(text), fmt.Sprintf("nflog(%q)", text), func() string { return rules.VerifMaybeHash(text) })
}

func (c *caseT) nflogRule(action, owner, dir byte, idx int, p types.PolicyID) {
	text := fmt.Sprintf("%c%c%c%d|%s", action, owner, dir, idx, p.ID())
	if len(text) >= 63 {
		c.hashEntry(0, text)
		c.shortened++
	}
	c.add(fmt.Sprintf("IdNflogRule %d%%N %d%%N %d%%N %d%%N %s", action, owner, dir, idx, cpid(p)),
		fmt.Sprintf("nflogrule(%c%c%c,%d,%q,%q,%q)", action, owner, dir, idx, p.Kind, p.Namespace, p.Name),
		func() string {
			q := p
			return rules.CalculateNFLOGPrefixStr(rules.RuleAction(action), rules.RuleOwnerType(owner), rules.RuleDir(dir), idx, &q)
		})
}

var wepConv = conversion.NewWorkloadEndpointConverter()

func (c *caseT) veth(ns, pod string) {
	c.hashEntry(3, ns+"."+pod)
	c.shortened++
	c.add(fmt.Sprintf("IdVeth %s %s", cb(ns), cb(pod)), fmt.Sprintf("veth(%q,%q)", ns, pod),
		func() string { return wepConv.VethNameForWorkload(ns, pod) })
}

func (c *caseT) vmHandle(net, ns, vm string) {
	n := net
	if n == "" {
		n = "k8s-pod-network"
	}
	c.gllidHash(n+".vmi.", ns+"."+vm, 128)
	c.add(fmt.Sprintf("IdVMHandle %s %s %s", cb(net), cb(ns), cb(vm)), fmt.Sprintf("vmhandle(%q,%q,%q)", net, ns, vm),
		func() string { return vmipam.CreateVMHandleID(net, ns, vm) })
}

// the chains with fixed names, in the order of Model.static_chains
var staticChains = []string{rules.ChainFilterInput, rules.ChainFilterForward, rules.ChainFilterOutput, rules.ChainRawPrerouting,
	rules.ChainNATPostrouting, rules.ChainRawUntrackedFlows, rules.ChainRawBPFUntrackedPolicy, rules.ChainFailsafeIn,
	rules.ChainFailsafeOut, rules.ChainNATOutgoing, rules.ChainEgressDSCP, rules.ChainFIPDnat, rules.ChainFIPSnat,
	rules.ChainCIDRBlock, rules.ChainWorkloadToHost, rules.ChainFromWorkloadDispatch, rules.ChainToWorkloadDispatch,
	rules.ChainARPDispatch, rules.ChainDispatchToHostEndpoint, rules.ChainDispatchFromHostEndpoint,
	rules.ChainDispatchToHostEndpointForward, rules.ChainDispatchFromHostEndPointForward, rules.ChainDispatchSetEndPointMark,
	rules.ChainDispatchFromEndPointMark, rules.ChainForwardCheck, rules.ChainForwardEndpointMark,
	rules.ChainSetWireguardIncomingMark, rules.ChainRpfSkip, rules.RPFChain}

func (c *caseT) static(k int) {
	c.add(fmt.Sprintf("IdStaticChain %d%%nat", k), fmt.Sprintf("static(%d)", k), func() string { return staticChains[k] })
}

// staticCase: fixed chain names next to endpoint/profile/policy chains whose identity spells the rest of a fixed name
func staticCase(r *rng, c *caseT, withArpClash bool) {
	c.tags["theme:static"] = true
	nft := r.intn(2) == 0
	for i := 0; i < 6; i++ {
		k := r.intn(len(staticChains))
		c.static(k)
		rest := strings.TrimPrefix(staticChains[k], "cali-")
		c.endpoint(r.pick(endpointPrefixes), rest, nft)
		c.profile(r.intn(2) == 0, nft, rest)
		// every way of cutting the fixed name into a family prefix and an interface name
		for _, p := range endpointPrefixes {
			if strings.HasPrefix(staticChains[k], p) && len(staticChains[k]) > len(p) {
				if staticChains[k] == rules.ChainARPDispatch && p == rules.WorkloadARPPfx && !withArpClash {
					continue
				}
				c.tags["static-cut"] = true
				c.endpoint(p, staticChains[k][len(p):], nft)
			}
		}
	}
	for _, p := range endpointPrefixes {
		if p != rules.WorkloadARPPfx {
			c.endpoint(p, "dispatch", nft)
		}
	}
	if withArpClash {
		c.tags["arp-dispatch-clash"] = true
		c.static(17)
		c.endpoint(rules.WorkloadARPPfx, "dispatch", nft)
	}
}

// ---------- generators ----------

const nameChars = "abcdefghijklmnopqrstuvwxyz0123456789-."
const ifaceChars = "abcdefghijklmnopqrstuvwxyzABCDEFGHIJKLMNOPQRSTUVWXYZ0123456789_.-"

func randStr(r *rng, alphabet string, n int) string {
	b := make([]byte, n)
	for i := range b {
		b[i] = alphabet[r.intn(len(alphabet))]
	}
	return string(b)
}

// a resource name of exactly n chars that passes the name validator's character set
func resName(r *rng, n int) string {
	if n <= 0 {
		return ""
	}
	b := []byte(randStr(r, nameChars, n))
	b[0] = nameChars[r.intn(36)]
	b[n-1] = nameChars[r.intn(36)]
	return string(b)
}

func b64sha256(s string) string {
	h := sha256.Sum256([]byte(s))
	return base64.RawURLEncoding.EncodeToString(h[:])
}

// suffixes clustered around the shortening boundary for (prefix,max), including the value that
// would clash with a shortened name if the marker test were missing, and near-identical long ones.
func boundarySuffixes(r *rng, plen, max int, alphabet string) []string {
	room := max - plen
	if room < 0 {
		room = 0
	}
	var out []string
	long := randStr(r, alphabet, room+1+r.intn(6))
	out = append(out, long)
	// same long prefix, different tail (a truncating implementation would merge them)
	out = append(out, long[:len(long)-1]+"#", long+"x")
	// the text a shortened `long` turns into, used as an identity itself
	if room >= 2 {
		// (at every limit: the shortened form carries min(room-1, 43) digest characters, so under the
		// nftables limit the clashing identity is "_" + the whole 43-character digest text)
		h := b64sha256(long)
		k := room - 1
		if k > len(h) {
			k = len(h)
		}
		out = append(out, "_"+h[:k])
		// same for the other over-long members of the cluster
		h2 := b64sha256(long + "x")
		out = append(out, "_"+h2[:k])
		if k == len(h) && room-1 > k {
			out = append(out, "_"+randStr(r, alphabet, k))   // exactly as long as a shortened name, starts with marker
			out = append(out, "_"+randStr(r, alphabet, k-1)) // one shorter
			out = append(out, "_"+randStr(r, alphabet, k+1)) // one longer
		}
		out = append(out, "_"+randStr(r, alphabet, room-1)) // exact fit, starts with marker
		out = append(out, "_"+randStr(r, alphabet, room-2)) // one short of the limit, starts with marker
	}
	if room >= 1 {
		out = append(out, randStr(r, alphabet, room))   // exact fit
		out = append(out, randStr(r, alphabet, room-1)) // just fits
	}
	out = append(out, randStr(r, alphabet, room+1))
	if r.intn(3) == 0 {
		out = append(out, "", "_")
	} else if r.intn(2) == 0 {
		out = append(out, "_")
	}
	if r.intn(2) == 0 {
		out = append(out, "__", "_"+long)
	}
	return out
}

var kinds = []string{"NetworkPolicy", "GlobalNetworkPolicy", "StagedNetworkPolicy", "StagedGlobalNetworkPolicy",
	"StagedKubernetesNetworkPolicy", "KubernetesNetworkPolicy", "KubernetesClusterNetworkPolicy"}
var shorts = []string{"np", "gnp", "snp", "sgnp", "sknp", "knp", "kcnp"}

func namespaced(kind string) bool {
	switch kind {
	case "NetworkPolicy", "StagedNetworkPolicy", "StagedKubernetesNetworkPolicy", "KubernetesNetworkPolicy":
		return true
	}
	return false
}

// valid policy IDs whose ID() text has length around `target`
func genPolicy(r *rng, target int) types.PolicyID {
	ki := r.intn(len(kinds))
	p := types.PolicyID{Kind: kinds[ki]}
	rest := target - len(shorts[ki]) - 1
	if namespaced(p.Kind) {
		nsLen := 1 + r.intn(8)
		if rest-nsLen-1 < 1 {
			nsLen = 1
		}
		p.Namespace = resName(r, nsLen)
		rest -= nsLen + 1
	}
	if rest < 1 {
		rest = 1
	}
	p.Name = resName(r, rest)
	return p
}

// colliderCase: for an over-long identity X at (prefix, limit), the identity whose text is exactly what X's
// shortened name carries after the prefix ("_" + digest characters) -- through GetLengthLimitedID directly, as a
// profile name and as an interface name, under the iptables, ipset-sized and nftables limits.
func colliderCase(r *rng, c *caseT, which int) {
	c.tags["theme:collider"] = true
	carried := func(prefix, x string, max int) string {
		k := max - 1 - len(prefix)
		h := b64sha256(x)
		if k > len(h) {
			k = len(h)
		}
		return "_" + h[:k]
	}
	nft := which%2 == 0
	if nft {
		c.tags["limit:nft"] = true
	}
	max := maxChain(nft)
	switch which % 3 {
	case 0: // profiles (ksa.<ns>.<name> style, too long for the limit)
		for _, inb := range []bool{true, false} {
			pfx := string(rules.ProfileOutboundPfx)
			if inb {
				pfx = string(rules.ProfileInboundPfx)
			}
			x := "ksa." + resName(r, 5+r.intn(20)) + "." + resName(r, max-len(pfx)-10+r.intn(12))
			for len(pfx)+len(x) <= max {
				x += "x"
			}
			c.profile(inb, nft, x)
			c.profile(inb, nft, carried(pfx, x, max))
			c.profile(!inb, nft, carried(pfx, x, max))
		}
	case 1: // endpoints, every prefix
		for _, pfx := range endpointPrefixes {
			x := randStr(r, ifaceChars, max-len(pfx)+1+r.intn(8))
			c.endpoint(pfx, x, nft)
			c.endpoint(pfx, carried(pfx, x, max), nft)
		}
	default: // direct calls at several limits
		for _, m := range []int{28, 31, 256, 128, 60, 52, 53} {
			p := r.pick([]string{"cali-pi-", "cali-pri-", "cali-tw-", "cali40", ""})
			x := randStr(r, ifaceChars, m-len(p)+1+r.intn(8))
			c.raw(p, x, m)
			c.raw(p, carried(p, x, m), m)
		}
	}
}

// groupFamilyCase: a HISTORY of policy groups named one after the other in this process: families that share selector,
// direction, first policy and size but differ in a later policy or in the order of the later policies, both directions,
// and the first group named again at the end.  The name must be a function of the whole (direction, selector, ordered
// policy list) and of nothing the process did before.
func groupFamilyCase(r *rng, c *caseT) {
	c.tags["theme:group-history"] = true
	sel := r.pick([]string{"all()", "a == 'b'", "has(x) && y in {'1','2'}", "projectcalico.org/namespace == 'default'"}) + randStr(r, nameChars, r.intn(3))
	n := 2 + r.intn(3)
	var base []types.PolicyID
	for i := 0; i < n; i++ {
		base = append(base, genPolicy(r, 8+r.intn(20)))
	}
	extra := genPolicy(r, 8+r.intn(20))
	variants := [][]types.PolicyID{base}
	// last policy replaced
	v := append([]types.PolicyID{}, base...)
	v[n-1] = extra
	variants = append(variants, v)
	// last policy renamed
	v = append([]types.PolicyID{}, base...)
	v[n-1].Name += "x"
	variants = append(variants, v)
	// namespace / kind of the second policy changed
	v = append([]types.PolicyID{}, base...)
	v[1].Kind = kinds[(indexOf(kinds, v[1].Kind)+1)%7]
	variants = append(variants, v)
	if n >= 3 {
		// later policies re-ordered
		v = append([]types.PolicyID{}, base...)
		v[1], v[n-1] = v[n-1], v[1]
		variants = append(variants, v)
		// middle policy replaced
		v = append([]types.PolicyID{}, base...)
		v[1] = extra
		variants = append(variants, v)
	}
	for _, inb := range []bool{true, false} {
		for _, ps := range variants {
			c.group(inb, sel, ps)
		}
	}
	// the first group once more, after the others
	c.group(true, sel, base)
	c.group(true, sel+"x", base)
}

func genCase(r *rng, c *caseT) {
	theme := r.intn(14)
	switch theme {
	case 0, 1: // direct calls, arbitrary prefix and limit
		c.tags["theme:raw"] = true
		var p string
		switch r.intn(3) {
		case 0:
			p = r.pick(endpointPrefixes)
		case 1:
			p = randStr(r, nameChars, r.intn(12))
		default:
			p = r.pick([]string{"cali-pi-", "cali-pri-", "cali40", ""})
		}
		max := []int{28, 28, 31, 256, len(p), len(p) + 1, len(p) + 2, len(p) + 3, 4 + r.intn(40), 43 + len(p), 44 + len(p), 45 + len(p)}[r.intn(12)]
		if max >= 256 {
			c.tags["limit:nft"] = true
		} else if max <= len(p)+1 {
			c.tags["limit:no-room"] = true
		}
		for _, s := range boundarySuffixes(r, len(p), max, ifaceChars) {
			c.raw(p, s, max)
		}
	case 2, 3: // policies
		c.tags["theme:policy"] = true
		nft := r.intn(8) == 0
		room := maxChain(nft) - 8
		var ps []types.PolicyID
		for i := 0; i < 3; i++ {
			ps = append(ps, genPolicy(r, room-1+r.intn(3)))
		}
		long := genPolicy(r, room+2+r.intn(10))
		ps = append(ps, long)
		// near-identical long names
		l2 := long
		l2.Name = long.Name + "x"
		l3 := long
		l3.Name = long.Name[:len(long.Name)-1] + "0"
		if l3.Name == long.Name {
			l3.Name = long.Name[:len(long.Name)-1] + "1"
		}
		ps = append(ps, l2, l3)
		// same name, other kind / other namespace split
		l4 := long
		l4.Kind = kinds[(r.intn(6)+1+indexOf(kinds, long.Kind))%7]
		ps = append(ps, l4)
		if long.Namespace != "" {
			// move the boundary between namespace and name: ns "ab", name "c" vs ns "a", name "bc" need the '/'
			l5 := long
			l5.Namespace = long.Namespace + long.Name[:1]
			l5.Name = long.Name[1:]
			ps = append(ps, l5)
		}
		if r.intn(3) == 0 {
			// malformed stream: identities that cannot pass validation
			c.tags["malformed"] = true
			ps = append(ps, types.PolicyID{Kind: "NetworkPolicy", Namespace: "", Name: "a/b"},
				types.PolicyID{Kind: "NetworkPolicy", Namespace: "a", Name: "b"},
				types.PolicyID{Kind: "np", Namespace: "a", Name: "b"},
				types.PolicyID{Kind: "_" + randStr(r, nameChars, 3), Namespace: "", Name: resName(r, room-5)},
				types.PolicyID{Kind: "", Namespace: "", Name: ""})
		}
		for _, p := range ps {
			c.polText(p)
			c.policy(true, nft, p)
			if r.intn(2) == 0 {
				c.policy(false, nft, p)
			}
		}
		// a profile whose name is a policy's ID text: other family, must still differ
		c.profile(true, nft, ps[0].ID())
	case 4: // profiles
		c.tags["theme:profile"] = true
		nft := r.intn(3) == 0
		inb := r.intn(2) == 0
		plen := 9
		for _, s := range boundarySuffixes(r, plen, maxChain(nft), nameChars) {
			c.profile(inb, nft, s)
		}
		c.profile(!inb, nft, "kns."+resName(r, 3+r.intn(20)))
		c.profile(inb, nft, "ksa."+resName(r, 3+r.intn(10))+"."+resName(r, 3+r.intn(10)))
	case 5: // endpoints
		c.tags["theme:endpoint"] = true
		nft := r.intn(3) == 0
		pfx := r.pick(endpointPrefixes)
		for i := 0; i < 4; i++ {
			n := 1 + r.intn(15)
			s := randStr(r, ifaceChars, n)
			if r.intn(3) == 0 {
				s = "_" + s[1:]
			}
			c.endpoint(pfx, s, nft)
			c.endpoint(r.pick(endpointPrefixes), s, nft)
		}
		c.endpoint(pfx, "_", nft)
		if r.intn(2) == 0 {
			// beyond IFNAMSIZ: cannot be a real interface, still must behave
			c.tags["malformed"] = true
			for _, s := range boundarySuffixes(r, len(pfx), maxChain(nft), ifaceChars) {
				c.endpoint(pfx, s, nft)
			}
		}
	case 6: // policy groups
		c.tags["theme:group"] = true
		sel := r.pick([]string{"all()", "a == 'b'", "has(x) && y in {'1','2'}", "projectcalico.org/namespace == 'default'", ""})
		var ps []types.PolicyID
		for i := 0; i < 2+r.intn(3); i++ {
			ps = append(ps, genPolicy(r, 8+r.intn(20)))
		}
		c.group(true, sel, ps)
		c.group(false, sel, ps)
		c.group(true, sel+" ", ps)
		c.group(true, sel, ps[1:])
		c.group(true, sel, ps[:len(ps)-1])
		rev := append([]types.PolicyID{}, ps...)
		rev[0], rev[len(rev)-1] = rev[len(rev)-1], rev[0]
		c.group(true, sel, rev)
		q := append([]types.PolicyID{}, ps...)
		q[0].Name += "x"
		c.group(true, sel, q)
		c.group(false, "", nil)
		if len(ps) >= 2 {
			t := append([]types.PolicyID{}, ps...)
			t[len(t)-1].Name += "y" // same selector, direction, first policy and size; later policy differs
			c.group(true, sel, t)
			c.group(false, sel, t)
		}
		// a policy and an endpoint in the same table
		c.policy(true, false, ps[0])
		c.endpoint(rules.WorkloadToEndpointPfx, "cali"+randStr(r, "0123456789abcdef", 11), false)
	case 7, 8: // IP sets
		c.tags["theme:ipset"] = true
		statics := []string{rules.IPSetIDNATOutgoingMasqPools, rules.IPSetIDAllHostNets, rules.IPSetIDAllVXLANSourceNets,
			rules.IPSetIDThisHostIPs, rules.IPSetIDNetworkPools, rules.IPSetIDDSCPEndpoints, rules.IPSetIDNoFlowOffload,
			rules.IPSetIDAllIstioWEPs}
		for i := 0; i < 3; i++ {
			c.mainStatic(r.intn(2) == 0, r.pick(statics))
		}
		id := r.pick(statics)
		c.mainStatic(false, id)
		c.mainStatic(true, id)
		c.mainStatic(false, randStr(r, nameChars, 24+r.intn(2)))
		tags := []string{"s", "n", "svc", "svcnoport"}
		for i := 0; i < 4; i++ {
			content := r.pick([]string{"all()", "has(a)", "default/svc", "tcp,http"}) + randStr(r, nameChars, r.intn(4))
			tg := r.pick(tags)
			v6 := r.intn(2) == 0
			c.mainHashed(v6, tg, content)
			c.mainHashed(v6, tg, content+"x")
			if r.intn(2) == 0 {
				c.mainHashed(!v6, tg, content)
				c.mainHashed(v6, r.pick(tags), content)
			}
			if r.intn(3) == 0 {
				c.unique(tg, content)
				c.unique(tg, content+"x")
			}
		}
		for i := 0; i < 3; i++ {
			var n uint64
			switch r.intn(4) {
			case 0:
				n = uint64(r.intn(12))
			case 1:
				n = ^uint64(0) - uint64(r.intn(3))
			case 2:
				n = []uint64{9, 10, 99, 100, 999999999, 1000000000, 1 << 32, 1<<63 - 1, 1 << 63}[r.intn(9)]
			default:
				n = r.next() >> uint(r.intn(64))
			}
			c.temp(r.intn(2) == 0, n)
			c.temp(r.intn(2) == 0, n)
			if i == 0 {
				// fixed IDs that spell a counter: main and temporary names must still differ
				v6 := r.intn(2) == 0
				c.temp(v6, n)
				c.mainStatic(v6, strconv.FormatUint(n, 10))
				c.mainStatic(v6, "t"+strconv.FormatUint(n, 10))
			}
		}
		if r.intn(3) == 0 {
			// fixed IDs longer than the room: cut by the code; outside the domain (reported, not judged apart)
			c.tags["malformed"] = true
			long := randStr(r, nameChars, 26+r.intn(5))
			c.mainStatic(false, long)
			c.mainStatic(false, long+"y")
			c.mainStatic(false, "t1")
			c.mainStatic(false, "")
		}
	case 10: // nftables set names (':' becomes '-')
		c.tags["theme:nftset"] = true
		statics := []string{rules.IPSetIDNATOutgoingMasqPools, rules.IPSetIDAllHostNets, rules.IPSetIDAllVXLANSourceNets,
			rules.IPSetIDThisHostIPs, rules.IPSetIDNetworkPools, rules.IPSetIDDSCPEndpoints, rules.IPSetIDNoFlowOffload,
			rules.IPSetIDAllIstioWEPs}
		for i := 0; i < 3; i++ {
			id := r.pick(statics)
			c.nftStatic(false, id)
			c.nftStatic(true, id)
		}
		c.nftStatic(false, randStr(r, nameChars, 23+r.intn(2)))
		tags := []string{"s", "n", "svc", "svcnoport"}
		for i := 0; i < 4; i++ {
			content := r.pick([]string{"all()", "has(a)", "default/svc", "tcp,http"}) + randStr(r, nameChars, r.intn(4))
			tg := r.pick(tags)
			v6 := r.intn(2) == 0
			c.nftHashed(v6, tg, content)
			c.nftHashed(v6, tg, content+"x")
			c.nftHashed(!v6, r.pick(tags), content)
		}
		// "svc" + "-noport..." style confusion after the replacement: a fixed ID spelled like a legalized hashed one
		c.nftStatic(false, "svc-noport")
		c.nftStatic(false, "s-"+randStr(r, nameChars, 10))
		if r.intn(2) == 0 {
			c.tags["malformed"] = true
			x := randStr(r, nameChars, 3+r.intn(8))
			c.nftStatic(false, x+":"+"b")
			c.nftStatic(false, x+"-"+"b")
			c.nftHashed(false, "a-b", "x")
			c.nftHashed(false, "a", "b-x")
		}
	case 11: // NFLOG prefixes
		c.tags["theme:nflog"] = true
		for _, n := range []int{61, 62, 63, 64} {
			c.nflog(randStr(r, ifaceChars, n))
		}
		long := randStr(r, ifaceChars, 64+r.intn(40))
		c.nflog(long)
		// same first and last 10 characters, different middle
		mid := []byte(long)
		mid[len(mid)/2] ^= 1
		if mid[len(mid)/2] < 33 {
			mid[len(mid)/2] = 'z'
		}
		c.nflog(string(mid))
		c.nflog(long[:10] + "x" + long[10:])
		// the text a hashed prefix turns into, used as a prefix itself (63 bytes: must be hashed again)
		h := b64sha256(long)
		c.nflog(long[:10] + "_" + h[:41] + "_" + long[len(long)-10:])
		// and one byte shorter (62 bytes: stays as it is, cannot equal a hashed one)
		c.nflog(long[:10] + "_" + h[:40] + "_" + long[len(long)-10:])
		p := genPolicy(r, 20+r.intn(70))
		acts := []byte{'A', 'D', 'P'}
		for i := 0; i < 3; i++ {
			a := acts[r.intn(3)]
			d := []byte{'I', 'E'}[r.intn(2)]
			idx := []int{0, 1, 9, 10, 11, 123, 100000}[r.intn(7)]
			c.nflogRule(a, 'P', d, idx, p)
			c.nflogRule(a, 'P', d, idx+1, p)
			q := p
			q.Name = p.Name + "0"
			c.nflogRule(a, 'P', d, idx, q)
		}
		lp := genPolicy(r, 60+r.intn(60))
		c.nflogRule('D', 'P', 'I', 1, lp)
		c.nflogRule('D', 'P', 'I', 11, lp)
		c.nflogRule('A', 'P', 'I', 1, lp)
		c.nflogRule('D', 'P', 'E', 1, lp)
		lq := lp
		lq.Name = lp.Name[:len(lp.Name)/2] + "0" + lp.Name[len(lp.Name)/2:]
		c.nflogRule('D', 'P', 'I', 1, lq)
	case 12: // veth names
		c.tags["theme:veth"] = true
		for i := 0; i < 5; i++ {
			ns := resName(r, 1+r.intn(20))
			ns = strings.ReplaceAll(ns, ".", "-")
			pod := resName(r, 1+r.intn(40))
			c.veth(ns, pod)
			c.veth(ns, pod+"-0")
			c.veth(ns+"x", pod)
		}
		if r.intn(2) == 0 {
			c.tags["malformed"] = true
			c.veth("a", "b.c")
			c.veth("a.b", "c")
		}
	case 13: // VM IPAM handle IDs (limit 128)
		c.tags["theme:vmhandle"] = true
		nets := []string{"", "k8s-pod-network", "multus-net1", strings.ReplaceAll(resName(r, 3+r.intn(30)), ".", "-")}
		for i := 0; i < 4; i++ {
			net := r.pick(nets)
			ns := strings.ReplaceAll(resName(r, 1+r.intn(20)), ".", "-")
			pl := len(net)
			if net == "" {
				pl = 15
			}
			room := 128 - pl - 5 - len(ns) - 1
			c.vmHandle(net, ns, resName(r, 1+r.intn(30)))
			for _, n := range []int{room - 1, room, room + 1, room + 20 + r.intn(100)} {
				if n >= 1 {
					vm := resName(r, n)
					c.vmHandle(net, ns, vm)
					if n > room {
						c.vmHandle(net, ns, vm[:n-1]+"0")
						c.vmHandle(r.pick(nets[1:]), ns, vm)
					}
				}
			}
		}
		if r.intn(2) == 0 {
			c.tags["malformed"] = true
			c.vmHandle("a", "vmi", "b.c")
			c.vmHandle("a.vmi", "b", "c")
		}
	default: // one text through every family of one table
		c.tags["theme:cross-family"] = true
		nft := r.intn(8) == 0
		texts := []string{resName(r, 1+r.intn(15)), "_" + resName(r, 14), resName(r, 17+r.intn(6))}
		for _, s := range texts {
			c.profile(true, nft, s)
			c.profile(false, nft, s)
			for _, p := range endpointPrefixes {
				if r.intn(2) == 0 {
					c.endpoint(p, s, nft)
				}
			}
			c.policy(true, nft, types.PolicyID{Kind: "GlobalNetworkPolicy", Name: s})
			c.policy(false, nft, types.PolicyID{Kind: "GlobalNetworkPolicy", Name: s})
		}
		// profile names that mimic other families' tags: "cali-pr" + "i-x" style confusion cannot happen,
		// but "cali-pri-" + s versus "cali-pi-" + "gnp/..." must differ as well
		c.profile(true, nft, "gnp/"+texts[0])
	}
}

func indexOf(xs []string, x string) int {
	for i, y := range xs {
		if x == y {
			return i
		}
	}
	return 0
}

// probeClamp reports which variant of the shortening rule the tree has: the pinned code panics when
// maxLength leaves more room than the digest text has characters; the repaired code caps the name.
func probeClamp() (clamp bool) {
	defer func() {
		if r := recover(); r != nil {
			clamp = false
		}
	}()
	_ = hash.GetLengthLimitedID("", strings.Repeat("a", 101), 100)
	return true
}

func main() {
	n := flag.Int("n", 100, "cases")
	seed := flag.Uint64("seed", 1, "seed")
	flag.Parse()
	logrus.SetOutput(io.Discard)
	clamp := probeClamp()
	r := &rng{s: *seed}
	enc := json.NewEncoder(os.Stdout)
	for i := 0; i < *n; i++ {
		c := newCase()
		if i < 6 || i%25 == 0 {
			colliderCase(r, c, i)
		} else if i == 6 || i%40 == 7 {
			staticCase(r, c, i == 6)
		} else if i == 8 || i%40 == 9 {
			groupFamilyCase(r, c)
		} else {
			genCase(r, c)
		}
		c.finish()
		var os_, keys []string
		for _, o := range c.obs {
			os_ = append(os_, fmt.Sprintf("{| o_id := %s; o_name := %s; o_again := %s |}", o.id, copt(o.name), copt(o.again)))
			keys = append(keys, o.key)
		}
		coq := fmt.Sprintf("{| c_clamp := %s; c_tbl := [%s]; c_obs := [%s] |}", cbool(clamp), strings.Join(c.tbl, "; "), strings.Join(os_, "; "))
		var tags []string
		for t := range c.tags {
			tags = append(tags, t)
		}
		sortStrings(tags)
		if c.shortened > 0 {
			tags = append(tags, "has-shortened")
		}
		_ = enc.Encode(line{Coq: coq, NT: c.shortened > 0 && len(c.obs) >= 4, Key: strings.Join(keys, ";"),
			Sample: map[string]any{"names": c.sample}, Tags: tags})
	}
}

func sortStrings(xs []string) {
	for i := 1; i < len(xs); i++ {
		for j := i; j > 0 && xs[j] < xs[j-1]; j-- {
			xs[j], xs[j-1] = xs[j-1], xs[j]
		}
	}
}
