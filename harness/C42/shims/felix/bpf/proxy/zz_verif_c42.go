//go:build verif

package proxy

import (
	"sort"

	v1 "k8s.io/api/core/v1"
	k8sp "k8s.io/kubernetes/pkg/proxy"
)

type k8spServicePort = k8sp.ServicePort
type v1SessionAffinity = v1.ServiceAffinity

// VerifSvcPolicy sets the external / internal traffic policy and the maglev annotation independently
// (the exported K8sSvcWithLocalOnly sets both policies at once).
func VerifSvcPolicy(extLocal, intLocal, maglev, exclude bool) K8sServicePortOption {
	return func(s any) {
		s.(*servicePort).ServicePort.(*serviceInfo).nodeLocalExternal = extLocal
		s.(*servicePort).ServicePort.(*serviceInfo).nodeLocalInternal = intLocal
		s.(*servicePort).useMaglev = maglev
		s.(*servicePort).excludeService = exclude
	}
}

// VerifSvcID is one entry of the syncer's newSvcMap (service key -> NAT service id).
type VerifSvcID struct {
	Namespace, Name, Port, Extra string
	ID                          uint32
}

// VerifNewSvcIDs lists the ids the last apply() gave to every service key, sorted by id.
// Used only to recover the order in which Go's map iteration visited the services.
func (s *Syncer) VerifNewSvcIDs() []VerifSvcID {
	var out []VerifSvcID
	for k, v := range s.newSvcMap {
		out = append(out, VerifSvcID{Namespace: k.sname.Namespace, Name: k.sname.Name, Port: k.sname.Port, Extra: k.extra, ID: v.id})
	}
	sort.Slice(out, func(i, j int) bool {
		if out[i].ID != out[j].ID {
			return out[i].ID < out[j].ID
		}
		return out[i].Extra < out[j].Extra
	})
	return out
}

func (s *Syncer) VerifNextSvcID() uint32 { return s.nextSvcID }

// recordingSP reports every SessionAffinityType() call.  apply() makes that call on a service's own
// ServicePort only while it is visiting that service (updateService -> affinityCleanupTimeo), so the first
// occurrences give the order in which Go's map iteration visited state.SvcMap.
type recordingSP struct {
	k8spServicePort
	f func()
}

func (r *recordingSP) SessionAffinityType() v1SessionAffinity {
	r.f()
	return r.k8spServicePort.SessionAffinityType()
}

// VerifRecordVisits wraps the ServicePort inside sp (built by NewK8sServicePort) with the recorder.
func VerifRecordVisits(sp any, f func()) {
	s := sp.(*servicePort)
	s.ServicePort = &recordingSP{k8spServicePort: s.ServicePort, f: f}
}

// VerifSetNextSvcID puts the id counter where a long-running Felix would have it (used to reach the uint32 wrap
// without 2^32 allocations).
func (s *Syncer) VerifSetNextSvcID(n uint32) { s.nextSvcID = n }
