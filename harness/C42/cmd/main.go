//go:build verif

// C42 correspondence driver.  Runs the REAL felix/bpf/proxy.Syncer over in-memory NAT maps
// (felix/bpf/mock) wrapped so that every single Update/Delete is recorded (and can be made to fail),
// on generated histories of service / endpoint changes, failed applies and restarts, and prints one
// JSON line per history carrying the history and everything observed as a Coq term of type `case`.
package main

import (
	"encoding/binary"
	"encoding/json"
	"errors"
	"flag"
	"fmt"
	"hash/fnv"
	"io"
	"net"
	"os"
	"sort"
	"strings"

	"github.com/sirupsen/logrus"
	v1 "k8s.io/api/core/v1"
	"k8s.io/apimachinery/pkg/types"
	k8sp "k8s.io/kubernetes/pkg/proxy"

	"github.com/projectcalico/calico/felix/bpf/consistenthash"
	"github.com/projectcalico/calico/felix/bpf/maps"
	"github.com/projectcalico/calico/felix/bpf/mock"
	"github.com/projectcalico/calico/felix/bpf/nat"
	"github.com/projectcalico/calico/felix/bpf/proxy"
	"github.com/projectcalico/calico/felix/bpf/routes"
	"github.com/projectcalico/calico/felix/ip"
)

// ---------------------------------------------------------------- rng

type rng struct{ s uint64 }

func (r *rng) next() uint64 {
	r.s += 0x9e3779b97f4a7c15
	z := r.s
	z = (z ^ (z >> 30)) * 0xbf58476d1ce4e5b9
	z = (z ^ (z >> 27)) * 0x94d049bb133111eb
	return z ^ (z >> 31)
}
func (r *rng) intn(n int) int { return int(r.next() % uint64(n)) }
func (r *rng) chance(pct int) bool { return r.intn(100) < pct }

// ---------------------------------------------------------------- recording maps

type injector struct {
	mode     int // 0 none, 1 hash predicate, 2 fail everything after `after` successful writes, 3 explicit keys
	m, r     uint64
	after    int
	keys     map[string]bool
	done     int
	trace    []string
	failedF  map[string]bool
	failedB  map[string]bool
	nWrites  int
	nFailed  int
	mgBad    bool        // the maglev invariant was seen violated after some single write of this apply
	afterW   func() bool // evaluates the maglev invariant on the maps (true = holds)
}

func (in *injector) reset(mode int) {
	*in = injector{mode: mode, failedF: map[string]bool{}, failedB: map[string]bool{}, afterW: in.afterW}
}

func (in *injector) wrote() {
	if in.afterW != nil && !in.afterW() {
		in.mgBad = true
	}
}

func (in *injector) shouldFail(k []byte) bool {
	switch in.mode {
	case 1:
		h := uint64(1469598103934665603)
		for _, b := range k {
			h = (h ^ uint64(b)) * 1099511628211
		}
		return h%in.m == in.r
	case 2:
		return in.done >= in.after
	case 3:
		return in.keys[string(k)]
	}
	return false
}

// recMap is felix/bpf/mock.Map with every single write reported to the injector.
type recMap struct {
	*mock.Map
	in      *injector
	backend bool
	maglev  bool // the Maglev LUT map: recorded, never made to fail
}

var errInjected = errors.New("verif: injected write failure")

func (m *recMap) Update(k, v []byte) error {
	if m.maglev {
		if err := m.Map.Update(k, v); err != nil {
			return err
		}
		m.in.nWrites++
		m.in.trace = append(m.in.trace, fmt.Sprintf("XSetM %s %s", coqMKey(k), coqBVal(v)))
		m.in.wrote()
		return nil
	}
	if m.in.shouldFail(k) {
		m.in.nFailed++
		if m.backend {
			m.in.failedB[coqBKey(k)] = true
		} else {
			m.in.failedF[coqFKey(k)] = true
		}
		return errInjected
	}
	if err := m.Map.Update(k, v); err != nil {
		return err
	}
	m.in.done++
	m.in.nWrites++
	if m.backend {
		m.in.trace = append(m.in.trace, fmt.Sprintf("XW (WSetB %s %s)", coqBKey(k), coqBVal(v)))
	} else {
		m.in.trace = append(m.in.trace, fmt.Sprintf("XW (WSetF %s %s)", coqFKey(k), coqFVal(v)))
	}
	m.in.wrote()
	return nil
}

func (m *recMap) Delete(k []byte) error {
	if m.maglev {
		if !m.Map.ContainsKey(k) {
			panic("verif: delete of a key that is not in the maglev map")
		}
		if err := m.Map.Delete(k); err != nil {
			return err
		}
		m.in.nWrites++
		m.in.trace = append(m.in.trace, fmt.Sprintf("XDelM %s", coqMKey(k)))
		m.in.wrote()
		return nil
	}
	if m.in.shouldFail(k) {
		m.in.nFailed++
		if m.backend {
			m.in.failedB[coqBKey(k)] = true
		} else {
			m.in.failedF[coqFKey(k)] = true
		}
		return errInjected
	}
	if !m.Map.ContainsKey(k) {
		panic("verif: delete of a key that is not in the map")
	}
	if err := m.Map.Delete(k); err != nil {
		return err
	}
	m.in.done++
	m.in.nWrites++
	if m.backend {
		m.in.trace = append(m.in.trace, fmt.Sprintf("XW (WDelB %s)", coqBKey(k)))
	} else {
		m.in.trace = append(m.in.trace, fmt.Sprintf("XW (WDelF %s)", coqFKey(k)))
	}
	m.in.wrote()
	return nil
}

func (m *recMap) BatchUpdate(ks, vs [][]byte, flags uint64) (int, error) {
	for i := range ks {
		if err := m.Update(ks[i], vs[i]); err != nil {
			return i, err
		}
	}
	return len(ks), nil
}

var _ maps.MapWithExistsCheck = (*recMap)(nil)

func ip4(b net.IP) uint32 {
	b4 := b.To4()
	if b4 == nil {
		panic("not v4")
	}
	return binary.BigEndian.Uint32(b4)
}

func coqFKey(k []byte) string {
	fk := nat.FrontendKeyFromBytes(k)
	if fk.SrcCIDR() != nat.ZeroCIDR {
		panic("verif: source-range frontend key outside the modelled domain")
	}
	return fmt.Sprintf("(FK %d %d %d)", ip4(fk.Addr()), fk.Port(), fk.Proto())
}
func coqFVal(v []byte) string {
	fv := nat.FrontendValueFromBytes(v)
	return fmt.Sprintf("(FV %d %d %d %d %d)", fv.ID(), fv.Count(), fv.LocalCount(), uint32(fv.AffinityTimeout().Seconds()), fv.Flags())
}
func coqBKey(k []byte) string {
	bk := nat.BackendKeyFromBytes(k)
	return fmt.Sprintf("(%d,%d)", bk.ID(), bk.Count())
}
func coqMKey(k []byte) string {
	mk := nat.MaglevBackendKeyFromBytes(k)
	return fmt.Sprintf("(%d,%d)", mk.SvcID(), mk.Ordinal())
}
func coqBVal(v []byte) string {
	bv := nat.BackendValueFromBytes(v)
	return fmt.Sprintf("(%d,%d)", ip4(bv.Addr()), bv.Port())
}

func dumpMap(m *mock.Map, kf, vf func([]byte) string) string {
	var xs []string
	ks := make([]string, 0, len(m.Contents))
	for k := range m.Contents {
		ks = append(ks, k)
	}
	sort.Strings(ks)
	for _, k := range ks {
		xs = append(xs, fmt.Sprintf("(%s,%s)", kf([]byte(k)), vf([]byte(m.Contents[k]))))
	}
	return "[" + strings.Join(xs, "; ") + "]"
}

// ---------------------------------------------------------------- inputs

type svcSpec struct {
	name               int
	cip                uint32
	port, proto, np    int
	ext, lb            []uint32
	extLocal, intLocal bool
	sticky             int
	maglev             bool
	exclude            bool // annotation projectcalico.org/natExcludeService
}

type epSpec struct {
	ip                                 uint32
	port                               int
	ready, local, serving, terminating bool
	node                               uint32
}

type svcState struct {
	svc svcSpec
	eps []epSpec
}

func u32ip(a, b, c, d int) uint32 { return uint32(a)<<24 | uint32(b)<<16 | uint32(c)<<8 | uint32(d) }
func netIP(x uint32) net.IP       { return net.IPv4(byte(x>>24), byte(x>>16), byte(x>>8), byte(x)) }
func ipStr(x uint32) string       { return netIP(x).String() }

var hostIP = u32ip(192, 168, 0, 1)
var podNPIP = u32ip(255, 255, 255, 255)
var nodeIPs = []uint32{u32ip(192, 168, 0, 2), u32ip(192, 168, 0, 3), u32ip(192, 168, 0, 4)}

func sname(s svcSpec) k8sp.ServicePortName {
	p := v1.ProtocolTCP
	if s.proto == 17 {
		p = v1.ProtocolUDP
	}
	return k8sp.ServicePortName{NamespacedName: types.NamespacedName{Namespace: "verif", Name: fmt.Sprintf("svc%d", s.name)}, Port: "p", Protocol: p}
}

func buildState(st []svcState, rec *[]int) proxy.DPSyncerState {
	out := proxy.DPSyncerState{SvcMap: k8sp.ServicePortMap{}, EpsMap: k8sp.EndpointsMap{}, Hostname: "verif-node", NodeZone: ""}
	for _, ss := range st {
		s := ss.svc
		n := sname(s)
		opts := []proxy.K8sServicePortOption{proxy.VerifSvcPolicy(s.extLocal, s.intLocal, s.maglev, s.exclude)}
		if s.np != 0 {
			opts = append(opts, proxy.K8sSvcWithNodePort(s.np))
		}
		if len(s.ext) > 0 {
			var ips []net.IP
			for _, x := range s.ext {
				ips = append(ips, netIP(x))
			}
			opts = append(opts, proxy.K8sSvcWithExternalIPs(ips))
		}
		if len(s.lb) > 0 {
			var ips []net.IP
			for _, x := range s.lb {
				ips = append(ips, netIP(x))
			}
			opts = append(opts, proxy.K8sSvcWithLoadBalancerIPs(ips))
		}
		if s.sticky > 0 {
			opts = append(opts, proxy.K8sSvcWithStickyClientIP(s.sticky))
		}
		sp := proxy.NewK8sServicePort(netIP(s.cip), s.port, n.Protocol, opts...)
		nameIdx := s.name
		proxy.VerifRecordVisits(sp, func() { *rec = append(*rec, nameIdx) })
		out.SvcMap[n] = sp
		var eps []k8sp.Endpoint
		for _, e := range ss.eps {
			eps = append(eps, proxy.NewEndpointInfo(ipStr(e.ip), e.port,
				proxy.EndpointInfoOptIsLocal(e.local), proxy.EndpointInfoOptIsReady(e.ready),
				proxy.EndpointInfoOptIsServing(e.serving), proxy.EndpointInfoOptIsTerminating(e.terminating)))
		}
		if len(eps) > 0 || len(ss.eps) == 0 && s.name%2 == 0 {
			// an absent EpsMap entry and an empty one must behave alike
			out.EpsMap[n] = eps
		}
	}
	return out
}

func coqList(xs []uint32) string {
	ys := make([]string, len(xs))
	for i, x := range xs {
		ys[i] = fmt.Sprint(x)
	}
	return "[" + strings.Join(ys, "; ") + "]"
}
func coqBool(b bool) string {
	if b {
		return "true"
	}
	return "false"
}

func coqState(st []svcState) string {
	var xs []string
	for _, ss := range st {
		s := ss.svc
		var es []string
		for _, e := range ss.eps {
			es = append(es, fmt.Sprintf("Ep %d %d %s %s %d", e.ip, e.port, coqBool(e.ready), coqBool(e.local), e.node))
		}
		xs = append(xs, fmt.Sprintf("(Svc %d %d %d %d %d %s %s %s %s %d %s %s, [%s])", s.name, s.cip, s.port, s.proto, s.np,
			coqList(s.ext), coqList(s.lb), coqBool(s.extLocal), coqBool(s.intLocal), s.sticky, coqBool(s.maglev), coqBool(s.exclude), strings.Join(es, "; ")))
	}
	return "[" + strings.Join(xs, "; ") + "]"
}

// ---------------------------------------------------------------- one history

type step struct {
	state    []svcState
	failMode int
	m, r     uint64
	after    int
	failKeys [][]byte
	restart  bool // restart (new Syncer on the same maps) BEFORE this apply
	setNext  int64 // >0: set the Syncer's id counter to this value BEFORE this apply
}

type world struct {
	in         *injector
	fe, be     *recMap
	mg         *recMap
	aff        *mock.Map
	rt         *proxy.RTCache
	npips      []uint32
	s          *proxy.Syncer
	lutSize    int
}

func newWorld(npips []uint32) *world {
	w := &world{in: &injector{}, npips: npips, lutSize: 7}
	w.in.reset(0)
	w.fe = &recMap{Map: mock.NewMockMap(nat.FrontendMapParameters), in: w.in}
	w.be = &recMap{Map: mock.NewMockMap(nat.BackendMapParameters), in: w.in, backend: true}
	w.mg = &recMap{Map: mock.NewMockMap(nat.MaglevMapParameters), in: w.in, maglev: true}
	w.in.afterW = w.maglevInvariant
	w.aff = mock.NewMockMap(nat.AffinityMapParameters)
	w.rt = proxy.NewRTCache()
	// endpoint addresses are 10.1.<n>.x: n = 0 local workloads, n = 1.. workloads on remote node n
	w.rt.Update(routes.NewKey(ip.CIDRFromAddrAndPrefix(ip.FromString("10.1.0.0"), 24).(ip.V4CIDR)),
		routes.NewValue(routes.FlagsLocalWorkload))
	for i, nip := range nodeIPs {
		w.rt.Update(routes.NewKey(ip.CIDRFromAddrAndPrefix(ip.FromString(fmt.Sprintf("10.1.%d.0", i+1)), 24).(ip.V4CIDR)),
			routes.NewValueWithNextHop(routes.FlagsRemoteWorkload, ip.FromString(ipStr(nip)).(ip.V4Addr)))
	}
	w.newSyncer()
	return w
}

func (w *world) newSyncer() {
	if w.s != nil {
		w.s.Stop()
	}
	var ips []net.IP
	for _, x := range w.npips {
		ips = append(ips, netIP(x))
	}
	s, err := proxy.NewSyncer(4, ips, w.fe, w.be, w.mg, w.aff, w.rt, nil, w.lutSize, 0)
	if err != nil {
		panic(err)
	}
	w.s = s
}

// visit order of the services = order of first occurrence in the recorder; order of the remote nodes inside a
// service = order of their ids (a node whose id is reused allocates nothing, so its position is immaterial)
func visitOrder(ids []proxy.VerifSvcID, rec []int, st []svcState) string {
	type unit struct {
		node uint32
		id   uint32
	}
	per := map[int][]unit{}
	for _, e := range ids {
		var n int
		fmt.Sscanf(e.Name, "svc%d", &n)
		if strings.HasPrefix(e.Extra, "NodePortRemote:") {
			nip := net.ParseIP(strings.TrimPrefix(e.Extra, "NodePortRemote:"))
			per[n] = append(per[n], unit{ip4(nip), e.ID})
		}
	}
	var names []int
	seen := map[int]bool{}
	for _, n := range rec {
		if !seen[n] {
			seen[n] = true
			names = append(names, n)
		}
	}
	for _, ss := range st {
		if !seen[ss.svc.name] {
			panic("verif: a service was not visited by apply()")
		}
	}
	var xs []string
	for _, n := range names {
		us := per[n]
		sort.Slice(us, func(i, j int) bool {
			if us[i].id != us[j].id {
				return us[i].id < us[j].id
			}
			return us[i].node < us[j].node
		})
		var ns []uint32
		for _, u := range us {
			ns = append(ns, u.node)
		}
		xs = append(xs, fmt.Sprintf("(%d, %s)", n, coqList(ns)))
	}
	return "[" + strings.Join(xs, "; ") + "]"
}

func keysOf(m map[string]bool) string {
	var ks []string
	for k := range m {
		ks = append(ks, k)
	}
	sort.Strings(ks)
	return "[" + strings.Join(ks, "; ") + "]"
}

type runInfo struct {
	ops               []string
	nWrites, nFailed  int
	failedApplies     int
	completedApplies  int
	restarts          int
	maxFe, maxBe      int
	mgBad             bool
	sample            []map[string]any
}

func (w *world) run(steps []step) runInfo {
	var ri runInfo
	for _, st := range steps {
		if st.restart {
			w.newSyncer()
			ri.ops = append(ri.ops, "ORestart")
			ri.restarts++
		}
		if st.setNext > 0 {
			w.s.VerifSetNextSvcID(uint32(st.setNext))
			ri.ops = append(ri.ops, fmt.Sprintf("OSetNext %d", st.setNext))
		}
		w.in.reset(st.failMode)
		w.in.m, w.in.r, w.in.after = st.m, st.r, st.after
		if st.failMode == 3 {
			w.in.keys = map[string]bool{}
			for _, k := range st.failKeys {
				w.in.keys[string(k)] = true
			}
		}
		var rec []int
		err := w.s.Apply(buildState(st.state, &rec))
		ids := w.s.VerifNewSvcIDs()
		ri.nWrites += w.in.nWrites
		ri.mgBad = ri.mgBad || w.in.mgBad
		ri.nFailed += w.in.nFailed
		if err != nil {
			ri.failedApplies++
		} else {
			ri.completedApplies++
		}
		if len(w.fe.Contents) > ri.maxFe {
			ri.maxFe = len(w.fe.Contents)
		}
		if len(w.be.Contents) > ri.maxBe {
			ri.maxBe = len(w.be.Contents)
		}
		op := fmt.Sprintf("OApply %s %s %s %s [%s] %s %s %s %s %s %s",
			coqState(st.state), visitOrder(ids, rec, st.state), keysOf(w.in.failedF), keysOf(w.in.failedB),
			strings.Join(w.in.trace, "; "), coqBool(err != nil),
			dumpMap(w.fe.Map, coqFKey, coqFVal), dumpMap(w.be.Map, coqBKey, coqBVal), w.maglevObs(st.state),
			w.lutTables(st.state), dumpMap(w.mg.Map, coqMKey, coqBVal))
		ri.ops = append(ri.ops, op)
		if len(ri.sample) < 6 {
			ri.sample = append(ri.sample, map[string]any{"services": len(st.state), "writes": w.in.nWrites, "failed_writes": w.in.nFailed,
				"err": err != nil, "frontends_after": len(w.fe.Contents), "backends_after": len(w.be.Contents), "restart_before": st.restart})
		}
		w.in.reset(0)
	}
	w.s.Stop()
	return ri
}

// lutTables: for every maglev service with a ready endpoint the consistent-hash table, computed as the syncer does
// (felix/bpf/consistenthash over the ready endpoints), keyed by the addresses of its ready endpoints in state order.
func (w *world) lutTables(st []svcState) string {
	var xs []string
	for _, ss := range st {
		if !ss.svc.maglev {
			continue
		}
		ch := consistenthash.New(w.lutSize, fnv.New32(), fnv.New32())
		var key []string
		for _, e := range ss.eps {
			if e.ready {
				ch.AddBackend(proxy.NewEndpointInfo(ipStr(e.ip), e.port, proxy.EndpointInfoOptIsReady(true)))
				key = append(key, fmt.Sprintf("(%d,%d)", e.ip, e.port))
			}
		}
		if len(key) == 0 {
			continue
		}
		var tab []string
		for _, b := range ch.Generate() {
			tab = append(tab, fmt.Sprintf("(%d,%d)", ip4(net.ParseIP(b.IP())), b.Port()))
		}
		xs = append(xs, fmt.Sprintf("([%s], [%s])", strings.Join(key, "; "), strings.Join(tab, "; ")))
	}
	return "[" + strings.Join(xs, "; ") + "]"
}

// maglevInvariant: every frontend flagged maglev that has backends finds a complete LUT under its id.
func (w *world) maglevInvariant() bool {
	for _, v := range w.fe.Contents {
		fv := nat.FrontendValueFromBytes([]byte(v))
		if fv.Flags()&nat.NATFlgMaglev == 0 || fv.Count() == 0 {
			continue
		}
		for j := 0; j < w.lutSize; j++ {
			if !w.mg.Map.ContainsKey(nat.NewMaglevBackendKey(fv.ID(), uint32(j)).AsBytes()) {
				return false
			}
		}
	}
	return true
}

// maglevObs: the Maglev LUT map as (id, number of entries, all values among the given addresses) rows;
// evaluated at sync end only.
func (w *world) maglevObs(st []svcState) string {
	type row struct {
		n    int
		vals map[string]bool
	}
	rows := map[uint32]*row{}
	for k, v := range w.mg.Contents {
		mk := nat.MaglevBackendKeyFromBytes([]byte(k))
		r := rows[mk.SvcID()]
		if r == nil {
			r = &row{vals: map[string]bool{}}
			rows[mk.SvcID()] = r
		}
		if mk.Ordinal() >= uint32(w.lutSize) {
			r.n += 1000000 // an ordinal outside the table
		}
		r.n++
		r.vals[coqBVal([]byte(v))] = true
	}
	var ids []uint32
	for id := range rows {
		ids = append(ids, id)
	}
	sort.Slice(ids, func(i, j int) bool { return ids[i] < ids[j] })
	var xs []string
	for _, id := range ids {
		xs = append(xs, fmt.Sprintf("(%d, %d, %s)", id, rows[id].n, keysOf(rows[id].vals)))
	}
	return "[" + strings.Join(xs, "; ") + "]"
}

// ---------------------------------------------------------------- generators

func cloneState(st []svcState) []svcState {
	out := make([]svcState, len(st))
	for i, s := range st {
		out[i] = s
		out[i].svc.ext = append([]uint32(nil), s.svc.ext...)
		out[i].svc.lb = append([]uint32(nil), s.svc.lb...)
		out[i].eps = append([]epSpec(nil), s.eps...)
	}
	return out
}

func genEp(r *rng, name int, used map[uint32]bool) epSpec {
	for {
		node := 0
		if !r.chance(40) {
			node = 1 + r.intn(len(nodeIPs))
		}
		x := u32ip(10, 1, node, 1+r.intn(40))
		if used[x] {
			continue
		}
		used[x] = true
		e := epSpec{ip: x, port: 8000 + name, local: node == 0}
		if node != 0 {
			e.node = nodeIPs[node-1]
		}
		setEpState(r, &e)
		return e
	}
}

func setEpState(r *rng, e *epSpec) {
	switch k := r.intn(10); {
	case k < 6:
		e.ready, e.serving, e.terminating = true, true, false
	case k < 8:
		e.ready, e.serving, e.terminating = false, false, false
	case k < 9:
		e.ready, e.serving, e.terminating = false, true, true
	default:
		e.ready, e.serving, e.terminating = false, false, true
	}
}

func genSvc(r *rng, name int, maglevOK bool) svcState {
	s := svcSpec{name: name, cip: u32ip(10, 96, 0, name+1), port: 80 + r.intn(3), proto: 6}
	if name%3 == 2 {
		s.proto = 17
	}
	mutateSvc(r, &s, maglevOK)
	mutateSvc(r, &s, maglevOK)
	ss := svcState{svc: s}
	used := map[uint32]bool{}
	for i, n := 0, r.intn(5); i < n; i++ {
		ss.eps = append(ss.eps, genEp(r, name, used))
	}
	return ss
}

func mutateSvc(r *rng, s *svcSpec, maglevOK bool) {
	switch r.intn(10) {
	case 9:
		s.exclude = !s.exclude
	case 0:
		s.port = 80 + r.intn(3)
	case 1:
		if s.np == 0 || r.chance(50) {
			s.np = 30000 + s.name*4 + r.intn(4)
		} else {
			s.np = 0
		}
	case 2:
		if len(s.ext) < 2 && r.chance(70) {
			x := u32ip(35, 0, s.name, 1+r.intn(3))
			dup := false
			for _, y := range s.ext {
				dup = dup || y == x
			}
			if !dup {
				s.ext = append(s.ext, x)
			}
		} else if len(s.ext) > 0 {
			s.ext = s.ext[1:]
		}
	case 3:
		if len(s.lb) < 2 && r.chance(70) {
			x := u32ip(36, 0, s.name, 1+r.intn(3))
			dup := false
			for _, y := range s.lb {
				dup = dup || y == x
			}
			if !dup {
				s.lb = append(s.lb, x)
			}
		} else if len(s.lb) > 0 {
			s.lb = s.lb[:len(s.lb)-1]
		}
	case 4:
		s.extLocal = !s.extLocal
	case 5:
		s.intLocal = !s.intLocal
		if s.intLocal && s.np == 0 && r.chance(70) {
			s.np = 30000 + s.name*4 + r.intn(4)
		}
	case 6:
		if s.sticky == 0 {
			s.sticky = 60 * (1 + r.intn(3))
		} else {
			s.sticky = 0
		}
	case 7:
		if maglevOK {
			s.maglev = !s.maglev
		}
	case 8:
		s.cip = u32ip(10, 96, r.intn(2), s.name+1)
	}
}

func mutateEps(r *rng, ss *svcState) {
	used := map[uint32]bool{}
	for _, e := range ss.eps {
		used[e.ip] = true
	}
	switch k := r.intn(6); {
	case k < 2 && len(ss.eps) < 6:
		ss.eps = append(ss.eps, genEp(r, ss.svc.name, used))
	case k < 3 && len(ss.eps) > 0:
		i := r.intn(len(ss.eps))
		ss.eps = append(ss.eps[:i:i], ss.eps[i+1:]...)
	case len(ss.eps) > 0:
		setEpState(r, &ss.eps[r.intn(len(ss.eps))])
	default:
		ss.eps = append(ss.eps, genEp(r, ss.svc.name, used))
	}
}

func genHistory(r *rng, maglevOK bool) ([]step, []string) {
	tags := map[string]bool{}
	var steps []step
	var st []svcState
	nsvc := 1 + r.intn(4)
	for i := 0; i < nsvc; i++ {
		st = append(st, genSvc(r, i, maglevOK))
	}
	nsteps := 3 + r.intn(6)
	prevFailed := false
	for i := 0; i < nsteps; i++ {
		if i > 0 {
			for j, n := 0, 1+r.intn(3); j < n; j++ {
				switch k := r.intn(10); {
				case k < 1 && len(st) < 6:
					used := map[int]bool{}
					for _, s := range st {
						used[s.svc.name] = true
					}
					for n := 0; n < 6; n++ {
						if !used[n] {
							st = append(st, genSvc(r, n, maglevOK))
							break
						}
					}
				case k < 2 && len(st) > 0:
					x := r.intn(len(st))
					st = append(st[:x:x], st[x+1:]...)
				case k < 5 && len(st) > 0:
					mutateSvc(r, &st[r.intn(len(st))].svc, maglevOK)
				case len(st) > 0:
					mutateEps(r, &st[r.intn(len(st))])
				}
			}
			sort.Slice(st, func(a, b int) bool { return st[a].svc.name < st[b].svc.name })
		}
		sp := step{state: cloneState(st)}
		switch k := r.intn(20); {
		case k < 11:
		case k < 15:
			sp.failMode, sp.m = 1, uint64(2+r.intn(5))
			sp.r = uint64(r.intn(int(sp.m)))
			tags["fail:predicate"] = true
		default:
			sp.failMode, sp.after = 2, r.intn(12)
			tags["fail:crash-after-n"] = true
		}
		if i > 0 && ((prevFailed && r.chance(50)) || r.chance(8)) {
			sp.restart = true
			if prevFailed {
				tags["restart-after-failure"] = true
			} else {
				tags["restart"] = true
			}
		}
		prevFailed = sp.failMode != 0
		steps = append(steps, sp)
	}
	for _, sp := range steps {
		for _, s := range sp.state {
			if s.svc.np != 0 {
				tags["nodeport"] = true
			}
			if s.svc.np != 0 && s.svc.intLocal {
				tags["nodeport-per-remote-node"] = true
			}
			if len(s.svc.ext) > 0 {
				tags["externalIP"] = true
			}
			if len(s.svc.lb) > 0 {
				tags["loadBalancerIP"] = true
			}
			if s.svc.extLocal {
				tags["externalTrafficPolicy=Local"] = true
			}
			if s.svc.intLocal {
				tags["internalTrafficPolicy=Local"] = true
			}
			if s.svc.maglev {
				tags["maglev"] = true
			}
			if s.svc.sticky != 0 {
				tags["sessionAffinity"] = true
			}
			if s.svc.exclude {
				tags["natExcludeService"] = true
			}
			for _, e := range s.eps {
				if e.terminating {
					tags["ep:terminating"] = true
				}
				if !e.ready && !e.terminating {
					tags["ep:not-ready"] = true
				}
			}
		}
	}
	var ts []string
	for t := range tags {
		ts = append(ts, t)
	}
	sort.Strings(ts)
	return steps, ts
}

// ---------------------------------------------------------------- main

type line struct {
	Coq    string         `json:"coq"`
	NT     bool           `json:"nt"`
	Key    string         `json:"key"`
	Sample map[string]any `json:"sample,omitempty"`
	Tags   []string       `json:"tags"`
}

func emit(enc *json.Encoder, npips []uint32, steps []step, tags []string, reset, mgfix bool) {
	w := newWorld(npips)
	ri := w.run(steps)
	var key []string
	for _, sp := range steps {
		key = append(key, fmt.Sprintf("%v|%s|%d|%d|%d|%d", sp.restart, coqState(sp.state), sp.failMode, sp.m, sp.r, sp.after))
	}
	if ri.failedApplies > 0 {
		tags = append(tags, "has-failed-apply")
	}
	nt := ri.nWrites >= 10 && ri.completedApplies >= 1 && (ri.failedApplies >= 1 || ri.restarts >= 1 || ri.maxFe >= 4)
	sample := map[string]any{"applies": ri.sample, "single_writes": ri.nWrites, "failed_writes": ri.nFailed,
		"failed_applies": ri.failedApplies, "restarts": ri.restarts, "max_frontends": ri.maxFe, "max_backends": ri.maxBe}
	mk := func(mgcheck bool) string {
		return fmt.Sprintf("(Case %s %s %s %d %s [%s])%%N", coqList(npips), coqBool(reset), coqBool(mgfix), w.lutSize, coqBool(mgcheck), strings.Join(ri.ops, ";\n "))
	}
	k := coqList(npips) + strings.Join(key, "/")
	if ri.mgBad {
		// The driver saw a maglev-flagged frontend without a complete LUT after some single write.  Emit the history
		// twice: once with the maglev part of the oracle off (everything else must still hold) and once with it on.
		_ = enc.Encode(line{Coq: mk(false), NT: nt, Key: k, Sample: sample, Tags: tags})
		_ = enc.Encode(line{Coq: mk(true), NT: nt, Key: k + "|mg", Sample: sample, Tags: append(append([]string(nil), tags...), "maglev-midupdate")})
		return
	}
	_ = enc.Encode(line{Coq: mk(true), NT: nt, Key: k, Sample: sample, Tags: tags})
}

func main() {
	n := flag.Int("n", 100, "cases")
	seed := flag.Uint64("seed", 1, "seed")
	flag.Parse()
	logrus.SetOutput(io.Discard)
	logrus.SetLevel(logrus.PanicLevel)
	r := &rng{s: *seed}
	enc := json.NewEncoder(os.Stdout)
	reset := probeReset()
	mgfix := probeMgFix()
	count := 0
	for _, sc := range scripted() {
		if count >= *n {
			break
		}
		emit(enc, sc.npips, sc.steps, append([]string{"scripted"}, sc.tags...), reset, mgfix)
		count++
	}
	for ; count < *n; count++ {
		npips := []uint32{hostIP}
		switch r.intn(4) {
		case 0:
		case 1:
			npips = append(npips, u32ip(10, 123, 0, 1))
		default:
			npips = append(npips, podNPIP)
		}
		steps, tags := genHistory(r, r.intn(3) == 0)
		emit(enc, npips, steps, tags, reset, mgfix)
	}
}
