//go:build verif

package main

import (
	"github.com/projectcalico/calico/felix/bpf/nat"
)

type scenario struct {
	npips []uint32
	steps []step
	tags  []string
}

func mkEp(ipx uint32, port int, ready bool) epSpec {
	node := int(ipx>>8) & 0xff
	e := epSpec{ip: ipx, port: port, ready: ready, serving: ready, local: node == 0}
	if node != 0 {
		e.node = nodeIPs[node-1]
	}
	return e
}

func feKeyBytes(ipx uint32, port int, proto int) []byte {
	k := nat.NewNATKey(netIP(ipx), uint16(port), uint8(proto))
	return k.AsBytes()
}

// staleIDScenario: two failed first syncs (Felix not yet "synced") with service churn in between.
// The dataplane holds frontends K_S=(10.96.0.1:80) and K_T=(35.0.0.9:80) with the same service id (K_T used
// to be an external IP of S).  Round 1 knows only S, round 2 only T (each adopts the id from the dataplane,
// each apply fails), round 3 knows both.
func staleIDScenario() scenario {
	cipS, cipT := u32ip(10, 96, 0, 1), u32ip(35, 0, 0, 9)
	sOld := svcSpec{name: 0, cip: cipS, port: 80, proto: 6, ext: []uint32{cipT}}
	s := svcSpec{name: 0, cip: cipS, port: 80, proto: 6}
	t := svcSpec{name: 1, cip: cipT, port: 80, proto: 6}
	epsS := []epSpec{mkEp(u32ip(10, 1, 0, 1), 8000, true), mkEp(u32ip(10, 1, 1, 1), 8000, true), mkEp(u32ip(10, 1, 1, 2), 8000, true)}
	epsT := []epSpec{mkEp(u32ip(10, 1, 2, 7), 8001, true)}
	kS, kT := feKeyBytes(cipS, 80, 6), feKeyBytes(cipT, 80, 6)
	return scenario{
		npips: []uint32{hostIP},
		tags:  []string{"scripted:stale-prev-id"},
		steps: []step{
			{state: []svcState{{svc: sOld, eps: epsS}}},                                                          // a previous Felix: S with external IP
			{state: []svcState{{svc: s, eps: epsS}}, restart: true, failMode: 3, failKeys: [][]byte{kT}},         // round 1: S lost the external IP; deleting K_T fails
			{state: []svcState{{svc: t, eps: epsT}}, failMode: 3, failKeys: [][]byte{kS}},                        // round 2: only T (cluster IP = old external IP); deleting K_S fails
			{state: []svcState{{svc: s, eps: epsS}, {svc: t, eps: epsT}}},                                        // round 3: both, no failure
			{state: []svcState{{svc: s, eps: epsS}, {svc: t, eps: append(append([]epSpec(nil), epsT...), mkEp(u32ip(10, 1, 3, 3), 8001, true))}}}, // later sync
		},
	}
}

// maglevScenario: a maglev service loses the annotation, gets it back, loses its ready endpoints, changes its port
// (new id), and is removed.
func maglevScenario() scenario {
	cip := u32ip(10, 96, 0, 1)
	e1, e2 := mkEp(u32ip(10, 1, 1, 1), 8000, true), mkEp(u32ip(10, 1, 0, 1), 8000, true)
	n1, n2 := e1, e2
	n1.ready, n1.serving, n2.ready, n2.serving = false, false, false, false
	m := svcSpec{name: 0, cip: cip, port: 80, proto: 6, lb: []uint32{u32ip(36, 0, 0, 1)}, maglev: true}
	plain := m
	plain.maglev = false
	m81 := m
	m81.port = 81
	return scenario{npips: []uint32{hostIP}, tags: []string{"scripted:maglev"}, steps: []step{
		{state: []svcState{{svc: m, eps: []epSpec{e1, e2}}}},
		{state: []svcState{{svc: plain, eps: []epSpec{e1, e2}}}},
		{state: []svcState{{svc: m, eps: []epSpec{e1, e2}}}},
		{state: []svcState{{svc: m, eps: []epSpec{n1, n2}}}},
		{state: []svcState{{svc: m, eps: []epSpec{e1, e2}}}},
		{state: []svcState{{svc: m81, eps: []epSpec{e1}}}},
		{state: nil},
	}}
}

// idWrapScenario: the id counter (uint32) stands at 2^32-1, as after 2^32-1 allocations; the next two new services get
// 2^32-1 and, after the wrap, 0 - the id service 0 still holds.
func idWrapScenario() scenario {
	mk := func(n int) svcSpec { return svcSpec{name: n, cip: u32ip(10, 96, 0, n+1), port: 80, proto: 6} }
	e := func(k int) epSpec { return mkEp(u32ip(10, 1, 1, k), 8000, true) }
	s0 := svcState{svc: mk(0), eps: []epSpec{e(1)}}
	s1 := svcState{svc: mk(1), eps: []epSpec{e(2)}}
	s2 := svcState{svc: mk(2), eps: []epSpec{e(3), e(4)}}
	return scenario{npips: []uint32{hostIP}, tags: []string{"scripted:id-wrap"}, steps: []step{
		{state: []svcState{s0}},
		{state: []svcState{s0, s1, s2}, setNext: 0xffffffff},
		{state: []svcState{s0, s1, s2}},
	}}
}

func scripted() []scenario {
	cip := u32ip(10, 96, 0, 1)
	e1, e2, e3 := mkEp(u32ip(10, 1, 1, 1), 8000, true), mkEp(u32ip(10, 1, 0, 1), 8000, true), mkEp(u32ip(10, 1, 2, 1), 8000, true)
	s0 := svcSpec{name: 0, cip: cip, port: 80, proto: 6}
	s1 := s0
	s1.np, s1.ext, s1.lb, s1.extLocal = 30001, []uint32{u32ip(35, 0, 0, 1)}, []uint32{u32ip(36, 0, 0, 1)}, true
	s2 := s1
	s2.intLocal = true
	basic := scenario{npips: []uint32{hostIP, podNPIP}, tags: []string{"scripted:basic"}, steps: []step{
		{state: []svcState{{svc: s0, eps: []epSpec{e1}}}},
		{state: []svcState{{svc: s0, eps: []epSpec{e1, e2, e3}}}},
		{state: []svcState{{svc: s1, eps: []epSpec{e1, e2, e3}}}},
		{state: []svcState{{svc: s2, eps: []epSpec{e1, e2, e3}}}, failMode: 2, after: 3},
		{state: []svcState{{svc: s2, eps: []epSpec{e1, e2}}}, restart: true},
		{state: []svcState{{svc: s2, eps: []epSpec{e2}}}},
		{state: nil},
	}}
	return []scenario{basic, staleIDScenario(), maglevScenario(), idWrapScenario()}
}

// probeReset reports whether the tree under test forgets the service ids adopted by a failed first
// sync before it adopts ids from the dataplane again (the repair of the stale-id finding).  The model has
// both behaviours (c_reset).
func probeReset() bool {
	sc := staleIDScenario()
	w := newWorld(sc.npips)
	w.run(sc.steps[:4])
	ids := map[uint32]int{}
	for _, v := range w.fe.Contents {
		ids[nat.FrontendValueFromBytes([]byte(v)).ID()]++
	}
	return len(ids) >= 2
}

// probeMgFix reports whether the tree under test syncs the Maglev LUT map around the frontend updates (updates
// before, deletions after) instead of completely before them.  The three-map model has both orders (k_mgfix).
func probeMgFix() bool {
	sc := maglevScenario()
	w := newWorld(sc.npips)
	ri := w.run(sc.steps)
	return !ri.mgBad
}
