//go:build verif

// C36 correspondence driver: runs the real felix/ip.CIDRTrie (IPv4 and IPv6) on generated
// operation sequences and prints one JSON line per case carrying the case as a Coq term
// (operations plus the implementation's observed, canonicalised results).
package main

import (
	"encoding/json"
	"flag"
	"fmt"
	"math/big"
	"net"
	"os"
	"strings"

	"github.com/projectcalico/calico/felix/calc"
	"github.com/projectcalico/calico/felix/ip"
	"github.com/projectcalico/calico/libcalico-go/lib/backend/model"
)

type rng struct{ s uint64 }

func (r *rng) next() uint64 {
	r.s += 0x9e3779b97f4a7c15
	z := r.s
	z = (z ^ (z >> 30)) * 0xbf58476d1ce4e5b9
	z = (z ^ (z >> 27)) * 0x94d049bb133111eb
	return z ^ (z >> 31)
}
func (r *rng) intn(n int) int { return int(r.next() % uint64(n)) }

type line struct {
	Coq    string         `json:"coq"`
	NT     bool           `json:"nt"`
	Key    string         `json:"key"`
	Sample map[string]any `json:"sample,omitempty"`
	Tags   []string       `json:"tags"`
}

// pfx is a generated prefix: w-bit address (already masked) and length.
type pfx struct {
	a *big.Int
	l int
}

func maskTo(a *big.Int, l, w int) *big.Int {
	r := new(big.Int).Rsh(a, uint(w-l))
	return r.Lsh(r, uint(w-l))
}

func (p pfx) cidr(w int) ip.CIDR {
	b := make([]byte, w/8)
	p.a.FillBytes(b)
	return ip.CIDRFromIPNet(&net.IPNet{IP: net.IP(b), Mask: net.CIDRMask(p.l, w)})
}

func fromCIDR(c ip.CIDR) pfx {
	return pfx{a: new(big.Int).SetBytes([]byte(c.Addr().AsNetIP())), l: int(c.Prefix())}
}

func (p pfx) coq() string { return fmt.Sprintf("(mkP %s %d)", p.a.String(), p.l) }

func (p pfx) human(w int) string { return p.cidr(w).String() }

func bi(s string) *big.Int {
	ipb := net.ParseIP(s)
	if v4 := ipb.To4(); v4 != nil {
		return new(big.Int).SetBytes(v4)
	}
	return new(big.Int).SetBytes(ipb.To16())
}

var v4Bases = []string{"10.0.0.0", "10.0.0.0", "10.0.0.0", "10.0.0.16", "10.0.1.0", "10.128.0.0", "192.168.0.0", "0.0.0.0", "128.0.0.0", "255.255.255.240"}
var v6Bases = []string{"fd00::", "fd00::", "fd00::", "fd00::10", "fd00:0:0:1::", "fd00::8000:0:0:0", "fd00:0:0:0:1::", "::", "8000::", "ffff:ffff:ffff:ffff:ffff:ffff:ffff:fff0"}

// genPfx draws a prefix concentrated in a small range (10.0.0.0/28, fd00::/124) with some
// far-away and boundary prefixes (length 0, the 64-bit word boundary for v6, all-ones).
func genPfx(r *rng, w int) pfx {
	bases := v4Bases
	if w == 128 {
		bases = v6Bases
	}
	a := bi(bases[r.intn(len(bases))])
	a.Or(a, big.NewInt(int64(r.intn(16))))
	var l int
	switch k := r.intn(20); {
	case k < 11:
		l = w - r.intn(6) // w-5..w
	case k < 13:
		l = w
	case k < 14:
		l = 0
	case k < 15:
		l = 1 + r.intn(2)
	case k < 17:
		if w == 128 {
			l = 62 + r.intn(5) // around the uint64 pair boundary
		} else {
			l = []int{8, 9, 16, 24}[r.intn(4)]
		}
	case k < 18:
		l = []int{8, 16, 24, 25}[r.intn(4)]
		if w == 128 {
			l = []int{8, 16, 48, 112, 120}[r.intn(5)]
		}
	default:
		l = r.intn(w + 1)
	}
	return pfx{a: maskTo(a, l, w), l: l}
}

// derive makes a neighbour of p: parent, child, sibling, or host inside it.
func derive(r *rng, p pfx, w int) pfx {
	switch r.intn(5) {
	case 0:
		if p.l > 0 {
			l := p.l - 1 - r.intn(min(p.l, 3))
			if l < 0 {
				l = 0
			}
			return pfx{a: maskTo(p.a, l, w), l: l}
		}
	case 1:
		if p.l < w {
			l := p.l + 1 + r.intn(min(w-p.l, 3))
			if l > w {
				l = w
			}
			a := new(big.Int).Set(p.a)
			for i := p.l; i < l; i++ {
				if r.intn(2) == 1 {
					a.SetBit(a, w-1-i, 1)
				}
			}
			return pfx{a: a, l: l}
		}
	case 2:
		if p.l > 0 {
			a := new(big.Int).Set(p.a)
			bit := w - p.l
			a.SetBit(a, bit, a.Bit(bit)^1)
			return pfx{a: a, l: p.l}
		}
	case 3:
		a := new(big.Int).Set(p.a)
		for i := p.l; i < w; i++ {
			if r.intn(2) == 1 {
				a.SetBit(a, w-1-i, 1)
			}
		}
		return pfx{a: a, l: w}
	}
	return p
}

// commonPfx is the longest prefix covering both p and q (computed here with big.Int, not with
// the code under test): where the trie puts an intermediate node.
func commonPfx(p, q pfx, w int) pfx {
	l := min(p.l, q.l)
	x := new(big.Int).Xor(p.a, q.a)
	if clz := w - x.BitLen(); clz < l {
		l = clz
	}
	return pfx{a: maskTo(p.a, l, w), l: l}
}

func coqList(xs []string) string { return "[" + strings.Join(xs, "; ") + "]" }

func main() {
	n := flag.Int("n", 100, "cases")
	seed := flag.Uint64("seed", 1, "seed")
	flag.Parse()
	r := &rng{s: *seed}
	enc := json.NewEncoder(os.Stdout)
	for i := 0; i < *n; i++ {
		if i%4 == 3 {
			// every fourth case exercises felix/calc.IpTrie (iplpm.go)
			_ = enc.Encode(iptCase(r))
			continue
		}
		w := 32
		fam := "v4"
		if r.intn(5) < 2 {
			w = 128
			fam = "v6"
		}
		// a pool of prefixes so that updates, deletes and queries hit each other
		pool := make([]pfx, 0, 16)
		np := 4 + r.intn(9)
		for len(pool) < np {
			if len(pool) > 0 && r.intn(3) == 0 {
				pool = append(pool, derive(r, pool[r.intn(len(pool))], w))
			} else {
				pool = append(pool, genPfx(r, w))
			}
		}
		pick := func() pfx {
			switch k := r.intn(10); {
			case k < 6:
				return pool[r.intn(len(pool))]
			case k < 8:
				return derive(r, pool[r.intn(len(pool))], w)
			case k < 9:
				return commonPfx(pool[r.intn(len(pool))], pool[r.intn(len(pool))], w)
			default:
				return genPfx(r, w)
			}
		}
		trie := ip.NewCIDRTrie()
		stored := map[string]bool{}
		maxStored, effDeletes, positives, shortLPM := 0, 0, 0, 0
		nops := 12 + r.intn(29)
		var ops, outs, sample []string
		val := 0
		add := func(op, out, human string) {
			ops = append(ops, op)
			outs = append(outs, out)
			if len(sample) < 60 {
				sample = append(sample, human)
			}
		}
		entries := func(es []ip.CIDRTrieEntry) (string, string) {
			var xs, hs []string
			for _, e := range es {
				xs = append(xs, fmt.Sprintf("(%s, %d%%N)", fromCIDR(e.CIDR).coq(), e.Data.(int)))
				hs = append(hs, fmt.Sprintf("%s=%d", e.CIDR, e.Data.(int)))
			}
			return coqList(xs), strings.Join(hs, ",")
		}
		drainFrom := nops
		if r.intn(3) == 0 {
			// drain phase: delete everything that is stored, probing as the trie collapses
			drainFrom = nops * 2 / 3
		}
		var drain []pfx
		for j := 0; j < nops || len(drain) > 0; j++ {
			if j == drainFrom {
				seen := map[string]bool{}
				for _, e := range trie.ToSlice() {
					q := fromCIDR(e.CIDR)
					if !seen[q.coq()] {
						seen[q.coq()] = true
						drain = append(drain, q)
					}
				}
				for x := len(drain) - 1; x > 0; x-- {
					y := r.intn(x + 1)
					drain[x], drain[y] = drain[y], drain[x]
				}
			}
			if j >= drainFrom && len(drain) > 0 {
				p := drain[0]
				drain = drain[1:]
				if stored[p.coq()] {
					effDeletes++
				}
				delete(stored, p.coq())
				trie.Delete(p.cidr(w))
				add("OpDelete "+p.coq(), "ONone", "Delete "+p.human(w))
				q := pick()
				if r.intn(2) == 0 {
					q = pfx{a: new(big.Int), l: 0}
				}
				b := trie.Intersects(q.cidr(w))
				add("OpIntersects "+q.coq(), fmt.Sprintf("OBool %v", b), fmt.Sprintf("Intersects %s -> %v", q.human(w), b))
				if len(drain) == 0 {
					c, h := entries(trie.ToSlice())
					add("OpSlice", "OEntries "+c, "ToSlice -> "+h)
				}
				continue
			}
			if j >= nops {
				break
			}
			k := r.intn(100)
			if j < 3 {
				k = 0
			}
			if j == nops-1 {
				k = 99
			}
			switch {
			case k < 32:
				p := pick()
				val++
				trie.Update(p.cidr(w), val)
				stored[p.coq()] = true
				if len(stored) > maxStored {
					maxStored = len(stored)
				}
				add(fmt.Sprintf("OpUpdate %s %d", p.coq(), val), "ONone", fmt.Sprintf("Update %s %d", p.human(w), val))
			case k < 47:
				p := pick()
				if stored[p.coq()] {
					effDeletes++
				}
				delete(stored, p.coq())
				trie.Delete(p.cidr(w))
				add("OpDelete "+p.coq(), "ONone", "Delete "+p.human(w))
			case k < 55:
				p := pick()
				d := trie.Get(p.cidr(w))
				o := "OData None"
				if d != nil {
					o = fmt.Sprintf("OData (Some %d%%N)", d.(int))
					positives++
				}
				add("OpGet "+p.coq(), o, fmt.Sprintf("Get %s -> %v", p.human(w), d))
			case k < 67:
				p := pick()
				if r.intn(4) != 0 {
					// host query, as at every call site
					p = derive(r, p, w)
					if p.l != w {
						p = pfx{a: p.a, l: w}
					}
				}
				if p.l != w {
					shortLPM++
				}
				c, d := trie.LPM(p.cidr(w))
				o := "OMatch None"
				if d != nil {
					o = fmt.Sprintf("OMatch (Some (%s, %d%%N))", fromCIDR(c).coq(), d.(int))
					positives++
				}
				add("OpLPM "+p.coq(), o, fmt.Sprintf("LPM %s -> %v %v", p.human(w), c, d))
			case k < 75:
				p := pick()
				b := trie.Covers(p.cidr(w))
				if b {
					positives++
				}
				add("OpCovers "+p.coq(), fmt.Sprintf("OBool %v", b), fmt.Sprintf("Covers %s -> %v", p.human(w), b))
			case k < 83:
				p := pick()
				b := trie.Intersects(p.cidr(w))
				if b {
					positives++
				}
				add("OpIntersects "+p.coq(), fmt.Sprintf("OBool %v", b), fmt.Sprintf("Intersects %s -> %v", p.human(w), b))
			case k < 92:
				p := pick()
				var buf []ip.CIDR
				var bufc []string
				if r.intn(5) == 0 {
					q := pick()
					buf = append(buf, q.cidr(w))
					bufc = append(bufc, q.coq())
				}
				res := trie.ClosestDescendants(buf, p.cidr(w))
				var xs, hs []string
				for _, c := range res {
					xs = append(xs, fromCIDR(c).coq())
					hs = append(hs, c.String())
				}
				if len(res) > len(buf) {
					positives++
				}
				add(fmt.Sprintf("OpClosest %s %s", coqList(bufc), p.coq()), "OCidrs "+coqList(xs),
					fmt.Sprintf("ClosestDescendants(buf=%d) %s -> %s", len(buf), p.human(w), strings.Join(hs, ",")))
			case k < 98:
				p := pick()
				res := trie.LookupPath(nil, p.cidr(w))
				c, h := entries(res)
				if len(res) > 0 {
					positives++
				}
				add("OpPath "+p.coq(), "OEntries "+c, fmt.Sprintf("LookupPath %s -> %s", p.human(w), h))
			default:
				c, h := entries(trie.ToSlice())
				add("OpSlice", "OEntries "+c, "ToSlice -> "+h)
			}
		}
		coq := fmt.Sprintf("XTrie {| c_w := %d; c_ops := %s; c_outs := %s |}", w, parenAll(ops), parenAll(outs))
		tags := []string{"stream:trie", "family:" + fam, fmt.Sprintf("maxstored:%d", min(maxStored/3*3, 12))}
		if effDeletes > 0 {
			tags = append(tags, "effective-delete")
		}
		if shortLPM > 0 {
			tags = append(tags, "lpm-short-query")
		}
		_ = enc.Encode(line{Coq: coq, NT: maxStored >= 3 && effDeletes > 0 && positives > 0,
			Key:    fam + "|" + strings.Join(ops, ";"),
			Sample: map[string]any{"family": fam, "trace": sample}, Tags: tags})
	}
}

func parenAll(xs []string) string {
	ys := make([]string, len(xs))
	for i, x := range xs {
		if strings.Contains(x, " ") {
			ys[i] = "(" + x + ")"
		} else {
			ys[i] = x
		}
	}
	return coqList(ys)
}

// ---------------------------------------------------------------------------------------
// felix/calc.IpTrie stream

func bytesN(b string) string {
	xs := make([]string, len(b))
	for i := range b {
		xs[i] = fmt.Sprintf("%d", b[i])
	}
	if len(xs) == 0 {
		return "[]"
	}
	return "[" + strings.Join(xs, "; ") + "]%N"
}

type iptKey struct {
	id  int
	key model.Key
	ns  string
	net bool
}

func (k iptKey) coq() string {
	return fmt.Sprintf("(mkK %d %v %s %s)", k.id, k.net, bytesN(k.ns), bytesN(k.key.String()))
}

func vpCoq(p pfx, w int) string { return fmt.Sprintf("(%d%%nat, %s)", w, p.coq()) }

func iptCase(r *rng) line {
	names := []string{"zeta", "alpha", "ns1/web", "ns1/db", "ns2/web", "ns2/a", "mid", "ns3/x"}
	var keys []iptKey
	for i, nm := range names {
		k := model.NetworkSetKey{Name: nm}
		keys = append(keys, iptKey{id: i + 1, key: k, ns: k.GetNamespace(), net: true})
	}
	keys = append(keys, iptKey{id: 100, key: model.HostEndpointKey{Hostname: "h", EndpointID: "e"}, net: false})
	nk := 3 + r.intn(len(keys)-2)
	perm := make([]int, len(keys))
	for i := range perm {
		perm[i] = i
	}
	for x := len(perm) - 1; x > 0; x-- {
		y := r.intn(x + 1)
		perm[x], perm[y] = perm[y], perm[x]
	}
	var use []iptKey
	for i := 0; i < nk; i++ {
		use = append(use, keys[perm[i]])
	}
	type cp struct {
		p pfx
		w int
	}
	var pool []cp
	npool := 3 + r.intn(6)
	for len(pool) < npool {
		w := 32
		if r.intn(4) == 0 {
			w = 128
		}
		if len(pool) > 0 && r.intn(3) == 0 {
			b := pool[r.intn(len(pool))]
			pool = append(pool, cp{derive(r, b.p, b.w), b.w})
		} else {
			pool = append(pool, cp{genPfx(r, w), w})
		}
	}
	trie := calc.NewIpTrie()
	type pair struct {
		c cp
		k iptKey
	}
	live := map[string]pair{}
	var ops, outs, sample []string
	nonMember, nsQueries, multi, nonMemberSingleton := 0, 0, 0, 0
	add := func(op, out, human string) {
		ops = append(ops, op)
		outs = append(outs, out)
		if len(sample) < 60 {
			sample = append(sample, human)
		}
	}
	nops := 10 + r.intn(25)
	for j := 0; j < nops; j++ {
		k := r.intn(100)
		if j < 3 {
			k = 0
		}
		switch {
		case k < 35:
			c := pool[r.intn(len(pool))]
			ky := use[r.intn(len(use))]
			trie.InsertKey(c.p.cidr(c.w), ky.key)
			live[vpCoq(c.p, c.w)+ky.coq()] = pair{c, ky}
			add(fmt.Sprintf("IInsert %s %s", vpCoq(c.p, c.w), ky.coq()), "IONone", fmt.Sprintf("InsertKey %s %s", c.p.human(c.w), ky.key))
		case k < 50:
			var c cp
			var ky iptKey
			if len(live) > 0 && r.intn(8) != 0 {
				// the callers' discipline: delete a pair that was inserted
				names := make([]string, 0, len(live))
				for nm := range live {
					names = append(names, nm)
				}
				sortStrings(names)
				pr := live[names[r.intn(len(names))]]
				c, ky = pr.c, pr.k
			} else {
				c = pool[r.intn(len(pool))]
				ky = use[r.intn(len(use))]
				if _, ok := live[vpCoq(c.p, c.w)+ky.coq()]; !ok {
					nonMember++
					// how many keys does this CIDR hold right now?
					held := 0
					for _, pr := range live {
						if vpCoq(pr.c.p, pr.c.w) == vpCoq(c.p, c.w) {
							held++
						}
					}
					if held == 1 {
						nonMemberSingleton++
					}
				}
			}
			trie.DeleteKey(c.p.cidr(c.w), ky.key)
			delete(live, vpCoq(c.p, c.w)+ky.coq())
			add(fmt.Sprintf("IDelete %s %s", vpCoq(c.p, c.w), ky.coq()), "IONone", fmt.Sprintf("DeleteKey %s %s", c.p.human(c.w), ky.key))
		case k < 62:
			c := pool[r.intn(len(pool))]
			ks, ok := trie.GetKeys(c.p.cidr(c.w))
			o := "IOKeys None"
			if ok {
				var ids []string
				for _, x := range ks {
					ids = append(ids, fmt.Sprintf("%d", keyID(keys, x)))
				}
				if len(ids) > 1 {
					multi++
				}
				o = "IOKeys (Some [" + strings.Join(ids, "; ") + "]%N)"
				if len(ids) == 0 {
					o = "IOKeys (Some [])"
				}
			}
			add("IGetKeys "+vpCoq(c.p, c.w), o, fmt.Sprintf("GetKeys %s -> %v %v", c.p.human(c.w), ks, ok))
		default:
			c := pool[r.intn(len(pool))]
			h := derive(r, c.p, c.w)
			h = pfx{a: h.a, l: c.w}
			addr := h.cidr(c.w).Addr()
			q := fmt.Sprintf("(%d%%nat, %s%%N)", c.w, h.a.String())
			if k < 80 {
				ky, ok := trie.GetLongestPrefixCidr(addr)
				o := "IOKey None"
				if ok {
					o = fmt.Sprintf("IOKey (Some %d%%N)", keyID(keys, ky))
				}
				add("ILpm "+q, o, fmt.Sprintf("GetLongestPrefixCidr %s -> %v %v", addr, ky, ok))
			} else {
				pref := []string{"", "ns1", "ns2", "ns9"}[r.intn(4)]
				nsQueries++
				ky, ok := trie.GetLongestPrefixCidrWithNamespaceIsolation(addr, pref)
				o := "IOKey None"
				if ok {
					o = fmt.Sprintf("IOKey (Some %d%%N)", keyID(keys, ky))
				}
				add(fmt.Sprintf("ILpmNs %s %s", q, bytesN(pref)), o, fmt.Sprintf("GetLongestPrefixCidrWithNamespaceIsolation %s %q -> %v %v", addr, pref, ky, ok))
			}
		}
	}
	tags := []string{"stream:iplpm"}
	if nonMember > 0 {
		tags = append(tags, "iplpm:non-member-delete")
	}
	if nonMemberSingleton > 0 {
		tags = append(tags, "iplpm:non-member-delete-of-single-key-cidr")
	}
	if nsQueries > 0 {
		tags = append(tags, "iplpm:namespace-query")
	}
	if multi > 0 {
		tags = append(tags, "iplpm:multi-key-cidr")
	}
	coq := fmt.Sprintf("XIpt {| i_ops := %s; i_outs := %s |}", parenAll(ops), parenAll(outs))
	return line{Coq: coq, NT: len(live) >= 2 || multi > 0, Key: "iplpm|" + strings.Join(ops, ";"),
		Sample: map[string]any{"family": "iplpm", "trace": sample}, Tags: tags}
}

func keyID(keys []iptKey, k model.Key) int {
	for _, x := range keys {
		if x.key == k {
			return x.id
		}
	}
	return 0
}

func sortStrings(xs []string) {
	for i := 1; i < len(xs); i++ {
		for j := i; j > 0 && xs[j] < xs[j-1]; j-- {
			xs[j], xs[j-1] = xs[j-1], xs[j]
		}
	}
}
