//go:build verif

// C16 correspondence driver.  It lives in package ipsets_test because the fake `ipset` command
// (mockDataplane) is defined in utils_for_test.go.  The REAL IPSets object is driven through generated
// histories; every `ipset` command it issues goes through c16Harness.newCmd, which
//   - passes `ipset list ...` straight to the mock,
//   - runs every line of an `ipset restore` session as its own mock restore session (so the mock's
//     own per-command code is what executes it) and records the mock kernel after EVERY line,
//   - runs `ipset destroy` through the mock,
//   - makes the command with a chosen global index fail (fault injection at any command).
// One JSON line per case is written to $VERIF_C16_OUT.
package ipsets_test

import (
	"encoding/json"
	"errors"
	"fmt"
	"io"
	"os"
	"sort"
	"strconv"
	"strings"
	"testing"
	"time"

	"github.com/onsi/gomega"
	log "github.com/sirupsen/logrus"

	"github.com/projectcalico/calico/felix/ipsets"
	"github.com/projectcalico/calico/felix/rules"
	"github.com/projectcalico/calico/lib/logrusr"
	"github.com/projectcalico/calico/libcalico-go/lib/set"
)

// ------------------------------------------------------------------ rng
type c16rng struct{ s uint64 }

func (r *c16rng) next() uint64 {
	r.s += 0x9e3779b97f4a7c15
	z := r.s
	z = (z ^ (z >> 30)) * 0xbf58476d1ce4e5b9
	z = (z ^ (z >> 27)) * 0x94d049bb133111eb
	return z ^ (z >> 31)
}
func (r *c16rng) intn(n int) int   { return int(r.next() % uint64(n)) }
func (r *c16rng) chance(p int) bool { return r.intn(100) < p }

// ------------------------------------------------------------------ names
// Coq name = (class, payload): 0 main, 1 temp, 2 other owned, 3.. foreign.
var c16other = []string{"cali4-h0", "felix-4h1", "felix-masq-ipam-pools", "cali4x3"}
var c16foreign = []string{"cali60s0", "KUBE-SRC1", "cali-f2", "calico3", "cali6t0", "felix-6h5"}

func c16main(id int) string { return "cali40s" + strconv.Itoa(id) }
func c16temp(i int) string  { return "cali4t" + strconv.Itoa(i) }

func c16nameCoq(n string) string {
	if strings.HasPrefix(n, "cali40s") {
		if v, err := strconv.Atoi(n[7:]); err == nil {
			return fmt.Sprintf("(0,%d)", v)
		}
	}
	if strings.HasPrefix(n, "cali4t") {
		if v, err := strconv.Atoi(n[6:]); err == nil {
			return fmt.Sprintf("(1,%d)", v)
		}
	}
	for i, o := range c16other {
		if o == n {
			return fmt.Sprintf("(2,%d)", i)
		}
	}
	for i, o := range c16foreign {
		if o == n {
			return fmt.Sprintf("(3,%d)", i)
		}
	}
	panic("c16: unknown set name " + n)
}

// ------------------------------------------------------------------ metadata, members
type c16meta struct{ ty, max, rmin, rmax int }

var c16types = []ipsets.IPSetType{ipsets.IPSetTypeHashIP, ipsets.IPSetTypeHashNet, ipsets.IPSetTypeBitmapPort}

func (m c16meta) coq() string { return fmt.Sprintf("(%d,(%d,(%d,%d)))", m.ty, m.max, m.rmin, m.rmax) }
func (m c16meta) norm() c16meta {
	if m.ty == 2 {
		return c16meta{2, 0, m.rmin, m.rmax}
	}
	return c16meta{m.ty, m.max, 0, 0}
}
func c16tyIdx(t ipsets.IPSetType) int {
	for i, x := range c16types {
		if x == t {
			return i
		}
	}
	panic("c16: unknown type " + string(t))
}
func c16memberStr(ty, v int) string {
	switch ty {
	case 0:
		return fmt.Sprintf("10.0.0.%d", v)
	case 1:
		return fmt.Sprintf("10.%d.0.0/16", v)
	}
	return strconv.Itoa(v)
}

// the textual form tells the type: a.b.c.d/len, a.b.c.d, or a port number
func c16memberCoq(s string) string {
	if strings.Contains(s, "/") {
		p := strings.Split(s, ".")
		return "(1," + p[1] + ")"
	}
	if strings.Contains(s, ".") {
		p := strings.Split(s, ".")
		return "(0," + p[3] + ")"
	}
	return "(2," + s + ")"
}
func c16membersCoq(ms []string) string {
	out := make([]string, len(ms))
	for i, m := range ms {
		out[i] = c16memberCoq(m)
	}
	return "[" + strings.Join(out, ";") + "]"
}

// ------------------------------------------------------------------ kernel snapshots
type c16kset struct {
	meta    c16meta
	members []string // sorted
}

func (a c16kset) eq(b c16kset) bool {
	if a.meta != b.meta || len(a.members) != len(b.members) {
		return false
	}
	for i := range a.members {
		if a.members[i] != b.members[i] {
			return false
		}
	}
	return true
}
func (a c16kset) coq() string { return "(" + a.meta.coq() + ", " + c16membersCoq(a.members) + ")" }

func c16snapshot(d *mockDataplane) map[string]c16kset {
	out := map[string]c16kset{}
	for name, ms := range d.IPSetMembers {
		md := d.IPSetMetadata[name]
		m := c16meta{ty: c16tyIdx(md.Type), max: md.MaxSize, rmin: md.RangeMin, rmax: md.RangeMax}
		var l []string
		for x := range ms.All() {
			l = append(l, x)
		}
		sort.Strings(l)
		out[name] = c16kset{meta: m, members: l}
	}
	return out
}
func c16diff(a, b map[string]c16kset) string {
	var names []string
	for n := range a {
		names = append(names, n)
	}
	for n := range b {
		if _, ok := a[n]; !ok {
			names = append(names, n)
		}
	}
	sort.Strings(names)
	var out []string
	for _, n := range names {
		x, inA := a[n]
		y, inB := b[n]
		switch {
		case inA && !inB:
			out = append(out, "("+c16nameCoq(n)+", None)")
		case inB && (!inA || !x.eq(y)):
			out = append(out, "("+c16nameCoq(n)+", Some "+y.coq()+")")
		}
	}
	return "[" + strings.Join(out, ";") + "]"
}

// ------------------------------------------------------------------ harness around the mock
type c16attempt struct {
	resync []string
	tmpdel []string // "(name,bool)"
	blocks []*c16block
	inj    int // -1 none
	wfail  bool
}
type c16block struct {
	name  string
	lines []string // Coq cmds
}

func (a *c16attempt) coq() string {
	rs := make([]string, len(a.resync))
	for i, n := range a.resync {
		rs[i] = c16nameCoq(n)
	}
	bs := make([]string, len(a.blocks))
	for i, b := range a.blocks {
		bs[i] = "(" + c16nameCoq(b.name) + ", [" + strings.Join(b.lines, ";") + "])"
	}
	inj := "None"
	if a.inj >= 0 {
		inj = fmt.Sprintf("(Some %d%%nat)", a.inj)
	}
	return fmt.Sprintf("mkAtt [%s] [%s] [%s] %s %v", strings.Join(rs, ";"), strings.Join(a.tmpdel, ";"),
		strings.Join(bs, ";"), inj, a.wfail)
}

type c16Harness struct {
	dp   *mockDataplane
	now  time.Time
	adv  time.Duration
	prev map[string]c16kset

	inUpdates bool
	attempts  []*c16attempt
	cur       *c16attempt
	dels      []string
	events    []string

	cmdIdx int          // global index of kernel-changing commands in this case
	faults map[int]int // index -> 0: bad exit status only; d>=1: Felix's write fails d-1 restore lines after the process died

	nFaults, nNatural, nSwaps, nCmds int
	filters                          int
	leakShape, delayed, flagShape    bool
}

func (h *c16Harness) timeNow() time.Time {
	t := h.now
	h.now = h.now.Add(h.adv)
	return t
}

// called by backOff(): exactly once after every failed attempt of the retry loop
func (h *c16Harness) sleep(time.Duration) {
	h.attempts = append(h.attempts, h.cur)
	h.cur = &c16attempt{inj: -1}
}

func (h *c16Harness) record(cmd string, ok bool) {
	snap := c16snapshot(h.dp)
	h.events = append(h.events, fmt.Sprintf("(%s, %v, %s)", cmd, ok, c16diff(h.prev, snap)))
	h.prev = snap
	h.nCmds++
}

// UpdateListener: CaresAboutIPSet is the first thing writeUpdates does, so it marks the block boundaries.
func (h *c16Harness) CaresAboutIPSet(name string) bool {
	h.cur.blocks = append(h.cur.blocks, &c16block{name: name})
	return false
}
func (h *c16Harness) OnMemberProgrammed(string) {}

func (h *c16Harness) newCmd(name string, arg ...string) ipsets.CmdIface {
	switch arg[0] {
	case "list":
		if arg[1] != "-name" {
			h.cur.resync = append(h.cur.resync, arg[1])
		}
		return h.dp.newCmd(name, arg...)
	case "destroy":
		return &c16Destroy{h: h, name: arg[1], inner: h.dp.newCmd(name, arg...)}
	case "restore":
		return &c16Restore{h: h}
	}
	panic("c16: unexpected command " + strings.Join(arg, " "))
}

type c16Destroy struct {
	h     *c16Harness
	name  string
	inner ipsets.CmdIface
}

func (d *c16Destroy) StdinPipe() (ipsets.WriteCloserFlusher, error) { return nil, errors.New("n/a") }
func (d *c16Destroy) StdoutPipe() (io.ReadCloser, error)           { return nil, errors.New("n/a") }
func (d *c16Destroy) SetStdin(io.Reader)                           {}
func (d *c16Destroy) SetStdout(io.Writer)                          {}
func (d *c16Destroy) SetStderr(io.Writer)                          {}
func (d *c16Destroy) Start() error                                 { return nil }
func (d *c16Destroy) Wait() error                                  { return nil }
func (d *c16Destroy) Output() ([]byte, error)                      { return nil, errors.New("n/a") }
func (d *c16Destroy) CombinedOutput() ([]byte, error) {
	h := d.h
	_, inj := h.faults[h.cmdIdx]
	h.cmdIdx++
	if inj {
		h.dp.FailNextDestroy = true
		h.nFaults++
		if !strings.HasPrefix(d.name, "cali4t") {
			h.flagShape = true // a non-temporary set gets DeleteFailed; if it is desired again later its old incarnation is swapped out
		}
	}
	out, err := d.inner.CombinedOutput()
	h.dp.FailNextDestroy = false
	if err != nil && !inj {
		h.nNatural++
	}
	entry := fmt.Sprintf("(%s,%v)", c16nameCoq(d.name), inj)
	if h.inUpdates {
		h.cur.tmpdel = append(h.cur.tmpdel, entry)
	} else {
		h.dels = append(h.dels, entry)
	}
	h.record("CDestroy "+c16nameCoq(d.name), err == nil)
	return out, err
}

// One `ipset restore` session.  Felix writes one line per Write call.
type c16Restore struct {
	h       *c16Harness
	lineIdx int
	dead    bool // a line has failed: the process is gone
	werr    bool // ... and Felix has been told through a failed write
	wdelay  int  // >0: the write of the wdelay-th line from now fails (only once dead)
}

func (r *c16Restore) StdinPipe() (ipsets.WriteCloserFlusher, error) { return r, nil }
func (r *c16Restore) StdoutPipe() (io.ReadCloser, error)           { return nil, errors.New("n/a") }
func (r *c16Restore) SetStdin(io.Reader)                           {}
func (r *c16Restore) SetStdout(io.Writer)                          {}
func (r *c16Restore) SetStderr(io.Writer)                          {}
func (r *c16Restore) Start() error                                 { return nil }
func (r *c16Restore) Output() ([]byte, error)                      { return nil, errors.New("n/a") }
func (r *c16Restore) CombinedOutput() ([]byte, error)              { return nil, errors.New("n/a") }
func (r *c16Restore) Flush() error                                 { return nil }
func (r *c16Restore) Close() error                                 { return nil }
func (r *c16Restore) Wait() error {
	if r.dead {
		return errors.New("exit status 1")
	}
	return nil
}

func c16lineCoq(line string) string {
	p := strings.Split(line, " ")
	switch p[0] {
	case "create":
		ty := c16tyIdx(ipsets.IPSetType(p[2]))
		m := c16meta{ty: ty}
		if ty == 2 {
			rmin, rmax, err := ipsets.ParseRange(p[4])
			if err != nil {
				panic(err)
			}
			m.rmin, m.rmax = rmin, rmax
		} else {
			if p[4] != "inet" {
				panic("c16: family " + p[4])
			}
			m.max, _ = strconv.Atoi(p[6])
		}
		return "CCreate " + c16nameCoq(p[1]) + " " + m.coq()
	case "add":
		return "CAdd " + c16nameCoq(p[1]) + " " + c16memberCoq(p[2])
	case "del":
		return "CDel " + c16nameCoq(p[1]) + " " + c16memberCoq(p[2])
	case "swap":
		return "CSwap " + c16nameCoq(p[1]) + " " + c16nameCoq(p[2])
	}
	panic("c16: unexpected restore line " + line)
}

func (r *c16Restore) Write(p []byte) (int, error) {
	h := r.h
	for _, line := range strings.Split(strings.TrimRight(string(p), "\n"), "\n") {
		if line == "" || line == "COMMIT" {
			continue
		}
		if r.werr {
			return 0, errors.New("broken pipe")
		}
		cq := c16lineCoq(line)
		if len(h.cur.blocks) == 0 {
			panic("c16: restore line outside a writeUpdates block")
		}
		b := h.cur.blocks[len(h.cur.blocks)-1]
		b.lines = append(b.lines, cq)
		idx := r.lineIdx
		r.lineIdx++
		if r.dead {
			if r.wdelay > 0 {
				r.wdelay--
				if r.wdelay == 0 {
					r.werr = true
					h.cur.wfail = true
					h.delayed = true
					if len(b.lines) > 1 && strings.HasPrefix(b.lines[0], "CCreate (1,") {
						h.leakShape = true
					}
					return 0, errors.New("broken pipe")
				}
			}
			continue // written into the void
		}
		mode, inj := h.faults[h.cmdIdx]
		h.cmdIdx++
		if inj {
			h.nFaults++
			h.cur.inj = idx
			r.dead = true
			h.record(cq, false)
			if mode == 1 {
				r.werr = true
				h.cur.wfail = true
				if len(b.lines) > 1 && strings.HasPrefix(b.lines[0], "CCreate (1,") {
					h.leakShape = true // a temporary set was created by a writeUpdates call that then saw a failed write
				}
				return 0, errors.New("broken pipe")
			}
			if mode > 1 {
				r.wdelay = mode - 1
			}
			continue
		}
		// run this one line through the mock's own restore implementation
		sub := h.dp.newCmd("ipset", "restore")
		sub.SetStdin(io.NopCloser(strings.NewReader(line + "\nCOMMIT\n")))
		sub.SetStderr(io.Discard)
		sub.SetStdout(io.Discard)
		if err := sub.Start(); err != nil {
			panic(err)
		}
		err := sub.Wait()
		if err != nil {
			r.dead = true
			h.nNatural++
		}
		if strings.HasPrefix(line, "swap") && err == nil {
			h.nSwaps++
		}
		h.record(cq, err == nil)
	}
	return len(p), nil
}

// ------------------------------------------------------------------ one history
type c16run struct {
	h     *c16Harness
	s     *ipsets.IPSets
	ops   []string
	txt   []string
	k0    string
	panic bool
	// what has been asked for (to generate sensible calls)
	want map[int]c16meta
}

func c16conf() *ipsets.IPVersionConfig {
	return ipsets.NewIPVersionConfig(ipsets.IPFamilyV4, "cali", rules.AllHistoricIPSetNamePrefixes, rules.LegacyV4IPSetNames)
}

func c16new(k0 map[string]c16kset) *c16run {
	dp := newMockDataplane()
	for name, ks := range k0 {
		ms := set.New[string]()
		for _, m := range ks.members {
			ms.Add(m)
		}
		dp.IPSetMembers[name] = ms
		dp.IPSetMetadata[name] = setMetadata{Name: name, Family: ipsets.IPFamilyV4, Type: c16types[ks.meta.ty],
			MaxSize: ks.meta.max, RangeMin: ks.meta.rmin, RangeMax: ks.meta.rmax}
	}
	h := &c16Harness{dp: dp, now: time.Unix(1000, 0), faults: map[int]int{}}
	h.prev = c16snapshot(dp)
	h.cur = &c16attempt{inj: -1}
	r := &c16run{h: h, want: map[int]c16meta{}}
	r.s = ipsets.NewIPSetsWithShims(c16conf(), logrusr.NewSummarizer("c16"), h.newCmd, h.sleep, h.timeNow)
	var names []string
	for n := range k0 {
		names = append(names, n)
	}
	sort.Strings(names)
	var l []string
	for _, n := range names {
		l = append(l, "("+c16nameCoq(n)+", "+k0[n].coq()+")")
	}
	r.k0 = "[" + strings.Join(l, ";") + "]"
	return r
}

func (r *c16run) addOrReplace(id int, m c16meta, vals []int) {
	ms := make([]string, len(vals))
	for i, v := range vals {
		ms[i] = c16memberStr(m.ty, v)
	}
	r.s.AddOrReplaceIPSet(ipsets.IPSetMetadata{SetID: "s" + strconv.Itoa(id), Type: c16types[m.ty], MaxSize: m.max,
		RangeMin: m.rmin, RangeMax: m.rmax}, ms)
	r.want[id] = m
	r.ops = append(r.ops, fmt.Sprintf("OAddOrReplace %d %s %s", id, m.coq(), c16membersCoq(ms)))
	r.txt = append(r.txt, fmt.Sprintf("AddOrReplaceIPSet(s%d,%s,%v)", id, c16types[m.ty], ms))
}
func (r *c16run) changeMembers(add bool, id int, vals []int) {
	m := r.want[id]
	ms := make([]string, len(vals))
	for i, v := range vals {
		ms[i] = c16memberStr(m.ty, v)
	}
	if add {
		r.s.AddMembers("s"+strconv.Itoa(id), ms)
		r.ops = append(r.ops, fmt.Sprintf("OAddMembers %d %s", id, c16membersCoq(ms)))
		r.txt = append(r.txt, fmt.Sprintf("AddMembers(s%d,%v)", id, ms))
	} else {
		r.s.RemoveMembers("s"+strconv.Itoa(id), ms)
		r.ops = append(r.ops, fmt.Sprintf("ORemoveMembers %d %s", id, c16membersCoq(ms)))
		r.txt = append(r.txt, fmt.Sprintf("RemoveMembers(s%d,%v)", id, ms))
	}
}
func (r *c16run) removeSet(id int) {
	r.s.RemoveIPSet("s" + strconv.Itoa(id))
	delete(r.want, id)
	r.ops = append(r.ops, fmt.Sprintf("ORemoveIPSet %d", id))
	r.txt = append(r.txt, fmt.Sprintf("RemoveIPSet(s%d)", id))
}
func (r *c16run) queueResync() {
	r.s.QueueResync()
	r.ops = append(r.ops, "OQueueResync")
	r.txt = append(r.txt, "QueueResync")
}

// SetFilter: ids == nil means no filter
func (r *c16run) setFilter(ids []int, none bool) {
	if none {
		r.s.SetFilter(nil)
		r.ops = append(r.ops, "OSetFilter None")
		r.txt = append(r.txt, "SetFilter(nil)")
		return
	}
	names := set.New[string]()
	var cq []string
	sort.Ints(ids)
	for _, id := range ids {
		names.Add(c16main(id))
		cq = append(cq, fmt.Sprintf("(0,%d)", id))
	}
	r.s.SetFilter(names)
	r.h.filters++
	r.ops = append(r.ops, "OSetFilter (Some ["+strings.Join(cq, ";")+"])")
	r.txt = append(r.txt, fmt.Sprintf("SetFilter(%v)", ids))
}

// somebody else changes the kernel
func (r *c16run) external(f func(dp *mockDataplane)) {
	f(r.h.dp)
	snap := c16snapshot(r.h.dp)
	r.ops = append(r.ops, "OExternal "+c16diff(r.h.prev, snap))
	r.txt = append(r.txt, "external change")
	r.h.prev = snap
}

// one ApplyUpdates + ApplyDeletions; budget 0 = unlimited background re-lists
func (r *c16run) apply(budget int, faults map[int]int) (resched bool) {
	h := r.h
	h.faults = map[int]int{}
	for k, v := range faults {
		h.faults[h.cmdIdx+k] = v
	}
	if budget == 0 {
		h.adv = 0
	} else {
		h.adv = ipsets.BackgroundResyncTimeBudget / time.Duration(budget)
	}
	h.attempts, h.cur, h.dels, h.events = nil, &c16attempt{inj: -1}, nil, nil
	h.inUpdates = true
	panicked := false
	func() {
		defer func() {
			if e := recover(); e != nil {
				panicked = true
			}
		}()
		r.s.ApplyUpdates(h)
	}()
	h.inUpdates = false
	if !panicked {
		h.attempts = append(h.attempts, h.cur)
		resched = r.s.ApplyDeletions()
	}
	as := make([]string, len(h.attempts))
	for i, a := range h.attempts {
		as[i] = a.coq()
	}
	b := "None"
	if budget > 0 {
		b = fmt.Sprintf("(Some %d%%nat)", budget)
	}
	r.ops = append(r.ops, fmt.Sprintf("OApply %s [%s] [%s] [%s] %v %v", b, strings.Join(as, ";"), strings.Join(h.dels, ";"),
		strings.Join(h.events, ";"), resched, panicked))
	r.txt = append(r.txt, fmt.Sprintf("Apply(budget=%d,faults=%v)->attempts=%d cmds=%d resched=%v panic=%v", budget, faults,
		len(h.attempts), len(h.events), resched, panicked))
	r.panic = panicked
	return
}

func (r *c16run) applyUntilQuiet(budget int, faults map[int]int) {
	for i := 0; i < 30; i++ {
		resched := r.apply(budget, faults)
		faults = nil
		if r.panic || !resched {
			return
		}
	}
}

func (r *c16run) coq(fx, fx2 bool) string {
	return fmt.Sprintf("mkCase %v %v %s [%s]", fx, fx2, r.k0, strings.Join(r.ops, ";\n "))
}

// ------------------------------------------------------------------ does this tree have the repair?
// A metadata change whose swap line fails as a failed write: without the repair the temporary set stays in the
// kernel until the next periodic resync.
func c16probe() bool {
	k0 := map[string]c16kset{c16main(0): {meta: c16meta{0, 100, 0, 0}, members: []string{"10.0.0.1"}}}
	r := c16new(k0)
	r.addOrReplace(0, c16meta{0, 100, 0, 0}, []int{1})
	r.applyUntilQuiet(0, nil) // start-of-day resync done
	r.addOrReplace(0, c16meta{0, 200, 0, 0}, []int{1, 2})
	r.applyUntilQuiet(0, map[int]int{3: 1}) // create, add, add, swap
	for name := range r.h.dp.IPSetMembers {
		if strings.HasPrefix(name, "cali4t") {
			return false
		}
	}
	return true
}

// Second repair (fixes/C16-temp-set-flags.patch): a set whose destroy was refused (DeleteFailed) becomes desired again
// with other parameters; without the repair the temporary set that receives its old contents inherits DeleteFailed
// and is skipped by the deletions until the next resync.
func c16probe2() bool {
	k0 := map[string]c16kset{c16main(0): {meta: c16meta{0, 100, 0, 0}, members: []string{"10.0.0.1"}}}
	r := c16new(k0)
	r.applyUntilQuiet(0, map[int]int{0: 0}) // the destroy of cali40s0 is refused
	r.addOrReplace(0, c16meta{0, 200, 0, 0}, []int{1})
	r.applyUntilQuiet(0, nil)
	for name := range r.h.dp.IPSetMembers {
		if strings.HasPrefix(name, "cali4t") {
			return false
		}
	}
	return true
}

// ------------------------------------------------------------------ generation
var c16metas = []c16meta{{0, 100, 0, 0}, {0, 200, 0, 0}, {1, 100, 0, 0}, {2, 0, 0, 100}, {2, 0, 0, 200}, {1, 300, 0, 0}}

func c16genMeta(g *c16rng) c16meta {
	if g.chance(6) {
		// metadata with a field the set type does not use
		if g.chance(50) {
			return c16meta{2, 50, 0, 100}
		}
		return c16meta{0, 100, 0, 7}
	}
	return c16metas[g.intn(len(c16metas))]
}
func c16genVals(g *c16rng, max int) []int {
	n := g.intn(max + 1)
	seen := map[int]bool{}
	var out []int
	for i := 0; i < n; i++ {
		v := 1 + g.intn(6)
		if !seen[v] {
			seen[v] = true
			out = append(out, v)
		}
	}
	return out
}
func c16genKset(g *c16rng, m c16meta) c16kset {
	var ms []string
	for _, v := range c16genVals(g, 4) {
		ms = append(ms, c16memberStr(m.ty, v))
	}
	sort.Strings(ms)
	return c16kset{meta: m.norm(), members: ms}
}
func c16genFaults(g *c16rng, stream string) map[int]int {
	f := map[int]int{}
	p := 45
	if stream == "faulty" {
		p = 85
	}
	if !g.chance(p) {
		return f
	}
	n := 1 + g.intn(2)
	if stream == "faulty" {
		n = 1 + g.intn(4)
	}
	for i := 0; i < n; i++ {
		switch x := g.intn(10); {
		case x < 4:
			f[g.intn(10)] = 0
		case x < 6:
			f[g.intn(10)] = 1
		default:
			f[g.intn(8)] = 2 + g.intn(6) // the write error surfaces 1..6 lines after the process died
		}
	}
	return f
}

func c16genCase(g *c16rng, stream string) (*c16run, []string) {
	tags := []string{"stream:" + stream}
	nIDs := 2 + g.intn(3)
	k0 := map[string]c16kset{}
	if stream != "clean-start" {
		for i := 0; i < nIDs; i++ {
			if g.chance(45) {
				k0[c16main(i)] = c16genKset(g, c16genMeta(g))
			}
		}
		if g.chance(40) {
			k0[c16main(7)] = c16genKset(g, c16genMeta(g))
		}
		for i := 0; i < 3; i++ {
			if g.chance(35) {
				k0[c16temp(i)] = c16genKset(g, c16genMeta(g))
			}
		}
		for _, n := range c16other {
			if g.chance(20) {
				k0[n] = c16genKset(g, c16genMeta(g))
			}
		}
	}
	for _, n := range c16foreign {
		if g.chance(40) {
			k0[n] = c16genKset(g, c16genMeta(g))
		}
	}
	r := c16new(k0)
	rounds := 2 + g.intn(4)
	for round := 0; round < rounds && !r.panic; round++ {
		nops := g.intn(4)
		if round == 0 {
			nops = 1 + g.intn(3)
		}
		if stream == "batch" {
			nops = nIDs + g.intn(2) // every set is touched: several dirty sets in one restore session
		}
		for i := 0; i < nops; i++ {
			id := g.intn(nIDs)
			if stream == "batch" {
				id = i % nIDs
			}
			_, have := r.want[id]
			switch x := g.intn(10); {
			case !have || x < 3:
				r.addOrReplace(id, c16genMeta(g), c16genVals(g, 4))
			case x < 5:
				r.changeMembers(true, id, c16genVals(g, 3))
			case x < 7:
				r.changeMembers(false, id, c16genVals(g, 3))
			case x < 8:
				r.removeSet(id)
			default:
				// same metadata kind, other parameters: forces the temporary-set path
				m := r.want[id]
				if m.ty == 2 {
					m.rmax = 300 - m.rmax
				} else {
					m.max = 300 - m.max
				}
				r.addOrReplace(id, m, c16genVals(g, 4))
			}
		}
		if stream == "filter" && round > 0 && g.chance(75) {
			// a set drops out of the filter and comes back while it is still in the kernel, its members changing meanwhile
			var have []int
			for id := 0; id < nIDs; id++ {
				if _, ok := r.want[id]; ok {
					have = append(have, id)
				}
			}
			if len(have) > 0 {
				out := map[int]bool{have[g.intn(len(have))]: true}
				if g.chance(50) {
					out[have[g.intn(len(have))]] = true
				}
				var keep []int
				for _, id := range have {
					if !out[id] {
						keep = append(keep, id)
					}
				}
				r.setFilter(keep, false)
				if g.chance(50) {
					r.apply(0, nil) // at most one of the dropped sets is deleted (rate limit)
				}
				for id := range have {
					if out[have[id]] && g.chance(80) {
						r.changeMembers(g.chance(60), have[id], c16genVals(g, 3))
					}
				}
				if g.chance(30) {
					r.setFilter(nil, true)
				} else {
					r.setFilter(have, false)
				}
			}
		} else if stream == "filter" || g.chance(8) {
			// raw-only / BPF mode: only some sets are needed; sets drop out and come back while still in the kernel
			k := 1 + g.intn(2)
			for j := 0; j < k; j++ {
				if g.chance(15) {
					r.setFilter(nil, true)
				} else {
					var ids []int
					for id := 0; id < nIDs; id++ {
						if g.chance(50) {
							ids = append(ids, id)
						}
					}
					r.setFilter(ids, false)
				}
				if j+1 < k {
					// something changes while the filter is in this position
					id := g.intn(nIDs)
					if _, have := r.want[id]; have {
						r.changeMembers(g.chance(50), id, c16genVals(g, 3))
					}
				}
			}
		}
		if stream == "drift" && round > 0 && g.chance(60) {
			r.external(func(dp *mockDataplane) {
				var names []string
				for n := range dp.IPSetMembers {
					names = append(names, n)
				}
				sort.Strings(names)
				switch g.intn(4) {
				case 0: // remove a set
					if len(names) > 0 {
						delete(dp.IPSetMembers, names[g.intn(len(names))])
					}
				case 1: // change members of a set
					if len(names) > 0 {
						n := names[g.intn(len(names))]
						ty := c16tyIdx(dp.IPSetMetadata[n].Type)
						ms := set.New[string]()
						for _, v := range c16genVals(g, 4) {
							ms.Add(c16memberStr(ty, v))
						}
						dp.IPSetMembers[n] = ms
					}
				case 2: // create a set with one of Felix's names
					n := c16temp(g.intn(4))
					if g.chance(50) {
						n = c16main(g.intn(nIDs))
					}
					ks := c16genKset(g, c16genMeta(g))
					ms := set.New[string]()
					for _, m := range ks.members {
						ms.Add(m)
					}
					dp.IPSetMembers[n] = ms
					dp.IPSetMetadata[n] = setMetadata{Name: n, Family: ipsets.IPFamilyV4, Type: c16types[ks.meta.ty],
						MaxSize: ks.meta.max, RangeMin: ks.meta.rmin, RangeMax: ks.meta.rmax}
				default:
				}
			})
			if g.chance(70) {
				r.queueResync()
			}
		} else if g.chance(25) {
			r.queueResync()
		}
		budget := []int{0, 0, 1, 2}[g.intn(4)]
		var faults map[int]int
		if stream == "batch" {
			// the process dies while an early set is written, Felix notices while writing a later line
			faults = map[int]int{g.intn(4): []int{0, 1, 2, 3, 4, 6, 8}[g.intn(7)]}
		} else if stream != "clean-start" || g.chance(30) {
			faults = c16genFaults(g, stream)
		}
		r.applyUntilQuiet(budget, faults)
	}
	if !r.panic && stream != "drift" {
		// a last fault-free pass: nothing may be left behind
		r.applyUntilQuiet(0, nil)
	}
	h := r.h
	if h.nFaults > 0 {
		tags = append(tags, "faults:injected")
	}
	if h.nNatural > 0 {
		tags = append(tags, "faults:natural")
	}
	if h.nSwaps > 0 {
		tags = append(tags, "swap")
	}
	if r.panic {
		tags = append(tags, "panic")
	}
	if h.leakShape {
		tags = append(tags, "leak-shape")
	}
	if h.delayed {
		tags = append(tags, "faults:delayed-write-error")
	}
	if h.flagShape {
		tags = append(tags, "delete-failed-shape")
	}
	if h.filters > 0 {
		tags = append(tags, "setfilter")
	}
	return r, tags
}

type c16line struct {
	Coq    string         `json:"coq"`
	NT     bool           `json:"nt"`
	Key    string         `json:"key"`
	Sample map[string]any `json:"sample,omitempty"`
	Tags   []string       `json:"tags"`
}

func TestVerifC16(t *testing.T) {
	out := os.Getenv("VERIF_C16_OUT")
	if out == "" {
		t.Skip("VERIF_C16_OUT not set")
	}
	gomega.RegisterFailHandler(func(message string, _ ...int) { panic("mock assertion: " + message) })
	log.SetOutput(io.Discard)
	log.SetLevel(log.PanicLevel)
	seed, _ := strconv.ParseUint(os.Getenv("VERIF_C16_SEED"), 10, 64)
	n, _ := strconv.Atoi(os.Getenv("VERIF_C16_N"))
	if n == 0 {
		n = 50
	}
	// the name classes used by the model are the real ones
	conf := c16conf()
	for i := 0; i < 8; i++ {
		if conf.NameForMainIPSet("s"+strconv.Itoa(i)) != c16main(i) || conf.NameForTempIPSet(uint(i)) != c16temp(i) ||
			!conf.OwnsIPSet(c16main(i)) || !conf.OwnsIPSet(c16temp(i)) || conf.IsTempIPSetName(c16main(i)) || !conf.IsTempIPSetName(c16temp(i)) {
			t.Fatalf("name scheme differs from the model's for index %d", i)
		}
	}
	for _, o := range c16other {
		if !conf.OwnsIPSet(o) || conf.IsTempIPSetName(o) {
			t.Fatalf("%s should be owned and not temporary", o)
		}
	}
	for _, o := range c16foreign {
		if conf.OwnsIPSet(o) {
			t.Fatalf("%s should be foreign", o)
		}
	}
	fx := c16probe()
	fx2 := c16probe2()
	f, err := os.Create(out)
	if err != nil {
		t.Fatal(err)
	}
	defer f.Close()
	enc := json.NewEncoder(f)
	g := &c16rng{s: seed*0x9e3779b97f4a7c15 + 16}
	streams := []string{"random", "batch", "filter", "faulty", "filter", "drift", "batch", "filter", "clean-start", "faulty", "batch", "filter"}
	for i := 0; i < n; i++ {
		stream := streams[i%len(streams)]
		r, tags := c16genCase(g, stream)
		if fx {
			tags = append(tags, "tree:repaired")
		} else {
			tags = append(tags, "tree:unrepaired")
		}
		if fx2 {
			tags = append(tags, "tree:fix2")
		} else {
			tags = append(tags, "tree:nofix2")
		}
		nt := r.h.nFaults+r.h.nNatural > 0 || r.h.nSwaps > 0
		_ = enc.Encode(c16line{Coq: r.coq(fx, fx2), NT: nt, Key: r.k0 + strings.Join(r.ops, "|"),
			Sample: map[string]any{"k0": r.k0, "ops": r.txt}, Tags: tags})
	}
}
