//go:build verif

// C25 correspondence driver: runs the real dedupebuffer.DedupeBuffer with a recording sink on generated
// sequences of upstream callbacks (updates, statuses, connection restarts) and synchronous consumer pulls,
// and prints one JSON line per case carrying the case (ops + observed sink callbacks) as a Coq term.
package main

import (
	"encoding/json"
	"flag"
	"fmt"
	"os"
	"strings"

	"github.com/sirupsen/logrus"

	"github.com/projectcalico/calico/libcalico-go/lib/backend/api"
	"github.com/projectcalico/calico/libcalico-go/lib/backend/model"
	"github.com/projectcalico/calico/libcalico-go/lib/backend/syncersv1/dedupebuffer"
)

type rng struct{ s uint64 }

func (r *rng) next() uint64 {
	r.s += 0x9e3779b97f4a7c15
	z := r.s
	z = (z ^ (z >> 30)) * 0xbf58476d1ce4e5b9
	z = (z ^ (z >> 27)) * 0x94d049bb133111eb
	return z ^ (z >> 31)
}
func (r *rng) intn(n int) int { return int(r.next() % uint64(n)) }

type line struct {
	Coq    string         `json:"coq"`
	NT     bool           `json:"nt"`
	Key    string         `json:"key"`
	Sample map[string]any `json:"sample,omitempty"`
	Tags   []string       `json:"tags"`
}

const numKeys = 6
const numVals = 3

func keyOf(i int) model.Key { return model.GlobalConfigKey{Name: fmt.Sprintf("k%d", i)} }
func keyIdx(k model.Key) int {
	gk, ok := k.(model.GlobalConfigKey)
	if !ok {
		return 99
	}
	var i int
	if _, err := fmt.Sscanf(gk.Name, "k%d", &i); err != nil {
		return 99
	}
	return i
}

var statusName = map[api.SyncStatus]string{api.WaitForDatastore: "WaitForDatastore", api.ResyncInProgress: "ResyncInProgress", api.InSync: "InSync"}
var utName = map[api.UpdateType]string{api.UpdateTypeKVUnknown: "UTUnknown", api.UpdateTypeKVNew: "UTNew", api.UpdateTypeKVUpdated: "UTUpdated", api.UpdateTypeKVDeleted: "UTDeleted"}

// recording sink: the flattened callback stream of the current operation
type sink struct {
	items []string // Coq terms
	human []string
	view  map[int]int
}

func (s *sink) OnStatusUpdated(st api.SyncStatus) {
	n, ok := statusName[st]
	if !ok {
		n = "WaitForDatastore"
	}
	s.items = append(s.items, fmt.Sprintf("IStatus %s", n))
	s.human = append(s.human, n)
}

func (s *sink) OnUpdates(us []api.Update) {
	for _, u := range us {
		k := keyIdx(u.Key)
		if u.Value == nil {
			s.items = append(s.items, fmt.Sprintf("IUpd (DL %d %s)", k, utName[u.UpdateType]))
			s.human = append(s.human, fmt.Sprintf("del k%d (%s)", k, utName[u.UpdateType]))
			delete(s.view, k)
		} else {
			v := 0
			fmt.Sscanf(u.Value.(string), "v%d", &v)
			s.items = append(s.items, fmt.Sprintf("IUpd (US %d %d %s)", k, v, utName[u.UpdateType]))
			s.human = append(s.human, fmt.Sprintf("k%d=v%d (%s)", k, v, utName[u.UpdateType]))
			s.view[k] = v
		}
	}
}

type upd struct {
	k, v int // v == 0: deletion
	t    api.UpdateType
}

type caseRun struct {
	d        *dedupebuffer.DedupeBuffer
	s        *sink
	ops      []string
	outs     []string
	human    []string
	restarts int
	// bookkeeping for the non-triviality rule
	restartWithLive   bool
	pendingResync     bool
	convergedAfterRst bool
	synthDeletes      bool
}

func (c *caseRun) finishOp(op string, h string) {
	dr := c.d.VerifQueueLen() == 0
	c.ops = append(c.ops, op)
	c.outs = append(c.outs, fmt.Sprintf("([%s], %v)", strings.Join(c.s.items, "; "), dr))
	if len(c.s.human) > 0 {
		h += " -> " + strings.Join(c.s.human, ", ")
	}
	if dr {
		h += " [empty]"
	}
	c.human = append(c.human, h)
	if dr && !c.pendingResync && c.restartWithLive {
		c.convergedAfterRst = true
	}
	c.s.items, c.s.human = nil, nil
}

func (c *caseRun) restart() {
	if len(c.s.view) > 0 {
		c.restartWithLive = true
	}
	c.pendingResync = true
	c.restarts++
	c.d.OnTyphaConnectionRestarted()
	c.finishOp("OpRestart", "restart")
}

func (c *caseRun) status(st api.SyncStatus) {
	before := c.d.VerifQueueLen()
	c.d.OnStatusUpdated(st)
	var ord []string
	for _, k := range c.d.VerifPendingKeys() {
		ord = append(ord, fmt.Sprint(keyIdx(k)))
	}
	if st == api.InSync {
		if c.pendingResync && c.d.VerifQueueLen() > before+1 {
			c.synthDeletes = true
		}
		c.pendingResync = false
	}
	c.finishOp(fmt.Sprintf("OpStatus %s [%s]", statusName[st], strings.Join(ord, "; ")), "status "+statusName[st])
}

func (c *caseRun) updates(us []upd) {
	var gus []api.Update
	var cs, hs []string
	for _, u := range us {
		g := api.Update{KVPair: model.KVPair{Key: keyOf(u.k)}, UpdateType: u.t}
		if u.v != 0 {
			g.Value = fmt.Sprintf("v%d", u.v)
			cs = append(cs, fmt.Sprintf("US %d %d %s", u.k, u.v, utName[u.t]))
			hs = append(hs, fmt.Sprintf("k%d=v%d", u.k, u.v))
		} else {
			cs = append(cs, fmt.Sprintf("DL %d %s", u.k, utName[u.t]))
			hs = append(hs, fmt.Sprintf("del k%d", u.k))
		}
		gus = append(gus, g)
	}
	c.d.OnUpdates(gus)
	c.finishOp(fmt.Sprintf("OpUpdates [%s]", strings.Join(cs, "; ")), "updates "+strings.Join(hs, ","))
}

func (c *caseRun) pull(n int) {
	c.d.VerifPull(c.s, n)
	c.finishOp(fmt.Sprintf("OpPull %d%%nat", n), fmt.Sprintf("pull %d", n))
}

func (c *caseRun) drain() {
	_ = c.d.VerifDrain(c.s)
	c.finishOp("OpPull 100%nat", "drain")
}

func randType(r *rng) api.UpdateType {
	return []api.UpdateType{api.UpdateTypeKVUnknown, api.UpdateTypeKVNew, api.UpdateTypeKVUpdated, api.UpdateTypeKVNew}[r.intn(4)]
}

func (c *caseRun) maybePull(r *rng, pct int) {
	if r.intn(100) < pct {
		switch r.intn(6) {
		case 0:
			c.drain()
		case 1:
			c.pull(0)
		default:
			c.pull(1 + r.intn(4))
		}
	}
}

// protocol-shaped case: a datastore ("truth") that changes over time, connections that send a snapshot of
// it in batches, then in-sync, then deltas; the connection is restarted at arbitrary points (also
// mid-snapshot and back-to-back), the way syncclient does it (restart, WaitForDatastore, ResyncInProgress).
func genProtocol(r *rng, c *caseRun) {
	truth := map[int]int{}
	mutate := func() (int, int) {
		k := r.intn(numKeys)
		if _, ok := truth[k]; ok && r.intn(3) == 0 {
			delete(truth, k)
			return k, 0
		}
		v := 1 + r.intn(numVals)
		truth[k] = v
		return k, v
	}
	for i := 0; i < 2+r.intn(4); i++ {
		mutate()
	}
	pullPct := []int{0, 20, 50, 90}[r.intn(4)]
	conns := 2 + r.intn(3)
	for ci := 0; ci < conns; ci++ {
		if ci > 0 {
			c.restart()
			if r.intn(8) != 0 {
				c.status(api.WaitForDatastore)
			}
			c.maybePull(r, pullPct)
		}
		if r.intn(8) != 0 {
			c.status(api.ResyncInProgress)
		}
		// snapshot, in random key order, in batches
		var snap []upd
		perm := []int{}
		for k := range numKeys {
			perm = append(perm, k)
		}
		for i := len(perm) - 1; i > 0; i-- {
			j := r.intn(i + 1)
			perm[i], perm[j] = perm[j], perm[i]
		}
		for _, k := range perm {
			if v, ok := truth[k]; ok {
				snap = append(snap, upd{k, v, api.UpdateTypeKVNew})
			}
		}
		aborted := false
		for len(snap) > 0 {
			n := 1 + r.intn(3)
			if n > len(snap) {
				n = len(snap)
			}
			c.updates(snap[:n])
			snap = snap[n:]
			c.maybePull(r, pullPct)
			if ci < conns-1 && r.intn(10) == 0 {
				aborted = true // connection dies mid-snapshot
				break
			}
		}
		if aborted {
			continue
		}
		c.status(api.InSync)
		c.maybePull(r, pullPct)
		// deltas; the datastore also moves while we are disconnected
		for i := 0; i < r.intn(5); i++ {
			k, v := mutate()
			t := api.UpdateTypeKVUpdated
			if v == 0 {
				t = api.UpdateTypeKVDeleted
			}
			c.updates([]upd{{k, v, t}})
			c.maybePull(r, pullPct)
		}
		for i := 0; i < r.intn(4); i++ {
			mutate()
		}
	}
	c.drain()
}

// unconstrained soup of operations, including duplicates, deletions of unknown keys, status flapping,
// back-to-back restarts and restarts that are not followed by any status.
func genRandom(r *rng, c *caseRun, boundary bool) {
	nops := 6 + r.intn(30)
	for i := 0; i < nops; i++ {
		x := r.intn(100)
		switch {
		case x < 38:
			var us []upd
			for j := 0; j < 1+r.intn(4); j++ {
				k := r.intn(numKeys)
				if r.intn(10) < 3 {
					us = append(us, upd{k, 0, api.UpdateTypeKVDeleted})
				} else {
					us = append(us, upd{k, 1 + r.intn(numVals), randType(r)})
				}
				if boundary && r.intn(3) == 0 {
					us = append(us, us[len(us)-1]) // exact duplicate
				}
			}
			c.updates(us)
		case x < 58:
			st := []api.SyncStatus{api.WaitForDatastore, api.ResyncInProgress, api.InSync, api.InSync}[r.intn(4)]
			c.status(st)
			if boundary && r.intn(3) == 0 {
				c.status([]api.SyncStatus{api.WaitForDatastore, api.ResyncInProgress, api.InSync}[r.intn(3)])
			}
		case x < 70:
			c.restart()
			if boundary && r.intn(3) == 0 {
				c.restart()
			}
		case x < 76:
			c.drain()
		default:
			n := r.intn(5)
			if boundary && r.intn(4) == 0 {
				n = 0
			}
			c.pull(n)
		}
	}
	if r.intn(3) != 0 {
		c.status(api.InSync)
		c.drain()
	}
}

func main() {
	n := flag.Int("n", 100, "cases")
	seed := flag.Uint64("seed", 1, "seed")
	flag.Parse()
	logrus.SetLevel(logrus.PanicLevel)
	r := &rng{s: *seed}
	enc := json.NewEncoder(os.Stdout)
	for i := 0; i < *n; i++ {
		c := &caseRun{d: dedupebuffer.New(), s: &sink{view: map[int]int{}}}
		var tag string
		func() {
			// A panic inside the real code must become a failing case with a replay, not a dead driver:
			// record an operation without an observation, which the oracle rejects.
			defer func() {
				if e := recover(); e != nil {
					c.ops = append(c.ops, "OpPull 0%nat")
					c.human = append(c.human, fmt.Sprintf("PANIC in the real code during the next operation: %v", e))
					tag += "+panic"
				}
			}()
			switch k := r.intn(10); {
			case k < 5:
				tag = "gen:protocol"
				genProtocol(r, c)
			case k < 8:
				tag = "gen:random"
				genRandom(r, c, false)
			default:
				tag = "gen:boundary"
				genRandom(r, c, true)
			}
		}()
		coq := fmt.Sprintf("{| c_ops := [%s]; c_outs := [%s] |}", parenJoin(c.ops), strings.Join(c.outs, "; "))
		tags := []string{tag, fmt.Sprintf("restarts:%d", min(c.restarts, 3))}
		if c.synthDeletes {
			tags = append(tags, "synthesized-deletes")
		}
		if c.convergedAfterRst {
			tags = append(tags, "converged-after-restart")
		}
		_ = enc.Encode(line{Coq: coq, NT: c.restartWithLive && c.convergedAfterRst, Key: strings.Join(c.ops, ";"),
			Sample: map[string]any{"trace": c.human}, Tags: tags})
	}
}

func parenJoin(xs []string) string {
	ys := make([]string, len(xs))
	for i, x := range xs {
		if strings.Contains(x, " ") {
			ys[i] = "(" + x + ")"
		} else {
			ys[i] = x
		}
	}
	return strings.Join(ys, "; ")
}
