//go:build verif

// C25 correspondence driver: runs the real dedupebuffer.DedupeBuffer with a recording sink on generated
// sequences of upstream callbacks (updates, statuses, connection restarts) and synchronous consumer pulls,
// and prints one JSON line per case carrying the case (ops + observed sink callbacks) as a Coq term.
package main

import (
	"context"
	"encoding/gob"
	"encoding/json"
	"flag"
	"fmt"
	"net"
	"os"
	"sort"
	"strings"
	"sync"
	"time"

	"github.com/sirupsen/logrus"

	"github.com/projectcalico/calico/libcalico-go/lib/backend/api"
	"github.com/projectcalico/calico/libcalico-go/lib/backend/model"
	"github.com/projectcalico/calico/libcalico-go/lib/backend/syncersv1/dedupebuffer"
	"github.com/projectcalico/calico/typha/pkg/discovery"
	"github.com/projectcalico/calico/typha/pkg/syncclient"
	"github.com/projectcalico/calico/typha/pkg/syncproto"
)

type rng struct{ s uint64 }

func (r *rng) next() uint64 {
	r.s += 0x9e3779b97f4a7c15
	z := r.s
	z = (z ^ (z >> 30)) * 0xbf58476d1ce4e5b9
	z = (z ^ (z >> 27)) * 0x94d049bb133111eb
	return z ^ (z >> 31)
}
func (r *rng) intn(n int) int { return int(r.next() % uint64(n)) }

type line struct {
	Coq    string         `json:"coq"`
	NT     bool           `json:"nt"`
	Key    string         `json:"key"`
	Sample map[string]any `json:"sample,omitempty"`
	Tags   []string       `json:"tags"`
}

const numKeys = 6
const numVals = 3

func keyOf(i int) model.Key { return model.GlobalConfigKey{Name: fmt.Sprintf("k%d", i)} }
func keyIdx(k model.Key) int {
	gk, ok := k.(model.GlobalConfigKey)
	if !ok {
		return 99
	}
	var i int
	if _, err := fmt.Sscanf(gk.Name, "k%d", &i); err != nil {
		return 99
	}
	return i
}

var statusName = map[api.SyncStatus]string{api.WaitForDatastore: "WaitForDatastore", api.ResyncInProgress: "ResyncInProgress", api.InSync: "InSync"}
var utName = map[api.UpdateType]string{api.UpdateTypeKVUnknown: "UTUnknown", api.UpdateTypeKVNew: "UTNew", api.UpdateTypeKVUpdated: "UTUpdated", api.UpdateTypeKVDeleted: "UTDeleted"}

// recording sink: the flattened callback stream of the current operation
type sink struct {
	items []string // Coq terms
	cbs   []string // the callbacks as they were made: CbUpdates [...] / CbStatus s
	human []string
	view  map[int]int
}

func (s *sink) OnStatusUpdated(st api.SyncStatus) {
	n, ok := statusName[st]
	if !ok {
		n = "WaitForDatastore"
	}
	s.items = append(s.items, fmt.Sprintf("IStatus %s", n))
	s.cbs = append(s.cbs, fmt.Sprintf("CbStatus %s", n))
	s.human = append(s.human, n)
}

func (s *sink) OnUpdates(us []api.Update) {
	first := len(s.items)
	defer func() {
		var ts []string
		for _, it := range s.items[first:] {
			ts = append(ts, strings.TrimSuffix(strings.TrimPrefix(it, "IUpd ("), ")"))
		}
		s.cbs = append(s.cbs, fmt.Sprintf("CbUpdates [%s]", strings.Join(ts, "; ")))
	}()
	for _, u := range us {
		k := keyIdx(u.Key)
		if u.Value == nil {
			s.items = append(s.items, fmt.Sprintf("IUpd (DL %d %s)", k, utName[u.UpdateType]))
			s.human = append(s.human, fmt.Sprintf("del k%d (%s)", k, utName[u.UpdateType]))
			delete(s.view, k)
		} else {
			v := 0
			fmt.Sscanf(fmt.Sprint(u.Value), "v%d", &v)
			s.items = append(s.items, fmt.Sprintf("IUpd (US %d %d %s)", k, v, utName[u.UpdateType]))
			s.human = append(s.human, fmt.Sprintf("k%d=v%d (%s)", k, v, utName[u.UpdateType]))
			s.view[k] = v
		}
	}
}

type upd struct {
	k, v int // v == 0: deletion
	t    api.UpdateType
}

type caseRun struct {
	d        *dedupebuffer.DedupeBuffer
	s        *sink
	ops      []string
	outs     []string
	human    []string
	restarts int
	// bookkeeping for the non-triviality rule
	lastDrained       bool
	valueless         bool // some value-less update carried a type other than "deleted"
	cbs               []string
	batch             int // batch size of the consumer step being recorded (0: not a consumer step)
	multiBatch        bool
	events            []string // wire events, real-syncclient stream only
	restartWithLive   bool
	pendingResync     bool
	convergedAfterRst bool
	synthDeletes      bool
}

func (c *caseRun) finishOp(op string, h string) {
	c.finishOpD(op, h, c.d.VerifQueueLen() == 0)
}

func (c *caseRun) finishOpD(op string, h string, dr bool) {
	c.ops = append(c.ops, op)
	c.outs = append(c.outs, fmt.Sprintf("([%s], %v)", strings.Join(c.s.items, "; "), dr))
	c.cbs = append(c.cbs, fmt.Sprintf("(%d%%nat, [%s])", c.batch, strings.Join(c.s.cbs, "; ")))
	c.batch = 0
	if len(c.s.human) > 0 {
		h += " -> " + strings.Join(c.s.human, ", ")
	}
	if dr {
		h += " [empty]"
	}
	c.human = append(c.human, h)
	if dr && !c.pendingResync && c.restartWithLive {
		c.convergedAfterRst = true
	}
	c.s.items, c.s.human, c.s.cbs = nil, nil, nil
}

func (c *caseRun) restart() {
	if len(c.s.view) > 0 {
		c.restartWithLive = true
	}
	c.pendingResync = true
	c.restarts++
	c.d.OnTyphaConnectionRestarted()
	c.finishOp("OpRestart", "restart")
}

func (c *caseRun) status(st api.SyncStatus) {
	before := c.d.VerifQueueLen()
	c.d.OnStatusUpdated(st)
	var ord []string
	for _, k := range c.d.VerifPendingKeys() {
		ord = append(ord, fmt.Sprint(keyIdx(k)))
	}
	if st == api.InSync {
		if c.pendingResync && c.d.VerifQueueLen() > before+1 {
			c.synthDeletes = true
		}
		c.pendingResync = false
	}
	c.finishOp(fmt.Sprintf("OpStatus %s [%s]", statusName[st], strings.Join(ord, "; ")), "status "+statusName[st])
}

func (c *caseRun) updates(us []upd) {
	var gus []api.Update
	var cs, hs []string
	for _, u := range us {
		g := api.Update{KVPair: model.KVPair{Key: keyOf(u.k)}, UpdateType: u.t}
		if u.v != 0 {
			g.Value = fmt.Sprintf("v%d", u.v)
			cs = append(cs, fmt.Sprintf("US %d %d %s", u.k, u.v, utName[u.t]))
			hs = append(hs, fmt.Sprintf("k%d=v%d", u.k, u.v))
		} else {
			cs = append(cs, fmt.Sprintf("DL %d %s", u.k, utName[u.t]))
			hs = append(hs, fmt.Sprintf("del k%d", u.k))
			if u.t != api.UpdateTypeKVDeleted {
				c.valueless = true
				hs[len(hs)-1] = fmt.Sprintf("k%d=nil(%s)", u.k, utName[u.t])
			}
		}
		gus = append(gus, g)
	}
	c.d.OnUpdates(gus)
	c.finishOp(fmt.Sprintf("OpUpdates [%s]", strings.Join(cs, "; ")), "updates "+strings.Join(hs, ","))
}

func (c *caseRun) pull(n int) {
	c.d.VerifPull(c.s, n)
	c.batch = n
	c.finishOp(fmt.Sprintf("OpPull %d%%nat", n), fmt.Sprintf("pull %d", n))
	if c.events != nil {
		c.events = append(c.events, fmt.Sprintf("EvPull %d%%nat", n))
	}
}

// drain: the package's own loop (batches of 100 until empty) = one pull of everything (c25_drain_is_pull_all);
// the callbacks are compared with the model's chunks of 100.
func (c *caseRun) drain() {
	n := max(c.d.VerifQueueLen(), 100)
	if n > 100 {
		c.multiBatch = true
	}
	_ = c.d.VerifDrain(c.s)
	c.batch = 100
	c.finishOp(fmt.Sprintf("OpPull %d%%nat", n), "drain")
	if c.events != nil {
		c.events = append(c.events, fmt.Sprintf("EvPull %d%%nat", n))
	}
}

// type carried by a value-less update: usually "deleted", but Typha forwards validation failures (nil value) with
// their original type, so new/updated/unknown occur as well.  The buffer passes the type through; downstream and
// liveResourceKeys go by Value == nil.
func delType(r *rng) api.UpdateType {
	return []api.UpdateType{api.UpdateTypeKVDeleted, api.UpdateTypeKVDeleted, api.UpdateTypeKVDeleted, api.UpdateTypeKVDeleted,
		api.UpdateTypeKVNew, api.UpdateTypeKVUpdated, api.UpdateTypeKVUpdated, api.UpdateTypeKVUnknown}[r.intn(8)]
}

func randType(r *rng) api.UpdateType {
	return []api.UpdateType{api.UpdateTypeKVUnknown, api.UpdateTypeKVNew, api.UpdateTypeKVUpdated, api.UpdateTypeKVNew}[r.intn(4)]
}

func (c *caseRun) maybePull(r *rng, pct int) {
	if r.intn(100) < pct {
		switch r.intn(6) {
		case 0:
			c.drain()
		case 1:
			c.pull(0)
		default:
			c.pull(1 + r.intn(4))
		}
	}
}

// protocol-shaped case: a datastore ("truth") that changes over time, connections that send a snapshot of
// it in batches, then in-sync, then deltas; the connection is restarted at arbitrary points (also
// mid-snapshot and back-to-back), the way syncclient does it (restart, WaitForDatastore, ResyncInProgress).
func genProtocol(r *rng, c *caseRun) {
	truth := map[int]int{}
	mutate := func() (int, int) {
		k := r.intn(numKeys)
		if _, ok := truth[k]; ok && r.intn(3) == 0 {
			delete(truth, k)
			return k, 0
		}
		v := 1 + r.intn(numVals)
		truth[k] = v
		return k, v
	}
	for i := 0; i < 2+r.intn(4); i++ {
		mutate()
	}
	pullPct := []int{0, 20, 50, 90}[r.intn(4)]
	conns := 2 + r.intn(3)
	for ci := 0; ci < conns; ci++ {
		if ci > 0 {
			c.restart()
			if r.intn(8) != 0 {
				c.status(api.WaitForDatastore)
			}
			c.maybePull(r, pullPct)
		}
		if r.intn(8) != 0 {
			c.status(api.ResyncInProgress)
		}
		// snapshot, in random key order, in batches
		var snap []upd
		perm := []int{}
		for k := range numKeys {
			perm = append(perm, k)
		}
		for i := len(perm) - 1; i > 0; i-- {
			j := r.intn(i + 1)
			perm[i], perm[j] = perm[j], perm[i]
		}
		for _, k := range perm {
			if v, ok := truth[k]; ok {
				snap = append(snap, upd{k, v, api.UpdateTypeKVNew})
			}
		}
		aborted := false
		for len(snap) > 0 {
			n := 1 + r.intn(3)
			if n > len(snap) {
				n = len(snap)
			}
			c.updates(snap[:n])
			snap = snap[n:]
			c.maybePull(r, pullPct)
			if ci < conns-1 && r.intn(10) == 0 {
				aborted = true // connection dies mid-snapshot
				break
			}
		}
		if aborted {
			continue
		}
		c.status(api.InSync)
		c.maybePull(r, pullPct)
		// deltas; the datastore also moves while we are disconnected
		for i := 0; i < r.intn(5); i++ {
			k, v := mutate()
			t := api.UpdateTypeKVUpdated
			if v == 0 {
				t = delType(r)
			}
			c.updates([]upd{{k, v, t}})
			c.maybePull(r, pullPct)
		}
		for i := 0; i < r.intn(4); i++ {
			mutate()
		}
	}
	c.drain()
}

// unconstrained soup of operations, including duplicates, deletions of unknown keys, status flapping,
// back-to-back restarts and restarts that are not followed by any status.
func genRandom(r *rng, c *caseRun, boundary bool) {
	nops := 6 + r.intn(30)
	for i := 0; i < nops; i++ {
		x := r.intn(100)
		switch {
		case x < 38:
			var us []upd
			for j := 0; j < 1+r.intn(4); j++ {
				k := r.intn(numKeys)
				if r.intn(10) < 3 {
					us = append(us, upd{k, 0, delType(r)})
				} else {
					us = append(us, upd{k, 1 + r.intn(numVals), randType(r)})
				}
				if boundary && r.intn(3) == 0 {
					us = append(us, us[len(us)-1]) // exact duplicate
				}
			}
			c.updates(us)
		case x < 58:
			st := []api.SyncStatus{api.WaitForDatastore, api.ResyncInProgress, api.InSync, api.InSync}[r.intn(4)]
			c.status(st)
			if boundary && r.intn(3) == 0 {
				c.status([]api.SyncStatus{api.WaitForDatastore, api.ResyncInProgress, api.InSync}[r.intn(3)])
			}
		case x < 70:
			c.restart()
			if boundary && r.intn(3) == 0 {
				c.restart()
			}
		case x < 76:
			c.drain()
		default:
			n := r.intn(5)
			if boundary && r.intn(4) == 0 {
				n = 0
			}
			c.pull(n)
		}
	}
	if r.intn(3) != 0 {
		c.status(api.InSync)
		c.drain()
	}
}

// ---------------------------------------------------------------------------------------------------------------
// Second stream: the REAL syncclient.SyncerClient (Start, its reconnect goroutine, startOneConnection, connect,
// loop) with the REAL DedupeBuffer as its callbacks, talking over loopback TCP to a scripted Typha endpoint that
// serves snapshot + deltas, drops the connection at arbitrary points and comes back with a different datastore.
//
// The history handed to the model/oracle is the GROUND TRUTH of the endpoint, not what the buffer happened to be
// told: every dropped connection is an OpRestart, every message sent is an OpUpdates / OpStatus.  Only the
// statuses the client generates by itself (ResyncInProgress at loop start, WaitForDatastore after a restart) are
// taken from what the buffer received.  If the client does not announce a restart before the new connection's data
// (or announces it late), the sink's stream differs from the model's and the convergence oracle fails.
//
// Determinism without sleeps: the endpoint follows every message with a MsgPing and waits for the MsgPong (the
// client handles messages sequentially, so the callback for the message has returned); after a drop it waits for the
// next connection's MsgClientHello (sent by the client after the restart callbacks and the loop-start status).

type cbRec struct {
	kind    string // "restart", "status", "updates"
	st      api.SyncStatus
	ord     []string
	drained bool
}

// recCB is what the client sees as its callbacks: it forwards to the real DedupeBuffer and notes, after each call,
// the order of the queued keys and whether the queue is empty.
type recCB struct {
	mu     sync.Mutex
	d      *dedupebuffer.DedupeBuffer
	recs   []cbRec
	closed bool
}

func (w *recCB) note(kind string, st api.SyncStatus) {
	var ord []string
	for _, k := range w.d.VerifPendingKeys() {
		ord = append(ord, fmt.Sprint(keyIdx(k)))
	}
	w.recs = append(w.recs, cbRec{kind: kind, st: st, ord: ord, drained: w.d.VerifQueueLen() == 0})
}

func (w *recCB) OnTyphaConnectionRestarted() {
	w.mu.Lock()
	defer w.mu.Unlock()
	if w.closed {
		return
	}
	w.d.OnTyphaConnectionRestarted()
	w.note("restart", 0)
}

func (w *recCB) OnStatusUpdated(st api.SyncStatus) {
	w.mu.Lock()
	defer w.mu.Unlock()
	if w.closed {
		return
	}
	w.d.OnStatusUpdated(st)
	w.note("status", st)
}

func (w *recCB) OnUpdates(us []api.Update) {
	w.mu.Lock()
	defer w.mu.Unlock()
	if w.closed {
		return
	}
	w.d.OnUpdates(us)
	w.note("updates", 0)
}

func (w *recCB) since(i int) []cbRec {
	w.mu.Lock()
	defer w.mu.Unlock()
	return append([]cbRec(nil), w.recs[i:]...)
}

var _ syncclient.RestartAwareCallbacks = (*recCB)(nil)

type srvConn struct {
	c       net.Conn
	enc     *gob.Encoder
	dec     *gob.Decoder
	refused bool
}

type fakeTypha struct {
	ln    net.Listener
	modeC chan bool     // true: complete the handshake, false: read the hello and hang up
	connC chan *srvConn // nil: handshake refused
	n     uint64
}

const ioTimeout = 5 * time.Second

func (f *fakeTypha) acceptLoop() {
	for {
		c, err := f.ln.Accept()
		if err != nil {
			return
		}
		ok := <-f.modeC
		_ = c.SetDeadline(time.Now().Add(ioTimeout))
		dec := gob.NewDecoder(c)
		var env syncproto.Envelope
		if err := dec.Decode(&env); err != nil {
			_ = c.Close()
			f.connC <- nil
			continue
		}
		if !ok {
			// refused: the driver hangs up once it has looked at the buffer
			f.connC <- &srvConn{c: c, refused: true}
			continue
		}
		f.n++
		enc := gob.NewEncoder(c)
		err = enc.Encode(syncproto.Envelope{Message: syncproto.MsgServerHello{Version: "verif",
			SyncerType: syncproto.SyncerTypeFelix, SupportsNodeResourceUpdates: true, ServerConnID: f.n}})
		if err != nil {
			_ = c.Close()
			f.connC <- nil
			continue
		}
		f.connC <- &srvConn{c: c, enc: enc, dec: dec}
	}
}

// send one message and make sure the client has finished handling it (ping/pong)
func (sc *srvConn) send(msg any) error {
	_ = sc.c.SetDeadline(time.Now().Add(ioTimeout))
	if err := sc.enc.Encode(syncproto.Envelope{Message: msg}); err != nil {
		return err
	}
	if err := sc.enc.Encode(syncproto.Envelope{Message: syncproto.MsgPing{Timestamp: time.Now()}}); err != nil {
		return err
	}
	var env syncproto.Envelope
	if err := sc.dec.Decode(&env); err != nil {
		return err
	}
	if _, ok := env.Message.(syncproto.MsgPong); !ok {
		return fmt.Errorf("expected pong, got %T", env.Message)
	}
	return nil
}

type clientRun struct {
	*caseRun
	r       *rng
	w       *recCB
	f       *fakeTypha
	sc      *srvConn
	recIdx  int
	tags    map[string]bool
	trouble string
}

func (c *clientRun) fail(msg string) {
	if c.trouble == "" {
		c.trouble = msg
		c.human = append(c.human, "TROUBLE: "+msg)
	}
}

// the buffer's callbacks since the last look
func (c *clientRun) take() []cbRec {
	rs := c.w.since(c.recIdx)
	c.recIdx += len(rs)
	return rs
}

func ordStr(o []string) string { return strings.Join(o, "; ") }

// a new connection has completed (or been refused at) the handshake: account for the callbacks the client made on
// its own.  truthRestart: the endpoint dropped the previous connection, which is a restart whatever the client says.
func (c *clientRun) burst(truthRestart bool) {
	before := c.d.VerifQueueLen() == 0 // not used when the client announced the restart
	_ = before
	rs := c.take()
	if truthRestart {
		if len(c.s.view) > 0 {
			c.restartWithLive = true
		}
		c.pendingResync = true
		c.restarts++
		dr := c.lastDrained
		if len(rs) > 0 && rs[0].kind == "restart" {
			dr = rs[0].drained
		}
		c.finishOpD("OpRestart", "connection dropped by the endpoint (restart)", dr)
	}
	// the wire event(s) and what Model.client_ops makes of them
	ordOf := func(st api.SyncStatus) string {
		for _, rc := range rs {
			if rc.kind == "status" && rc.st == st {
				return ordStr(rc.ord)
			}
		}
		return ""
	}
	if truthRestart {
		c.events = append(c.events, fmt.Sprintf("EvDrop [%s]", ordOf(api.WaitForDatastore)))
	}
	c.events = append(c.events, fmt.Sprintf("EvConnect [%s]", ordOf(api.ResyncInProgress)))
	for i, rc := range rs {
		switch rc.kind {
		case "restart":
			if !(truthRestart && i == 0) {
				c.tags["client:restart-announced-out-of-place"] = true
			}
		case "status":
			if rc.st == api.InSync {
				c.pendingResync = false
			}
			c.finishOpD(fmt.Sprintf("OpStatus %s [%s]", statusName[rc.st], ordStr(rc.ord)),
				"client status "+statusName[rc.st], rc.drained)
		default:
			c.tags["client:unexpected-updates-in-handshake"] = true
		}
	}
	c.lastDrained = c.d.VerifQueueLen() == 0
}

// wait for the next connection; mode false = the endpoint reads the hello and hangs up (another restart)
func (c *clientRun) awaitConn(first bool) {
	truth := !first
	for tries := 0; ; tries++ {
		ok := tries > 0 || c.r.intn(6) != 0 || first
		c.f.modeC <- ok
		var sc *srvConn
		select {
		case sc = <-c.f.connC:
		case <-time.After(ioTimeout):
			c.fail("client did not reconnect")
			c.sc = nil
			return
		}
		c.burst(truth)
		if sc == nil {
			c.fail("handshake failed on the endpoint's side")
			c.sc = nil
			return
		}
		if !sc.refused {
			c.sc = sc
			return
		}
		c.tags["client:handshake-refused"] = true
		_ = sc.c.Close()
		truth = true
	}
}

func (c *clientRun) drop() {
	if c.sc != nil {
		_ = c.sc.c.Close()
	}
	c.awaitConn(false)
}

func (c *clientRun) srvStatus(st api.SyncStatus) {
	if c.sc == nil {
		return
	}
	if err := c.sc.send(syncproto.MsgSyncStatus{SyncStatus: st}); err != nil {
		c.fail("endpoint could not deliver a status: " + err.Error())
	}
	rs := c.take()
	var ord []string
	if len(rs) > 0 {
		ord = rs[len(rs)-1].ord
	}
	if st == api.InSync {
		if c.pendingResync && len(rs) > 0 && len(ord) > 0 {
			c.synthDeletes = true
		}
		c.pendingResync = false
	}
	c.finishOp(fmt.Sprintf("OpStatus %s [%s]", statusName[st], ordStr(ord)), "endpoint sends status "+statusName[st])
	c.events = append(c.events, fmt.Sprintf("EvStatus %s [%s]", statusName[st], ordStr(ord)))
	c.lastDrained = c.d.VerifQueueLen() == 0
}

func (c *clientRun) srvUpdates(us []upd) {
	if c.sc == nil {
		return
	}
	var kvs []syncproto.SerializedUpdate
	var cs, hs []string
	for _, u := range us {
		g := api.Update{KVPair: model.KVPair{Key: keyOf(u.k), Revision: "1"}, UpdateType: u.t}
		if u.v != 0 {
			g.Value = fmt.Sprintf("v%d", u.v)
			cs = append(cs, fmt.Sprintf("US %d %d %s", u.k, u.v, utName[u.t]))
			hs = append(hs, fmt.Sprintf("k%d=v%d", u.k, u.v))
		} else {
			cs = append(cs, fmt.Sprintf("DL %d %s", u.k, utName[u.t]))
			hs = append(hs, fmt.Sprintf("del k%d", u.k))
			if u.t != api.UpdateTypeKVDeleted {
				c.valueless = true
				hs[len(hs)-1] = fmt.Sprintf("k%d=nil(%s)", u.k, utName[u.t])
			}
		}
		su, err := syncproto.SerializeUpdate(g)
		if err != nil {
			panic(err)
		}
		kvs = append(kvs, su)
	}
	if err := c.sc.send(syncproto.MsgKVs{KVs: kvs}); err != nil {
		c.fail("endpoint could not deliver KVs: " + err.Error())
	}
	c.take()
	c.finishOp(fmt.Sprintf("OpUpdates [%s]", strings.Join(cs, "; ")), "endpoint sends "+strings.Join(hs, ","))
	c.events = append(c.events, fmt.Sprintf("EvKVs [%s]", strings.Join(cs, "; ")))
	c.lastDrained = c.d.VerifQueueLen() == 0
}

func (c *clientRun) pullSome(pct int) {
	c.maybePull(c.r, pct)
	c.lastDrained = c.d.VerifQueueLen() == 0
}

func genClient(r *rng) line {
	d := dedupebuffer.New()
	base := &caseRun{d: d, s: &sink{view: map[int]int{}}, events: []string{}}
	c := &clientRun{caseRun: base, r: r, w: &recCB{d: d}, tags: map[string]bool{}}
	c.lastDrained = true
	ln, err := net.Listen("tcp", "127.0.0.1:0")
	if err != nil {
		panic(err)
	}
	c.f = &fakeTypha{ln: ln, modeC: make(chan bool, 4), connC: make(chan *srvConn, 4)}
	go c.f.acceptLoop()
	ctx, cancel := context.WithCancel(context.Background())
	defer func() {
		// freeze the record, then let the client die in the background (its shutdown path retries with sleeps)
		c.w.mu.Lock()
		c.w.closed = true
		c.w.mu.Unlock()
		cancel()
		_ = ln.Close()
		if c.sc != nil {
			_ = c.sc.c.Close()
		}
	}()

	disc := discovery.New(discovery.WithAddrOverride(ln.Addr().String()))
	cl := syncclient.New(disc, "verif", "verif-host", "verif", c.w,
		&syncclient.Options{SyncerType: syncproto.SyncerTypeFelix, DisableDecoderRestart: true})

	truth := map[int]int{}
	mutate := func() (int, int) {
		k := r.intn(numKeys)
		if _, ok := truth[k]; ok && r.intn(3) == 0 {
			delete(truth, k)
			return k, 0
		}
		v := 1 + r.intn(numVals)
		truth[k] = v
		return k, v
	}
	for i := 0; i < 2+r.intn(4); i++ {
		mutate()
	}
	pullPct := []int{0, 20, 50, 90}[r.intn(4)]
	conns := 2 + r.intn(3)

	c.f.modeC <- true
	if err := cl.Start(ctx); err != nil {
		panic(err)
	}
	select {
	case c.sc = <-c.f.connC:
	case <-time.After(ioTimeout):
		c.fail("client did not connect")
	}
	c.burst(false)

	for ci := 0; ci < conns && c.trouble == ""; ci++ {
		if ci > 0 {
			c.drop()
			c.pullSome(pullPct)
		}
		if c.sc == nil {
			break
		}
		if r.intn(3) != 0 {
			c.srvStatus(api.ResyncInProgress)
		}
		var snap []upd
		perm := []int{}
		for k := range numKeys {
			perm = append(perm, k)
		}
		for i := len(perm) - 1; i > 0; i-- {
			j := r.intn(i + 1)
			perm[i], perm[j] = perm[j], perm[i]
		}
		for _, k := range perm {
			if v, ok := truth[k]; ok {
				snap = append(snap, upd{k, v, api.UpdateTypeKVNew})
			}
		}
		aborted := false
		for len(snap) > 0 {
			n := 1 + r.intn(3)
			if n > len(snap) {
				n = len(snap)
			}
			c.srvUpdates(snap[:n])
			snap = snap[n:]
			c.pullSome(pullPct)
			if ci < conns-1 && r.intn(6) == 0 {
				aborted = true
				c.tags["client:drop-mid-snapshot"] = true
				break
			}
		}
		if !aborted {
			c.srvStatus(api.InSync)
			c.pullSome(pullPct)
			for i := 0; i < r.intn(5); i++ {
				k, v := mutate()
				t := api.UpdateTypeKVUpdated
				if v == 0 {
					t = delType(r)
				}
				c.srvUpdates([]upd{{k, v, t}})
				c.pullSome(pullPct)
			}
			if ci < conns-1 {
				c.tags["client:drop-after-insync"] = true
			}
		}
		// the datastore moves while the client is away
		for i := 0; i < r.intn(4); i++ {
			mutate()
		}
	}
	c.drain()

	if c.trouble != "" {
		// the client stalled or broke the connection on its own: make the case fail visibly
		c.ops = append(c.ops, "OpPull 0%nat")
		c.tags["client:trouble"] = true
	}
	coq := fmt.Sprintf("{| c_ops := [%s]; c_outs := [%s]; c_cbs := [%s]; c_events := [%s] |}", parenJoin(c.ops),
		strings.Join(c.outs, "; "), strings.Join(c.cbs, "; "), parenJoin(c.events))
	tags := []string{"gen:real-syncclient", fmt.Sprintf("restarts:%d", min(c.restarts, 3))}
	var ctags []string
	for t := range c.tags {
		ctags = append(ctags, t)
	}
	sort.Strings(ctags)
	tags = append(tags, ctags...)
	if c.synthDeletes {
		tags = append(tags, "synthesized-deletes")
	}
	if c.valueless {
		tags = append(tags, "valueless-update-typed-new/updated/unknown")
	}
	if c.convergedAfterRst {
		tags = append(tags, "converged-after-restart")
	}
	return line{Coq: coq, NT: c.restartWithLive && c.convergedAfterRst, Key: "client|" + strings.Join(c.ops, ";"),
		Sample: map[string]any{"stream": "real syncclient over loopback", "trace": c.human}, Tags: tags}
}

// bulk case: more than 100 resources, so that the drain loop needs several batches of 100 and the callbacks
// of one drain are cut at the batch boundaries; a restart with many vanished resources (many synthesized deletions
// in Go map order).
func genBulk(r *rng, c *caseRun) {
	nk := 105 + r.intn(40)
	send := func(keys []int, per int) {
		for len(keys) > 0 {
			n := min(per, len(keys))
			var us []upd
			for _, k := range keys[:n] {
				us = append(us, upd{k, 1 + r.intn(numVals), api.UpdateTypeKVNew})
			}
			c.updates(us)
			keys = keys[n:]
		}
	}
	var all []int
	for k := 0; k < nk; k++ {
		all = append(all, k)
	}
	c.status(api.ResyncInProgress)
	send(all, 40+r.intn(30))
	if r.intn(2) == 0 {
		c.status(api.InSync)
	}
	if r.intn(3) == 0 {
		c.pull(1 + r.intn(120))
	}
	c.drain()
	c.restart()
	c.status(api.WaitForDatastore)
	var kept []int
	for _, k := range all {
		if r.intn(4) != 0 {
			kept = append(kept, k)
		}
	}
	send(kept, 40+r.intn(30))
	if r.intn(3) == 0 {
		c.pull(1 + r.intn(60))
	}
	c.status(api.InSync)
	if r.intn(2) == 0 {
		c.pull(100)
	}
	c.drain()
}

func main() {
	n := flag.Int("n", 100, "cases")
	seed := flag.Uint64("seed", 1, "seed")
	nbulk := flag.Int("nbulk", 0, "cases with more than 100 resources (several batches per drain)")
	nclient := flag.Int("nclient", 0, "cases of the second stream (real syncclient + real buffer over loopback)")
	flag.Parse()
	logrus.SetLevel(logrus.PanicLevel)
	r := &rng{s: *seed}
	enc := json.NewEncoder(os.Stdout)
	rc := &rng{s: *seed ^ 0x5eed0c25}
	for i := 0; i < *nclient; i++ {
		_ = enc.Encode(genClient(rc))
	}
	rb := &rng{s: *seed ^ 0xb01c25}
	for i := 0; i < *n+*nbulk; i++ {
		c := &caseRun{d: dedupebuffer.New(), s: &sink{view: map[int]int{}}}
		var tag string
		bulk := i >= *n
		func() {
			// A panic inside the real code must become a failing case with a replay, not a dead driver:
			// record an operation without an observation, which the oracle rejects.
			defer func() {
				if e := recover(); e != nil {
					c.ops = append(c.ops, "OpPull 0%nat")
					c.human = append(c.human, fmt.Sprintf("PANIC in the real code during the next operation: %v", e))
					tag += "+panic"
				}
			}()
			if bulk {
				tag = "gen:bulk"
				genBulk(rb, c)
				return
			}
			switch k := r.intn(10); {
			case k < 5:
				tag = "gen:protocol"
				genProtocol(r, c)
			case k < 8:
				tag = "gen:random"
				genRandom(r, c, false)
			default:
				tag = "gen:boundary"
				genRandom(r, c, true)
			}
		}()
		coq := fmt.Sprintf("{| c_ops := [%s]; c_outs := [%s]; c_cbs := [%s]; c_events := [] |}", parenJoin(c.ops),
			strings.Join(c.outs, "; "), strings.Join(c.cbs, "; "))
		tags := []string{tag, fmt.Sprintf("restarts:%d", min(c.restarts, 3))}
		if c.synthDeletes {
			tags = append(tags, "synthesized-deletes")
		}
		if c.valueless {
			tags = append(tags, "valueless-update-typed-new/updated/unknown")
		}
		if c.multiBatch {
			tags = append(tags, "drain-in-several-batches")
		}
		if c.convergedAfterRst {
			tags = append(tags, "converged-after-restart")
		}
		_ = enc.Encode(line{Coq: coq, NT: c.restartWithLive && c.convergedAfterRst, Key: strings.Join(c.ops, ";"),
			Sample: map[string]any{"trace": c.human}, Tags: tags})
	}
}

func parenJoin(xs []string) string {
	ys := make([]string, len(xs))
	for i, x := range xs {
		if strings.Contains(x, " ") {
			ys[i] = "(" + x + ")"
		} else {
			ys[i] = x
		}
	}
	return strings.Join(ys, "; ")
}
