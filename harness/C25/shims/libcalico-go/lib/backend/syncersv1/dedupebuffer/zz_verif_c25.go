//go:build verif

package dedupebuffer

import (
	"github.com/projectcalico/calico/libcalico-go/lib/backend/api"
	"github.com/projectcalico/calico/libcalico-go/lib/backend/model"
)

// VerifPull runs one consumer step synchronously: pullNextBatch with the given batch size followed by
// dropLockAndSendBatch, exactly as sendNextBatchToSinkLockHeld does for each batch.
func (d *DedupeBuffer) VerifPull(sink api.SyncerCallbacks, n int) {
	d.lock.Lock()
	defer d.lock.Unlock()
	buf := d.pullNextBatch(make([]any, 0, n), n)
	d.dropLockAndSendBatch(sink, buf)
}

// VerifDrain is the package's own synchronous entry point (batches of 100 until the queue is empty).
func (d *DedupeBuffer) VerifDrain(sink api.SyncerCallbacks) error {
	return d.sendNextBatchToSinkNoBlock(sink)
}

// VerifPendingKeys returns the keys of the queued updates in queue order (used to learn in which order
// the Go map iteration queued the synthesized deletions).
func (d *DedupeBuffer) VerifPendingKeys() []model.Key {
	d.lock.Lock()
	defer d.lock.Unlock()
	var ks []model.Key
	for e := d.pendingUpdates.Front(); e != nil; e = e.Next() {
		if u, ok := e.Value.(updateWithKey); ok {
			ks = append(ks, u.key)
		}
	}
	return ks
}

func (d *DedupeBuffer) VerifQueueLen() int {
	d.lock.Lock()
	defer d.lock.Unlock()
	return d.pendingUpdates.Len()
}
