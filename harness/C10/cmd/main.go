//go:build verif

// C10 correspondence driver: renders workload / host dispatch chains (and the nftables
// dispatch verdict maps) with the REAL felix/rules renderer for generated interface-name
// sets, converts the rendered generictables rules into the abstract syntax of
// coq/theories/C10/Nf.v and prints one JSON line per case carrying the case as a Coq term.
// Anything in the rendered output that the converter does not recognise is a hard error.
package main

import (
	"encoding/json"
	"flag"
	"fmt"
	"io"
	"os"
	"regexp"
	"sort"
	"strings"

	"github.com/sirupsen/logrus"

	"github.com/projectcalico/calico/felix/generictables"
	"github.com/projectcalico/calico/felix/ipsets"
	"github.com/projectcalico/calico/felix/iptables"
	"github.com/projectcalico/calico/felix/nftables"
	"github.com/projectcalico/calico/felix/proto"
	"github.com/projectcalico/calico/felix/rules"
	"github.com/projectcalico/calico/felix/types"
)

type rng struct{ s uint64 }

func (r *rng) next() uint64 {
	r.s += 0x9e3779b97f4a7c15
	z := r.s
	z = (z ^ (z >> 30)) * 0xbf58476d1ce4e5b9
	z = (z ^ (z >> 27)) * 0x94d049bb133111eb
	return z ^ (z >> 31)
}
func (r *rng) intn(n int) int { return int(r.next() % uint64(n)) }
func (r *rng) pick(xs []string) string {
	return xs[r.intn(len(xs))]
}

type line struct {
	Coq    string         `json:"coq"`
	NT     bool           `json:"nt"`
	Key    string         `json:"key"`
	Sample map[string]any `json:"sample,omitempty"`
	Tags   []string       `json:"tags"`
}

func fatal(format string, a ...any) {
	fmt.Fprintf(os.Stderr, "C10 driver: "+format+"\n", a...)
	os.Exit(3)
}

// ---------------------------------------------------------------- kinds

type kind struct {
	coq   string // constructor of Nf.epkind
	root  string // dispatch chain name
	epPfx string // prefix of the per-endpoint chains
}

var (
	kWlFrom      = kind{"KWlFrom", rules.ChainFromWorkloadDispatch, rules.WorkloadFromEndpointPfx}
	kWlTo        = kind{"KWlTo", rules.ChainToWorkloadDispatch, rules.WorkloadToEndpointPfx}
	kHostFrom    = kind{"KHostFrom", rules.ChainDispatchFromHostEndpoint, rules.HostFromEndpointPfx}
	kHostTo      = kind{"KHostTo", rules.ChainDispatchToHostEndpoint, rules.HostToEndpointPfx}
	kHostFromFwd = kind{"KHostFromFwd", rules.ChainDispatchFromHostEndPointForward, rules.HostFromEndpointForwardPfx}
	kHostToFwd   = kind{"KHostToFwd", rules.ChainDispatchToHostEndpointForward, rules.HostToEndpointForwardPfx}
	kSetMark     = kind{"KSetMark", rules.ChainDispatchSetEndPointMark, rules.SetEndPointMarkPfx}
	allKinds     = []kind{kWlFrom, kWlTo, kHostFrom, kHostTo, kHostFromFwd, kHostToFwd}
)

// ---------------------------------------------------------------- Coq term helpers

func nameTerm(s string) string {
	if len(s) == 0 {
		return "[]"
	}
	parts := make([]string, len(s))
	for i := 0; i < len(s); i++ {
		parts[i] = fmt.Sprintf("%d", s[i])
	}
	return "[" + strings.Join(parts, ";") + "]"
}

func listTerm(xs []string) string { return "[" + strings.Join(xs, "; ") + "]" }

func boolTerm(b bool) string {
	if b {
		return "true"
	}
	return "false"
}

// ---------------------------------------------------------------- conversion of rendered output

type converter struct {
	nft    bool
	maxLen int
	kinds  []kind            // kinds that may legitimately appear in this case
	epRev  map[string]string // endpoint chain name -> Coq cid term
	epSrc  map[string]string // endpoint chain name -> "kind|iface" (collision detection)
}

func newConverter(nft bool, ks []kind, names []string) *converter {
	c := &converter{nft: nft, kinds: ks, epRev: map[string]string{}, epSrc: map[string]string{}}
	c.maxLen = iptables.MaxChainNameLength
	if nft {
		c.maxLen = nftables.MaxChainNameLength
	}
	for _, k := range ks {
		for _, n := range names {
			if n == "" {
				// EndpointChainName(pfx, "") == EndpointChainName(pfx, "_"); the empty name is outside the
				// domain (the renderer panics on it), so it gets no reverse mapping.
				continue
			}
			cn := rules.EndpointChainName(k.epPfx, n, c.maxLen)
			src := k.coq + "|" + n
			if old, ok := c.epSrc[cn]; ok && old != src {
				fatal("endpoint chain name %q is shared by %q and %q (name collision, see C37)", cn, old, src)
			}
			c.epSrc[cn] = src
			c.epRev[cn] = fmt.Sprintf("(CEp %s %s)", k.coq, nameTerm(n))
		}
	}
	return c
}

// chain name -> Coq cid.  Exactly one reading must apply.
func (c *converter) cid(name string) string {
	var readings []string
	for _, k := range c.kinds {
		if name == k.root {
			readings = append(readings, fmt.Sprintf("(CRoot %s)", k.coq))
		}
		if strings.HasPrefix(name, k.root+"-") {
			readings = append(readings, fmt.Sprintf("(CChild %s %s)", k.coq, nameTerm(name[len(k.root)+1:])))
		}
	}
	if t, ok := c.epRev[name]; ok {
		readings = append(readings, t)
	} else {
		// an endpoint chain of an interface that is not in the case's name set: keep what the name says
		for _, k := range c.kinds {
			if strings.HasPrefix(name, k.epPfx) {
				readings = append(readings, fmt.Sprintf("(CEp %s %s)", k.coq, nameTerm(name[len(k.epPfx):])))
			}
		}
	}
	if len(readings) != 1 {
		fatal("chain name %q has %d readings %v", name, len(readings), readings)
	}
	return readings[0]
}

func (c *converter) action(a generictables.Action) string {
	switch v := a.(type) {
	case iptables.GotoAction:
		return "(AGoto " + c.cid(v.Target) + ")"
	case *iptables.GotoAction:
		return "(AGoto " + c.cid(v.Target) + ")"
	case nftables.GotoAction:
		return "(AGoto " + c.cid(v.Target) + ")"
	case *nftables.GotoAction:
		return "(AGoto " + c.cid(v.Target) + ")"
	case iptables.JumpAction:
		return "(AJump " + c.cid(v.Target) + ")"
	case *iptables.JumpAction:
		return "(AJump " + c.cid(v.Target) + ")"
	case nftables.JumpAction:
		return "(AJump " + c.cid(v.Target) + ")"
	case *nftables.JumpAction:
		return "(AJump " + c.cid(v.Target) + ")"
	case iptables.ReturnAction, *iptables.ReturnAction, nftables.ReturnAction, *nftables.ReturnAction:
		return "AReturn"
	case iptables.DropAction, *iptables.DropAction, nftables.DropAction, *nftables.DropAction:
		return "ADrop"
	case iptables.AcceptAction, *iptables.AcceptAction, nftables.AcceptAction, *nftables.AcceptAction:
		return "AAccept"
	case iptables.SetMaskedMarkAction:
		return fmt.Sprintf("(ASetMark %d %d)", v.Mark, v.Mask)
	case nftables.SetMaskedMarkAction:
		return fmt.Sprintf("(ASetMark %d %d)", v.Mark, v.Mask)
	case iptables.RejectAction:
		if v.With != "" {
			fatal("unexpected reject-with %q", v.With)
		}
		return "AReject"
	case nftables.RejectAction:
		if v.With != "" {
			fatal("unexpected reject-with %q", v.With)
		}
		return "AReject"
	}
	fatal("unrecognised action %T %v", a, a)
	return ""
}

var (
	reIptIn   = regexp.MustCompile(`^--in-interface (\S+)$`)
	reIptOut  = regexp.MustCompile(`^--out-interface (\S+)$`)
	reNftIn   = regexp.MustCompile(`^iifname (\S+)$`)
	reNftOut  = regexp.MustCompile(`^oifname (\S+)$`)
	reNftVIn  = regexp.MustCompile(`^iifname vmap @(\S+)$`)
	reNftVOut = regexp.MustCompile(`^oifname vmap @(\S+)$`)
)

func (c *converter) vmapKind(mapRef string) string {
	var found []string
	for _, k := range []struct{ coq, name string }{
		{"KWlFrom", rules.NftablesFromWorkloadDispatchMap}, {"KWlTo", rules.NftablesToWorkloadDispatchMap}} {
		if strings.HasSuffix(mapRef, "-"+nftables.LegalizeSetName(k.name)) {
			found = append(found, k.coq)
		}
	}
	if len(found) != 1 {
		fatal("verdict map reference %q not recognised (%v)", mapRef, found)
	}
	return found[0]
}

func (c *converter) rule(r generictables.Rule) string {
	if r.Match == nil {
		fatal("rule without match criteria: %v", r)
	}
	txt := r.Match.Render()
	if c.nft {
		if m := reNftVIn.FindStringSubmatch(txt); m != nil {
			if r.Action != nil {
				fatal("vmap rule with an action: %q %v", txt, r.Action)
			}
			return fmt.Sprintf("RVmap DIn %s", c.vmapKind(m[1]))
		}
		if m := reNftVOut.FindStringSubmatch(txt); m != nil {
			if r.Action != nil {
				fatal("vmap rule with an action: %q %v", txt, r.Action)
			}
			return fmt.Sprintf("RVmap DOut %s", c.vmapKind(m[1]))
		}
	}
	if r.Action == nil {
		fatal("rule without action: %q", txt)
	}
	var m string
	switch {
	case txt == "":
		m = "MAny"
	case !c.nft && reIptIn.MatchString(txt):
		m = "(MIface DIn " + nameTerm(reIptIn.FindStringSubmatch(txt)[1]) + ")"
	case !c.nft && reIptOut.MatchString(txt):
		m = "(MIface DOut " + nameTerm(reIptOut.FindStringSubmatch(txt)[1]) + ")"
	case c.nft && reNftIn.MatchString(txt):
		m = "(MIface DIn " + nameTerm(reNftIn.FindStringSubmatch(txt)[1]) + ")"
	case c.nft && reNftOut.MatchString(txt):
		m = "(MIface DOut " + nameTerm(reNftOut.FindStringSubmatch(txt)[1]) + ")"
	default:
		fatal("unrecognised match criteria %q", txt)
	}
	return "Rule " + m + " " + c.action(r.Action)
}

func (c *converter) chains(chs []*generictables.Chain) string {
	var out []string
	for _, ch := range chs {
		var rs []string
		for _, r := range ch.Rules {
			rs = append(rs, c.rule(r))
		}
		out = append(out, fmt.Sprintf("(%s, %s)", c.cid(ch.Name), listTerm(rs)))
	}
	return listTerm(out)
}

// verdict map as programmed by the nftables dataplane: DispatchMappings -> CanonicaliseMapMember
func (c *converter) vmap(m map[string][]string) string {
	type ent struct{ k, v string }
	var ents []ent
	for k, v := range m {
		mm := nftables.CanonicaliseMapMember(nftables.MapTypeInterfaceMatch, k, v)
		if mm == nil {
			fatal("map member %q -> %v not canonicalised", k, v)
		}
		key, val := mm.Key(), mm.Value()
		if len(key) != 1 || len(val) != 1 {
			fatal("map member %q -> %v has key %v value %v", k, v, key, val)
		}
		f := strings.Split(val[0], " ")
		var a string
		switch {
		case len(f) == 2 && f[0] == "goto":
			a = "(AGoto " + c.cid(f[1]) + ")"
		case len(f) == 2 && f[0] == "jump":
			a = "(AJump " + c.cid(f[1]) + ")"
		case len(f) == 1 && f[0] == "drop":
			a = "ADrop"
		case len(f) == 1 && f[0] == "accept":
			a = "AAccept"
		case len(f) == 1 && f[0] == "return":
			a = "AReturn"
		default:
			fatal("unrecognised verdict %q for key %q", val[0], key[0])
		}
		ents = append(ents, ent{key[0], a})
	}
	sort.Slice(ents, func(i, j int) bool { return ents[i].k < ents[j].k })
	var out []string
	for _, e := range ents {
		out = append(out, fmt.Sprintf("(%s, %s)", nameTerm(e.k), e.v))
	}
	return listTerm(out)
}

// ---------------------------------------------------------------- renderer

func mkRenderer(nft, reject bool, wlpfx []string) rules.RuleRenderer {
	cfg := rules.Config{
		IPIPEnabled:           true,
		IPSetConfigV4:         ipsets.NewIPVersionConfig(ipsets.IPFamilyV4, "cali", nil, nil),
		IPSetConfigV6:         ipsets.NewIPVersionConfig(ipsets.IPFamilyV6, "cali", nil, nil),
		MarkAccept:            0x8,
		MarkPass:              0x10,
		MarkScratch0:          0x20,
		MarkScratch1:          0x40,
		MarkDrop:              0x80,
		MarkEndpoint:          0xff00,
		MarkNonCaliEndpoint:   0x0100,
		WorkloadIfacePrefixes: wlpfx,
	}
	if reject {
		cfg.FilterDenyAction = "REJECT"
	}
	return rules.NewRenderer(cfg, nft)
}

// ---------------------------------------------------------------- generation

const alphaCommon = "0123456789abcdef"
const alphaWide = "abcxyzABZ019_.-"

func genSuffix(r *rng, n int, alpha string) string {
	b := make([]byte, n)
	for i := range b {
		b[i] = alpha[r.intn(len(alpha))]
	}
	return string(b)
}

// a set of names with shared prefixes, names that are prefixes of others, one-char suffixes
// names whose first differing character (the one the prefix tree splits on, and which ends up in the child chain
// name) is punctuation that is legal in interface names: '-', '.', '_' - mixed with alphanumeric bins.
func genPunctSplit(r *rng, wlpfx []string, host bool) []string {
	base := r.pick(wlpfx) + genSuffix(r, r.intn(2), alphaCommon)
	if host {
		base = r.pick([]string{"bond0", "eth1", "ens", "br"})
	}
	var names []string
	seps := []string{"-", ".", "_", "-", ".", "0", "a"}
	nb := 2 + r.intn(3)
	for b := 0; b < nb; b++ {
		sep := seps[r.intn(len(seps))]
		for j, c := 0, 1+r.intn(3); j < c; j++ {
			names = append(names, base+sep+genSuffix(r, 1+r.intn(3), alphaCommon[:4]))
		}
	}
	if r.intn(3) == 0 {
		names = append(names, base)
	}
	return names
}

func genNames(r *rng, wlpfx []string, host bool) ([]string, []string) {
	var tags []string
	if r.intn(5) == 0 {
		return genPunctSplit(r, wlpfx, host), []string{"names:punctuation-at-split"}
	}
	n := r.intn(11)
	if r.intn(12) == 0 {
		n = 12 + r.intn(10)
	}
	bases := []string{r.pick(wlpfx)}
	switch r.intn(6) {
	case 0:
		bases = append(bases, r.pick(wlpfx))
	case 1:
		bases = []string{""}
	case 2:
		bases = []string{genSuffix(r, 1+r.intn(3), alphaWide)}
	case 3:
		bases = append(bases, "eth", "e")
	}
	if host && r.intn(2) == 0 {
		bases = []string{"eth", "ens", "e", "bond"}
	}
	alpha := alphaCommon
	if r.intn(4) == 0 {
		alpha = alphaWide
	}
	if r.intn(3) == 0 {
		alpha = alpha[:2+r.intn(3)] // tiny alphabet: lots of shared prefixes
	}
	var names []string
	for len(names) < n {
		switch k := r.intn(10); {
		case k < 5 || len(names) == 0:
			names = append(names, r.pick(bases)+genSuffix(r, r.intn(5), alpha))
		case k < 6: // one-char extension of an existing name
			names = append(names, r.pick(names)+genSuffix(r, 1, alpha))
		case k < 7: // proper prefix of an existing name
			s := r.pick(names)
			if len(s) > 1 {
				names = append(names, s[:1+r.intn(len(s)-1)])
			}
		case k < 8: // sibling: same name with last char changed
			s := r.pick(names)
			if len(s) > 0 {
				names = append(names, s[:len(s)-1]+genSuffix(r, 1, alpha))
			}
		case k < 9: // longer tail
			names = append(names, r.pick(names)+genSuffix(r, 1+r.intn(4), alpha))
		default:
			if !host { // duplicate (two endpoints claiming one interface)
				names = append(names, r.pick(names))
			}
		}
	}
	// names must be non-empty in the valid stream
	out := names[:0]
	for _, s := range names {
		if s == "" {
			s = genSuffix(r, 1, alpha)
		}
		if len(s) > 15 {
			s = s[:15]
		}
		out = append(out, s)
	}
	return out, tags
}

func mapNames(xs []string) []string {
	out := make([]string, len(xs))
	for i, x := range xs {
		out[i] = nameTerm(x)
	}
	return out
}

func uniq(xs []string) []string {
	seen := map[string]bool{}
	var out []string
	for _, x := range xs {
		if !seen[x] {
			seen[x] = true
			out = append(out, x)
		}
	}
	return out
}

func genProbes(r *rng, names, wlpfx []string, dflt string, wc byte) [][2]string {
	var ps []string
	for _, n := range uniq(names) {
		ps = append(ps, n)
		for i := 0; i < len(n); i++ { // every proper prefix (including the empty name)
			ps = append(ps, n[:i])
		}
		// one-char extensions: a char likely to collide with a sibling, a fresh char, the wildcard char
		ps = append(ps, n+genSuffix(r, 1, alphaCommon), n+genSuffix(r, 1, alphaWide), n+string([]byte{wc}), n+"0")
		if len(n) > 0 { // last char changed
			ps = append(ps, n[:len(n)-1]+genSuffix(r, 1, alphaCommon))
		}
	}
	for _, p := range wlpfx {
		ps = append(ps, p, p+genSuffix(r, 1+r.intn(6), alphaCommon), p+string([]byte{wc}))
	}
	ps = append(ps, "eth0", "lo", "", genSuffix(r, 1+r.intn(8), alphaWide), string([]byte{wc}))
	if dflt != "" {
		ps = append(ps, dflt)
	}
	ps = uniq(ps)
	if len(ps) > 160 { // keep the Coq side cheap: all names, then a sample of the rest
		keep := map[string]bool{}
		for _, n := range names {
			keep[n] = true
		}
		var rest []string
		var out []string
		for _, p := range ps {
			if keep[p] {
				out = append(out, p)
			} else {
				rest = append(rest, p)
			}
		}
		for len(out) < 160 && len(rest) > 0 {
			i := r.intn(len(rest))
			out = append(out, rest[i])
			rest = append(rest[:i], rest[i+1:]...)
		}
		ps = out
	}
	res := make([][2]string, len(ps))
	for i, p := range ps {
		decoy := "zz9"
		switch r.intn(3) {
		case 0:
			if len(names) > 0 {
				decoy = r.pick(names) // a known interface on the direction that must be ignored
			}
		case 1:
			decoy = r.pick(wlpfx) + "7"
		}
		res[i] = [2]string{p, decoy}
	}
	return res
}

func hasTrailing(names []string, wc byte) bool {
	for _, n := range names {
		if len(n) > 0 && n[len(n)-1] == wc {
			return true
		}
	}
	return false
}

func main() {
	n := flag.Int("n", 100, "cases")
	seed := flag.Uint64("seed", 1, "seed")
	flag.Parse()
	logrus.SetOutput(io.Discard)
	logrus.SetLevel(logrus.PanicLevel)
	r := &rng{s: *seed}
	enc := json.NewEncoder(os.Stdout)
	for i := 0; i < *n; i++ {
		nft := r.intn(2) == 0
		reject := r.intn(4) == 0
		wlpfx := [][]string{{"cali"}, {"cali", "tap"}, {"cali", "tap"}, {"c", "ca"}, {"veth", "cali", "tap"}}[r.intn(5)]
		wc := byte('+')
		if nft {
			wc = '*'
		}
		host := r.intn(5) < 2
		setmark := !host && r.intn(4) == 0 // EndpointMarkDispatchChains (set-endpoint-mark chain)
		var tags []string
		if nft {
			tags = append(tags, "renderer:nftables")
		} else {
			tags = append(tags, "renderer:iptables")
		}
		names, ntags := genNames(r, wlpfx, host)
		tags = append(tags, ntags...)
		boundary := ""
		if r.intn(12) == 0 && len(names) > 0 { // malformed / boundary stream
			j := r.intn(len(names))
			if r.intn(3) == 0 {
				names[j] = ""
				boundary = "empty-name"
			} else {
				names[j] = names[j] + string([]byte{wc})
				if len(names[j]) > 15 {
					names[j] = names[j][len(names[j])-15:]
				}
				boundary = "trailing-wildcard"
			}
			tags = append(tags, "boundary:"+boundary)
		} else {
			tags = append(tags, "stream:valid")
		}
		if host {
			names = uniq(names) // host endpoints come from a map keyed by interface name
		}
		var hepNames []string
		if setmark {
			hepNames, _ = genNames(r, wlpfx, true)
			hepNames = uniq(hepNames)
			hasWlPfx := func(s string) bool {
				for _, p := range wlpfx {
					if strings.HasPrefix(s, p) {
						return true
					}
				}
				return false
			}
			var hn []string
			for _, h := range hepNames { // host endpoint interfaces never carry a workload prefix
				if !hasWlPfx(h) || boundary != "" {
					hn = append(hn, h)
				}
			}
			hepNames = hn
			for j, w := range names { // workload interfaces always do
				if !hasWlPfx(w) && boundary == "" {
					names[j] = wlpfx[j%len(wlpfx)] + w
					if len(names[j]) > 15 {
						names[j] = names[j][:15]
					}
				}
			}
			if len(hepNames) > 6 {
				hepNames = hepNames[:6]
			}
		}

		dflt := ""
		mode := "" // Coq hmode
		var ks []kind
		kindTerm := "CWorkload"
		var render func(rr rules.RuleRenderer) []*generictables.Chain
		if host {
			if r.intn(3) != 0 {
				dflt = "any-interface-at-all"
				if r.intn(4) == 0 {
					dflt = "*"
				}
				tags = append(tags, "host:default-configured")
			} else {
				tags = append(tags, "host:no-default")
			}
			eps := map[string]types.HostEndpointID{}
			for _, nm := range names {
				eps[nm] = types.HostEndpointID{EndpointId: "hep-" + nm}
			}
			switch r.intn(4) {
			case 0:
				mode, ks = "(HBoth true)", []kind{kHostFrom, kHostTo, kHostFromFwd, kHostToFwd}
				render = func(rr rules.RuleRenderer) []*generictables.Chain { return rr.HostDispatchChains(eps, dflt, true) }
			case 1:
				mode, ks = "(HBoth false)", []kind{kHostFrom, kHostTo}
				render = func(rr rules.RuleRenderer) []*generictables.Chain { return rr.HostDispatchChains(eps, dflt, false) }
			case 2:
				mode, ks = "HFrom", []kind{kHostFrom}
				render = func(rr rules.RuleRenderer) []*generictables.Chain { return rr.FromHostDispatchChains(eps, dflt) }
			default:
				mode, ks = "HTo", []kind{kHostTo}
				render = func(rr rules.RuleRenderer) []*generictables.Chain { return rr.ToHostDispatchChains(eps, dflt) }
			}
			kindTerm = fmt.Sprintf("(CHost %s %s)", nameTerm(dflt), mode)
			tags = append(tags, "kind:host "+mode)
		} else {
			ks = []kind{kWlFrom, kWlTo}
			tags = append(tags, "kind:workload")
		}
		eps := map[types.WorkloadEndpointID]*proto.WorkloadEndpoint{}
		if !host {
			for j, nm := range names {
				eps[types.WorkloadEndpointID{OrchestratorId: "k8s", WorkloadId: fmt.Sprintf("w%d", j), EndpointId: "eth0"}] =
					&proto.WorkloadEndpoint{Name: nm}
			}
			render = func(rr rules.RuleRenderer) []*generictables.Chain { return rr.WorkloadDispatchChains(eps) }
		}
		const smMask, smNonCali = 0xff00, 0x0100
		if setmark {
			ks = []kind{kSetMark}
			kindTerm = fmt.Sprintf("(CSetMark %s %d %d)", listTerm(mapNames(hepNames)), smNonCali, smMask)
			tags[len(tags)-1] = "kind:set-endpoint-mark"
			heps := map[string]types.HostEndpointID{}
			for _, nm := range hepNames {
				heps[nm] = types.HostEndpointID{EndpointId: "hep-" + nm}
			}
			render = func(rr rules.RuleRenderer) []*generictables.Chain {
				all := rr.EndpointMarkDispatchChains(rules.NewEndpointMarkMapper(smMask, smNonCali), eps, heps)
				var out []*generictables.Chain
				for _, ch := range all {
					if ch.Name != rules.ChainDispatchFromEndPointMark { // matches on allocated marks: not modelled
						out = append(out, ch)
					}
				}
				return out
			}
		}

		rr := mkRenderer(nft, reject, wlpfx)
		epNames := append([]string{}, names...)
		epNames = append(epNames, hepNames...)
		if dflt != "" {
			epNames = append(epNames, dflt)
		}
		conv := newConverter(nft, ks, uniq(epNames))

		var chains []*generictables.Chain
		var fromMap, toMap map[string][]string
		panicked := false
		func() {
			defer func() {
				if e := recover(); e != nil {
					panicked = true
				}
			}()
			chains = render(rr)
			if nft && !host && !setmark {
				fromMap, toMap = rr.DispatchMappings(eps)
			}
		}()

		implTerm := "None"
		nChild := 0
		if !panicked {
			maps := "[]"
			if nft && !host && !setmark {
				maps = fmt.Sprintf("[(KWlFrom, %s); (KWlTo, %s)]", conv.vmap(fromMap), conv.vmap(toMap))
			}
			implTerm = fmt.Sprintf("(Some {| rs_chains := %s; rs_maps := %s |})", conv.chains(chains), maps)
			for _, ch := range chains {
				for _, k := range ks {
					if strings.HasPrefix(ch.Name, k.root+"-") {
						nChild++
					}
				}
			}
		} else {
			tags = append(tags, "impl:panicked")
		}

		probes := genProbes(r, append(append([]string{}, names...), hepNames...), wlpfx, dflt, wc)
		var capturedSet map[string]bool
		if setmark && !panicked {
			// does an interface that is in neither set match the "prefix<wildcard> -> goto child" pattern of a bin?
			known := map[string]bool{}
			for _, nm := range epNames {
				known[nm] = true
			}
			// Simulate the root chain for every probe: the first matching rule decides.  A probe is "captured" when that
			// rule is a "prefix<wildcard> -> goto child" rule and the child has no rule for the probe (it then falls off
			// the end of the child, which has no end rules, and returns unmarked).
			capturedSet = map[string]bool{}
			byName := map[string]*generictables.Chain{}
			for _, ch := range chains {
				byName[ch.Name] = ch
			}
			gotoTarget := func(a generictables.Action) string {
				switch v := a.(type) {
				case iptables.GotoAction:
					return v.Target
				case *nftables.GotoAction:
					return v.Target
				}
				return ""
			}
			pattern := func(rl generictables.Rule) string {
				f := strings.Fields(rl.Match.Render())
				if len(f) == 0 {
					return ""
				}
				return f[len(f)-1]
			}
			matches := func(pat, p string) bool {
				if pat == "" {
					return true
				}
				if pat[len(pat)-1] == wc {
					return strings.HasPrefix(p, pat[:len(pat)-1])
				}
				return pat == p
			}
			if root := byName[kSetMark.root]; root != nil {
				for _, pr := range probes {
					for _, rl := range root.Rules {
						if !matches(pattern(rl), pr[0]) {
							continue
						}
						if child := byName[gotoTarget(rl.Action)]; child != nil && strings.HasPrefix(child.Name, kSetMark.root+"-") {
							found := false
							for _, crl := range child.Rules {
								found = found || pattern(crl) == pr[0]
							}
							if !found {
								capturedSet[pr[0]] = true
							}
						}
						break
					}
				}
			}
		}
		var nterms, wterms []string
		for _, nm := range names {
			nterms = append(nterms, nameTerm(nm))
		}
		for _, p := range wlpfx {
			wterms = append(wterms, nameTerm(p))
		}
		mkCoq := func(ps [][2]string) string {
			var pterms []string
			for _, p := range ps {
				pterms = append(pterms, fmt.Sprintf("(%s, %s)", nameTerm(p[0]), nameTerm(p[1])))
			}
			return fmt.Sprintf("{| c_cfg := {| cf_nft := %s; cf_reject := %s; cf_wlpfx := %s |}; c_kind := %s; c_names := %s; c_impl := %s; c_probes := %s |}",
				boolTerm(nft), boolTerm(reject), listTerm(wterms), kindTerm, listTerm(nterms), implTerm, listTerm(pterms))
		}
		// set-endpoint-mark: probes that an unknown-interface child chain captures form their own case (known finding
		// class); all the other probes are checked strictly in the main case.
		var capProbes [][2]string
		if len(capturedSet) > 0 {
			var rest [][2]string
			for _, p := range probes {
				if capturedSet[p[0]] {
					capProbes = append(capProbes, p)
				} else {
					rest = append(rest, p)
				}
			}
			probes = rest
		}
		coq := mkCoq(probes)

		// distribution tags
		un := uniq(names)
		if len(un) < len(names) {
			tags = append(tags, "names:duplicates")
		}
		if nChild > 0 {
			tags = append(tags, "tree:child-chains")
		}
		pfxOfOther := false
		for _, a := range un {
			for _, b := range un {
				if a != b && strings.HasPrefix(b, a) {
					pfxOfOther = true
				}
			}
		}
		if pfxOfOther {
			tags = append(tags, "names:one-is-prefix-of-another")
		}
		if len(un) == 0 {
			tags = append(tags, "names:none")
		}
		if hasTrailing(names, wc) {
			tags = append(tags, "names:trailing-wildcard")
		}
		if reject {
			tags = append(tags, "deny:reject")
		}
		sorted := append([]string{}, names...)
		sort.Strings(sorted)
		key := fmt.Sprintf("%v|%v|%v|%s|%s|%q", nft, reject, wlpfx, kindTerm, mode, sorted)
		_ = enc.Encode(line{Coq: coq, NT: len(un) >= 2 && boundary == "", Key: key,
			Sample: map[string]any{"renderer": map[bool]string{true: "nftables", false: "iptables"}[nft], "kind": kindTerm,
				"names": names, "default": dflt, "chains": len(chains), "probes": len(probes), "panicked": panicked},
			Tags: tags})
		if len(capProbes) > 0 {
			_ = enc.Encode(line{Coq: mkCoq(capProbes), NT: true, Key: key + "|captured-probes",
				Sample: map[string]any{"kind": kindTerm, "names": names, "hep": hepNames, "captured_probes": len(capProbes),
					"first_captured_probe": capProbes[0][0]},
				Tags: []string{"kind:set-endpoint-mark", "setmark:unknown-probe-captured-by-child"}})
		}
	}
}
