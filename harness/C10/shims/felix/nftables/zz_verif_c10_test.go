//go:build verif

// C10 part 2 correspondence driver (in-package test: the fake nft lives in fake_test.go).
// Drives the REAL NftablesTable + Maps over the package's fake nft with generated histories of
// desired dispatch-map changes and Apply() calls under injected transaction failures, ListAll
// failures and element-listing failures, and records the fake kernel's dispatch verdict maps after
// every Apply as a Coq term (type Verif.C10.MapsSpec.mcase).
package nftables_test

import (
	"context"
	"encoding/json"
	"errors"
	"fmt"
	"io"
	"os"
	"sort"
	"strconv"
	"strings"
	"sync"
	"testing"
	"time"

	"github.com/sirupsen/logrus"
	"sigs.k8s.io/knftables"

	"github.com/projectcalico/calico/felix/environment"
	"github.com/projectcalico/calico/felix/generictables"
	"github.com/projectcalico/calico/felix/ipsets"
	"github.com/projectcalico/calico/felix/iptables/testutils"
	"github.com/projectcalico/calico/felix/nftables"
	"github.com/projectcalico/calico/felix/proto"
	"github.com/projectcalico/calico/felix/rules"
	"github.com/projectcalico/calico/felix/rules/rulesdefs"
	"github.com/projectcalico/calico/felix/types"
	"github.com/projectcalico/calico/lib/logrusr"
)

type c10rng struct{ s uint64 }

func (r *c10rng) next() uint64 {
	r.s += 0x9e3779b97f4a7c15
	z := r.s
	z = (z ^ (z >> 30)) * 0xbf58476d1ce4e5b9
	z = (z ^ (z >> 27)) * 0x94d049bb133111eb
	return z ^ (z >> 31)
}
func (r *c10rng) intn(n int) int { return int(r.next() % uint64(n)) }

// scripted failures: one bool per call, consumed in order; exhausted = healthy.
type c10NFT struct {
	*fakeNFT
	mu        sync.Mutex
	runFail   []bool
	listFail  []bool // per ListAll (= per table resync)
	elemFail  []bool // per table resync: every ListElements of that resync fails
	curElem   bool
	runs      int
	loads     int
	elemFails int
}

func c10pop(s *[]bool) bool {
	if len(*s) == 0 {
		return false
	}
	b := (*s)[0]
	*s = (*s)[1:]
	return b
}

func (w *c10NFT) Run(ctx context.Context, tx *knftables.Transaction) error {
	w.mu.Lock()
	w.runs++
	fail := c10pop(&w.runFail)
	w.mu.Unlock()
	if fail {
		return errors.New("injected nft failure (run)")
	}
	return w.fakeNFT.Run(ctx, tx)
}

func (w *c10NFT) ListAll(ctx context.Context) (map[string][]string, error) {
	w.mu.Lock()
	w.loads++
	fail := c10pop(&w.listFail)
	w.curElem = c10pop(&w.elemFail)
	w.mu.Unlock()
	if fail {
		return nil, errors.New("injected nft failure (list all)")
	}
	return w.fakeNFT.ListAll(ctx)
}

func (w *c10NFT) ListElements(ctx context.Context, objectType string, name string) ([]*knftables.Element, error) {
	w.mu.Lock()
	fail := w.curElem
	if fail {
		w.elemFails++
	}
	w.mu.Unlock()
	if fail {
		return nil, errors.New("injected nft failure (list elements)")
	}
	return w.fakeNFT.ListElements(ctx, objectType, name)
}

type c10kind struct {
	coq, mapName, epPfx string
}

var c10kinds = []c10kind{
	{"KWlFrom", rules.NftablesFromWorkloadDispatchMap, rules.WorkloadFromEndpointPfx},
	{"KWlTo", rules.NftablesToWorkloadDispatchMap, rules.WorkloadToEndpointPfx},
}

func c10name(s string) string {
	if s == "" {
		return "[]"
	}
	p := make([]string, len(s))
	for i := 0; i < len(s); i++ {
		p[i] = strconv.Itoa(int(s[i]))
	}
	return "[" + strings.Join(p, ";") + "]"
}

func c10bools(bs []bool) string {
	p := make([]string, len(bs))
	for i, b := range bs {
		p[i] = strconv.FormatBool(b)
	}
	return "[" + strings.Join(p, ";") + "]"
}

type c10line struct {
	Coq    string         `json:"coq"`
	NT     bool           `json:"nt"`
	Key    string         `json:"key"`
	Sample map[string]any `json:"sample,omitempty"`
	Tags   []string       `json:"tags"`
}

func c10fatal(t *testing.T, format string, a ...any) {
	t.Fatalf("C10 maps driver: "+format, a...)
}

func TestVerifC10Maps(t *testing.T) {
	out := os.Getenv("VERIF_C10_OUT")
	if out == "" {
		t.Skip("VERIF_C10_OUT not set")
	}
	n, _ := strconv.Atoi(os.Getenv("VERIF_C10_N"))
	seed, _ := strconv.ParseUint(os.Getenv("VERIF_C10_SEED"), 10, 64)
	logrus.SetOutput(io.Discard)
	logrus.SetLevel(logrus.PanicLevel)
	fh, err := os.Create(out)
	if err != nil {
		t.Fatal(err)
	}
	defer fh.Close()
	enc := json.NewEncoder(fh)
	r := &c10rng{s: seed*7919 + 17}

	universe := []string{"cali0", "cali01", "cali1", "cali12", "calib", "tap7"}
	rcfg := rules.Config{
		IPSetConfigV4: ipsets.NewIPVersionConfig(ipsets.IPFamilyV4, "cali", nil, nil),
		IPSetConfigV6: ipsets.NewIPVersionConfig(ipsets.IPFamilyV6, "cali", nil, nil),
		MarkAccept:    0x8, MarkPass: 0x10, MarkScratch0: 0x20, MarkScratch1: 0x40, MarkDrop: 0x80,
		MarkEndpoint: 0xff00, MarkNonCaliEndpoint: 0x0100,
		WorkloadIfacePrefixes: []string{"cali", "tap"},
	}
	renderer := rules.NewRenderer(rcfg, true)

	for ci := 0; ci < n; ci++ {
		var f *fakeNFT
		var w *c10NFT
		newDataplane := func(fam knftables.Family, name string, options ...knftables.Option) (knftables.Interface, error) {
			f = NewFake(fam, name)
			w = &c10NFT{fakeNFT: f}
			return w, nil
		}
		table := nftables.NewTable("calico", 4, rulesdefs.RuleHashPrefix, &environment.FakeFeatureDetector{},
			nftables.TableOptions{
				NewDataplane:     newDataplane,
				LookPathOverride: testutils.LookPathNoLegacy,
				OpRecorder:       logrusr.NewSummarizer("verif c10"),
				SleepOverride:    func(time.Duration) {},
			}, true)
		if w == nil {
			c10fatal(t, "NewDataplane was not called")
		}
		// per-endpoint chains for every interface of the universe (programmed when a map member refers to them)
		chainRev := map[string]string{} // chain name -> Coq cid
		for _, k := range c10kinds {
			for _, ifc := range universe {
				cn := rules.EndpointChainName(k.epPfx, ifc, nftables.MaxChainNameLength)
				if _, dup := chainRev[cn]; dup {
					c10fatal(t, "chain name collision %q", cn)
				}
				chainRev[cn] = fmt.Sprintf("(CEp %s %s)", k.coq, c10name(ifc))
				table.UpdateChain(&generictables.Chain{Name: cn,
					Rules: []generictables.Rule{{Match: nftables.Match(), Action: nftables.AcceptAction{}}}})
			}
		}
		toggle := false
		dirtyUnrelated := func() { // gives every applyUpdates something to write, so every attempt runs a transaction
			toggle = !toggle
			var a generictables.Action = nftables.AcceptAction{}
			if toggle {
				a = nftables.DropAction{}
			}
			table.UpdateChain(&generictables.Chain{Name: "cali-foobar",
				Rules: []generictables.Rule{{Match: nftables.Match(), Action: a}}})
		}
		table.InsertOrAppendRules("filter-FORWARD", []generictables.Rule{
			{Match: nftables.Match(), Action: nftables.JumpAction{Target: "cali-foobar"}}})

		observe := func() string {
			maps, err := f.List(context.TODO(), "map")
			if err != nil {
				if knftables.IsNotFound(err) {
					return "None"
				}
				c10fatal(t, "listing maps: %v", err)
			}
			sort.Strings(maps)
			var ms []string
			for _, k := range c10kinds { // kinds are listed in Nf.all order
				found := false
				for _, m := range maps {
					if m == k.mapName {
						found = true
					}
				}
				if !found {
					continue
				}
				elems, err := f.ListElements(context.TODO(), "map", k.mapName)
				if err != nil {
					c10fatal(t, "listing %s: %v", k.mapName, err)
				}
				type ent struct{ k, v string }
				var es []ent
				for _, e := range elems {
					if len(e.Key) != 1 || len(e.Value) != 1 {
						c10fatal(t, "unexpected element %v", e)
					}
					fs := strings.Split(e.Value[0], " ")
					if len(fs) != 2 || fs[0] != "goto" {
						c10fatal(t, "unexpected verdict %q", e.Value[0])
					}
					cid, ok := chainRev[fs[1]]
					if !ok {
						c10fatal(t, "verdict refers to unknown chain %q", fs[1])
					}
					es = append(es, ent{e.Key[0], "(AGoto " + cid + ")"})
				}
				sort.Slice(es, func(i, j int) bool { return es[i].k < es[j].k })
				var ps []string
				for _, e := range es {
					ps = append(ps, fmt.Sprintf("(%s, %s)", c10name(e.k), e.v))
				}
				ms = append(ms, fmt.Sprintf("(%s, [%s])", k.coq, strings.Join(ps, "; ")))
			}
			for _, m := range maps {
				known := false
				for _, k := range c10kinds {
					known = known || m == k.mapName
				}
				if !known {
					c10fatal(t, "unexpected map %q in the fake kernel", m)
				}
			}
			return "(Some [" + strings.Join(ms, "; ") + "])"
		}

		nops := 3 + r.intn(6)
		var ops, obs, sample []string
		tags := map[string]bool{}
		panicked := false
		outage := false
		for oi := 0; oi < nops && !panicked; oi++ {
			// desired-state changes
			// At most one change per map between two Apply() calls: a chain that is referenced and
			// un-referenced again before it was ever programmed makes the real table emit "flush chain"
			// for a chain that does not exist (6 failed transactions, then a table recreate); chains are
			// outside this model, so the generator stays away from that (reported separately).
			for _, k := range c10kinds {
				if !(r.intn(2) == 0 || (oi == 0 && k.coq == "KWlFrom")) {
					continue
				}
				var names []string
				eps := map[types.WorkloadEndpointID]*proto.WorkloadEndpoint{}
				for j, ifc := range universe {
					if r.intn(2) == 0 {
						names = append(names, ifc)
						eps[types.WorkloadEndpointID{OrchestratorId: "k8s", WorkloadId: fmt.Sprintf("w%d", j), EndpointId: "eth0"}] = &proto.WorkloadEndpoint{Name: ifc}
						if r.intn(6) == 0 { // a second endpoint claiming the same interface
							names = append(names, ifc)
							eps[types.WorkloadEndpointID{OrchestratorId: "k8s", WorkloadId: fmt.Sprintf("w%d-dup", j), EndpointId: "eth0"}] = &proto.WorkloadEndpoint{Name: ifc}
						}
					}
				}
				from, to := renderer.DispatchMappings(eps)
				m := from
				if k.coq == "KWlTo" {
					m = to
				}
				table.AddOrReplaceMap(nftables.MapMetadata{Name: k.mapName, Type: nftables.MapTypeInterfaceMatch}, m)
				var nt []string
				for _, s := range names {
					nt = append(nt, c10name(s))
				}
				ops = append(ops, fmt.Sprintf("MSet %s [%s]", k.coq, strings.Join(nt, "; ")))
				sample = append(sample, fmt.Sprintf("set %s %v", k.coq, names))
			}
			// failure script for this Apply
			var runFail, listFail, elemFail []bool
			switch r.intn(10) {
			case 0, 1, 2: // healthy
			case 3, 4: // a few write failures only
				for j, c := 0, 1+r.intn(8); j < c; j++ {
					runFail = append(runFail, true)
				}
			case 5, 6: // outage affecting reads and writes
				c := 4 + r.intn(5)
				for j := 0; j < c; j++ {
					runFail = append(runFail, true)
				}
				for j := 0; j < c; j++ {
					elemFail = append(elemFail, r.intn(4) != 0)
					listFail = append(listFail, r.intn(6) == 0)
				}
				outage = true
			case 7: // everything fails: Apply gives up
				for j := 0; j < 11; j++ {
					runFail = append(runFail, true)
				}
			default: // random mix
				for j, c := 0, r.intn(11); j < c; j++ {
					runFail = append(runFail, r.intn(3) != 0)
					elemFail = append(elemFail, r.intn(3) == 0)
					listFail = append(listFail, r.intn(5) == 0)
				}
			}
			w.mu.Lock()
			w.runFail, w.listFail, w.elemFail, w.curElem = runFail, listFail, elemFail, false
			runs0, loads0 := w.runs, w.loads
			w.mu.Unlock()
			dirtyUnrelated()
			func() {
				defer func() {
					if e := recover(); e != nil {
						panicked = true
					}
				}()
				table.Apply()
			}()
			w.mu.Lock()
			runs, loads := w.runs-runs0, w.loads-loads0
			w.mu.Unlock()
			ops = append(ops, fmt.Sprintf("MApply {| sc_run := %s; sc_listall := %s; sc_elem := %s |}", c10bools(runFail), c10bools(listFail), c10bools(elemFail)))
			obs = append(obs, fmt.Sprintf("{| o_panicked := %v; o_runs := %d%%nat; o_loads := %d%%nat; o_kernel := %s |}", panicked, runs, loads, observe()))
			sample = append(sample, fmt.Sprintf("apply run=%v listall=%v elems=%v -> runs=%d loads=%d panicked=%v", runFail, listFail, elemFail, runs, loads, panicked))
			if runs >= 7 {
				tags["maps:table-recreated"] = true
			}
			if panicked {
				tags["maps:apply-gave-up"] = true
			}
		}
		if w.elemFails > 0 {
			tags["maps:element-listing-failed"] = true
		}
		if outage {
			tags["maps:outage-script"] = true
		}
		var pops []string
		for _, o := range ops {
			pops = append(pops, "("+o+")")
		}
		var tl []string
		for tg := range tags {
			tl = append(tl, tg)
		}
		sort.Strings(tl)
		tl = append(tl, "part:maps-sync")
		coq := fmt.Sprintf("{| mc_ops := [%s]; mc_obs := [%s] |}", strings.Join(pops, "; "), strings.Join(obs, "; "))
		_ = enc.Encode(c10line{Coq: coq, NT: tags["maps:table-recreated"] || tags["maps:element-listing-failed"],
			Key: "maps|" + strings.Join(ops, "|"), Sample: map[string]any{"part": "nftables map sync", "history": sample}, Tags: tl})
	}
}
