//go:build verif

// C26 correspondence driver.
//
// Runs the REAL watcherSyncer (watchersyncer.New + Start) over a scripted fake api.Client.  Every interaction a
// watcher cache has with the datastore is a method call on the fake made on that cache's own goroutine
// (List, Watch, and WatchInterface.ResultChan, which the cache re-evaluates before every receive).  Each such call
// blocks until the driver hands it the next generated outcome, and the driver releases exactly one cache at a
// time and waits for that cache's NEXT request before doing anything else, so the order of everything put on the
// syncer's results channel is fully determined by the script.  After each step a parse-error "barrier" is
// injected into the results channel (verif shim) and the driver waits for its ParseFailed callback: a handshake,
// no sleeps.  The retry intervals are package variables and are zeroed; the watch retry timeout is one hour and
// "the timeout elapsed" is produced by shifting the cache's lastSuccessfulConnTime back two hours (verif shim,
// called on the cache's goroutine).
package main

import (
	"context"
	"encoding/json"
	"errors"
	"flag"
	"fmt"
	"io"
	"os"
	"sort"
	"strconv"
	"strings"
	"sync"
	"syscall"
	"time"

	apiv3 "github.com/projectcalico/api/pkg/apis/projectcalico/v3"
	"github.com/sirupsen/logrus"
	kerrors "k8s.io/apimachinery/pkg/api/errors"
	metav1 "k8s.io/apimachinery/pkg/apis/meta/v1"
	"k8s.io/apimachinery/pkg/runtime/schema"

	"github.com/projectcalico/calico/libcalico-go/lib/backend/api"
	"github.com/projectcalico/calico/libcalico-go/lib/backend/model"
	"github.com/projectcalico/calico/libcalico-go/lib/backend/watchersyncer"
	cerrors "github.com/projectcalico/calico/libcalico-go/lib/errors"
)

// ---------------------------------------------------------------- rng

type rng struct{ s uint64 }

func (r *rng) next() uint64 {
	r.s += 0x9e3779b97f4a7c15
	z := r.s
	z = (z ^ (z >> 30)) * 0xbf58476d1ce4e5b9
	z = (z ^ (z >> 27)) * 0x94d049bb133111eb
	return z ^ (z >> 31)
}
func (r *rng) intn(n int) int { return int(r.next() % uint64(n)) }
func (r *rng) pct(p int) bool { return r.intn(100) < p }

func mix(a, b uint64) uint64 {
	z := a*0x9e3779b97f4a7c15 + b*0xbf58476d1ce4e5b9 + 0x94d049bb133111eb
	z = (z ^ (z >> 30)) * 0xbf58476d1ce4e5b9
	z = (z ^ (z >> 27)) * 0x94d049bb133111eb
	return z ^ (z >> 31)
}

// the value stored under (key, revision) is a function of both: a revision identifies the content
func valueOf(k, r uint64) uint64 { return mix(k, r) % 8 }

// revEmpty stands for the EMPTY revision string ""; in Coq it is 2^64 (Model.rev_empty).
const revEmpty = ^uint64(0)

func revStr(r uint64) string {
	if r == revEmpty {
		return ""
	}
	return strconv.FormatUint(r, 10)
}
func revCoq(r uint64) string {
	if r == revEmpty {
		return "18446744073709551616"
	}
	return strconv.FormatUint(r, 10)
}
func revParse(s string) uint64 {
	if s == "" {
		return revEmpty
	}
	r, _ := strconv.ParseUint(s, 10, 64)
	return r
}

// ---------------------------------------------------------------- fake client

var kinds = []string{apiv3.KindIPPool, apiv3.KindBGPPeer, apiv3.KindTier}

const (
	kList = iota
	kWatch
	kEvent
)

type item struct{ k, r, v uint64 }

type response struct {
	tick     bool
	listErr  error
	items    []item
	lrev     uint64
	watchErr error
	ev       api.WatchEvent
	closed   bool
	coq      string
	tag      string
}

type request struct {
	cache int
	kind  int
	rev   string // the revision the cache passed to List / Watch
	resp  chan *response
}

type fake struct {
	reqs   chan request
	done   chan struct{}
	syncer api.Syncer
}

func (f *fake) ask(i, kind int, rev string) *response {
	rc := make(chan *response, 1)
	select {
	case f.reqs <- request{i, kind, rev, rc}:
	case <-f.done:
		return nil
	}
	select {
	case r := <-rc:
		if r.tick {
			watchersyncer.VerifAgeConnection(f.syncer, i, 2*time.Hour)
		}
		return r
	case <-f.done:
		return nil
	}
}

func cacheOf(l model.ListInterface) int {
	kind := l.(model.ResourceListOptions).Kind
	for i, k := range kinds {
		if k == kind {
			return i
		}
	}
	panic("unknown kind " + kind)
}

func mkKey(c int, k uint64) model.ResourceKey {
	return model.ResourceKey{Kind: kinds[c], Name: strconv.FormatUint(k, 10)}
}

func (f *fake) List(ctx context.Context, l model.ListInterface, revision string) (*model.KVPairList, error) {
	c := cacheOf(l)
	r := f.ask(c, kList, revision)
	if r == nil {
		return nil, context.Canceled
	}
	if r.listErr != nil {
		return nil, r.listErr
	}
	out := &model.KVPairList{Revision: revStr(r.lrev)}
	for _, it := range r.items {
		out.KVPairs = append(out.KVPairs, &model.KVPair{Key: mkKey(c, it.k), Value: int(it.v), Revision: revStr(it.r)})
	}
	return out, nil
}

func (f *fake) Watch(ctx context.Context, l model.ListInterface, o api.WatchOptions) (api.WatchInterface, error) {
	c := cacheOf(l)
	r := f.ask(c, kWatch, o.Revision)
	if r == nil {
		return nil, context.Canceled
	}
	if r.watchErr != nil {
		return nil, r.watchErr
	}
	return &fakeWatch{f: f, c: c}, nil
}

type fakeWatch struct {
	f *fake
	c int
}

func (w *fakeWatch) Stop()               {}
func (w *fakeWatch) HasTerminated() bool { return true }
func (w *fakeWatch) ResultChan() <-chan api.WatchEvent {
	ch := make(chan api.WatchEvent, 1)
	r := w.f.ask(w.c, kEvent, "0")
	if r == nil || r.closed {
		close(ch)
		return ch
	}
	ch <- r.ev
	return ch
}

func (f *fake) Create(context.Context, *model.KVPair) (*model.KVPair, error)    { panic("unused") }
func (f *fake) Update(context.Context, *model.KVPair) (*model.KVPair, error)    { panic("unused") }
func (f *fake) Apply(context.Context, *model.KVPair) (*model.KVPair, error)     { panic("unused") }
func (f *fake) DeleteKVP(context.Context, *model.KVPair) (*model.KVPair, error) { panic("unused") }
func (f *fake) Delete(context.Context, model.Key, string) (*model.KVPair, error) {
	panic("unused")
}
func (f *fake) Get(context.Context, model.Key, string) (*model.KVPair, error) { panic("unused") }
func (f *fake) EnsureInitialized() error                                      { return nil }
func (f *fake) Clean() error                                                  { return nil }
func (f *fake) Close() error                                                  { return nil }

// ---------------------------------------------------------------- conversion (a pure UpdateProcessor)

// One datastore entry (k, v) becomes two syncer keys 2k and 2k+1, depending on v mod 4:
//   0: set 2k, delete 2k+1    1: set both    2: delete both AND report a parse error    3: delete 2k, set 2k+1
// a deletion deletes both.  (Mirrors Model.conv4.)
type conv struct{ c int }

func (p conv) OnSyncerStarting() {}
func (p conv) Process(kvp *model.KVPair) ([]*model.KVPair, error) {
	rk := kvp.Key.(model.ResourceKey)
	k, _ := strconv.ParseUint(rk.Name, 10, 64)
	set := func(kk uint64) *model.KVPair {
		return &model.KVPair{Key: mkKey(p.c, kk), Value: kvp.Value, Revision: kvp.Revision}
	}
	del := func(kk uint64) *model.KVPair {
		return &model.KVPair{Key: mkKey(p.c, kk), Revision: kvp.Revision}
	}
	if kvp.Value == nil {
		return []*model.KVPair{del(2 * k), del(2*k + 1)}, nil
	}
	switch kvp.Value.(int) % 4 {
	case 0:
		return []*model.KVPair{set(2 * k), del(2*k + 1)}, nil
	case 1:
		return []*model.KVPair{set(2 * k), set(2*k + 1)}, nil
	case 2:
		return []*model.KVPair{del(2 * k), del(2*k + 1)}, cerrors.ErrorParsingDatastoreEntry{RawKey: fmt.Sprintf("%d/%d", p.c, k), RawValue: "x"}
	default:
		return []*model.KVPair{del(2 * k), set(2*k + 1)}, nil
	}
}

// ---------------------------------------------------------------- recording callbacks

const barrierKey = "verif-barrier"

type outEv struct {
	coq   string
	isDel bool
	c     int
	k     uint64
}

type recorder struct {
	mu      sync.Mutex
	outs    []outEv
	barrier chan struct{}
}

func (r *recorder) add(o outEv) {
	r.mu.Lock()
	r.outs = append(r.outs, o)
	r.mu.Unlock()
}

var stNames = map[api.SyncStatus]string{api.WaitForDatastore: "Wait", api.ResyncInProgress: "Resync", api.InSync: "InSync"}

func (r *recorder) OnStatusUpdated(s api.SyncStatus) {
	n, ok := stNames[s]
	if !ok {
		r.add(outEv{coq: "OUnknown"})
		return
	}
	r.add(outEv{coq: "OStatus " + n})
}

func (r *recorder) OnUpdates(us []api.Update) {
	for _, u := range us {
		rk, ok := u.Key.(model.ResourceKey)
		c := -1
		for i, kd := range kinds {
			if ok && kd == rk.Kind {
				c = i
			}
		}
		k, err := strconv.ParseUint(rk.Name, 10, 64)
		if c < 0 || err != nil {
			r.add(outEv{coq: "OUnknown"})
			continue
		}
		rev := revParse(u.Revision)
		switch u.UpdateType {
		case api.UpdateTypeKVNew, api.UpdateTypeKVUpdated:
			v, ok := u.Value.(int)
			if !ok {
				r.add(outEv{coq: "OUnknown"})
				continue
			}
			kind := "UNew"
			if u.UpdateType == api.UpdateTypeKVUpdated {
				kind = "UMod"
			}
			r.add(outEv{coq: fmt.Sprintf("OUpd %d (%s %d %s %d)", c, kind, k, revCoq(rev), v)})
		case api.UpdateTypeKVDeleted:
			if u.Value != nil {
				r.add(outEv{coq: "OUnknown"})
				continue
			}
			r.add(outEv{coq: fmt.Sprintf("OUpd %d (UDel %d)", c, k), isDel: true, c: c, k: k})
		default:
			r.add(outEv{coq: "OUnknown"})
		}
	}
}

func (r *recorder) SyncFailed(err error) { r.add(outEv{coq: "OSyncFailed"}) }

func (r *recorder) ParseFailed(rawKey string, rawValue string) {
	if rawKey == barrierKey {
		r.barrier <- struct{}{}
		return
	}
	var c int
	var k uint64
	if _, err := fmt.Sscanf(rawKey, "%d/%d", &c, &k); err != nil {
		r.add(outEv{coq: "OUnknown"})
		return
	}
	r.add(outEv{coq: fmt.Sprintf("OParseFailed %d %d", c, k)})
}

// take returns what was recorded since the last call; maximal runs of deletions are sorted by (cache, key) because
// the real code emits resync/shutdown deletions in Go map order (the model is compared after the same sort).
func (r *recorder) take() []string {
	r.mu.Lock()
	o := r.outs
	r.outs = nil
	r.mu.Unlock()
	for i := 0; i < len(o); {
		j := i
		for j < len(o) && o[j].isDel {
			j++
		}
		if j > i {
			run := o[i:j]
			sort.SliceStable(run, func(a, b int) bool {
				if run[a].c != run[b].c {
					return run[a].c < run[b].c
				}
				return run[a].k < run[b].k
			})
			i = j
		} else {
			i++
		}
	}
	s := make([]string, len(o))
	for i := range o {
		s[i] = o[i].coq
	}
	return s
}

// ---------------------------------------------------------------- generation

type store struct {
	m       map[uint64]item
	rev     uint64
	burst   int // remaining steps of an error burst (reaches MaxErrorsPerRevision)
	tickrun int
	outage  int // remaining steps of a datastore outage: everything fails and the retry timeout elapses
}

func (s *store) keys() []uint64 {
	ks := make([]uint64, 0, len(s.m))
	for k := range s.m {
		ks = append(ks, k)
	}
	sort.Slice(ks, func(a, b int) bool { return ks[a] < ks[b] })
	return ks
}

// mutate changes the simulated datastore and returns the watch event a consistent watcher would see.
func (s *store) mutate(r *rng, c int) (api.WatchEvent, string) {
	ks := s.keys()
	s.rev++
	op := r.intn(10)
	if len(ks) == 0 || (op < 4 && len(ks) < 6) {
		k := uint64(r.intn(6))
		if old, ok := s.m[k]; ok {
			it := item{k, s.rev, valueOf(k, s.rev)}
			s.m[k] = it
			return modEv(c, old, it), "(REvent (EvMod ("+itemCoq(it)+")))"
		}
		it := item{k, s.rev, valueOf(k, s.rev)}
		s.m[k] = it
		return addEv(c, it), "(REvent (EvAdd ("+itemCoq(it)+")))"
	}
	k := ks[r.intn(len(ks))]
	old := s.m[k]
	if op < 7 {
		it := item{k, s.rev, valueOf(k, s.rev)}
		s.m[k] = it
		return modEv(c, old, it), "(REvent (EvMod ("+itemCoq(it)+")))"
	}
	delete(s.m, k)
	// the deletion event carries the deleted object at the revision of the deletion
	return delEv(c, item{k, s.rev, old.v}), fmt.Sprintf("(REvent (EvDel %d %d))", k, s.rev)
}

func kvp(c int, it item) *model.KVPair {
	return &model.KVPair{Key: mkKey(c, it.k), Value: int(it.v), Revision: revStr(it.r)}
}
func itemCoq(it item) string { return fmt.Sprintf("mkItem %d %s %d", it.k, revCoq(it.r), it.v) }
func addEv(c int, it item) api.WatchEvent { return api.WatchEvent{Type: api.WatchAdded, New: kvp(c, it)} }
func modEv(c int, old, it item) api.WatchEvent {
	return api.WatchEvent{Type: api.WatchModified, Old: kvp(c, old), New: kvp(c, it)}
}
func delEv(c int, it item) api.WatchEvent { return api.WatchEvent{Type: api.WatchDeleted, Old: kvp(c, it)} }

func tooLarge() error {
	return &kerrors.StatusError{ErrStatus: metav1.Status{Status: metav1.StatusFailure, Reason: metav1.StatusReasonTimeout, Code: 504,
		Details: &metav1.StatusDetails{Causes: []metav1.StatusCause{{Type: metav1.CauseTypeResourceVersionTooLarge, Message: "Too large resource version"}}}}}
}

func itemsCoq(items []item) string {
	s := make([]string, len(items))
	for i, it := range items {
		s[i] = itemCoq(it)
	}
	return "[" + strings.Join(s, "; ") + "]"
}

func genList(r *rng, s *store, c int) *response {
	p := r.intn(100)
	switch {
	case p < 62:
		// consistent snapshot, after some unobserved changes
		for n := r.intn(4); n > 0; n-- {
			s.mutate(r, c)
		}
		var items []item
		for _, k := range s.keys() {
			items = append(items, s.m[k])
		}
		// list order is the server's business: rotate
		if len(items) > 1 {
			o := r.intn(len(items))
			items = append(items[o:], items[:o]...)
		}
		lrev := s.rev
		tag := "list:snapshot"
		if len(items) == 0 && r.pct(50) {
			lrev = 0 // "no items and an empty/zero revision": the polling mode
			tag = "list:empty-zero-rev"
			if r.pct(50) {
				lrev = revEmpty
				tag = "list:empty-empty-rev"
			}
		} else if len(items) > 0 && r.pct(4) {
			// items with a zero/empty revision: the code logs `BUG: List returned items ...` and panics
			lrev = 0
			if r.pct(50) {
				lrev = revEmpty
			}
			tag = "list:items-with-zero-or-empty-rev"
		}
		return &response{items: items, lrev: lrev, coq: fmt.Sprintf("(RListOk %s %s)", itemsCoq(items), revCoq(lrev)), tag: tag}
	case p < 72:
		// arbitrary (stale / partial / duplicated) list
		var items []item
		for n := r.intn(5); n > 0; n-- {
			k := uint64(r.intn(7))
			rv := 1 + uint64(r.intn(int(s.rev)+3))
			if r.pct(8) {
				rv = revEmpty // an item without a revision
			}
			items = append(items, item{k, rv, valueOf(k, rv)})
		}
		lrev := 1 + uint64(r.intn(int(s.rev)+3))
		if len(items) == 0 && r.pct(30) {
			lrev = 0
			if r.pct(50) {
				lrev = revEmpty
			}
		}
		return &response{items: items, lrev: lrev, coq: fmt.Sprintf("(RListOk %s %s)", itemsCoq(items), revCoq(lrev)), tag: "list:arbitrary"}
	case p < 78:
		return &response{listErr: kerrors.NewNotFound(schema.GroupResource{Resource: "x"}, "x"), coq: "(RListErr LNotFound)", tag: "list:notfound"}
	case p < 83:
		return &response{listErr: kerrors.NewResourceExpired("too old"), coq: "(RListErr LExpired)", tag: "list:expired"}
	case p < 86:
		return &response{listErr: tooLarge(), coq: "(RListErr LExpired)", tag: "list:toolarge"}
	default:
		errs := []error{errors.New("boom"), kerrors.NewGone("gone"), syscall.ECONNREFUSED, kerrors.NewTooManyRequests("slow", 1),
			cerrors.ErrorOperationNotSupported{Operation: "list"}, cerrors.ErrorResourceDoesNotExist{Identifier: "x"}, kerrors.NewInternalError(errors.New("x"))}
		return &response{listErr: errs[r.intn(len(errs))], coq: "(RListErr LOther)", tag: "list:other-error"}
	}
}

func genWatch(r *rng, s *store) *response {
	if s.burst > 0 {
		s.burst--
		if r.pct(50) {
			return &response{watchErr: errors.New("boom"), coq: "(RWatchErr WOther)", tag: "watch:other-error"}
		}
		return &response{coq: "RWatchOk", tag: "watch:ok"}
	}
	p := r.intn(100)
	switch {
	case p < 66:
		return &response{coq: "RWatchOk", tag: "watch:ok"}
	case p < 74:
		errs := []error{kerrors.NewResourceExpired("old"), kerrors.NewGone("gone"), tooLarge()}
		return &response{watchErr: errs[r.intn(3)], coq: "(RWatchErr WExpired)", tag: "watch:expired"}
	case p < 82:
		errs := []error{syscall.ECONNREFUSED, kerrors.NewTooManyRequests("slow", 1), fmt.Errorf("dial: %w", syscall.ECONNREFUSED)}
		return &response{watchErr: errs[r.intn(3)], coq: "(RWatchErr WConnRefused)", tag: "watch:conn-refused"}
	case p < 90:
		errs := []error{cerrors.ErrorOperationNotSupported{Operation: "watch"}, cerrors.ErrorResourceDoesNotExist{Identifier: "x"},
			fmt.Errorf("wrapped: %w", cerrors.ErrorOperationNotSupported{Operation: "watch"})}
		return &response{watchErr: errs[r.intn(3)], coq: "(RWatchErr WNotSupported)", tag: "watch:not-supported"}
	default:
		errs := []error{errors.New("boom"), kerrors.NewNotFound(schema.GroupResource{Resource: "x"}, "x"), kerrors.NewInternalError(errors.New("x"))}
		return &response{watchErr: errs[r.intn(3)], coq: "(RWatchErr WOther)", tag: "watch:other-error"}
	}
}

func genEvent(r *rng, s *store, c int) *response {
	if s.burst > 0 {
		s.burst--
		return &response{ev: api.WatchEvent{Type: api.WatchError, Error: errors.New("boom")}, coq: "(REvent EvErrOther)", tag: "event:error-other"}
	}
	p := r.intn(100)
	switch {
	case p < 58:
		ev, coq := s.mutate(r, c)
		return &response{ev: ev, coq: coq, tag: "event:consistent-" + strings.ToLower(string(ev.Type))}
	case p < 66:
		s.rev++
		return &response{ev: api.WatchEvent{Type: api.WatchBookmark, New: &model.KVPair{Revision: strconv.FormatUint(s.rev, 10)}},
			coq: fmt.Sprintf("(REvent (EvBookmark %d))", s.rev), tag: "event:bookmark"}
	case p < 76:
		// arbitrary event: replay of a stored object (same revision), delete of an absent key, out-of-band change
		ks := s.keys()
		switch q := r.intn(4); {
		case q == 0 && len(ks) > 0:
			it := s.m[ks[r.intn(len(ks))]]
			if r.pct(50) {
				return &response{ev: addEv(c, it), coq: "(REvent (EvAdd ("+itemCoq(it)+")))", tag: "event:replay-same-revision"}
			}
			return &response{ev: modEv(c, it, it), coq: "(REvent (EvMod ("+itemCoq(it)+")))", tag: "event:replay-same-revision"}
		case q == 1:
			k := uint64(r.intn(8))
			rv := 1 + uint64(r.intn(int(s.rev)+2))
			if r.pct(15) {
				rv = revEmpty
			}
			return &response{ev: delEv(c, item{k, rv, 0}), coq: fmt.Sprintf("(REvent (EvDel %d %s))", k, revCoq(rv)), tag: "event:arbitrary-delete"}
		case q == 2:
			if r.pct(50) {
				return &response{ev: api.WatchEvent{Type: api.WatchBookmark, New: &model.KVPair{Revision: ""}}, coq: "(REvent (EvBookmark " + revCoq(revEmpty) + "))", tag: "event:bookmark-empty"}
			}
			return &response{ev: api.WatchEvent{Type: api.WatchBookmark, New: &model.KVPair{Revision: "0"}}, coq: "(REvent (EvBookmark 0))", tag: "event:bookmark-zero"}
		default:
			k := uint64(r.intn(8))
			rv := 1 + uint64(r.intn(int(s.rev)+2))
			if r.pct(15) {
				rv = revEmpty // an event without a revision: the next watch starts from "" (not "0", no resync)
			}
			it := item{k, rv, valueOf(k, rv)}
			return &response{ev: addEv(c, it), coq: "(REvent (EvAdd ("+itemCoq(it)+")))", tag: "event:arbitrary-add"}
		}
	case p < 82:
		return &response{ev: api.WatchEvent{Type: api.WatchError, Error: kerrors.NewResourceExpired("compacted")}, coq: "(REvent EvErrExpired)", tag: "event:error-expired"}
	case p < 90:
		if r.pct(40) {
			s.burst = 8
		}
		errs := []error{errors.New("boom"), kerrors.NewGone("gone"), syscall.ECONNREFUSED}
		return &response{ev: api.WatchEvent{Type: api.WatchError, Error: errs[r.intn(3)]}, coq: "(REvent EvErrOther)", tag: "event:error-other"}
	case p < 97:
		return &response{closed: true, coq: "(REvent EvClosed)", tag: "event:closed"}
	default:
		return &response{ev: api.WatchEvent{Type: api.WatchEventType("WEIRD")}, coq: "(REvent EvUnknown)", tag: "event:unknown-type"}
	}
}

// ---------------------------------------------------------------- the deliberate panic

// logrus fires hooks before Panic-level entries panic.  The hook reports the cache and parks the goroutine for
// ever, so the panic is OBSERVED instead of killing the driver.
type panicHook struct{ ch chan int }

func (h *panicHook) Levels() []logrus.Level { return []logrus.Level{logrus.PanicLevel} }
func (h *panicHook) Fire(e *logrus.Entry) error {
	id := -1
	if v, ok := e.Data["cacheID"].(int); ok {
		id = v
	}
	if !strings.Contains(e.Message, "BUG: List returned items with empty/zero revision") {
		id = -2 - id // some other panic
	}
	h.ch <- id
	select {}
}

var panics = &panicHook{ch: make(chan int)}

// ---------------------------------------------------------------- one case

type line struct {
	Coq    string         `json:"coq"`
	NT     bool           `json:"nt"`
	Key    string         `json:"key"`
	Sample map[string]any `json:"sample,omitempty"`
	Tags   []string       `json:"tags"`
}

func fatal(msg string) {
	fmt.Fprintln(os.Stderr, "C26 driver: "+msg)
	os.Exit(3)
}

func runCase(r *rng, long bool) line {
	ncaches := 1 + r.intn(3)
	nsteps := 8 + r.intn(28)
	if long {
		nsteps = 40 + r.intn(60)
	}
	f := &fake{reqs: make(chan request), done: make(chan struct{})}
	rec := &recorder{barrier: make(chan struct{}, 1)}
	var rts []watchersyncer.ResourceType
	var cfgs []string
	stores := make([]*store, ncaches)
	for c := 0; c < ncaches; c++ {
		rt := watchersyncer.ResourceType{ListInterface: model.ResourceListOptions{Kind: kinds[c]}}
		rt.SendDeletesOnConnFail = r.pct(40)
		cv := r.pct(35)
		if cv {
			rt.UpdateProcessor = conv{c}
		}
		rts = append(rts, rt)
		cfgs = append(cfgs, fmt.Sprintf("mkCfg %v %v", rt.SendDeletesOnConnFail, cv))
		stores[c] = &store{m: map[uint64]item{}, rev: 10}
		for n := r.intn(5); n > 0; n-- {
			stores[c].mutate(r, c)
		}
	}
	s := watchersyncer.New(f, rts, rec, watchersyncer.WithWatchRetryTimeout(time.Hour))
	f.syncer = s
	s.Start()

	pending := make([]*request, ncaches)
	panicked := -1
	wait := func() request {
		select {
		case rq := <-f.reqs:
			return rq
		case id := <-panics.ch:
			if id < 0 {
				fatal("unexpected panic-level log")
			}
			panicked = id
			return request{cache: id, kind: -1}
		case <-time.After(60 * time.Second):
			fatal("a watcher cache made no further request within 60s (deadlock or panic)")
			panic("unreachable")
		}
	}
	barrier := func() []string {
		watchersyncer.VerifInject(s, cerrors.ErrorParsingDatastoreEntry{RawKey: barrierKey})
		select {
		case <-rec.barrier:
		case <-time.After(60 * time.Second):
			fatal("barrier not delivered within 60s")
		}
		return rec.take()
	}
	for n := 0; n < ncaches; n++ {
		rq := wait()
		if pending[rq.cache] != nil {
			fatal("two outstanding requests from one cache")
		}
		pending[rq.cache] = &rq
	}
	pre := barrier()

	var steps, sample, reqs []string
	panicStep := "None"
	tags := map[string]bool{fmt.Sprintf("caches:%d", ncaches): true}
	var keyParts []string
	sawInSync, resyncAfterSync, sawItems, sawTickErr := false, false, false, false
	for n := 0; n < nsteps; n++ {
		c := r.intn(ncaches)
		rq := pending[c]
		st := stores[c]
		var rs *response
		if st.outage == 0 && r.pct(4) {
			st.outage = 3 + r.intn(3)
		}
		switch {
		case st.outage > 0 && rq.kind == kList:
			rs = &response{listErr: errors.New("outage"), coq: "(RListErr LOther)", tag: "outage"}
		case st.outage > 0 && rq.kind == kWatch:
			rs = &response{watchErr: syscall.ECONNREFUSED, coq: "(RWatchErr WConnRefused)", tag: "outage"}
		case st.outage > 0:
			rs = &response{closed: true, coq: "(REvent EvClosed)", tag: "outage"}
		case rq.kind == kList:
			rs = genList(r, st, c)
		case rq.kind == kWatch:
			rs = genWatch(r, st)
		default:
			rs = genEvent(r, st, c)
		}
		if st.outage > 0 {
			st.outage--
			rs.tick = true
		}
		if st.tickrun > 0 {
			st.tickrun--
			rs.tick = true
		} else if r.pct(12) {
			rs.tick = true
			if r.pct(40) {
				st.tickrun = 3
			}
		}
		pending[c] = nil
		rq.resp <- rs
		nr := wait()
		if nr.cache != c {
			fatal("request from a cache that was not released")
		}
		if panicked >= 0 {
			outs := barrier()
			panicStep = fmt.Sprintf("Some (St %d %v %s [%s])", c, rs.tick, rs.coq, strings.Join(outs, "; "))
			keyParts = append(keyParts, "PANIC:"+rs.coq)
			sample = append(sample, fmt.Sprintf("cache %d tick=%v %s -> %s, then PANIC (BUG: List returned items with empty/zero revision)", c, rs.tick, rs.coq, strings.Join(outs, ", ")))
			tags[rs.tag] = true
			tags["panic-observed"] = true
			break
		}
		pending[c] = &nr
		reqs = append(reqs, fmt.Sprintf("(%s, %s%%N)", []string{"PList", "PWatch", "PEvents"}[nr.kind], revCoq(revParse(nr.rev))))
		if nr.kind != kEvent && nr.rev == "" {
			tags["request-with-empty-revision"] = true
		}
		outs := barrier()
		steps = append(steps, fmt.Sprintf("St %d %v %s [%s]", c, rs.tick, rs.coq, strings.Join(outs, "; ")))
		keyParts = append(keyParts, fmt.Sprintf("%d%v%s", c, rs.tick, rs.coq))
		if len(sample) < 40 {
			sample = append(sample, fmt.Sprintf("cache %d tick=%v %s -> %s", c, rs.tick, rs.coq, strings.Join(outs, ", ")))
		}
		tags[rs.tag] = true
		if rs.tick {
			tags["tick"] = true
			if rs.listErr != nil || rs.watchErr != nil {
				sawTickErr = true
			}
		}
		if len(rs.items) > 0 {
			sawItems = true
		}
		for _, o := range outs {
			if o == "OStatus InSync" {
				sawInSync = true
			} else if strings.HasPrefix(o, "OStatus") && sawInSync {
				resyncAfterSync = true
				tags["regressed-after-insync"] = true
			}
			if o == "OSyncFailed" {
				tags["sync-failed"] = true
			}
			if strings.HasPrefix(o, "OParseFailed") {
				tags["parse-failed"] = true
			}
		}
	}
	_ = sawTickErr
	// shut the real syncer down (its shutdown deletions are not part of the observation)
	close(f.done)
	stopped := make(chan struct{})
	go func() { s.Stop(); close(stopped) }()
	if panicked < 0 {
		select {
		case <-stopped:
		case <-time.After(60 * time.Second):
			fatal("Stop() did not return within 60s")
		}
	} // else: the dead cache's goroutine is parked in the hook for ever, Stop() cannot finish; it is abandoned
	select {
	case <-rec.barrier:
	default:
	}

	coq := fmt.Sprintf("{| c_cfgs := [%s]; c_pre := [%s]; c_steps := [%s]; c_reqs := [%s]; c_panic := %s |}", strings.Join(cfgs, "; "), strings.Join(pre, "; "), strings.Join(steps, ";\n "), strings.Join(reqs, "; "), panicStep)
	var tl []string
	for t := range tags {
		tl = append(tl, t)
	}
	sort.Strings(tl)
	return line{Coq: coq, NT: sawInSync && sawItems && resyncAfterSync, Key: strings.Join(cfgs, ",") + "|" + strings.Join(keyParts, ";"),
		Sample: map[string]any{"cfgs": cfgs, "pre": pre, "steps": sample}, Tags: tl}
}

func main() {
	n := flag.Int("n", 50, "cases")
	seed := flag.Uint64("seed", 1, "seed")
	flag.Parse()
	logrus.SetOutput(io.Discard)
	logrus.SetLevel(logrus.PanicLevel)
	logrus.AddHook(panics)
	watchersyncer.MinResyncInterval = 0
	watchersyncer.ListRetryInterval = 0
	watchersyncer.WatchPollInterval = 0
	watchersyncer.MissingAPIRetryTime = 0
	r := &rng{s: *seed}
	enc := json.NewEncoder(os.Stdout)
	for i := 0; i < *n; i++ {
		_ = enc.Encode(runCase(r, i%10 == 9))
	}
}
