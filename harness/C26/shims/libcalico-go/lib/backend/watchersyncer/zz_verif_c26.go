//go:build verif

package watchersyncer

import (
	"time"

	"github.com/projectcalico/calico/libcalico-go/lib/backend/api"
)

// VerifInject puts a value on the syncer's results channel exactly as a watcher cache would.  The C26 driver
// uses it to send a parse-error "barrier" after every scripted step: when the barrier's ParseFailed callback
// arrives, everything the caches sent before it has been processed (the channel is FIFO, one consumer).
func VerifInject(s api.Syncer, v interface{}) {
	s.(*watcherSyncer).results <- resultWithID{cacheID: 0, value: v}
}

// VerifAgeConnection simulates the passage of d of wall-clock time without datastore contact for one cache.
// It MUST be called on that cache's own goroutine (the fake client calls it from inside List/Watch/ResultChan).
func VerifAgeConnection(s api.Syncer, cacheID int, d time.Duration) {
	wc := s.(*watcherSyncer).watcherCaches[cacheID]
	wc.lastSuccessfulConnTime = wc.lastSuccessfulConnTime.Add(-d)
}
