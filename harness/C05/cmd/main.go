//go:build verif

// C05 correspondence driver.
//
// Pipeline under test (all real code from $VERIF_REPO):
//
//	generated api.Update  ->  calc.ValidationFilter (typha v1 validator + validateWorkloadEndpoint)
//	                      ->  sink  ->  calc.ActiveRulesCalculator.OnUpdate
//	                                      -> RuleScanner callbacks      (OnProfileActive/Inactive, OnPolicyActive/Inactive)
//	                                      -> PolicyMatchListener        (OnPolicyMatch/OnPolicyMatchStopped)
//	                                      -> OnPolicyCountsChanged
//
// Histories create referenced profiles / policies / tiers late, delete them while referenced and replace them by
// versions that are invalid in one of ~20 ways.  One JSON line per case carrying the case as a Coq term.
package main

import (
	"encoding/json"
	"flag"
	"fmt"
	"io"
	"os"
	"reflect"
	"sort"
	"strings"

	v3 "github.com/projectcalico/api/pkg/apis/projectcalico/v3"
	"github.com/projectcalico/api/pkg/lib/numorstring"
	log "github.com/sirupsen/logrus"
	googleproto "google.golang.org/protobuf/proto"

	"github.com/projectcalico/calico/felix/calc"
	"github.com/projectcalico/calico/felix/config"
	"github.com/projectcalico/calico/felix/proto"
	"github.com/projectcalico/calico/lib/std/uniquelabels"
	"github.com/projectcalico/calico/libcalico-go/lib/backend/api"
	"github.com/projectcalico/calico/libcalico-go/lib/backend/model"
	cnet "github.com/projectcalico/calico/libcalico-go/lib/net"
	typhacalc "github.com/projectcalico/calico/typha/pkg/calc"
)

type rng struct{ s uint64 }

func (r *rng) next() uint64 {
	r.s += 0x9e3779b97f4a7c15
	z := r.s
	z = (z ^ (z >> 30)) * 0xbf58476d1ce4e5b9
	z = (z ^ (z >> 27)) * 0x94d049bb133111eb
	return z ^ (z >> 31)
}
func (r *rng) intn(n int) int { return int(r.next() % uint64(n)) }

type line struct {
	Coq    string         `json:"coq"`
	NT     bool           `json:"nt"`
	Key    string         `json:"key"`
	Sample map[string]any `json:"sample,omitempty"`
	Tags   []string       `json:"tags"`
}

// ---------------------------------------------------------------- abstract values (what the Coq case carries)

type aRule struct {
	action string // allow deny log next-tier
	proto  int    // 0 none, 6, 17
	dports [][2]int
	ipver  int // 0, 4, 6
}

type aSel struct {
	coq string
	txt string
}

type aProfile struct{ in, out []aRule }
type aPolicy struct {
	tier    int
	order   int // -1 = nil
	sel     aSel
	in, out []aRule
	force   bool
}
type aEndpoint struct {
	labels   [][2]string // sorted by key
	profiles []int
}
type aTier struct {
	order int
	pass  bool
}

func profName(i int) string { return fmt.Sprintf("prof-%d", i) }
func tierName(i int) string { return fmt.Sprintf("tier-%d", i) }
func polKey(i int) model.PolicyKey {
	return model.PolicyKey{Name: fmt.Sprintf("pol-%d", i), Kind: "GlobalNetworkPolicy"}
}
func epKey(i int) model.Key {
	if i >= 100 {
		return model.HostEndpointKey{Hostname: "host", EndpointID: fmt.Sprintf("hep-%d", i)}
	}
	return model.WorkloadEndpointKey{Hostname: "host", OrchestratorID: "k8s", WorkloadID: fmt.Sprintf("wl-%d", i), EndpointID: "eth0"}
}

func idOf(s, prefix string) (int, bool) {
	var n int
	if !strings.HasPrefix(s, prefix) {
		return 0, false
	}
	if _, err := fmt.Sscanf(s[len(prefix):], "%d", &n); err != nil {
		return 0, false
	}
	return n, true
}

func epID(k any) int {
	switch k := k.(type) {
	case model.WorkloadEndpointKey:
		n, _ := idOf(k.WorkloadID, "wl-")
		return n
	case model.HostEndpointKey:
		n, _ := idOf(k.EndpointID, "hep-")
		return n
	}
	return 9999
}

// ---------------------------------------------------------------- building real objects

func buildRule(a aRule) model.Rule {
	r := model.Rule{Action: a.action}
	if a.proto != 0 {
		p := numorstring.ProtocolFromStringV1(map[int]string{6: "tcp", 17: "udp"}[a.proto])
		r.Protocol = &p
	}
	for _, d := range a.dports {
		p, _ := numorstring.PortFromRange(uint16(d[0]), uint16(d[1]))
		r.DstPorts = append(r.DstPorts, p)
	}
	if a.ipver != 0 {
		v := a.ipver
		r.IPVersion = &v
	}
	return r
}
func buildRules(as []aRule) []model.Rule {
	var out []model.Rule // nil when empty (what a JSON round trip gives)
	for _, a := range as {
		out = append(out, buildRule(a))
	}
	return out
}
func buildProfile(p aProfile) *model.ProfileRules {
	return &model.ProfileRules{InboundRules: buildRules(p.in), OutboundRules: buildRules(p.out)}
}
func buildPolicy(p aPolicy) *model.Policy {
	q := &model.Policy{Tier: tierName(p.tier), Selector: p.sel.txt, InboundRules: buildRules(p.in), OutboundRules: buildRules(p.out)}
	if p.order >= 0 {
		o := float64(p.order)
		q.Order = &o
	}
	if p.force {
		q.PerformanceHints = []v3.PolicyPerformanceHint{v3.PerfHintAssumeNeededOnEveryNode}
	}
	return q
}
func buildLabels(ls [][2]string) uniquelabels.Map {
	m := map[string]string{}
	for _, kv := range ls {
		m[kv[0]] = kv[1]
	}
	return uniquelabels.Make(m)
}
func buildProfileIDs(ps []int) []string {
	out := []string{}
	for _, p := range ps {
		out = append(out, profName(p))
	}
	return out
}
func buildWEP(e aEndpoint) *model.WorkloadEndpoint {
	return &model.WorkloadEndpoint{State: "active", Name: "cali1234", Labels: buildLabels(e.labels), ProfileIDs: buildProfileIDs(e.profiles),
		IPv4Nets: []cnet.IPNet{cnet.MustParseNetwork("10.0.0.1/32")}}
}
func buildHEP(e aEndpoint) *model.HostEndpoint {
	return &model.HostEndpoint{Name: "eth0", Labels: buildLabels(e.labels), ProfileIDs: buildProfileIDs(e.profiles)}
}
func buildTier(t aTier) *model.Tier {
	o := float64(t.order)
	a := v3.Deny
	if t.pass {
		a = v3.Pass
	}
	return &model.Tier{Order: &o, DefaultAction: a}
}

// ---------------------------------------------------------------- making an object invalid

func intp(i int) *int { return &i }

// corruptRule makes one rule invalid in way `how`; returns a description
func corruptRule(r *model.Rule, how int) string {
	switch how {
	case 0:
		r.IPVersion = intp(5)
		return "rule.ip_version=5"
	case 1:
		r.ICMPType = intp(300)
		return "rule.icmp_type=300"
	case 2:
		r.Protocol = nil
		r.DstPorts = []numorstring.Port{numorstring.SinglePort(80)}
		return "rule.numeric-port-without-protocol"
	case 3:
		p := numorstring.ProtocolFromStringV1("icmp")
		r.Protocol = &p
		r.DstPorts = []numorstring.Port{numorstring.SinglePort(80)}
		return "rule.ports-with-icmp"
	case 4:
		r.SrcSelector = "a == "
		return "rule.bad-src-selector"
	case 5:
		r.SrcTag = "bad tag!"
		return "rule.bad-src-tag"
	case 6:
		r.NotICMPCode = intp(256)
		return "rule.not-icmp-code=256"
	case 7:
		p := numorstring.ProtocolFromStringV1("tcp")
		r.Protocol = &p
		r.DstPorts = []numorstring.Port{{MinPort: 10, MaxPort: 5}}
		return "rule.port-range-reversed"
	case 8:
		p := numorstring.ProtocolFromStringV1("tcp")
		r.Protocol = &p
		r.SrcPorts = []numorstring.Port{{MinPort: 0, MaxPort: 0}}
		return "rule.port-zero"
	case 10:
		// backendActionRegex = ^(allow|deny|log|next-tier|)$ is the validator's rule for a backend rule's action
		r.Action = "bogus"
		return "rule.action=bogus"
	default:
		r.OriginalDstSelector = "has("
		return "rule.bad-orig-dst-selector"
	}
}

const nRuleCorruptions = 10

// unknownActionStream: this case belongs to the dedicated stream in which rules are (also) made invalid by an
// action outside the validator's backendAction set.  The main stream never does that.
var unknownActionStream bool
var unknownActionUsed bool

func corruptRules(r *rng, in, out *[]model.Rule) string {
	how := r.intn(nRuleCorruptions)
	if how == 10 {
		how = 9
	}
	if unknownActionStream && (!unknownActionUsed || r.intn(2) == 0) {
		how = 10
		unknownActionUsed = true
	}
	tgt := in
	dir := "in"
	if r.intn(2) == 0 {
		tgt, dir = out, "out"
	}
	if len(*tgt) == 0 || r.intn(3) == 0 {
		*tgt = append(*tgt, model.Rule{Action: "allow"})
	}
	i := r.intn(len(*tgt))
	return dir + "." + corruptRule(&(*tgt)[i], how)
}

func corruptPolicy(r *rng, q *model.Policy) string {
	switch r.intn(6) {
	case 0:
		q.Selector = "(("
		return "policy.bad-selector"
	case 1:
		q.PerformanceHints = []v3.PolicyPerformanceHint{v3.PerfHintAssumeNeededOnEveryNode, v3.PerfHintAssumeNeededOnEveryNode}
		return "policy.duplicate-hint"
	case 2:
		q.PerformanceHints = []v3.PolicyPerformanceHint{"MakeItFast"}
		return "policy.unknown-hint"
	default:
		return "policy." + corruptRules(r, &q.InboundRules, &q.OutboundRules)
	}
}

func corruptWEP(r *rng, w *model.WorkloadEndpoint) string {
	switch r.intn(3) {
	case 0:
		w.Name = ""
		return "wep.no-name"
	case 1:
		w.AllowSpoofedSourcePrefixes = []cnet.IPNet{cnet.MustParseNetwork("1.2.3.4/32")}
		return "wep.spoofing-not-enabled"
	default:
		w.Ports = []model.EndpointPort{{Name: "p", Protocol: numorstring.ProtocolFromStringV1("icmp"), Port: 80}}
		return "wep.port-protocol-icmp"
	}
}

// hepLabelStream: this case belongs to the dedicated stream in which host endpoints are made invalid by a label
// that breaks the validator's "labels" rule (tokenizer.ValidLabel / labelValueRegex).  The main stream never does.
var hepLabelStream bool

func corruptHEP(r *rng, h *model.HostEndpoint) string {
	if hepLabelStream {
		m := h.Labels.RecomputeOriginalMap()
		if m == nil {
			m = map[string]string{}
		}
		m["a"] = "bad value!!"
		h.Labels = uniquelabels.Make(m)
		return "hep.bad-label-value"
	}
	switch r.intn(3) {
	case 0:
		h.Name = "bad/iface name!"
		return "hep.bad-interface-name"
	case 1:
		h.ProfileIDs = append(h.ProfileIDs, "bad name!")
		return "hep.bad-profile-id"
	default:
		h.Ports = []model.EndpointPort{{Name: "p", Protocol: numorstring.ProtocolFromStringV1("icmp"), Port: 80}}
		return "hep.port-protocol-icmp"
	}
}

// ---------------------------------------------------------------- Coq printing

func coqAction(a string) string {
	switch a {
	case "allow", "":
		return "Allow"
	case "deny":
		return "Deny"
	case "log":
		return "Log"
	case "next-tier", "pass":
		return "Pass"
	}
	return "Log" // never produced by the generator; canonRule flags it through the tag
}

func coqRule(a aRule) string {
	proto := "None"
	if a.proto != 0 {
		proto = fmt.Sprintf("(Some %d)", a.proto)
	}
	var ds []string
	for _, d := range a.dports {
		ds = append(ds, fmt.Sprintf("(%d,%d)", d[0], d[1]))
	}
	return fmt.Sprintf("(R %s %s [%s] %d)", coqAction(a.action), proto, strings.Join(ds, ";"), a.ipver)
}
func coqRules(as []aRule) string {
	var xs []string
	for _, a := range as {
		xs = append(xs, coqRule(a))
	}
	return "[" + strings.Join(xs, "; ") + "]"
}
func coqProfile(p aProfile) string {
	return fmt.Sprintf("(PR %s %s)", coqRules(p.in), coqRules(p.out))
}
func coqPolicy(p aPolicy) string {
	order := "None"
	if p.order >= 0 {
		order = fmt.Sprintf("(Some %d)", p.order)
	}
	return fmt.Sprintf("(PO %d %s %s %s %s %v)",
		p.tier, order, p.sel.coq, coqRules(p.in), coqRules(p.out), p.force)
}
func coqBytes(s string) string {
	var xs []string
	for _, b := range []byte(s) {
		xs = append(xs, fmt.Sprint(b))
	}
	return "[" + strings.Join(xs, ";") + "]"
}
func coqEndpoint(e aEndpoint) string {
	var ls, ps []string
	for _, kv := range e.labels {
		ls = append(ls, fmt.Sprintf("(%s,%s)", coqBytes(kv[0]), coqBytes(kv[1])))
	}
	for _, p := range e.profiles {
		ps = append(ps, fmt.Sprint(p))
	}
	return fmt.Sprintf("(EPv [%s] [%s])", strings.Join(ls, ";"), strings.Join(ps, ";"))
}
func coqTier(t aTier) string {
	return fmt.Sprintf("(TI (Some %d) %v)", t.order, t.pass)
}

// canonical abstract form of a real rule; anything outside the generator's vocabulary is flagged with tag 99
func canonRule(r model.Rule) aRule {
	a := aRule{action: r.Action}
	rest := r
	rest.Action = ""
	if r.Protocol != nil {
		switch strings.ToLower(r.Protocol.String()) {
		case "tcp":
			a.proto = 6
		case "udp":
			a.proto = 17
		default:
			a.ipver = 99
		}
		rest.Protocol = nil
	}
	for _, p := range r.DstPorts {
		if p.PortName != "" {
			a.ipver = 99
		}
		a.dports = append(a.dports, [2]int{int(p.MinPort), int(p.MaxPort)})
	}
	rest.DstPorts = nil
	if r.IPVersion != nil {
		if a.ipver == 0 {
			a.ipver = *r.IPVersion
		}
		rest.IPVersion = nil
	}
	if !reflect.DeepEqual(rest, model.Rule{}) {
		a.ipver = 99
	}
	switch r.Action {
	case "allow", "deny", "log", "next-tier":
	default:
		a.ipver = 99
	}
	return a
}
func canonRules(rs []model.Rule) []aRule {
	var out []aRule
	for _, r := range rs {
		out = append(out, canonRule(r))
	}
	return out
}

// ---------------------------------------------------------------- generator vocabulary

var labelKeys = []string{"a", "b"}
var labelVals = []string{"x", "y"}

func genSel(r *rng, depth int) aSel {
	k := labelKeys[r.intn(2)]
	v := labelVals[r.intn(2)]
	switch c := r.intn(9); {
	case c == 0:
		return aSel{"SAll", "all()"}
	case c <= 2:
		return aSel{fmt.Sprintf("(SEq %s %s)", coqBytes(k), coqBytes(v)), fmt.Sprintf("%s == '%s'", k, v)}
	case c == 3:
		return aSel{fmt.Sprintf("(SHas %s)", coqBytes(k)), fmt.Sprintf("has(%s)", k)}
	case c == 4:
		return aSel{fmt.Sprintf("(SNe %s %s)", coqBytes(k), coqBytes(v)), fmt.Sprintf("%s != '%s'", k, v)}
	case c == 5 && depth > 0:
		s := genSel(r, depth-1)
		return aSel{fmt.Sprintf("(SNot %s)", s.coq), fmt.Sprintf("!(%s)", s.txt)}
	case c == 6 && depth > 0:
		s1, s2 := genSel(r, depth-1), genSel(r, depth-1)
		return aSel{fmt.Sprintf("(SAnd [%s;%s])", s1.coq, s2.coq), fmt.Sprintf("(%s) && (%s)", s1.txt, s2.txt)}
	case c == 7 && depth > 0:
		s1, s2 := genSel(r, depth-1), genSel(r, depth-1)
		return aSel{fmt.Sprintf("(SOr [%s;%s])", s1.coq, s2.coq), fmt.Sprintf("(%s) || (%s)", s1.txt, s2.txt)}
	default:
		return aSel{fmt.Sprintf("(SEq %s %s)", coqBytes(k), coqBytes(v)), fmt.Sprintf("%s == '%s'", k, v)}
	}
}

func genRule(r *rng) aRule {
	a := aRule{action: []string{"allow", "allow", "deny", "log", "next-tier"}[r.intn(5)]}
	if r.intn(2) == 0 {
		a.proto = []int{6, 17}[r.intn(2)]
		if r.intn(2) == 0 {
			lo := 1 + r.intn(1000)
			a.dports = append(a.dports, [2]int{lo, lo + r.intn(3)*r.intn(100)})
		}
	}
	if r.intn(4) == 0 {
		a.ipver = []int{4, 6}[r.intn(2)]
	}
	return a
}
func genRules(r *rng) []aRule {
	var out []aRule
	for n := r.intn(3); n > 0; n-- {
		out = append(out, genRule(r))
	}
	return out
}
func genProfile(r *rng) aProfile {
	if r.intn(12) == 0 {
		// a real profile that happens to equal the stand-in
		return aProfile{in: []aRule{{action: "deny"}}, out: []aRule{{action: "deny"}}}
	}
	return aProfile{in: genRules(r), out: genRules(r)}
}
func genPolicy(r *rng, nTiers int) aPolicy {
	p := aPolicy{tier: r.intn(nTiers), order: r.intn(4) - 1, sel: genSel(r, 2), in: genRules(r), out: genRules(r)}
	p.force = r.intn(8) == 0
	return p
}
func genEndpoint(r *rng, nProf int) aEndpoint {
	var e aEndpoint
	for _, k := range labelKeys {
		if r.intn(3) != 0 {
			e.labels = append(e.labels, [2]string{k, labelVals[r.intn(2)]})
		}
	}
	n := r.intn(4)
	for i := 0; i < n; i++ {
		p := r.intn(nProf)
		dup := false
		for _, q := range e.profiles {
			dup = dup || q == p
		}
		if dup && r.intn(4) != 0 { // duplicates in ProfileIDs are rare but allowed
			continue
		}
		e.profiles = append(e.profiles, p)
	}
	return e
}

// ---------------------------------------------------------------- recording callbacks

type recorder struct {
	evs    []string // Coq terms
	sample []string
}

func (c *recorder) OnProfileActive(k model.ProfileRulesKey, rules *model.ProfileRules) {
	id, ok := idOf(k.Name, "prof-")
	if !ok {
		id = 9999
	}
	p := aProfile{in: canonRules(rules.InboundRules), out: canonRules(rules.OutboundRules)}
	c.evs = append(c.evs, fmt.Sprintf("EProfActive %d %s", id, coqProfile(p)))
	c.sample = append(c.sample, fmt.Sprintf("ProfileActive(%s in=%v out=%v)", k.Name, p.in, p.out))
}
func (c *recorder) OnProfileInactive(k model.ProfileRulesKey) {
	id, ok := idOf(k.Name, "prof-")
	if !ok {
		id = 9999
	}
	c.evs = append(c.evs, fmt.Sprintf("EProfInactive %d", id))
	c.sample = append(c.sample, fmt.Sprintf("ProfileInactive(%s)", k.Name))
}
func polID(k model.PolicyKey) int {
	id, ok := idOf(k.Name, "pol-")
	if !ok {
		return 9999
	}
	return id
}

// selTexts maps the selector text back to the Coq term (filled by the generator)
var selTexts = map[string]string{}

func (c *recorder) OnPolicyActive(k model.PolicyKey, q *model.Policy) {
	p := aPolicy{order: -1, in: canonRules(q.InboundRules), out: canonRules(q.OutboundRules)}
	if t, ok := idOf(q.Tier, "tier-"); ok {
		p.tier = t
	} else {
		p.tier = 9999
	}
	if q.Order != nil {
		p.order = int(*q.Order)
	}
	if coq, ok := selTexts[q.Selector]; ok {
		p.sel = aSel{coq: coq, txt: q.Selector}
	} else {
		p.sel = aSel{coq: "(SEq [63] [63])", txt: q.Selector} // unknown selector text: cannot equal any generated one
	}
	p.force = len(q.PerformanceHints) > 0
	c.evs = append(c.evs, fmt.Sprintf("EPolActive %d %s", polID(k), coqPolicy(p)))
	c.sample = append(c.sample, fmt.Sprintf("PolicyActive(%s sel=%q)", k.Name, q.Selector))
}
func (c *recorder) OnPolicyInactive(k model.PolicyKey) {
	c.evs = append(c.evs, fmt.Sprintf("EPolInactive %d", polID(k)))
	c.sample = append(c.sample, fmt.Sprintf("PolicyInactive(%s)", k.Name))
}
func (c *recorder) OnPolicyMatch(k model.PolicyKey, e model.EndpointKey) {
	c.evs = append(c.evs, fmt.Sprintf("EMatch %d %d", polID(k), epID(e)))
}
func (c *recorder) OnPolicyMatchStopped(k model.PolicyKey, e model.EndpointKey) {
	c.evs = append(c.evs, fmt.Sprintf("EMatchStop %d %d", polID(k), epID(e)))
}
func (c *recorder) counts(nt, np, npr, nalp int) {
	c.evs = append(c.evs, fmt.Sprintf("EStats %d %d %d", nt, np, npr))
}

// sink behind the real ValidationFilter
type sink struct {
	next    func(api.Update)
	status  func(api.SyncStatus)
	rec     *recorder
	fwd     []api.Update
	inSyncs int
	calls   int
	// per forwarded update: the events the calculator emitted while consuming it
	perEvs    [][]string
	perSample [][]string
}

func (s *sink) OnStatusUpdated(st api.SyncStatus) {
	s.inSyncs++
	s.status(st)
}
func (s *sink) OnUpdates(us []api.Update) {
	// the forwarded batch, exactly as the filter handed it over; events are attributed to the single updates
	s.fwd = append(s.fwd, us...)
	s.calls++
	for _, u := range us {
		s.rec.evs, s.rec.sample = nil, nil
		func() {
			defer func() {
				if r := recover(); r != nil {
					s.rec.evs = append(s.rec.evs, "EPanic")
					s.rec.sample = append(s.rec.sample, fmt.Sprintf("PANIC(%v)", r))
				}
			}()
			s.next(u)
		}()
		s.perEvs = append(s.perEvs, s.rec.evs)
		s.perSample = append(s.perSample, s.rec.sample)
	}
	s.rec.evs, s.rec.sample = nil, nil
}

// whole-graph mode: messages flushed by the real EventSequencer
func canonProtoRule(r *proto.Rule) aRule {
	a := aRule{action: r.Action}
	rest := googleproto.Clone(r).(*proto.Rule)
	rest.Action = ""
	rest.RuleId = ""
	if r.Protocol != nil {
		switch v := r.Protocol.NumberOrName.(type) {
		case *proto.Protocol_Name:
			switch strings.ToLower(v.Name) {
			case "tcp":
				a.proto = 6
			case "udp":
				a.proto = 17
			default:
				a.ipver = 99
			}
		case *proto.Protocol_Number:
			a.proto = int(v.Number)
		}
		rest.Protocol = nil
	}
	for _, p := range r.DstPorts {
		a.dports = append(a.dports, [2]int{int(p.First), int(p.Last)})
	}
	rest.DstPorts = nil
	if r.IpVersion != proto.IPVersion_ANY {
		if a.ipver == 0 {
			a.ipver = int(r.IpVersion)
		}
		rest.IpVersion = proto.IPVersion_ANY
	}
	if !googleproto.Equal(rest, &proto.Rule{}) {
		a.ipver = 99
	}
	switch r.Action {
	case "allow", "deny", "log", "next-tier":
	default:
		a.ipver = 99
	}
	return a
}
func canonProtoRules(rs []*proto.Rule) []aRule {
	var out []aRule
	for _, r := range rs {
		out = append(out, canonProtoRule(r))
	}
	return out
}
func (c *recorder) onProto(m any) {
	if os.Getenv("C05_DEBUG") != "" {
		fmt.Fprintf(os.Stderr, "proto %T\n", m)
	}
	switch m := m.(type) {
	case *proto.ActiveProfileUpdate:
		id, ok := idOf(m.Id.Name, "prof-")
		if !ok {
			id = 9999
		}
		p := aProfile{in: canonProtoRules(m.Profile.InboundRules), out: canonProtoRules(m.Profile.OutboundRules)}
		c.evs = append(c.evs, fmt.Sprintf("EProfActive %d %s", id, coqProfile(p)))
		c.sample = append(c.sample, fmt.Sprintf("proto.ActiveProfileUpdate(%s in=%v out=%v)", m.Id.Name, p.in, p.out))
	case *proto.ActiveProfileRemove:
		id, ok := idOf(m.Id.Name, "prof-")
		if !ok {
			id = 9999
		}
		c.evs = append(c.evs, fmt.Sprintf("EProfInactive %d", id))
		c.sample = append(c.sample, fmt.Sprintf("proto.ActiveProfileRemove(%s)", m.Id.Name))
	}
}

// ---------------------------------------------------------------- one case

type world struct {
	profs map[int]bool // exists (valid) in the filtered datastore
	pols  map[int]bool
	eps   map[int]aEndpoint
	tiers map[int]bool
}

func (w *world) referenced(p int) bool {
	for _, e := range w.eps {
		for _, q := range e.profiles {
			if q == p {
				return true
			}
		}
	}
	return false
}

var conf = config.New()

func runCase(r *rng, enc *json.Encoder, graph bool, uaStream bool, viaTypha bool, hlStream bool) {
	unknownActionStream, unknownActionUsed = uaStream, false
	hepLabelStream = hlStream
	const nProf, nPol, nTier = 4, 4, 3
	epIDs := []int{0, 1, 2, 100, 101}

	rec := &recorder{}
	sk := &sink{rec: rec}
	flush := func() {}
	var fvf *calc.ValidationFilter
	var vf api.SyncerCallbacks
	if graph {
		// a fresh config per graph: the graph's config batcher writes into it
		gconf := config.New()
		gconf.FelixHostname = "host"
		es := calc.NewEventSequencer(gconf)
		es.Callback = rec.onProto
		cg := calc.NewCalculationGraph(es, calc.NewLookupsCache(), gconf, func() {})
		flush = func() { cg.Flush(); es.Flush() }
		sk.next = func(u api.Update) { cg.OnUpdates([]api.Update{u}); flush() }
		sk.status = cg.OnStatusUpdated
		fvf = calc.NewValidationFilter(sk, gconf)
	} else {
		arc := calc.NewActiveRulesCalculator()
		arc.RuleScanner = rec
		arc.RegisterPolicyMatchListener(rec)
		arc.OnPolicyCountsChanged = rec.counts
		sk.next = func(u api.Update) { arc.OnUpdate(u) }
		sk.status = arc.OnStatusUpdate
		fvf = calc.NewValidationFilter(sk, conf)
	}
	vf = fvf
	if viaTypha {
		// deployment with Typha: Typha's own ValidationFilter runs first, Felix's runs again on what Typha forwards
		vf = typhacalc.NewValidationFilter(fvf)
	}

	w := &world{profs: map[int]bool{}, pols: map[int]bool{}, eps: map[int]aEndpoint{}, tiers: map[int]bool{}}
	nops := 10 + r.intn(28)
	syncAt := r.intn(nops + 5)
	var ops, keyParts, sample []string
	tags := map[string]bool{}
	sawDummy, sawReplace, sawInvalidOverValid, sawDeleteWhileRef := false, false, false, false
	multiInvalid := false
	dummyOut := map[int]bool{}

	// updates are delivered to the filter in BATCHES (OnUpdates takes a slice): a start-of-day snapshot first, then
	// single updates and coalesced bursts; some batches are invalid-heavy (2-3+ invalid values at any positions)
	type pendingOp struct {
		key            model.Key
		coqKey, cv, kp string
		valid          bool
		val, pristine  any
		profsSnap      map[int]bool
	}
	var pending []pendingOp
	var sizes []string
	synced := false
	nextBatch := func(first bool) (int, bool) {
		heavy := r.intn(3) == 0
		if first {
			return 3 + r.intn(4), heavy
		}
		switch r.intn(6) {
		case 0, 1:
			return 1, false
		case 2:
			return 2, heavy
		default:
			return 2 + r.intn(5), heavy
		}
	}
	batchSize, heavy := nextBatch(true)
	forceInv := false
	deliver := func() {
		n := len(pending)
		batch := make([]api.Update, n)
		for x, po := range pending {
			batch[x] = api.Update{KVPair: model.KVPair{Key: po.key}, UpdateType: api.UpdateTypeKVUpdated}
			if po.val != nil {
				batch[x].Value = po.val
			} else {
				batch[x].UpdateType = api.UpdateTypeKVDeleted
			}
		}
		orig := append([]api.Update(nil), batch...)
		sk.fwd, sk.perEvs, sk.perSample, sk.calls = nil, nil, nil, 0
		filterPanic := ""
		func() {
			defer func() {
				if r := recover(); r != nil {
					filterPanic = fmt.Sprint(r)
				}
			}()
			vf.OnUpdates(batch)
		}()
		shapeOK := filterPanic == "" && sk.calls == 1 && len(sk.fwd) == n && len(sk.perEvs) == n
		nInv := 0
		for x, po := range pending {
			if !po.valid {
				nInv++
			}
			fwd := "FOther"
			var evsRaw, smp []string
			if shapeOK {
				evsRaw, smp = sk.perEvs[x], sk.perSample[x]
				if reflect.DeepEqual(sk.fwd[x].Key, po.key) {
					fv := sk.fwd[x].Value
					switch {
					case fv == nil:
						fwd = "FNil"
					case po.val != nil && po.valid && reflect.DeepEqual(fv, po.pristine):
						fwd = "FSame"
					case po.val != nil && !po.valid && reflect.ValueOf(fv).Pointer() == reflect.ValueOf(po.val).Pointer():
						// the invalid object itself came through
						fwd = "FSame"
					}
				}
				// the caller's slice must not be changed under the caller's feet
				if !reflect.DeepEqual(batch[x].Key, orig[x].Key) || batch[x].UpdateType != orig[x].UpdateType ||
					(batch[x].Value == nil) != (orig[x].Value == nil) ||
					(batch[x].Value != nil && reflect.ValueOf(batch[x].Value).Pointer() != reflect.ValueOf(orig[x].Value).Pointer()) {
					fwd = "FOther"
					smp = append(smp, "CALLER-SLICE-MUTATED")
					tags["caller-slice-mutated"] = true
				}
			} else if x == 0 {
				evsRaw = []string{"EPanic"}
				smp = []string{fmt.Sprintf("FILTER-BROKE-BATCH(panic=%q calls=%d forwarded=%d of %d)", filterPanic, sk.calls, len(sk.fwd), n)}
			}
			for _, e := range evsRaw {
				if strings.HasPrefix(e, "EProfActive") {
					var id int
					fmt.Sscanf(e, "EProfActive %d", &id)
					isDummy := strings.Contains(e, "(PR [(R Deny None [] 0)] [(R Deny None [] 0)])")
					if isDummy && !po.profsSnap[id] {
						sawDummy = true
						dummyOut[id] = true
					}
				}
			}
			var evs []string
			for _, e := range evsRaw {
				if strings.Contains(e, " ") {
					evs = append(evs, "("+e+")")
				} else {
					evs = append(evs, e)
				}
			}
			ops = append(ops, fmt.Sprintf("IO (O (%s) (%s) %v %s [%s])", po.coqKey, po.cv, po.valid, fwd, strings.Join(evs, "; ")))
			pos := ""
			if n > 1 {
				pos = fmt.Sprintf("[batch %d, %d/%d] ", len(sizes), x+1, n)
			}
			sample = append(sample, fmt.Sprintf("%s%s -> fwd=%s %s", pos, po.kp, fwd, strings.Join(smp, " ")))
		}
		sizes = append(sizes, fmt.Sprint(n))
		if n > 6 {
			tags["batch:size>6"] = true
		} else {
			tags[fmt.Sprintf("batch:size=%d", n)] = true
		}
		if nInv >= 3 {
			tags["batch:invalid>=3"] = true
		} else {
			tags[fmt.Sprintf("batch:invalid=%d", nInv)] = true
		}
		if nInv >= 2 {
			multiInvalid = true
		}
		pending = nil
	}

	// sync-status messages travel through the filter(s) like the updates; they are trace items of their own
	nInSync := 0
	sendStatus := func(st api.SyncStatus, coqName string) {
		rec.evs, rec.sample = nil, nil
		warned.ids = nil
		func() {
			defer func() {
				if r := recover(); r != nil {
					rec.evs = append(rec.evs, "EPanic")
					rec.sample = append(rec.sample, fmt.Sprintf("PANIC-IN-STATUS(%v)", r))
				}
			}()
			vf.OnStatusUpdated(st)
			flush()
		}()
		var evs, ws []string
		for _, e := range rec.evs {
			if strings.Contains(e, " ") {
				evs = append(evs, "("+e+")")
			} else {
				evs = append(evs, e)
			}
		}
		sort.Ints(warned.ids)
		for _, id := range warned.ids {
			ws = append(ws, fmt.Sprint(id))
		}
		ops = append(ops, fmt.Sprintf("(IStat %s [%s] [%s])", coqName, strings.Join(evs, "; "), strings.Join(ws, ";")))
		sample = append(sample, fmt.Sprintf("status %s -> warned-missing=%v %s", coqName, warned.ids, strings.Join(rec.sample, " ")))
		keyParts = append(keyParts, "status "+coqName)
		tags["status:"+coqName] = true
		if coqName == "StInSync" {
			nInSync++
			if nInSync == 1 && len(warned.ids) > 0 {
				tags["insync:warned-missing-profiles"] = true
			}
			if nInSync > 1 {
				tags["status:repeated-insync"] = true
			}
		}
		rec.evs, rec.sample = nil, nil
	}
	if r.intn(4) == 0 {
		sendStatus(api.WaitForDatastore, "StWait")
	}
	if r.intn(3) == 0 {
		sendStatus(api.ResyncInProgress, "StResync")
	}

	for j := 0; j < nops; j++ {
		if len(pending) == 0 && !synced && j >= syncAt {
			sendStatus(api.InSync, "StInSync")
			synced = true
		} else if len(pending) == 0 && synced && nInSync < 3 && r.intn(8) == 0 {
			sendStatus(api.InSync, "StInSync")
		}
		forceInv = heavy && r.intn(5) < 3
		var key model.Key
		var coqKey, coqVal, desc string
		var val, pristine any
		valid := true
		invalidHow := ""
		kind := r.intn(20)
		switch {
		case kind < 6: // endpoint
			id := epIDs[r.intn(len(epIDs))]
			key = epKey(id)
			coqKey = fmt.Sprintf("KEp %d", id)
			_, exists := w.eps[id]
			c := r.intn(10)
			if forceInv {
				c = 9
			}
			if c < 2 && exists {
				desc = fmt.Sprintf("delete ep %d", id)
				delete(w.eps, id)
			} else {
				e := genEndpoint(r, nProf)
				coqVal = "VEp " + coqEndpoint(e)
				desc = fmt.Sprintf("set ep %d labels=%v profiles=%v", id, e.labels, e.profiles)
				invalid := c == 9 || (c == 8 && exists) || (hepLabelStream && id >= 100 && c >= 5)
				if id >= 100 {
					h, h2 := buildHEP(e), buildHEP(e)
					if invalid {
						invalidHow = corruptHEP(r, h)
						h2 = nil
					}
					val, pristine = h, h2
				} else {
					wl, wl2 := buildWEP(e), buildWEP(e)
					if invalid {
						invalidHow = corruptWEP(r, wl)
						wl2 = nil
					}
					val, pristine = wl, wl2
				}
				if invalid {
					valid = false
					if exists {
						sawInvalidOverValid = true
					}
					delete(w.eps, id)
				} else {
					w.eps[id] = e
				}
			}
		case kind < 12: // profile rules
			id := r.intn(nProf)
			key = model.ProfileRulesKey{ProfileKey: model.ProfileKey{Name: profName(id)}}
			coqKey = fmt.Sprintf("KProf %d", id)
			exists := w.profs[id]
			c := r.intn(10)
			if forceInv {
				c = 9
			}
			if c < 2 && (exists || r.intn(4) == 0) {
				desc = fmt.Sprintf("delete profile %d", id)
				if exists && w.referenced(id) {
					sawDeleteWhileRef = true
				}
				delete(w.profs, id)
			} else {
				p := genProfile(r)
				coqVal = "VProf " + coqProfile(p)
				desc = fmt.Sprintf("set profile %d in=%v out=%v", id, p.in, p.out)
				pr, pr2 := buildProfile(p), buildProfile(p)
				if c >= 7 {
					invalidHow = "profile." + corruptRules(r, &pr.InboundRules, &pr.OutboundRules)
					valid = false
					pr2 = nil
					if exists && w.referenced(id) {
						sawInvalidOverValid = true
					}
					delete(w.profs, id)
				} else {
					if !exists && w.referenced(id) {
						sawReplace = true
					}
					w.profs[id] = true
				}
				val, pristine = pr, pr2
			}
		case kind < 18: // policy
			id := r.intn(nPol)
			key = polKey(id)
			coqKey = fmt.Sprintf("KPol %d", id)
			exists := w.pols[id]
			c := r.intn(10)
			if forceInv {
				c = 9
			}
			if c < 2 && (exists || r.intn(4) == 0) {
				desc = fmt.Sprintf("delete policy %d", id)
				delete(w.pols, id)
			} else {
				p := genPolicy(r, nTier)
				selTexts[p.sel.txt] = p.sel.coq
				coqVal = "VPol " + coqPolicy(p)
				desc = fmt.Sprintf("set policy %d tier=%d sel=%q force=%v", id, p.tier, p.sel.txt, p.force)
				q, q2 := buildPolicy(p), buildPolicy(p)
				if c >= 7 {
					invalidHow = corruptPolicy(r, q)
					valid = false
					q2 = nil
					if exists {
						sawInvalidOverValid = true
					}
					delete(w.pols, id)
				} else {
					w.pols[id] = true
				}
				val, pristine = q, q2
			}
		default: // tier
			id := r.intn(nTier)
			key = model.TierKey{Name: tierName(id)}
			coqKey = fmt.Sprintf("KTier %d", id)
			if w.tiers[id] && r.intn(2) == 0 {
				desc = fmt.Sprintf("delete tier %d", id)
				delete(w.tiers, id)
			} else {
				t := aTier{order: r.intn(5), pass: r.intn(3) == 0}
				coqVal = "VTier " + coqTier(t)
				desc = fmt.Sprintf("set tier %d order=%d pass=%v", id, t.order, t.pass)
				val, pristine = buildTier(t), buildTier(t)
				w.tiers[id] = true
			}
		}

		cv := "None"
		if coqVal != "" {
			cv = "Some (" + coqVal + ")"
		}
		kp := desc
		if invalidHow != "" {
			kp += " INVALID(" + invalidHow + ")"
			tags["invalid:"+lastPart(invalidHow)] = true
		}
		keyParts = append(keyParts, kp)
		snap := map[int]bool{}
		for k, v := range w.profs {
			snap[k] = v
		}
		pending = append(pending, pendingOp{key: key, coqKey: coqKey, cv: cv, kp: kp, valid: valid, val: val, pristine: pristine, profsSnap: snap})
		if len(pending) >= batchSize || j == nops-1 {
			deliver()
			batchSize, heavy = nextBatch(false)
		}
	}

	if !synced {
		// the history ends by crossing the end of the initial resync with whatever is still dangling
		sendStatus(api.InSync, "StInSync")
		synced = true
	}
	coq := fmt.Sprintf("(Build_scase %v [%s]%%nat [%s]%%N)", graph, strings.Join(sizes, ";"), strings.Join(ops, ";\n "))
	if multiInvalid {
		tags["multi-invalid-batch"] = true
	}
	if uaStream {
		tags["stream:unknown-action"] = true
	}
	if hlStream {
		tags["stream:hep-label"] = true
	}
	if viaTypha {
		tags["pipeline:typha-filter+felix-filter"] = true
	} else {
		tags["pipeline:felix-filter"] = true
	}
	if graph {
		tags["mode:whole-graph"] = true
	} else {
		tags["mode:arc"] = true
	}
	if sawDummy {
		tags["dummy-emitted"] = true
	}
	if sawReplace {
		tags["late-profile"] = true
	}
	if sawInvalidOverValid {
		tags["invalid-over-valid"] = true
	}
	if sawDeleteWhileRef {
		tags["deleted-while-referenced"] = true
	}
	var tl []string
	for t := range tags {
		tl = append(tl, t)
	}
	sort.Strings(tl)
	_ = enc.Encode(line{Coq: coq, NT: sawDummy && (sawReplace || sawInvalidOverValid || sawDeleteWhileRef), Key: fmt.Sprintf("graph=%v;ua=%v;typha=%v;hl=%v;sizes=%s;", graph, uaStream, viaTypha, hlStream, strings.Join(sizes, ",")) + strings.Join(keyParts, ";"),
		Sample: map[string]any{"trace": sample}, Tags: tl})
}

func lastPart(s string) string {
	i := strings.LastIndex(s, ".")
	return s[i+1:]
}

// warnHook collects the profile ids named by the calculator's end-of-resync warning
// ("End of resync: local endpoints refer to missing or invalid profile ...").
type warnHook struct{ ids []int }

func (h *warnHook) Levels() []log.Level { return []log.Level{log.WarnLevel} }
func (h *warnHook) Fire(e *log.Entry) error {
	if strings.HasPrefix(e.Message, "End of resync") {
		id := 9999
		if name, ok := e.Data["profileID"].(string); ok {
			if n, ok := idOf(name, "prof-"); ok {
				id = n
			}
		}
		h.ids = append(h.ids, id)
	}
	return nil
}

var warned = &warnHook{}

func main() {
	n := flag.Int("n", 100, "cases")
	seed := flag.Uint64("seed", 1, "seed")
	graphEvery := flag.Int("graph-every", 4, "every k-th case runs the whole calculation graph (0 = never)")
	hlEvery := flag.Int("hep-label-every", 10, "every k-th case belongs to the invalid-host-endpoint-label stream (0 = never)")
	uaEvery := flag.Int("unknown-action-every", 10, "every k-th case belongs to the unknown-rule-action stream (0 = never)")
	flag.Parse()
	log.SetLevel(log.WarnLevel) // the end-of-resync warning is an observable
	log.SetOutput(io.Discard)
	log.AddHook(warned)
	if os.Getenv("C05_DEBUG") == "2" {
		log.SetLevel(log.DebugLevel)
		log.SetOutput(os.Stderr)
	}
	r := &rng{s: *seed}
	enc := json.NewEncoder(os.Stdout)
	enc.SetEscapeHTML(false)
	for i := 0; i < *n; i++ {
		runCase(r, enc, *graphEvery > 0 && i%*graphEvery == *graphEvery-1, *uaEvery > 0 && i%*uaEvery == *uaEvery-1, i%5 == 2, *hlEvery > 0 && i%*hlEvery == *hlEvery-5)
	}
}
