//go:build verif

// C11 correspondence driver.  Generates polprog.Rules (tiers, pre-DNAT / apply-on-forward / normal host policy,
// profiles, log rules; IPv4 and IPv6; TC and XDP; with and without program splitting), compiles each with the
// REAL felix/bpf/polprog Builder from $VERIF_REPO, decodes the assembled instructions and prints, per case, a Coq
// term holding the configuration, the IP-set member table, the instruction streams of all sub-programs and a set
// of probe packet states.  The instruction streams are executed inside Coq (coq/theories/C11/Bpf.v).
// A builder panic / error is an observable of the case.
package main

import (
	"encoding/binary"
	"encoding/json"
	"flag"
	"fmt"
	"io"
	"math/big"
	"net"
	"os"
	"reflect"
	"sort"
	"strings"

	"github.com/sirupsen/logrus"

	"github.com/projectcalico/calico/felix/bpf/asm"
	"github.com/projectcalico/calico/felix/bpf/polprog"
	"github.com/projectcalico/calico/felix/proto"
)

// ---------------------------------------------------------------------------------------------- rng
type rng struct{ s uint64 }

func (r *rng) next() uint64 {
	r.s += 0x9e3779b97f4a7c15
	z := r.s
	z = (z ^ (z >> 30)) * 0xbf58476d1ce4e5b9
	z = (z ^ (z >> 27)) * 0x94d049bb133111eb
	return z ^ (z >> 31)
}
func (r *rng) intn(n int) int       { return int(r.next() % uint64(n)) }
func (r *rng) pct(p int) bool       { return r.intn(100) < p }
func (r *rng) pick(xs []int) int    { return xs[r.intn(len(xs))] }
func (r *rng) between(a, b int) int { return a + r.intn(b-a+1) }

type line struct {
	Coq    string         `json:"coq,omitempty"`
	NT     bool           `json:"nt"`
	Key    string         `json:"key,omitempty"`
	Sample map[string]any `json:"sample,omitempty"`
	Tags   []string       `json:"tags,omitempty"`
	Feat   string         `json:"feat,omitempty"`
	Result string         `json:"result,omitempty"`
	Stats  map[string]any `json:"stats,omitempty"`
}

// ---------------------------------------------------------------------------------------------- addresses
type cidrT struct {
	v6   bool
	addr *big.Int // masked
	plen int
}

func width(v6 bool) int {
	if v6 {
		return 128
	}
	return 32
}

func mkCIDR(v6 bool, a *big.Int, plen int) cidrT {
	w := width(v6)
	m := new(big.Int).Rsh(a, uint(w-plen))
	m.Lsh(m, uint(w-plen))
	return cidrT{v6, m, plen}
}

func addrBytes(v6 bool, a *big.Int) net.IP {
	n := 4
	if v6 {
		n = 16
	}
	b := a.Bytes()
	out := make([]byte, n)
	copy(out[n-len(b):], b)
	return net.IP(out)
}

func (c cidrT) String() string {
	ipn := net.IPNet{IP: addrBytes(c.v6, c.addr), Mask: net.CIDRMask(c.plen, width(c.v6))}
	return ipn.String()
}
func (c cidrT) coq() string {
	v := "V4"
	if c.v6 {
		v = "V6"
	}
	return fmt.Sprintf("(Build_cidr %s %s %d)", v, c.addr.String(), c.plen)
}
func (c cidrT) first() *big.Int { return new(big.Int).Set(c.addr) }
func (c cidrT) last() *big.Int {
	w := width(c.v6)
	span := new(big.Int).Lsh(big.NewInt(1), uint(w-c.plen))
	span.Sub(span, big.NewInt(1))
	return span.Add(span, c.addr)
}

func modW(v6 bool, a *big.Int) *big.Int {
	m := new(big.Int).Lsh(big.NewInt(1), uint(width(v6)))
	r := new(big.Int).Mod(a, m)
	return r
}

func randAddr(r *rng, v6 bool) *big.Int {
	if !v6 {
		// a few /8s so that things collide
		hi := []uint64{10, 10, 10, 192, 172, 11}[r.intn(6)]
		return new(big.Int).SetUint64(hi<<24 | uint64(r.intn(4))<<16 | uint64(r.intn(4))<<8 | uint64(r.intn(256)))
	}
	a := new(big.Int).SetUint64(0xfd00000000000000 | uint64(r.intn(4))<<32 | uint64(r.intn(3)))
	a.Lsh(a, 64)
	lo := new(big.Int).SetUint64(uint64(r.intn(3))<<32 | uint64(r.intn(512)))
	if r.pct(30) {
		lo.SetUint64(r.next())
	}
	return a.Or(a, lo)
}

func randCIDR(r *rng, v6 bool) cidrT {
	var plens []int
	if v6 {
		plens = []int{0, 7, 8, 31, 32, 33, 48, 63, 64, 65, 95, 96, 97, 112, 120, 127, 128, 128}
	} else {
		plens = []int{0, 1, 8, 8, 15, 16, 16, 23, 24, 24, 25, 30, 31, 32, 32}
	}
	return mkCIDR(v6, randAddr(r, v6), plens[r.intn(len(plens))])
}

// ---------------------------------------------------------------------------------------------- universe of a case
type portMem struct {
	addr  *big.Int
	proto int
	port  int
}
type setG struct {
	name    string
	id      uint64
	nets    []cidrT
	ports   []portMem
	isPorts bool
}

type universe struct {
	v6         bool
	stress     bool // long CIDR / port lists, so that programs are split in the middle of a rule
	family     bool // the CIDR pool holds nested CIDRs sharing a base address
	cidrStress bool // rules whose CIDR lists are arrangements of the nested family
	plainFrag  bool // only criteria the Gallina emitters model (no CIDRs, no IP sets, no named ports)
	keyStress  bool // rules with several IP-set-type lookups on one leg (selector set, then ports, then named-port set)
	cidrs      []cidrT
	other      []cidrT
	netSets    []setG
	portSets   []setG
	ranges     [][2]int
	icmps      [][2]int
	ids        map[string]uint64
}

func (u *universe) GetNoAlloc(id string) uint64 { return u.ids[id] }

func newUniverse(r *rng, v6 bool) *universe {
	u := &universe{v6: v6, ids: map[string]uint64{}}
	for i := 0; i < 6; i++ {
		u.cidrs = append(u.cidrs, randCIDR(r, v6))
	}
	if r.pct(65) {
		u.addFamily(r)
	}
	for i := 0; i < 2; i++ {
		u.other = append(u.other, randCIDR(r, !v6))
	}
	mkID := func() uint64 {
		for {
			id := r.next()
			if r.pct(30) {
				id = uint64(1 + r.intn(1000))
			}
			if id == 0 {
				continue
			}
			dup := false
			for _, v := range u.ids {
				if v == id {
					dup = true
				}
			}
			if !dup {
				return id
			}
		}
	}
	for i := 0; i < 3; i++ {
		s := setG{name: fmt.Sprintf("s:net%d", i), id: mkID()}
		for k := r.intn(4); k > 0; k-- {
			if r.pct(60) {
				s.nets = append(s.nets, u.cidrs[r.intn(len(u.cidrs))])
			} else {
				s.nets = append(s.nets, mkCIDR(v6, randAddr(r, v6), width(v6)))
			}
		}
		u.ids[s.name] = s.id
		u.netSets = append(u.netSets, s)
	}
	for i := 0; i < 2; i++ {
		s := setG{name: fmt.Sprintf("n:port%d", i), id: mkID(), isPorts: true}
		for k := 1 + r.intn(3); k > 0; k-- {
			s.ports = append(s.ports, portMem{randAddr(r, v6), []int{6, 17}[r.intn(2)], []int{80, 443, 8080, 53, 0, 65535}[r.intn(6)]})
		}
		u.ids[s.name] = s.id
		u.portSets = append(u.portSets, s)
	}
	u.ranges = [][2]int{{80, 80}, {443, 443}, {8080, 8090}, {0, 1023}, {1, 1}, {0, 0}, {65535, 65535}, {1024, 65535}, {53, 53}, {100, 200}}
	u.icmps = [][2]int{{8, 0}, {0, 0}, {3, 1}, {3, 4}, {128, 0}, {135, 0}, {255, 255}}
	return u
}

// CIDR families: several pool entries share one base address with different prefix lengths (so that rule lists hold
// nested CIDRs in both orders, narrow-then-broad and broad-then-narrow), plus a nested CIDR with another base.
func (u *universe) addFamily(r *rng) {
	var plens []int
	if u.v6 {
		plens = []int{7, 16, 31, 32, 33, 48, 64, 65, 96, 112, 127, 128}
	} else {
		plens = []int{1, 8, 12, 16, 22, 24, 25, 30, 31, 32}
	}
	lo := r.intn(len(plens) - 2)
	base := mkCIDR(u.v6, randAddr(r, u.v6), plens[lo])
	fam := []cidrT{base}
	for k := 0; k < 2; k++ {
		fam = append(fam, mkCIDR(u.v6, base.addr, plens[lo+1+r.intn(len(plens)-lo-1)]))
	}
	// a CIDR nested in the broad one with a different base (its last sub-block)
	fam = append(fam, mkCIDR(u.v6, base.last(), plens[lo+1+r.intn(len(plens)-lo-1)]))
	for k, c := range fam {
		u.cidrs[k] = c
	}
	u.family = true
}

func (u *universe) setsCoq() string {
	var parts []string
	for _, s := range append(append([]setG{}, u.netSets...), u.portSets...) {
		var ms []string
		for _, c := range s.nets {
			ms = append(ms, fmt.Sprintf("ECidr %s %d", c.addr.String(), c.plen))
		}
		for _, p := range s.ports {
			ms = append(ms, fmt.Sprintf("EPort %s %d %d", p.addr.String(), p.proto, p.port))
		}
		parts = append(parts, fmt.Sprintf("(%d, %s)", s.id, coqListT(ms, "nE")))
	}
	return "[" + strings.Join(parts, "; ") + "]"
}

// ---------------------------------------------------------------------------------------------- rules
type ruleG struct {
	pr       *proto.Rule
	coq      string
	criteria int
	invalid  bool
}

// typed constants for empty lists / None (Spec.v): an untyped [] or None costs Coq's elaboration milliseconds each
func coqListT(xs []string, nilName string) string {
	if len(xs) == 0 {
		return nilName
	}
	return "[" + strings.Join(xs, "; ") + "]"
}

var pnameCoq = map[string]string{"tcp": "PnTcp", "udp": "PnUdp", "icmp": "PnIcmp", "icmpv6": "PnIcmpv6", "sctp": "PnSctp", "udplite": "PnUdplite"}
var pnameNum = map[string]int{"tcp": 6, "udp": 17, "icmp": 1, "icmpv6": 58, "sctp": 132, "udplite": 136}

// genProto: returns (proto field, Coq option N, Coq option pname, number)
func (u *universe) genProto(r *rng, want int, allowRareNames bool, forceRare bool) (*proto.Protocol, string, string, int) {
	byName := r.pct(50)
	num := want
	if num < 0 {
		num = []int{6, 6, 17, 17, 1, 58, 132, 136, 0, 47, r.intn(256)}[r.intn(11)]
	}
	var name string
	for n, k := range pnameNum {
		if k == num {
			name = n
		}
	}
	rare := name == "icmpv6" || name == "udplite"
	if forceRare {
		name = []string{"icmpv6", "udplite"}[r.intn(2)]
		num = pnameNum[name]
		byName, rare = true, true
	}
	if name == "" || (rare && !allowRareNames) {
		byName = false
	}
	if byName {
		spelled := name
		if r.pct(20) {
			spelled = strings.ToUpper(name)
		}
		return &proto.Protocol{NumberOrName: &proto.Protocol_Name{Name: spelled}}, fmt.Sprintf("(sN %d)", num), fmt.Sprintf("(sK %s)", pnameCoq[name]), num
	}
	return &proto.Protocol{NumberOrName: &proto.Protocol_Number{Number: int32(num)}}, fmt.Sprintf("(sN %d)", num), "oK", num
}

func (u *universe) pickCIDRs(r *rng) ([]string, []string) {
	var txt, cq []string
	n := 1 + r.intn(4)
	if u.stress {
		n = 3 + r.intn(4)
	}
	for i := 0; i < n; i++ {
		c := u.cidrs[r.intn(len(u.cidrs))]
		if r.pct(12) {
			c = u.other[r.intn(len(u.other))]
		}
		txt = append(txt, c.String())
		cq = append(cq, c.coq())
	}
	return txt, cq
}

func (u *universe) pickRanges(r *rng) ([]*proto.PortRange, []string) {
	var prs []*proto.PortRange
	var cq []string
	n := r.intn(4)
	if u.stress {
		n = 3 + r.intn(5)
	}
	for i := 0; i < n; i++ {
		rg := u.ranges[r.intn(len(u.ranges))]
		if r.pct(20) {
			a := r.intn(65536)
			b := a + r.intn(65536-a)
			rg = [2]int{a, b}
		}
		prs = append(prs, &proto.PortRange{First: int32(rg[0]), Last: int32(rg[1])})
		cq = append(cq, fmt.Sprintf("(%d, %d)", rg[0], rg[1]))
	}
	return prs, cq
}

func (u *universe) pickSets(r *rng, ports bool, max int) ([]string, []string) {
	pool := u.netSets
	if ports {
		pool = u.portSets
	}
	var names, cq []string
	n := 1
	if max > 1 && r.pct(30) {
		n = 2
	}
	for i := 0; i < n; i++ {
		s := pool[r.intn(len(pool))]
		names = append(names, s.name)
		cq = append(cq, fmt.Sprintf("%d", s.id))
	}
	return names, cq
}

var actionCoq = map[string]string{"allow": "Allow", "deny": "Deny", "pass": "Pass", "next-tier": "Pass", "log": "Log"}

// feat: "" | "protoname" (force a protocol given by the name icmpv6/udplite)
func (u *universe) genRule(r *rng, action string, feat string) ruleG {
	pr := &proto.Rule{Action: action}
	if r.pct(25) {
		pr.Action = strings.ToUpper(action[:1]) + action[1:]
	}
	density := []int{0, 8, 20, 35}[r.intn(4)] // per-field probability scale
	if feat == "simple" || (u.stress && feat == "") {
		density = []int{0, 0, 8}[r.intn(3)]
	}
	on := func(p int) bool { return r.pct(p * density / 20) }
	crit := 0

	ipver := "oV"
	switch {
	case r.pct(20):
		if u.v6 {
			pr.IpVersion, ipver = proto.IPVersion_IPV6, "(sV V6)"
		} else {
			pr.IpVersion, ipver = proto.IPVersion_IPV4, "(sV V4)"
		}
	case r.pct(6):
		if u.v6 {
			pr.IpVersion, ipver = proto.IPVersion_IPV4, "(sV V4)"
		} else {
			pr.IpVersion, ipver = proto.IPVersion_IPV6, "(sV V6)"
		}
	}

	// decide ICMP / ports first: they constrain the protocol
	wantICMP := on(8)
	if u.plainFrag && feat == "" && r.pct(25) {
		wantICMP = true // the fragment stream leans on the ICMP emitters
	}
	wantNotICMP := on(4)
	wantPorts := on(30)
	if u.stress && feat == "" {
		// mid-rule splitting: long port lists that decide the rule
		wantPorts = r.pct(60)
	}
	protoC, pnC, nprotoC, npnC := "oN", "oK", "oN", "oK"
	wantProto := -1
	if wantICMP || wantNotICMP {
		if u.v6 {
			wantProto = 58
		} else {
			wantProto = 1
		}
	} else if wantPorts && r.pct(90) {
		wantProto = []int{6, 17, 132, 6, 17}[r.intn(5)]
	}
	if wantProto >= 0 || on(30) || feat == "protoname" {
		forceRare := feat == "protoname" && r.pct(70)
		if forceRare && (wantICMP || wantNotICMP) && !u.v6 {
			forceRare = false
		}
		if forceRare && wantPorts {
			wantPorts = false
		}
		w := wantProto
		if wantProto == 58 && feat != "protoname" {
			// icmpv6 by name is the rare-name class: keep the clean stream free of it
			pr.Protocol, protoC, pnC, _ = u.genProto(r, 58, false, false)
		} else {
			pr.Protocol, protoC, pnC, _ = u.genProto(r, w, feat == "protoname", forceRare)
		}
		crit++
	}
	if pr.Protocol == nil && on(8) || (feat == "protoname" && pr.Protocol == nil) {
		pr.NotProtocol, nprotoC, npnC, _ = u.genProto(r, -1, feat == "protoname", feat == "protoname" && r.pct(50))
		crit++
	}

	srcNets, notSrcNets, dstNets, notDstNets := "nC", "nC", "nC", "nC"
	if !u.plainFrag && on(25) {
		var cq []string
		pr.SrcNet, cq = u.pickCIDRs(r)
		srcNets = coqListT(cq, "nC")
		crit++
	}
	if !u.plainFrag && on(10) {
		var cq []string
		pr.NotSrcNet, cq = u.pickCIDRs(r)
		notSrcNets = coqListT(cq, "nC")
		crit++
	}
	if !u.plainFrag && on(25) {
		var cq []string
		pr.DstNet, cq = u.pickCIDRs(r)
		dstNets = coqListT(cq, "nC")
		crit++
	}
	if !u.plainFrag && on(10) {
		var cq []string
		pr.NotDstNet, cq = u.pickCIDRs(r)
		notDstNets = coqListT(cq, "nC")
		crit++
	}

	srcSets, notSrcSets, dstSets, notDstSets, dstIPPort := "nN", "nN", "nN", "nN", "nN"
	if !u.plainFrag && on(15) {
		var cq []string
		pr.SrcIpSetIds, cq = u.pickSets(r, false, 2)
		srcSets = coqListT(cq, "nN")
		crit++
	}
	if !u.plainFrag && on(8) {
		var cq []string
		pr.NotSrcIpSetIds, cq = u.pickSets(r, false, 2)
		notSrcSets = coqListT(cq, "nN")
		crit++
	}
	if !u.plainFrag && on(15) {
		var cq []string
		maxDst := 1
		if r.pct(4) {
			maxDst = 2 // out of domain (the calc graph combines them): the builder panics; the model must say so too
		}
		pr.DstIpSetIds, cq = u.pickSets(r, false, maxDst)
		dstSets = coqListT(cq, "nN")
		crit++
	}
	if !u.plainFrag && on(8) {
		var cq []string
		pr.NotDstIpSetIds, cq = u.pickSets(r, false, 2)
		notDstSets = coqListT(cq, "nN")
		crit++
	}
	if !u.plainFrag && on(8) {
		var cq []string
		pr.DstIpPortSetIds, cq = u.pickSets(r, true, 2)
		dstIPPort = coqListT(cq, "nN")
		crit++
	}

	srcPorts, srcNamed, notSrcPorts, notSrcNamed := "nP", "nN", "nP", "nN"
	dstPorts, dstNamed, notDstPorts, notDstNamed := "nP", "nN", "nP", "nN"
	portField := func(ranges *[]*proto.PortRange, named *[]string, rc, nc *string) {
		prs, cq := u.pickRanges(r)
		*ranges, *rc = prs, coqListT(cq, "nP")
		if !u.plainFrag && (len(prs) == 0 || r.pct(25)) {
			var ncq []string
			*named, ncq = u.pickSets(r, true, 2)
			*nc = coqListT(ncq, "nN")
		}
		crit++
	}
	if wantPorts {
		if r.pct(35) {
			portField(&pr.SrcPorts, &pr.SrcNamedPortIpSetIds, &srcPorts, &srcNamed)
		}
		if r.pct(15) {
			portField(&pr.NotSrcPorts, &pr.NotSrcNamedPortIpSetIds, &notSrcPorts, &notSrcNamed)
		}
		if r.pct(70) {
			portField(&pr.DstPorts, &pr.DstNamedPortIpSetIds, &dstPorts, &dstNamed)
		}
		if r.pct(20) {
			portField(&pr.NotDstPorts, &pr.NotDstNamedPortIpSetIds, &notDstPorts, &notDstNamed)
		}
	}

	icmpC, notIcmpC := "oI", "oI"
	if wantICMP {
		ic := u.icmps[r.intn(len(u.icmps))]
		if r.pct(50) {
			pr.Icmp = &proto.Rule_IcmpType{IcmpType: int32(ic[0])}
			icmpC = fmt.Sprintf("(sI (IcmpType %d))", ic[0])
		} else {
			pr.Icmp = &proto.Rule_IcmpTypeCode{IcmpTypeCode: &proto.IcmpTypeAndCode{Type: int32(ic[0]), Code: int32(ic[1])}}
			icmpC = fmt.Sprintf("(sI (IcmpTypeCode %d %d))", ic[0], ic[1])
		}
		crit++
	}
	if wantNotICMP {
		ic := u.icmps[r.intn(len(u.icmps))]
		if r.pct(50) {
			pr.NotIcmp = &proto.Rule_NotIcmpType{NotIcmpType: int32(ic[0])}
			notIcmpC = fmt.Sprintf("(sI (IcmpType %d))", ic[0])
		} else {
			pr.NotIcmp = &proto.Rule_NotIcmpTypeCode{NotIcmpTypeCode: &proto.IcmpTypeAndCode{Type: int32(ic[0]), Code: int32(ic[1])}}
			notIcmpC = fmt.Sprintf("(sI (IcmpTypeCode %d %d))", ic[0], ic[1])
		}
		crit++
	}

	rule := fmt.Sprintf("(Build_rule %s %s %s %s %s %s %s %s %s %s %s %s %s %s %s %s %s %s %s %s %s %s %s)",
		actionCoq[strings.ToLower(action)], ipver, protoC, srcNets, srcPorts, srcNamed, dstNets, dstPorts, dstNamed, icmpC,
		srcSets, dstSets, dstIPPort, nprotoC, notSrcNets, notSrcPorts, notDstNets, notDstPorts, notIcmpC,
		notSrcSets, notDstSets, notSrcNamed, notDstNamed)
	return ruleG{pr: pr, coq: fmt.Sprintf("(Build_brule %s %s %s)", rule, pnC, npnC), criteria: crit, invalid: len(pr.DstIpSetIds) > 1}
}

// coqOfRule derives the Coq term of a rule from the proto.Rule itself.
func (u *universe) coqOfRule(pr *proto.Rule) string {
	ipver := "oV"
	switch pr.IpVersion {
	case proto.IPVersion_IPV4:
		ipver = "(sV V4)"
	case proto.IPVersion_IPV6:
		ipver = "(sV V6)"
	}
	protoC := func(p *proto.Protocol) (string, string) {
		if p == nil {
			return "oN", "oK"
		}
		switch x := p.NumberOrName.(type) {
		case *proto.Protocol_Name:
			nm := strings.ToLower(x.Name)
			return fmt.Sprintf("(sN %d)", pnameNum[nm]), fmt.Sprintf("(sK %s)", pnameCoq[nm])
		case *proto.Protocol_Number:
			return fmt.Sprintf("(sN %d)", x.Number), "oK"
		}
		return "oN", "oK"
	}
	nets := func(xs []string) string {
		var cq []string
		for _, t := range xs {
			_, n, err := net.ParseCIDR(t)
			if err != nil {
				panic(err)
			}
			ones, _ := n.Mask.Size()
			v6 := strings.Contains(t, ":")
			cq = append(cq, mkCIDR(v6, new(big.Int).SetBytes(n.IP), ones).coq())
		}
		return coqListT(cq, "nC")
	}
	ports := func(xs []*proto.PortRange) string {
		var cq []string
		for _, x := range xs {
			cq = append(cq, fmt.Sprintf("(%d, %d)", x.First, x.Last))
		}
		return coqListT(cq, "nP")
	}
	ids := func(xs []string) string {
		var cq []string
		for _, x := range xs {
			cq = append(cq, fmt.Sprintf("%d", u.ids[x]))
		}
		return coqListT(cq, "nN")
	}
	icmpC, notIcmpC := "oI", "oI"
	switch ic := pr.Icmp.(type) {
	case *proto.Rule_IcmpType:
		icmpC = fmt.Sprintf("(sI (IcmpType %d))", ic.IcmpType)
	case *proto.Rule_IcmpTypeCode:
		icmpC = fmt.Sprintf("(sI (IcmpTypeCode %d %d))", ic.IcmpTypeCode.Type, ic.IcmpTypeCode.Code)
	}
	switch ic := pr.NotIcmp.(type) {
	case *proto.Rule_NotIcmpType:
		notIcmpC = fmt.Sprintf("(sI (IcmpType %d))", ic.NotIcmpType)
	case *proto.Rule_NotIcmpTypeCode:
		notIcmpC = fmt.Sprintf("(sI (IcmpTypeCode %d %d))", ic.NotIcmpTypeCode.Type, ic.NotIcmpTypeCode.Code)
	}
	pC, pnC := protoC(pr.Protocol)
	npC, npnC := protoC(pr.NotProtocol)
	rule := fmt.Sprintf("(Build_rule %s %s %s %s %s %s %s %s %s %s %s %s %s %s %s %s %s %s %s %s %s %s %s)",
		actionCoq[strings.ToLower(pr.Action)], ipver, pC, nets(pr.SrcNet), ports(pr.SrcPorts), ids(pr.SrcNamedPortIpSetIds),
		nets(pr.DstNet), ports(pr.DstPorts), ids(pr.DstNamedPortIpSetIds), icmpC,
		ids(pr.SrcIpSetIds), ids(pr.DstIpSetIds), ids(pr.DstIpPortSetIds), npC, nets(pr.NotSrcNet), ports(pr.NotSrcPorts),
		nets(pr.NotDstNet), ports(pr.NotDstPorts), notIcmpC, ids(pr.NotSrcIpSetIds), ids(pr.NotDstIpSetIds),
		ids(pr.NotSrcNamedPortIpSetIds), ids(pr.NotDstNamedPortIpSetIds))
	return fmt.Sprintf("(Build_brule %s %s %s)", rule, pnC, npnC)
}

// genCIDRRule: one or two CIDR-list fields (src/dst, positive/negated) whose entries are arrangements of the nested
// family (pool slots 0..3): narrow-then-broad, broad-then-narrow, duplicates, a nested CIDR with another base, and
// sometimes an unrelated pool entry.  Little else, so that the lists decide the rule.
func (u *universe) genCIDRRule(r *rng, action string) ruleG {
	pr := &proto.Rule{Action: action}
	crit := 0
	if r.pct(25) {
		pr.Protocol = &proto.Protocol{NumberOrName: &proto.Protocol_Number{Number: int32([]int{6, 17}[r.intn(2)])}}
		crit++
	}
	list := func() []string {
		n := 2 + r.intn(3)
		var out []string
		for i := 0; i < n; i++ {
			c := u.cidrs[r.intn(4)]
			if r.pct(12) {
				c = u.cidrs[4+r.intn(len(u.cidrs)-4)]
			}
			out = append(out, c.String())
		}
		if r.pct(20) {
			out = append(out, out[r.intn(len(out))]) // duplicate
		}
		return out
	}
	nf := 1 + r.intn(2)
	for k := 0; k < nf; k++ {
		switch r.intn(4) {
		case 0:
			pr.SrcNet = list()
		case 1:
			pr.NotSrcNet = list()
		case 2:
			pr.DstNet = list()
		case 3:
			pr.NotDstNet = list()
		}
		crit++
	}
	return ruleG{pr: pr, coq: u.coqOfRule(pr), criteria: crit}
}

// genKeyRule: a rule whose code performs SEVERAL IP-set-type lookups with the same on-stack key (one leg): a selector
// set (positive and/or negated, or an IP+port set), then a port match with 0-6 numeric ranges (each a possible split
// point) and 1-2 named-port sets (positive or negated).  Little else, so that those lookups decide the rule.
func (u *universe) genKeyRule(r *rng, action string) ruleG {
	pr := &proto.Rule{Action: action}
	crit := 0
	pnum := []int{6, 17}[r.intn(2)]
	if r.pct(85) {
		if r.pct(50) {
			pr.Protocol = &proto.Protocol{NumberOrName: &proto.Protocol_Number{Number: int32(pnum)}}
		} else {
			pr.Protocol = &proto.Protocol{NumberOrName: &proto.Protocol_Name{Name: map[int]string{6: "tcp", 17: "udp"}[pnum]}}
		}
		crit++
	}
	netSet := func(n int) []string {
		var out []string
		for i := 0; i < n; i++ {
			out = append(out, u.netSets[r.intn(len(u.netSets))].name)
		}
		return out
	}
	portSet := func(n int) []string {
		var out []string
		for i := 0; i < n; i++ {
			out = append(out, u.portSets[r.intn(len(u.portSets))].name)
		}
		return out
	}
	ranges := func() []*proto.PortRange {
		var out []*proto.PortRange
		for k := r.intn(7); k > 0; k-- {
			rg := u.ranges[r.intn(len(u.ranges))]
			if rg[1]-rg[0] > 2000 {
				rg = [2]int{rg[0], rg[0] + r.intn(50)} // narrow, so that the named-port lookup is reached
			}
			out = append(out, &proto.PortRange{First: int32(rg[0]), Last: int32(rg[1])})
		}
		return out
	}
	leg := []string{"src", "dst", "src", "dst", "both"}[r.intn(5)]
	doSrc := leg == "src" || leg == "both"
	doDst := leg == "dst" || leg == "both"
	if doSrc {
		switch r.intn(4) {
		case 0:
			pr.SrcIpSetIds = netSet(1 + r.intn(2))
		case 1:
			pr.NotSrcIpSetIds = netSet(1 + r.intn(2))
		case 2:
			pr.SrcIpSetIds, pr.NotSrcIpSetIds = netSet(1), netSet(1)
		case 3:
			pr.NotSrcIpSetIds = netSet(2)
		}
		if r.pct(25) {
			pr.NotSrcPorts, pr.NotSrcNamedPortIpSetIds = ranges(), portSet(1+r.intn(2))
		} else {
			pr.SrcPorts, pr.SrcNamedPortIpSetIds = ranges(), portSet(1+r.intn(2))
			if r.pct(20) {
				pr.NotSrcNamedPortIpSetIds = portSet(1)
			}
		}
		crit += 2
	}
	if doDst {
		switch r.intn(5) {
		case 0:
			pr.DstIpSetIds = netSet(1)
		case 1:
			pr.NotDstIpSetIds = netSet(1 + r.intn(2))
		case 2:
			pr.DstIpSetIds, pr.NotDstIpSetIds = netSet(1), netSet(1)
		case 3:
			pr.DstIpPortSetIds = portSet(1)
		case 4:
			pr.NotDstIpSetIds = netSet(2)
		}
		if r.pct(25) {
			pr.NotDstPorts, pr.NotDstNamedPortIpSetIds = ranges(), portSet(1+r.intn(2))
		} else {
			pr.DstPorts, pr.DstNamedPortIpSetIds = ranges(), portSet(1+r.intn(2))
			if r.pct(20) {
				pr.NotDstNamedPortIpSetIds = portSet(1)
			}
		}
		crit += 2
	}
	return ruleG{pr: pr, coq: u.coqOfRule(pr), criteria: crit}
}

// In the key-stress stream the named-port members live inside the selector sets, so that a packet can pass the
// selector lookup AND hit (or just miss) the named-port lookup.
func (u *universe) nestPortMembers(r *rng) {
	var cands []cidrT
	for _, s := range u.netSets {
		cands = append(cands, s.nets...)
	}
	if len(cands) == 0 {
		c := u.cidrs[r.intn(len(u.cidrs))]
		u.netSets[0].nets = append(u.netSets[0].nets, c)
		cands = append(cands, c)
	}
	for i := range u.portSets {
		for j := range u.portSets[i].ports {
			if r.pct(70) {
				c := cands[r.intn(len(cands))]
				if r.pct(50) {
					u.portSets[i].ports[j].addr = c.first()
				} else {
					u.portSets[i].ports[j].addr = c.last()
				}
			}
		}
	}
}

type caseGen struct {
	u        *universe
	r        *rng
	feat     string
	nRules   int
	nCrit    int
	matchID  uint64
	featUsed bool
	invalid  bool
	rules    []*proto.Rule
}

func (g *caseGen) genRules(profile bool) ([]polprog.Rule, []string) {
	n := g.r.intn(5)
	var rs []polprog.Rule
	var cq []string
	for i := 0; i < n; i++ {
		acts := []string{"allow", "allow", "deny", "deny", "pass", "next-tier", "log"}
		if profile {
			// Log and Pass in a PROFILE are the two known-finding classes: only in their own streams
			acts = []string{"allow", "allow", "deny"}
			if g.feat == "profile-log" {
				acts = append(acts, "log", "log")
			}
			if g.feat == "profile-pass" {
				acts = append(acts, "pass", "next-tier")
			}
		}
		a := acts[g.r.intn(len(acts))]
		if profile && (a == "log" || a == "pass" || a == "next-tier") {
			g.featUsed = true
		}
		f := ""
		if g.feat == "protoname" && g.r.pct(50) {
			f = "protoname"
			g.featUsed = true
		}
		if profile && g.feat == "profile-pass" {
			f = "simple" // few criteria, so that Pass rules match and a later profile gets to decide
		}
		rg := g.u.genRule(g.r, a, f)
		if g.u.keyStress && !profile && g.r.pct(65) {
			rg = g.u.genKeyRule(g.r, a)
		}
		if g.u.cidrStress && g.r.pct(65) {
			rg = g.u.genCIDRRule(g.r, a)
		}
		g.matchID++
		rs = append(rs, polprog.Rule{Rule: rg.pr, MatchID: g.matchID})
		g.rules = append(g.rules, rg.pr)
		cq = append(cq, rg.coq)
		g.nRules++
		g.nCrit += rg.criteria
		g.invalid = g.invalid || rg.invalid
	}
	return rs, cq
}

func (g *caseGen) genTiers(max int) ([]polprog.Tier, string) {
	n := g.r.intn(max + 1)
	var ts []polprog.Tier
	var cq []string
	for i := 0; i < n; i++ {
		t := polprog.Tier{Name: fmt.Sprintf("tier%d", i)}
		np := 1 + g.r.intn(3)
		if g.r.pct(3) {
			np, g.invalid = 0, true // out of domain (extractTiers never hands over a tier without policies)
		}
		var pcq []string
		for j := 0; j < np; j++ {
			rs, rcq := g.genRules(false)
			ns := ""
			if g.r.pct(50) {
				ns = "ns1"
			}
			t.Policies = append(t.Policies, polprog.Policy{Kind: "NetworkPolicy", Namespace: ns, Name: fmt.Sprintf("pol%d", j), Rules: rs})
			pcq = append(pcq, coqListT(rcq, "nR"))
		}
		end := "EndDeny"
		switch g.r.intn(5) {
		case 0, 1:
			t.EndAction = polprog.TierEndPass
			end = "EndPass"
		case 2:
			t.EndAction = polprog.TierEndUndef
		default:
			t.EndAction = polprog.TierEndDeny
		}
		g.matchID++
		t.EndRuleID = g.matchID
		ts = append(ts, t)
		cq = append(cq, fmt.Sprintf("(Build_btier %s %s)", coqListT(pcq, "nPr"), end))
	}
	return ts, coqListT(cq, "nT")
}

func (g *caseGen) genProfiles() ([]polprog.Profile, string) {
	n := g.r.intn(3)
	if g.feat == "profile-log" || g.feat == "profile-pass" {
		n = 1 + g.r.intn(3)
	}
	var ps []polprog.Profile
	var cq []string
	for i := 0; i < n; i++ {
		rs, rcq := g.genRules(true)
		ps = append(ps, polprog.Profile{Kind: "Profile", Name: fmt.Sprintf("prof%d", i), Rules: rs})
		cq = append(cq, coqListT(rcq, "nR"))
	}
	return ps, coqListT(cq, "nPr")
}

func coqBool(b bool) string {
	if b {
		return "true"
	}
	return "false"
}

// ---------------------------------------------------------------------------------------------- compile
type compiled struct {
	kind  string // ok | panic | error
	msg   string
	progs []asm.Insns
}

func compile(u polprogIDs, rules polprog.Rules, opts []polprog.Option) (res compiled) {
	defer func() {
		if e := recover(); e != nil {
			msg := fmt.Sprint(e)
			if en, ok := e.(*logrus.Entry); ok {
				msg = en.Message
			}
			res = compiled{kind: "panic", msg: msg}
		}
	}()
	b := polprog.NewBuilder(u, 11, 12, 13, 14, opts...)
	progs, err := b.Instructions(rules)
	if err != nil {
		return compiled{kind: "error", msg: err.Error()}
	}
	return compiled{kind: "ok", progs: progs}
}

type polprogIDs interface{ GetNoAlloc(string) uint64 }

// One number per instruction (Bpf.decode_word): the 8-byte word as the assembler encoded it, read little-endian.
func insnsCoq(progs []asm.Insns) (string, int) {
	var ps []string
	total := 0
	for _, p := range progs {
		var is []string
		for _, in := range p {
			is = append(is, fmt.Sprintf("%d", binary.LittleEndian.Uint64(in.Instruction[:])))
			total++
		}
		ps = append(ps, "["+strings.Join(is, ";")+"]")
	}
	return "[" + strings.Join(ps, ";\n") + "]", total
}

// ---------------------------------------------------------------------------------------------- variant probes
type variantT struct{ profileLog, protoNames, profilePassNext bool }

func probeVariant() variantT {
	u := &universe{ids: map[string]uint64{}}
	var v variantT
	logProf := polprog.Rules{Profiles: []polprog.Profile{{Name: "p", Rules: []polprog.Rule{{Rule: &proto.Rule{Action: "log"}}}}}}
	v.profileLog = compile(u, logProf, nil).kind == "ok"
	v.protoNames = polprog.VerifProtocolToNumber("icmpv6") == 58 && polprog.VerifProtocolToNumber("udplite") == 136
	mk := func(a string) polprog.Rules {
		return polprog.Rules{Profiles: []polprog.Profile{
			{Name: "p", Rules: []polprog.Rule{{Rule: &proto.Rule{Action: a}}}},
			{Name: "q", Rules: []polprog.Rule{{Rule: &proto.Rule{Action: "allow"}}}}}}
	}
	pa, de := compile(u, mk("pass"), nil), compile(u, mk("deny"), nil)
	same := pa.kind == "ok" && de.kind == "ok" && len(pa.progs) == len(de.progs)
	if same {
		for i := range pa.progs {
			if !reflect.DeepEqual(pa.progs[i].AsBytes(), de.progs[i].AsBytes()) {
				same = false
			}
		}
	}
	v.profilePassNext = pa.kind == "ok" && de.kind == "ok" && !same
	return v
}

// ---------------------------------------------------------------------------------------------- probes
func (g *caseGen) probes(n int) []string {
	r, u := g.r, g.u
	var addrs []*big.Int
	addC := func(c cidrT) {
		if c.v6 != u.v6 {
			return
		}
		addrs = append(addrs, c.first(), c.last(),
			modW(u.v6, new(big.Int).Sub(c.first(), big.NewInt(1))), modW(u.v6, new(big.Int).Add(c.last(), big.NewInt(1))))
	}
	for _, c := range u.cidrs {
		addC(c)
	}
	for _, s := range u.netSets {
		for _, c := range s.nets {
			addC(c)
		}
	}
	type pm struct{ proto, port int }
	var pms []pm
	for _, s := range u.portSets {
		for _, p := range s.ports {
			addrs = append(addrs, p.addr)
			pms = append(pms, pm{p.proto, p.port})
		}
	}
	for i := 0; i < 4; i++ {
		addrs = append(addrs, randAddr(r, u.v6))
	}
	var ports []int
	for _, rg := range u.ranges {
		for _, p := range []int{rg[0] - 1, rg[0], rg[1], rg[1] + 1, (rg[0] + rg[1]) / 2} {
			if p >= 0 && p <= 65535 {
				ports = append(ports, p)
			}
		}
	}
	protos := []int{6, 6, 6, 17, 17, 1, 58, 132, 136, 0, 47}
	var out []string
	for i := 0; i < n; i++ {
		var p probeT
		p.src = addrs[r.intn(len(addrs))]
		p.post = addrs[r.intn(len(addrs))]
		p.pre = p.post
		if r.pct(40) {
			p.pre = addrs[r.intn(len(addrs))]
		}
		p.sport = ports[r.intn(len(ports))]
		p.postp = ports[r.intn(len(ports))]
		p.prep = p.postp
		if r.pct(40) {
			p.prep = ports[r.intn(len(ports))]
		}
		p.proto = protos[r.intn(len(protos))]
		if r.pct(5) {
			p.proto = r.intn(256)
		}
		if len(pms) > 0 && r.pct(25) {
			// aim at a named-port member
			m := pms[r.intn(len(pms))]
			p.proto, p.postp = m.proto, m.port
			if r.pct(50) {
				p.sport = m.port
			}
			if r.pct(60) {
				p.prep = p.postp
			}
		}
		p.it, p.ic = p.postp&0xff, p.postp>>8
		if p.proto == 1 || p.proto == 58 || r.pct(15) {
			x := u.icmps[r.intn(len(u.icmps))]
			p.it, p.ic = x[0], x[1]
			if r.pct(30) {
				p.ic = r.intn(256)
			}
		}
		p.flags = uint64([]int{0, 0, 0, 4, 8, 12}[r.intn(6)])
		if r.pct(30) {
			p.flags |= []uint64{1, 2, 0x10, 0x20, 0x400, 0x8000, 1 << 40, 1 << 63}[r.intn(8)]
		}
		// two probes out of three are aimed at one of the case's rules (its positive criteria satisfied as far as
		// the generator can, on CIDR / range edges), then possibly pushed just over one edge
		if len(g.rules) > 0 && i%3 != 0 {
			p = g.aim(g.rules[r.intn(len(g.rules))], p)
			if r.pct(45) {
				p = g.perturb(p)
			}
		}
		out = append(out, fmt.Sprintf("Build_pstate %s %s %s %d %d %d %d %d %d %d", p.src, p.pre, p.post, p.sport, p.prep, p.postp, p.proto, p.it, p.ic, p.flags))
	}
	return out
}

type probeT struct {
	src, pre, post                    *big.Int
	sport, prep, postp, proto, it, ic int
	flags                             uint64
}

func protoNumOf(p *proto.Protocol) int {
	switch x := p.NumberOrName.(type) {
	case *proto.Protocol_Number:
		return int(x.Number)
	case *proto.Protocol_Name:
		return pnameNum[strings.ToLower(x.Name)]
	}
	return 0
}

func (g *caseGen) netEdge(nets []string) (*big.Int, bool) {
	var cands []cidrT
	for _, s := range nets {
		if strings.Contains(s, ":") != g.u.v6 {
			continue
		}
		_, n, err := net.ParseCIDR(s)
		if err != nil {
			continue
		}
		ones, _ := n.Mask.Size()
		cands = append(cands, mkCIDR(g.u.v6, new(big.Int).SetBytes(n.IP), ones))
	}
	if len(cands) == 0 {
		return nil, false
	}
	// boundary set of the list: first / last address of an entry, and the addresses just outside it (which, for
	// nested entries, are inside the broader and outside the narrower one)
	c := cands[g.r.intn(len(cands))]
	one := big.NewInt(1)
	switch g.r.intn(6) {
	case 0, 1:
		return c.first(), true
	case 2, 3:
		return c.last(), true
	case 4:
		return modW(g.u.v6, new(big.Int).Add(c.last(), one)), true
	default:
		return modW(g.u.v6, new(big.Int).Sub(c.first(), one)), true
	}
}

func (g *caseGen) setByName(name string) *setG {
	for i := range g.u.netSets {
		if g.u.netSets[i].name == name {
			return &g.u.netSets[i]
		}
	}
	for i := range g.u.portSets {
		if g.u.portSets[i].name == name {
			return &g.u.portSets[i]
		}
	}
	return nil
}

func (g *caseGen) netSetEdge(names []string) (*big.Int, bool) {
	for _, nm := range names {
		if s := g.setByName(nm); s != nil && len(s.nets) > 0 {
			c := s.nets[g.r.intn(len(s.nets))]
			if g.r.pct(50) {
				return c.first(), true
			}
			return c.last(), true
		}
	}
	return nil, false
}

func (g *caseGen) portMember(names []string) (portMem, bool) {
	for _, nm := range names {
		if s := g.setByName(nm); s != nil && len(s.ports) > 0 {
			return s.ports[g.r.intn(len(s.ports))], true
		}
	}
	return portMem{}, false
}

func (g *caseGen) rangeEdge(prs []*proto.PortRange) (int, bool) {
	if len(prs) == 0 {
		return 0, false
	}
	pr := prs[g.r.intn(len(prs))]
	if g.r.pct(50) {
		pr = prs[len(prs)-1-g.r.intn((len(prs)+1)/2)] // the later ranges sit behind any mid-rule split
	}
	return []int{int(pr.First), int(pr.Last), int(pr.Last), (int(pr.First) + int(pr.Last)) / 2}[g.r.intn(4)], true
}

func (g *caseGen) aim(pr *proto.Rule, p probeT) probeT {
	if pr.Protocol != nil {
		p.proto = protoNumOf(pr.Protocol)
	}
	if a, ok := g.netEdge(pr.SrcNet); ok {
		p.src = a
	} else if a, ok := g.netSetEdge(pr.SrcIpSetIds); ok {
		p.src = a
	}
	// negated selector sets: a member address (excluded) as often as an outside one
	if a, ok := g.netSetEdge(pr.NotSrcIpSetIds); ok && g.r.pct(50) {
		p.src = a
	}
	if a, ok := g.netSetEdge(pr.NotDstIpSetIds); ok && g.r.pct(50) {
		p.post = a
	}
	if a, ok := g.netEdge(pr.NotSrcNet); ok && (len(pr.SrcNet) == 0 || g.r.pct(40)) {
		p.src = a // boundary of a negated list: excluded just inside, admitted just outside
	}
	if a, ok := g.netEdge(pr.NotDstNet); ok && (len(pr.DstNet) == 0 || g.r.pct(40)) {
		p.post = a
	}
	if m, ok := g.portMember(pr.SrcNamedPortIpSetIds); ok && (len(pr.SrcPorts) == 0 || g.r.pct(50)) {
		// the verdict then hangs on the named-port lookup (in the key-stress stream the member also lies in the selector sets)
		p.src, p.proto, p.sport = m.addr, m.proto, m.port
	} else if x, ok := g.rangeEdge(pr.SrcPorts); ok {
		p.sport = x
	}
	if m, ok := g.portMember(pr.NotSrcNamedPortIpSetIds); ok && g.r.pct(40) {
		p.src, p.proto, p.sport = m.addr, m.proto, m.port
	}
	if a, ok := g.netEdge(pr.DstNet); ok {
		p.post = a
	} else if a, ok := g.netSetEdge(pr.DstIpSetIds); ok {
		p.post = a
	}
	if m, ok := g.portMember(pr.DstNamedPortIpSetIds); ok && (len(pr.DstPorts) == 0 || g.r.pct(50)) {
		p.post, p.proto, p.postp = m.addr, m.proto, m.port
	} else if x, ok := g.rangeEdge(pr.DstPorts); ok {
		p.postp = x
	}
	if m, ok := g.portMember(pr.NotDstNamedPortIpSetIds); ok && g.r.pct(40) {
		p.post, p.proto, p.postp = m.addr, m.proto, m.port
	}
	if m, ok := g.portMember(pr.DstIpPortSetIds); ok {
		p.post, p.proto, p.postp = m.addr, m.proto, m.port
	}
	if g.r.pct(70) {
		p.pre, p.prep = p.post, p.postp
	}
	switch ic := pr.Icmp.(type) {
	case *proto.Rule_IcmpType:
		p.it = int(ic.IcmpType)
	case *proto.Rule_IcmpTypeCode:
		p.it, p.ic = int(ic.IcmpTypeCode.Type), int(ic.IcmpTypeCode.Code)
	}
	return p
}

func (g *caseGen) perturb(p probeT) probeT {
	one := big.NewInt(1)
	clampPort := func(x int) int {
		if x < 0 {
			return 0
		}
		if x > 65535 {
			return 65535
		}
		return x
	}
	switch g.r.intn(9) {
	case 0:
		p.sport = clampPort(p.sport + 1)
	case 1:
		p.sport = clampPort(p.sport - 1)
	case 2:
		p.postp = clampPort(p.postp + 1)
		p.prep = p.postp
	case 3:
		p.postp = clampPort(p.postp - 1)
		p.prep = p.postp
	case 4:
		p.src = modW(g.u.v6, new(big.Int).Add(p.src, one))
	case 5:
		p.src = modW(g.u.v6, new(big.Int).Sub(p.src, one))
	case 6:
		p.post = modW(g.u.v6, new(big.Int).Add(p.post, one))
		p.pre = p.post
	case 7:
		p.post = modW(g.u.v6, new(big.Int).Sub(p.post, one))
		p.pre = p.post
	case 8:
		p.proto = []int{6, 17, 1, 58, 132}[g.r.intn(5)]
	}
	return p
}

// ---------------------------------------------------------------------------------------------- main
func main() {
	n := flag.Int("n", 100, "cases")
	seed := flag.Uint64("seed", 1, "seed")
	nprobes := flag.Int("probes", 24, "probe packet states per case")
	witness := flag.Bool("witness", false, "print the three minimal known-finding cases instead of generated ones")
	flag.Parse()
	logrus.SetOutput(io.Discard)
	logrus.SetLevel(logrus.PanicLevel)
	r := &rng{s: *seed}
	enc := json.NewEncoder(os.Stdout)
	vr := probeVariant()
	vrCoq := fmt.Sprintf("(Build_variant %s %s %s)", coqBool(vr.profileLog), coqBool(vr.protoNames), coqBool(vr.profilePassNext))
	stats := map[string]int{}

	if *witness {
		emitWitnesses(enc, vrCoq)
		return
	}

	for i := 0; i < *n; i++ {
		v6 := r.pct(35)
		u := newUniverse(r, v6)
		u.stress = r.pct(15)
		g := &caseGen{u: u, r: r}
		// feature streams (each is one known-finding class on the pinned tree; a case carries at most one)
		switch x := r.intn(20); {
		case x < 2:
			g.feat = "profile-log"
		case x < 4:
			g.feat = "protoname"
		case x < 6:
			g.feat = "profile-pass"
		}
		if g.feat == "" && !u.stress && r.pct(20) {
			u.keyStress = true
			u.nestPortMembers(r)
		}
		if !u.stress && !u.keyStress && r.pct(22) {
			u.plainFrag = true
		}
		if g.feat == "" && !u.stress && !u.keyStress && !u.plainFrag && r.pct(20) {
			u.cidrStress = true
			if !u.family {
				u.addFamily(r)
			}
		}
		var tags []string
		rules := polprog.Rules{NoProfileMatchID: 999999}
		var tiersC, profC, preC, fwdC, normC, hprofC = "nT", "nPr", "nT", "nT", "nT", "nPr"
		shape := r.intn(10)
		if (g.feat == "profile-pass" || g.feat == "profile-log") && r.pct(75) {
			shape = 0 // profiles matter on workload interfaces
		}
		switch {
		case shape < 4: // workload interface (possibly with host-* policy)
			if g.feat == "profile-pass" && r.pct(60) {
				rules.Tiers, tiersC = nil, "nT"
			} else {
				rules.Tiers, tiersC = g.genTiers(3)
			}
			rules.Profiles, profC = g.genProfiles()
			if r.pct(40) {
				rules.HostPreDnatTiers, preC = g.genTiers(1)
				rules.HostForwardTiers, fwdC = g.genTiers(2)
				rules.HostNormalTiers, normC = g.genTiers(2)
				rules.HostProfiles, hprofC = g.genProfiles()
				tags = append(tags, "shape:workload+host-*")
			} else {
				tags = append(tags, "shape:workload")
			}
			rules.SuppressNormalHostPolicy = r.pct(40)
		case shape < 8: // host interface
			rules.ForHostInterface = true
			rules.HostPreDnatTiers, preC = g.genTiers(2)
			rules.HostForwardTiers, fwdC = g.genTiers(2)
			rules.HostNormalTiers, normC = g.genTiers(3)
			rules.HostProfiles, hprofC = g.genProfiles()
			rules.SuppressNormalHostPolicy = r.pct(20)
			tags = append(tags, "shape:host")
		default: // XDP (untracked policy)
			rules.ForXDP = true
			rules.ForHostInterface = r.pct(85)
			rules.HostNormalTiers, normC = g.genTiers(3)
			if !rules.ForHostInterface {
				rules.Tiers, tiersC = g.genTiers(2)
				rules.Profiles, profC = g.genProfiles()
			}
			rules.SuppressNormalHostPolicy = r.pct(10)
			tags = append(tags, "shape:xdp")
		}
		if u.family {
			tags = append(tags, "cidrs:nested-family")
		}
		if u.cidrStress {
			tags = append(tags, "cidrs:nested-list-stress")
		}
		if u.plainFrag {
			tags = append(tags, "emit:fragment-stream")
		}
		if g.invalid {
			tags = append(tags, "domain:outside")
		}
		feat := ""
		if g.featUsed {
			feat = g.feat
			tags = append(tags, "feat:"+feat)
		}

		// builder options
		var opts []polprog.Option
		useJmps := r.pct(70)
		allow, deny := 1+r.intn(50), 60+r.intn(50)
		if useJmps {
			opts = append(opts, polprog.WithAllowDenyJumps(allow, deny))
		}
		base, stride := r.intn(20), 0
		if u.keyStress {
			// the jump limit is swept below
			stride = 100 + r.intn(1000)
			tags = append(tags, "split:enabled", "split:ipset-key-sweep")
		} else if (r.pct(55) || u.stress) && !u.plainFrag {
			stride = 100 + r.intn(1000)
			maxJ := []int{3, 6, 10, 20, 40, 80}[r.intn(6)]
			if u.stress {
				maxJ = 2 + r.intn(4)
				tags = append(tags, "split:mid-rule-stress")
			}
			opts = append(opts, polprog.WithPolicyMapIndexAndStride(base, stride), polprog.VerifWithMaxJumps(maxJ))
			tags = append(tags, "split:enabled")
		}
		plain := stride == 0
		if r.pct(20) && !u.plainFrag {
			plain = false
			opts = append(opts, polprog.WithTrampolineStride(12+r.intn(80)))
			tags = append(tags, "asm-trampolines")
		}
		if r.pct(30) && !u.keyStress && !u.plainFrag {
			plain = false
			opts = append(opts, polprog.WithFlowLogs())
			tags = append(tags, "flowlogs")
		}
		if r.pct(15) && !u.plainFrag {
			plain = false
			opts = append(opts, polprog.WithPolicyDebugEnabled())
			tags = append(tags, "debug")
		}
		if v6 {
			opts = append(opts, polprog.WithIPv6())
			tags = append(tags, "ipv6")
		} else {
			tags = append(tags, "ipv4")
		}

		probes := g.probes(*nprobes)
		// key-stress stream: the same rules and probes compiled with several jump limits, drawn over the whole range
		// of jump counts of the unsplit program, so that over the run every split point inside a rule is hit
		limits := []int{0}
		if u.keyStress {
			total := 2
			if un := compile(u, rules, opts); un.kind == "ok" {
				for _, pr := range un.progs {
					for _, in := range pr {
						if c := in.OpClass(); c == asm.OpClassJump64 || c == asm.OpClassJump32 {
							total++
						}
					}
				}
			}
			limits = nil
			for k := 0; k < 3; k++ {
				limits = append(limits, 3+r.intn(total)) // (limits 2..3 make dozens of sub-programs; the mid-rule-stress stream has them)
			}
		}
		baseOpts, baseTags := opts, tags
		for li, limit := range limits {
			if li > 0 {
				i++
				if i >= *n {
					break
				}
			}
			opts, tags = append([]polprog.Option(nil), baseOpts...), append([]string(nil), baseTags...)
			if limit > 0 {
				opts = append(opts, polprog.WithPolicyMapIndexAndStride(base, stride), polprog.VerifWithMaxJumps(limit))
			}
			res := compile(u, rules, opts)
			resC, nInsn := "CPanic", 0
			switch res.kind {
			case "ok":
				var s string
				s, nInsn = insnsCoq(res.progs)
				resC = "(COk " + s + ")"
				tags = append(tags, fmt.Sprintf("subprograms:%d", min(len(res.progs), 5)))
			case "error":
				resC = "CError"
			}
			tags = append(tags, "compile:"+res.kind)
			stats["insns"] += nInsn
			stats["rules"] += g.nRules

			rulesC := fmt.Sprintf("(Build_brules %s %s %s %s %s %s %s %s %s)", coqBool(rules.ForHostInterface), coqBool(rules.SuppressNormalHostPolicy),
				coqBool(rules.ForXDP), tiersC, profC, preC, fwdC, normC, hprofC)
			cfgC := fmt.Sprintf("%s %s %s %d %d %d %d", coqBool(v6), vrCoq, coqBool(useJmps), allow, deny, base, stride)
			coq := fmt.Sprintf("(Build_case %s\n %s\n %s\n %s\n [%s] %s)%%N", cfgC, rulesC, u.setsCoq(), resC, strings.Join(probes, ";\n "), coqBool(plain && limit == 0))
			sort.Strings(tags)
			l := line{Coq: coq, NT: res.kind == "ok" && g.nRules >= 2 && g.nCrit >= 1 && !g.invalid, Feat: feat, Result: res.kind + ":" + res.msg,
				Key:  fmt.Sprint(limit) + cfgC + rulesC + u.setsCoq(),
				Tags: tags,
				Sample: map[string]any{"rules": g.nRules, "criteria": g.nCrit, "subprograms": len(res.progs), "instructions": nInsn,
					"compile": res.kind, "msg": res.msg, "ipv6": v6, "xdp": rules.ForXDP, "forHost": rules.ForHostInterface, "maxJumps": limit}}
			if err := enc.Encode(l); err != nil {
				panic(err)
			}
		}
	}
	enc.Encode(line{Stats: map[string]any{"variant_profile_log": vr.profileLog, "variant_proto_names": vr.protoNames,
		"variant_profile_pass_next": vr.profilePassNext, "instructions_total": stats["insns"], "rules_total": stats["rules"]}})
}

// ---------------------------------------------------------------------------------------------- minimal witnesses
// The three known-finding classes at their smallest, run through the same machinery (real builder, Coq evaluation).
func emitWitnesses(enc *json.Encoder, vrCoq string) {
	u := &universe{ids: map[string]uint64{}}
	anyRule := func(action string) string {
		return fmt.Sprintf("(Build_brule (Build_rule %s oV oN nC nP nN nC nP nN oI nN nN nN oN nC nP nC nP oI nN nN nN nN) oK oK)", actionCoq[action])
	}
	icmpv6Rule := "(Build_brule (Build_rule Allow oV (sN 58) nC nP nN nC nP nN oI nN nN nN oN nC nP nC nP oI nN nN nN nN) (sK PnIcmpv6) oK)"
	type w struct {
		feat, key string
		v6        bool
		rules     polprog.Rules
		rulesC    string
		probe     string
	}
	mk := func(a string) polprog.Rule { return polprog.Rule{Rule: &proto.Rule{Action: a}, MatchID: 1} }
	v6src, v6dst := "336294682933583715844663186250927177729", "336294682933583715844663186250927177730"
	ws := []w{
		{"profile-log", "profile-log-panic", false,
			polprog.Rules{Profiles: []polprog.Profile{{Name: "p", Rules: []polprog.Rule{mk("log")}}}},
			fmt.Sprintf("(Build_brules false false false nT [[%s]] nT nT nT nPr)", anyRule("log")),
			"Build_pstate 167772161 167772162 167772162 1234 80 80 6 80 0 0"},
		{"protoname", "proto-name-icmpv6-udplite-zero", true,
			polprog.Rules{Tiers: []polprog.Tier{{Name: "t", EndAction: polprog.TierEndDeny, Policies: []polprog.Policy{{Name: "pol", Rules: []polprog.Rule{
				{Rule: &proto.Rule{Action: "allow", Protocol: &proto.Protocol{NumberOrName: &proto.Protocol_Name{Name: "icmpv6"}}}, MatchID: 1}}}}}}},
			fmt.Sprintf("(Build_brules false false false [(Build_btier [[%s]] EndDeny)] nPr nT nT nT nPr)", icmpv6Rule),
			fmt.Sprintf("Build_pstate %s %s %s 0 0 0 58 128 0 0", v6src, v6dst, v6dst)},
		{"profile-pass", "profile-pass-denies", false,
			polprog.Rules{Profiles: []polprog.Profile{{Name: "p", Rules: []polprog.Rule{mk("pass")}}, {Name: "q", Rules: []polprog.Rule{mk("allow")}}}},
			fmt.Sprintf("(Build_brules false false false nT [[%s]; [%s]] nT nT nT nPr)", anyRule("pass"), anyRule("allow")),
			"Build_pstate 167772161 167772162 167772162 1234 80 80 6 80 0 0"},
	}
	for _, x := range ws {
		opts := []polprog.Option{polprog.WithAllowDenyJumps(3, 4)}
		if x.v6 {
			opts = append(opts, polprog.WithIPv6())
		}
		res := compile(u, x.rules, opts)
		resC, nInsn := "CPanic", 0
		switch res.kind {
		case "ok":
			var s string
			s, nInsn = insnsCoq(res.progs)
			resC = "(COk " + s + ")"
		case "error":
			resC = "CError"
		}
		coq := fmt.Sprintf("(Build_case %s %s true 3 4 0 0\n %s\n nST\n %s\n [%s] true)%%N", coqBool(x.v6), vrCoq, x.rulesC, resC, x.probe)
		enc.Encode(line{Coq: coq, NT: true, Feat: x.feat, Key: x.key, Result: res.kind + ":" + res.msg,
			Tags:   []string{"witness:" + x.key, "compile:" + res.kind},
			Sample: map[string]any{"witness": x.key, "compile": res.kind, "msg": res.msg, "instructions": nInsn}})
	}
}
