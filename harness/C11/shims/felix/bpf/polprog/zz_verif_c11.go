//go:build verif

package polprog

import "github.com/projectcalico/calico/felix/proto"

// Add-only shim for property C11.  Nothing here changes behaviour of the builder.

// VerifWithMaxJumps lowers the per-program jump budget (an unexported field with a fixed default) so that
// maybeSplitProgram can be exercised on small programs.
func VerifWithMaxJumps(n int) Option {
	return func(b *Builder) {
		b.maxJumpsPerProgram = n
	}
}

// VerifProtocolToNumber exposes protocolToNumber for a protocol given by name (variant probe).
func VerifProtocolToNumber(name string) uint8 {
	return protocolToNumber(&proto.Protocol{NumberOrName: &proto.Protocol_Name{Name: name}})
}
