//go:build verif

// C35 correspondence driver: runs the real felix/markbits.MarkBitsManager on generated
// operation sequences and prints one JSON line per case carrying the case as a Coq term.
package main

import (
	"encoding/json"
	"flag"
	"fmt"
	"os"
	"strings"

	"github.com/projectcalico/calico/felix/markbits"
)

type rng struct{ s uint64 }

func (r *rng) next() uint64 {
	r.s += 0x9e3779b97f4a7c15
	z := r.s
	z = (z ^ (z >> 30)) * 0xbf58476d1ce4e5b9
	z = (z ^ (z >> 27)) * 0x94d049bb133111eb
	return z ^ (z >> 31)
}
func (r *rng) intn(n int) int { return int(r.next() % uint64(n)) }

type line struct {
	Coq    string         `json:"coq"`
	NT     bool           `json:"nt"`
	Key    string         `json:"key"`
	Sample map[string]any `json:"sample,omitempty"`
	Tags   []string       `json:"tags"`
}

func genMask(r *rng) (uint32, string) {
	switch r.intn(10) {
	case 0:
		return 0, "mask:empty"
	case 1:
		return 1 << uint(r.intn(32)), "mask:single"
	case 2:
		w := 1 + r.intn(31)
		sh := r.intn(32 - w + 1)
		return uint32((uint64(1)<<uint(w) - 1) << uint(sh)), "mask:contiguous"
	case 3:
		return 0xffffffff, "mask:full"
	case 4:
		return []uint32{0xffff0000, 0xff000000, 0x55555555, 0xaaaaaaaa, 0x80000001, 0xf0f0f0f0}[r.intn(6)], "mask:structured"
	case 5, 6:
		return uint32(r.next()) & uint32(r.next()), "mask:sparse"
	default:
		return uint32(r.next()), "mask:random"
	}
}

func popcount(m uint32) int {
	c := 0
	for ; m != 0; m &= m - 1 {
		c++
	}
	return c
}

func main() {
	n := flag.Int("n", 100, "cases")
	seed := flag.Uint64("seed", 1, "seed")
	flag.Parse()
	r := &rng{s: *seed}
	enc := json.NewEncoder(os.Stdout)
	for i := 0; i < *n; i++ {
		mask, mtag := genMask(r)
		mgr := markbits.NewMarkBitsManager(mask, "verif")
		pc := popcount(mask)
		nops := 8 + r.intn(33)
		var ops, outs, sample []string
		exhausted, roundtrip := false, false
		var lastMark uint32
		haveMark := false
		for j := 0; j < nops; j++ {
			switch k := r.intn(12); {
			case k < 4:
				m, err := mgr.NextSingleBitMark()
				ops = append(ops, "OpNextSingle")
				if err != nil {
					outs = append(outs, "OErr")
					exhausted = true
				} else {
					outs = append(outs, fmt.Sprintf("OMark %d", m))
				}
			case k < 5:
				sz := r.intn(6)
				m, got := mgr.NextBlockBitsMark(sz)
				ops = append(ops, fmt.Sprintf("OpNextBlock %d", sz))
				outs = append(outs, fmt.Sprintf("OBlock %d %d", m, got))
				if got < sz {
					exhausted = true
				}
			case k < 6:
				ops = append(ops, "OpAvail")
				outs = append(outs, fmt.Sprintf("OInt (%d)", mgr.AvailableMarkBitCount()))
			case k < 7:
				ops = append(ops, "OpFreeNumber")
				outs = append(outs, fmt.Sprintf("OInt (%d)", mgr.CurrentFreeNumberOfMark()))
			case k < 10:
				// number -> mark: mostly in range, sometimes at/over the boundary
				var num uint64
				switch r.intn(5) {
				case 0:
					num = uint64(1) << uint(pc) // first number that does not fit
				case 1:
					num = uint64(1)<<uint(pc) - 1
				case 2:
					num = r.next() % (uint64(1) << 33)
				default:
					num = r.next() % (uint64(1)<<uint(pc) + 1)
				}
				m, err := mgr.MapNumberToMark(int(num))
				ops = append(ops, fmt.Sprintf("OpN2M %d", num))
				if err != nil {
					outs = append(outs, "OErr")
				} else {
					outs = append(outs, fmt.Sprintf("OMark %d", m))
					lastMark, haveMark = m, true
				}
			default:
				var mk uint32
				if haveMark && r.intn(2) == 0 {
					mk = lastMark
					roundtrip = true
				} else if r.intn(3) == 0 {
					mk = uint32(r.next())
				} else {
					mk = uint32(r.next()) & mask
				}
				num, err := mgr.MapMarkToNumber(mk)
				ops = append(ops, fmt.Sprintf("OpM2N %d", mk))
				if err != nil {
					outs = append(outs, "OErr")
				} else {
					outs = append(outs, fmt.Sprintf("OInt (%d)", num))
				}
			}
		}
		for k := range ops {
			sample = append(sample, ops[k]+" -> "+outs[k])
		}
		coq := fmt.Sprintf("{| c_mask := %d%%N; c_ops := [%s]%%N; c_outs := [%s] |}", mask,
			paren(ops), parenOut(outs))
		tags := []string{mtag}
		if exhausted {
			tags = append(tags, "exhausted")
		}
		if roundtrip {
			tags = append(tags, "roundtrip")
		}
		_ = enc.Encode(line{Coq: coq, NT: pc >= 2 && (exhausted || roundtrip), Key: fmt.Sprintf("%d|%s", mask, strings.Join(ops, ";")),
			Sample: map[string]any{"mask": fmt.Sprintf("0x%08x", mask), "trace": sample}, Tags: tags})
	}
}

func paren(xs []string) string {
	ys := make([]string, len(xs))
	for i, x := range xs {
		ys[i] = x
		if strings.Contains(x, " ") {
			// numeric args: N for N2M/M2N, nat for NextBlock
			f := strings.Fields(x)
			if f[0] == "OpNextBlock" {
				ys[i] = fmt.Sprintf("(%s %s%%nat)", f[0], f[1])
			} else {
				ys[i] = fmt.Sprintf("(%s %s%%N)", f[0], f[1])
			}
		}
	}
	return strings.Join(ys, "; ")
}

func parenOut(xs []string) string {
	ys := make([]string, len(xs))
	for i, x := range xs {
		f := strings.Fields(x)
		switch f[0] {
		case "OErr":
			ys[i] = "OErr"
		case "OMark":
			ys[i] = fmt.Sprintf("(OMark %s%%N)", f[1])
		case "OBlock":
			ys[i] = fmt.Sprintf("(OBlock %s%%N %s%%nat)", f[1], f[2])
		case "OInt":
			ys[i] = fmt.Sprintf("(OInt %s%%Z)", strings.Join(f[1:], " "))
		}
	}
	return strings.Join(ys, "; ")
}
