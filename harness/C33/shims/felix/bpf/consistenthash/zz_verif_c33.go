//go:build verif

package consistenthash

// VerifPermutation exposes one backend's preference list exactly as AddBackend computes it.
func VerifPermutation(ch *ConsistentHash, name string) ([]int, error) {
	return ch.permutation(name)
}
