//go:build verif

package proxy

import "github.com/projectcalico/calico/felix/bpf/consistenthash"

// VerifNewConsistentHash builds the consistent-hash module exactly as the Syncer configures it
// (table size from WithMaglevLUTSize / Config.BPFLUTSizeMaglev, hash functions as in newConsistentHash).
func VerifNewConsistentHash(lutSize int) *consistenthash.ConsistentHash {
	s := &Syncer{maglevLUTSize: lutSize}
	return s.newConsistentHash()
}
