//go:build verif

// C33 correspondence driver: runs the real felix/bpf/consistenthash.ConsistentHash (constructed the way
// felix/bpf/proxy.Syncer constructs it) on generated backend sets, several insertion orders each, and the real
// Config.BPFLUTSizeMaglev on configured sizes; prints one JSON line per case carrying the case as a Coq term.
package main

import (
	"encoding/binary"
	"encoding/json"
	"flag"
	"fmt"
	"io"
	"os"
	"strconv"
	"strings"

	"hash/fnv"

	"github.com/sirupsen/logrus"

	"github.com/projectcalico/calico/felix/bpf/consistenthash"

	types "github.com/projectcalico/calico/felix/bpf/consistenthash/test"
	"github.com/projectcalico/calico/felix/bpf/proxy"
	"github.com/projectcalico/calico/felix/config"
	chprimes "github.com/projectcalico/calico/libcalico-go/lib/consistenthash"
)

type rng struct{ s uint64 }

func (r *rng) next() uint64 {
	r.s += 0x9e3779b97f4a7c15
	z := r.s
	z = (z ^ (z >> 30)) * 0xbf58476d1ce4e5b9
	z = (z ^ (z >> 27)) * 0x94d049bb133111eb
	return z ^ (z >> 31)
}
func (r *rng) intn(n int) int { return int(r.next() % uint64(n)) }

type line struct {
	Coq    string         `json:"coq"`
	NT     bool           `json:"nt"`
	Key    string         `json:"key"`
	Obs0   string         `json:"obs0,omitempty"`
	Kind   string         `json:"kind"`
	Sample map[string]any `json:"sample,omitempty"`
	Tags   []string       `json:"tags"`
}

// endpoint with an arbitrary name (String() is the only thing ConsistentHash looks at)
type ep struct {
	types.MockEndpoint
	name string
}

func (e ep) String() string { return e.name }

var smallPrimes = []int{2, 3, 5, 7, 11, 13, 17, 19, 23, 29, 31, 37, 41, 43, 47, 53, 59, 61, 67, 71, 73, 79, 83, 89, 97}
var composites = []int{4, 6, 8, 9, 10, 12, 15, 16, 21, 25, 27, 32, 33, 35, 49, 64, 77, 91, 100, 121, 128, 255, 256, 500, 512}

func isPrime(n int) bool {
	if n < 2 {
		return false
	}
	for d := 2; d*d <= n; d++ {
		if n%d == 0 {
			return false
		}
	}
	return true
}

func genM(r *rng, big bool) (int, string) {
	if big {
		// a size Felix really configures
		n := 1 + r.intn(3000)
		if r.intn(4) == 0 {
			n = []int{100, 3000, 1, 2999}[r.intn(4)]
		}
		return int(chprimes.NextPrimeUint16(n * chprimes.MaglevEndpointLUTFactor)), "m:configured"
	}
	switch k := r.intn(20); {
	case k < 8:
		return smallPrimes[r.intn(len(smallPrimes))], "m:small-prime"
	case k < 15:
		for {
			c := 101 + r.intn(900)
			if isPrime(c) {
				return c, "m:mid-prime"
			}
		}
	case k < 17:
		return []int{503, 251, 1009, 509}[r.intn(4)], "m:default-ish"
	default:
		return composites[r.intn(len(composites))], "m:composite"
	}
}

func genName(r *rng, style int) string {
	switch style {
	case 0: // pod IPs in one /24, one port
		return fmt.Sprintf("10.65.%d.%d:8080", r.intn(2), r.intn(256))
	case 1:
		return fmt.Sprintf("%d.%d.%d.%d:%d", 1+r.intn(223), r.intn(256), r.intn(256), r.intn(256), 1+r.intn(65535))
	case 2:
		return fmt.Sprintf("[fd00:10:244::%x]:%d", r.intn(65536), []int{80, 443, 8080}[r.intn(3)])
	case 3: // short arbitrary byte strings, including the empty name and bytes >= 0x80
		n := r.intn(5)
		b := make([]byte, n)
		for i := range b {
			b[i] = byte(r.next())
			if r.intn(3) == 0 {
				b[i] = []byte{0, 1, 0x7f, 0x80, 0xff, 'a', 'b'}[r.intn(7)]
			}
		}
		return string(b)
	default: // common prefix, one is a prefix of the other
		return "backend" + strings.Repeat("x", r.intn(4)) + strconv.Itoa(r.intn(12))
	}
}

func bytesCoq(s string) string {
	parts := make([]string, len(s))
	for i := 0; i < len(s); i++ {
		parts[i] = strconv.Itoa(int(s[i]))
	}
	return "[" + strings.Join(parts, ";") + "]"
}

// run the real code: New (as the Syncer does), AddBackend in the given order, Generate
func runReal(m int, names []string, order []int) (res string, lut []int) {
	defer func() {
		if e := recover(); e != nil {
			res, lut = "OPanic", nil
		}
	}()
	first := map[string]int{}
	for i, n := range names {
		if _, ok := first[n]; !ok {
			first[n] = i
		}
	}
	ch := proxy.VerifNewConsistentHash(m)
	for _, i := range order {
		ch.AddBackend(ep{name: names[i]})
	}
	out := ch.Generate()
	if out == nil {
		return "ONil", nil
	}
	lut = make([]int, len(out))
	parts := make([]string, len(out))
	for i, e := range out {
		switch {
		case e == nil:
			lut[i] = len(names)
		default:
			if k, ok := first[e.String()]; ok {
				lut[i] = k
			} else {
				lut[i] = len(names) + 1
			}
		}
		parts[i] = strconv.Itoa(lut[i])
	}
	return "OLut [" + strings.Join(parts, ";") + "]", lut
}

func shuffle(r *rng, a []int) {
	for i := len(a) - 1; i > 0; i-- {
		j := r.intn(i + 1)
		a[i], a[j] = a[j], a[i]
	}
}

func natList(a []int) string {
	parts := make([]string, len(a))
	for i, x := range a {
		parts[i] = strconv.Itoa(x)
	}
	return "[" + strings.Join(parts, ";") + "]"
}

// fixed corpus case: three pod addresses, table size 7 (the smallest case on which the two byte orders differ)
var witnessNames = []string{"10.0.0.1:80", "10.0.0.2:80", "10.0.0.3:80"}

func lutCase(r *rng, big bool, bo, cpu string) line {
	m, mtag := genM(r, big)
	return lutCaseFor(r, m, mtag, big, nil, bo, cpu)
}

func lutCaseFor(r *rng, m int, mtag string, big bool, fixed []string, bo, cpu string) line {
	tags := []string{mtag}
	// number of backends
	var nb int
	switch k := r.intn(12); {
	case k == 0:
		nb = 0
	case k == 1:
		nb = 1
	case k == 2:
		nb = m // as many backends as slots
	case k == 3:
		nb = m + 1 + r.intn(3) // more backends than slots
	case k < 8:
		nb = 2 + r.intn(9)
	default:
		nb = 2 + r.intn(39)
	}
	if nb > 40 {
		nb = 40
	}
	style := r.intn(6)
	names := make([]string, 0, nb)
	for i := 0; i < nb; i++ {
		st := style
		if style == 5 {
			st = r.intn(5)
		}
		if len(names) > 0 && r.intn(10) == 0 {
			names = append(names, names[r.intn(len(names))]) // duplicate
		} else {
			names = append(names, genName(r, st))
		}
	}
	distinct := map[string]bool{}
	for _, n := range names {
		distinct[n] = true
	}
	tags = append(tags, fmt.Sprintf("style:%d", style))
	switch d := len(distinct); {
	case d == 0:
		tags = append(tags, "backends:0")
	case d == 1:
		tags = append(tags, "backends:1")
	case d > m:
		tags = append(tags, "backends:>m")
	case d == m:
		tags = append(tags, "backends:=m")
	case d <= 10:
		tags = append(tags, "backends:2-10")
	default:
		tags = append(tags, "backends:11-40")
	}
	if fixed != nil {
		names = fixed
		distinct = map[string]bool{}
		for _, n := range names {
			distinct[n] = true
		}
		tags = []string{mtag, "corpus"}
	}
	if len(distinct) < len(names) {
		tags = append(tags, "duplicates")
	}
	// insertion orders: identity, reverse, shuffles, one with extra repeats
	id := make([]int, len(names))
	for i := range id {
		id[i] = i
	}
	orders := [][]int{id}
	if len(names) > 1 {
		rev := make([]int, len(names))
		for i := range rev {
			rev[i] = len(names) - 1 - i
		}
		orders = append(orders, rev)
		nsh := 1
		if !big {
			nsh = 2
		}
		for k := 0; k < nsh; k++ {
			s := append([]int(nil), id...)
			shuffle(r, s)
			if k == 1 {
				for x := 0; x < 3; x++ {
					s = append(s, r.intn(len(names)))
				}
				shuffle(r, s)
			}
			orders = append(orders, s)
		}
	}
	var obs, ords []string
	for _, o := range orders {
		res, _ := runReal(m, names, o)
		obs = append(obs, res)
		ords = append(ords, natList(o)+"%nat")
	}
	nm := make([]string, len(names))
	for i, n := range names {
		nm[i] = bytesCoq(n)
	}
	coq := fmt.Sprintf("CLut {| c_m := %d; c_bo := %s; c_cpu := %s; c_names := [%s]; c_orders := [%s]; c_obs := [%s]; c_obs_be := [] |}",
		m, bo, cpu, strings.Join(nm, ";"), strings.Join(ords, ";"), strings.Join(obs, ";"))
	smp := obs[0]
	if len(smp) > 200 {
		smp = smp[:200] + "..."
	}
	return line{Coq: coq, Kind: "lut", Obs0: obs[0],
		NT:     isPrime(m) && len(distinct) >= 2 && len(orders) >= 2,
		Key:    fmt.Sprintf("%d|%q", m, names),
		Sample: map[string]any{"m": m, "names": fmt.Sprintf("%q", names), "orders": len(orders), "lut(order 0)": smp},
		Tags:   tags}
}

// effective BPFMaglevMaxEndpointsPerService after Felix's own parameter validation, and the size it yields
func realSize(requested int) (eff int, res string) {
	defer func() {
		if e := recover(); e != nil {
			res = "SzPanic"
		}
	}()
	c := config.New()
	_, _ = c.UpdateFrom(map[string]string{"BPFMaglevMaxEndpointsPerService": strconv.Itoa(requested)}, config.EnvironmentVariable)
	eff = c.BPFMaglevMaxEndpointsPerService
	return eff, fmt.Sprintf("Sz %d", c.BPFLUTSizeMaglev())
}

func sizesCase(r *rng, all bool, chunk int) []line {
	var reqs []int
	if all {
		for n := -2; n <= 3005; n++ {
			reqs = append(reqs, n)
		}
		reqs = append(reqs, 5000, 13104, 13105, 20000, 65521, 70000)
	} else {
		reqs = []int{-1, 0, 1, 2, 3, 99, 100, 101, 1000, 2999, 3000, 3001, 5000, 13104, 13105, 20000, 65521, 70000}
		for i := 0; i < 150; i++ {
			reqs = append(reqs, 1+r.intn(3000))
		}
		for i := 0; i < 20; i++ {
			reqs = append(reqs, r.intn(70000))
		}
	}
	var out []line
	for s := 0; s < len(reqs); s += chunk {
		e := s + chunk
		if e > len(reqs) {
			e = len(reqs)
		}
		var pairs, smp []string
		rejected := 0
		for _, q := range reqs[s:e] {
			eff, res := realSize(q)
			if eff != q {
				rejected++
			}
			pairs = append(pairs, fmt.Sprintf("(%d, %s)", eff, res))
			if len(smp) < 6 {
				smp = append(smp, fmt.Sprintf("requested %d -> effective %d -> %s", q, eff, res))
			}
		}
		out = append(out, line{Coq: "CSizes [" + strings.Join(pairs, ";") + "]", Kind: "sizes", NT: true,
			Key:    fmt.Sprintf("sizes|%v", reqs[s:e]),
			Sample: map[string]any{"sizes": smp, "requests": e - s, "rejected_by_validation": rejected},
			Tags:   []string{"sizes"}})
	}
	return out
}

// ---- preference lists and the directed generator ----

// one backend's preference list through the real ConsistentHash.permutation
func permCase(m int, name, bo, cpu, arith string, tags []string) line {
	obs := func() (res string) {
		defer func() {
			if e := recover(); e != nil {
				res = "PPanic"
			}
		}()
		p, err := consistenthash.VerifPermutation(proxy.VerifNewConsistentHash(m), name)
		if err != nil {
			return "PErr"
		}
		parts := make([]string, len(p))
		for i, x := range p {
			if x < 0 {
				parts[i] = fmt.Sprintf("(%d)", x)
			} else {
				parts[i] = strconv.Itoa(x)
			}
		}
		return "PList [" + strings.Join(parts, ";") + "]%Z"
	}()
	coq := fmt.Sprintf("CPerm {| p_m := %d; p_bo := %s; p_cpu := %s; p_arith := %s; p_name := %s; p_obs := %s |}",
		m, bo, cpu, arith, bytesCoq(name), obs)
	smp := obs
	if len(smp) > 120 {
		smp = smp[:120] + "..."
	}
	return line{Coq: coq, Kind: "perm", NT: isPrime(m), Key: fmt.Sprintf("perm|%d|%q", m, name),
		Sample: map[string]any{"m": m, "name": name, "permutation": smp}, Tags: append([]string{"perm"}, tags...)}
}

// the uint32 a backend name hashes to, decoded the way the source's byte-order identifier says
func rawHash(name string, seed byte, little bool) uint64 {
	h := fnv.New32()
	h.Write([]byte{seed})
	h.Write([]byte(name))
	sum := h.Sum(nil)
	if little {
		return uint64(binary.LittleEndian.Uint32(sum))
	}
	return uint64(binary.BigEndian.Uint32(sum))
}

// Directed search: pod addresses whose first hash is so close to 2^32 that hash + j*skip passes 2^32 for some
// j < m (where fixed-width 32-bit arithmetic would wrap), and addresses with a very small first hash.
func directedNames(r *rng, m int, little bool, want, maxTries int) (near []string, tries int) {
	base := r.intn(1 << 16)
	for t := 0; t < maxTries && len(near) < want; t++ {
		x := base + t
		name := fmt.Sprintf("10.244.%d.%d:%d", (x>>8)&255, x&255, []int{443, 8080, 80, 53, 9090, 6443, 5432, 3306}[(x>>16)&7])
		if x>>19 != 0 {
			name = fmt.Sprintf("10.%d.%d.%d:%d", 128+(x>>19)&127, (x>>8)&255, x&255, []int{443, 8080, 80, 53, 9090, 6443, 5432, 3306}[(x>>16)&7])
		}
		h1 := rawHash(name, 0, little)
		skip := rawHash(name, 0xa, little)%uint64(m-1) + 1
		if h1+uint64(m-1)*skip >= 1<<32 {
			near = append(near, name)
		}
		tries = t + 1
	}
	return near, tries
}

func main() {
	n := flag.Int("n", 100, "cases")
	seed := flag.Uint64("seed", 1, "seed")
	bo := flag.String("bo", "BONative", "byte-order identifier found in the source (Coq constructor)")
	arith := flag.String("arith", "{| a_bits := 64%Z; a_signed := true; a_offset_reduced := true; a_skip_reduced := true |}", "integer types found in the source (Coq record)")
	nbig := flag.Int("big", 3, "how many cases use a table size Felix configures (up to 15013)")
	allSizes := flag.Bool("allsizes", false, "check every configurable size instead of a sample")
	cfgMax := flag.Int("cfgmax", 3000, "upper end of the BPFMaglevMaxEndpointsPerService range found in the source")
	dsizes := flag.Int("dsizes", 2, "how many extra configurable sizes the directed generator visits (besides the largest and the default)")
	flag.Parse()
	logrus.SetOutput(io.Discard)
	logrus.SetLevel(logrus.PanicLevel)
	cpu := "BE"
	if binary.NativeEndian.Uint16([]byte{1, 0}) == 1 {
		cpu = "LE"
	}
	little := *bo == "BOLittle" || (*bo == "BONative" && cpu == "LE")
	r := &rng{s: *seed}
	enc := json.NewEncoder(os.Stdout)
	for _, l := range sizesCase(r, *allSizes, 200) {
		_ = enc.Encode(l)
	}
	_ = enc.Encode(lutCaseFor(&rng{s: 33}, 7, "m:small-prime", false, witnessNames, *bo, cpu))

	// directed: the largest configurable size, the default size, and some other configurable sizes
	dr := &rng{s: *seed ^ 0xd1ec7ed}
	if *cfgMax > 13104 {
		*cfgMax = 13104 // NextPrimeUint16 panics beyond; the sizes stream reports that
	}
	sizes := []int{int(chprimes.NextPrimeUint16(*cfgMax * chprimes.MaglevEndpointLUTFactor)), int(chprimes.NextPrimeUint16(100 * chprimes.MaglevEndpointLUTFactor))}
	for i := 0; i < *dsizes; i++ {
		nn := 1 + dr.intn(*cfgMax)
		if i%2 == 0 {
			nn = *cfgMax/2 + dr.intn(*cfgMax/2+1) // bias to large tables, where wrap-around is likeliest
		}
		sizes = append(sizes, int(chprimes.NextPrimeUint16(nn*chprimes.MaglevEndpointLUTFactor)))
	}
	stats := map[string]any{}
	for _, m := range sizes {
		if m < 3 {
			continue
		}
		near, tries := directedNames(dr, m, little, 2, 600000)
		stats[fmt.Sprintf("directed m=%d", m)] = fmt.Sprintf("%d names with hash1 + (m-1)*skip >= 2^32 after %d candidates", len(near), tries)
		for _, nm := range near {
			_ = enc.Encode(permCase(m, nm, *bo, cpu, *arith, []string{"directed:hash-near-2^32", "m:configured"}))
		}
		if len(near) > 0 {
			names := append(append([]string(nil), near...), genName(dr, 0), genName(dr, 2))
			l := lutCaseFor(dr, m, "m:configured", true, names, *bo, cpu)
			for i, t := range l.Tags {
				if t == "corpus" {
					l.Tags[i] = "directed:hash-near-2^32"
				}
			}
			_ = enc.Encode(l)
		}
	}
	// ordinary preference lists
	for i := 0; i < 12; i++ {
		m, mtag := genM(r, false)
		if m < 2 {
			continue
		}
		_ = enc.Encode(permCase(m, genName(r, r.intn(5)), *bo, cpu, *arith, []string{mtag}))
	}
	_ = enc.Encode(map[string]any{"stats": stats})

	for i := 0; i < *n; i++ {
		_ = enc.Encode(lutCase(r, i%12 == 5 && i/12 < *nbig, *bo, cpu))
	}
}
