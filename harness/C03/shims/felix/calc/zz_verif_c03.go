//go:build verif

package calc

import "github.com/projectcalico/calico/felix/proto"

// VerifTierInfoToProto exposes tierInfoToProtoTierInfo (event_sequencer.go) to the C03 driver.
func VerifTierInfoToProto(filteredTiers []TierInfo) (normal, untracked, preDNAT, forward []*proto.TierInfo) {
	return tierInfoToProtoTierInfo(filteredTiers)
}
