//go:build verif

// Pipeline stream of the C03 driver: datastore-level histories through the REAL ActiveRulesCalculator (with its
// label inheritance index) registered ahead of the REAL PolicyResolver, as in the calculation graph.
package main

import (
	"fmt"
	"sort"
	"strings"

	v3 "github.com/projectcalico/api/pkg/apis/projectcalico/v3"

	"github.com/projectcalico/calico/felix/calc"
	"github.com/projectcalico/calico/lib/std/uniquelabels"
	"github.com/projectcalico/calico/libcalico-go/lib/backend/api"
	"github.com/projectcalico/calico/libcalico-go/lib/backend/model"
)

type stubScanner struct{}

func (stubScanner) OnPolicyActive(model.PolicyKey, *model.Policy)              {}
func (stubScanner) OnPolicyInactive(model.PolicyKey)                           {}
func (stubScanner) OnProfileActive(model.ProfileRulesKey, *model.ProfileRules) {}
func (stubScanner) OnProfileInactive(model.ProfileRulesKey)                    {}

// selector text -> Coq AST (Common/Labels.v); the parser itself is C06's subject
var selectors = [][2]string{
	{`all()`, `SAll`},
	{`has(role)`, `SHas %role`},
	{`!has(role)`, `SNot (SHas %role)`},
	{`role == "db"`, `SEq %role %db`},
	{`role != "db"`, `SNe %role %db`},
	{`env in {"a", "b"}`, `SIn %env [%a; %b]`},
	{`has(role) && env == "a"`, `SAnd [SHas %role; SEq %env %a]`},
	{`role == "db" || app == "x"`, `SOr [SEq %role %db; SEq %app %x]`},
	{`!has(env) && role == "web"`, `SAnd [SNot (SHas %env); SEq %role %web]`},
}

func selCoq(i int) string {
	s := selectors[i][1]
	for _, w := range []string{"role", "env", "app", "db", "web", "a", "b", "x"} {
		s = strings.ReplaceAll(s, "%"+w+" ", bs(w)+" ")
		s = strings.ReplaceAll(s, "%"+w+"]", bs(w)+"]")
		s = strings.ReplaceAll(s, "%"+w+";", bs(w)+";")
		s = strings.ReplaceAll(s, "%"+w+")", bs(w)+")")
		if strings.HasSuffix(s, "%"+w) {
			s = strings.TrimSuffix(s, "%"+w) + bs(w)
		}
	}
	return "(" + s + ")"
}

var labelKeys = []string{"role", "env", "app"}
var labelVals = map[string][]string{"role": {"db", "web"}, "env": {"a", "b", "c"}, "app": {"x", "y"}}
var profNames = []string{"prA", "prB", "prC"}

func genLabels(r *rng, max int) map[string]string {
	m := map[string]string{}
	for i := r.intn(max + 1); i > 0; i-- {
		k := labelKeys[r.intn(len(labelKeys))]
		m[k] = labelVals[k][r.intn(len(labelVals[k]))]
	}
	return m
}
func labelsCoq(m map[string]string) string {
	ks := make([]string, 0, len(m))
	for k := range m {
		ks = append(ks, k)
	}
	sort.Strings(ks)
	p := make([]string, len(ks))
	for i, k := range ks {
		p[i] = fmt.Sprintf("(%s,%s)", bs(k), bs(m[k]))
	}
	return lst(p)
}
func strsCoq(xs []string) string {
	p := make([]string, len(xs))
	for i, x := range xs {
		p[i] = bs(x)
	}
	return lst(p)
}

type pop struct {
	kind   string // ep, prof, pol, tier, insync, flush
	e, p   int
	name   string
	del    bool
	labels map[string]string
	profs  []string
	pol    *model.Policy
	cls    []string
	sel    int
	tier   *model.Tier
}

type pgen struct {
	r      *rng
	u      *universe
	ops    []pop
	epProf map[int][]string
	known  map[string]bool
	tags   map[string]bool
}

func (g *pgen) push(o pop) {
	switch o.kind {
	case "ep":
		if o.del {
			delete(g.epProf, o.e)
		} else {
			old := g.epProf[o.e]
			moved, unknownMoved := false, false
			for i, n := range old {
				for j, m := range o.profs {
					if n == m && i != j {
						moved = true
						if !g.known[n] {
							unknownMoved = true
						}
					}
				}
			}
			if moved {
				g.tags["profile-kept-at-other-index"] = true
			}
			if unknownMoved {
				g.tags["unknown-profile-kept-at-other-index"] = true
			}
			if len(o.profs) >= 2 {
				g.tags["endpoint-with->=2-profiles"] = true
			}
			g.epProf[o.e] = o.profs
		}
	case "prof":
		if !o.del && !g.known[o.name] {
			for _, ps := range g.epProf {
				for _, n := range ps {
					if n == o.name {
						g.tags["profile-labels-arrive-after-reference"] = true
					}
				}
			}
		}
		g.known[o.name] = !o.del
		if o.del {
			g.tags["profile-deleted"] = true
		}
	}
	g.ops = append(g.ops, o)
}

func (g *pgen) genProfs(e int) []string {
	r := g.r
	old := g.epProf[e]
	if len(old) > 0 && r.intn(2) == 0 {
		// keep some of the old ones at other positions: rotate / drop the first / insert in front
		switch r.intn(3) {
		case 0:
			return append(append([]string{}, old[1:]...), old[0])
		case 1:
			return append([]string{}, old[1:]...)
		default:
			for _, n := range profNames {
				in := false
				for _, o := range old {
					in = in || o == n
				}
				if !in {
					return append([]string{n}, old...)
				}
			}
		}
	}
	perm := []string{profNames[0], profNames[1], profNames[2]}
	for i := 2; i > 0; i-- {
		j := r.intn(i + 1)
		perm[i], perm[j] = perm[j], perm[i]
	}
	return perm[:r.intn(4)]
}

func (g *pgen) randomOp() {
	r, u := g.r, g.u
	switch k := r.intn(20); {
	case k < 6:
		e := r.intn(len(u.eps))
		if r.intn(6) == 0 {
			g.push(pop{kind: "ep", e: e, del: true})
			return
		}
		g.push(pop{kind: "ep", e: e, labels: genLabels(r, 2), profs: g.genProfs(e)})
	case k < 11:
		n := profNames[r.intn(len(profNames))]
		if r.intn(4) == 0 {
			g.push(pop{kind: "prof", name: n, del: true})
			return
		}
		g.push(pop{kind: "prof", name: n, labels: genLabels(r, 2)})
	case k < 15:
		p := r.intn(len(u.keys))
		if r.intn(5) == 0 {
			g.push(pop{kind: "pol", p: p, del: true})
			return
		}
		pol, cls := genPolicy(r, u)
		sel := r.intn(len(selectors))
		pol.Selector = selectors[sel][0]
		g.push(pop{kind: "pol", p: p, pol: pol, cls: cls, sel: sel})
	case k < 16:
		t := r.intn(len(u.tiers))
		if r.intn(4) == 0 {
			g.push(pop{kind: "tier", name: u.tiers[t], del: true})
			return
		}
		g.push(pop{kind: "tier", name: u.tiers[t], tier: genTier(r)})
	case k < 17:
		g.push(pop{kind: "insync"})
	default:
		g.push(pop{kind: "flush"})
	}
}

// the history class behind "parent kept at another index while its labels are unknown":
// endpoint references profile X (labels unknown, nobody else uses X), endpoint updated with X at another index,
// then X's labels arrive and a selector depends on them
func (g *pgen) directed() {
	r, u := g.r, g.u
	e := r.intn(len(u.eps))
	x := profNames[r.intn(len(profNames))]
	var other string
	for _, n := range profNames {
		if n != x {
			other = n
		}
	}
	g.push(pop{kind: "prof", name: x, del: true})
	for e2 := range u.eps {
		if e2 != e {
			g.push(pop{kind: "ep", e: e2, labels: genLabels(r, 2), profs: []string{other}})
		}
	}
	own := map[string]string{}
	if r.intn(2) == 0 {
		own["env"] = "a"
	}
	if r.intn(2) == 0 {
		g.push(pop{kind: "ep", e: e, labels: own, profs: []string{other, x}})
		g.push(pop{kind: "ep", e: e, labels: own, profs: []string{x}})
	} else {
		g.push(pop{kind: "ep", e: e, labels: own, profs: []string{x, other}})
		g.push(pop{kind: "ep", e: e, labels: own, profs: []string{other, x}})
	}
	for p := 0; p < 2 && p < len(u.keys); p++ {
		pol, cls := genPolicy(r, u)
		sel := 1 + r.intn(4)
		pol.Selector = selectors[sel][0]
		g.push(pop{kind: "pol", p: p, pol: pol, cls: cls, sel: sel})
	}
	if r.intn(2) == 0 {
		g.push(pop{kind: "insync"})
		g.push(pop{kind: "flush"})
	}
	g.push(pop{kind: "prof", name: x, labels: map[string]string{"role": []string{"db", "web"}[r.intn(2)]}})
}

func (o pop) coq(u *universe) string {
	switch o.kind {
	case "ep":
		if o.del {
			return fmt.Sprintf("PEp %d None", o.e+1)
		}
		return fmt.Sprintf("PEp %d (Some (mkPEp %s %s))", o.e+1, labelsCoq(o.labels), strsCoq(o.profs))
	case "prof":
		if o.del {
			return fmt.Sprintf("PProf %s None", bs(o.name))
		}
		return fmt.Sprintf("PProf %s (Some %s)", bs(o.name), labelsCoq(o.labels))
	case "pol":
		if o.del {
			return fmt.Sprintf("PPol %s None", pk(u.keys[o.p]))
		}
		return fmt.Sprintf("PPol %s (Some (mkPol %s %s %s %s %s %s, %s))", pk(u.keys[o.p]), bs(o.pol.Tier), ordOpt(o.pol.Order),
			cb(o.pol.DoNotTrack), cb(o.pol.PreDNAT), cb(o.pol.ApplyOnForward), lst(o.cls), selCoq(o.sel))
	case "tier":
		if o.del {
			return fmt.Sprintf("PTier %s None", bs(o.name))
		}
		return fmt.Sprintf("PTier %s (Some (mkTier %s %s))", bs(o.name), ordOpt(o.tier.Order), act(string(o.tier.DefaultAction)))
	case "insync":
		return "PInSync"
	}
	return "PFlush"
}

func (o pop) text(u *universe) string {
	switch o.kind {
	case "ep":
		if o.del {
			return fmt.Sprintf("endpoint ep%d deleted", o.e+1)
		}
		return fmt.Sprintf("endpoint ep%d labels=%v profiles=%v", o.e+1, o.labels, o.profs)
	case "prof":
		if o.del {
			return fmt.Sprintf("profile %s labels deleted", o.name)
		}
		return fmt.Sprintf("profile %s labels=%v", o.name, o.labels)
	case "pol":
		if o.del {
			return fmt.Sprintf("policy %v deleted", u.keys[o.p])
		}
		return fmt.Sprintf("policy %v selector=%q tier=%q order=%s dnt=%v prednat=%v aof=%v types=%v", u.keys[o.p], o.pol.Selector, o.pol.Tier,
			fptr(o.pol.Order), o.pol.DoNotTrack, o.pol.PreDNAT, o.pol.ApplyOnForward, o.pol.Types)
	case "tier":
		if o.del {
			return fmt.Sprintf("tier %s deleted", o.name)
		}
		return fmt.Sprintf("tier %s order=%s action=%q", o.name, fptr(o.tier.Order), o.tier.DefaultAction)
	case "insync":
		return "in-sync"
	}
	return "Flush()"
}

func papply(arc *calc.ActiveRulesCalculator, pr *calc.PolicyResolver, u *universe, o pop) {
	switch o.kind {
	case "ep":
		upd := api.Update{KVPair: model.KVPair{Key: u.eps[o.e].(model.Key)}}
		if !o.del {
			if _, ok := u.eps[o.e].(model.WorkloadEndpointKey); ok {
				upd.Value = &model.WorkloadEndpoint{Name: "x", Labels: uniquelabels.Make(o.labels), ProfileIDs: append([]string{}, o.profs...)}
			} else {
				upd.Value = &model.HostEndpoint{Name: "x", Labels: uniquelabels.Make(o.labels), ProfileIDs: append([]string{}, o.profs...)}
			}
		}
		arc.OnUpdate(upd)
		pr.OnUpdate(upd)
	case "prof":
		upd := api.Update{KVPair: model.KVPair{Key: model.ResourceKey{Kind: v3.KindProfile, Name: o.name}}}
		if !o.del {
			cp := map[string]string{}
			for k, v := range o.labels {
				cp[k] = v
			}
			upd.Value = &v3.Profile{Spec: v3.ProfileSpec{LabelsToApply: cp}}
		}
		arc.OnUpdate(upd)
	case "pol":
		upd := api.Update{KVPair: model.KVPair{Key: u.keys[o.p]}}
		if !o.del {
			cp := *o.pol
			upd.Value = &cp
		}
		arc.OnUpdate(upd)
		pr.OnUpdate(upd)
	case "tier":
		upd := api.Update{KVPair: model.KVPair{Key: model.TierKey{Name: o.name}}}
		if !o.del {
			cp := *o.tier
			upd.Value = &cp
		}
		arc.OnUpdate(upd)
		pr.OnUpdate(upd)
	case "insync":
		pr.OnDatamodelStatus(api.InSync)
	case "flush":
		pr.Flush()
	}
}

func safePApply(arc *calc.ActiveRulesCalculator, pr *calc.PolicyResolver, u *universe, o pop) (msg string) {
	defer func() {
		if r := recover(); r != nil {
			msg = fmt.Sprint(r)
		}
	}()
	papply(arc, pr, u, o)
	return ""
}

func pipelineCase(r *rng, variant string) line {
	u := &universe{tiers: tierNames, eps: endpoints()}
	nk := 3 + r.intn(3)
	off := r.intn(len(plainKeys))
	for j := 0; j < nk; j++ {
		u.keys = append(u.keys, plainKeys[(off+j)%len(plainKeys)])
	}
	u.eps = u.eps[:2+r.intn(2)]
	g := &pgen{r: r, u: u, epProf: map[int][]string{}, known: map[string]bool{}, tags: map[string]bool{}}
	if r.intn(3) != 0 {
		g.push(pop{kind: "insync"})
	}
	for t := range u.tiers {
		if r.intn(2) == 0 {
			g.push(pop{kind: "tier", name: u.tiers[t], tier: genTier(r)})
		}
	}
	dir := r.intn(2) == 0
	nops := len(g.ops) + 8 + r.intn(20)
	for len(g.ops) < nops {
		if dir && r.intn(8) == 0 {
			g.directed()
		} else {
			g.randomOp()
		}
	}
	if dir {
		g.directed()
	}
	g.push(pop{kind: "insync"})
	g.push(pop{kind: "flush"})

	arc := calc.NewActiveRulesCalculator()
	arc.RuleScanner = stubScanner{}
	pr := calc.NewPolicyResolver()
	rec := &recorder{epNum: map[model.EndpointKey]int{}}
	for j, e := range u.eps {
		rec.epNum[e] = j + 1
	}
	pr.RegisterCallback(rec)
	arc.RegisterPolicyMatchListener(pr)

	var opsCoq, outsCoq, splitsCoq, trace []string
	for _, o := range g.ops {
		opsCoq = append(opsCoq, o.coq(u))
	}
	nonEmpty, panicked := 0, false
	for _, o := range g.ops {
		rec.cur = nil
		tl := o.text(u)
		if msg := safePApply(arc, pr, u, o); msg != "" {
			panicked = true
			trace = append(trace, tl+" PANIC: "+msg)
			break
		}
		if o.kind == "flush" {
			sort.SliceStable(rec.cur, func(a, b int) bool { return rec.cur[a].ep < rec.cur[b].ep })
			var outs []string
			for _, up := range rec.cur {
				if !up.present {
					outs = append(outs, fmt.Sprintf("(%d, None)", up.ep))
					tl += fmt.Sprintf(" ep%d:removed", up.ep)
					continue
				}
				ts := make([]string, len(up.tiers))
				for k, t := range up.tiers {
					ts[k] = toutCoq(t)
				}
				if len(up.tiers) > 0 {
					nonEmpty++
				}
				outs = append(outs, fmt.Sprintf("(%d, Some %s)", up.ep, lst(ts)))
				tl += fmt.Sprintf(" ep%d:%v", up.ep, up.tiers)
				nt, ut, pt, ft := calc.VerifTierInfoToProto(up.tiers)
				splitsCoq = append(splitsCoq, fmt.Sprintf("mkSplit %s %s %s %s", ptiersCoq(nt), ptiersCoq(ut), ptiersCoq(pt), ptiersCoq(ft)))
			}
			outsCoq = append(outsCoq, lst(outs))
		}
		trace = append(trace, tl)
	}
	coq := fmt.Sprintf("APipe (mk_pcase %s %s %s %s)", variant, lst(opsCoq), lst(outsCoq), lst(splitsCoq))
	tags := []string{"stream:pipeline"}
	if dir {
		tags[0] += "+directed"
	}
	if panicked {
		tags = append(tags, "panic")
	}
	var ts []string
	for t := range g.tags {
		ts = append(ts, t)
	}
	sort.Strings(ts)
	tags = append(tags, ts...)
	return line{Coq: coq, NT: nonEmpty > 0 && g.tags["profile-labels-arrive-after-reference"], Key: strings.Join(opsCoq, ";"),
		Sample: map[string]any{"trace": trace}, Tags: tags}
}
